#!/bin/sh
# seedcheck.sh <Cxx> <outdir-with-patch.diff-demo.py-meta.json> [name]
# Confirms a seeded change (baseline passes, demo fails with / passes without), runs ./check Cxx against /repo with the
# patch applied, undoes it, and stores everything under /verif/seeded/<name>/.
ID="$1"; OUT="$2"; NAME="${3:-$ID}"
D=/verif/seeded/$NAME
mkdir -p "$D"
cp "$OUT/patch.diff" "$OUT/demo.py" "$D/" 2>/dev/null
cp "$OUT/meta.json" "$D/meta.agent.json" 2>/dev/null
cd /repo || exit 2
if ! git diff --quiet; then echo "/repo has local changes; refusing"; exit 2; fi
PYTHONPATH=/repo /venv/bin/python "$D/demo.py" /repo >"$D/demo.unchanged.log" 2>&1; R0=$?
git apply "$D/patch.diff" || { echo "patch does not apply"; exit 2; }
PYTHONPATH=/repo /venv/bin/python "$D/demo.py" /repo >"$D/demo.changed.log" 2>&1; R1=$?
python3 /verif/tools/baseline.py /repo >"$D/baseline.log" 2>&1; RB=$?
cd /verif && ./check "$ID" --tier quick >"$D/check.quick.log" 2>&1; RC=$?
cp /verif/evidence/$ID.json "$D/evidence.changed.json" 2>/dev/null
mkdir -p "$D/replays"; cp /verif/replays/$ID-*.json "$D/replays/" 2>/dev/null
git -C /repo checkout -- .
echo "seed $NAME: demo unchanged exit=$R0 (want 0), demo changed exit=$R1 (want !=0), baseline exit=$RB (want 0), check exit=$RC (want 1)"
grep -h "VIOLATION\|KNOWN" "$D/check.quick.log" | head -5
tail -1 "$D/check.quick.log"
python3 - "$ID" "$D" "$R0" "$R1" "$RB" "$RC" <<'PY'
import json, sys, os
pid, d, r0, r1, rb, rc = sys.argv[1], sys.argv[2], *map(int, sys.argv[3:7])
try: agent = json.load(open(os.path.join(d, "meta.agent.json")))
except Exception: agent = {}
viol = [l.strip() for l in open(os.path.join(d, "check.quick.log")) if l.startswith("VIOLATION")]
json.dump({"property": pid, "summary": agent.get("summary"), "needs": agent.get("needs"), "files": agent.get("files"),
           "confirmed": {"demo_exit_unchanged_tree": r0, "demo_exit_changed_tree": r1, "baseline_exit_changed_tree": rb},
           "ran": ["git -C /repo apply patch.diff", "PYTHONPATH=/repo /venv/bin/python demo.py /repo", "python3 /verif/tools/baseline.py /repo",
                   "./check %s --tier quick" % pid, "git -C /repo checkout -- ."],
           "check_exit": rc, "detected": rc == 1 and bool(viol), "violation_lines": viol[:5]}, open(os.path.join(d, "meta.json"), "w"), indent=1)
PY
# restore the evidence of the unchanged tree
cd /verif && ./check "$ID" --tier quick >/dev/null 2>&1
