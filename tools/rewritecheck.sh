#!/bin/sh
# Harmless-rewrite campaign: every behaviour-preserving rewrite under selftest/rewrites/ is applied to a scratch
# worktree of /repo and all 20 quick checks are run against it (VERIF_REPO); every check must exit 0.
# Usage: tools/rewritecheck.sh <verif dir to run from> <outfile> [names...]
V=${1:-/verif}; OUT=${2:-/tmp/rewrites.txt}; shift 2
NAMES=${*:-$(cd /verif/selftest/rewrites && ls *.diff | sed 's/\.diff//')}
WT=${RW_WT:-/tmp/rwcheck-wt}
git -C /repo worktree remove --force $WT 2>/dev/null
git -C /repo worktree add -q --detach $WT HEAD || exit 2
: > $OUT
for n in $NAMES; do
  git -C $WT checkout -q -- . && git -C $WT apply /verif/selftest/rewrites/$n.diff || { echo "$n APPLY-FAILED" >> $OUT; continue; }
  for p in ${RW_PROPS:-C01 C02 C03 C04 C05 C06 C07 C08 C09 C10 C11 C12 C13 C14 C15 C16 C17 C18 C19 C20}; do
    r=$(cd $V && VERIF_REPO=$WT ./check $p 2>&1 | grep -a "VIOLATION\|quick:" | tr "\n" " "); 
    case "$r" in *VIOLATION*) echo "$n $p ALARM $r" >> $OUT;; *"violations 0"*) echo "$n $p ok" >> $OUT;; *) echo "$n $p ??? $r" >> $OUT;; esac
  done
done
git -C /repo worktree remove --force $WT
echo DONE >> $OUT
