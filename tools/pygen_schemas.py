"""Tie A, schema part: dump every command class (id, control type, blocking, parameters with their wire-type
descriptor) and every enum/bitmap member table reachable from a schema into Coq.

The classifier `classify(pytype)` maps a Python wire type to a descriptor tree:
   ("int", nbytes, signed) | ("fixbytes", n) | ("lvbytes", hdr, cap) | ("lvlist", hdr, item) | ("fixlist", n, item)
   | ("greedy", item) | ("struct", [(name, item)...]) | ("simpledesc",)
It is fail-closed: an unclassifiable type raises GenError.  The correspondence harness imports the same classifier to
convert Python values to model values, and tests every classification differentially (C16), so a wrong classification
shows up as a disagreement rather than as a silent gap."""
import enum
import os
import sys

REPO = os.environ.get("VERIF_REPO", "/repo")
if REPO not in sys.path:
    sys.path.insert(0, REPO)
sys.path.insert(0, os.path.dirname(os.path.abspath(__file__)))
import typeaccess as TA  # noqa: E402


class GenError(Exception):
    pass


def classify(ty):
    import zigpy.types as zt
    import zigpy.types.basic as zb
    import zigpy_zboss.types as t
    from zigpy_zboss.types import basic as tb
    from zigpy_zboss.types.structs import SimpleDescriptor
    if isinstance(ty, type) and issubclass(ty, zb.FixedIntType):
        bits = ty._bits
        if bits is None or bits % 8 != 0:
            raise GenError("sub-byte integer %r outside a struct" % ty)
        return ("int", bits // 8, bool(ty._signed))
    if isinstance(ty, type) and issubclass(ty, SimpleDescriptor):
        return ("simpledesc",)
    if isinstance(ty, type) and issubclass(ty, tb.ShortBytes):
        w = TA.header_width(ty, b"")
        return ("lvbytes", w, 256 ** w)
    if isinstance(ty, type) and issubclass(ty, zb.LVBytes):
        return ("lvbytes", ty._prefix_length, 256 ** ty._prefix_length - 1)
    if isinstance(ty, type) and issubclass(ty, tb.LVList):
        h = getattr(ty, "_header", None)
        if h is not None and classify(h)[0] != "int":
            raise GenError("LVList with a non-integer header %r" % ty)
        w = TA.header_width(ty, [])
        return ("lvlist", w, classify(TA.item_type(ty, "lv", w)))
    if isinstance(ty, type) and issubclass(ty, tb.FixedList):
        return ("fixlist", TA.fixed_length(ty), classify(TA.item_type(ty, "fixed")))
    if isinstance(ty, type) and issubclass(ty, tb.CompleteList):
        return ("greedy", classify(TA.item_type(ty, "greedy")))
    if isinstance(ty, type) and issubclass(ty, zb.LVList):
        hdr = classify(ty._length_type)
        return ("lvlist", hdr[1], classify(ty._item_type))
    if isinstance(ty, type) and issubclass(ty, zb.FixedList):
        item = classify(ty._item_type)
        if item == ("int", 1, False):
            return ("fixbytes", ty._length)
        return ("fixlist", ty._length, item)
    if isinstance(ty, type) and issubclass(ty, zb.List):
        return ("greedy", classify(ty._item_type))
    if isinstance(ty, type) and issubclass(ty, zt.Struct):
        fields = list(ty.fields)
        if any(getattr(f, "optional", False) or getattr(f, "requires", None) is not None for f in fields):
            raise GenError("struct %r with optional/conditional fields" % ty)
        sub = []
        bits_total = 0
        opaque = False
        for f in fields:
            ft = f.type
            if isinstance(ft, type) and issubclass(ft, zb.FixedIntType) and ft._bits % 8 != 0:
                opaque = True
                bits_total += ft._bits
                continue
            c = classify(ft)
            sub.append((f.name, c))
            sz = fixed_size(c)
            if sz is None:
                bits_total = None
            elif bits_total is not None:
                bits_total += 8 * sz
        if opaque:
            if bits_total is None or bits_total % 8 != 0:
                raise GenError("bit-field struct %r of non-fixed size" % ty)
            return ("fixbytes", bits_total // 8)
        return ("struct", sub)
    raise GenError("cannot classify wire type %r" % (ty,))


def fixed_size(c):
    k = c[0]
    if k == "int":
        return c[1]
    if k == "fixbytes":
        return c[1]
    if k == "fixlist":
        s = fixed_size(c[2])
        return None if s is None else s * c[1]
    if k == "struct":
        tot = 0
        for _, f in c[1]:
            s = fixed_size(f)
            if s is None:
                return None
            tot += s
        return tot
    return None


def wty_coq(c):
    k = c[0]
    if k == "int":
        return "(TInt %d)" % c[1]
    if k == "fixbytes":
        return "(TFixBytes %d)" % c[1]
    if k == "lvbytes":
        return "(TLVBytes %d %d)" % (c[1], c[2])
    if k == "lvlist":
        return "(TLVList %d %s)" % (c[1], wty_coq(c[2]))
    if k == "fixlist":
        return "(TFixList %d %s)" % (c[1], wty_coq(c[2]))
    if k == "greedy":
        return "(TGreedy %s)" % wty_coq(c[1])
    if k == "struct":
        return "(TStruct [%s])" % "; ".join(wty_coq(f) for _, f in c[1])
    if k == "simpledesc":
        return "TSimpleDesc"
    raise GenError("bad descriptor %r" % (c,))


def signedness(c):
    """Flat list of signed flags of the integer leaves (part of the layout identity for C19)."""
    k = c[0]
    if k == "int":
        return [c[2]]
    if k in ("lvlist", "fixlist"):
        return signedness(c[2])
    if k == "greedy":
        return signedness(c[1])
    if k == "struct":
        out = []
        for _, f in c[1]:
            out += signedness(f)
        return out
    return []


def all_commands():
    import zigpy_zboss.commands as c
    cmds = []
    for group in c.ALL_COMMANDS:
        for helper in group:
            for kind in ("Req", "Rsp", "Ind"):
                cls = getattr(helper, kind, None)
                if cls is not None:
                    cmds.append(cls)
    by_id = dict(c.COMMANDS_BY_ID)
    names = {cls.__qualname__ for cls in cmds}
    for h, cls in by_id.items():
        if cls.__qualname__ not in names:
            raise GenError("COMMANDS_BY_ID holds %s which ALL_COMMANDS does not reach" % cls.__qualname__)
    return cmds, by_id


HEADER = ("(* GENERATED by tools/pygen.py (pygen_schemas) from the repository working tree - do not edit *)\n"
          "From Coq Require Import NArith List String.\nFrom ZB Require Import Wire.Wty Cmd.Schema.\n"
          "Import ListNotations.\nOpen Scope N_scope.\nOpen Scope string_scope.\n\n")


def gen_schemas():
    cmds, by_id = all_commands()
    out = [HEADER]
    rows = []
    for cls in cmds:
        params = []
        for p in cls.schema:
            c = classify(p.type)
            sg = signedness(c)
            params.append("    {| p_name := \"%s\"; p_ty := %s; p_opt := %s; p_signed := [%s] |}"
                          % (p.name, wty_coq(c), "true" if p.optional else "false",
                             "; ".join("true" if s else "false" for s in sg)))
        hdr = int(cls.header)
        inmap = by_id.get(cls.header) is cls
        rows.append("  {| c_name := \"%s\"; c_header := %d; c_blocking := %s; c_registered := %s; c_params := [\n%s] |}"
                    % (cls.__qualname__, hdr, "true" if cls.blocking else "false", "true" if inmap else "false",
                       ";\n".join(params)))
    out.append("Definition schemas : list cmd := [\n%s\n].\n" % ";\n".join(rows))
    return "".join(out)


def reachable_enums():
    import zigpy.types.basic as zb
    cmds, _ = all_commands()
    seen = {}

    def visit(ty):
        if isinstance(ty, type) and issubclass(ty, enum.Enum) and issubclass(ty, zb.FixedIntType):
            seen[ty.__module__ + "." + ty.__qualname__] = ty
            return
        for attr in ("_item_type", "_header", "_length_type"):
            sub = getattr(ty, attr, None)
            if isinstance(sub, type):
                visit(sub)
        if hasattr(ty, "fields") and not isinstance(ty, enum.EnumMeta):
            try:
                for f in ty.fields:
                    if isinstance(f.type, type):
                        visit(f.type)
            except TypeError:
                pass
    import zigpy_zboss.types as t
    for cls in cmds:
        for p in cls.schema:
            visit(p.type)
    visit(t.LLFlags)
    visit(t.ControlType)
    return seen


def gen_enums():
    seen = reachable_enums()
    out = ["(* GENERATED by tools/pygen.py (pygen_schemas) from the repository working tree - do not edit *)\n"
           "From Coq Require Import NArith List String.\nImport ListNotations.\nOpen Scope N_scope.\nOpen Scope string_scope.\n\n"]
    rows = []
    for name in sorted(seen):
        ty = seen[name]
        members = []
        for m in ty.__members__.values():       # includes aliases, in definition order
            members.append("(\"%s\", %d)" % (m.name if hasattr(m, "name") else str(m), int(m.value)))
        # __members__ keeps alias names as keys
        members = ["(\"%s\", %d)" % (k, int(v.value)) for k, v in ty.__members__.items()]
        rows.append("  (\"%s\", %d, [%s])" % (name, ty._bits // 8, "; ".join(members)))
    out.append("Definition enums : list (string * N * list (string * N)) := [\n%s\n].\n" % ";\n".join(rows))
    return "".join(out)


STAGES = {"schemas": ("GenSchemas.v", gen_schemas), "enums": ("GenEnums.v", gen_enums)}
