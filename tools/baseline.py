#!/usr/bin/env python3
"""Run the repository's pinned test command and compare with /root/.vp/BASELINE.json stable_pass."""
import json, subprocess, sys, tempfile, xml.etree.ElementTree as ET, os
base = json.load(open("/root/.vp/BASELINE.json"))
repo = sys.argv[1] if len(sys.argv) > 1 else "/repo"
with tempfile.NamedTemporaryFile(suffix=".xml", delete=False) as f:
    x = f.name
env = dict(os.environ); env.pop("ZIGPY_ZBOSS_VERIF", None); env["PYTHONPATH"] = repo
subprocess.run("cd %s && /venv/bin/python -m pytest -ra -q -p no:cacheprovider --timeout=900 "
               "--continue-on-collection-errors --junitxml=%s >/dev/null 2>&1" % (repo, x), shell=True, env=env)
passed = set()
for tc in ET.parse(x).getroot().iter("testcase"):
    if not any(c.tag in ("failure", "error", "skipped") for c in tc):
        passed.add("%s::%s" % (tc.get("classname"), tc.get("name")))
os.unlink(x)
missing = [t for t in base["stable_pass"] if t not in passed]
print("baseline: %d/%d stable tests pass" % (len(base["stable_pass"]) - len(missing), len(base["stable_pass"])))
for m in missing:
    print("  MISSING", m)
sys.exit(1 if missing else 0)
