#!/bin/sh
# allseeds.sh: every kept seeded change is applied to /repo in turn, its property's quick check must exit 1 with a
# VIOLATION line, and the change is reverted straight afterwards.  Prints one line per seed.
cd /repo && git diff --quiet || { echo "/repo has local changes; refusing"; exit 2; }
for d in /verif/seeded/*/; do
  n=$(basename $d); p=$(echo $n | cut -c1-3)
  git -C /repo apply $d/patch.diff || { echo "$n APPLY-FAILED"; continue; }
  out=$(cd /verif && ./check $p 2>&1); rc=$?
  git -C /repo checkout -- .
  v=$(echo "$out" | grep -c "^VIOLATION")
  nf=$(echo "$out" | grep "^VIOLATION" | grep -c "no-failing-input-found")
  if [ $rc -eq 1 ] && [ $v -gt 0 ]; then echo "$n detected violations=$v no_input=$nf"; else echo "$n MISSED rc=$rc"; fi
done
