#!/usr/bin/env python3
"""Regenerate /verif/MANIFEST.json from the table below (kept here so the file is always valid)."""
import json
import os

V = os.path.dirname(os.path.dirname(os.path.abspath(__file__)))
props = [json.loads(l) for l in open(os.path.join(V, "properties.jsonl"))]

TB = ("Trusted: Coq 8.16.1 kernel incl. vm_compute (no native_compute); no axioms (Print Assumptions of every property "
      "theorem: closed under the global context, copied into the evidence); tools/pygen.py (translator); extraction "
      "(ExtrOcamlBasic only) + ocaml/driver.ml; the Python correspondence harness. ")

CHECKS = {
 "C01": ("Theorems over the model of uart._extract_frame/_extract_frames/data_received: extractor decision = format spec decision "
         "for every buffer; deliveries = greedy spec parse (spec CRCs) of the whole stream for every state, handler and partition "
         "into chunks (generic resynchronising-parser theory, induction, no bound); soundness, order/once, completeness outside "
         "earlier checksum-valid extents, promptness. Tie: differential execution of data_received vs the extracted model on "
         "structured streams x chunkings + the extracted spec parser as monitor on the impl alone.",
         TB + "Modelled, not verified: bytearray.find/slicing, zigpy uintN deserialize; the upper layer does not re-enter the protocol.",
         "Coq proof (resync theory + spec parse equivalence) + differential correspondence", "7 C01"),
 "C02": ("Theorems: the extractor never lets a foreign exception escape (explicit XRaise outcome proved unreachable), data_received "
         "never raises in any link state (any buffer, pack_seq, ACK event absent/clear/set, transport open/closed) for any chunks and "
         "handler; outputs independent of the handler; never deaf (after any input, a 65537-byte quiet gap then a well-formed frame is "
         "delivered; and without a gap outside claimed extents). Tie: directed impossible headers (size 0..12 x flags), ACKs in every "
         "state, raising handlers, probe suffixes.",
         TB + "Handler failures are exceptions derived from Exception (what the code catches).",
         "Coq proof + differential correspondence with directed fault inputs", "7 C02"),
 "C03": ("Theorems: table-driven CRC8/CRC16 over the REGENERATED tables = bitwise CRC-8/KOOP / CRC-16/KERMIT for all byte strings and "
         "start states; incremental law; all 1/2-bit errors over the 40 header bits and all <=16-bit bursts over any payload rejected. "
         "Tie: tables regenerated on every run + the update loops tested on all CRC8 (state,byte) pairs, CRC16 sample (all 2^24 in thorough).",
         TB + "Python loop semantics of the 3-line update loops as modelled (tested).",
         "Coq proof + regenerated tables + differential correspondence", "7 C03"),
 "C05": ("Theorems: bit-field read-back/independence for all 56/32-bit words; accessors translated from the source text = canonical "
         "(Tie A ii); for every command header, payload and sequence number the stamped frame's bytes are the spec encoding of a "
         "well-formed frame value, length field = bytes after the marker, and the independent spec decoder and the library decoder "
         "model recover the fields consuming exactly the frame; all 8 ACK frames. Tie: to_frame/serialize/stamping/ack/accessors vs model; "
         "spec decoder as monitor on impl bytes.",
         TB + "zigpy fixed-width int (de)serialisation is little-endian (tested).",
         "Coq proof + AST-translated accessors + differential correspondence", "7 C05"),
 "C06": ("Theorems: the write/deliver log is, per accepted data frame, exactly one spec-encoded ACK carrying that frame's packet "
         "sequence number followed by the delivery, nothing for ACK frames, independent of the handler; accepted frames = well-formed "
         "frames of the stream (C01). Tie: ordered log of transport.write and frame_received vs model, raising handlers, corrupted frames.",
         TB + "transport.write is a sink (recording transport).",
         "Coq proof + differential correspondence", "7 C06"),
 "C08": ("Theorems: for every event history the sequence state = seq_of(#matching ACKs since last close) with seq_of = 0,1,2,3,1,2,3..; "
         "only a matching ACK or close changes it; the receiver's ACK branch is that step; every send writes a well-formed frame with "
         "the current number and valid header checksum; the send scheduler of C07 keeps the same numbering (its number follows the "
         "history by the numbering model's step, every frame it writes carries the current number). Tie: histories through the real ZbossNcpProtocol under a virtual-time loop "
         "(all histories to depth 4/5 + random), independent reference rule as monitor.",
         TB + "asyncio/async_timeout under a virtual clock; sends issued one at a time (concurrency is C07).",
         "Coq proof (induction over histories) + differential correspondence", "7 C08"),
 "C09": ("Theorems (all message lengths, no bound): fragment list = frames of the labelled pieces; pieces concatenate to the message, "
         "each 1..247 bytes, count = ceil(n/247), exactly first flagged first and last flagged last; every stamped fragment is the spec "
         "encoding of a well-formed frame with body = its piece and length = body+7. Tie: handle_tx_fragmentation vs model for every "
         "total length 4..5*247+12 (9*247 thorough); spec decoder + partition conditions as monitor.",
         TB + "Fragments compared through Frame.serialize().",
         "Coq proof (list arithmetic, induction) + differential correspondence", "7 C09"),
 "C04": ("Theorems: parameter bytes = concatenation of the given parameters' encodings in schema order; for EVERY response/indication "
         "schema of the tree (regenerated on every run; side condition schema_ok decided by the kernel for all of them) and EVERY "
         "assignment the constructor accepts, from_frame(to_frame(a)) = a with nothing left over; accepted assignments have every "
         "value in range. Generic wire-type codec theory (C16) underneath. Tie: per class random valid assignments (to_frame body, "
         "from_frame) and invalid assignments (refused by both).",
         TB + "zigpy leaf types as modelled (tested per type in C16); an optional greedy list, when given, is non-empty (the wire cannot "
         "represent 'present but empty').",
         "Coq proof over regenerated schemas + differential correspondence", "7 C04"),
 "C15": ("Theorems over the model of from_frame: whatever is returned re-encodes to a prefix of the received bytes (nothing shifted or "
         "invented; complete = consumed everything); a response with non-zero status cut at ANY point after the status is returned, never "
         "rejected; with status zero / no status / not a response, a cut inside or right before a required field is rejected; a complete "
         "command followed by surplus bytes is rejected; all response schemas start with TSN,StatusCat,StatusCode (kernel-checked on the "
         "regenerated table); the same about from_frame as a whole for every response class of the tree (is-a-response = control "
         "type, no status parsed yet), indications never get the failure-status benefit. Tie: every response class x EVERY truncation point x status zero/non-zero x surplus suffixes.",
         TB + "zigpy leaf deserialisers raise ValueError on short data (tested in C16).",
         "Coq proof + differential correspondence at every truncation point", "7 C15"),
 "C16": ("Theorems by structural induction over a universe of wire-type descriptors (ints, fixed bytes, length-prefixed bytes and lists, "
         "fixed lists, greedy lists, structs, simple descriptors): decode(encode v ++ r) = (v, r); greedy types consume everything; "
         "every proper prefix of an encoding is an error; decoders never look beyond what they consume; what decodes re-encodes to the "
         "bytes consumed. C-structs (both alignment modes) and NVRAM dataset containers: separate sub-model (Wire/CStruct*, Wire/Nvram*). "
         "Tie: every Python wire type (63) x random values x suffixes x EVERY truncation point vs the model codec of its classified "
         "descriptor; randomly generated CStruct classes.",
         TB + "the classification of Python types into descriptors (tools/pygen_schemas.py) is itself what Tie B tests; bit-field structs "
         "are their n-byte image.",
         "Coq proof (nested structural induction) + differential correspondence", "7 C16"),
 "C18": ("Theorems over the model of send_packet / the APS data-indication handler / Bind_req / Unbind_req / the TSN generator, for all "
         "packets, indications and bind requests: payload unchanged, DataLength, ParamLength = 21, endpoints/cluster/profile/TSN, "
         "destination encoding per addressing mode, options preserved and none invented; indication fields and first PayloadLength bytes, "
         "destination kind by frame-control bits; sequence never 255; bind and unbind encoded alike. Tie: the real (unbound) methods with "
         "stub objects on random packets/indications/bind requests; monitors of the statement on the impl.",
         TB + "zigpy ZigbeePacket/AddrModeAddress/MultiAddress field access, _limit_concurrency are outside the model (stubs).",
         "Coq proof + differential correspondence with stubbed application objects", "7 C18"),
 "C19": ("Theorems decided by the kernel on the tables REGENERATED from the tree: schemas = pinned schemas (ids, control types, blocking, "
         "parameter order/width/signedness/optional flags), enum tables = pinned, headers one-to-one, every class registered, Req/Rsp "
         "paired; hence for ALL assignments current encoding = pinned encoding. Tie: all 870 pinned vectors re-encoded by impl and model, "
         "decoded back, COMMANDS_BY_ID.",
         TB + "the pinned tables and vectors (generated once from revision 8987de1 by tools/mkpinned.py, committed).",
         "Coq kernel equality of regenerated vs pinned tables + pinned wire vectors", "7 C19"),
 "C10": ("Theorems: from ANY pending reassembly state, the frames of a message - for every split into fragments (first >= 4 bytes) - "
         "deliver exactly that message once and leave nothing pending (a first-flagged frame starts afresh); sequences of messages after an "
         "arbitrary interrupted prefix deliver exactly those messages; the concatenated encodings of well-formed frames parse to exactly "
         "those frames (with C01: for every chunking); the transmitter's fragments are such frames (C09). Tie: large indications split "
         "randomly / by the host's own transmitter, interrupted sequences, random chunking through the real uart+api pair.",
         TB + "listeners observed through the public API; asyncio under a virtual clock.",
         "Coq proof (induction over fragment lists) + differential correspondence", "7 C10"),
 "C12": ("Theorems over the model of the listener table and frame_received's dispatch, for every history of {register waiter, register "
         "callback, cancel, receive (bursts within one loop step), settle}: a received command resolves at most one waiter, the oldest "
         "still-pending one with a matching pattern; no other future changes; exactly the matching callbacks are invoked, once each; a "
         "waiter is resolved only by its own command type. Tie: histories through the real ZBOSS object under a virtual-time loop "
         "(exhaustive short histories + random), independent monitor.",
         TB + "asyncio Future/done-callback semantics as modelled by the settle event.",
         "Coq proof (invariants over histories) + differential correspondence", "7 C12"),
 "C17": ("Theorems: matches = field-wise wildcarding (iff characterisation), reflexive, transitive (same schema), deduplication "
         "preserves the set of matched commands for every pattern list, never empties a non-empty list, a listener reacts exactly once "
         "iff some pattern matches, registered once per header. Tie: exhaustive small universes (all pattern lists up to length 2/3 over "
         "54 partial commands) + real classes through the real API; independent field-wise monitor.",
         TB + "command parameter values compared by equality of their serialisations.",
         "Coq proof + exhaustive small-universe and random differential correspondence", "7 C17"),
 "C07": ("Theorems over the state machine of uart.send (FIFO transmit lock, ACK wait) + the ACK branch of data_received, for EVERY event "
         "history (any number of concurrent senders; matching/stale/duplicate ACKs, silence, cancellation of the sender in flight or of "
         "queued ones, incoming data, close): a data frame is written only when none is in flight and a frame in flight ends only by its "
         "ACK, expiry or cancellation (stop-and-wait); callers are served in call order, each once (FIFO); a queued caller never waits "
         "while the link is free; in every reachable state an ACK carrying the current number ends the wait in progress; a wait lasts "
         "exactly ACK_TIMEOUT and expires at its deadline, not before. Tie: real uart.send under a virtual-time loop: all histories to depth 4/5 over a 9-letter alphabet + "
         "random histories with up to 4 senders; independent trace monitor with virtual write times.",
         TB + "PARTIAL w.r.t. the runtime: events are injected at quiescent points of the asyncio loop only; asyncio.Lock FIFO hand-over, "
         "Event and async_timeout are modelled by the macro-step semantics (tested, not verified).",
         "Coq proof (trace invariant by induction over histories) + differential correspondence", "7 C07"),
 "C11": ("Theorems over the API state machine (Api.v) for every event history: the trace obeys the lock discipline - a data frame is "
         "written only by the holder of the message lock and is the next fragment of its run (contiguous, in order, never interleaved), "
         "FIFO hand-over only on release; every stamped fragment is the spec encoding of a well-formed frame carrying its piece (C09/C05); "
         "a protocol-following NCP (spec parse + reassembly) recovers exactly header+parameters from a contiguous run (C10). Tie: real "
         "ZBOSS+uart pair under a virtual-time loop, scenario campaign + reference-NCP monitor on the bytes written. "
         "END TO END (Link/EndToEnd.v, Api/ApiWire.v): for every event history during which the transport stays open, the bytes the "
         "machine writes form a schedule of contiguous fragment runs with interspersed ACK frames, and the NCP (parse by the format, drop "
         "ACKs, concatenate first..last) receives exactly header+parameters of every request whose last fragment was written, in order.",
         TB + "PARTIAL w.r.t. the runtime only: quiescent-point injection; asyncio semantics modelled; write guards in the model make the "
         "lock discipline explicit (proved never to fail: guard_never_fails; validated by Tie B).",
         "Coq proof (trace invariant + end-to-end composition theorem) + differential correspondence + reference-NCP monitor", "7 C11"),
 "C13": ("Theorems for every event history: a request that is over never has a pending future (no waiter left) - whatever ended it "
         "(response, timeout, cancellation in any phase, close, loss, refusal); a late response changes no request; a response goes to the "
         "oldest LIVE waiter; outcomes are response/timeout/cancelled/runtime-error (never 'nothing'). Tie: scenario campaign + every "
         "cancellation/timeout point x follow-up request for the same command.",
         TB + "PARTIAL: quiescent-point injection only (cancellation delivered at every await the request can be parked on); asyncio "
         "semantics modelled.",
         "Coq proof (state invariant by induction over histories) + differential correspondence", "7 C13"),
 "C14": ("Theorems for every event history: lock discipline - a blocking request's frames are written only while it holds the blocking "
         "lock; the lock is acquired directly only when free with no waiters, waited for only when taken, handed over FIFO only when its "
         "holder (whose request ended) releases it; the trace's abstract lock state equals the state's. Tie: scenario campaign (blocking/"
         "non-blocking mixes, timing, timeouts, cancellations) + directed check that non-blocking requests do not wait for a blocking "
         "request's response. "
         "Also proved (Api/ApiLive.v): a non-blocking request issued while the link is up and no message is being sent writes its first "
         "fragment in that very step whatever the state of the blocking lock; in every reachable state the lock queues/holders are "
         "consistent with the requests' phases; the blocking lock's queue is always in issue order (Api/ApiFifo.v), so FIFO hand-over "
         "is first-come first-served.",
         TB + "PARTIAL w.r.t. the runtime only: quiescent-point injection; asyncio semantics modelled.",
         "Coq proof (trace invariant + state invariant) + differential correspondence", "7 C14"),
 "C20": ("Theorems: after close() / loss the link is absent and stays absent; a request issued then is refused in the same step; the "
         "application is told about a loss exactly when a loss happens while attached and no reset is in progress (count increases by "
         "exactly one then, by zero for every other event); the reset flag IS the history (raised by reset begin, lowered by reset end, "
         "touched by nothing else), so a loss between the begin and the end of a reset is never reported and one after it is; close "
         "detaches the app; no waiter survives. TERMINATION (Api/ApiLive.v): "
         "for every well-formed history, after close (no reset in progress) every request in whatever phase has ended once the ACK wait "
         "has passed, whatever events follow; after a loss every request has ended once the ACK wait plus the longest response timeout "
         "has passed; the scheduler never runs out of fuel. Tie: scenario campaign + close/loss at every quiescent point + the real "
         "reset() procedure x loss at every point.",
         TB + "PARTIAL w.r.t. the runtime only: the reconnect path of reset() is exercised on the implementation by the monitor but not "
         "modelled in Coq (the model has reset begin/end); quiescent-point injection; asyncio semantics modelled.",
         "Coq proof (safety + termination by invariant and potential function) + differential correspondence + monitors", "7 C20"),
}

checks = []
for p in props:
    pid = p["id"]
    if pid in CHECKS:
        text, note, tech, ref = CHECKS[pid]
        checks.append({"property_id": pid, "quick_cmd": "./check %s --tier quick" % pid,
                       "thorough_cmd": "./check %s --tier thorough" % pid,
                       "evidence_file": "/verif/evidence/%s.json" % pid,
                       "replay_cmd_template": "./check %s --replay {path}" % pid, "engine": "coq+harness",
                       "level_claimed": {"category": "proof", "text": text, "design_ref": "DESIGN.md section " + ref},
                       "level_note": note, "technique": tech})
m = {"version": 1, "setup_cmd": "./check setup",
     "hooks": {"guard": "ZIGPY_ZBOSS_VERIF",
               "enable": "no source hooks: the harness observes the code from outside (fake transport, virtual-time asyncio loop, "
                         "stub objects); the variable is exported by ./check for the record only",
               "baseline_off_cmd": "cd /repo && /venv/bin/python -m pytest -ra -q -p no:cacheprovider --timeout=900 "
                                   "--continue-on-collection-errors",
               "source_commits": [], "add_only": True},
     "engines": [{"name": "coq+harness", "path": "/verif/check", "serves_properties": sorted(CHECKS),
                  "kind_free_text": "Coq 8.16.1 development under /verif/coq (model, spec, proofs), translator tools/pygen.py, "
                                    "extracted OCaml model driver, Python correspondence harness"}],
     "checks": checks,
     "notes": "Properties not yet claimed are listed under not_applicable with the reason 'not built yet'; see DESIGN.md.",
     "not_applicable": [{"property_id": p["id"],
                         "reason": "check not built yet in this round (planned, DESIGN.md section 7); not a claim that the technique cannot apply"}
                        for p in props if p["id"] not in CHECKS]}
json.dump(m, open(os.path.join(V, "MANIFEST.json"), "w"), indent=1)
print("MANIFEST: %d checks, %d not yet built" % (len(checks), len(m["not_applicable"])))
