"""Class-level private attributes of the library's own types, by their usual name or, failing that, by behaviour.

Used by the translator (tools/pygen*.py) and by the harness.  The library's list / byte-string classes keep their item
type, length-prefix type and fixed length in private class attributes (`_item_type`, `_header`, `_length`) and the CRC
classes keep their lookup table and running value in `_table` / `_sum`; a harmless rewrite may rename any of them.
What these attributes MEAN is observable: the width of the prefix an empty list serialises to, the type of the items
a decoded list holds, the number of items a fixed list decodes, the one 256-entry integer table a CRC class carries.
"""

used_behaviour = {}      # "<class>.<what>" -> how it was found (goes into the evidence / translator log)


def _int_le(n, w):
    return int(n).to_bytes(w, "little")


def header_width(ty, empty):
    """Width in bytes of the length prefix of a length-prefixed list / byte string class."""
    h = getattr(ty, "_header", None)
    if isinstance(h, type) and hasattr(h, "_bits") and h._bits % 8 == 0:
        return h._bits // 8
    w = len(bytes(ty(empty).serialize()))
    if not 1 <= w <= 8:
        raise ValueError("cannot determine the length-prefix width of %r" % ty)
    used_behaviour["%s.length-prefix" % ty.__name__] = "width of the serialisation of the empty value"
    return w


def _first_item_type(ty, data_candidates):
    last = None
    for data in data_candidates:
        try:
            val, _ = ty.deserialize(data)
        except Exception as e:  # noqa
            last = e
            continue
        if len(val) >= 1:
            return type(val[0]), len(val)
    raise ValueError("cannot determine the item type of %r (%r)" % (ty, last))


def item_type(ty, kind, prefix_width=None):
    """Item type of a list class.  kind: 'lv' (length-prefixed), 'fixed', 'greedy'."""
    it = getattr(ty, "_item_type", None)
    if isinstance(it, type):
        return it
    if kind == "lv":
        cands = [_int_le(1, prefix_width) + bytes(4096)]
    elif kind == "fixed":
        cands = [bytes(65536)]
    else:
        cands = [bytes(n) for n in (840, 1, 2, 3, 4, 5, 6, 7, 8, 10, 12, 16, 20, 24, 32, 40, 48, 64)]
    t_, _ = _first_item_type(ty, cands)
    used_behaviour["%s.item-type" % ty.__name__] = "type of the items of a decoded value"
    return t_


def fixed_length(ty):
    n = getattr(ty, "_length", None)
    if isinstance(n, int) and not isinstance(n, bool):
        return n
    val, _ = ty.deserialize(bytes(65536))
    used_behaviour["%s.fixed-length" % ty.__name__] = "number of items decoded from a long input"
    return len(val)


def crc_table(cls):
    """The byte-wise transition table of a CRC class: table[i] = running value after byte i from running value 0."""
    t = getattr(cls, "_table", None)
    if t is None:
        cands = []
        for k in cls.__mro__:
            for name, v in vars(k).items():
                if isinstance(v, (list, tuple)) and len(v) == 256 and all(type(x) is int for x in v):
                    cands.append((name, v))
        if len(cands) == 1:
            used_behaviour["%s.table" % cls.__name__] = "the one 256-entry integer table of the class (%s)" % cands[0][0]
            t = cands[0][1]
        else:
            # no table to read on the class: the table the model needs IS the one-byte transition function from the
            # running value 0, observable through the public constructor (initial_string, initial_start) and digest()
            t = [int(cls(bytes([i]), 0).digest()) for i in range(256)]
            used_behaviour["%s.table" % cls.__name__] = "digest of each single byte from the running value 0 (public interface)"
    return list(t)


def crc_start(cls):
    o = cls()
    if hasattr(o, "_sum"):
        return o._sum
    used_behaviour["%s.start" % cls.__name__] = "digest of the empty input (public interface)"
    return int(o.digest())
