(* C19: the regenerated schema and enum tables are the pinned, interoperating revision's; identities are unique. *)
From Coq Require Import NArith List String Bool.
From ZB Require Import Wire.Wty Cmd.Schema Cmd.Command gen.GenSchemas gen.GenEnums pinned.PinnedSchemas pinned.PinnedEnums.
Import ListNotations.
Open Scope N_scope.

(* every command class: name, header (command id, control type), blocking flag, registration in
   COMMANDS_BY_ID, and for every parameter its name, wire type (order, width), optional flag, signedness *)
Theorem schemas_are_pinned : schemas = pinned_schemas.
Proof. reflexivity. Qed.

(* every enumeration / flag type reachable from a schema: width and every member's numeric value *)
Theorem enums_are_pinned : enums = pinned_enums.
Proof. reflexivity. Qed.

Fixpoint nodupb (l : list N) : bool :=
  match l with [] => true | x :: l' => negb (existsb (N.eqb x) l') && nodupb l' end.
Lemma nodupb_sound : forall l, nodupb l = true -> NoDup l.
Proof.
  induction l as [|x l IH]; intros H; [constructor|]. cbn [nodupb] in H. apply andb_true_iff in H. destruct H as [H1 H2].
  constructor; [|apply IH; exact H2]. intros Hin. apply negb_true_iff in H1.
  assert (E : existsb (N.eqb x) l = true) by (apply existsb_exists; exists x; split; [exact Hin|apply N.eqb_refl]). congruence.
Qed.

(* command headers identify command types one-to-one *)
Theorem headers_unique : NoDup (map c_header schemas).
Proof. apply nodupb_sound. vm_compute. reflexivity. Qed.

Theorem all_registered : forallb c_registered schemas = true.
Proof. vm_compute. reflexivity. Qed.

(* every request type is paired with the response type of the same id, and vice versa *)
Definition has (ctl id : N) : bool := existsb (fun c => (c_ctl c =? ctl) && (c_id c =? id)) schemas.
Theorem req_rsp_paired :
  forallb (fun c => implb (c_ctl c =? 0) (has 1 (c_id c)) && implb (c_ctl c =? 1) (has 0 (c_id c))) schemas = true.
Proof. vm_compute. reflexivity. Qed.

(* the header carries control type and id of its class kind; version 0 *)
Theorem header_shape : forallb (fun c => (N.land (c_header c) 255 =? 0) && (c_ctl c <? 3) && negb (c_header c =? 0)) schemas = true.
Proof. vm_compute. reflexivity. Qed.

(* hence, for ALL assignments, the bytes produced under the current schema are the bytes produced at the pinned revision *)
Theorem encoding_is_pinned : forall i a,
  enc_params (c_params (nth i schemas (nth 0 schemas (nth 0 pinned_schemas {| c_name := ""; c_header := 0; c_blocking := false; c_registered := false; c_params := [] |})))) a =
  enc_params (c_params (nth i pinned_schemas (nth 0 pinned_schemas (nth 0 pinned_schemas {| c_name := ""; c_header := 0; c_blocking := false; c_registered := false; c_params := [] |})))) a.
Proof. intros. rewrite schemas_are_pinned. reflexivity. Qed.
