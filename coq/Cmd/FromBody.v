(* from_frame as a whole (`from_body`): which commands are parsed as responses, and with which initial status.

   The theorems of CommandProofs.v about the failure-status branch are stated on the loop `dec_params` with the
   "is a response" flag and the "status parsed so far" as free arguments.  Here they are composed with the way
   `from_body` CALLS the loop - flag = (control type is RSP), no status parsed yet - and with the status prefix that
   every response schema of the tree has (TSN, StatusCat, StatusCode, one byte each), so that the statements are about
   the bytes of a whole response / indication. *)
From Coq Require Import NArith List String Bool Arith Lia.
From ZB Require Import Base.Bytes Wire.Wty Wire.WtyProofs Cmd.Schema Cmd.Command Cmd.CommandProofs.
Import ListNotations.
Open Scope list_scope.
Open Scope N_scope.

(* a response schema starts with TSN, StatusCat, StatusCode (one byte each, required) and has no other StatusCode *)
Definition rsp_prefix_ok (c : cmd) : bool :=
  match c_params c with
  | p1 :: p2 :: p3 :: rest =>
      (match p_ty p1, p_ty p2, p_ty p3 with TInt 1, TInt 1, TInt 1 => true | _, _, _ => false end) &&
      negb (is_status_code p1) && negb (is_status_code p2) && is_status_code p3 && no_status rest &&
      negb (p_opt p1) && negb (p_opt p2) && negb (p_opt p3)
  | _ => false
  end.

Lemma dec_int1 : forall t d, dec (TInt 1) (t :: d) = Some (VInt t, d).
Proof. intros t d. lazy beta iota delta [dec le_dec]. replace (t + 256 * 0) with t by lia. reflexivity. Qed.

Lemma cons_res_not_reject : forall x r, r <> Reject -> cons_res x r <> Reject.
Proof. intros x r H. destruct r; [discriminate|discriminate|congruence]. Qed.

Lemma cons_res_reject : forall x r, r = Reject -> cons_res x r = Reject.
Proof. intros x r H. subst. reflexivity. Qed.

(* the shape a response schema has, spelled out *)
Lemma rsp_prefix_shape : forall c, rsp_prefix_ok c = true ->
  exists p1 p2 p3 rest, c_params c = p1 :: p2 :: p3 :: rest /\
    p_ty p1 = TInt 1 /\ p_ty p2 = TInt 1 /\ p_ty p3 = TInt 1 /\
    is_status_code p1 = false /\ is_status_code p2 = false /\ is_status_code p3 = true /\ no_status rest = true /\
    p_opt p1 = false /\ p_opt p2 = false /\ p_opt p3 = false.
Proof.
  intros c H. unfold rsp_prefix_ok in H.
  destruct (c_params c) as [|p1 [|p2 [|p3 rest]]]; try discriminate.
  exists p1, p2, p3, rest.
  repeat (apply andb_true_iff in H; destruct H as [H ?]).
  destruct (p_ty p1) as [[|[|w1]]| | | | | | |]; try discriminate.
  destruct (p_ty p2) as [[|[|w2]]| | | | | | |]; try discriminate.
  destruct (p_ty p3) as [[|[|w3]]| | | | | | |]; try discriminate.
  repeat match goal with H : negb _ = true |- _ => apply negb_true_iff in H end.
  repeat split; assumption.
Qed.

(* what from_body does with the three status bytes of a response: the loop is entered for the remaining parameters
   as a response, with the status code just read *)
Lemma from_body_after_prefix : forall c p1 p2 p3 rest t cat n d,
  c_params c = p1 :: p2 :: p3 :: rest ->
  p_ty p1 = TInt 1 -> p_ty p2 = TInt 1 -> p_ty p3 = TInt 1 ->
  is_status_code p1 = false -> is_status_code p2 = false -> is_status_code p3 = true ->
  p_opt p1 = false -> p_opt p2 = false -> p_opt p3 = false ->
  from_body c (t :: cat :: n :: d) =
  cons_res (Some (VInt t)) (cons_res (Some (VInt cat)) (cons_res (Some (VInt n))
    (dec_params (c_ctl c =? 1) rest (Some n) d))).
Proof.
  intros c p1 p2 p3 rest t cat n d Hp T1 T2 T3 S1 S2 S3 O1 O2 O3.
  unfold from_body. rewrite Hp. cbn [dec_params].
  rewrite O1, O2, O3, T1, T2, T3, !andb_false_r, !dec_int1, S1, S2, S3. reflexivity.
Qed.

(* (1) A RESPONSE whose status code is not zero, cut short at ANY point after the status, is returned, never rejected. *)
Theorem from_body_failure_response_returned : forall c rest_a t cat n k,
  c_ctl c = 1 -> rsp_prefix_ok c = true -> schema_ok (c_params c) = true ->
  n <> 0 ->
  opt_prefix_ok (skipn 3 (c_params c)) rest_a false = true -> values_ok (skipn 3 (c_params c)) rest_a = true ->
  from_body c (t :: cat :: n :: firstn k (enc_params (skipn 3 (c_params c)) rest_a)) <> Reject.
Proof.
  intros c a t cat n k Hctl Hpre Hok Hn Ho Hv.
  destruct (rsp_prefix_shape c Hpre) as (p1 & p2 & p3 & rest & Hp & T1 & T2 & T3 & S1 & S2 & S3 & Hns & O1 & O2 & O3).
  rewrite (from_body_after_prefix c p1 p2 p3 rest t cat n _ Hp T1 T2 T3 S1 S2 S3 O1 O2 O3).
  rewrite Hp in Ho, Hv, Hok. cbn [skipn] in Ho, Hv.
  replace (skipn 3 (c_params c)) with rest by (rewrite Hp; reflexivity).
  rewrite Hctl. cbn [N.eqb Pos.eqb].
  do 3 apply cons_res_not_reject.
  unfold schema_ok in Hok. cbn [schema_ok_from] in Hok. rewrite O1, O2, O3 in Hok. cbn [orb negb andb] in Hok.
  repeat (apply andb_true_iff in Hok; destruct Hok as [? Hok]).
  apply (failure_status_never_rejected rest a false false k n Hns Hok Ho Hv); [discriminate|exact Hn].
Qed.

(* (2) The same bytes with status code ZERO, cut inside (or right before) a required parameter: rejected. *)
Theorem from_body_success_response_truncated_rejected : forall c ps1 a1 p ps2 v q s t cat,
  c_ctl c = 1 -> rsp_prefix_ok c = true ->
  skipn 3 (c_params c) = ps1 ++ p :: ps2 -> no_status ps1 = true ->
  all_given_required ps1 a1 = true ->
  p_opt p = false -> selfdelim (p_ty p) = true -> valid (p_ty p) v = true -> enc (p_ty p) v = q ++ s -> s <> [] ->
  from_body c (t :: cat :: 0 :: enc_params ps1 a1 ++ q) = Reject.
Proof.
  intros c ps1 a1 p ps2 v q s t cat Hctl Hpre Hsk Hns1 Hreq Hopt Hsd Hval Henc Hs.
  destruct (rsp_prefix_shape c Hpre) as (p1 & p2 & p3 & rest & Hp & T1 & T2 & T3 & S1 & S2 & S3 & Hns & O1 & O2 & O3).
  rewrite (from_body_after_prefix c p1 p2 p3 rest t cat 0 _ Hp T1 T2 T3 S1 S2 S3 O1 O2 O3).
  rewrite Hp in Hsk. cbn [skipn] in Hsk. rewrite Hsk.
  do 3 apply cons_res_reject.
  apply (truncated_is_rejected ps1 a1 p ps2 v q s _ (Some 0) Hreq Hopt Hsd Hval Henc Hs).
  right. right.
  (* no parameter of ps1 is a status code: the status stays the one read in the prefix *)
  clear - Hns1. revert a1. induction ps1 as [|p' ps' IH]; intros a1; [reflexivity|].
  cbn [no_status forallb] in Hns1. apply andb_true_iff in Hns1. destruct Hns1 as [Hp' Hns'].
  apply negb_true_iff in Hp'. destruct a1 as [|[v'|] a']; cbn [status_after]; try reflexivity; rewrite ?Hp'; apply IH; exact Hns'.
Qed.

(* (3) An INDICATION (or anything that is not a response) is never given the benefit of a failure status: cut inside
   or right before a required parameter it is rejected, whatever its fields are called or contain. *)
Theorem from_body_indication_truncated_rejected : forall c ps1 a1 p ps2 v q s,
  c_ctl c <> 1 ->
  c_params c = ps1 ++ p :: ps2 ->
  all_given_required ps1 a1 = true ->
  p_opt p = false -> selfdelim (p_ty p) = true -> valid (p_ty p) v = true -> enc (p_ty p) v = q ++ s -> s <> [] ->
  from_body c (enc_params ps1 a1 ++ q) = Reject.
Proof.
  intros c ps1 a1 p ps2 v q s Hctl Hp Hreq Hopt Hsd Hval Henc Hs.
  unfold from_body. rewrite Hp.
  replace (c_ctl c =? 1) with false by (symmetry; apply N.eqb_neq; exact Hctl).
  apply (truncated_is_rejected ps1 a1 p ps2 v q s false None Hreq Hopt Hsd Hval Henc Hs). left. reflexivity.
Qed.

(* (4) A response cut INSIDE its three status bytes is rejected (no status has been read yet). *)
Theorem from_body_cut_inside_status_rejected : forall c d,
  c_ctl c = 1 -> rsp_prefix_ok c = true -> (List.length d < 3)%nat -> from_body c d = Reject.
Proof.
  intros c d Hctl Hpre Hl.
  destruct (rsp_prefix_shape c Hpre) as (p1 & p2 & p3 & rest & Hp & T1 & T2 & T3 & S1 & S2 & S3 & Hns & O1 & O2 & O3).
  unfold from_body. rewrite Hp, Hctl. cbn [N.eqb Pos.eqb].
  destruct d as [|t [|cat [|n d']]]; cbn [dec_params];
    rewrite ?O1, ?O2, ?O3, ?T1, ?T2, ?T3, ?andb_false_r, ?dec_int1, ?S1, ?S2, ?S3; cbn [dec le_dec andb cons_res];
    try reflexivity.
  simpl in Hl. lia.
Qed.

(* ---- from_frame with its header guard: `if frame.hl_packet.header != cls.header: raise ValueError` comes first *)
Definition from_frame (c : cmd) (hdr : N) (data : list N) : pres :=
  if hdr =? c_header c then from_body c data else Reject.

Lemma nodup_map_inj : forall (A B : Type) (f : A -> B) (l : list A) x y,
  NoDup (map f l) -> In x l -> In y l -> f x = f y -> x = y.
Proof.
  intros A B f l. induction l as [|a l IH]; intros x y Hnd Hx Hy E; [contradiction|].
  cbn [map] in Hnd. inversion Hnd as [|b m Hnot Hnd']; subst.
  destruct Hx as [Hx|Hx]; destruct Hy as [Hy|Hy]; subst.
  - reflexivity.
  - exfalso. apply Hnot. rewrite E. apply in_map. exact Hy.
  - exfalso. apply Hnot. rewrite <- E. apply in_map. exact Hx.
  - apply IH; assumption.
Qed.

(* a frame is accepted only by a class whose header it carries; with one-to-one headers over a table of classes, at
   most one class of the table accepts it - and it is the one the header names *)
Theorem from_frame_only_for_own_header : forall c hdr data, from_frame c hdr data <> Reject -> hdr = c_header c.
Proof.
  intros c hdr data H. unfold from_frame in H. destruct (hdr =? c_header c) eqn:E; [apply N.eqb_eq; exact E|congruence].
Qed.

Theorem at_most_one_class_accepts : forall (table : list cmd) c1 c2 hdr d1 d2,
  NoDup (map c_header table) -> In c1 table -> In c2 table ->
  from_frame c1 hdr d1 <> Reject -> from_frame c2 hdr d2 <> Reject -> c1 = c2.
Proof.
  intros table c1 c2 hdr d1 d2 Hnd H1 H2 A1 A2.
  apply (nodup_map_inj _ _ c_header table c1 c2 Hnd H1 H2).
  rewrite <- (from_frame_only_for_own_header _ _ _ A1), <- (from_frame_only_for_own_header _ _ _ A2). reflexivity.
Qed.
