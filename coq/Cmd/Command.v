(* MODEL of CommandBase (types/commands.py): constructor acceptance, to_frame's parameter encoding,
   from_frame's parameter decoding incl. the failure-status branch. *)
From Coq Require Import NArith List String Bool Arith.
From ZB Require Import Base.Bytes Wire.Wty Cmd.Schema.
Import ListNotations.
Open Scope N_scope.

(* an assignment: one entry per schema parameter, None = not given *)
Definition assignment := list (option value).

(* optional parameters must be passed without skips: once one is omitted, all later optional ones are *)
Fixpoint opt_prefix_ok (ps : list param) (a : assignment) (omitted : bool) : bool :=
  match ps, a with
  | [], [] => true
  | p :: ps', x :: a' =>
      if p_opt p then
        match x with
        | None => opt_prefix_ok ps' a' true
        | Some _ => negb omitted && opt_prefix_ok ps' a' omitted
        end
      else match x with None => false | Some _ => opt_prefix_ok ps' a' omitted end
  | _, _ => false
  end.

Definition is_greedy (t : wty) : bool := match t with TGreedy _ => true | _ => false end.
Definition nonempty_list (v : value) : bool := match v with VList (_ :: _) => true | _ => false end.

(* each given value valid for its type; an optional greedy list, when given, is non-empty
   (the wire cannot tell "present but empty" from "absent") *)
Fixpoint values_ok (ps : list param) (a : assignment) : bool :=
  match ps, a with
  | [], [] => true
  | p :: ps', x :: a' =>
      match x with
      | None => true
      | Some v => valid (p_ty p) v && (negb (p_opt p && is_greedy (p_ty p)) || nonempty_list v)
      end && values_ok ps' a'
  | _, _ => false
  end.

(* CommandBase.__init__ (partial=False) accepts exactly these *)
Definition construct_ok (ps : list param) (a : assignment) : bool := opt_prefix_ok ps a false && values_ok ps a.

(* to_frame: concatenation of the given parameters' encodings in schema order *)
Fixpoint enc_params (ps : list param) (a : assignment) : list N :=
  match ps, a with
  | p :: ps', Some v :: a' => enc (p_ty p) v ++ enc_params ps' a'
  | _ :: ps', None :: a' => enc_params ps' a'
  | _, _ => []
  end.

Inductive pres := Accept (a : assignment) | Partial (a : assignment) | Reject.

Definition cons_res (x : option value) (r : pres) : pres :=
  match r with Accept a => Accept (x :: a) | Partial a => Partial (x :: a) | Reject => Reject end.

Definition nones (ps : list param) : assignment := map (fun _ => None) ps.

Definition is_status_code (p : param) : bool := String.eqb (p_name p) "StatusCode".

(* from_frame's loop.  rsp: the command is a response; status: value of the StatusCode parameter if
   already parsed.  Reject = ValueError / KeyError out of from_frame. *)
Fixpoint dec_params (rsp : bool) (ps : list param) (status : option N) (data : list N) : pres :=
  match ps with
  | [] => match data with [] => Accept [] | _ => Reject end     (* trailing data *)
  | p :: ps' =>
      if (match data with [] => true | _ => false end) && p_opt p then Accept (nones ps)
      else
      match dec (p_ty p) data with
      | Some (v, data') =>
          let status' := if is_status_code p then (match v with VInt n => Some n | _ => status end) else status in
          cons_res (Some v) (dec_params rsp ps' status' data')
      | None =>
          if rsp then
            match status with
            | None => Reject                                     (* KeyError: status not parsed yet *)
            | Some n => if n =? 0 then Reject else Partial (nones ps)
            end
          else Reject
      end
  end.

Definition from_body (c : cmd) (data : list N) : pres :=
  dec_params (c_ctl c =? 1) (c_params c) None data.

(* schemas whose decoding is unambiguous: every parameter self-delimiting, except that the LAST may be
   a greedy list of self-delimiting non-empty items; optional parameters form a suffix and never
   encode to nothing *)
Definition greedy_item_ok (t : wty) : bool :=
  match t with TGreedy t' => selfdelim t' && nonempty_enc t' | _ => false end.
Definition is_nil {A} (l : list A) : bool := match l with [] => true | _ => false end.

Fixpoint schema_ok_from (ps : list param) (seen_opt : bool) : bool :=
  match ps with
  | [] => true
  | p :: ps' =>
      (if p_opt p then true else negb seen_opt) &&
      (if is_greedy (p_ty p) then greedy_item_ok (p_ty p) && is_nil ps'
       else selfdelim (p_ty p) && (negb (p_opt p) || nonempty_enc (p_ty p))) &&
      schema_ok_from ps' (seen_opt || p_opt p)
  end.
Definition schema_ok (ps : list param) : bool := schema_ok_from ps false.
