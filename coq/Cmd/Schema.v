(* Command schemas as data (regenerated from the tree into gen/GenSchemas.v) *)
From Coq Require Import NArith List String Bool.
From ZB Require Import Wire.Wty.
Import ListNotations.

Record param := { p_name : string; p_ty : wty; p_opt : bool; p_signed : list bool }.
Record cmd := { c_name : string; c_header : N; c_blocking : bool; c_registered : bool; c_params : list param }.

(* header fields: version (bits 0-7), control type (8-15), id (16-31) *)
Definition c_ctl (c : cmd) : N := N.land (N.shiftr (c_header c) 8) 255.
Definition c_id (c : cmd) : N := N.shiftr (c_header c) 16.
