(* C04 / C15: typed commands survive encode -> wire -> decode; failure responses cut short are
   returned; truncated or surplus data is rejected; nothing shifted or invented. *)
From Coq Require Import NArith List String Bool Lia Arith.
From ZB Require Import Base.Bytes Wire.Wty Wire.WtyProofs Cmd.Schema Cmd.Command gen.GenSchemas.
Import ListNotations.
Open Scope list_scope.
Open Scope N_scope.

(* ---------------------------------------------------------------------- *)
(* layout: the parameter encodings of the given parameters in schema order *)

Fixpoint given_encodings (ps : list param) (a : assignment) : list (list N) :=
  match ps, a with
  | p :: ps', Some v :: a' => enc (p_ty p) v :: given_encodings ps' a'
  | _ :: ps', None :: a' => given_encodings ps' a'
  | _, _ => []
  end.

Theorem enc_params_layout : forall ps a, enc_params ps a = List.concat (given_encodings ps a).
Proof.
  induction ps as [|p ps IH]; intros a; [reflexivity|]. destruct a as [|[v|] a]; cbn [enc_params given_encodings List.concat];
    [reflexivity|rewrite IH; reflexivity|apply IH].
Qed.

(* values outside a parameter's range are refused at construction *)
Theorem construct_checks_values : forall ps a, construct_ok ps a = true -> values_ok ps a = true.
Proof. intros ps a H. unfold construct_ok in H. apply andb_true_iff in H. apply H. Qed.

Lemma values_ok_cons : forall p ps v a, values_ok (p :: ps) (Some v :: a) = true ->
  valid (p_ty p) v = true /\ (negb (p_opt p && is_greedy (p_ty p)) || nonempty_list v) = true /\ values_ok ps a = true.
Proof. intros p ps v a H. cbn [values_ok] in H. apply andb_true_iff in H. destruct H as [H1 H2]. apply andb_true_iff in H1. tauto. Qed.

(* ---------------------------------------------------------------------- *)
(* once an optional parameter is omitted, everything after it is omitted and encodes to nothing *)

Lemma omitted_rest : forall ps a, schema_ok_from ps true = true -> opt_prefix_ok ps a true = true ->
  a = nones ps /\ enc_params ps a = [].
Proof.
  induction ps as [|p ps IH]; intros a Hs Ho.
  - destruct a; [split; reflexivity|discriminate].
  - destruct a as [|x a]; [discriminate|]. cbn [schema_ok_from] in Hs. apply andb_true_iff in Hs. destruct Hs as [Hs1 Hs2].
    apply andb_true_iff in Hs1. destruct Hs1 as [Hreq _]. cbn [opt_prefix_ok] in Ho.
    destruct (p_opt p) eqn:Op; [|discriminate]. cbn [orb] in Hs2.
    destruct x as [v|].
    + cbn [negb andb] in Ho. discriminate.
    + destruct (IH a Hs2 Ho) as [E1 E2]. split; [cbn [nones map]; f_equal; exact E1|cbn [enc_params]; exact E2].
Qed.

Lemma greedy_nonempty_enc : forall t vs, nonempty_enc t = true -> forallb (valid t) vs = true -> vs <> [] ->
  List.concat (map (enc t) vs) <> [].
Proof.
  intros t vs Hne Hv Hvs. destruct vs as [|v vs]; [congruence|]. cbn [forallb] in Hv. apply andb_true_iff in Hv. destruct Hv as [Hv _].
  cbn [map List.concat]. intros E. apply app_eq_nil in E. destruct E as [E _]. exact (nonempty_enc_spec t Hne v Hv E).
Qed.

(* ---------------------------------------------------------------------- *)
(* C04: decode (encode a) = a *)

Theorem roundtrip_params : forall ps a so om rsp st,
  schema_ok_from ps so = true -> opt_prefix_ok ps a om = true -> values_ok ps a = true -> (om = true -> so = true) ->
  dec_params rsp ps st (enc_params ps a) = Accept a.
Proof.
  induction ps as [|p ps IH]; intros a so om rsp st Hs Ho Hv Himp.
  - destruct a; [reflexivity|discriminate].
  - destruct a as [|x a]; [discriminate|].
    pose proof Hs as Hs0. cbn [schema_ok_from] in Hs. apply andb_true_iff in Hs. destruct Hs as [Hs1 Hs2].
    apply andb_true_iff in Hs1. destruct Hs1 as [Hreq Hty].
    destruct x as [v|].
    + (* given *)
      destruct (values_ok_cons _ _ _ _ Hv) as (Hval & Hne & Hv').
      assert (Ho' : opt_prefix_ok ps a om = true /\ (p_opt p = true -> om = false)).
      { cbn [opt_prefix_ok] in Ho. destruct (p_opt p); [|split; [exact Ho|discriminate]].
        apply andb_true_iff in Ho. destruct Ho as [A B]. split; [exact B|]. intros _. destruct om; [discriminate|reflexivity]. }
      destruct Ho' as [Ho' Hom].
      cbn [enc_params dec_params].
      (* the data is not empty when the parameter is optional *)
      assert (Hdata : ((match enc (p_ty p) v ++ enc_params ps a with [] => true | _ => false end) && p_opt p) = false).
      { destruct (p_opt p) eqn:Op; [|apply andb_false_r]. rewrite andb_true_r.
        assert (Hnz : enc (p_ty p) v <> []).
        { destruct (is_greedy (p_ty p)) eqn:G.
          - destruct (p_ty p) eqn:Et; try discriminate. cbn [greedy_item_ok] in Hty.
            apply andb_true_iff in Hty. destruct Hty as [Hty _]. apply andb_true_iff in Hty. destruct Hty as [_ Hn].
            cbn [andb negb orb] in Hne. destruct v as [| |vs]; try discriminate. cbn [valid] in Hval. cbn [enc].
            apply greedy_nonempty_enc; [exact Hn|exact Hval|]. destruct vs; discriminate.
          - apply andb_true_iff in Hty. destruct Hty as [_ Hn]. cbn [negb orb] in Hn.
            apply nonempty_enc_spec; assumption. }
        destruct (enc (p_ty p) v ++ enc_params ps a) eqn:Ee; [|reflexivity]. apply app_eq_nil in Ee. destruct Ee as [Ee _]. congruence. }
      rewrite Hdata.
      assert (Hdec : dec (p_ty p) (enc (p_ty p) v ++ enc_params ps a) = Some (v, enc_params ps a)).
      { destruct (is_greedy (p_ty p)) eqn:G.
        - destruct (p_ty p) eqn:Et; try discriminate. cbn [greedy_item_ok] in Hty.
          apply andb_true_iff in Hty. destruct Hty as [Hty Hlast]. apply andb_true_iff in Hty. destruct Hty as [Hsd Hn].
          destruct ps; [|discriminate]. destruct a; [|discriminate]. cbn [enc_params]. rewrite app_nil_r.
          destruct v as [| |vs]; try discriminate. apply greedy_roundtrip; assumption.
        - apply andb_true_iff in Hty. destruct Hty as [Hsd _]. apply roundtrip; assumption. }
      rewrite Hdec. rewrite (IH a (so || p_opt p)%bool om rsp _ Hs2 Ho' Hv'); [reflexivity|].
      intros E. rewrite (Himp E). reflexivity.
    + (* omitted: optional, and so is everything after it *)
      cbn [opt_prefix_ok] in Ho. destruct (p_opt p) eqn:Op; [|discriminate].
      rewrite orb_true_r in Hs2. destruct (omitted_rest ps a Hs2 Ho) as [E1 E2].
      cbn [enc_params dec_params]. rewrite E2. rewrite Op. cbn [andb]. rewrite E1. reflexivity.
Qed.

Theorem C04_roundtrip : forall c a, schema_ok (c_params c) = true -> construct_ok (c_params c) a = true ->
  from_body c (enc_params (c_params c) a) = Accept a.
Proof.
  intros c a Hs Hc. unfold construct_ok in Hc. apply andb_true_iff in Hc. destruct Hc as [Ho Hv].
  unfold from_body. apply (roundtrip_params _ _ false false); [exact Hs|exact Ho|exact Hv|discriminate].
Qed.

(* every response / indication schema of the tree (regenerated) satisfies the side condition *)
Definition decodable (c : cmd) : bool := (c_ctl c =? 1) || (c_ctl c =? 2).
Lemma all_decoded_schemas_ok : forallb (fun c => implb (decodable c) (schema_ok (c_params c))) schemas = true.
Proof. vm_compute. reflexivity. Qed.

Theorem C04_all_commands : forall c a, In c schemas -> decodable c = true -> construct_ok (c_params c) a = true ->
  from_body c (enc_params (c_params c) a) = Accept a.
Proof.
  intros c a Hin Hd Hc. apply C04_roundtrip; [|exact Hc].
  pose proof all_decoded_schemas_ok as H. rewrite forallb_forall in H. specialize (H c Hin). rewrite Hd in H. exact H.
Qed.

(* ---------------------------------------------------------------------- *)
(* C15 (a): whatever from_frame returns re-encodes to a prefix of the received bytes: no field is
   shifted or invented; an accepted command consumed everything *)

Lemma enc_params_nones : forall ps, enc_params ps (nones ps) = [].
Proof. induction ps as [|q ps IH]; [reflexivity|exact IH]. Qed.

Theorem decoded_is_prefix : forall ps rsp st data, bytes_ok data ->
  (forall a, dec_params rsp ps st data = Accept a -> data = enc_params ps a) /\
  (forall a, dec_params rsp ps st data = Partial a -> exists rest, data = enc_params ps a ++ rest).
Proof.
  induction ps as [|p ps IH]; intros rsp st data Hok.
  - cbn [dec_params]. destruct data; split; intros a H; try discriminate. injection H as <-. reflexivity.
  - cbn [dec_params].
    destruct ((match data with [] => true | _ => false end) && p_opt p) eqn:E0.
    + apply andb_true_iff in E0. destruct E0 as [Ed _]. destruct data; [|discriminate].
      split; intros a H; [|discriminate]. assert (Ea : a = nones (p :: ps)) by congruence. rewrite Ea, enc_params_nones. reflexivity.
    + destruct (dec (p_ty p) data) as [[v data']|] eqn:Ed.
      * destruct (dec_sound _ _ _ _ Hok Ed) as [E1 Hok'].
        set (st' := if is_status_code p then match v with VInt n => Some n | _ => st end else st).
        destruct (IH rsp st' data' Hok') as [IA IP].
        destruct (dec_params rsp ps st' data') as [a'|a'|] eqn:Er; cbn [cons_res]; split; intros a H; try discriminate.
        -- injection H as <-. cbn [enc_params]. rewrite <- (IA a' eq_refl). exact E1.
        -- injection H as <-. destruct (IP a' eq_refl) as [rest Erest]. exists rest. cbn [enc_params].
           rewrite <- app_assoc, <- Erest. exact E1.
      * split; intros a H.
        -- destruct rsp; [|discriminate]. destruct st as [n|]; [|discriminate]. destruct (n =? 0); discriminate.
        -- exists data. destruct rsp; [|discriminate]. destruct st as [n|]; [|discriminate]. destruct (n =? 0); [discriminate|].
           assert (Ea : a = nones (p :: ps)) by congruence. rewrite Ea, enc_params_nones. reflexivity.
Qed.

(* ---------------------------------------------------------------------- *)
(* C15 (b): a response with a non-zero status, cut short anywhere after the status, is returned, never rejected *)

Definition no_status (ps : list param) : bool := forallb (fun p => negb (is_status_code p)) ps.

Lemma firstn_app_ge : forall (A : Type) c (x y : list A), (List.length x <= c)%nat -> firstn c (x ++ y) = x ++ firstn (c - List.length x) y.
Proof. intros. rewrite firstn_app. rewrite firstn_all2 by assumption. reflexivity. Qed.
Lemma firstn_app_lt : forall (A : Type) c (x y : list A), (c < List.length x)%nat -> firstn c (x ++ y) = firstn c x.
Proof. intros. rewrite firstn_app. replace (c - List.length x)%nat with O by lia. cbn. apply app_nil_r. Qed.

Lemma dec_empty_rest : forall t v r, dec t [] = Some (v, r) -> r = [].
Proof.
  intros t v r H. assert (Hok : bytes_ok (@nil N)) by constructor. destruct (dec_sound _ _ _ _ Hok H) as [E _].
  symmetry in E. apply app_eq_nil in E. apply E.
Qed.

Theorem failure_status_never_rejected : forall ps a so om c n,
  no_status ps = true -> schema_ok_from ps so = true -> opt_prefix_ok ps a om = true -> values_ok ps a = true ->
  (om = true -> so = true) -> n <> 0 ->
  dec_params true ps (Some n) (firstn c (enc_params ps a)) <> Reject.
Proof.
  induction ps as [|p ps IH]; intros a so om c n Hns Hs Ho Hv Himp Hn.
  - destruct a; [|discriminate]. cbn [enc_params]. destruct c; discriminate.
  - destruct a as [|x a]; [discriminate|].
    cbn [no_status forallb] in Hns. apply andb_true_iff in Hns. destruct Hns as [Hp Hns]. apply negb_true_iff in Hp.
    cbn [schema_ok_from] in Hs. apply andb_true_iff in Hs. destruct Hs as [Hs1 Hs2].
    apply andb_true_iff in Hs1. destruct Hs1 as [Hreq Hty].
    destruct x as [v|].
    + destruct (values_ok_cons _ _ _ _ Hv) as (Hval & Hne & Hv').
      assert (Ho' : opt_prefix_ok ps a om = true).
      { cbn [opt_prefix_ok] in Ho. destruct (p_opt p); [|exact Ho]. apply andb_true_iff in Ho. apply Ho. }
      cbn [enc_params dec_params]. rewrite Hp.
      destruct ((match firstn c (enc (p_ty p) v ++ enc_params ps a) with [] => true | _ => false end) && p_opt p); [discriminate|].
      assert (Hrec : forall d', dec_params true ps (Some n) d' <> Reject -> forall v', cons_res (Some v') (dec_params true ps (Some n) d') <> Reject).
      { intros d' H v'. destruct (dec_params true ps (Some n) d'); [discriminate|discriminate|congruence]. }
      replace (n =? 0) with false by (symmetry; apply N.eqb_neq; exact Hn).
      destruct (is_greedy (p_ty p)) eqn:G.
      * (* greedy tail: last parameter *)
        destruct (p_ty p) as [| | | | |t0| |] eqn:Et; try discriminate. apply andb_true_iff in Hty. destruct Hty as [_ Hlast].
        destruct ps; [|discriminate]. destruct a; [|discriminate]. cbn [enc_params]. rewrite app_nil_r.
        destruct (dec (TGreedy t0) (firstn c (enc (TGreedy t0) v))) as [[v' d']|] eqn:Ed; [|discriminate].
        cbn [dec] in Ed. destruct (dec_greedy _ _ _); [|discriminate].
        assert (Ed' : d' = []) by congruence. rewrite Ed'. cbn [dec_params cons_res]. discriminate.
      * apply andb_true_iff in Hty. destruct Hty as [Hsd _].
        destruct (le_lt_dec (List.length (enc (p_ty p) v)) c) as [Hge|Hlt].
        -- rewrite firstn_app_ge by exact Hge. rewrite (roundtrip _ Hsd v _ Hval). apply Hrec.
           apply (IH a (so || p_opt p)%bool om); try assumption. intros E. rewrite (Himp E). reflexivity.
        -- rewrite firstn_app_lt by exact Hlt.
           assert (Hstrict : dec (p_ty p) (firstn c (enc (p_ty p) v)) = None).
           { apply (strict_on_truncation _ Hsd v _ (skipn c (enc (p_ty p) v)) Hval); [symmetry; apply firstn_skipn|].
             intros E. apply (f_equal (@List.length N)) in E. rewrite skipn_length in E. simpl in E. lia. }
           rewrite Hstrict. discriminate.
    + cbn [opt_prefix_ok] in Ho. destruct (p_opt p) eqn:Op; [|discriminate].
      rewrite orb_true_r in Hs2. destruct (omitted_rest ps a Hs2 Ho) as [E1 E2].
      cbn [enc_params dec_params]. rewrite E2. destruct c; cbn [firstn]; rewrite Op; discriminate.
Qed.

(* ---------------------------------------------------------------------- *)
(* C15 (c): cut short inside (or right before) a required parameter, with no failure status: rejected *)

Fixpoint status_after (ps : list param) (a : assignment) (st : option N) : option N :=
  match ps, a with
  | p :: ps', x :: a' =>
      status_after ps' a' (if is_status_code p then match x with Some (VInt n) => Some n | _ => st end else st)
  | _, _ => st
  end.

Fixpoint all_given_required (ps : list param) (a : assignment) : bool :=
  match ps, a with
  | [], [] => true
  | p :: ps', Some v :: a' => negb (p_opt p) && selfdelim (p_ty p) && valid (p_ty p) v && all_given_required ps' a'
  | _, _ => false
  end.

Theorem truncated_is_rejected : forall ps1 a1 p ps2 v q s rsp st,
  all_given_required ps1 a1 = true ->
  p_opt p = false -> selfdelim (p_ty p) = true -> valid (p_ty p) v = true -> enc (p_ty p) v = q ++ s -> s <> [] ->
  (rsp = false \/ status_after ps1 a1 st = None \/ status_after ps1 a1 st = Some 0) ->
  dec_params rsp (ps1 ++ p :: ps2) st (enc_params ps1 a1 ++ q) = Reject.
Proof.
  induction ps1 as [|p1 ps1 IH]; intros a1 p ps2 v q s rsp st Hall Hop Hsd Hval He Hs Hst.
  - destruct a1; [|discriminate]. cbn [app enc_params dec_params status_after] in *. rewrite Hop, andb_false_r.
    rewrite (strict_on_truncation _ Hsd v q s Hval He Hs).
    destruct rsp; [|reflexivity]. destruct Hst as [Hst|[Hst|Hst]]; [discriminate|rewrite Hst; reflexivity|rewrite Hst; reflexivity].
  - destruct a1 as [|[v1|] a1]; try discriminate. cbn [all_given_required] in Hall.
    apply andb_true_iff in Hall. destruct Hall as [Hall Hrest]. apply andb_true_iff in Hall. destruct Hall as [Hall Hv1].
    apply andb_true_iff in Hall. destruct Hall as [Hopt1 Hsd1]. apply negb_true_iff in Hopt1.
    cbn [app enc_params dec_params]. rewrite Hopt1, andb_false_r. rewrite <- app_assoc.
    rewrite (roundtrip _ Hsd1 v1 _ Hv1). cbn [status_after] in Hst.
    rewrite (IH a1 p ps2 v q s rsp _ Hrest Hop Hsd Hval He Hs); [reflexivity|]. exact Hst.
Qed.

(* ---------------------------------------------------------------------- *)
(* C15 (d): a complete command (every parameter given, no greedy tail) followed by surplus bytes: rejected *)

Fixpoint all_given_selfdelim (ps : list param) (a : assignment) : bool :=
  match ps, a with
  | [], [] => true
  | p :: ps', Some v :: a' => selfdelim (p_ty p) && valid (p_ty p) v && all_given_selfdelim ps' a'
  | _, _ => false
  end.

Theorem surplus_is_rejected : forall ps a s rsp st, all_given_selfdelim ps a = true -> s <> [] ->
  dec_params rsp ps st (enc_params ps a ++ s) = Reject.
Proof.
  induction ps as [|p ps IH]; intros a s rsp st Hall Hs.
  - destruct a; [|discriminate]. cbn [enc_params app dec_params]. destruct s; [congruence|reflexivity].
  - destruct a as [|[v|] a]; try discriminate. cbn [all_given_selfdelim] in Hall.
    apply andb_true_iff in Hall. destruct Hall as [Hall Hrest]. apply andb_true_iff in Hall. destruct Hall as [Hsd Hv].
    cbn [enc_params dec_params]. rewrite <- app_assoc.
    assert (Hne : (match enc (p_ty p) v ++ enc_params ps a ++ s with [] => true | _ => false end) = false).
    { destruct (enc (p_ty p) v ++ enc_params ps a ++ s) eqn:E; [|reflexivity]. apply app_eq_nil in E. destruct E as [_ E].
      apply app_eq_nil in E. destruct E as [_ E]. congruence. }
    rewrite Hne. cbn [andb]. rewrite (roundtrip _ Hsd v _ Hv). rewrite IH by assumption. reflexivity.
Qed.
