(* C18: packets, data indications and bind requests cross the radio boundary faithfully.  All statements are
   for ALL packets / indications / bind requests; no size bound anywhere. *)
From Coq Require Import NArith ZArith List Bool Lia.
From ZB Require Import Base.Bytes Radio.Radio.
Import ListNotations.
Open Scope N_scope.

(* ---------------------------------------------------------------------------------------------- *)
(* small facts *)
Lemma has_flag_bit : forall x k, has_flag x (2 ^ k) = N.testbit x k.
Proof.
  intros x k. unfold has_flag. destruct (N.testbit x k) eqn:T.
  - apply negb_true_iff, N.eqb_neq. intros E.
    assert (N.testbit (N.land x (2 ^ k)) k = false) as F by (rewrite E; apply N.bits_0).
    rewrite N.land_spec, T, N.pow2_bits_true in F. discriminate.
  - apply negb_false_iff, N.eqb_eq. apply N.bits_inj_0. intros i. rewrite N.land_spec.
    destruct (N.eq_dec i k) as [->|Hne]; [rewrite T; reflexivity|].
    rewrite N.pow2_bits_false by congruence. apply andb_false_r.
Qed.

Lemma has_flag_ACK : forall x, has_flag x zopt_ACK = N.testbit x 0.
Proof. intros x. exact (has_flag_bit x 0). Qed.
Lemma has_flag_ENC : forall x, has_flag x zopt_APS_Encryption = N.testbit x 1.
Proof. intros x. exact (has_flag_bit x 1). Qed.
Lemma has_flag_fcB : forall x, has_flag x fc_Broadcast = N.testbit x 2.
Proof. intros x. exact (has_flag_bit x 2). Qed.
Lemma has_flag_fcG : forall x, has_flag x fc_Group = N.testbit x 3.
Proof. intros x. exact (has_flag_bit x 3). Qed.
Lemma has_flag_fcS : forall x, has_flag x fc_Secure = N.testbit x 5.
Proof. intros x. exact (has_flag_bit x 5). Qed.

(* a 16-bit address sits little-endian in the first two of the eight bytes, the rest is zero *)
Lemma short_addr_bytes_spec : forall a, a < 65536 ->
  short_addr_bytes a = le_enc 2 a ++ [0; 0; 0; 0; 0; 0] /\
  le_dec 2 (short_addr_bytes a) = Some (a, [0; 0; 0; 0; 0; 0]) /\
  length (short_addr_bytes a) = 8%nat /\ bytes_ok (short_addr_bytes a).
Proof.
  intros a Ha. unfold short_addr_bytes. rewrite N.shiftr_div_pow2. change (2 ^ 8) with 256.
  assert (a / 256 < 256) as Hq by (apply N.div_lt_upper_bound; lia).
  assert ((a / 256) mod 256 = a / 256) as Hm by (apply N.mod_small; exact Hq).
  split; [cbn [le_enc app]; rewrite Hm; reflexivity|].
  split; [cbn [le_dec]; f_equal; f_equal; pose proof (N.div_mod a 256); lia|].
  split; [reflexivity|].
  repeat constructor; try lia. apply N.mod_lt; lia.
Qed.

Lemma all_bytes_ok : forall l, all_bytes l = true <-> bytes_ok l.
Proof.
  intros l. unfold all_bytes, bytes_ok, byte_ok. rewrite forallb_forall, Forall_forall.
  split; intros H x Hx; specialize (H x Hx); [apply N.ltb_lt|apply N.ltb_lt]; exact H.
Qed.

(* ---------------------------------------------------------------------------------------------- *)
(* send_packet *)

(* the request that a connected, non-ZDO packet is turned into, as a function of the packet alone *)
Definition the_request (p : packet) : data_req :=
  {| dr_tsn := p_tsn p;
     dr_param_length := 21;
     dr_data_length := N.of_nat (length (p_data p));
     dr_dst_addr := match p_dst p with ZIeee bs => bs | ZGroup a | ZNwk a | ZBroadcast a => short_addr_bytes a end;
     dr_profile := p_profile p;
     dr_cluster := p_cluster p;
     dr_dst_ep := or0 (p_dst_ep p);
     dr_src_ep := or0 (p_src_ep p);
     dr_radius := or0 (p_radius p);
     dr_dst_mode := match p_dst p with ZBroadcast _ => mode_group | d => zmode d end;
     dr_tx_options := (if N.testbit (p_tx_options p) 0 then 4 else 0) + (if N.testbit (p_tx_options p) 1 then 1 else 0);
     dr_use_alias := 0; dr_alias_src := 0; dr_alias_seq := 0;
     dr_payload := p_data p |}.

Lemma send_packet_req_inv : forall p r, send_packet_req true p = SReq r ->
  r = the_request p /\ data_req_fits r = true /\ is_zdo_ep (p_src_ep p) = false /\ is_zdo_ep (p_dst_ep p) = false.
Proof.
  intros p r. unfold send_packet_req. cbn [negb].
  destruct (is_zdo_ep (p_src_ep p)) eqn:Es; [discriminate|].
  destruct (is_zdo_ep (p_dst_ep p)) eqn:Ed; [discriminate|]. cbn [orb].
  rewrite has_flag_ACK, has_flag_ENC.
  match goal with |- (if data_req_fits ?R then _ else _) = _ -> _ => set (r0 := R) end.
  assert (r0 = the_request p) as E.
  { unfold r0, the_request. f_equal.
    destruct (N.testbit (p_tx_options p) 0), (N.testbit (p_tx_options p) 1); reflexivity. }
  destruct (data_req_fits r0) eqn:F; [|discriminate].
  intros H. injection H as <-. rewrite <- E. auto.
Qed.

(* payload bytes unchanged, DataLength = |payload|, ParamLength = 21, same endpoints / cluster / profile / TSN / radius;
   nothing aliased *)
Theorem send_packet_fields : forall p r, send_packet_req true p = SReq r ->
  dr_payload r = p_data p /\
  dr_data_length r = N.of_nat (length (p_data p)) /\
  dr_param_length r = 21 /\
  dr_tsn r = p_tsn p /\ dr_profile r = p_profile p /\ dr_cluster r = p_cluster p /\
  dr_src_ep r = or0 (p_src_ep p) /\ dr_dst_ep r = or0 (p_dst_ep p) /\
  (forall e, p_src_ep p = Some e -> dr_src_ep r = e /\ e <> 0) /\
  (forall e, p_dst_ep p = Some e -> dr_dst_ep r = e /\ e <> 0) /\
  dr_radius r = or0 (p_radius p) /\
  dr_use_alias r = 0 /\ dr_alias_src r = 0 /\ dr_alias_seq r = 0.
Proof.
  intros p r H. destruct (send_packet_req_inv p r H) as (-> & _ & Zs & Zd). cbn.
  assert (forall x e, x = Some e -> is_zdo_ep x = false -> or0 x = e /\ e <> 0) as A.
  { intros x e -> Z. cbn in *. split; [reflexivity|]. apply N.eqb_neq. exact Z. }
  do 8 (split; [reflexivity|]).
  split; [intros e He; exact (A _ _ He Zs)|].
  split; [intros e He; exact (A _ _ He Zd)|].
  repeat split; reflexivity.
Qed.

(* destination encoding per addressing mode *)
Theorem send_packet_destination : forall p r, send_packet_req true p = SReq r ->
  match p_dst p with
  | ZNwk a => dr_dst_mode r = mode_nwk /\ a < 65536 /\ dr_dst_addr r = le_enc 2 a ++ [0; 0; 0; 0; 0; 0]
  | ZGroup a => dr_dst_mode r = mode_group /\ a < 65536 /\ dr_dst_addr r = le_enc 2 a ++ [0; 0; 0; 0; 0; 0]
  | ZBroadcast a => dr_dst_mode r = mode_group /\ a < 65536 /\ dr_dst_addr r = le_enc 2 a ++ [0; 0; 0; 0; 0; 0]
  | ZIeee bs => dr_dst_mode r = mode_ieee /\ dr_dst_addr r = bs
  end /\ length (dr_dst_addr r) = 8%nat /\ bytes_ok (dr_dst_addr r).
Proof.
  intros p r H. destruct (send_packet_req_inv p r H) as (-> & F & _ & _).
  unfold data_req_fits in F. repeat (apply andb_true_iff in F; destruct F as [F ?]).
  match goal with X : Nat.eqb _ 8 = true |- _ => apply Nat.eqb_eq in X; rename X into L8 end.
  match goal with X : all_bytes (dr_dst_addr _) = true |- _ => apply all_bytes_ok in X; rename X into B8 end.
  split; [|split; assumption].
  cbn [the_request dr_dst_addr dr_dst_mode] in *.
  assert (forall a, bytes_ok (short_addr_bytes a) -> a < 65536) as Hs.
  { intros a Hb. unfold short_addr_bytes, bytes_ok in Hb. rewrite Forall_forall in Hb.
    assert (N.shiftr a 8 < 256) as Hq by (apply Hb; right; left; reflexivity).
    rewrite N.shiftr_div_pow2 in Hq. change (2 ^ 8) with 256 in Hq.
    pose proof (N.div_mod a 256). pose proof (N.mod_lt a 256). lia. }
  destruct (p_dst p) as [a|a|bs|a]; cbn [zmode].
  - split; [reflexivity|]. split; [apply Hs; exact B8|]. apply short_addr_bytes_spec, Hs, B8.
  - split; [reflexivity|]. split; [apply Hs; exact B8|]. apply short_addr_bytes_spec, Hs, B8.
  - split; reflexivity.
  - split; [reflexivity|]. split; [apply Hs; exact B8|]. apply short_addr_bytes_spec, Hs, B8.
Qed.

Lemma bits_lt8 : forall v i, v < 8 -> 3 <= i -> N.testbit v i = false.
Proof.
  intros v i Hv Hi. rewrite <- (N.mod_small v (2 ^ 3)) by exact Hv. apply N.mod_pow2_bits_high. exact Hi.
Qed.

(* ACK and encryption preserved, no other option invented *)
Theorem send_packet_options : forall p r, send_packet_req true p = SReq r ->
  N.testbit (dr_tx_options r) 2 = N.testbit (p_tx_options p) 0 /\      (* ACK_ENABLED  <-> ACK *)
  N.testbit (dr_tx_options r) 0 = N.testbit (p_tx_options p) 1 /\      (* SECURITY_ENABLED <-> APS_Encryption *)
  (forall i, i <> 0 -> i <> 2 -> N.testbit (dr_tx_options r) i = false) /\
  N.land (dr_tx_options r) (N.lnot (N.lor txo_ACK_ENABLED txo_SECURITY_ENABLED) 8) = 0.
Proof.
  intros p r H. destruct (send_packet_req_inv p r H) as (-> & _ & _ & _). cbn [the_request dr_tx_options].
  destruct (N.testbit (p_tx_options p) 0), (N.testbit (p_tx_options p) 1); cbn [N.add];
    (split; [reflexivity|split; [reflexivity|split; [|reflexivity]]]);
    intros i H0 H2; (destruct (N.eq_dec i 1) as [->|H1]; [reflexivity|]); assert (3 <= i) as H3 by lia.
  all: apply bits_lt8; [reflexivity|exact H3].
Qed.

(* the encoded body: TSN, ParamLength, DataLength, then a parameter section of exactly ParamLength = 21 bytes,
   then the payload bytes unchanged; DataLength is the number of bytes that follow the parameter section *)
Theorem send_packet_encoding : forall p r, send_packet_req true p = SReq r ->
  encode_data_req r = [p_tsn p; 21] ++ le_enc 2 (N.of_nat (length (p_data p))) ++ data_req_params r ++ p_data p /\
  N.of_nat (length (data_req_params r)) = dr_param_length r /\
  length (data_req_params r) = 21%nat /\
  skipn 25 (encode_data_req r) = p_data p /\
  N.of_nat (length (skipn 25 (encode_data_req r))) = dr_data_length r /\
  N.of_nat (length (p_data p)) < 65536.
Proof.
  intros p r H. pose proof (send_packet_destination p r H) as (_ & L8 & _).
  destruct (send_packet_req_inv p r H) as (E & F & _ & _).
  assert (length (data_req_params r) = 21%nat) as L21.
  { unfold data_req_params. repeat rewrite app_length. rewrite L8, !le_enc_length. reflexivity. }
  assert (dr_param_length r = 21) as P by (rewrite E; reflexivity).
  assert (dr_payload r = p_data p) as D by (rewrite E; reflexivity).
  assert (dr_data_length r = N.of_nat (length (p_data p))) as DL by (rewrite E; reflexivity).
  assert (dr_tsn r = p_tsn p) as T by (rewrite E; reflexivity).
  assert (skipn 25 (encode_data_req r) = p_data p) as SK.
  { unfold encode_data_req, data_req_prefix. rewrite D.
    replace 25%nat with (length (([dr_tsn r; dr_param_length r] ++ le_enc 2 (dr_data_length r)) ++ data_req_params r)).
    - rewrite app_assoc. rewrite skipn_app, skipn_all, Nat.sub_diag. reflexivity.
    - rewrite !app_length, le_enc_length, L21. reflexivity. }
  split; [unfold encode_data_req, data_req_prefix; rewrite T, P, DL, D, <- app_assoc; reflexivity|].
  split; [rewrite L21, P; reflexivity|]. split; [exact L21|]. split; [exact SK|].
  split; [rewrite SK, DL; reflexivity|].
  unfold data_req_fits in F. repeat (apply andb_true_iff in F; destruct F as [F ?]).
  rewrite <- DL. apply N.ltb_lt. assumption.
Qed.

(* what makes a packet acceptable: its fields are values of their declared types *)
Definition zaddr_ok (d : zaddr) : Prop :=
  match d with
  | ZIeee bs => length bs = 8%nat /\ bytes_ok bs
  | ZGroup a | ZNwk a | ZBroadcast a => a < 65536
  end.
Definition packet_ok (p : packet) : Prop :=
  zaddr_ok (p_dst p) /\ or0 (p_src_ep p) < 256 /\ or0 (p_dst_ep p) < 256 /\ p_tsn p < 256 /\
  p_profile p < 65536 /\ p_cluster p < 65536 /\ or0 (p_radius p) < 256 /\ bytes_ok (p_data p) /\
  N.of_nat (length (p_data p)) < 65536.

(* every such packet that does not involve endpoint 0 is turned into exactly one data request *)
Theorem send_packet_total : forall p, packet_ok p -> p_src_ep p <> Some 0 -> p_dst_ep p <> Some 0 ->
  send_packet_req true p = SReq (the_request p).
Proof.
  intros p (Hd & Hse & Hde & Ht & Hp & Hc & Hr & Hb & Hl) Zs Zd. unfold send_packet_req. cbn [negb].
  assert (is_zdo_ep (p_src_ep p) = false) as ->.
  { destruct (p_src_ep p) as [e|]; [|reflexivity]. cbn. apply N.eqb_neq. congruence. }
  assert (is_zdo_ep (p_dst_ep p) = false) as ->.
  { destruct (p_dst_ep p) as [e|]; [|reflexivity]. cbn. apply N.eqb_neq. congruence. }
  cbn [orb]. rewrite has_flag_ACK, has_flag_ENC.
  match goal with |- (if data_req_fits ?R then _ else _) = _ => set (r0 := R) end.
  assert (r0 = the_request p) as E.
  { unfold r0, the_request. f_equal.
    destruct (N.testbit (p_tx_options p) 0), (N.testbit (p_tx_options p) 1); reflexivity. }
  rewrite E. clear E r0.
  assert (data_req_fits (the_request p) = true) as ->; [|reflexivity].
  unfold data_req_fits. cbn [the_request dr_tsn dr_param_length dr_data_length dr_dst_addr dr_profile dr_cluster dr_dst_ep
    dr_src_ep dr_radius dr_dst_mode dr_tx_options dr_use_alias dr_alias_src dr_alias_seq dr_payload].
  assert (length (match p_dst p with ZIeee bs => bs | ZGroup a | ZNwk a | ZBroadcast a => short_addr_bytes a end) = 8%nat /\
          bytes_ok (match p_dst p with ZIeee bs => bs | ZGroup a | ZNwk a | ZBroadcast a => short_addr_bytes a end)) as [L8 B8].
  { destruct (p_dst p) as [a|a|bs|a]; cbn [zaddr_ok] in Hd; try exact Hd; split; apply short_addr_bytes_spec; exact Hd. }
  rewrite L8. apply all_bytes_ok in B8. rewrite B8. apply all_bytes_ok in Hb. rewrite Hb.
  repeat (apply andb_true_iff; split); try reflexivity; try (apply N.ltb_lt; assumption).
  destruct (N.testbit (p_tx_options p) 0), (N.testbit (p_tx_options p) 1); reflexivity.
Qed.

Theorem send_packet_other_outcomes : forall p,
  send_packet_req false p = SDisconnected /\
  (p_src_ep p = Some 0 \/ p_dst_ep p = Some 0 -> send_packet_req true p = SZdo).
Proof.
  intros p. split; [reflexivity|]. intros [H|H]; unfold send_packet_req; rewrite H; cbn; [reflexivity|].
  rewrite orb_true_r. reflexivity.
Qed.

(* ---------------------------------------------------------------------------------------------- *)
(* on_apsde_indication *)

Theorem indication_faithful : forall own m, (2 <= length (di_payload m))%nat ->
  exists p, apsde_to_packet own m = IPacket p /\
    p_src p = Some (ZNwk (di_src_addr m)) /\
    p_src_ep p = Some (di_src_ep m) /\ p_dst_ep p = Some (di_dst_ep m) /\
    p_cluster p = di_cluster m /\ p_profile p = di_profile m /\
    p_lqi p = Some (di_lqi m) /\ p_rssi p = Some (di_rssi m) /\
    p_data p = firstn (N.to_nat (di_payload_length m)) (di_payload m) /\
    nth_error (di_payload m) 1 = Some (p_tsn p) /\
    p_dst p = (if N.testbit (di_frame_fc m) 2 then ZBroadcast bcast_ALL_ROUTERS_AND_COORDINATOR
               else if N.testbit (di_frame_fc m) 3 then ZGroup (di_grp_addr m)
               else ZNwk own) /\
    p_tx_options p = (if N.testbit (di_frame_fc m) 5 then zopt_APS_Encryption else 0).
Proof.
  intros own m Hlen. unfold apsde_to_packet. rewrite has_flag_fcB, has_flag_fcG, has_flag_fcS.
  destruct (nth_error (di_payload m) 1) as [tsn|] eqn:E.
  - eexists. split; [reflexivity|]. cbn. repeat split; reflexivity.
  - apply nth_error_None in E. lia.
Qed.

(* exactly the first PayloadLength payload bytes: as a prefix statement *)
Theorem indication_data_prefix : forall own m p, apsde_to_packet own m = IPacket p ->
  exists rest, di_payload m = p_data p ++ rest /\
    length (p_data p) = Nat.min (N.to_nat (di_payload_length m)) (length (di_payload m)).
Proof.
  intros own m p H. unfold apsde_to_packet in H. destruct (nth_error (di_payload m) 1); [|discriminate].
  injection H as <-. cbn [p_data]. exists (skipn (N.to_nat (di_payload_length m)) (di_payload m)).
  split; [symmetry; apply firstn_skipn|apply firstn_length].
Qed.

Theorem indication_short_payload : forall own m, (length (di_payload m) < 2)%nat -> apsde_to_packet own m = IIndexError.
Proof.
  intros own m H. unfold apsde_to_packet.
  destruct (nth_error (di_payload m) 1) eqn:E; [|reflexivity].
  assert (nth_error (di_payload m) 1 <> None) as N1 by congruence. apply nth_error_Some in N1. lia.
Qed.

(* ---------------------------------------------------------------------------------------------- *)
(* get_sequence *)
Theorem next_sequence_lt_255 : forall n, next_sequence n < 255.
Proof. intros n. unfold next_sequence. apply N.mod_lt. lia. Qed.

Theorem next_sequence_cycle : forall n, n < 255 ->
  next_sequence n = (if n =? 254 then 0 else n + 1) /\ next_sequence n <> 255.
Proof.
  intros n H. pose proof (next_sequence_lt_255 n). split; [|lia]. unfold next_sequence.
  destruct (N.eqb_spec n 254) as [->|Hne]; [reflexivity|]. apply N.mod_small. lia.
Qed.

(* ---------------------------------------------------------------------------------------------- *)
(* Bind_req / Unbind_req *)

Definition bind_out (b : bind_result) : option (bind_params * N) :=
  match b with BRaise => None | BReq _ r s => Some (r, s) end.
Definition bind_cmd_of (b : bind_result) : option bind_cmd :=
  match b with BRaise => None | BReq c _ _ => Some c end.

(* bind and unbind: equal parameter assignment (hence equal encoded body) and equal returned status, for every input *)
Theorem bind_unbind_equal : forall tsn nwk eui ep cl dst st,
  bind_out (bind_req tsn nwk eui ep cl dst st) = bind_out (unbind_req tsn nwk eui ep cl dst st) /\
  (forall c, bind_cmd_of (bind_req tsn nwk eui ep cl dst st) = Some c -> c = CmdBind) /\
  (forall c, bind_cmd_of (unbind_req tsn nwk eui ep cl dst st) = Some c -> c = CmdUnbind).
Proof.
  intros. unfold bind_req, unbind_req.
  destruct (ma_mode dst =? mode_ieee).
  - destruct (ma_ieee dst); cbn; [|repeat split; discriminate].
    match goal with |- context [bind_fits ?R] => destruct (bind_fits R) end; cbn; repeat split; congruence.
  - destruct (ma_mode dst =? mode_nwk); [cbn; repeat split; discriminate|].
    destruct (ma_mode dst =? mode_group); [|cbn; repeat split; discriminate].
    destruct (ma_nwk dst); cbn; [|repeat split; discriminate].
    match goal with |- context [bind_fits ?R] => destruct (bind_fits R) end; cbn; repeat split; congruence.
Qed.

Definition bind_args_ok (tsn nwk : N) (eui : list N) (ep cl : N) (dst_ep : option N) : Prop :=
  tsn < 256 /\ nwk < 65536 /\ length eui = 8%nat /\ bytes_ok eui /\ ep < 256 /\ cl < 65536 /\ or0 dst_ep < 256.

Lemma bind_fits_ok : forall tsn nwk eui ep cl mode addr dep,
  tsn < 256 -> nwk < 65536 -> length eui = 8%nat -> bytes_ok eui -> ep < 256 -> cl < 65536 -> mode < 256 ->
  length addr = 8%nat -> bytes_ok addr -> dep < 256 ->
  bind_fits {| b_tsn := tsn; b_target_nwk := nwk; b_src_ieee := eui; b_src_ep := ep; b_cluster := cl;
               b_dst_mode := mode; b_dst_addr := addr; b_dst_ep := dep |} = true.
Proof.
  intros. unfold bind_fits. cbn [b_tsn b_target_nwk b_src_ieee b_src_ep b_cluster b_dst_mode b_dst_addr b_dst_ep].
  repeat (apply andb_true_iff; split); try (apply N.ltb_lt; assumption); try (apply Nat.eqb_eq; assumption);
    apply all_bytes_ok; assumption.
Qed.

(* a 64-bit destination: source address, endpoint, cluster, destination address and endpoint forwarded *)
Theorem bind_ieee_forwarded : forall tsn nwk eui ep cl bs g dep st,
  bind_args_ok tsn nwk eui ep cl dep -> length bs = 8%nat -> bytes_ok bs ->
  let dst := {| ma_mode := mode_ieee; ma_nwk := g; ma_ieee := Some bs; ma_endpoint := dep |} in
  let r := {| b_tsn := tsn; b_target_nwk := nwk; b_src_ieee := eui; b_src_ep := ep; b_cluster := cl;
              b_dst_mode := bindmode_IEEE; b_dst_addr := bs; b_dst_ep := or0 dep |} in
  bind_req tsn nwk eui ep cl dst st = BReq CmdBind r (bind_status st) /\
  unbind_req tsn nwk eui ep cl dst st = BReq CmdUnbind r (bind_status st).
Proof.
  intros tsn nwk eui ep cl bs g dep st (H1 & H2 & H3 & H4 & H5 & H6 & H7) L B dst r.
  unfold bind_req, unbind_req, dst. cbn [ma_mode ma_ieee ma_endpoint]. change (mode_ieee =? mode_ieee) with true. cbv iota.
  fold r. assert (bind_fits r = true) as -> by (apply bind_fits_ok; try assumption; reflexivity).
  split; reflexivity.
Qed.

(* a group destination: the 16-bit group address little-endian in the first two destination bytes, rest zero *)
Theorem bind_group_forwarded : forall tsn nwk eui ep cl g ie dep st,
  bind_args_ok tsn nwk eui ep cl dep -> g < 65536 ->
  let dst := {| ma_mode := mode_group; ma_nwk := Some g; ma_ieee := ie; ma_endpoint := dep |} in
  let r := {| b_tsn := tsn; b_target_nwk := nwk; b_src_ieee := eui; b_src_ep := ep; b_cluster := cl;
              b_dst_mode := bindmode_Group; b_dst_addr := le_enc 2 g ++ [0; 0; 0; 0; 0; 0]; b_dst_ep := or0 dep |} in
  bind_req tsn nwk eui ep cl dst st = BReq CmdBind r (bind_status st) /\
  unbind_req tsn nwk eui ep cl dst st = BReq CmdUnbind r (bind_status st).
Proof.
  intros tsn nwk eui ep cl g ie dep st (H1 & H2 & H3 & H4 & H5 & H6 & H7) Hg dst r.
  destruct (short_addr_bytes_spec g Hg) as (E & _ & L & B).
  unfold bind_req, unbind_req, dst. cbn [ma_mode ma_nwk ma_endpoint].
  change (mode_group =? mode_ieee) with false. change (mode_group =? mode_nwk) with false.
  change (mode_group =? mode_group) with true. cbv iota. rewrite E. rewrite E in L, B.
  fold r. assert (bind_fits r = true) as -> by (apply bind_fits_ok; try assumption; reflexivity).
  split; reflexivity.
Qed.

(* the returned status: success stays success; the rule of the code for failures *)
Theorem bind_status_spec : forall st, (st = 0 -> bind_status st = 0) /\ (st <> 0 -> bind_status st = st mod 255).
Proof.
  intros st. unfold bind_status. split; intros H.
  - subst. reflexivity.
  - apply N.eqb_neq in H. rewrite H. reflexivity.
Qed.

(* encoded body: fields in schema order; in particular source address, endpoint, cluster, destination are literally in it *)
Theorem encode_bind_layout : forall r, length (b_src_ieee r) = 8%nat -> length (b_dst_addr r) = 8%nat ->
  length (encode_bind r) = 24%nat /\
  firstn 8 (skipn 3 (encode_bind r)) = b_src_ieee r /\
  nth_error (encode_bind r) 11 = Some (b_src_ep r) /\
  firstn 2 (skipn 12 (encode_bind r)) = le_enc 2 (b_cluster r) /\
  nth_error (encode_bind r) 14 = Some (b_dst_mode r) /\
  firstn 8 (skipn 15 (encode_bind r)) = b_dst_addr r /\
  nth_error (encode_bind r) 23 = Some (b_dst_ep r).
Proof.
  intros r L1 L2. unfold encode_bind.
  destruct (b_src_ieee r) as [|a0 [|a1 [|a2 [|a3 [|a4 [|a5 [|a6 [|a7 [|]]]]]]]]]; try discriminate.
  destruct (b_dst_addr r) as [|d0 [|d1 [|d2 [|d3 [|d4 [|d5 [|d6 [|d7 [|]]]]]]]]]; try discriminate.
  cbn [le_enc app length firstn skipn nth_error]. repeat split; reflexivity.
Qed.
