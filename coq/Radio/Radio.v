(* MODEL of the radio boundary (C18): zigbee/application.py  send_packet / on_apsde_indication / get_sequence
   and zigbee/device.py  ZbossZDO.Bind_req / Unbind_req, mirrored branch by branch.
   Python exceptions are explicit result constructors.  Numbers are unbounded N; where a parameter type of the
   command schema bounds a value (uint8_t, uint16_t, EUI64 = 8 bytes) the bound is written down (`*_fits`):
   the command constructor raises ValueError outside it. *)
From Coq Require Import NArith ZArith List Bool.
From ZB Require Import Base.Bytes.
Import ListNotations.
Open Scope N_scope.

(* ---------------------------------------------------------------------------------------------- *)
(* zigpy.types.AddrModeAddress: the address mode together with the address of the type that mode
   dictates (AddrModeAddress.__post_init__ coerces: Group/NWK/Broadcast -> 16-bit, IEEE -> EUI64 = 8 bytes,
   listed in serialisation order). *)
Inductive zaddr :=
| ZGroup (a : N)           (* AddrMode.Group = 1 *)
| ZNwk (a : N)             (* AddrMode.NWK = 2 *)
| ZIeee (bs : list N)      (* AddrMode.IEEE = 3 *)
| ZBroadcast (a : N).      (* AddrMode.Broadcast = 15 *)

Definition mode_group : N := 1.
Definition mode_nwk : N := 2.
Definition mode_ieee : N := 3.
Definition mode_broadcast : N := 15.

Definition zmode (d : zaddr) : N :=
  match d with ZGroup _ => mode_group | ZNwk _ => mode_nwk | ZIeee _ => mode_ieee | ZBroadcast _ => mode_broadcast end.

(* zigpy.types.TransmitOptions (packet side) *)
Definition zopt_ACK : N := 1.
Definition zopt_APS_Encryption : N := 2.
Definition zopt_FORCE_ROUTE_DISCOVERY : N := 4.
(* commands/aps.py TransmitOptions (NCP side) *)
Definition txo_NONE : N := 0.
Definition txo_SECURITY_ENABLED : N := 1.
Definition txo_ACK_ENABLED : N := 4.
(* types/commands.py APSFrameFC *)
Definition fc_Unicast : N := 1.
Definition fc_Broadcast : N := 4.
Definition fc_Group : N := 8.
Definition fc_Secure : N := 32.
(* zigpy BroadcastAddress.ALL_ROUTERS_AND_COORDINATOR *)
Definition bcast_ALL_ROUTERS_AND_COORDINATOR : N := 65532.
(* types/named.py BindAddrMode *)
Definition bindmode_Group : N := 1.
Definition bindmode_IEEE : N := 3.

(* `flag in flags` for a single-bit flag / `bool(x & flag)` *)
Definition has_flag (x flag : N) : bool := negb (N.land x flag =? 0).

(* the fields of zigpy.types.ZigbeePacket that cross the boundary *)
Record packet := {
  p_src : option zaddr;
  p_src_ep : option N;
  p_dst : zaddr;
  p_dst_ep : option N;
  p_tsn : N;
  p_profile : N;
  p_cluster : N;
  p_data : list N;            (* packet.data.serialize() *)
  p_tx_options : N;           (* zigpy TransmitOptions bitmap *)
  p_radius : option N;
  p_lqi : option N;
  p_rssi : option Z
}.

(* the parameter assignment of APS.DataReq.Req, in schema order *)
Record data_req := {
  dr_tsn : N;
  dr_param_length : N;
  dr_data_length : N;
  dr_dst_addr : list N;       (* EUI64: 8 bytes in wire order *)
  dr_profile : N;
  dr_cluster : N;
  dr_dst_ep : N;
  dr_src_ep : N;
  dr_radius : N;
  dr_dst_mode : N;
  dr_tx_options : N;
  dr_use_alias : N;
  dr_alias_src : N;
  dr_alias_seq : N;
  dr_payload : list N
}.

(* `x or 0` *)
Definition or0 (x : option N) : N := match x with Some v => v | None => 0 end.
(* `ZDO_ENDPOINT in (src_ep, dst_ep)`:  None == 0 is False *)
Definition is_zdo_ep (x : option N) : bool := match x with Some v => v =? 0 | None => false end.

Definition all_bytes (l : list N) : bool := forallb byte_ok l.

(* the 8 address bytes: [address % 0x100, address >> 8, 0, 0, 0, 0, 0, 0] *)
Definition short_addr_bytes (a : N) : list N := [a mod 256; N.shiftr a 8; 0; 0; 0; 0; 0; 0].

(* what the command constructor accepts (otherwise ValueError) *)
Definition data_req_fits (r : data_req) : bool :=
  (dr_tsn r <? 256) && (dr_param_length r <? 256) && (dr_data_length r <? 65536) &&
  (Nat.eqb (length (dr_dst_addr r)) 8) && all_bytes (dr_dst_addr r) &&
  (dr_profile r <? 65536) && (dr_cluster r <? 65536) && (dr_dst_ep r <? 256) && (dr_src_ep r <? 256) &&
  (dr_radius r <? 256) && (dr_tx_options r <? 256) && (dr_use_alias r <? 256) && (dr_alias_src r <? 65536) &&
  (dr_alias_seq r <? 256) && all_bytes (dr_payload r).

Inductive send_result :=
| SDisconnected               (* self._api is None: DeliveryError *)
| SZdo                        (* endpoint 0 involved: rerouted to zdo.zboss_specific_cmd, no data request here *)
| SValueError                 (* the command constructor rejects a value *)
| SReq (r : data_req).        (* exactly one api.request(APS.DataReq.Req(...)) *)

Definition send_packet_req (connected : bool) (p : packet) : send_result :=
  if negb connected then SDisconnected else
  if is_zdo_ep (p_src_ep p) || is_zdo_ep (p_dst_ep p) then SZdo else
  let options := txo_NONE in
  let options := if has_flag (p_tx_options p) zopt_ACK then N.lor options txo_ACK_ENABLED else options in
  let options := if has_flag (p_tx_options p) zopt_APS_Encryption then N.lor options txo_SECURITY_ENABLED else options in
  let dst_addr := match p_dst p with
                  | ZIeee bs => bs
                  | ZGroup a | ZNwk a | ZBroadcast a => short_addr_bytes a
                  end in
  let dst_addr_mode := match p_dst p with
                       | ZBroadcast _ => mode_group
                       | d => zmode d
                       end in
  let r := {| dr_tsn := p_tsn p;
              dr_param_length := 21;
              dr_data_length := N.of_nat (length (p_data p));
              dr_dst_addr := dst_addr;
              dr_profile := p_profile p;
              dr_cluster := p_cluster p;
              dr_dst_ep := or0 (p_dst_ep p);
              dr_src_ep := or0 (p_src_ep p);
              dr_radius := or0 (p_radius p);
              dr_dst_mode := dst_addr_mode;
              dr_tx_options := options;
              dr_use_alias := 0;
              dr_alias_src := 0;
              dr_alias_seq := 0;
              dr_payload := p_data p |} in
  if data_req_fits r then SReq r else SValueError.

(* the request's body as the schema lays it out (CommandBase.to_frame: parameters in order;
   uint8 = 1 byte, uint16 = 2 bytes little-endian, EUI64 = its 8 bytes, Payload = the bytes) *)
Definition data_req_prefix (r : data_req) : list N :=
  [dr_tsn r; dr_param_length r] ++ le_enc 2 (dr_data_length r).
Definition data_req_params (r : data_req) : list N :=
  dr_dst_addr r ++ le_enc 2 (dr_profile r) ++ le_enc 2 (dr_cluster r) ++
  [dr_dst_ep r; dr_src_ep r; dr_radius r; dr_dst_mode r; dr_tx_options r; dr_use_alias r] ++
  le_enc 2 (dr_alias_src r) ++ [dr_alias_seq r].
Definition encode_data_req (r : data_req) : list N :=
  data_req_prefix r ++ data_req_params r ++ dr_payload r.

(* ---------------------------------------------------------------------------------------------- *)
(* the parameter assignment of APS.DataIndication.Ind *)
Record data_ind := {
  di_param_length : N;
  di_payload_length : N;
  di_frame_fc : N;
  di_src_addr : N;
  di_dst_addr : N;
  di_grp_addr : N;
  di_dst_ep : N;
  di_src_ep : N;
  di_cluster : N;
  di_profile : N;
  di_packet_counter : N;
  di_src_mac : N;
  di_dst_mac : N;
  di_lqi : N;
  di_rssi : Z;
  di_key_attr : N;
  di_payload : list N
}.

Inductive ind_result :=
| IIndexError                 (* msg.Payload[1] on a payload shorter than 2 bytes *)
| IPacket (p : packet).       (* exactly one self.packet_received(packet) *)

(* own_nwk = self.state.node_info.nwk *)
Definition apsde_to_packet (own_nwk : N) (m : data_ind) : ind_result :=
  let is_broadcast := has_flag (di_frame_fc m) fc_Broadcast in
  let is_group := has_flag (di_frame_fc m) fc_Group in
  let is_secure := has_flag (di_frame_fc m) fc_Secure in
  let dst := if is_broadcast then ZBroadcast bcast_ALL_ROUTERS_AND_COORDINATOR
             else if is_group then ZGroup (di_grp_addr m)
             else ZNwk own_nwk in
  match nth_error (di_payload m) 1 with
  | None => IIndexError
  | Some tsn =>
    IPacket {| p_src := Some (ZNwk (di_src_addr m));
               p_src_ep := Some (di_src_ep m);
               p_dst := dst;
               p_dst_ep := Some (di_dst_ep m);
               p_tsn := tsn;
               p_profile := di_profile m;
               p_cluster := di_cluster m;
               p_data := firstn (N.to_nat (di_payload_length m)) (di_payload m);
               p_tx_options := if is_secure then zopt_APS_Encryption else 0;
               p_radius := Some 0;
               p_lqi := Some (di_lqi m);
               p_rssi := Some (di_rssi m) |}
  end.

(* ---------------------------------------------------------------------------------------------- *)
(* get_sequence: self._send_sequence = (self._send_sequence + 1) % 255; return self._send_sequence
   (argument: the stored counter; result: the new stored counter = the number issued) *)
Definition next_sequence (n : N) : N := (n + 1) mod 255.

(* ---------------------------------------------------------------------------------------------- *)
(* zigpy.zdo.types.MultiAddress as the handlers read it: every attribute may be unset (None) *)
Record multi_address := {
  ma_mode : N;
  ma_nwk : option N;
  ma_ieee : option (list N);
  ma_endpoint : option N
}.

(* the parameter assignment shared by ZDO.BindReq.Req and ZDO.UnbindReq.Req, in schema order *)
Record bind_params := {
  b_tsn : N;
  b_target_nwk : N;
  b_src_ieee : list N;
  b_src_ep : N;
  b_cluster : N;
  b_dst_mode : N;
  b_dst_addr : list N;
  b_dst_ep : N
}.

Definition bind_fits (r : bind_params) : bool :=
  (b_tsn r <? 256) && (b_target_nwk r <? 65536) && (Nat.eqb (length (b_src_ieee r)) 8) && all_bytes (b_src_ieee r) &&
  (b_src_ep r <? 256) && (b_cluster r <? 65536) && (b_dst_mode r <? 256) &&
  (Nat.eqb (length (b_dst_addr r)) 8) && all_bytes (b_dst_addr r) && (b_dst_ep r <? 256).

Inductive bind_cmd := CmdBind | CmdUnbind.

Inductive bind_result :=
| BRaise                                               (* unsupported mode (unbound local), unset attribute, or a value the constructor rejects *)
| BReq (cmd : bind_cmd) (r : bind_params) (ret : N).   (* one api.request(cmd.Req(r)); ret = first component of the returned tuple *)

(* `return (res.StatusCode % 0xFF, ...)` if StatusCode != 0 else SUCCESS (0) *)
Definition bind_status (status_code : N) : N := if status_code =? 0 then 0 else status_code mod 255.

(* Bind_req.  tsn = get_sequence(), dev_nwk = self._device.nwk, status_code = the response's StatusCode *)
Definition bind_req (tsn dev_nwk : N) (eui64 : list N) (ep cluster : N) (dst : multi_address) (status_code : N) : bind_result :=
  let sel :=
    if ma_mode dst =? mode_ieee then
      match ma_ieee dst with Some bs => Some (bindmode_IEEE, bs) | None => None end
    else if ma_mode dst =? mode_nwk then None
    else if ma_mode dst =? mode_group then
      match ma_nwk dst with Some g => Some (bindmode_Group, short_addr_bytes g) | None => None end
    else None in
  match sel with
  | None => BRaise
  | Some (addr_mode, dst_eui64) =>
    let r := {| b_tsn := tsn; b_target_nwk := dev_nwk; b_src_ieee := eui64; b_src_ep := ep; b_cluster := cluster;
                b_dst_mode := addr_mode; b_dst_addr := dst_eui64; b_dst_ep := or0 (ma_endpoint dst) |} in
    if bind_fits r then BReq CmdBind r (bind_status status_code) else BRaise
  end.

(* Unbind_req: the same text again in the source, with the other command *)
Definition unbind_req (tsn dev_nwk : N) (eui64 : list N) (ep cluster : N) (dst : multi_address) (status_code : N) : bind_result :=
  let sel :=
    if ma_mode dst =? mode_ieee then
      match ma_ieee dst with Some bs => Some (bindmode_IEEE, bs) | None => None end
    else if ma_mode dst =? mode_nwk then None
    else if ma_mode dst =? mode_group then
      match ma_nwk dst with Some g => Some (bindmode_Group, short_addr_bytes g) | None => None end
    else None in
  match sel with
  | None => BRaise
  | Some (addr_mode, dst_eui64) =>
    let r := {| b_tsn := tsn; b_target_nwk := dev_nwk; b_src_ieee := eui64; b_src_ep := ep; b_cluster := cluster;
                b_dst_mode := addr_mode; b_dst_addr := dst_eui64; b_dst_ep := or0 (ma_endpoint dst) |} in
    if bind_fits r then BReq CmdUnbind r (bind_status status_code) else BRaise
  end.

(* body of either request as the schema lays it out *)
Definition encode_bind (r : bind_params) : list N :=
  [b_tsn r] ++ le_enc 2 (b_target_nwk r) ++ b_src_ieee r ++ [b_src_ep r] ++ le_enc 2 (b_cluster r) ++
  [b_dst_mode r] ++ b_dst_addr r ++ [b_dst_ep r].
