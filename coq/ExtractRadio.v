(* Extraction of the radio-boundary sub-model (C18) for the correspondence check (Tie B).
   ExtrOcamlBasic only; numbers stay Coq's N / positive / Z / nat datatypes. *)
From Coq Require Import NArith ZArith List.
From Coq Require Extraction ExtrOcamlBasic.
From ZB Require Import Base.Bytes Radio.Radio.

Extraction Language OCaml.
Set Extraction KeepSingleton.
Extraction "../ocaml/gen/model_radio.ml"
  send_packet_req encode_data_req data_req_params
  apsde_to_packet next_sequence
  bind_req unbind_req encode_bind.
