(* C07: transmission is stop-and-wait: one unacknowledged data frame at a time, in order. *)
From Coq Require Import NArith List Bool Lia Arith.
From ZB Require Import Link.TxSched gen.GenConsts.
Import ListNotations.
Open Scope N_scope.

(* ---- the property as decidable predicates over the observable log (newest first) ---- *)

(* stop-and-wait: a data frame is written only when no data frame is in flight; a frame in flight ends by
   ACK (0), expiry of the ACK wait (1) or cancellation of its sender (2) *)
Fixpoint in_flight (l : list tobs) : option (option nat) :=
  match l with
  | [] => Some None
  | o :: l' =>
      match in_flight l' with
      | None => None
      | Some st =>
          match o with
          | TW tag _ => match st with None => Some (Some tag) | Some _ => None end
          | TEnd tag why =>
              if (why <? 3)%nat then match st with Some t => if (t =? tag)%nat then Some None else None | None => None end
              else Some st
          | _ => Some st
          end
      end
  end.
Definition stop_and_wait (l : list tobs) : bool := match in_flight l with Some _ => true | None => false end.

(* order: the callers are served (frame written, or skipped because there is no transport) in the order
   they called send(), each exactly once: every served tag is the head of the FIFO of outstanding calls *)
Fixpoint outstanding (l : list tobs) : option (list nat) :=
  match l with
  | [] => Some []
  | o :: l' =>
      match outstanding l' with
      | None => None
      | Some q =>
          match o with
          | TCall tag => Some (q ++ [tag])
          | TW tag _ => match q with h :: q' => if (h =? tag)%nat then Some q' else None | [] => None end
          | TEnd tag 3 => match q with h :: q' => if (h =? tag)%nat then Some q' else None | [] => None end
          | TEnd tag 4 => Some (filter (fun x => negb (x =? tag)%nat) q)
          | _ => Some q
          end
      end
  end.
Definition fifo_order (l : list tobs) : bool := match outstanding l with Some _ => true | None => false end.

(* ---- invariant ---- *)
Record Inv (s : tstate) : Prop := {
  inv_flight : in_flight (t_log s) = Some (option_map fst (t_holder s));
  inv_queue : outstanding (t_log s) = Some (t_queue s)
}.

Lemma inv_init : Inv tinit.
Proof. split; reflexivity. Qed.

Lemma serve_inv : forall fuel s, Inv s -> Inv (serve fuel s).
Proof.
  induction fuel as [|fuel IH]; intros s [I1 I2]; [split; assumption|].
  cbn [serve]. destruct (t_holder s) as [[h d]|] eqn:Eh; [split; [rewrite Eh|]; assumption|].
  destruct (t_queue s) as [|tag q] eqn:Eq; [split; [rewrite Eh|rewrite Eq]; assumption|].
  destruct (t_open s).
  - split; cbn [mk t_log t_holder t_queue in_flight outstanding option_map fst].
    + rewrite I1. reflexivity.
    + rewrite I2. rewrite Nat.eqb_refl. reflexivity.
  - apply IH. split; cbn [mk t_log t_holder t_queue in_flight outstanding option_map fst].
    + rewrite I1. reflexivity.
    + rewrite I2. rewrite Nat.eqb_refl. reflexivity.
Qed.

Lemma tsettle_inv : forall s, Inv s -> Inv (tsettle s).
Proof. intros. apply serve_inv. assumption. Qed.

Lemma end_wait_inv : forall s why, (why < 3)%nat -> Inv s -> Inv (end_wait s why).
Proof.
  intros s why Hw [I1 I2]. unfold end_wait. destruct (t_holder s) as [[tag d]|] eqn:Eh; [|split; [rewrite Eh|]; assumption].
  apply tsettle_inv. split; cbn [mk t_log t_holder t_queue in_flight outstanding option_map fst].
  - rewrite I1. cbn [option_map fst]. replace (why <? 3)%nat with true by (symmetry; apply Nat.ltb_lt; exact Hw).
    rewrite Nat.eqb_refl. reflexivity.
  - rewrite I2. destruct why as [|[|[|w]]]; try reflexivity. lia.
Qed.

Lemma inv_same : forall s s', t_log s' = t_log s -> t_holder s' = t_holder s -> t_queue s' = t_queue s -> Inv s -> Inv s'.
Proof. intros s s' E1 E2 E3 [I1 I2]. split; [rewrite E1, E2|rewrite E1, E3]; assumption. Qed.

Lemma set_now_inv : forall s t, Inv s -> Inv (mk t (t_queue s) (t_holder s) (t_seq s) (t_owner s) (t_open s) (t_rx s) (t_log s)).
Proof. intros s t [I1 I2]. split; assumption. Qed.

Lemma ttick_inv : forall fuel s target, Inv s -> Inv (ttick fuel s target).
Proof.
  induction fuel as [|fuel IH]; intros s target I; [apply set_now_inv; exact I|].
  cbn [ttick]. destruct (t_holder s) as [[tag d]|] eqn:Eh.
  - destruct (d <=? target).
    + apply IH. apply end_wait_inv; [lia|]. apply (inv_same s); try reflexivity; [symmetry; exact Eh|exact I].
    + apply (inv_same s); try reflexivity; [symmetry; exact Eh|exact I].
  - apply (inv_same s); try reflexivity; [symmetry; exact Eh|exact I].
Qed.

Lemma drop_inv : forall s tag, Inv s -> Inv (drop s tag).
Proof.
  intros s tag [I1 I2]. unfold drop. destruct (existsb _ (t_queue s)); [|split; assumption].
  split; cbn [mk t_log t_holder t_queue in_flight outstanding].
  - rewrite I1. reflexivity.
  - rewrite I2. reflexivity.
Qed.

Theorem tstep_inv : forall s e, Inv s -> Inv (tstep s e).
Proof.
  intros s e I. destruct e as [tag|n|dt|tag| |]; cbn [tstep].
  - apply tsettle_inv. destruct I as [I1 I2]. split; cbn [mk t_log t_holder t_queue in_flight outstanding].
    + rewrite I1. reflexivity.
    + rewrite I2. reflexivity.
  - destruct (n =? t_seq s); [|exact I].
    assert (I' : Inv (mk (t_now s) (t_queue s) (t_holder s) (tnext (t_seq s)) (t_owner s) (t_open s) (t_rx s) (t_log s)))
      by (destruct I as [I1 I2]; split; assumption).
    destruct (t_holder s) as [[tag d]|] eqn:Eh; [|exact I'].
    destruct (t_owner s) as [o|]; [|exact I']. destruct (tag =? o)%nat; [|exact I'].
    apply end_wait_inv; [lia|]. exact I'.
  - apply ttick_inv. exact I.
  - destruct (t_holder s) as [[h d]|] eqn:Eh.
    + destruct (h =? tag)%nat; [apply end_wait_inv; [lia|exact I]|apply drop_inv; exact I].
    + apply drop_inv; exact I.
  - destruct I as [I1 I2]. split; cbn [mk t_log t_holder t_queue].
    + destruct (t_open s); cbn [in_flight]; rewrite I1; reflexivity.
    + destruct (t_open s); cbn [outstanding]; rewrite I2; reflexivity.
  - destruct I as [I1 I2]. split; assumption.
Qed.

Theorem reachable_inv : forall evs, Inv (trun_events evs).
Proof.
  intros evs. unfold trun_events. assert (G : forall s, Inv s -> Inv (fold_left tstep evs s)).
  { induction evs as [|e evs IH]; intros s I; [exact I|]. cbn [fold_left]. apply IH. apply tstep_inv. exact I. }
  apply G. exact inv_init.
Qed.

(* MAIN: for every event history (any number of concurrent senders; matching, stale, duplicate ACKs; silence;
   cancellations; incoming data; close) *)
Theorem stop_and_wait_always : forall evs, stop_and_wait (t_log (trun_events evs)) = true.
Proof. intros evs. unfold stop_and_wait. rewrite (inv_flight _ (reachable_inv evs)). reflexivity. Qed.

Theorem fifo_order_always : forall evs, fifo_order (t_log (trun_events evs)) = true.
Proof. intros evs. unfold fifo_order. rewrite (inv_queue _ (reachable_inv evs)). reflexivity. Qed.

(* at every quiescent point with an open transport: the lock is either held or nobody waits for it
   (a queued caller is transmitted as soon as the link is free) *)
Definition no_idle_waiting (s : tstate) : Prop := t_holder s = None -> t_queue s = [].

Lemma serve_drains : forall fuel s, (length (t_queue s) < fuel)%nat -> no_idle_waiting (serve fuel s).
Proof.
  induction fuel as [|fuel IH]; intros s Hl; [lia|]. cbn [serve].
  destruct (t_holder s) as [[h d]|] eqn:Eh; [intros H; congruence|].
  destruct (t_queue s) as [|tag q] eqn:Eq; [intros _; exact Eq|].
  destruct (t_open s).
  - intros H. cbn [mk t_holder] in H. discriminate.
  - apply IH. cbn [mk t_queue]. cbn [length] in Hl. lia.
Qed.
