(* Generic theory of a resynchronising stream parser: the part of uart.py's _extract_frames that
   does not depend on the frame format.  `extract` is abstract with four hypotheses (H1-H4);
   the main results are dels_app (two-chunk independence) and chunk_independent. *)
From Coq Require Import NArith List Bool Lia Arith.
Import ListNotations.
Open Scope N_scope.


Definition starts_marker (b : list N) : bool :=
  match b with m0 :: m1 :: _ => (m0 =? 0xDE) && (m1 =? 0xAD) | _ => false end.

(* first index i >= 0 such that a marker starts at i *)
Fixpoint findm (b : list N) : option nat :=
  match b with
  | [] => None
  | x :: t => if starts_marker b then Some O else option_map S (findm t)
  end.
Lemma findm_cons : forall x t, findm (x :: t) = if starts_marker (x :: t) then Some O else option_map S (findm t).
Proof. reflexivity. Qed.
Arguments starts_marker : simpl never.
Arguments findm : simpl never.
Definition find1 (b : list N) : option nat := option_map S (findm (tl b)).

Definition resync (b : list N) : list N :=
  match find1 b with
  | Some i => skipn i b
  | None => if (last b 0 =? 0xDE) then [0xDE] else []
  end.

Section Generic.
Variable frame : Type.
Inductive xres := XFrame (f : frame) (n : nat) | XTooShort | XInvalid.
Variable extract : list N -> xres.

Hypothesis H_frame_stable : forall b f n, extract b = XFrame f n ->
   (7 <= n <= length b)%nat /\ starts_marker b = true /\ forall c, extract (b ++ c) = XFrame f n.
Hypothesis H_invalid_stable : forall b, extract b = XInvalid ->
   (7 <= length b)%nat /\ forall c, extract (b ++ c) = XInvalid.
Hypothesis H_short : forall b, (length b < 7)%nat -> extract b = XTooShort.
Hypothesis H_nomarker_invalid : forall b, (7 <= length b)%nat -> starts_marker b = false -> extract b = XInvalid.

Fixpoint run_fuel (fuel : nat) (b : list N) : list frame * list N :=
  match fuel with
  | O => ([], b)
  | S fuel =>
    match extract b with
    | XTooShort => ([], b)
    | XInvalid => run_fuel fuel (resync b)
    | XFrame f n => let '(fs, r) := run_fuel fuel (skipn n b) in (f :: fs, r)
    end
  end.
Definition run (b : list N) := run_fuel (S (length b)) b.
Definition dels (b : list N) := fst (run b).
Definition resid (b : list N) := snd (run b).

(* ---------- facts about findm / find1 / resync ---------- *)
Lemma findm_some_lt : forall b i, findm b = Some i -> (S i < length b)%nat /\ starts_marker (skipn i b) = true
   /\ forall k, (k < i)%nat -> starts_marker (skipn k b) = false.
Proof.
  induction b as [|x t IH]; intros i H; [discriminate|]. rewrite findm_cons in H.
  destruct (starts_marker (x :: t)) eqn:Hs.
  - inversion H; subst. repeat split.
    + destruct t; [discriminate | simpl; lia].
    + exact Hs.
    + intros k Hk; lia.
  - destruct (findm t) as [j|] eqn:Hj; simpl in H; [|discriminate]. inversion H; subst.
    destruct (IH j eq_refl) as (Hl & Hm & Hn). repeat split.
    + simpl; lia.
    + simpl; exact Hm.
    + intros k Hk. destruct k; [exact Hs|]. simpl. apply Hn; lia.
Qed.

Lemma findm_none : forall b, findm b = None -> forall k, starts_marker (skipn k b) = false.
Proof.
  induction b as [|x t IH]; intros H k.
  - destruct k; reflexivity.
  - rewrite findm_cons in H. destruct (starts_marker (x :: t)) eqn:Hs; [discriminate|].
    destruct (findm t) eqn:Hj; [discriminate|].
    destruct k; [exact Hs|]. simpl. apply IH; reflexivity.
Qed.

Lemma starts_marker_app : forall b c, starts_marker b = true -> starts_marker (b ++ c) = true.
Proof. intros [|x [|y t]] c H; try discriminate; exact H. Qed.

Lemma findm_app_some : forall b c i, findm b = Some i -> findm (b ++ c) = Some i.
Proof.
  induction b as [|x t IH]; intros c i H; [discriminate|].
  rewrite findm_cons in H. simpl app. rewrite findm_cons.
  destruct (starts_marker (x :: t)) eqn:Hs.
  - change (x :: t ++ c) with ((x :: t) ++ c). rewrite (starts_marker_app _ c Hs). exact H.
  - destruct (findm t) as [j|] eqn:Hj; simpl in H; [|discriminate]. inversion H; subst.
    change (x :: t ++ c) with ((x :: t) ++ c).
    destruct (starts_marker ((x :: t) ++ c)) eqn:Hs2.
    + destruct t as [|y t']; [discriminate|]. unfold starts_marker in Hs, Hs2. simpl in Hs2. congruence.
    + rewrite (IH c j eq_refl). reflexivity.
Qed.

Lemma skipn_app_le : forall (A : Type) n (b c : list A), (n <= length b)%nat -> skipn n (b ++ c) = skipn n b ++ c.
Proof. intros A n b c H. rewrite skipn_app. replace (n - length b)%nat with O by lia. reflexivity. Qed.

(* ---------- fuel irrelevance ---------- *)
Lemma resync_shorter : forall b, (7 <= length b)%nat -> (length (resync b) < length b)%nat.
Proof.
  intros b Hb. unfold resync. destruct (find1 b) as [i|] eqn:Hf.
  - unfold find1 in Hf. destruct (findm (tl b)) as [j|] eqn:Hj; simpl in Hf; [|discriminate].
    inversion Hf; subst. rewrite skipn_length. lia.
  - destruct (last b 0 =? 0xDE); simpl; lia.
Qed.

Lemma run_fuel_any : forall fuel b, (length b < fuel)%nat -> forall fuel', (length b < fuel')%nat ->
  run_fuel fuel b = run_fuel fuel' b.
Proof.
  induction fuel as [|fuel IH]; intros b Hlt fuel' Hlt'; [lia|].
  destruct fuel' as [|fuel']; [lia|]. simpl.
  destruct (extract b) as [f n| |] eqn:He; try reflexivity.
  - destruct (H_frame_stable _ _ _ He) as ((Hn1 & Hn2) & _ & _).
    assert (Hl : (length (skipn n b) < length b)%nat) by (rewrite skipn_length; lia).
    rewrite (IH (skipn n b) ltac:(lia) fuel' ltac:(lia)). reflexivity.
  - destruct (H_invalid_stable _ He) as (H7 & _).
    pose proof (resync_shorter b H7) as Hl.
    apply IH; lia.
Qed.
Lemma run_fuel_enough : forall fuel b, (length b < fuel)%nat -> run_fuel fuel b = run b.
Proof. intros. unfold run. apply run_fuel_any; lia. Qed.

Lemma run_unfold : forall b, run b =
  match extract b with
  | XTooShort => ([], b)
  | XInvalid => run (resync b)
  | XFrame f n => let '(fs, r) := run (skipn n b) in (f :: fs, r)
  end.
Proof.
  intros b. unfold run at 1. simpl. destruct (extract b) as [f n| |] eqn:He; try reflexivity.
  - destruct (H_frame_stable _ _ _ He) as ((Hn1 & Hn2) & _ & _).
    rewrite run_fuel_enough; [reflexivity | rewrite skipn_length; lia].
  - destruct (H_invalid_stable _ He) as (H7 & _).
    rewrite run_fuel_enough; [reflexivity | apply resync_shorter; exact H7].
Qed.

(* ---------- markers and find1 ---------- *)
Definition mk (i : nat) (y : list N) := starts_marker (skipn i y).

Lemma find1_some : forall b j, find1 b = Some j ->
  (1 <= j)%nat /\ (S j < length b)%nat /\ mk j b = true /\ forall k, (1 <= k < j)%nat -> mk k b = false.
Proof.
  unfold find1, mk. intros b j H. destruct (findm (tl b)) as [i|] eqn:Hi; simpl in H; [|discriminate].
  inversion H; subst. destruct (findm_some_lt _ _ Hi) as (Hl & Hm & Hn).
  destruct b as [|x t]; [simpl in Hl; lia|]. simpl in *. repeat split; try lia; try exact Hm.
  intros k Hk. destruct k; [lia|]. simpl. apply Hn; lia.
Qed.

Lemma find1_none : forall b, find1 b = None -> forall k, (1 <= k)%nat -> mk k b = false.
Proof.
  unfold find1, mk. intros b H k Hk. destruct (findm (tl b)) eqn:Hi; simpl in H; [discriminate|].
  destruct k; [lia|]. destruct b as [|x t]; [destruct k; reflexivity|]. simpl. apply findm_none; exact Hi.
Qed.

Lemma findm_first : forall b k, starts_marker (skipn k b) = true ->
  (forall i, (i < k)%nat -> starts_marker (skipn i b) = false) -> findm b = Some k.
Proof.
  induction b as [|x t IH]; intros k Hm Hn.
  - destruct k; discriminate.
  - rewrite findm_cons. destruct k.
    + simpl in Hm. rewrite Hm. reflexivity.
    + pose proof (Hn O ltac:(lia)) as H0. simpl in H0. rewrite H0. simpl in Hm. rewrite (IH k Hm); [reflexivity|].
      intros i Hi. apply (Hn (S i)). lia.
Qed.

Lemma find1_first : forall b k, (1 <= k)%nat -> mk k b = true ->
  (forall i, (1 <= i < k)%nat -> mk i b = false) -> find1 b = Some k.
Proof.
  unfold find1, mk. intros b k Hk Hm Hn. destruct k; [lia|]. destruct b as [|x t]; [destruct k; discriminate|].
  simpl in *. rewrite (findm_first t k Hm); [reflexivity|]. intros i Hi. apply (Hn (S i)). lia.
Qed.

Lemma mk_app_inside : forall x c i, (S i < length x)%nat -> mk i (x ++ c) = mk i x.
Proof.
  unfold mk. intros x c i Hi. rewrite skipn_app_le by lia.
  remember (skipn i x) as y eqn:Hy. assert (Hl : (2 <= length y)%nat) by (subst y; rewrite skipn_length; lia).
  destruct y as [|a [|b y']]; simpl in Hl; try lia. reflexivity.
Qed.

Lemma dels_short : forall y, (length y < 7)%nat -> run y = ([], y).
Proof. intros y H. rewrite run_unfold, (H_short _ H). reflexivity. Qed.

(* B: a buffer without any marker delivers nothing *)
Lemma dels_nomarker : forall y, (forall k, mk k y = false) -> dels y = [].
Proof.
  intros y Hn. unfold dels. rewrite run_unfold.
  destruct (extract y) as [f n| |] eqn:He; try reflexivity.
  - destruct (H_frame_stable _ _ _ He) as (_ & Hs & _). specialize (Hn O). unfold mk in Hn. simpl in Hn. congruence.
  - unfold resync. destruct (find1 y) as [j|] eqn:Hf.
    + destruct (find1_some _ _ Hf) as (_ & _ & Hm & _). rewrite Hn in Hm. discriminate.
    + destruct (last y 0 =? 0xDE); rewrite dels_short; simpl; try reflexivity; lia.
Qed.

(* A: a junk prefix before the first marker does not change deliveries *)
Lemma dels_skip_junk : forall y k, mk k y = true -> (forall i, (i < k)%nat -> mk i y = false) ->
  dels y = dels (skipn k y).
Proof.
  intros y k Hm Hn. destruct k; [reflexivity|].
  assert (Hlen : (S (S k) < length y + 1)%nat).
  { unfold mk in Hm. destruct (skipn (S k) y) as [|a [|b t]] eqn:Hs; try discriminate.
    assert (length (skipn (S k) y) >= 2)%nat by (rewrite Hs; simpl; lia). rewrite skipn_length in H. lia. }
  destruct (le_lt_dec 7 (length y)) as [H7|H7].
  - unfold dels at 1. rewrite run_unfold. rewrite (H_nomarker_invalid y H7 (Hn O ltac:(lia))).
    unfold resync. rewrite (find1_first y (S k)); [reflexivity| lia | exact Hm |].
    intros i Hi. apply Hn. lia.
  - unfold dels. rewrite dels_short by lia. rewrite dels_short; [reflexivity|]. rewrite skipn_length. lia.
Qed.

Lemma skipn_skipn' : forall (A : Type) a b (l : list A), skipn a (skipn b l) = skipn (b + a) l.
Proof. intros A a b. revert a. induction b as [|b IH]; intros a l; [reflexivity|]. destruct l; [destruct a; reflexivity|]. simpl. apply IH. Qed.

Lemma last_app_cons : forall (x : list N) d, x <> [] -> exists x' l, x = x' ++ [l] /\ last x d = l.
Proof.
  intros x d Hx. destruct (exists_last Hx) as (x' & l & ->). exists x', l. split; [reflexivity|]. apply last_last.
Qed.

(* L: two-chunk independence of deliveries *)
Theorem dels_app : forall x c, dels (x ++ c) = dels x ++ dels (resid x ++ c).
Proof.
  intros x. remember (length x) as len eqn:Hlen. revert x Hlen.
  induction len as [len IH] using lt_wf_ind. intros x Hlen c. subst len.
  unfold dels at 2, resid. rewrite (run_unfold x).
  destruct (extract x) as [f n| |] eqn:He.
  - (* frame *)
    destruct (H_frame_stable _ _ _ He) as ((Hn1 & Hn2) & _ & Hst).
    unfold dels at 1. rewrite (run_unfold (x ++ c)), Hst.
    rewrite skipn_app_le by lia.
    assert (Hl : (length (skipn n x) < length x)%nat) by (rewrite skipn_length; lia).
    pose proof (IH _ Hl (skipn n x) eq_refl c) as IHx. unfold dels, resid in IHx.
    destruct (run (skipn n x ++ c)) as [fs1 r1]. destruct (run (skipn n x)) as [fs2 r2]. simpl in *.
    rewrite IHx. reflexivity.
  - (* too short *) reflexivity.
  - (* invalid *)
    destruct (H_invalid_stable _ He) as (H7 & Hst).
    unfold dels at 1. rewrite (run_unfold (x ++ c)), Hst.
    unfold resync at 2 3. destruct (find1 x) as [i|] eqn:Hf.
    + (* marker inside x *)
      destruct (find1_some _ _ Hf) as (Hi1 & Hi2 & Hm & Hn).
      assert (Hfc : find1 (x ++ c) = Some i).
      { apply find1_first; [lia| rewrite mk_app_inside by lia; exact Hm |].
        intros k Hk. rewrite mk_app_inside by lia. apply Hn; lia. }
      unfold resync. rewrite Hfc. rewrite skipn_app_le by lia.
      assert (Hl : (length (skipn i x) < length x)%nat) by (rewrite skipn_length; lia).
      exact (IH _ Hl (skipn i x) eq_refl c).
    + (* no marker in x beyond index 0 *)
      set (R := if last x 0 =? 0xDE then [0xDE] else []).
      assert (HR : run R = ([], R)) by (apply dels_short; unfold R; destruct (last x 0 =? 0xDE); simpl; lia).
      rewrite HR. simpl fst. simpl snd. simpl app.
      (* p := start of R ++ c inside Z := x ++ c *)
      set (Z := x ++ c).
      set (p := if last x 0 =? 0xDE then (length x - 1)%nat else length x).
      assert (Hxne : x <> []) by (intro; subst; simpl in H7; lia).
      destruct (last_app_cons x 0 Hxne) as (x' & l & Hx & Hlast).
      assert (Hp : R ++ c = skipn p Z).
      { unfold R, p, Z. rewrite Hlast. rewrite Hx. rewrite app_length. simpl length.
        destruct (l =? 0xDE) eqn:Hl.
        - apply N.eqb_eq in Hl. replace (length x' + 1 - 1)%nat with (length x') by lia.
          rewrite <- app_assoc. rewrite skipn_app_le by lia. rewrite skipn_all. rewrite Hl. reflexivity.
        - replace (length x' + 1)%nat with (length (x' ++ [l])) by (rewrite app_length; simpl; lia).
          rewrite skipn_app_le by lia. rewrite skipn_all. reflexivity. }
      assert (Hnom : forall k, (1 <= k < p)%nat -> mk k Z = false).
      { intros k Hk. unfold Z. destruct (lt_dec (S k) (length x)) as [Hin|Hout].
        - rewrite mk_app_inside by lia. apply (find1_none _ Hf). lia.
        - (* k = length x - 1 and last x <> DE *)
          unfold p in Hk. rewrite Hlast in Hk. destruct (l =? 0xDE) eqn:Hl; [lia|].
          assert (k = length x') by (rewrite Hx, app_length in Hout, Hk; simpl in *; lia). subst k.
          unfold mk. rewrite Hx, <- app_assoc. rewrite skipn_app_le by lia. rewrite skipn_all. simpl.
          unfold starts_marker. destruct c; [reflexivity|]. rewrite Hl. reflexivity. }
      assert (Hp7 : (6 <= p)%nat) by (unfold p; destruct (last x 0 =? 0xDE); lia).
      rewrite Hp. unfold dels.
      change (fst (run (resync Z)) = fst (run (skipn p Z))).
      unfold resync. destruct (find1 Z) as [j|] eqn:HfZ.
      * destruct (find1_some _ _ HfZ) as (Hj1 & Hj2 & Hjm & Hjn).
        assert (Hjp : (p <= j)%nat).
        { destruct (le_lt_dec p j); [assumption|]. rewrite (Hnom j) in Hjm by lia. discriminate. }
        replace (skipn j Z) with (skipn (j - p) (skipn p Z)) by (rewrite skipn_skipn'; f_equal; lia).
        symmetry. apply (dels_skip_junk (skipn p Z) (j - p)).
        -- unfold mk. rewrite skipn_skipn'. replace (p + (j - p))%nat with j by lia. exact Hjm.
        -- intros i Hi. unfold mk. rewrite skipn_skipn'.
           destruct (Nat.eq_dec (p + i) 0) as [E|E]; [lia|]. apply Hjn. lia.
      * transitivity (@nil frame).
        -- destruct (last Z 0 =? 0xDE); rewrite dels_short; simpl; try reflexivity; lia.
        -- symmetry. apply dels_nomarker. intros k. unfold mk. rewrite skipn_skipn'.
           apply (find1_none _ HfZ). lia.
Qed.

End Generic.

Section Chunks.
Variable frame : Type.
Variable extract : list N -> xres frame.
Hypothesis H1 : forall b f n, extract b = XFrame frame f n ->
   (7 <= n <= length b)%nat /\ starts_marker b = true /\ forall c, extract (b ++ c) = XFrame frame f n.
Hypothesis H2 : forall b, extract b = XInvalid frame ->
   (7 <= length b)%nat /\ forall c, extract (b ++ c) = XInvalid frame.
Hypothesis H3 : forall b, (length b < 7)%nat -> extract b = XTooShort frame.
Hypothesis H4 : forall b, (7 <= length b)%nat -> starts_marker b = false -> extract b = XInvalid frame.

Notation dels := (dels frame extract).
Notation resid := (resid frame extract).

(* the receiver: buffer += chunk; deliver; keep residual *)
Definition feed (st : list frame * list N) (chunk : list N) : list frame * list N :=
  (fst st ++ dels (snd st ++ chunk), resid (snd st ++ chunk)).

(* observational equivalence of buffers *)
Definition beq (r r' : list N) := forall c, dels (r ++ c) = dels (r' ++ c).

Lemma beq_resid_app : forall x c, beq (resid (x ++ c)) (resid (resid x ++ c)).
Proof.
  intros x c d.
  pose proof (dels_app frame extract H1 H2 H3 H4 (x ++ c) d) as E1.
  pose proof (dels_app frame extract H1 H2 H3 H4 x (c ++ d)) as E2.
  pose proof (dels_app frame extract H1 H2 H3 H4 x c) as E3.
  pose proof (dels_app frame extract H1 H2 H3 H4 (resid x ++ c) d) as E4.
  assert (A1 : (x ++ c) ++ d = x ++ c ++ d) by (rewrite app_assoc; reflexivity).
  assert (A2 : (resid x ++ c) ++ d = resid x ++ c ++ d) by (rewrite app_assoc; reflexivity).
  rewrite A1 in E1. rewrite A2 in E4. rewrite E2, E4, E3 in E1. rewrite <- app_assoc in E1.
  apply app_inv_head in E1. apply app_inv_head in E1. symmetry. exact E1.
Qed.

Lemma beq_feed : forall r r' c, beq r r' -> beq (resid (r ++ c)) (resid (r' ++ c)).
Proof.
  intros r r' c Hb d.
  pose proof (dels_app frame extract H1 H2 H3 H4 (r ++ c) d) as E1.
  pose proof (dels_app frame extract H1 H2 H3 H4 (r' ++ c) d) as E2.
  assert (A1 : (r ++ c) ++ d = r ++ c ++ d) by (rewrite app_assoc; reflexivity).
  assert (A2 : (r' ++ c) ++ d = r' ++ c ++ d) by (rewrite app_assoc; reflexivity).
  rewrite A1 in E1. rewrite A2 in E2. rewrite (Hb (c ++ d)) in E1. rewrite E2 in E1.
  rewrite (Hb c) in E1. apply app_inv_head in E1. symmetry. exact E1.
Qed.

Theorem chunk_independent : forall chunks,
  let st := fold_left feed chunks ([], []) in
  fst st = dels (concat chunks) /\ beq (snd st) (resid (concat chunks)).
Proof.
  intros chunks. 
  assert (G : forall ds r s, beq r (resid s) -> ds = dels s ->
     let st := fold_left feed chunks (ds, r) in
     fst st = dels (s ++ concat chunks) /\ beq (snd st) (resid (s ++ concat chunks))).
  { induction chunks as [|c cs IH]; intros ds r s Hb Hd; simpl.
    - rewrite app_nil_r. split; assumption.
    - unfold feed at 2. simpl fst. simpl snd.
      replace (s ++ c ++ concat cs) with ((s ++ c) ++ concat cs) by (rewrite app_assoc; reflexivity).
      apply IH.
      + intros d. rewrite (beq_feed r (resid s) c Hb d). symmetry. apply beq_resid_app.
      + rewrite Hd. rewrite (dels_app frame extract H1 H2 H3 H4 s c).
        pose proof (Hb c) as Hc. rewrite Hc. reflexivity. }
  specialize (G [] [] []). simpl in G. apply G.
  - intros c. unfold resid, run. simpl. rewrite (H3 []) by (simpl; lia). reflexivity.
  - unfold dels, run. simpl. rewrite (H3 []) by (simpl; lia). reflexivity.
Qed.
End Chunks.

