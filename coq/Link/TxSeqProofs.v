(* C08: packet sequence numbers advance 0,1,2,3,1,2,3.. exactly on matching ACKs. *)
From Coq Require Import NArith ZArith List Bool Lia ZifyN ZifyBool.
From ZB Require Import Base.Bytes Link.LinkSpec Link.LinkSpecProofs Link.Frame Link.Rx Link.TxSeq Link.FrameProofs gen.GenConsts.
Import ListNotations.
Ltac Zify.zify_post_hook ::= Z.div_mod_to_equations.
Open Scope N_scope.

(* the number stamped after m matching acknowledgements since the last close: 0,1,2,3,1,2,3,... *)
Definition seq_of (m : N) : N := if m =? 0 then 0 else (m - 1) mod 3 + 1.

Lemma seq_of_lt4 : forall m, seq_of m < 4.
Proof. intros m. unfold seq_of. destruct (m =? 0); lia. Qed.

Lemma next_seq_of : forall m, next_seq (seq_of m) = seq_of (m + 1).
Proof.
  intros m. unfold next_seq, seq_of. destruct (N.eqb_spec m 0) as [->|Hm]; [reflexivity|].
  replace (m + 1 =? 0) with false by (symmetry; apply N.eqb_neq; lia). replace (m + 1 - 1) with m by lia. lia.
Qed.

(* the abstract history: number of matching ACKs since the last close *)
Definition cstep (m : N) (ev : tev) : N :=
  match ev with
  | TAck n => if n =? seq_of m then m + 1 else m
  | TClose => 0
  | _ => m
  end.

Theorem tstep_counts : forall m ev, fst (tstep (seq_of m) ev) = seq_of (cstep m ev).
Proof.
  intros m [f|n| |q|]; cbn [tstep cstep fst]; try reflexivity.
  destruct (n =? seq_of m); [apply next_seq_of|reflexivity].
Qed.

(* for every history: the sequence state is seq_of (matching ACKs since the last close) *)
Theorem trun_counts : forall evs m, fst (trun (seq_of m) evs) = seq_of (fold_left cstep evs m).
Proof.
  induction evs as [|ev evs IH]; intros m; [reflexivity|]. cbn [trun fold_left].
  pose proof (tstep_counts m ev) as T. destruct (tstep (seq_of m) ev) as [s1 w1]. cbn [fst] in T. rewrite T.
  specialize (IH (cstep m ev)). destruct (trun (seq_of (cstep m ev)) evs) as [s2 w2]. exact IH.
Qed.

(* only a matching ACK or a close changes the number *)
Theorem seq_changes_only_on_matching_ack : forall s ev,
  fst (tstep s ev) = match ev with
                     | TAck n => if n =? s then s mod 3 + 1 else s
                     | TClose => 0
                     | _ => s
                     end.
Proof. intros s [f|n| |q|]; reflexivity. Qed.

(* what a send writes carries the current number and a valid header checksum: for any data frame
   the host builds (flags none / first / last / both), the bytes written are the spec encoding of a
   well-formed frame whose packet sequence field is the current number *)
Theorem send_stamps_current : forall m fl0 hdr data size, data_flags_ok fl0 -> bytes_ok data ->
  (fl_first fl0 = true -> exists h, hdr = Some h /\ h <> 0 /\ h < 2 ^ 32) ->
  (fl_first fl0 = false -> hdr = None) ->
  size = 7 + N.of_nat (length (hl_body {| hl_hdr := hdr; hl_data := data |})) -> size < 65536 ->
  let f := {| fr_ll := ll_build size fl0; fr_hl := Some {| hl_hdr := hdr; hl_data := data |} |} in
  exists w, snd (tstep (seq_of m) (TSend f)) = [spec_encode w] /\ wf w /\ fl_pseq (w_flags w) = seq_of m /\
            w_hdr w = hdr /\ w_data w = data.
Proof.
  intros m fl0 hdr data size Hfl Hd H1 H0 Hsz Hlt f.
  destruct (stamped_data_frame (seq_of m) fl0 hdr data size (seq_of_lt4 m) Hfl Hd H1 H0 Hsz Hlt) as [E W].
  destruct (stamped_flags (seq_of m) fl0 (seq_of_lt4 m) Hfl) as (_ & _ & _ & _ & _ & P).
  eexists. cbn [tstep snd]. split; [unfold f; rewrite E; reflexivity|]. split; [exact W|].
  split; [exact P|]. split; reflexivity.
Qed.

Example seq_cycle : map seq_of [0; 1; 2; 3; 4; 5; 6; 7] = [0; 1; 2; 3; 1; 2; 3; 1].
Proof. reflexivity. Qed.
