(* C11, link level, end to end: whatever the host writes under a schedule whose data frames form contiguous fragment
   runs (acknowledgement frames may be interspersed anywhere), a protocol-following NCP - parse the byte stream by the
   format (every checksum and length checked: Link/RxSpec.v), drop the ACK frames, concatenate first..last fragments
   (Link/Reasm.v) - receives exactly the command header and parameter bytes of every message whose last fragment was
   written, in that order, and nothing else.  Composes C04/C05 (frame bytes), C09 (partition into fragments),
   the clean-stream parse and the reassembly theorem. *)
From Coq Require Import NArith List Bool Lia Arith.
From ZB Require Import Base.Bytes Link.LinkSpec Link.LinkSpecProofs Link.Frame Link.FrameProofs Link.Frag Link.FragProofs
  Link.Reasm Link.ReasmProofs Link.RxSpec gen.GenConsts.
Import ListNotations.
Open Scope N_scope.

Section EndToEnd.

(* request id -> (command header, parameter bytes) of the message it carries *)
Variable msg : nat -> N * list N.

Definition m_hdr (r : nat) : N := fst (msg r).
Definition m_data (r : nat) : list N := snd (msg r).
Definition m_ser (r : nat) : list N := le_enc 4 (m_hdr r) ++ m_data r.
Definition valid (r : nat) : Prop :=
  m_hdr r <> 0 /\ m_hdr r < 2 ^ 32 /\ bytes_ok (m_data r) /\ N.of_nat (length (m_data r)) + 11 < 65536.

(* what the host's transmitter makes of the message: CommandBase.to_frame + Frame.handle_tx_fragmentation *)
Definition frames_of (r : nat) : list frame :=
  match to_frame (m_hdr r) (m_data r) with Some F => tx_fragment F | None => [] end.
Definition nfr (r : nat) : nat := length (frames_of r).
Definition dummy : frame := {| fr_ll := 0; fr_hl := None |}.

(* the pieces of the message the fragments carry *)
Definition bodies (r : nat) : list (list N) :=
  if (length (m_ser r) <=? MAXB)%nat then [m_ser r] else map snd (spec_fragments (m_ser r)).

(* what is written to the transport *)
Inductive item :=
| IAck (q : N) (rt : bool)              (* an acknowledgement frame for an incoming data frame *)
| IFrag (r k : nat) (q : N).            (* fragment k of request r, stamped with packet sequence q by uart.send *)

Definition item_bytes (it : item) : list N :=
  match it with
  | IAck q rt => serialize (ack_frame q rt)
  | IFrag r k q => serialize (stamp q (nth k (frames_of r) dummy))
  end.
Definition wire (its : list item) : list N := concat (map item_bytes its).

(* the schedules considered: fragment 0 of any request may start a run at any time (abandoning an unfinished run,
   e.g. of a cancelled request); fragment k > 0 only directly continues the run in progress (among data frames) *)
Definition continues (cur : option (nat * nat)) (r k : nat) : bool :=
  match cur with Some (r', k') => (r' =? r)%nat && (k' =? k)%nat | None => false end.
Definition sched_step (cur : option (nat * nat)) (it : item) : option (option (nat * nat)) :=
  match it with
  | IAck q rt => if q <? 4 then Some cur else None
  | IFrag r k q =>
      if (q <? 4) && (k <? nfr r)%nat && ((k =? 0)%nat || continues cur r k)
      then Some (if (S k =? nfr r)%nat then None else Some (r, S k)) else None
  end.
Fixpoint sched_run (cur : option (nat * nat)) (its : list item) : option (option (nat * nat)) :=
  match its with
  | [] => Some cur
  | it :: its' => match sched_step cur it with Some c => sched_run c its' | None => None end
  end.

(* the requests whose last fragment is written, in that order *)
Fixpoint completed (its : list item) : list nat :=
  match its with
  | [] => []
  | IFrag r k _ :: its' => if (S k =? nfr r)%nat then r :: completed its' else completed its'
  | _ :: its' => completed its'
  end.

(* the protocol-following NCP *)
Definition ncp (bytes : list N) : list (list N) * list rmsg :=
  reasm_run [] (filter (fun w => negb (w_ack w)) (spec_parse bytes)).

(* ---------------------------------------------------------------------- *)
(* facts about one fragment frame *)

Lemma to_frame_some : forall r, valid r -> exists F, to_frame (m_hdr r) (m_data r) = Some F.
Proof.
  intros r (Hn & Hh & Hd & Hfit). unfold to_frame. cbv zeta.
  replace (N.of_nat (length (hl_serialize {| hl_hdr := Some (m_hdr r); hl_data := m_data r |})) <? 65536) with true; [eexists; reflexivity|].
  symmetry. apply N.ltb_lt. unfold hl_serialize, hl_body. cbn [hl_hdr hl_data].
  replace (m_hdr r =? 0) with false by (symmetry; apply N.eqb_neq; exact Hn).
  rewrite !app_length, !le_enc_length. lia.
Qed.

Lemma frames_small : forall r, valid r -> (length (m_ser r) <= MAXB)%nat ->
  exists F, to_frame (m_hdr r) (m_data r) = Some F /\ frames_of r = [F].
Proof.
  intros r V Hl. destruct (to_frame_some r V) as [F HF]. exists F. split; [exact HF|].
  unfold frames_of. rewrite HF. destruct V as (Hn & _). exact (proj1 (tx_fragment_spec _ _ _ HF Hn) Hl).
Qed.

Lemma frames_big : forall r, valid r -> (MAXB < length (m_ser r))%nat ->
  frames_of r = map (frame_of_piece (m_hdr r)) (spec_fragments (m_ser r)).
Proof.
  intros r V Hl. destruct (to_frame_some r V) as [F HF]. unfold frames_of. rewrite HF.
  destruct V as (Hn & _). exact (proj2 (tx_fragment_spec _ _ _ HF Hn) Hl).
Qed.

Lemma bodies_length : forall r, valid r -> length (bodies r) = nfr r.
Proof.
  intros r V. unfold bodies, nfr. destruct (Nat.leb_spec (length (m_ser r)) MAXB) as [Hl|Hl].
  - destruct (frames_small r V Hl) as (F & _ & E). rewrite E. reflexivity.
  - rewrite (frames_big r V Hl), !map_length. reflexivity.
Qed.

Lemma bodies_concat : forall r, concat (bodies r) = m_ser r.
Proof.
  intros r. unfold bodies. destruct (length (m_ser r) <=? MAXB)%nat.
  - cbn [concat]. apply app_nil_r.
  - apply pieces_concat.
Qed.

Lemma nth_flags : forall (a b : N) m k, (k < S (S m))%nat ->
  nth k (a :: repeat 0 m ++ [b]) 0 = if (k =? 0)%nat then a else if (S k =? S (S m))%nat then b else 0.
Proof.
  intros a b m k Hk. destruct k as [|k]; [reflexivity|]. cbn [nth Nat.eqb].
  destruct (Nat.eqb_spec k m) as [->|Hne].
  - rewrite app_nth2 by (rewrite repeat_length; lia). rewrite repeat_length, Nat.sub_diag. reflexivity.
  - rewrite app_nth1 by (rewrite repeat_length; lia). apply nth_repeat.
Qed.

Lemma rx_body_of_wf : forall w h, wf w -> w_ack w = false -> h <> 0 -> h < 2 ^ 32 ->
  (fl_first (w_flags w) = true -> firstn 4 (w_body w) = le_enc 4 h) ->
  rx_body w = w_body w /\ (fl_first (w_flags w) = true -> w_hdr w = Some h).
Proof.
  intros w h W A Hn Hh Hfirst. destruct (wf_hdr w W A) as [[F1 _] F2].
  destruct (fl_first (w_flags w)) eqn:E.
  - destruct (F1 eq_refl) as (h' & Hw & Hh'). specialize (Hfirst eq_refl).
    unfold w_body in Hfirst. rewrite Hw in Hfirst. rewrite firstn4_enc in Hfirst.
    assert (h' = h).
    { rewrite <- (le_val_le_enc 4 h') by exact Hh'. rewrite <- (le_val_le_enc 4 h) by exact Hh. rewrite Hfirst. reflexivity. }
    subst h'. split; [|intros _; exact Hw].
    unfold rx_body, hl_body, w_body. cbn [hl_hdr hl_data]. rewrite Hw.
    replace (h =? 0) with false by (symmetry; apply N.eqb_neq; exact Hn). reflexivity.
  - split; [|discriminate]. unfold rx_body, hl_body, w_body. cbn [hl_hdr hl_data]. rewrite (F2 eq_refl). reflexivity.
Qed.

(* every fragment the transmitter makes, stamped with any sequence number, is the spec encoding of a well-formed data
   frame flagged first iff it is fragment 0 and last iff it is the last one, carrying exactly its piece *)
Lemma frag_facts : forall r k q, valid r -> (k < nfr r)%nat -> q < 4 ->
  exists w, item_bytes (IFrag r k q) = spec_encode w /\ wf w /\ w_ack w = false /\
    fl_first (w_flags w) = (k =? 0)%nat /\ fl_last (w_flags w) = (S k =? nfr r)%nat /\
    rx_body w = nth k (bodies r) [] /\
    (nfr r = 1%nat -> w_hdr w = Some (m_hdr r) /\ w_data w = m_data r).
Proof.
  intros r k q V Hk Hq. pose proof V as (Hn & Hh & Hd & Hfit).
  cbn [item_bytes]. unfold nfr in *. unfold bodies.
  destruct (Nat.leb_spec (length (m_ser r)) MAXB) as [Hl|Hl].
  - (* one frame *)
    destruct (frames_small r V Hl) as (F & HF & E). rewrite E in *. cbn [length] in Hk.
    assert (k = 0%nat) by lia. subst k. cbn [nth].
    destruct (command_frame_wellformed (m_hdr r) (m_data r) q F [] HF Hn Hh Hd Hq Hfit) as (W & B & _).
    set (w := mk_w (N.of_nat (length (m_data r)) + 11) (N.lor (N.shiftl q 2) 192) (Some (m_hdr r)) (m_data r)) in *.
    exists w. split; [exact B|]. split; [exact W|]. split; [reflexivity|].
    assert (FL : fl_first (w_flags w) = true /\ fl_last (w_flags w) = true).
    { unfold w. cbn [mk_w w_flags]. destruct (seq4 _ Hq) as [-> | [-> | [-> | ->]]]; split; reflexivity. }
    destruct FL as [F1 F2]. split; [exact F1|]. split; [exact F2|].
    split; [|intros _; split; reflexivity].
    unfold rx_body, hl_body, w. cbn [mk_w w_hdr w_data hl_hdr hl_data].
    replace (m_hdr r =? 0) with false by (symmetry; apply N.eqb_neq; exact Hn). reflexivity.
  - (* several fragments *)
    rewrite (frames_big r V Hl) in *. rewrite map_length in Hk.
    set (pcs := spec_fragments (m_ser r)) in *.
    rewrite (nth_indep _ dummy (frame_of_piece (m_hdr r) (0, []))) by (rewrite map_length; exact Hk).
    rewrite map_nth.
    set (p := nth k pcs (0, [])).
    assert (Hin : In p pcs) by (apply nth_In; exact Hk).
    destruct (fragment_frames_wellformed (m_hdr r) (m_data r) q p Hn Hh Hd Hq Hl Hin)
      as (w & B & W & A & Hb & _ & F1 & F2 & _).
    (* the flags of piece k *)
    pose proof (pieces_flags (m_ser r) Hl) as PF. fold pcs in PF.
    assert (Hlen2 : (2 <= length pcs)%nat).
    { unfold pcs, spec_fragments. cbn [length].
      pose proof (chunks_nonempty (length (m_ser r)) (skipn (first_size (length (m_ser r))) (m_ser r))) as NE.
      destruct (chunks _ _) as [|c cs]; [congruence|]. destruct cs; cbn [label_rest length]; lia. }
    assert (Hfst : fst p = if (k =? 0)%nat then llflag_FirstFrag else if (S k =? length pcs)%nat then llflag_LastFrag else 0).
    { unfold p. change (fst (nth k pcs (0, []))) with (fst (nth k pcs (0, @nil N))).
      rewrite <- (map_nth fst pcs (0, []) k). cbn [fst]. rewrite PF.
      replace (length pcs) with (S (S (length pcs - 2))) at 2 by lia.
      apply nth_flags. lia. }
    exists w. split; [exact B|]. split; [exact W|]. split; [exact A|].
    assert (E1 : fl_first (w_flags w) = (k =? 0)%nat).
    { rewrite F1, Hfst. destruct (k =? 0)%nat; [reflexivity|]. destruct (S k =? length pcs)%nat; reflexivity. }
    assert (E2 : fl_last (w_flags w) = (S k =? length pcs)%nat).
    { rewrite F2, Hfst. destruct (Nat.eqb_spec k 0) as [->|Hk0].
      - replace (1 =? length pcs)%nat with false by (symmetry; apply Nat.eqb_neq; lia). reflexivity.
      - destruct (S k =? length pcs)%nat; reflexivity. }
    split; [exact E1|]. split; [rewrite map_length; exact E2|].
    split; [|rewrite map_length; intros E; lia].
    replace (nth k (map snd pcs) []) with (snd p)
      by (unfold p; symmetry; change (@nil N) with (snd (0, @nil N)) at 1; apply map_nth).
    rewrite <- Hb.
    apply (rx_body_of_wf w (m_hdr r) W A Hn Hh).
    intros Ft. rewrite E1 in Ft. apply Nat.eqb_eq in Ft. rewrite Hb. unfold p. rewrite Ft.
    unfold pcs, spec_fragments. cbn [nth snd]. apply first_piece_prefix. exact Hl.
Qed.

(* ---------------------------------------------------------------------- *)
(* the byte stream of a schedule parses into one well-formed frame per item *)

Definition item_frame (it : item) (w : wframe) : Prop :=
  match it with
  | IAck q rt => w_ack w = true
  | IFrag r k q => w_ack w = false /\ fl_first (w_flags w) = (k =? 0)%nat /\ fl_last (w_flags w) = (S k =? nfr r)%nat /\
                   rx_body w = nth k (bodies r) [] /\ (nfr r = 1%nat -> w_hdr w = Some (m_hdr r) /\ w_data w = m_data r)
  end.
Definition item_ok (it : item) : Prop :=
  match it with IAck q _ => q < 4 | IFrag r k q => valid r /\ (k < nfr r)%nat /\ q < 4 end.

Lemma sched_items_ok : forall its cur c, (forall r k q, In (IFrag r k q) its -> valid r) ->
  sched_run cur its = Some c -> Forall item_ok its.
Proof.
  induction its as [|it its IH]; intros cur c V H; [constructor|]. cbn [sched_run] in H.
  destruct (sched_step cur it) as [c1|] eqn:E; [|discriminate]. constructor.
  - destruct it as [q rt|r k q]; cbn [sched_step item_ok] in *.
    + destruct (N.ltb_spec q 4); [assumption|discriminate].
    + destruct (N.ltb_spec q 4); [|discriminate]. destruct (Nat.ltb_spec k (nfr r)); [|discriminate].
      split; [apply (V r k q); left; reflexivity|]. split; assumption.
  - apply (IH c1 c); [|exact H]. intros r k q Hin. apply (V r k q). right. exact Hin.
Qed.

Lemma wire_frames : forall its, Forall item_ok its ->
  exists ws, wire its = concat (map spec_encode ws) /\ Forall wf ws /\ Forall2 item_frame its ws.
Proof.
  induction its as [|it its IH]; intros H.
  - exists []. split; [reflexivity|]. split; constructor.
  - inversion H as [|x xs Hit Hits]; subst. destruct (IH Hits) as (ws & E & W & F).
    destruct it as [q rt|r k q]; cbn [item_ok] in Hit.
    + destruct (ack_frame_wellformed q rt [] Hit) as (Wa & Ea & _).
      exists (ack_w q rt :: ws). split; [|split].
      * unfold wire in *. cbn [map concat item_bytes]. rewrite Ea, E. reflexivity.
      * constructor; assumption.
      * constructor; [reflexivity|exact F].
    + destruct Hit as (V & Hk & Hq). destruct (frag_facts r k q V Hk Hq) as (w & B & Ww & A & F1 & F2 & Hb & H1).
      exists (w :: ws). split; [|split].
      * unfold wire in *. cbn [map concat]. rewrite B, E. reflexivity.
      * constructor; assumption.
      * constructor; [|exact F]. cbn [item_frame]. repeat split; try assumption; apply H1; assumption.
Qed.

(* ---------------------------------------------------------------------- *)
(* reassembly along a schedule *)

Definition msg_of (r : nat) : rmsg := RMsg (m_hdr r) (m_data r).

(* the NCP's fragment buffer while a run is in progress: the pieces received so far *)
Definition P (cur : option (nat * nat)) (pending : list (list N)) : Prop :=
  match cur with
  | Some (r, k) => (0 < k < nfr r)%nat /\ valid r /\ pending = firstn k (bodies r)
  | None => True
  end.

Lemma firstn_S_nth : forall (A : Type) (l : list A) k d, (k < length l)%nat -> firstn (S k) l = firstn k l ++ [nth k l d].
Proof.
  intros A l. induction l as [|x l IH]; intros k d Hk; [cbn in Hk; lia|].
  destruct k as [|k]; [reflexivity|]. cbn [firstn nth app]. f_equal. apply IH. cbn [length] in Hk. lia.
Qed.

Lemma reasm_sched : forall its ws, Forall2 item_frame its ws ->
  forall cur cur' pending, (forall r k q, In (IFrag r k q) its -> valid r) ->
  sched_run cur its = Some cur' -> P cur pending ->
  exists pending', reasm_run pending (filter (fun w => negb (w_ack w)) ws) = (pending', map msg_of (completed its)) /\
                   P cur' pending'.
Proof.
  induction 1 as [|it w its ws Hw Hrest IH]; intros cur cur' pending V H HP.
  - cbn [sched_run] in H. assert (cur' = cur) by congruence. subst cur'. exists pending. split; [reflexivity|exact HP].
  - cbn [sched_run] in H. destruct (sched_step cur it) as [c1|] eqn:E; [|discriminate].
    assert (V' : forall r k q, In (IFrag r k q) its -> valid r) by (intros r k q Hin; apply (V r k q); right; exact Hin).
    destruct it as [q rt|r k q].
    + (* acknowledgement frame: not handed to reassembly *)
      cbn [item_frame] in Hw. cbn [filter]. rewrite Hw. cbn [negb completed].
      cbn [sched_step] in E. destruct (q <? 4); [|discriminate]. assert (c1 = cur) by congruence. subst c1.
      apply (IH cur cur' pending V' H HP).
    + cbn [item_frame] in Hw. destruct Hw as (A & F1 & F2 & Hb & H1).
      assert (Vr : valid r) by (apply (V r k q); left; reflexivity).
      pose proof Vr as (Hn & Hh & _).
      cbn [filter]. rewrite A. cbn [negb]. cbn [sched_step] in E.
      destruct (q <? 4); [|discriminate]. destruct (Nat.ltb_spec k (nfr r)) as [Hk|]; [|discriminate].
      cbn [andb] in E.
      pose proof (bodies_length r Vr) as BL.
      cbn [completed reasm_run]. unfold reasm_step. rewrite F1, F2.
      destruct (Nat.eqb_spec k 0) as [->|Hk0].
      * (* fragment 0 starts afresh *)
        cbn [orb] in E. destruct (Nat.eqb_spec 1 (nfr r)) as [E1|E1].
        -- (* unfragmented message: delivered at once *)
           assert (c1 = None) by congruence. subst c1. cbn [negb].
           destruct (H1 (eq_sym E1)) as [Hh1 Hd1]. rewrite Hh1, Hd1.
           destruct (IH None cur' [] V' H I) as (p' & R & HP'). rewrite R.
           exists p'. split; [reflexivity|exact HP'].
        -- assert (c1 = Some (r, 1%nat)) by congruence. subst c1. cbn [negb app].
           assert (HP1 : P (Some (r, 1%nat)) [rx_body w]).
           { cbn [P]. split; [lia|]. split; [exact Vr|]. rewrite Hb.
             rewrite (firstn_S_nth _ (bodies r) 0 []) by lia. reflexivity. }
           destruct (IH (Some (r, 1%nat)) cur' [rx_body w] V' H HP1) as (p' & R & HP'). rewrite R.
           exists p'. split; [reflexivity|exact HP'].
      * (* a continuation fragment: directly continues the run in progress *)
        replace (k =? 0)%nat with false in E by (symmetry; apply Nat.eqb_neq; exact Hk0). cbn [orb] in E.
        destruct cur as [[r0 k0]|]; cbn [continues] in E; [|discriminate].
        destruct (Nat.eqb_spec r0 r) as [->|]; [|discriminate]. destruct (Nat.eqb_spec k0 k) as [->|]; [|discriminate].
        cbn [andb] in E. cbn [P] in HP. destruct HP as (Hk1 & _ & Hpend).
        assert (Hnext : pending ++ [rx_body w] = firstn (S k) (bodies r)).
        { rewrite Hpend, Hb. symmetry. apply firstn_S_nth. lia. }
        destruct (Nat.eqb_spec (S k) (nfr r)) as [E1|E1].
        -- (* last fragment: the message is complete *)
           assert (c1 = None) by congruence. subst c1. cbn [negb].
           assert (Hne : pending <> []).
           { rewrite Hpend. intros Z. apply (f_equal (@length _)) in Z. rewrite firstn_length in Z. cbn [length] in Z. lia. }
           destruct pending as [|p0 ps]; [congruence|].
           rewrite Hnext. rewrite E1, <- BL, firstn_all, bodies_concat. unfold m_ser.
           rewrite le_dec4_roundtrip by exact Hh.
           destruct (IH None cur' [] V' H I) as (p' & R & HP'). rewrite R.
           exists p'. split; [reflexivity|exact HP'].
        -- assert (c1 = Some (r, S k)) by congruence. subst c1. cbn [negb]. rewrite Hnext.
           assert (HP1 : P (Some (r, S k)) (firstn (S k) (bodies r))).
           { cbn [P]. split; [lia|]. split; [exact Vr|reflexivity]. }
           destruct (IH (Some (r, S k)) cur' _ V' H HP1) as (p' & R & HP'). rewrite R.
           exists p'. split; [reflexivity|exact HP'].
Qed.

(* MAIN: for every schedule of that shape, over any set of valid messages, with any sequence numbers *)
Theorem ncp_receives_exactly_the_completed_messages : forall its cur',
  (forall r k q, In (IFrag r k q) its -> valid r) -> sched_run None its = Some cur' ->
  snd (ncp (wire its)) = map msg_of (completed its) /\
  P cur' (fst (ncp (wire its))).         (* and its fragment buffer holds exactly the pieces of the run in progress *)
Proof.
  intros its cur' V H.
  pose proof (sched_items_ok its None cur' V H) as OK.
  destruct (wire_frames its OK) as (ws & E & W & F).
  unfold ncp. rewrite E, (spec_parse_clean_stream ws W).
  destruct (reasm_sched its ws F None cur' [] V H I) as (p' & R & HP). rewrite R. cbn [fst snd].
  split; [reflexivity|exact HP].
Qed.

End EndToEnd.
