(* C10: fragmented incoming messages are reassembled into exactly the original. *)
From Coq Require Import NArith List Bool Lia Arith.
From ZB Require Import Base.Bytes Crc.CrcProofs Link.LinkSpec Link.LinkSpecProofs Link.Frame Link.Reasm Link.RxSpec Link.RxProofs.
Import ListNotations.
Open Scope N_scope.

(* the frames a message (command header h, parameter bytes d) arrives as, for a split of
   ser = le_enc 4 h ++ d into a first piece (>= 4 bytes, starting with the header) and further pieces *)
Definition first_frame (fl : N) (piece : list N) : wframe :=
  {| w_size := N.of_nat (length piece) + 7; w_flags := fl; w_crc8 := 0; w_ack := false;
     w_hdr := Some (le_val (firstn 4 piece)); w_data := skipn 4 piece |}.
Definition cont_frame (fl : N) (piece : list N) : wframe :=
  {| w_size := N.of_nat (length piece) + 7; w_flags := fl; w_crc8 := 0; w_ack := false; w_hdr := None; w_data := piece |}.

(* flags: only the first/last bits matter to reassembly; sequence bits etc. are arbitrary *)
Definition frag_seq (h : N) (d : list N) (ws : list wframe) : Prop :=
  exists ps : list (list N),
  concat ps = le_enc 4 h ++ d /\ ps <> [] /\ (4 <= length (hd [] ps))%nat /\ length ws = length ps /\
  forall i, (i < length ws)%nat ->
     let w := nth i ws (cont_frame 0 []) in let p := nth i ps [] in
     fl_first (w_flags w) = (i =? 0)%nat /\ fl_last (w_flags w) = (S i =? length ws)%nat /\ w_ack w = false /\
     (i = 0%nat -> w_hdr w = Some (le_val (firstn 4 p)) /\ w_data w = skipn 4 p) /\
     (i <> 0%nat -> w_hdr w = None /\ w_data w = p).

Lemma rx_body_first : forall h p w, h <> 0 -> h < 2 ^ 32 -> firstn 4 p = le_enc 4 h ->
  w_hdr w = Some (le_val (firstn 4 p)) -> w_data w = skipn 4 p -> rx_body w = p.
Proof.
  intros h p w Hn Hh Hp Hw Hd. unfold rx_body, hl_body. cbn [hl_hdr hl_data]. rewrite Hw, Hd, Hp.
  rewrite le_val_le_enc by exact Hh. replace (h =? 0) with false by (symmetry; apply N.eqb_neq; exact Hn).
  rewrite <- Hp. apply firstn_skipn.
Qed.

Lemma rx_body_cont : forall w p, w_hdr w = None -> w_data w = p -> rx_body w = p.
Proof. intros w p H1 H2. unfold rx_body, hl_body. cbn [hl_hdr hl_data]. rewrite H1, H2. reflexivity. Qed.

Lemma le_dec4_roundtrip : forall h d, h < 2 ^ 32 -> le_dec 4 (le_enc 4 h ++ d) = Some (h, d).
Proof. intros h d H. apply le_roundtrip. exact H. Qed.

(* continuation frames: buffered until the last-flagged one, which merges everything *)
Lemma reasm_conts : forall ps ws pending,
  length ws = length ps -> pending <> [] ->
  (forall i, (i < length ws)%nat -> let w := nth i ws (cont_frame 0 []) in
     fl_first (w_flags w) = false /\ fl_last (w_flags w) = (S i =? length ws)%nat /\ rx_body w = nth i ps []) ->
  ws <> [] ->
  reasm_run pending ws = ([], [match le_dec 4 (concat (pending ++ ps)) with Some (h, d) => RMsg h d | None => RShort end]).
Proof.
  induction ps as [|p ps IH]; intros ws pending Hl Hp Hs Hne.
  - destruct ws; [congruence|discriminate].
  - destruct ws as [|w ws]; [discriminate|]. cbn [length] in Hl. injection Hl as Hl.
    destruct (Hs 0%nat ltac:(cbn; lia)) as (F & L & B). cbn [nth] in F, L, B.
    cbn [reasm_run]. unfold reasm_step. rewrite F.
    destruct ws as [|w2 ws2].
    + (* last *)
      destruct ps; [|discriminate]. cbn [length Nat.eqb] in L. rewrite L. cbn [negb].
      destruct pending as [|p0 pend]; [congruence|]. cbn [reasm_run]. rewrite B. reflexivity.
    + cbn [length Nat.eqb] in L. rewrite L. cbn [negb]. rewrite B.
      assert (Hnext : forall i, (i < length (w2 :: ws2))%nat -> let w' := nth i (w2 :: ws2) (cont_frame 0 []) in
         fl_first (w_flags w') = false /\ fl_last (w_flags w') = (S i =? length (w2 :: ws2))%nat /\ rx_body w' = nth i ps []).
      { intros i Hi. specialize (Hs (S i) ltac:(cbn [length] in *; lia)). cbn [nth length] in Hs |- *.
        destruct Hs as (A & B' & C). repeat split; try assumption. }
      rewrite (IH (w2 :: ws2) (pending ++ [p]) Hl ltac:(intros E; apply app_eq_nil in E; destruct E; discriminate) Hnext ltac:(discriminate)).
      rewrite <- app_assoc. reflexivity.
Qed.

(* MAIN: from ANY pending state (e.g. left behind by an interrupted fragment sequence), the frames of a
   message - however it was split - deliver exactly that message, once, and leave nothing pending *)
Theorem reasm_message : forall h d ws pending, h <> 0 -> h < 2 ^ 32 -> frag_seq h d ws ->
  reasm_run pending ws = ([], [RMsg h d]).
Proof.
  intros h d ws pending Hn Hh (ps & Hc & Hne & H4 & Hl & Hs).
  destruct ps as [|p ps]; [congruence|]. destruct ws as [|w ws]; [discriminate|]. cbn [hd] in H4.
  destruct (Hs 0%nat ltac:(cbn; lia)) as (F & L & A & H0 & _). cbn [nth Nat.eqb] in F, L, H0. destruct (H0 eq_refl) as [Hw Hd].
  assert (Hp4 : firstn 4 p = le_enc 4 h).
  { cbn [concat] in Hc. apply (f_equal (firstn 4)) in Hc. rewrite firstn_app_le in Hc by exact H4. rewrite Hc. reflexivity. }
  assert (Hb : rx_body w = p) by (eapply rx_body_first; eauto).
  cbn [reasm_run]. unfold reasm_step. rewrite F.
  destruct ws as [|w2 ws2].
  - (* unfragmented *)
    destruct ps; [|discriminate]. cbn [length Nat.eqb] in L. rewrite L. cbn [negb reasm_run].
    rewrite Hw, Hd, Hp4, le_val_le_enc by exact Hh. cbn [concat] in Hc. rewrite app_nil_r in Hc.
    f_equal. f_equal. f_equal. rewrite Hc. reflexivity.
  - cbn [length Nat.eqb] in L. rewrite L. cbn [negb app]. rewrite Hb.
    cbn [length] in Hl. injection Hl as Hl.
    assert (Hnext : forall i, (i < length (w2 :: ws2))%nat -> let w' := nth i (w2 :: ws2) (cont_frame 0 []) in
       fl_first (w_flags w') = false /\ fl_last (w_flags w') = (S i =? length (w2 :: ws2))%nat /\ rx_body w' = nth i ps []).
    { intros i Hi. specialize (Hs (S i) ltac:(cbn [length] in *; lia)). cbn [nth length] in Hs |- *.
      destruct Hs as (A1 & B1 & _ & _ & C1). destruct (C1 ltac:(lia)) as [X Y].
      split; [exact A1|]. split; [exact B1|]. apply rx_body_cont; assumption. }
    rewrite (reasm_conts ps (w2 :: ws2) [p] Hl ltac:(discriminate) Hnext ltac:(discriminate)).
    cbn [app]. cbn [concat] in Hc. cbn [concat]. rewrite Hc. rewrite le_dec4_roundtrip by exact Hh. reflexivity.
Qed.

(* a sequence of messages, each split arbitrarily, after an arbitrary interrupted prefix *)
Lemma reasm_run_app : forall ws1 ws2 pending,
  reasm_run pending (ws1 ++ ws2) =
  let '(p1, o1) := reasm_run pending ws1 in let '(p2, o2) := reasm_run p1 ws2 in (p2, o1 ++ o2).
Proof.
  induction ws1 as [|w ws1 IH]; intros ws2 pending.
  - cbn [app reasm_run]. destruct (reasm_run pending ws2). reflexivity.
  - cbn [app reasm_run]. destruct (reasm_step pending w) as [p1 o]. rewrite IH.
    destruct (reasm_run p1 ws1) as [p2 os]. destruct (reasm_run p2 ws2) as [p3 os2]. destruct o; reflexivity.
Qed.

Theorem reasm_messages : forall msgs pending,
  Forall (fun m => let '(h, d, ws) := m in h <> 0 /\ h < 2 ^ 32 /\ frag_seq h d ws) msgs ->
  reasm_run pending (concat (map (fun m => snd m) msgs)) =
  ((match msgs with [] => pending | _ => [] end), map (fun m => RMsg (fst (fst m)) (snd (fst m))) msgs).
Proof.
  induction msgs as [|[[h d] ws] msgs IH]; intros pending H; [reflexivity|].
  inversion H as [|m ms Hm Hrest]; subst. cbn beta iota in Hm. destruct Hm as (Hn & Hh & Hf). cbn [map concat snd fst].
  rewrite reasm_run_app. rewrite (reasm_message h d ws pending Hn Hh Hf). rewrite (IH [] Hrest).
  destruct msgs; reflexivity.
Qed.

(* ---------------------------------------------------------------------- *)
(* clean streams: the concatenated encodings of well-formed frames parse to exactly those frames *)

Theorem spec_parse_clean_stream : forall ws, Forall wf ws -> spec_parse (concat (map spec_encode ws)) = ws.
Proof.
  intros ws H. rewrite spec_parse_sp.
  assert (G : forall off, map snd (sp off (concat (map spec_encode ws))) = ws).
  { induction H as [|w ws Hw Hws IH]; intros off.
    - cbn [map concat]. rewrite sp_short by (simpl; lia). reflexivity.
    - cbn [map concat]. rewrite sp_unfold.
      pose proof (spec_decode_encode w (concat (map spec_encode ws)) Hw) as D.
      replace (length (spec_encode w ++ concat (map spec_encode ws)) <? 7)%nat with false
        by (symmetry; apply Nat.ltb_ge; eapply spec_decode_len7; exact D).
      rewrite D. cbn [map snd]. f_equal. apply IH. }
  apply G.
Qed.
