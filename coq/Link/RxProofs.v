(* Proofs about the receive path: the extractor meets the format spec (LinkSpec) decision by
   decision; deliveries = greedy spec parse; chunk independence; totality; ACK discipline. *)
From Coq Require Import NArith List Bool Lia Arith.
From ZB Require Import Base.Bytes Crc.CrcSpec Crc.CrcModel Crc.CrcProofs Link.LinkSpec Link.LinkSpecProofs Link.Frame
  Link.Resync Link.Rx Link.RxSpec gen.GenConsts.
Import ListNotations.
Open Scope N_scope.

(* ---------------------------------------------------------------------- *)
(* flags: `flags & LLFlags.X` as the code writes it = bit test of the spec *)

Lemma land_pow2_testbit : forall fl k, (N.land fl (2 ^ k) =? 0) = negb (N.testbit fl k).
Proof.
  intros fl k. destruct (N.testbit fl k) eqn:B; cbn [negb].
  - apply N.eqb_neq. intros E.
    assert (T : N.testbit (N.land fl (2 ^ k)) k = true) by (rewrite N.land_spec, B, N.pow2_bits_true; reflexivity).
    rewrite E, N.bits_0 in T. discriminate.
  - apply N.eqb_eq. apply N.bits_inj. intros n. rewrite N.land_spec, N.bits_0, N.pow2_bits_eqb.
    destruct (N.eqb_spec k n) as [->|]; [rewrite B; reflexivity | apply andb_false_r].
Qed.

Lemma has_flag_ack : forall fl, has_flag fl llflag_isACK = fl_is_ack fl.
Proof. intros. unfold has_flag, fl_is_ack. change llflag_isACK with (2 ^ 0). rewrite land_pow2_testbit. apply negb_involutive. Qed.
Lemma has_flag_first : forall fl, has_flag fl llflag_FirstFrag = fl_first fl.
Proof. intros. unfold has_flag, fl_first. change llflag_FirstFrag with (2 ^ 6). rewrite land_pow2_testbit. apply negb_involutive. Qed.

(* ---------------------------------------------------------------------- *)
(* the extractor's decision, in the vocabulary of the spec *)

Definition classify (b : list N) : xout :=
  if (length b <? 7)%nat then XShort else
  match spec_decode b with
  | Some (w, rest) => XF w (length b - length rest)
  | None => if waits b then XShort else XInv
  end.

Lemma le_dec2_firstn : forall body, (2 <= length body)%nat ->
  le_dec 2 body = Some (le_val (firstn 2 body), skipn 2 body).
Proof. intros [|a [|b t]] H; simpl in H; try lia. reflexivity. Qed.
Lemma le_dec4_firstn : forall d, (4 <= length d)%nat ->
  le_dec 4 d = Some (le_val (firstn 4 d), skipn 4 d).
Proof. intros [|a [|b [|c [|e t]]]] H; simpl in H; try lia. reflexivity. Qed.


Lemma len7 : forall (A : Type) (a b c d e f g : A) r, (length (a :: b :: c :: d :: e :: f :: g :: r) <? 7)%nat = false.
Proof. intros. apply Nat.ltb_ge. simpl. lia. Qed.

Theorem extract_classify : forall b, bytes_ok b -> extract_frame_x b = classify b.
Proof.
  intros b Hok.
  destruct b as [|m0 [|m1 [|s0 [|s1 [|ty [|fl [|c8 rest]]]]]]]; try reflexivity.
  unfold classify. rewrite len7.
  unfold bytes_ok in Hok. rewrite !Forall_cons_iff in Hok.
  destruct Hok as (_ & _ & B0 & B1 & B2 & B3 & _ & Hrest). fold (bytes_ok rest) in Hrest.
  assert (Hh : bytes_ok [s0; s1; ty; fl]) by (repeat constructor; assumption).
  unfold extract_frame_x, spec_decode, waits.
  rewrite (crc8_code_eq_spec _ Hh). rewrite has_flag_ack, has_flag_first.
  change sig0 with 0xDE. change sig1 with 0xAD. change type_ncp_api_hl with 6.
  set (size := s0 + 256 * s1).
  destruct ((m0 =? 0xDE) && (m1 =? 0xAD)) eqn:Em; cbn [negb andb]; [|reflexivity].
  destruct (crc8_spec [s0; s1; ty; fl] =? c8) eqn:Ec; cbn [negb andb]; [|reflexivity].
  destruct (ty =? 6) eqn:Et; cbn [negb andb]; [|reflexivity].
  destruct (fl_is_ack fl) eqn:Ea; cbn [negb andb].
  { destruct (size =? 5); [|reflexivity]. f_equal. cbn [length]. lia. }
  destruct (size <? (if fl_first fl then 11 else 7)) eqn:Es; cbn [negb andb orb]; [reflexivity|].
  assert (Hs7 : 7 <= size) by (apply N.ltb_ge in Es; destruct (fl_first fl); lia).
  assert (Hs11 : fl_first fl = true -> 11 <= size) by (intros E1; rewrite E1 in Es; apply N.ltb_ge in Es; exact Es).
  cbn [length].
  replace (N.of_nat (S (S (S (S (S (S (S (length rest)))))))) <? size + 2) with (N.of_nat (length rest) <? size - 5)
    by (destruct (N.ltb_spec (N.of_nat (length rest)) (size - 5)); symmetry; [apply N.ltb_lt | apply N.ltb_ge]; lia).
  destruct (N.of_nat (length rest) <? size - 5) eqn:El; [reflexivity|].
  apply N.ltb_ge in El.
  set (body := firstn (N.to_nat (size - 5)) rest).
  assert (Hbl : length body = N.to_nat (size - 5)) by (unfold body; apply firstn_length_le; lia).
  assert (Hbok : bytes_ok body) by (apply bytes_ok_firstn; exact Hrest).
  assert (Hpok : bytes_ok (skipn 2 body)) by (apply bytes_ok_skipn; exact Hbok).
  assert (Hn : (S (S (S (S (S (S (S (length rest))))))) - length (skipn (N.to_nat (size - 5)) rest))%nat = N.to_nat (size + 2)).
  { rewrite skipn_length. lia. }
  destruct (fl_first fl) eqn:Ef.
  - specialize (Hs11 eq_refl). unfold hl_deserialize. rewrite le_dec2_firstn by lia. rewrite (crc16_code_eq_spec _ Hpok).
    destruct (le_val (firstn 2 body) =? crc16_spec (skipn 2 body)) eqn:Ek; cbn [negb]; [|reflexivity].
    rewrite le_dec4_firstn by (rewrite skipn_length; lia). f_equal. symmetry. exact Hn.
  - rewrite le_dec2_firstn by lia. rewrite (crc16_code_eq_spec _ Hpok).
    destruct (le_val (firstn 2 body) =? crc16_spec (skipn 2 body)) eqn:Ek; cbn [negb]; [|reflexivity].
    f_equal. symmetry. exact Hn.
Qed.

Corollary extract_never_raises : forall b, bytes_ok b -> extract_frame_x b <> XRaise.
Proof.
  intros b H. rewrite (extract_classify b H). unfold classify.
  destruct (length b <? 7)%nat; [discriminate|]. destruct (spec_decode b) as [[w r]|]; [discriminate|].
  destruct (waits b); discriminate.
Qed.

(* ---------------------------------------------------------------------- *)
(* decisions other than "too short" only depend on the bytes they looked at *)

Lemma extract_stable : forall b c, extract_frame_x b <> XShort -> extract_frame_x (b ++ c) = extract_frame_x b.
Proof.
  intros b c H.
  destruct b as [|m0 [|m1 [|s0 [|s1 [|ty [|fl [|c8 rest]]]]]]]; try (exfalso; apply H; reflexivity).
  cbn [app]. revert H. unfold extract_frame_x.
  set (size := s0 + 256 * s1).
  destruct (negb ((m0 =? sig0) && (m1 =? sig1))); [reflexivity|].
  destruct (negb (crc8 [s0; s1; ty; fl] =? c8)); [reflexivity|].
  destruct (negb (ty =? type_ncp_api_hl)); [reflexivity|].
  destruct (has_flag fl llflag_isACK); [reflexivity|].
  destruct (size <? (if has_flag fl llflag_FirstFrag then 11 else 7)) eqn:Es; [reflexivity|].
  cbn [length]. rewrite app_length.
  destruct (N.of_nat (S (S (S (S (S (S (S (length rest))))))) ) <? size + 2) eqn:El; [intros H; exfalso; apply H; reflexivity|].
  apply N.ltb_ge in El.
  replace (N.of_nat (S (S (S (S (S (S (S (length rest + length c)))))))) <? size + 2) with false
    by (symmetry; apply N.ltb_ge; lia).
  intros _. rewrite firstn_app_le by lia. reflexivity.
Qed.

Lemma extract_short_lt7 : forall b, (length b < 7)%nat -> extract_frame_x b = XShort.
Proof. intros b H. destruct b as [|m0 [|m1 [|s0 [|s1 [|ty [|fl [|c8 rest]]]]]]]; try reflexivity. simpl in H. lia. Qed.

Lemma sm_eq : forall m0 m1 t, starts_marker (m0 :: m1 :: t) = (m0 =? sig0) && (m1 =? sig1).
Proof. reflexivity. Qed.

Lemma extract_frame_shape : forall b w n, extract_frame_x b = XF w n ->
  (7 <= n <= length b)%nat /\ starts_marker b = true.
Proof.
  intros b w n.
  destruct b as [|m0 [|m1 [|s0 [|s1 [|ty [|fl [|c8 rest]]]]]]]; try discriminate.
  rewrite sm_eq. unfold extract_frame_x. set (size := s0 + 256 * s1).
  destruct ((m0 =? sig0) && (m1 =? sig1)); cbn [negb]; [|discriminate].
  destruct (negb (crc8 [s0; s1; ty; fl] =? c8)); [discriminate|].
  destruct (negb (ty =? type_ncp_api_hl)); [discriminate|].
  destruct (has_flag fl llflag_isACK).
  { destruct (size =? 5); [|discriminate]. intros E. inversion E; subst. cbn [length]. split; [lia|reflexivity]. }
  destruct (size <? (if has_flag fl llflag_FirstFrag then 11 else 7)) eqn:Es; [discriminate|].
  cbn [length].
  destruct (N.of_nat (S (S (S (S (S (S (S (length rest))))))) ) <? size + 2) eqn:El; [discriminate|].
  apply N.ltb_ge in El. apply N.ltb_ge in Es.
  assert (Hn : (7 <= N.to_nat (size + 2) <= S (S (S (S (S (S (S (length rest))))))))%nat)
    by (destruct (has_flag fl llflag_FirstFrag); lia).
  destruct (has_flag fl llflag_FirstFrag).
  - destruct (hl_deserialize _) as [[[h p]|]|]; try discriminate. intros E; inversion E; subst. split; [exact Hn|reflexivity].
  - destruct (le_dec 2 _) as [[ck d]|]; try discriminate. destruct (negb (ck =? crc16 d)); [discriminate|].
    intros E; inversion E; subst. split; [exact Hn|reflexivity].
Qed.

Lemma extract_nomarker : forall b, (7 <= length b)%nat -> starts_marker b = false -> extract_frame_x b = XInv.
Proof.
  intros b H7 Hs. destruct b as [|m0 [|m1 [|s0 [|s1 [|ty [|fl [|c8 rest]]]]]]]; simpl in H7; try lia.
  rewrite sm_eq in Hs. unfold extract_frame_x. rewrite Hs. reflexivity.
Qed.

Lemma extract_inv_len : forall b, extract_frame_x b = XInv -> (7 <= length b)%nat.
Proof.
  intros b H. destruct (le_lt_dec 7 (length b)) as [|L]; [assumption|].
  rewrite (extract_short_lt7 b L) in H. discriminate.
Qed.
Lemma extract_raise_len : forall b, extract_frame_x b = XRaise -> (7 <= length b)%nat.
Proof.
  intros b H. destruct (le_lt_dec 7 (length b)) as [|L]; [assumption|].
  rewrite (extract_short_lt7 b L) in H. discriminate.
Qed.

(* the four hypotheses of the generic resynchronisation theory *)
Lemma H1 : forall b f n, extract_frame b = XFrame wframe f n ->
   (7 <= n <= length b)%nat /\ starts_marker b = true /\ forall c, extract_frame (b ++ c) = XFrame wframe f n.
Proof.
  intros b f n H. unfold extract_frame in *. destruct (extract_frame_x b) as [w k| | |] eqn:E; try discriminate.
  inversion H; subst. destruct (extract_frame_shape _ _ _ E) as [A B]. split; [exact A|]. split; [exact B|].
  intros c. rewrite extract_stable by (rewrite E; discriminate). rewrite E. reflexivity.
Qed.
Lemma H2 : forall b, extract_frame b = XInvalid wframe ->
   (7 <= length b)%nat /\ forall c, extract_frame (b ++ c) = XInvalid wframe.
Proof.
  intros b H. unfold extract_frame in *. destruct (extract_frame_x b) as [w k| | |] eqn:E; try discriminate.
  - split; [apply extract_inv_len; exact E|]. intros c. rewrite extract_stable by (rewrite E; discriminate). rewrite E. reflexivity.
  - split; [apply extract_raise_len; exact E|]. intros c. rewrite extract_stable by (rewrite E; discriminate). rewrite E. reflexivity.
Qed.
Lemma H3 : forall b, (length b < 7)%nat -> extract_frame b = XTooShort wframe.
Proof. intros b H. unfold extract_frame. rewrite extract_short_lt7 by exact H. reflexivity. Qed.
Lemma H4 : forall b, (7 <= length b)%nat -> starts_marker b = false -> extract_frame b = XInvalid wframe.
Proof. intros b A B. unfold extract_frame. rewrite extract_nomarker by assumption. reflexivity. Qed.

(* ---------------------------------------------------------------------- *)
(* instantiate the generic theory *)

Definition dels := Resync.dels wframe extract_frame.
Definition resid := Resync.resid wframe extract_frame.
Definition run := Resync.run wframe extract_frame.

Lemma run_unfold : forall b, run b =
  match extract_frame b with
  | XTooShort _ => ([], b)
  | XInvalid _ => run (resync b)
  | XFrame _ f n => let '(fs, r) := run (skipn n b) in (f :: fs, r)
  end.
Proof. exact (Resync.run_unfold wframe extract_frame H1 H2). Qed.

Theorem dels_app : forall x c, dels (x ++ c) = dels x ++ dels (resid x ++ c).
Proof. exact (Resync.dels_app wframe extract_frame H1 H2 H3 H4). Qed.

Lemma bytes_ok_resync : forall b, bytes_ok b -> bytes_ok (resync b).
Proof.
  intros b H. unfold resync. destruct (find1 b); [apply bytes_ok_skipn; exact H|].
  destruct (last b 0 =? 0xDE); repeat constructor.
Qed.

(* the model's own loop (with the raise flag) is the generic run, and never raises *)
Lemma extract_frames_x_run : forall fuel b, bytes_ok b ->
  extract_frames_x fuel b = (fst (run_fuel wframe extract_frame fuel b), snd (run_fuel wframe extract_frame fuel b), false).
Proof.
  induction fuel as [|fuel IH]; intros b Hok; [reflexivity|].
  cbn [extract_frames_x run_fuel].
  pose proof (extract_never_raises b Hok) as NR.
  destruct (extract_frame_x b) as [w n| | |] eqn:E.
  - replace (extract_frame b) with (XFrame wframe w n) by (unfold extract_frame; rewrite E; reflexivity).
    rewrite (IH (skipn n b)) by (apply bytes_ok_skipn; exact Hok).
    destruct (run_fuel wframe extract_frame fuel (skipn n b)) as [fs r]. reflexivity.
  - replace (extract_frame b) with (XTooShort wframe) by (unfold extract_frame; rewrite E; reflexivity). reflexivity.
  - replace (extract_frame b) with (XInvalid wframe) by (unfold extract_frame; rewrite E; reflexivity).
    apply IH. apply bytes_ok_resync. exact Hok.
  - exfalso. apply NR. reflexivity.
Qed.

Corollary extract_frames_x_spec : forall b, bytes_ok b ->
  extract_frames_x (S (length b)) b = (dels b, resid b, false).
Proof. intros b H. rewrite extract_frames_x_run by exact H. reflexivity. Qed.

(* ---------------------------------------------------------------------- *)
(* facts about the spec decoder *)

Lemma spec_decode_shape : forall s w rest, spec_decode s = Some (w, rest) ->
  starts_marker s = true /\ claims s = Some (w_size w, w_flags w) /\
  exists n, (7 <= n <= length s)%nat /\ rest = skipn n s /\ N.of_nat n = w_size w + 2.
Proof.
  intros s w rest.
  destruct s as [|m0 [|m1 [|s0 [|s1 [|ty [|fl [|c8 r7]]]]]]]; try discriminate.
  unfold spec_decode, claims. rewrite sm_eq. change sig0 with 0xDE. change sig1 with 0xAD.
  set (size := s0 + 256 * s1).
  destruct ((m0 =? 0xDE) && (m1 =? 0xAD)); cbn [andb]; [|discriminate].
  destruct (crc8_spec [s0; s1; ty; fl] =? c8); cbn [andb]; [|discriminate].
  destruct (ty =? 6); [|discriminate].
  destruct (fl_is_ack fl).
  { destruct (size =? 5) eqn:E5; [|discriminate]. apply N.eqb_eq in E5. intros E; inversion E; subst; clear E.
    cbn [w_size w_flags]. split; [reflexivity|]. split; [reflexivity|]. exists 7%nat. cbn [length skipn].
    split; [lia|]. split; [reflexivity|]. rewrite E5. reflexivity. }
  destruct ((size <? (if fl_first fl then 11 else 7)) || (N.of_nat (length r7) <? size - 5)) eqn:Eo; [discriminate|].
  apply orb_false_iff in Eo. destruct Eo as [Es El]. apply N.ltb_ge in Es. apply N.ltb_ge in El.
  assert (Hs7 : 7 <= size) by (destruct (fl_first fl); lia).
  destruct (le_val _ =? crc16_spec _); [|discriminate].
  assert (G : forall w', w_size w' = size -> w_flags w' = fl ->
     Some (w', skipn (N.to_nat (size - 5)) r7) = Some (w, rest) ->
     true = true /\ Some (size, fl) = Some (w_size w, w_flags w) /\
     exists n, (7 <= n <= length (m0 :: m1 :: s0 :: s1 :: ty :: fl :: c8 :: r7))%nat /\
       rest = skipn n (m0 :: m1 :: s0 :: s1 :: ty :: fl :: c8 :: r7) /\ N.of_nat n = w_size w + 2).
  { intros w' A B E. injection E as E1 E2. rewrite <- E1, <- E2. split; [reflexivity|]. rewrite A, B. split; [reflexivity|].
    exists (N.to_nat (size + 2)). cbn [length]. split; [lia|]. split; [|lia].
    replace (N.to_nat (size + 2)) with (7 + N.to_nat (size - 5))%nat by lia. reflexivity. }
  destruct (fl_first fl); intros E; eapply G; try exact E; reflexivity.
Qed.

Lemma waits_shape : forall s, waits s = true ->
  starts_marker s = true /\ exists sz fl, claims s = Some (sz, fl) /\ N.of_nat (length s) < sz + 2.
Proof.
  intros s.
  destruct s as [|m0 [|m1 [|s0 [|s1 [|ty [|fl [|c8 r7]]]]]]]; try discriminate.
  unfold waits, claims. rewrite sm_eq. change sig0 with 0xDE. change sig1 with 0xAD.
  destruct ((m0 =? 0xDE) && (m1 =? 0xAD)); cbn [andb]; [|discriminate].
  destruct (crc8_spec [s0; s1; ty; fl] =? c8); cbn [andb]; [|discriminate].
  destruct (ty =? 6); cbn [andb]; [|discriminate].
  destruct (negb (fl_is_ack fl)); cbn [andb]; [|discriminate].
  intros E. apply andb_prop in E. destruct E as [_ E]. apply N.ltb_lt in E.
  split; [reflexivity|]. eexists; eexists; split; [reflexivity|]. exact E.
Qed.

(* ---------------------------------------------------------------------- *)
(* the spec parse: fuel irrelevance and unfolding *)

Definition sp (off : nat) (s : list N) := spec_parse_at (S (length s)) off s.

Lemma spec_parse_at_fuel : forall fuel s off, (length s < fuel)%nat -> forall fuel', (length s < fuel')%nat ->
  spec_parse_at fuel off s = spec_parse_at fuel' off s.
Proof.
  induction fuel as [|fuel IH]; intros s off Hl fuel' Hl'; [lia|]. destruct fuel' as [|fuel']; [lia|].
  cbn [spec_parse_at]. destruct (length s <? 7)%nat eqn:L7; [reflexivity|]. apply Nat.ltb_ge in L7.
  destruct (spec_decode s) as [[w rest]|] eqn:E.
  - destruct (spec_decode_shape _ _ _ E) as (_ & _ & n & Hn & Hr & _). f_equal.
    apply IH; subst rest; rewrite skipn_length; lia.
  - destruct (waits s); [reflexivity|]. apply IH; destruct s; cbn [length tl] in *; lia.
Qed.

Lemma sp_unfold : forall off s, sp off s =
  if (length s <? 7)%nat then [] else
  match spec_decode s with
  | Some (w, rest) => (off, w) :: sp (off + (length s - length rest)) rest
  | None => if waits s then [] else sp (S off) (tl s)
  end.
Proof.
  intros off s. unfold sp at 1. cbn [spec_parse_at]. destruct (length s <? 7)%nat eqn:L7; [reflexivity|].
  apply Nat.ltb_ge in L7.
  destruct (spec_decode s) as [[w rest]|] eqn:E.
  - destruct (spec_decode_shape _ _ _ E) as (_ & _ & n & Hn & Hr & _). f_equal. unfold sp.
    apply spec_parse_at_fuel; subst rest; rewrite skipn_length; lia.
  - destruct (waits s); [reflexivity|]. unfold sp. apply spec_parse_at_fuel; destruct s; cbn [length tl] in *; lia.
Qed.

Lemma sp_frames_off : forall n s off off', (length s <= n)%nat -> map snd (sp off s) = map snd (sp off' s).
Proof.
  induction n as [|n IH]; intros s off off' Hl.
  - rewrite (sp_unfold off), (sp_unfold off'). replace (length s <? 7)%nat with true by (symmetry; apply Nat.ltb_lt; lia). reflexivity.
  - rewrite (sp_unfold off), (sp_unfold off'). destruct (length s <? 7)%nat eqn:L7; [reflexivity|]. apply Nat.ltb_ge in L7.
    destruct (spec_decode s) as [[w rest]|] eqn:E.
    + destruct (spec_decode_shape _ _ _ E) as (_ & _ & k & Hk & Hr & _). cbn [map snd]. f_equal.
      apply IH. subst rest. rewrite skipn_length. lia.
    + destruct (waits s); [reflexivity|]. apply IH. destruct s; cbn [length tl] in *; lia.
Qed.

Lemma spec_parse_sp : forall s, spec_parse s = map snd (sp 0 s).
Proof. reflexivity. Qed.

(* ---------------------------------------------------------------------- *)
(* deliveries of the model = the greedy spec parse *)

Lemma sp_nomarker_step : forall off s, (7 <= length s)%nat -> starts_marker s = false -> sp off s = sp (S off) (tl s).
Proof.
  intros off s H7 Hm. rewrite sp_unfold. replace (length s <? 7)%nat with false by (symmetry; apply Nat.ltb_ge; exact H7).
  destruct (spec_decode s) as [[w rest]|] eqn:E.
  - destruct (spec_decode_shape _ _ _ E) as (M & _). congruence.
  - destruct (waits s) eqn:W; [|reflexivity]. destruct (waits_shape _ W) as (M & _). congruence.
Qed.

Lemma sp_short : forall off s, (length s < 7)%nat -> sp off s = [].
Proof. intros off s H. rewrite sp_unfold. replace (length s <? 7)%nat with true by (symmetry; apply Nat.ltb_lt; exact H). reflexivity. Qed.

Lemma mk_tl : forall i y, mk i (tl y) = mk (S i) y.
Proof. intros i y. unfold mk. destruct y; [destruct i; reflexivity|reflexivity]. Qed.

Lemma sp_skip_junk : forall k y off, (forall i, (i < k)%nat -> mk i y = false) ->
  map snd (sp off y) = map snd (sp 0 (skipn k y)).
Proof.
  induction k as [|k IH]; intros y off Hn.
  - cbn [skipn]. apply (sp_frames_off (length y)). lia.
  - destruct (le_lt_dec 7 (length y)) as [H7|H7].
    + rewrite sp_nomarker_step; [|exact H7|exact (Hn O ltac:(lia))].
      rewrite (IH (tl y) (S off)).
      * destruct y; [destruct k; reflexivity|reflexivity].
      * intros i Hi. rewrite mk_tl. apply Hn. lia.
    + rewrite !sp_short; [reflexivity| rewrite skipn_length; lia | exact H7].
Qed.

Lemma sp_nomarker_all : forall n y off, (length y <= n)%nat -> (forall k, mk k y = false) -> sp off y = [].
Proof.
  induction n as [|n IH]; intros y off Hl Hn.
  - apply sp_short. lia.
  - destruct (le_lt_dec 7 (length y)) as [H7|H7]; [|apply sp_short; exact H7].
    rewrite sp_nomarker_step; [|exact H7|exact (Hn O)].
    apply IH; [destruct y; cbn [length tl] in *; lia|]. intros k. rewrite mk_tl. apply Hn.
Qed.

Lemma dels_short' : forall y, (length y < 7)%nat -> dels y = [].
Proof. intros y H. unfold dels, Resync.dels. rewrite (Resync.dels_short wframe extract_frame H1 H2 H3 y H). reflexivity. Qed.

Theorem dels_spec : forall b, bytes_ok b -> dels b = spec_parse b.
Proof.
  intros b. rewrite spec_parse_sp. remember (length b) as len eqn:Hlen. revert b Hlen.
  induction len as [len IH] using lt_wf_ind. intros b Hlen Hok. subst len.
  unfold dels, Resync.dels. fold run. rewrite run_unfold. unfold extract_frame.
  rewrite (extract_classify b Hok). unfold classify. rewrite (sp_unfold 0 b).
  destruct (length b <? 7)%nat eqn:L7; [reflexivity|]. apply Nat.ltb_ge in L7.
  destruct (spec_decode b) as [[w rest]|] eqn:E.
  - destruct (spec_decode_shape _ _ _ E) as (_ & _ & k & Hk & Hr & _). subst rest.
    replace (length b - length (skipn k b))%nat with k by (rewrite skipn_length; lia).
    assert (Hl : (length (skipn k b) < length b)%nat) by (rewrite skipn_length; lia).
    pose proof (IH _ Hl (skipn k b) eq_refl (bytes_ok_skipn k b Hok)) as IHk.
    unfold dels, Resync.dels in IHk. fold run in IHk.
    destruct (run (skipn k b)) as [fs r]. cbn [fst map snd] in *. f_equal. rewrite IHk.
    apply (sp_frames_off (length (skipn k b))). lia.
  - destruct (waits b); [reflexivity|].
    change (fst (run (resync b))) with (dels (resync b)).
    unfold resync. destruct (find1 b) as [j|] eqn:Hf.
    + destruct (find1_some _ _ Hf) as (Hj1 & Hj2 & Hjm & Hjn).
      assert (Hl : (length (skipn j b) < length b)%nat) by (rewrite skipn_length; lia).
      rewrite (IH _ Hl (skipn j b) eq_refl (bytes_ok_skipn j b Hok)).
      rewrite (sp_skip_junk (j - 1) (tl b) 1).
      * replace (skipn (j - 1) (tl b)) with (skipn j b); [reflexivity|].
        destruct j; [lia|]. destruct b; [simpl in L7; lia|]. cbn [tl skipn]. f_equal. lia.
      * intros i Hi. rewrite mk_tl. apply Hjn. lia.
    + rewrite (sp_nomarker_all (length (tl b)) (tl b) 1 (le_n _)).
      * destruct (last b 0 =? 0xDE); apply dels_short'; simpl; lia.
      * intros k. rewrite mk_tl. apply (find1_none _ Hf). lia.
Qed.

(* ---------------------------------------------------------------------- *)
(* the greedy spec parse is sound and complete w.r.t. well-formed frame occurrences *)

Lemma skipn_skipn_add : forall (A : Type) a b (l : list A), skipn a (skipn b l) = skipn (b + a) l.
Proof. intros A a b. revert a. induction b as [|b IH]; intros a l; [reflexivity|]. destruct l; [destruct a; reflexivity|]. simpl. apply IH. Qed.

(* soundness: every parsed (offset, frame) is a well-formed frame occurrence at that offset *)
Theorem spec_sound : forall n s off t, (length t <= n)%nat -> t = skipn off s ->
  forall o w, In (o, w) (sp off t) -> exists rest, spec_decode (skipn o s) = Some (w, rest) /\ (off <= o)%nat.
Proof.
  induction n as [|n IH]; intros s off t Hl Ht o w Hin.
  - rewrite sp_short in Hin by lia. destruct Hin.
  - rewrite sp_unfold in Hin. destruct (length t <? 7)%nat eqn:L7; [destruct Hin|]. apply Nat.ltb_ge in L7.
    destruct (spec_decode t) as [[w' rest]|] eqn:E.
    + destruct Hin as [Hin|Hin].
      * inversion Hin; subst. exists rest. split; [exact E|lia].
      * destruct (spec_decode_shape _ _ _ E) as (_ & _ & k & Hk & Hr & _).
        assert (Hrl : (length rest <= n)%nat) by (subst rest; rewrite skipn_length; lia).
        assert (Hrs : rest = skipn (off + (length t - length rest)) s).
        { subst rest t. rewrite skipn_skipn_add. f_equal. rewrite !skipn_length. rewrite skipn_length in Hk. lia. }
        destruct (IH s _ rest Hrl Hrs o w Hin) as (r' & A & B). exists r'. split; [exact A|lia].
    + destruct (waits t); [destruct Hin|].
      assert (Htl : tl t = skipn (S off) s).
      { subst t. replace (S off) with (off + 1)%nat by lia. rewrite <- skipn_skipn_add. destruct (skipn off s); reflexivity. }
      destruct (IH s _ (tl t) ltac:(destruct t; cbn [length tl] in *; lia) Htl o w Hin) as (r' & A & B). exists r'. split; [exact A|lia].
Qed.

Lemma spec_decode_len7 : forall s w rest, spec_decode s = Some (w, rest) -> (7 <= length s)%nat.
Proof. intros s w rest E. destruct (spec_decode_shape _ _ _ E) as (_ & _ & k & Hk & _). lia. Qed.

(* completeness: a well-formed frame occurrence at offset i is parsed unless it starts inside
   the declared extent of an earlier header that passed the header checksum *)
Theorem spec_complete_gen : forall d s i w rest, spec_decode (skipn i s) = Some (w, rest) -> (i <= length s)%nat ->
  (forall p sz fl, (p < i)%nat -> claims (skipn p s) = Some (sz, fl) -> N.of_nat p + 2 + sz <= N.of_nat i) ->
  forall off, (off <= i)%nat -> (i - off <= d)%nat -> In (i, w) (sp off (skipn off s)).
Proof.
  induction d as [|d IH]; intros s i w rest E Hi Hc off Ho Hd.
  - assert (off = i) by lia. subst off. rewrite sp_unfold.
    replace (length (skipn i s) <? 7)%nat with false by (symmetry; apply Nat.ltb_ge; eapply spec_decode_len7; exact E).
    rewrite E. left. reflexivity.
  - destruct (Nat.eq_dec off i) as [->|Hne]; [apply (IH s i w rest E Hi Hc i); lia|].
    assert (Hlt : (off < i)%nat) by lia.
    pose proof (spec_decode_len7 _ _ _ E) as L7i. rewrite skipn_length in L7i.
    rewrite sp_unfold.
    replace (length (skipn off s) <? 7)%nat with false by (symmetry; apply Nat.ltb_ge; rewrite skipn_length; lia).
    destruct (spec_decode (skipn off s)) as [[w' rest']|] eqn:E'.
    + destruct (spec_decode_shape _ _ _ E') as (_ & Cl & k & Hk & Hr & Hn).
      pose proof (Hc off _ _ Hlt Cl) as Hext. right.
      assert (Hoff' : (off + (length (skipn off s) - length rest') = off + k)%nat).
      { subst rest'. rewrite !skipn_length. rewrite skipn_length in Hk. lia. }
      rewrite Hoff'. replace rest' with (skipn (off + k) s) by (subst rest'; rewrite skipn_skipn_add; reflexivity).
      apply (IH s i w rest E Hi Hc); lia.
    + destruct (waits (skipn off s)) eqn:W.
      * exfalso. destruct (waits_shape _ W) as (_ & sz & fl & Cl & Hw). pose proof (Hc off _ _ Hlt Cl) as Hext.
        rewrite skipn_length in Hw. lia.
      * replace (tl (skipn off s)) with (skipn (S off) s).
        -- apply (IH s i w rest E Hi Hc); lia.
        -- replace (S off) with (off + 1)%nat by lia. rewrite <- skipn_skipn_add. destruct (skipn off s); reflexivity.
Qed.

Theorem spec_complete : forall s i w rest, spec_decode (skipn i s) = Some (w, rest) ->
  (forall p sz fl, (p < i)%nat -> claims (skipn p s) = Some (sz, fl) -> N.of_nat p + 2 + sz <= N.of_nat i) ->
  In (i, w) (spec_parse_pos s).
Proof.
  intros s i w rest E Hc.
  assert (Hi : (i <= length s)%nat).
  { pose proof (spec_decode_len7 _ _ _ E) as L. rewrite skipn_length in L. lia. }
  exact (spec_complete_gen i s i w rest E Hi Hc 0%nat ltac:(lia) ltac:(lia)).
Qed.

(* ---------------------------------------------------------------------- *)
(* data_received over a sequence of read chunks *)

Fixpoint rx_run (h : wframe -> bool) (st : rxstate) (chunks : list (list N)) : rxstate * list rxout * bool :=
  match chunks with
  | [] => (st, [], false)
  | c :: cs => let '(st1, o1, r1) := data_received h st c in
               let '(st2, o2, r2) := rx_run h st1 cs in (st2, o1 ++ o2, r1 || r2)
  end.

(* what the receiver does for a list of frames, as a function of the link-control state only *)
Definition ack_of (f : wframe) : N := N.shiftr (N.land (w_flags f) llflag_ACKSeq) 4.
Definition pseq_of (f : wframe) : N := N.shiftr (N.land (w_flags f) llflag_PacketSeq) 2.
Definition ev_set (ev : option bool) : option bool := match ev with Some _ => Some true | None => None end.

Fixpoint outs_of (ps : N) (ev : option bool) (opn : bool) (fs : list wframe) : N * option bool * list rxout :=
  match fs with
  | [] => (ps, ev, [])
  | f :: fs' =>
      if w_ack f then
        if ack_of f =? ps
        then let '(p, e, o) := outs_of (next_seq ps) (ev_set ev) opn fs' in
             (p, e, (match ev with Some _ => [OAckSet] | None => [] end) ++ o)
        else outs_of ps ev opn fs'
      else let '(p, e, o) := outs_of ps ev opn fs' in
           (p, e, (if opn then [OWrite (ack_bytes (pseq_of f))] else []) ++ [ODeliver f] ++ o)
  end.

Lemma handle_frames_outs_of : forall h fs st,
  let '(p, e, o) := outs_of (rx_pack_seq st) (rx_ack_event st) (rx_open st) fs in
  handle_frames h st fs = ({| rx_buf := rx_buf st; rx_pack_seq := p; rx_ack_event := e; rx_open := rx_open st |}, o).
Proof.
  intros h fs. induction fs as [|f fs IH]; intros st.
  - cbn [outs_of handle_frames]. destruct st; reflexivity.
  - cbn [outs_of handle_frames]. unfold handle_frame. fold (ack_of f). fold (pseq_of f).
    destruct (w_ack f).
    + destruct (ack_of f =? rx_pack_seq st).
      * specialize (IH {| rx_buf := rx_buf st; rx_pack_seq := next_seq (rx_pack_seq st);
                          rx_ack_event := ev_set (rx_ack_event st); rx_open := rx_open st |}).
        cbn [rx_buf rx_pack_seq rx_ack_event rx_open] in IH. unfold ev_set in *.
        destruct (outs_of (next_seq (rx_pack_seq st)) _ (rx_open st) fs) as [[p e] o]. rewrite IH. reflexivity.
      * specialize (IH st). destruct (outs_of (rx_pack_seq st) (rx_ack_event st) (rx_open st) fs) as [[p e] o].
        rewrite IH. reflexivity.
    + specialize (IH st). destruct (outs_of (rx_pack_seq st) (rx_ack_event st) (rx_open st) fs) as [[p e] o].
      rewrite IH. rewrite <- app_assoc. reflexivity.
Qed.

Lemma outs_of_app : forall fs1 fs2 ps ev opn,
  outs_of ps ev opn (fs1 ++ fs2) =
  let '(p1, e1, o1) := outs_of ps ev opn fs1 in let '(p2, e2, o2) := outs_of p1 e1 opn fs2 in (p2, e2, o1 ++ o2).
Proof.
  induction fs1 as [|f fs1 IH]; intros fs2 ps ev opn.
  - cbn [app outs_of]. destruct (outs_of ps ev opn fs2) as [[p e] o]. reflexivity.
  - cbn [app outs_of]. destruct (w_ack f).
    + destruct (ack_of f =? ps).
      * rewrite IH. destruct (outs_of (next_seq ps) (ev_set ev) opn fs1) as [[p1 e1] o1].
        destruct (outs_of p1 e1 opn fs2) as [[p2 e2] o2]. rewrite app_assoc. reflexivity.
      * apply IH.
    + rewrite IH. destruct (outs_of ps ev opn fs1) as [[p1 e1] o1].
      destruct (outs_of p1 e1 opn fs2) as [[p2 e2] o2]. rewrite <- !app_assoc. reflexivity.
Qed.

Lemma bytes_ok_resid : forall b, bytes_ok b -> bytes_ok (resid b).
Proof.
  intros b. remember (length b) as len eqn:Hlen. revert b Hlen.
  induction len as [len IH] using lt_wf_ind. intros b Hlen Hok. subst len.
  unfold resid, Resync.resid. fold run. rewrite run_unfold.
  destruct (extract_frame b) as [f n| |] eqn:E.
  - destruct (H1 _ _ _ E) as ((A & B) & _).
    assert (Hl : (length (skipn n b) < length b)%nat) by (rewrite skipn_length; lia).
    pose proof (IH _ Hl (skipn n b) eq_refl (bytes_ok_skipn n b Hok)) as R. unfold resid, Resync.resid in R. fold run in R.
    destruct (run (skipn n b)) as [fs r]. exact R.
  - exact Hok.
  - destruct (H2 _ E) as (A & _).
    pose proof (Resync.resync_shorter b A) as Hl.
    exact (IH _ Hl (resync b) eq_refl (bytes_ok_resync b Hok)).
Qed.

Definition feed := Resync.feed wframe extract_frame.

Lemma feed_acc : forall chunks ds r,
  fold_left feed chunks (ds, r) = (ds ++ fst (fold_left feed chunks ([], r)), snd (fold_left feed chunks ([], r))).
Proof.
  induction chunks as [|c cs IH]; intros ds r.
  - cbn [fold_left fst snd]. rewrite app_nil_r. reflexivity.
  - cbn [fold_left]. unfold feed at 2 4 6, Resync.feed. cbn [fst snd app].
    rewrite (IH (ds ++ _)). rewrite (IH (Resync.dels wframe extract_frame (r ++ c))). cbn [fst snd].
    rewrite app_assoc. reflexivity.
Qed.

Lemma data_received_spec : forall h st c, bytes_ok (rx_buf st ++ c) ->
  let '(p, e, o) := outs_of (rx_pack_seq st) (rx_ack_event st) (rx_open st) (dels (rx_buf st ++ c)) in
  data_received h st c =
  ({| rx_buf := resid (rx_buf st ++ c); rx_pack_seq := p; rx_ack_event := e; rx_open := rx_open st |}, o, false).
Proof.
  intros h st c Hok. unfold data_received. rewrite (extract_frames_x_spec _ Hok).
  pose proof (handle_frames_outs_of h (dels (rx_buf st ++ c))
     {| rx_buf := resid (rx_buf st ++ c); rx_pack_seq := rx_pack_seq st; rx_ack_event := rx_ack_event st; rx_open := rx_open st |}) as HF.
  cbn [rx_buf rx_pack_seq rx_ack_event rx_open] in HF.
  destruct (outs_of (rx_pack_seq st) (rx_ack_event st) (rx_open st) (dels (rx_buf st ++ c))) as [[p e] o].
  rewrite HF. reflexivity.
Qed.

Lemma rx_run_feed : forall h chunks st, bytes_ok (rx_buf st) -> Forall bytes_ok chunks ->
  let F := fold_left feed chunks ([], rx_buf st) in
  let '(p, e, o) := outs_of (rx_pack_seq st) (rx_ack_event st) (rx_open st) (fst F) in
  rx_run h st chunks = ({| rx_buf := snd F; rx_pack_seq := p; rx_ack_event := e; rx_open := rx_open st |}, o, false).
Proof.
  intros h chunks. induction chunks as [|c cs IH]; intros st Hb Hcs.
  - cbn [fold_left fst snd outs_of rx_run]. destruct st; reflexivity.
  - inversion Hcs as [|? ? Hc Hcs']; subst.
    assert (Hbc : bytes_ok (rx_buf st ++ c)) by (apply bytes_ok_app; assumption).
    cbn [fold_left rx_run].
    replace (feed ([], rx_buf st) c) with (dels (rx_buf st ++ c), resid (rx_buf st ++ c)) by reflexivity.
    rewrite feed_acc. cbn [fst snd].
    pose proof (data_received_spec h st c Hbc) as D. rewrite outs_of_app.
    destruct (outs_of (rx_pack_seq st) (rx_ack_event st) (rx_open st) (dels (rx_buf st ++ c))) as [[p1 e1] o1].
    rewrite D.
    specialize (IH {| rx_buf := resid (rx_buf st ++ c); rx_pack_seq := p1; rx_ack_event := e1; rx_open := rx_open st |}
                   (bytes_ok_resid _ Hbc) Hcs').
    cbn [rx_buf rx_pack_seq rx_ack_event rx_open] in IH. cbv zeta in IH.
    destruct (outs_of p1 e1 (rx_open st) (fst (fold_left feed cs ([], resid (rx_buf st ++ c))))) as [[p2 e2] o2].
    rewrite IH. reflexivity.
Qed.

Lemma bytes_ok_concat : forall chunks, Forall bytes_ok chunks -> bytes_ok (concat chunks).
Proof. induction chunks as [|c cs IH]; intros H; [constructor|]. inversion H; subst. cbn [concat]. apply bytes_ok_app; auto. Qed.

(* MAIN THEOREM (C01/C02/C06): for every link state (any buffer content), every handler and every
   way of splitting the incoming bytes into one or more read chunks, the receiver never raises and
   what it writes and hands up is what the spec receiver does for the well-formed frames of the
   whole byte sequence, read greedily - independent of the chunk boundaries. *)
Theorem rx_chunk_independent_exact : forall h st c cs,
  bytes_ok (rx_buf st) -> Forall bytes_ok (c :: cs) ->
  let '(p, e, o) := outs_of (rx_pack_seq st) (rx_ack_event st) (rx_open st)
                            (spec_parse (rx_buf st ++ concat (c :: cs))) in
  exists buf, rx_run h st (c :: cs) = ({| rx_buf := buf; rx_pack_seq := p; rx_ack_event := e; rx_open := rx_open st |}, o, false).
Proof.
  intros h st c cs Hb Hcs.
  pose proof (rx_run_feed h (c :: cs) st Hb Hcs) as R. cbv zeta in R.
  assert (EF : fst (fold_left feed (c :: cs) ([], rx_buf st)) = spec_parse (rx_buf st ++ concat (c :: cs))).
  { cbn [fold_left]. unfold feed at 2, Resync.feed. cbn [fst snd app].
    pose proof (Resync.chunk_independent wframe extract_frame H1 H2 H3 H4 ((rx_buf st ++ c) :: cs)) as CI.
    cbv zeta in CI. destruct CI as [CI _]. cbn [fold_left concat] in CI.
    unfold Resync.feed at 2 in CI. cbn [fst snd app] in CI. fold feed in CI. rewrite CI.
    fold dels. rewrite <- app_assoc. apply dels_spec.
    inversion Hcs; subst. apply bytes_ok_app; [exact Hb|]. apply bytes_ok_app; [assumption|]. apply bytes_ok_concat. assumption. }
  rewrite EF in R.
  destruct (outs_of (rx_pack_seq st) (rx_ack_event st) (rx_open st) (spec_parse (rx_buf st ++ concat (c :: cs)))) as [[p e] o].
  eexists. exact R.
Qed.

(* ---------------------------------------------------------------------- *)
(* further consequences used by the property files *)

(* offsets of the parse are increasing and the frames do not overlap: each once, in stream order *)
Fixpoint incr (lo : nat) (l : list (nat * wframe)) : Prop :=
  match l with
  | [] => True
  | (o, w) :: l' => (lo <= o)%nat /\ incr (o + N.to_nat (w_size w + 2)) l'
  end.

Lemma incr_weaken : forall l lo lo', (lo' <= lo)%nat -> incr lo l -> incr lo' l.
Proof. intros [|[o w] l] lo lo' H I; [exact I|]. destruct I as [A B]. split; [lia|exact B]. Qed.

Theorem spec_parse_increasing : forall n t off, (length t <= n)%nat -> incr off (sp off t).
Proof.
  induction n as [|n IH]; intros t off Hl.
  - rewrite sp_short by lia. exact I.
  - rewrite sp_unfold. destruct (length t <? 7)%nat eqn:L7; [exact I|]. apply Nat.ltb_ge in L7.
    destruct (spec_decode t) as [[w rest]|] eqn:E.
    + destruct (spec_decode_shape _ _ _ E) as (_ & _ & k & Hk & Hr & Hn). cbn [incr]. split; [lia|].
      replace (off + N.to_nat (w_size w + 2))%nat with (off + (length t - length rest))%nat
        by (subst rest; rewrite skipn_length; lia).
      apply IH. subst rest. rewrite skipn_length. lia.
    + destruct (waits t); [exact I|]. apply (incr_weaken _ (S off)); [lia|]. apply IH. destruct t; cbn [length tl] in *; lia.
Qed.

(* a data frame among the parsed frames is handed up *)
Lemma outs_of_delivers : forall fs ps ev opn w, In w fs -> w_ack w = false ->
  In (ODeliver w) (snd (outs_of ps ev opn fs)).
Proof.
  induction fs as [|f fs IH]; intros ps ev opn w Hin Hw; [destruct Hin|].
  cbn [outs_of]. destruct Hin as [->|Hin].
  - rewrite Hw. destruct (outs_of ps ev opn fs) as [[p e] o]. cbn [snd]. apply in_or_app. right. left. reflexivity.
  - destruct (w_ack f).
    + destruct (ack_of f =? ps).
      * specialize (IH (next_seq ps) (ev_set ev) opn w Hin Hw).
        destruct (outs_of (next_seq ps) (ev_set ev) opn fs) as [[p e] o]. cbn [snd] in *. apply in_or_app. right. exact IH.
      * apply IH; assumption.
    + specialize (IH ps ev opn w Hin Hw). destruct (outs_of ps ev opn fs) as [[p e] o]. cbn [snd] in *.
      apply in_or_app. right. right. exact IH.
Qed.

(* writes and deliveries only: per data frame, one ACK write then the delivery; nothing for ACK frames *)
Definition is_wd (o : rxout) : bool := match o with OAckSet => false | _ => true end.

Lemma land_lt_pow2 : forall n a b, b < 2 ^ n -> N.land a b < 2 ^ n.
Proof.
  intros n a b Hb.
  assert (E : N.land a b = (N.land a b) mod 2 ^ n).
  { apply N.bits_inj. intros m. destruct (N.lt_ge_cases m n) as [Hlt|Hge].
    - rewrite N.mod_pow2_bits_low by exact Hlt. reflexivity.
    - rewrite N.mod_pow2_bits_high by exact Hge. rewrite N.land_spec.
      rewrite (testbit_high_small n b m Hb Hge). apply andb_false_r. }
  rewrite E. apply N.mod_lt. apply N.pow_nonzero. lia.
Qed.

Lemma pseq_of_lt4 : forall f, pseq_of f < 4.
Proof.
  intros f. unfold pseq_of. change llflag_PacketSeq with 12. rewrite N.shiftr_div_pow2. change (2 ^ 2) with 4.
  apply N.div_lt_upper_bound; [discriminate|]. apply (land_lt_pow2 4). reflexivity.
Qed.

Lemma ack_bytes_spec : forall q, q < 4 -> ack_bytes q = spec_ack_bytes q.
Proof. intros q H. assert (q = 0 \/ q = 1 \/ q = 2 \/ q = 3) as [-> | [-> | [-> | ->]]] by lia; vm_compute; reflexivity. Qed.

Definition expected_wd (opn : bool) (fs : list wframe) : list rxout :=
  flat_map (fun f => if w_ack f then [] else (if opn then [OWrite (spec_ack_bytes (pseq_of f))] else []) ++ [ODeliver f]) fs.

Theorem outs_of_wd : forall fs ps ev opn, filter is_wd (snd (outs_of ps ev opn fs)) = expected_wd opn fs.
Proof.
  induction fs as [|f fs IH]; intros ps ev opn; [reflexivity|].
  cbn [outs_of expected_wd flat_map]. fold (expected_wd opn fs).
  destruct (w_ack f).
  - destruct (ack_of f =? ps).
    + specialize (IH (next_seq ps) (ev_set ev) opn). destruct (outs_of (next_seq ps) (ev_set ev) opn fs) as [[p e] o].
      cbn [snd] in *. rewrite filter_app. destruct ev; cbn [filter is_wd app]; exact IH.
    + apply IH.
  - specialize (IH ps ev opn). destruct (outs_of ps ev opn fs) as [[p e] o]. cbn [snd] in *.
    rewrite !filter_app, IH. rewrite (ack_bytes_spec _ (pseq_of_lt4 f)).
    destruct opn; reflexivity.
Qed.

(* ---------------------------------------------------------------------- *)
(* never deaf: after ANY earlier input, from ANY buffer state, a quiet gap followed by a
   well-formed data frame gets that frame handed up (and hence acknowledged) *)

Lemma claims_size_lt : forall t sz fl, bytes_ok t -> claims t = Some (sz, fl) -> sz < 65536.
Proof.
  intros t sz fl Hok. destruct t as [|m0 [|m1 [|s0 [|s1 [|ty [|f [|c8 r7]]]]]]]; try discriminate.
  unfold claims. destruct (_ && _); [|discriminate]. intros E. assert (Esz : sz = s0 + 256 * s1) by congruence. rewrite Esz. clear E.
  unfold bytes_ok in Hok. rewrite !Forall_cons_iff in Hok. destruct Hok as (_ & _ & A & B & _). lia.
Qed.

Lemma claims_zero_head : forall t, claims (0 :: t) = None.
Proof. intros t. destruct t as [|m1 [|s0 [|s1 [|ty [|f [|c8 r7]]]]]]; reflexivity. Qed.

Definition GAP : nat := N.to_nat 65537.

Theorem spec_parse_probe : forall pre w, bytes_ok pre -> wf w ->
  In (length pre + GAP, w)%nat (spec_parse_pos (pre ++ repeat 0 GAP ++ spec_encode w)).
Proof.
  intros pre w Hpre W.
  set (s := pre ++ repeat 0 GAP ++ spec_encode w).
  assert (Hskip : forall k, (k <= GAP)%nat -> skipn (length pre + k) s = repeat 0 (GAP - k) ++ spec_encode w).
  { intros k Hk. unfold s. rewrite <- skipn_skipn_add. rewrite skipn_app_exact.
    rewrite skipn_app. rewrite repeat_length.
    replace (k - GAP)%nat with O by lia. cbn [skipn]. f_equal.
    replace GAP with (k + (GAP - k))%nat at 1 by lia. rewrite repeat_app, skipn_app, repeat_length, Nat.sub_diag.
    rewrite skipn_all2 by (rewrite repeat_length; lia). reflexivity. }
  apply (spec_complete s (length pre + GAP) w []).
  - rewrite (Hskip GAP (le_n _)), Nat.sub_diag. cbn [repeat app].
    rewrite <- (app_nil_r (spec_encode w)). apply spec_decode_encode. exact W.
  - intros p sz fl Hp Cl.
    assert (Sok : bytes_ok s).
    { unfold s. apply bytes_ok_app; [exact Hpre|]. apply bytes_ok_app; [apply bytes_ok_repeat0|]. apply wf_encode_ok. exact W. }
    destruct (le_lt_dec (length pre) p) as [Hge|Hlt].
    + exfalso. rewrite <- (Nat.sub_add (length pre) p Hge), Nat.add_comm in Cl.
      rewrite Hskip in Cl by lia.
      destruct (GAP - (p - length pre))%nat as [|g] eqn:Eg; [lia|]. cbn [repeat app] in Cl.
      rewrite claims_zero_head in Cl. discriminate.
    + pose proof (claims_size_lt _ _ _ (bytes_ok_skipn p s Sok) Cl) as Hsz.
      assert (HG : N.of_nat GAP = 65537) by (unfold GAP; rewrite N2Nat.id; reflexivity).
      rewrite Nat2N.inj_add, HG. lia.
Qed.

Lemma rx_run_delivers : forall h st c cs w, bytes_ok (rx_buf st) -> Forall bytes_ok (c :: cs) ->
  In w (spec_parse (rx_buf st ++ concat (c :: cs))) -> w_ack w = false ->
  In (ODeliver w) (snd (fst (rx_run h st (c :: cs)))).
Proof.
  intros h st c cs w Hb Hcs Hin Hw.
  pose proof (rx_chunk_independent_exact h st c cs Hb Hcs) as X.
  pose proof (outs_of_delivers _ (rx_pack_seq st) (rx_ack_event st) (rx_open st) w Hin Hw) as D.
  destruct (outs_of (rx_pack_seq st) (rx_ack_event st) (rx_open st) (spec_parse (rx_buf st ++ concat (c :: cs)))) as [[p e] o].
  destruct X as [buf X]. rewrite X. exact D.
Qed.

(* promptness: whatever the chunking so far, a complete well-formed data frame of the bytes received
   so far has been handed up, unless it starts inside the declared extent of an earlier header that
   passed the header checksum *)
Theorem rx_prompt : forall h st c cs i w rest, bytes_ok (rx_buf st) -> Forall bytes_ok (c :: cs) ->
  let s := rx_buf st ++ concat (c :: cs) in
  spec_decode (skipn i s) = Some (w, rest) -> w_ack w = false ->
  (forall p sz fl, (p < i)%nat -> claims (skipn p s) = Some (sz, fl) -> N.of_nat p + 2 + sz <= N.of_nat i) ->
  In (ODeliver w) (snd (fst (rx_run h st (c :: cs)))).
Proof.
  intros h st c cs i w rest Hb Hcs s E Hw Hc. apply rx_run_delivers; try assumption.
  unfold spec_parse. apply (in_map snd _ (i, w)). exact (spec_complete s i w rest E Hc).
Qed.

Theorem rx_never_deaf : forall h st c cs w, bytes_ok (rx_buf st) -> Forall bytes_ok (c :: cs) -> wf w -> w_ack w = false ->
  In (ODeliver w) (snd (fst (rx_run h st (c :: cs ++ [repeat 0 GAP ++ spec_encode w])))).
Proof.
  intros h st c cs w Hb Hcs W Hw.
  assert (Hmore : bytes_ok (repeat 0 GAP ++ spec_encode w))
    by (apply bytes_ok_app; [apply bytes_ok_repeat0 | apply wf_encode_ok; exact W]).
  assert (Hcs' : Forall bytes_ok (c :: cs ++ [repeat 0 GAP ++ spec_encode w])).
  { inversion Hcs; subst. constructor; [assumption|]. apply Forall_app. split; [assumption|]. constructor; [exact Hmore|constructor]. }
  apply rx_run_delivers; try assumption.
  replace (rx_buf st ++ concat (c :: cs ++ [repeat 0 GAP ++ spec_encode w]))
    with ((rx_buf st ++ concat (c :: cs)) ++ repeat 0 GAP ++ spec_encode w).
  - unfold spec_parse. apply (in_map snd _ ((length (rx_buf st ++ concat (c :: cs)) + GAP)%nat, w)). apply spec_parse_probe; [|exact W].
    apply bytes_ok_app; [exact Hb|]. apply bytes_ok_concat. exact Hcs.
  - cbn [concat]. rewrite concat_app. cbn [concat]. rewrite app_nil_r, <- !app_assoc. reflexivity.
Qed.

(* the receiver's behaviour does not depend on whether the upper layer fails *)
Lemma handle_frames_handler : forall h1 h2 fs st, handle_frames h1 st fs = handle_frames h2 st fs.
Proof.
  intros h1 h2 fs. induction fs as [|f fs IH]; intros st; [reflexivity|].
  cbn [handle_frames]. replace (handle_frame h2 st f) with (handle_frame h1 st f) by reflexivity.
  destruct (handle_frame h1 st f) as [st1 o1]. rewrite IH. reflexivity.
Qed.

Theorem rx_handler_irrelevant : forall h1 h2 chunks st, rx_run h1 st chunks = rx_run h2 st chunks.
Proof.
  intros h1 h2 chunks. induction chunks as [|c cs IH]; intros st; [reflexivity|].
  cbn [rx_run]. replace (data_received h2 st c) with (data_received h1 st c).
  - destruct (data_received h1 st c) as [[st1 o1] r1]. rewrite IH. reflexivity.
  - unfold data_received. destruct (extract_frames_x _ _) as [[fs r] x].
    rewrite (handle_frames_handler h1 h2). reflexivity.
Qed.

(* totality, for every link state *)
Theorem rx_total : forall h st c cs, bytes_ok (rx_buf st) -> Forall bytes_ok (c :: cs) ->
  snd (rx_run h st (c :: cs)) = false.
Proof.
  intros h st c cs Hb Hcs. pose proof (rx_chunk_independent_exact h st c cs Hb Hcs) as X.
  destruct (outs_of _ _ _ _) as [[p e] o]. destruct X as [buf X]. rewrite X. reflexivity.
Qed.
