(* The send scheduler's (TxSched.v) own bookkeeping of the packet sequence number, of the acknowledgement wait and of
   "whose wait a matching ACK ends" - tied to the numbering model of C08 (Rx.next_seq) and to the constants of the tree.
   TxSchedProofs.v proves the order of writes (C07) without looking at the numbers the writes carry; this file
   proves what they carry. *)
From Coq Require Import NArith List Bool Arith Lia.
From ZB Require Import Link.Rx Link.TxSched Link.TxSchedProofs gen.GenConsts.
Import ListNotations.
Open Scope N_scope.

(* ---- 1. the number follows the history exactly as in the numbering model: advanced (0 -> 1 -> 2 -> 3 -> 1 ...) by an
   acknowledgement that carries the current number, reset by close(), changed by nothing else *)
Definition seq_step (q : N) (e : tevent) : N :=
  match e with TAckE n => if n =? q then next_seq q else q | TCloseE => 0 | _ => q end.

(* every data frame written during a step carries the number current after the step's own update *)
Definition stamped (q : N) (o : tobs) : Prop := match o with TW _ q' => q' = q | _ => True end.

(* s' continues s: same number, same clock, the log extended by observations stamped with that number *)
Definition Ext (s s' : tstate) : Prop :=
  t_seq s' = t_seq s /\ t_now s' = t_now s /\ exists new, t_log s' = new ++ t_log s /\ Forall (stamped (t_seq s)) new.

Lemma ext_refl : forall s, Ext s s.
Proof. intros s. split; [reflexivity|]. split; [reflexivity|]. exists []. split; [reflexivity|constructor]. Qed.

Lemma ext_trans : forall a b c, Ext a b -> Ext b c -> Ext a c.
Proof.
  intros a b c (S1 & N1 & n1 & L1 & F1) (S2 & N2 & n2 & L2 & F2).
  split; [congruence|]. split; [congruence|]. exists (n2 ++ n1). split; [rewrite L2, L1, app_assoc; reflexivity|].
  apply Forall_app. split; [rewrite <- S1; exact F2|exact F1].
Qed.

Lemma ext_obs : forall s q h ow op rx o, stamped (t_seq s) o ->
  Ext s (mk (t_now s) q h (t_seq s) ow op rx (o :: t_log s)).
Proof.
  intros. split; [reflexivity|]. split; [reflexivity|]. exists [o]. split; [reflexivity|constructor; [assumption|constructor]].
Qed.

Lemma ext_serve : forall fuel s, Ext s (serve fuel s).
Proof.
  induction fuel as [|fuel IH]; intros s; [apply ext_refl|].
  cbn [serve]. destruct (t_holder s) as [[h d]|]; [apply ext_refl|].
  destruct (t_queue s) as [|tag q]; [apply ext_refl|].
  destruct (t_open s).
  - apply ext_obs. reflexivity.
  - eapply ext_trans; [|apply IH]. apply ext_obs. exact I.
Qed.

Lemma ext_tsettle : forall s, Ext s (tsettle s). Proof. intros. apply ext_serve. Qed.

Lemma ext_end_wait : forall s why, Ext s (end_wait s why).
Proof.
  intros s why. unfold end_wait. destruct (t_holder s) as [[tag d]|]; [|apply ext_refl].
  eapply ext_trans; [|apply ext_tsettle]. apply ext_obs. exact I.
Qed.

Lemma ext_drop : forall s tag, Ext s (drop s tag).
Proof. intros s tag. unfold drop. destruct (existsb _ _); [apply ext_obs; exact I|apply ext_refl]. Qed.

(* the clock moves in a tick; everything else of Ext holds *)
Definition ExtT (s s' : tstate) : Prop :=
  t_seq s' = t_seq s /\ exists new, t_log s' = new ++ t_log s /\ Forall (stamped (t_seq s)) new.
Lemma ext_extT : forall s s', Ext s s' -> ExtT s s'.
Proof. intros s s' (A & _ & B). split; assumption. Qed.
Lemma extT_trans : forall a b c, ExtT a b -> ExtT b c -> ExtT a c.
Proof.
  intros a b c (S1 & n1 & L1 & F1) (S2 & n2 & L2 & F2).
  split; [congruence|]. exists (n2 ++ n1). split; [rewrite L2, L1, app_assoc; reflexivity|].
  apply Forall_app. split; [rewrite <- S1; exact F2|exact F1].
Qed.
Lemma extT_mk : forall s t q h ow op rx, ExtT s (mk t q h (t_seq s) ow op rx (t_log s)).
Proof. intros. split; [reflexivity|]. exists []. split; [reflexivity|constructor]. Qed.

Lemma extT_ttick : forall fuel s target, ExtT s (ttick fuel s target).
Proof.
  induction fuel as [|fuel IH]; intros s target; [apply extT_mk|].
  cbn [ttick]. destruct (t_holder s) as [[tag d]|]; [|apply extT_mk].
  destruct (d <=? target); [|apply extT_mk].
  eapply extT_trans; [|apply IH]. eapply extT_trans; [|apply ext_extT; apply ext_end_wait]. apply extT_mk.
Qed.

Lemma tnext_is_next_seq : forall q, tnext q = next_seq q.
Proof. reflexivity. Qed.

Theorem tstep_seq : forall s e, t_seq (tstep s e) = seq_step (t_seq s) e.
Proof.
  intros s e. destruct e as [tag|n|dt|tag| |]; cbn [tstep seq_step].
  - destruct (ext_tsettle (mk (t_now s) (t_queue s ++ [tag]) (t_holder s) (t_seq s) (t_owner s) (t_open s) (t_rx s) (TCall tag :: t_log s))) as (E & _).
    exact E.
  - destruct (n =? t_seq s); [|reflexivity].
    set (s1 := mk _ _ _ (tnext (t_seq s)) _ _ _ _).
    assert (E1 : t_seq s1 = next_seq (t_seq s)) by reflexivity.
    destruct (t_holder s) as [[tag d]|]; [|exact E1]. destruct (t_owner s) as [o|]; [|exact E1].
    destruct (tag =? o)%nat; [|exact E1]. destruct (ext_end_wait s1 0) as (E & _). rewrite E. exact E1.
  - destruct (extT_ttick (2 + length (t_queue s)) s (t_now s + dt)) as (E & _). exact E.
  - destruct (t_holder s) as [[h d]|].
    + destruct (h =? tag)%nat; [destruct (ext_end_wait s 2) as (E & _)|destruct (ext_drop s tag) as (E & _)]; exact E.
    + destruct (ext_drop s tag) as (E & _). exact E.
  - reflexivity.
  - reflexivity.
Qed.

Theorem seq_follows_history : forall evs, t_seq (trun_events evs) = fold_left seq_step evs 0.
Proof.
  intros evs. unfold trun_events.
  assert (G : forall s, t_seq (fold_left tstep evs s) = fold_left seq_step evs (t_seq s)).
  { induction evs as [|e evs IH]; intros s; [reflexivity|]. cbn [fold_left]. rewrite IH, tstep_seq. reflexivity. }
  apply G.
Qed.

(* ---- 2. every data frame written in a step is stamped with the number current after that step's update: the number
   an ACK must carry to end its wait *)
Theorem writes_carry_current_number : forall s e,
  exists new, t_log (tstep s e) = new ++ t_log s /\ Forall (stamped (t_seq (tstep s e))) new.
Proof.
  intros s e. rewrite tstep_seq. destruct e as [tag|n|dt|tag| |]; cbn [tstep seq_step].
  - set (s0 := mk _ (t_queue s ++ [tag]) _ _ _ _ _ (TCall tag :: t_log s)).
    destruct (ext_tsettle s0) as (_ & _ & new & L & F). exists (new ++ [TCall tag]). split.
    + rewrite L. unfold s0. cbn [mk t_log]. rewrite <- app_assoc. reflexivity.
    + apply Forall_app. split; [exact F|constructor; [exact I|constructor]].
  - destruct (n =? t_seq s); [|exists []; split; [reflexivity|constructor]].
    set (s1 := mk _ _ _ (tnext (t_seq s)) _ _ _ _).
    assert (N0 : exists new, t_log s1 = new ++ t_log s /\ Forall (stamped (next_seq (t_seq s))) new)
      by (exists []; split; [reflexivity|constructor]).
    destruct (t_holder s) as [[tag d]|]; [|exact N0]. destruct (t_owner s) as [o|]; [|exact N0].
    destruct (tag =? o)%nat; [|exact N0]. destruct (ext_end_wait s1 0) as (_ & _ & new & L & F).
    exists new. split; [exact L|exact F].
  - destruct (extT_ttick (2 + length (t_queue s)) s (t_now s + dt)) as (_ & new & L & F). exists new. split; assumption.
  - destruct (t_holder s) as [[h d]|].
    + destruct (h =? tag)%nat; [destruct (ext_end_wait s 2) as (_ & _ & new & L & F)|destruct (ext_drop s tag) as (_ & _ & new & L & F)];
        exists new; split; assumption.
    + destruct (ext_drop s tag) as (_ & _ & new & L & F). exists new; split; assumption.
  - destruct (t_open s); [exists [TK (tnext (t_rx s))]; split; [reflexivity|constructor; [exact I|constructor]]
                         |exists []; split; [reflexivity|constructor]].
  - exists []. split; [reflexivity|constructor].
Qed.

(* ---- 3. the acknowledgement wait: a frame written at time t is waited for until t + ACK_TIMEOUT (the constant of the
   tree), and the wait it starts is the one a matching ACK ends *)
Definition HO (s : tstate) : Prop :=
  forall tag d, t_holder s = Some (tag, d) -> t_owner s = Some tag /\ d <= t_now s + ack_timeout_ms.

Lemma serve_fresh_wait : forall fuel s tag d, t_holder s = None -> t_holder (serve fuel s) = Some (tag, d) ->
  d = t_now s + ack_timeout_ms /\ t_owner (serve fuel s) = Some tag /\ t_now (serve fuel s) = t_now s.
Proof.
  induction fuel as [|fuel IH]; intros s tag d Hn Hh; [cbn [serve] in Hh; congruence|].
  cbn [serve] in *. rewrite Hn in *. destruct (t_queue s) as [|tg q]; [congruence|].
  destruct (t_open s).
  - cbn [mk t_holder t_owner t_now] in *. inversion Hh; subst. repeat split.
  - set (s1 := mk (t_now s) q None (t_seq s) (t_owner s) false (t_rx s) (TEnd tg 3 :: t_log s)) in *.
    assert (Hn1 : t_holder s1 = None) by reflexivity.
    destruct (IH s1 tag d Hn1 Hh) as (A & B & C). repeat split; assumption.
Qed.

Lemma ho_serve : forall fuel s, HO s -> HO (serve fuel s).
Proof.
  intros fuel s H tag d Hh. destruct (t_holder s) as [[h0 d0]|] eqn:E0.
  - assert (Es : serve fuel s = s) by (destruct fuel; cbn [serve]; [reflexivity|rewrite E0; reflexivity]).
    rewrite Es in *. apply H. exact Hh.
  - destruct (serve_fresh_wait fuel s tag d E0 Hh) as (D & O & Nw). split; [exact O|]. rewrite Nw, D. lia.
Qed.

Lemma ho_end_wait : forall s why, HO s -> HO (end_wait s why).
Proof.
  intros s why H. unfold end_wait. destruct (t_holder s) as [[tag d]|] eqn:E; [|exact H].
  apply ho_serve. intros tg d' Hh. cbn [mk t_holder] in Hh. discriminate.
Qed.

Lemma ho_drop : forall s tag, HO s -> HO (drop s tag).
Proof. intros s tag H. unfold drop. destruct (existsb _ _); [|exact H]. intros tg d Hh. cbn [mk t_holder t_owner t_now] in *. apply H. exact Hh. Qed.

(* a tick never leaves a wait whose deadline has passed, given enough fuel; HO itself only needs "deadline <= now + wait" *)
Lemma ho_ttick : forall fuel s target, t_now s <= target -> HO s -> HO (ttick fuel s target).
Proof.
  induction fuel as [|fuel IH]; intros s target Hle H.
  - intros tag d Hh. cbn [ttick mk t_holder t_owner t_now] in *. destruct (H tag d Hh) as [A B]. split; [exact A|lia].
  - cbn [ttick]. destruct (t_holder s) as [[tag d]|] eqn:E.
    + destruct (d <=? target) eqn:Ed.
      * apply N.leb_le in Ed.
        match goal with |- context [end_wait ?x 1] => set (s0 := x) end.
        apply IH.
        -- destruct (ext_end_wait s0 1) as (_ & Nw & _). rewrite Nw. unfold s0. cbn [mk t_now]. lia.
        -- apply ho_end_wait. intros tg d' Hh. unfold s0 in *. cbn [mk t_holder t_owner t_now] in *.
           inversion Hh; subst tg d'. destruct (H tag d E) as [A B]. split; [exact A|lia].
      * intros tg d' Hh. cbn [mk t_holder t_owner t_now] in *. inversion Hh; subst tg d'. destruct (H tag d E) as [A B]. split; [exact A|lia].
    + intros tg d' Hh. cbn [mk t_holder] in Hh. congruence.
Qed.

Theorem ho_step : forall s e, HO s -> HO (tstep s e).
Proof.
  intros s e H. destruct e as [tag|n|dt|tag| |]; cbn [tstep].
  - apply ho_serve. intros tg d Hh. cbn [mk t_holder t_owner t_now] in *. apply H. exact Hh.
  - destruct (n =? t_seq s); [|exact H].
    assert (H1 : HO (mk (t_now s) (t_queue s) (t_holder s) (tnext (t_seq s)) (t_owner s) (t_open s) (t_rx s) (t_log s)))
      by (intros tg d Hh; cbn [mk t_holder t_owner t_now] in *; apply H; exact Hh).
    destruct (t_holder s) as [[tag d]|]; [|exact H1]. destruct (t_owner s) as [o|]; [|exact H1].
    destruct (tag =? o)%nat; [apply ho_end_wait|]; exact H1.
  - apply ho_ttick; [lia|exact H].
  - destruct (t_holder s) as [[h d]|] eqn:E.
    + destruct (h =? tag)%nat; [apply ho_end_wait|apply ho_drop]; exact H.
    + apply ho_drop; exact H.
  - intros tg d Hh. cbn [mk t_holder t_owner t_now] in *. apply H. exact Hh.
  - intros tg d Hh. cbn [mk t_holder t_owner t_now] in *. apply H. exact Hh.
Qed.

Theorem ho_always : forall evs, HO (trun_events evs).
Proof.
  intros evs. unfold trun_events. assert (G : forall s, HO s -> HO (fold_left tstep evs s)).
  { induction evs as [|e evs IH]; intros s H; [exact H|]. cbn [fold_left]. apply IH. apply ho_step. exact H. }
  apply G. intros tag d Hh. cbn in Hh. discriminate.
Qed.

(* a send() on a free link starts a wait of exactly ACK_TIMEOUT *)
Theorem wait_is_ack_timeout : forall s tag tg d,
  t_holder s = None -> t_queue s = [] -> t_open s = true ->
  t_holder (tstep s (TSendE tag)) = Some (tg, d) -> tg = tag /\ d = t_now s + ack_timeout_ms.
Proof.
  intros s tag tg d Hn Hq Ho Hh. cbn [tstep] in Hh. unfold tsettle in Hh. cbn [mk t_queue] in Hh. rewrite Hq in Hh.
  cbn [app length serve mk t_holder t_queue t_open t_now] in Hh. rewrite Hn, Ho in Hh. cbn [mk t_holder] in Hh.
  inversion Hh; subst. split; reflexivity.
Qed.

(* in every reachable state, an ACK carrying the current number ends the wait in progress (and nothing else ends by it) *)
Theorem matching_ack_ends_the_wait : forall evs tag d,
  t_holder (trun_events evs) = Some (tag, d) ->
  exists new, t_log (tstep (trun_events evs) (TAckE (t_seq (trun_events evs)))) = new ++ TEnd tag 0 :: t_log (trun_events evs).
Proof.
  intros evs tag d Hh. set (s := trun_events evs) in *. destruct (ho_always evs tag d Hh) as [Ow _]. fold s in Ow.
  cbn [tstep]. rewrite N.eqb_refl, Hh, Ow, Nat.eqb_refl. unfold end_wait. cbn [mk t_holder].
  cbn [mk t_now t_queue t_seq t_owner t_open t_rx t_log].
  set (s2 := mk _ _ None _ _ _ _ (TEnd tag 0 :: t_log s)).
  destruct (ext_tsettle s2) as (_ & _ & new & L & _). exists new. rewrite L. reflexivity.
Qed.

(* an expired wait ends exactly when the clock reaches its deadline: not before *)
Theorem no_expiry_before_deadline : forall s dt tag d,
  t_holder s = Some (tag, d) -> t_now s + dt < d -> t_holder (tstep s (TTickE dt)) = Some (tag, d) /\ t_log (tstep s (TTickE dt)) = t_log s.
Proof.
  intros s dt tag d Hh Hlt. cbn [tstep plus ttick]. rewrite Hh.
  replace (d <=? t_now s + dt) with false by (symmetry; apply N.leb_gt; exact Hlt).
  cbn [mk t_holder t_log]. split; reflexivity.
Qed.

Lemma end_wait_log : forall s tag d why, t_holder s = Some (tag, d) ->
  exists new, t_log (end_wait s why) = new ++ TEnd tag why :: t_log s.
Proof.
  intros s tag d why H. unfold end_wait. rewrite H.
  match goal with |- context [tsettle ?x] => destruct (ext_tsettle x) as (_ & _ & new & L & _) end.
  exists new. rewrite L. reflexivity.
Qed.

Lemma ttick_S : forall fuel s target, ttick (S fuel) s target =
  match t_holder s with
  | Some (tag, d) =>
      if d <=? target
      then ttick fuel (end_wait (mk (N.max d (t_now s)) (t_queue s) (t_holder s) (t_seq s) (t_owner s) (t_open s) (t_rx s) (t_log s)) 1) target
      else mk target (t_queue s) (t_holder s) (t_seq s) (t_owner s) (t_open s) (t_rx s) (t_log s)
  | None => mk target (t_queue s) (t_holder s) (t_seq s) (t_owner s) (t_open s) (t_rx s) (t_log s)
  end.
Proof. reflexivity. Qed.

Theorem expiry_at_deadline : forall s dt tag d,
  t_holder s = Some (tag, d) -> d <= t_now s + dt ->
  exists new, t_log (tstep s (TTickE dt)) = new ++ TEnd tag 1 :: t_log s.
Proof.
  intros s dt tag d Hh Hle. cbn [tstep].
  change (2 + length (t_queue s))%nat with (S (1 + length (t_queue s))). rewrite ttick_S, Hh.
  replace (d <=? t_now s + dt) with true by (symmetry; apply N.leb_le; exact Hle).
  match goal with |- context [end_wait ?x 1] => set (s0 := x) end.
  assert (H0 : t_holder s0 = Some (tag, d)) by reflexivity.
  assert (L0 : t_log s0 = t_log s) by reflexivity.
  destruct (end_wait_log s0 tag d 1%nat H0) as (n1 & L1).
  match goal with |- context [ttick ?f ?x ?t] => destruct (extT_ttick f x t) as (_ & n2 & L2 & _) end.
  exists (n2 ++ n1). rewrite L2, L1, L0, app_assoc. reflexivity.
Qed.

(* ---- 4. cancellation and close in the scheduler *)
(* cancelling the sender whose frame is in flight ends its wait as "cancelled" (reason 2), not as expired *)
Theorem cancel_in_flight_ends_cancelled : forall s tag d, t_holder s = Some (tag, d) ->
  exists new, t_log (tstep s (TCancelE tag)) = new ++ TEnd tag 2 :: t_log s.
Proof.
  intros s tag d Hh. cbn [tstep]. rewrite Hh, Nat.eqb_refl. apply (end_wait_log s tag d 2%nat Hh).
Qed.

(* close() closes the transport: a later send() is over at once, nothing written, nothing awaited *)
Theorem close_closes : forall s, t_open (tstep s TCloseE) = false /\ t_seq (tstep s TCloseE) = 0.
Proof. intros s. split; reflexivity. Qed.

Theorem send_after_close_writes_nothing : forall s tag, t_open s = false -> t_holder s = None -> t_queue s = [] ->
  t_log (tstep s (TSendE tag)) = TEnd tag 3 :: TCall tag :: t_log s /\ t_holder (tstep s (TSendE tag)) = None.
Proof.
  intros s tag Ho Hn Hq. cbn [tstep]. unfold tsettle. cbn [mk t_queue]. rewrite Hq.
  cbn [app length serve mk t_holder t_queue t_open t_now t_seq t_owner t_rx t_log]. rewrite Hn, Ho.
  cbn [mk t_holder t_queue t_log]. split; reflexivity.
Qed.
