(* MODEL of Frame.count_fragments / handle_tx_fragmentation (frames.py) and of the receive-side
   reassembly (api.frame_received + Frame.handle_rx_fragmentation). *)
From Coq Require Import NArith List Bool Arith.
From ZB Require Import Base.Bytes Base.Bits Crc.CrcModel Link.LLHeader Link.Frame gen.GenConsts.
Import ListNotations.
Open Scope N_scope.

Definition MAXB : nat := N.to_nat ll_body_size_max.

(* int(-(-n // MAX)) *)
Definition count_fragments_n (total : nat) : nat := ((total + (MAXB - 1)) / MAXB)%nat.

(* bodies after the first fragment: MAX-sized pieces, the last one takes the remainder *)
Fixpoint chunks (fuel : nat) (l : list N) : list (list N) :=
  match fuel with
  | O => [l]
  | S fuel => if (length l <=? MAXB)%nat then [l] else firstn MAXB l :: chunks fuel (skipn MAXB l)
  end.

Definition first_size (total : nat) : nat :=
  Nat.max 4 (if (total mod MAXB =? 0)%nat then MAXB else (total mod MAXB)%nat).

Definition mk_frag (flags : N) (hdr : option N) (data : list N) (bodylen : nat) : frame :=
  {| fr_ll := ll_build (N.of_nat bodylen + 7) flags; fr_hl := Some {| hl_hdr := hdr; hl_data := data |} |}.

Fixpoint mk_rest (cs : list (list N)) : list frame :=
  match cs with
  | [] => []
  | [c] => [mk_frag llflag_LastFrag None c (length c)]
  | c :: cs' => mk_frag 0 None c (length c) :: mk_rest cs'
  end.

Definition tx_fragment (f : frame) : list frame :=
  match fr_hl f with
  | None => [f]
  | Some p =>
      let ser := hl_body p in
      let total := length ser in
      if (count_fragments_n total <=? 1)%nat then [f] else
      let fs := first_size total in
      mk_frag llflag_FirstFrag (hl_hdr p) (firstn (fs - 4) (hl_data p)) fs
        :: mk_rest (chunks total (skipn fs ser))
  end.

(* body bytes a fragment contributes to the message: hl_packet.serialize()[2:] *)
Definition frag_body (f : frame) : list N :=
  match fr_hl f with Some p => hl_body p | None => [] end.
