(* C05: every frame the host builds is well-formed and decodes back to itself. *)
From Coq Require Import NArith List Bool Lia Arith.
From ZB Require Import Base.Bytes Base.Bits Crc.CrcSpec Crc.CrcModel Crc.CrcProofs Link.LLHeader Link.LinkSpec
  Link.LinkSpecProofs
  Link.Frame Link.Rx Link.RxProofs gen.GenConsts.
Import ListNotations.
Open Scope N_scope.

(* ---------------------------------------------------------------------- *)
(* bytes of the headers the code builds *)

Lemma lor_lt_pow2 : forall n a b, a < 2 ^ n -> b < 2 ^ n -> N.lor a b < 2 ^ n.
Proof.
  intros n a b Ha Hb.
  assert (E : N.lor a b = (N.lor a b) mod 2 ^ n).
  { apply N.bits_inj. intros m. destruct (N.lt_ge_cases m n) as [Hlt|Hge].
    - rewrite N.mod_pow2_bits_low by exact Hlt. reflexivity.
    - rewrite N.mod_pow2_bits_high by exact Hge. rewrite N.lor_spec.
      rewrite (testbit_high_small n a m Ha Hge), (testbit_high_small n b m Hb Hge). reflexivity. }
  rewrite E. apply N.mod_lt. apply N.pow_nonzero. lia.
Qed.

Lemma ll_build_bytes : forall size fl,
  le_enc 7 (ll_build size fl) = [0xDE; 0xAD] ++ le_enc 2 size ++ [6; fl mod 256; 0].
Proof. intros. unfold ll_build. rewrite ll_make_bytes. reflexivity. Qed.

Lemma ll_build_lt : forall size fl, ll_build size fl < 2 ^ 56.
Proof. intros. apply ll_make_lt. Qed.

(* header bytes after uart._set_frame_flag + _ll_checksum *)
Lemma stamp_header_bytes : forall seq size fl0 p,
  let fl1 := (N.lor (N.shiftl seq 2) (fl0 mod 256)) mod 256 in
  le_enc 7 (fr_ll (stamp seq {| fr_ll := ll_build size fl0; fr_hl := p |})) =
  [0xDE; 0xAD] ++ le_enc 2 size ++ [6; fl1; crc8 (le_enc 2 size ++ [6; fl1]) mod 256].
Proof.
  intros seq size fl0 p fl1. unfold stamp. cbn [fr_ll].
  rewrite ll_get_flags_byte, ll_build_bytes.
  replace (nth 5 ([0xDE; 0xAD] ++ le_enc 2 size ++ [6; fl0 mod 256; 0]) 0) with (fl0 mod 256) by reflexivity.
  set (h1 := ll_with LFlags (ll_build size fl0) (N.lor (N.shiftl seq 2) (fl0 mod 256))).
  assert (B1 : le_enc 7 h1 = [0xDE; 0xAD] ++ le_enc 2 size ++ [6; fl1; 0]).
  { unfold h1. rewrite ll_with_flags_bytes by apply ll_build_lt. rewrite ll_build_bytes. reflexivity. }
  rewrite ll_with_crc8_bytes by (unfold h1; apply ll_with_lt).
  unfold ll_crc. rewrite B1. reflexivity.
Qed.

(* header bytes of Frame.ack *)
Lemma ack_header_bytes : forall seq (rt : bool),
  let fl := (if rt then N.lor (N.lor (N.shiftl seq 4) 1) 2 else N.lor (N.shiftl seq 4) 1) mod 256 in
  serialize (ack_frame seq rt) = [0xDE; 0xAD; 5; 0; 6; fl; crc8 [5; 0; 6; fl] mod 256].
Proof.
  intros seq rt fl. unfold serialize, ack_frame. cbn [fr_ll fr_hl]. rewrite app_nil_r.
  rewrite ll_with_crc8_bytes by apply ll_build_lt. unfold ll_crc. rewrite ll_build_bytes.
  change llflag_isACK with 1. change llflag_Retransmit with 2. destruct rt; reflexivity.
Qed.

(* ---------------------------------------------------------------------- *)
(* every stamped data frame / fragment the host builds is the spec encoding of a well-formed frame *)

Definition data_flags_ok (fl0 : N) : Prop := fl0 = 0 \/ fl0 = 64 \/ fl0 = 128 \/ fl0 = 192.

Lemma seq4 : forall seq, seq < 4 -> seq = 0 \/ seq = 1 \/ seq = 2 \/ seq = 3.
Proof. intros. lia. Qed.

Lemma stamped_flags : forall seq fl0, seq < 4 -> data_flags_ok fl0 ->
  let fl1 := N.lor (N.shiftl seq 2) fl0 in
  (N.lor (N.shiftl seq 2) (fl0 mod 256)) mod 256 = fl1 /\ fl1 < 256 /\
  fl_is_ack fl1 = false /\ fl_first fl1 = fl_first fl0 /\ fl_last fl1 = fl_last fl0 /\ fl_pseq fl1 = seq.
Proof.
  intros seq fl0 Hs Hf. destruct (seq4 _ Hs) as [-> | [-> | [-> | ->]]]; destruct Hf as [-> | [-> | [-> | ->]]];
    cbv; repeat split; reflexivity.
Qed.

Definition mk_w (size fl1 : N) (hdr : option N) (data : list N) : wframe :=
  {| w_size := size; w_flags := fl1; w_crc8 := crc8_spec (le_enc 2 size ++ [6; fl1]);
     w_ack := false; w_hdr := hdr; w_data := data |}.

Lemma hl_body_w_body : forall hdr data size fl1,
  (forall h, hdr = Some h -> h <> 0) ->
  hl_body {| hl_hdr := hdr; hl_data := data |} = w_body (mk_w size fl1 hdr data).
Proof.
  intros hdr data size fl1 H. unfold hl_body, w_body, mk_w. cbn [hl_hdr hl_data w_hdr w_data].
  destruct hdr as [h|]; [|reflexivity]. specialize (H h eq_refl).
  replace (h =? 0) with false by (symmetry; apply N.eqb_neq; exact H). reflexivity.
Qed.

Lemma stamp_hl : forall seq f, fr_hl (stamp seq f) = fr_hl f.
Proof. reflexivity. Qed.

Theorem stamped_data_frame : forall seq fl0 hdr data size, seq < 4 -> data_flags_ok fl0 -> bytes_ok data ->
  (fl_first fl0 = true -> exists h, hdr = Some h /\ h <> 0 /\ h < 2 ^ 32) ->
  (fl_first fl0 = false -> hdr = None) ->
  size = 7 + N.of_nat (length (hl_body {| hl_hdr := hdr; hl_data := data |})) -> size < 65536 ->
  let w := mk_w size (N.lor (N.shiftl seq 2) fl0) hdr data in
  serialize (stamp seq {| fr_ll := ll_build size fl0; fr_hl := Some {| hl_hdr := hdr; hl_data := data |} |})
    = spec_encode w /\ wf w.
Proof.
  intros seq fl0 hdr data size Hseq Hfl Hd Hh1 Hh0 Hsz Hlt w.
  destruct (stamped_flags seq fl0 Hseq Hfl) as (Efl & Hfl1 & Hack & Hfirst & Hlast & Hps).
  set (fl1 := N.lor (N.shiftl seq 2) fl0) in *.
  assert (Hnz : forall h, hdr = Some h -> h <> 0).
  { intros h Eh. destruct (fl_first fl0) eqn:F.
    - destruct (Hh1 eq_refl) as (h' & Eh' & Hn & _). congruence.
    - rewrite (Hh0 eq_refl) in Eh. discriminate. }
  pose proof (hl_body_w_body hdr data size fl1 Hnz) as Hbody. fold w in Hbody.
  assert (Bok : bytes_ok (w_body w)).
  { unfold w_body, w, mk_w. cbn [w_hdr w_data]. apply bytes_ok_app; [|exact Hd].
    destruct hdr; [apply le_enc_bytes_ok|constructor]. }
  assert (H4ok : bytes_ok (le_enc 2 size ++ [6; fl1])).
  { apply bytes_ok_app; [apply le_enc_bytes_ok|]. constructor; [lia|]. constructor; [exact Hfl1|constructor]. }
  split.
  - unfold serialize. rewrite stamp_hl. cbn [fr_hl]. rewrite stamp_header_bytes. cbv zeta. rewrite Efl.
    rewrite (crc8_code_eq_spec _ H4ok). rewrite N.mod_small by (rewrite <- crc8_code_eq_spec by exact H4ok; apply crc8_lt; exact H4ok).
    unfold hl_serialize. rewrite Hbody. rewrite (crc16_code_eq_spec _ Bok).
    unfold spec_encode. cbn [w_size w_flags w_crc8 w_ack w mk_w]. fold (w_body (mk_w size fl1 hdr data)).
    rewrite <- !app_assoc. reflexivity.
  - constructor; cbn [w mk_w w_size w_flags w_crc8 w_ack w_hdr w_data].
    + exact Hlt.
    + exact Hfl1.
    + reflexivity.
    + symmetry. exact Hack.
    + discriminate.
    + exact Hd.
    + intros _. fold fl1. rewrite Hfirst. split.
      * split.
        -- intros F. destruct (Hh1 F) as (h & Eh & _ & Hh). exists h. split; assumption.
        -- intros (h & Eh & _). destruct (fl_first fl0) eqn:F; [reflexivity|]. rewrite (Hh0 eq_refl) in Eh. discriminate.
      * exact Hh0.
    + intros _. rewrite Hsz, Hbody. reflexivity.
Qed.

(* CommandBase.to_frame + stamping: a complete command frame *)
Theorem command_frame_wellformed : forall h d seq F r, to_frame h d = Some F ->
  h <> 0 -> h < 2 ^ 32 -> bytes_ok d -> seq < 4 -> N.of_nat (length d) + 11 < 65536 ->
  let b := serialize (stamp seq F) in
  let w := mk_w (N.of_nat (length d) + 11) (N.lor (N.shiftl seq 2) 192) (Some h) d in
  wf w /\ b = spec_encode w /\ N.of_nat (length b) = 2 + w_size w /\
  spec_decode (b ++ r) = Some (w, r) /\ extract_frame_x (b ++ r) = XF w (length b).
Proof.
  intros h d seq F r HF Hn Hh Hd Hseq Hfit.
  unfold to_frame in HF. cbv zeta in HF.
  set (len := N.of_nat (length (hl_serialize {| hl_hdr := Some h; hl_data := d |}))) in *.
  destruct (len <? 65536) eqn:EL; [|discriminate].
  assert (EF : F = {| fr_ll := ll_build (len + 5) fl_first_last; fr_hl := Some {| hl_hdr := Some h; hl_data := d |} |}) by congruence.
  subst F. clear HF. apply N.ltb_lt in EL. unfold len in *. clear len.
  assert (Elen : N.of_nat (length (hl_serialize {| hl_hdr := Some h; hl_data := d |})) + 5 = N.of_nat (length d) + 11).
  { unfold hl_serialize, hl_body. cbn [hl_hdr hl_data]. replace (h =? 0) with false by (symmetry; apply N.eqb_neq; exact Hn).
    rewrite !app_length, !le_enc_length. lia. }
  cbv zeta. rewrite Elen. change fl_first_last with 192.
  assert (Hbl : N.of_nat (length d) + 11 = 7 + N.of_nat (length (hl_body {| hl_hdr := Some h; hl_data := d |}))).
  { unfold hl_body. cbn [hl_hdr hl_data]. replace (h =? 0) with false by (symmetry; apply N.eqb_neq; exact Hn).
    rewrite app_length, le_enc_length. lia. }
  destruct (stamped_data_frame seq 192 (Some h) d (N.of_nat (length d) + 11) Hseq ltac:(right; right; right; reflexivity) Hd
              ltac:(intros _; exists h; auto) ltac:(intros F; discriminate F) Hbl Hfit) as [E W].
  cbv zeta.
  set (b := serialize (stamp seq {| fr_ll := ll_build (N.of_nat (length d) + 11) 192;
                                    fr_hl := Some {| hl_hdr := Some h; hl_data := d |} |})) in *.
  set (w := mk_w (N.of_nat (length d) + 11) (N.lor (N.shiftl seq 2) 192) (Some h) d) in *.
  assert (Hlen : N.of_nat (length b) = 2 + w_size w).
  { rewrite E. unfold spec_encode. cbn [w mk_w w_ack w_hdr w_data w_size]. rewrite !app_length, !le_enc_length. cbn [length]. lia. }
  split; [exact W|]. split; [exact E|]. split; [exact Hlen|].
  assert (SD : spec_decode (b ++ r) = Some (w, r)) by (rewrite E; apply spec_decode_encode; exact W).
  split; [exact SD|].
  assert (Bb : bytes_ok b) by (rewrite E; apply wf_encode_ok; exact W).
  assert (Hws : w_size w = N.of_nat (length d) + 11) by reflexivity.
  assert (E0 : extract_frame_x b = XF w (length b)).
  { assert (SD0 : spec_decode b = Some (w, [])) by (rewrite <- (app_nil_r b), E; apply spec_decode_encode; exact W).
    rewrite (extract_classify _ Bb). unfold classify. rewrite SD0.
    replace (length b <? 7)%nat with false by (symmetry; apply Nat.ltb_ge; lia). f_equal. }
  rewrite extract_stable by (rewrite E0; discriminate). exact E0.
Qed.

(* Frame.ack for every sequence value and retransmit flag *)
Definition ack_flags (seq : N) (rt : bool) : N := N.lor (N.lor (N.shiftl seq 4) 1) (if rt then 2 else 0).
Definition ack_w (seq : N) (rt : bool) : wframe :=
  {| w_size := 5; w_flags := ack_flags seq rt; w_crc8 := crc8_spec [5; 0; 6; ack_flags seq rt];
     w_ack := true; w_hdr := None; w_data := [] |}.

Theorem ack_frame_wellformed : forall seq rt r, seq < 4 ->
  let b := serialize (ack_frame seq rt) in
  wf (ack_w seq rt) /\ b = spec_encode (ack_w seq rt) /\ length b = 7%nat /\
  spec_decode (b ++ r) = Some (ack_w seq rt, r) /\ extract_frame_x (b ++ r) = XF (ack_w seq rt) 7 /\
  fl_aseq (w_flags (ack_w seq rt)) = seq.
Proof.
  intros seq rt r Hs.
  assert (W : wf (ack_w seq rt)).
  { destruct (seq4 _ Hs) as [-> | [-> | [-> | ->]]]; destruct rt;
      (constructor; cbn [ack_w w_size w_flags w_crc8 w_ack w_hdr w_data];
       [reflexivity | reflexivity | reflexivity | reflexivity | intros _; repeat split | constructor | discriminate | discriminate]). }
  assert (E : serialize (ack_frame seq rt) = spec_encode (ack_w seq rt)).
  { destruct (seq4 _ Hs) as [-> | [-> | [-> | ->]]]; destruct rt; vm_compute; reflexivity. }
  cbv zeta. rewrite E. split; [exact W|]. split; [reflexivity|].
  split; [destruct (seq4 _ Hs) as [-> | [-> | [-> | ->]]]; destruct rt; reflexivity|].
  split; [apply spec_decode_encode; exact W|].
  split; [|destruct (seq4 _ Hs) as [-> | [-> | [-> | ->]]]; destruct rt; reflexivity].
  destruct (seq4 _ Hs) as [-> | [-> | [-> | ->]]]; destruct rt; vm_compute; reflexivity.
Qed.
