(* Facts about the link-format SPEC alone: well-formed frame values, the decoder inverts the encoder. *)
From Coq Require Import NArith List Bool Lia Arith.
From ZB Require Import Base.Bytes Crc.CrcSpec Crc.CrcModel Crc.CrcProofs Link.LinkSpec.
Import ListNotations.
Open Scope N_scope.

(* ---------------------------------------------------------------------- *)
(* well-formed frame values and the inverse property of the spec codec *)

Definition w_body (w : wframe) : list N :=
  (match w_hdr w with Some h => le_enc 4 h | None => [] end) ++ w_data w.

Record wf (w : wframe) : Prop := {
  wf_size : w_size w < 65536;
  wf_flags : w_flags w < 256;
  wf_crc8 : w_crc8 w = crc8_spec (le_enc 2 (w_size w) ++ [6; w_flags w]);
  wf_ack : w_ack w = fl_is_ack (w_flags w);
  wf_ack_shape : w_ack w = true -> w_size w = 5 /\ w_hdr w = None /\ w_data w = [];
  wf_data_ok : bytes_ok (w_data w);
  wf_hdr : w_ack w = false -> (fl_first (w_flags w) = true <-> exists h, w_hdr w = Some h /\ h < 2 ^ 32)
                              /\ (fl_first (w_flags w) = false -> w_hdr w = None);
  wf_len : w_ack w = false -> w_size w = 7 + N.of_nat (length (w_body w))
}.

Lemma le_enc2_val : forall n, n < 65536 -> n mod 256 + 256 * ((n / 256) mod 256) = n.
Proof.
  intros n H. rewrite (N.mod_small (n / 256)) by (apply N.div_lt_upper_bound; lia).
  pose proof (N.div_mod n 256 ltac:(lia)). lia.
Qed.

Lemma le_val_le_enc : forall w n, n < 256 ^ N.of_nat w -> le_val (le_enc w n) = n.
Proof.
  induction w as [|w IH]; intros n H.
  - simpl in *. lia.
  - rewrite Nat2N.inj_succ, N.pow_succ_r' in H. cbn [le_enc le_val]. rewrite IH by (apply N.div_lt_upper_bound; lia).
    pose proof (N.div_mod n 256 ltac:(lia)). lia.
Qed.

Lemma crc16_spec_lt : forall l, bytes_ok l -> crc16_spec l < 65536.
Proof. intros l H. rewrite <- crc16_code_eq_spec by exact H. apply crc16_lt. exact H. Qed.

Lemma firstn_app_exact : forall (A : Type) (a b : list A), firstn (length a) (a ++ b) = a.
Proof. intros. rewrite firstn_app, Nat.sub_diag, firstn_all. simpl. apply app_nil_r. Qed.
Lemma skipn_app_exact : forall (A : Type) (a b : list A), skipn (length a) (a ++ b) = b.
Proof. intros. rewrite skipn_app, Nat.sub_diag, skipn_all. reflexivity. Qed.

Lemma w_body_ok : forall w, wf w -> w_ack w = false -> bytes_ok (w_body w).
Proof.
  intros w W A. unfold w_body. apply bytes_ok_app; [|apply (wf_data_ok w W)].
  destruct (w_hdr w); [apply le_enc_bytes_ok|constructor].
Qed.

Lemma firstn2_enc : forall c (b : list N), firstn 2 (le_enc 2 c ++ b) = le_enc 2 c. Proof. reflexivity. Qed.
Lemma skipn2_enc : forall c (b : list N), skipn 2 (le_enc 2 c ++ b) = b. Proof. reflexivity. Qed.
Lemma firstn4_enc : forall c (b : list N), firstn 4 (le_enc 4 c ++ b) = le_enc 4 c. Proof. reflexivity. Qed.
Lemma skipn4_enc : forall c (b : list N), skipn 4 (le_enc 4 c ++ b) = b. Proof. reflexivity. Qed.

Lemma spec_encode_cons : forall w, spec_encode w =
  0xDE :: 0xAD :: w_size w mod 256 :: (w_size w / 256) mod 256 :: 6 :: w_flags w :: w_crc8 w ::
  (if w_ack w then [] else le_enc 2 (crc16_spec (w_body w)) ++ w_body w).
Proof. reflexivity. Qed.

Theorem spec_decode_encode : forall w r, wf w -> spec_decode (spec_encode w ++ r) = Some (w, r).
Proof.
  intros w r W. pose proof W as W'. destruct W as [Hs Hf Hc Ha Hash Hd Hh Hl]. rewrite spec_encode_cons.
  set (tail := if w_ack w then [] else le_enc 2 (crc16_spec (w_body w)) ++ w_body w).
  cbn [app]. unfold spec_decode.
  change (222 =? 222) with true. change (173 =? 173) with true. change (6 =? 6) with true. cbn [andb].
  rewrite (le_enc2_val _ Hs).
  replace (crc8_spec [w_size w mod 256; (w_size w / 256) mod 256; 6; w_flags w] =? w_crc8 w) with true
    by (symmetry; apply N.eqb_eq; rewrite Hc; reflexivity).
  cbn [andb]. rewrite <- Ha.
  destruct (w_ack w) eqn:EA.
  - destruct (Hash eq_refl) as (S5 & HN & DN). rewrite S5. unfold tail. cbn [N.eqb Pos.eqb app].
    destruct w as [sz fl c8 ak hd dt]. cbn in *. subst. reflexivity.
  - specialize (Hl eq_refl). destruct (Hh eq_refl) as [Hh1 Hh2]. clear Hh.
    unfold tail. set (body := w_body w) in *.
    assert (Bok : bytes_ok body) by (apply w_body_ok; [exact W'|exact EA]).
    set (c := crc16_spec body).
    assert (Hc16 : c < 65536) by (apply crc16_spec_lt; exact Bok).
    assert (Elen : N.to_nat (w_size w - 5) = length (le_enc 2 c ++ body)).
    { rewrite app_length, le_enc_length. lia. }
    assert (Hmin : (w_size w <? (if fl_first (w_flags w) then 11 else 7)) = false).
    { apply N.ltb_ge. destruct (fl_first (w_flags w)) eqn:F; [|lia].
      destruct (proj1 Hh1 eq_refl) as (h & Eh & _). unfold body, w_body in Hl. rewrite Eh in Hl.
      rewrite app_length, le_enc_length in Hl. lia. }
    rewrite Hmin. cbn [orb].
    replace (N.of_nat (length ((le_enc 2 c ++ body) ++ r)) <? w_size w - 5) with false
      by (symmetry; apply N.ltb_ge; rewrite !app_length, le_enc_length; lia).
    rewrite Elen. rewrite firstn_app_exact, skipn_app_exact.
    rewrite firstn2_enc, !skipn2_enc.
    rewrite le_val_le_enc by exact Hc16. fold c. rewrite N.eqb_refl.
    destruct (fl_first (w_flags w)) eqn:F.
    + destruct (proj1 Hh1 eq_refl) as (h & Eh & Hh32). unfold body, w_body. rewrite Eh.
      rewrite firstn4_enc, skipn4_enc.
      rewrite le_val_le_enc by exact Hh32.
      destruct w as [sz fl c8 ak hd dt]. cbn in *. subst. reflexivity.
    + specialize (Hh2 eq_refl). unfold body, w_body. rewrite Hh2. cbn [app].
      destruct w as [sz fl c8 ak hd dt]. cbn in *. subst. reflexivity.
Qed.

Lemma crc8_spec_lt : forall l, bytes_ok l -> crc8_spec l < 256.
Proof. intros l H. rewrite <- crc8_code_eq_spec by exact H. apply crc8_lt. exact H. Qed.

Lemma wf_encode_ok : forall w, wf w -> bytes_ok (spec_encode w).
Proof.
  intros w W. pose proof W as W'. destruct W as [Hs Hf Hc Ha Hash Hd Hh Hl]. unfold spec_encode.
  assert (H4 : bytes_ok (le_enc 2 (w_size w) ++ [6; w_flags w])).
  { apply bytes_ok_app; [apply le_enc_bytes_ok|]. constructor; [lia|]. constructor; [exact Hf|constructor]. }
  apply bytes_ok_app; [constructor; [lia|]; constructor; [lia|constructor]|].
  apply bytes_ok_app; [apply le_enc_bytes_ok|].
  apply bytes_ok_app.
  - constructor; [lia|]. constructor; [exact Hf|]. constructor; [|constructor]. rewrite Hc. apply crc8_spec_lt. exact H4.
  - destruct (w_ack w) eqn:A; [constructor|]. fold (w_body w).
    apply bytes_ok_app; [apply le_enc_bytes_ok|]. apply w_body_ok; assumption.
Qed.

