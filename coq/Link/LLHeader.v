(* Canonical bit-field accessors of LLHeader (56 bits) and HLCommonHeader (32 bits), with the
   independence theorems (C05: changing one header field never alters another). *)
From Coq Require Import NArith Bool Lia List.
From ZB Require Import Base.Bits Base.Bytes.
Import ListNotations.
Open Scope N_scope.

(* field = (shift, width) *)
Inductive llfield := LSig | LSize | LType | LFlags | LCrc8.
Definition ll_sh (f : llfield) : N := match f with LSig => 0 | LSize => 16 | LType => 32 | LFlags => 40 | LCrc8 => 48 end.
Definition ll_w (f : llfield) : N := match f with LSig => 16 | LSize => 16 | LType => 8 | LFlags => 8 | LCrc8 => 8 end.
Definition ll_get (f : llfield) (h : N) : N := getf (ll_sh f) (ll_w f) h.
Definition ll_with (f : llfield) (h v : N) : N := setf 56 (ll_sh f) (ll_w f) h v.

Inductive hlfield := HVersion | HType | HId.
Definition hl_sh (f : hlfield) : N := match f with HVersion => 0 | HType => 8 | HId => 16 end.
Definition hl_w (f : hlfield) : N := match f with HVersion => 8 | HType => 8 | HId => 16 end.
Definition hl_get (f : hlfield) (h : N) : N := getf (hl_sh f) (hl_w f) h.
Definition hl_with (f : hlfield) (h v : N) : N := setf 32 (hl_sh f) (hl_w f) h v.

Theorem ll_get_with_same : forall f h v, ll_get f (ll_with f h v) = v mod 2 ^ ll_w f.
Proof. intros. unfold ll_get, ll_with. rewrite getf_setf_same. apply land_ones_mod. Qed.

Theorem ll_get_with_other : forall f g h v, f <> g -> h < 2 ^ 56 -> ll_get f (ll_with g h v) = ll_get f h.
Proof.
  intros f g h v Hne Hh. unfold ll_get, ll_with. apply getf_setf_other; [exact Hh|].
  destruct f, g; try (exfalso; apply Hne; reflexivity); cbn [ll_sh ll_w]; lia.
Qed.

Theorem ll_with_lt : forall f h v, ll_with f h v < 2 ^ 56.
Proof. intros. unfold ll_with. apply setf_lt. destruct f; cbn [ll_sh ll_w]; lia. Qed.

Theorem hl_get_with_same : forall f h v, hl_get f (hl_with f h v) = v mod 2 ^ hl_w f.
Proof. intros. unfold hl_get, hl_with. rewrite getf_setf_same. apply land_ones_mod. Qed.

Theorem hl_get_with_other : forall f g h v, f <> g -> h < 2 ^ 32 -> hl_get f (hl_with g h v) = hl_get f h.
Proof.
  intros f g h v Hne Hh. unfold hl_get, hl_with. apply getf_setf_other; [exact Hh|].
  destruct f, g; try (exfalso; apply Hne; reflexivity); cbn [hl_sh hl_w]; lia.
Qed.

Theorem hl_with_lt : forall f h v, hl_with f h v < 2 ^ 32.
Proof. intros. unfold hl_with. apply setf_lt. destruct f; cbn [hl_sh hl_w]; lia. Qed.

(* ------------------------------------------------------------------ *)
(* serialisation: uintN_t.serialize() = to_bytes(N/8, "little") = le_enc; byte k is bits [8k, 8k+8) *)

Lemma getf_0_8 : forall n, getf 0 8 n = n mod 256.
Proof. intros. unfold getf. rewrite N.shiftr_0_r. apply (N.land_ones n 8). Qed.

Lemma getf_div256 : forall sh n, getf (sh + 8) 8 n = getf sh 8 (n / 256).
Proof.
  intros. unfold getf. f_equal. change 256 with (2 ^ 8). rewrite <- N.shiftr_div_pow2, N.shiftr_shiftr.
  f_equal. lia.
Qed.

Lemma getf8 : forall k h, getf (8 * k) 8 h = (h / 256 ^ k) mod 256.
Proof.
  intros. unfold getf. rewrite N.shiftr_div_pow2, (N.land_ones _ 8). rewrite N.pow_mul_r. reflexivity.
Qed.

Lemma le_enc7_fields : forall h, le_enc 7 h =
  [getf 0 8 h; getf 8 8 h; getf 16 8 h; getf 24 8 h; getf 32 8 h; getf 40 8 h; getf 48 8 h].
Proof.
  intros h.
  change [getf 0 8 h; getf 8 8 h; getf 16 8 h; getf 24 8 h; getf 32 8 h; getf 40 8 h; getf 48 8 h]
    with [getf (8 * 0) 8 h; getf (8 * 1) 8 h; getf (8 * 2) 8 h; getf (8 * 3) 8 h; getf (8 * 4) 8 h;
          getf (8 * 5) 8 h; getf (8 * 6) 8 h].
  rewrite !getf8. cbn [le_enc]. rewrite !N.div_div by lia. rewrite N.div_1_r. reflexivity.
Qed.
Lemma le_enc4_fields : forall h, le_enc 4 h = [getf 0 8 h; getf 8 8 h; getf 16 8 h; getf 24 8 h].
Proof.
  intros h.
  change [getf 0 8 h; getf 8 8 h; getf 16 8 h; getf 24 8 h]
    with [getf (8 * 0) 8 h; getf (8 * 1) 8 h; getf (8 * 2) 8 h; getf (8 * 3) 8 h].
  rewrite !getf8. cbn [le_enc]. rewrite !N.div_div by lia. rewrite N.div_1_r. reflexivity.
Qed.

(* a sub-field of the field just written reads the corresponding bits of the written value *)
Lemma getf_setf_sub : forall total sh w x v a w', a + w' <= w ->
  getf (sh + a) w' (setf total sh w x v) = getf a w' v.
Proof.
  intros total sh w x v a w' H. apply N.bits_inj. intros n. rewrite !getf_testbit, setf_testbit.
  destruct (N.ltb_spec n w') as [Hw|Hw]; [|rewrite !andb_false_r; reflexivity]. rewrite !andb_true_r.
  replace (sh <=? n + (sh + a)) with true by (symmetry; apply N.leb_le; lia).
  replace (n + (sh + a) - sh) with (n + a) by lia.
  replace (n + a <? w) with true by (symmetry; apply N.ltb_lt; lia).
  cbn [andb negb]. rewrite !andb_false_r, andb_true_r. reflexivity.
Qed.

(* The header built field by field from 0, as every constructor in the code does
   (LLHeader().with_signature(..).with_size(..).with_type(..).with_flags(..)[.with_crc8(..)]). *)
Definition ll_make (sig size ty flags c8 : N) : N :=
  ll_with LCrc8 (ll_with LFlags (ll_with LType (ll_with LSize (ll_with LSig 0 sig) size) ty) flags) c8.

Ltac other := rewrite getf_setf_other by (first [apply setf_lt; lia | cbn; lia | lia]).

Theorem ll_make_bytes : forall sig size ty flags c8,
  le_enc 7 (ll_make sig size ty flags c8) = le_enc 2 sig ++ le_enc 2 size ++ [ty mod 256; flags mod 256; c8 mod 256].
Proof.
  intros. rewrite le_enc7_fields. unfold ll_make, ll_with. cbn [ll_sh ll_w le_enc app].
  assert (Z56 : 0 < 2 ^ 56) by (apply N.neq_0_lt_0, N.pow_nonzero; lia).
  f_equal; [|f_equal; [|f_equal; [|f_equal; [|f_equal; [|f_equal; [|f_equal]]]]]].
  - do 4 other. change 0 with (0 + 0) at 1. rewrite getf_setf_sub by lia. apply getf_0_8.
  - do 4 other. change 8 with (0 + 8) at 1. rewrite getf_setf_sub by lia.
    change 8 with (0 + 8) at 1. rewrite getf_div256. apply getf_0_8.
  - do 3 other. change 16 with (16 + 0) at 1. rewrite getf_setf_sub by lia. apply getf_0_8.
  - do 3 other. change 24 with (16 + 8) at 1. rewrite getf_setf_sub by lia.
    change 8 with (0 + 8) at 1. rewrite getf_div256. apply getf_0_8.
  - do 2 other. change 32 with (32 + 0) at 1. rewrite getf_setf_sub by lia. apply getf_0_8.
  - do 1 other. change 40 with (40 + 0) at 1. rewrite getf_setf_sub by lia. apply getf_0_8.
  - change 48 with (48 + 0) at 1. rewrite getf_setf_sub by lia. apply getf_0_8.
Qed.

(* re-stamping flags and crc8 of an already built header (uart._set_frame_flag / _ll_checksum) *)
Theorem ll_restamp_bytes : forall h flags c8, h < 2 ^ 56 ->
  le_enc 7 (ll_with LCrc8 (ll_with LFlags h flags) c8) =
  firstn 5 (le_enc 7 h) ++ [flags mod 256; c8 mod 256].
Proof.
  intros h flags c8 Hh. rewrite !le_enc7_fields. unfold ll_with. cbn [ll_sh ll_w firstn app].
  f_equal; [|f_equal; [|f_equal; [|f_equal; [|f_equal; [|f_equal; [|f_equal]]]]]].
  1-5: do 2 other; reflexivity.
  - do 1 other. change 40 with (40 + 0) at 1. rewrite getf_setf_sub by lia. apply getf_0_8.
  - change 48 with (48 + 0) at 1. rewrite getf_setf_sub by lia. apply getf_0_8.
Qed.

(* single-field updates at the byte level *)
Theorem ll_with_flags_bytes : forall h fl, h < 2 ^ 56 ->
  le_enc 7 (ll_with LFlags h fl) = firstn 5 (le_enc 7 h) ++ [fl mod 256] ++ skipn 6 (le_enc 7 h).
Proof.
  intros h fl Hh. rewrite !le_enc7_fields. unfold ll_with. cbn [ll_sh ll_w firstn skipn app].
  f_equal; [|f_equal; [|f_equal; [|f_equal; [|f_equal; [|f_equal; [|f_equal]]]]]].
  1-5: other; reflexivity.
  - change 40 with (40 + 0) at 1. rewrite getf_setf_sub by lia. apply getf_0_8.
  - other. reflexivity.
Qed.

Theorem ll_with_crc8_bytes : forall h c, h < 2 ^ 56 ->
  le_enc 7 (ll_with LCrc8 h c) = firstn 6 (le_enc 7 h) ++ [c mod 256].
Proof.
  intros h c Hh. rewrite !le_enc7_fields. unfold ll_with. cbn [ll_sh ll_w firstn skipn app].
  f_equal; [|f_equal; [|f_equal; [|f_equal; [|f_equal; [|f_equal; [|f_equal]]]]]].
  1-6: other; reflexivity.
  change 48 with (48 + 0) at 1. rewrite getf_setf_sub by lia. apply getf_0_8.
Qed.

Theorem ll_get_flags_byte : forall h, ll_get LFlags h = nth 5 (le_enc 7 h) 0.
Proof. intros h. rewrite le_enc7_fields. reflexivity. Qed.

Lemma ll_make_lt : forall sig size ty flags c8, ll_make sig size ty flags c8 < 2 ^ 56.
Proof. intros. unfold ll_make. apply ll_with_lt. Qed.
