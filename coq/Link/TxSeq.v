(* MODEL of the packet sequence numbering done by uart.py: send() stamps the current number,
   data_received() advances it on a matching ACK, close() resets it. *)
From Coq Require Import NArith List Bool.
From ZB Require Import Base.Bytes Link.LinkSpec Link.Frame Link.Rx gen.GenConsts.
Import ListNotations.
Open Scope N_scope.

Inductive tev :=
| TSend (f : frame)      (* uart.send(frame): stamp + write (transport present) *)
| TAck (n : N)           (* an ACK frame carrying ack sequence n is received *)
| TExpire                (* the ACK wait of the current send expires *)
| TDataIn (q : N)        (* a data frame with packet sequence q is received (ACK written back) *)
| TClose.                (* close() followed by a new connection *)

Definition tstep (s : N) (ev : tev) : N * list (list N) :=
  match ev with
  | TSend f => (s, [serialize (stamp s f)])
  | TAck n => ((if n =? s then next_seq s else s), [])
  | TExpire => (s, [])
  | TDataIn q => (s, [ack_bytes q])
  | TClose => (0, [])
  end.

Fixpoint trun (s : N) (evs : list tev) : N * list (list N) :=
  match evs with
  | [] => (s, [])
  | ev :: evs' => let '(s1, w1) := tstep s ev in let '(s2, w2) := trun s1 evs' in (s2, w1 ++ w2)
  end.

(* the ACK branch of data_received is this step *)
Lemma handle_frame_ack : forall h st f, w_ack f = true ->
  rx_pack_seq (fst (handle_frame h st f)) =
  fst (tstep (rx_pack_seq st) (TAck (N.shiftr (N.land (w_flags f) llflag_ACKSeq) 4))).
Proof.
  intros h st f Hf. unfold handle_frame. rewrite Hf. cbn [tstep fst].
  destruct (_ =? rx_pack_seq st); reflexivity.
Qed.
Lemma handle_frame_data : forall h st f, w_ack f = false -> rx_pack_seq (fst (handle_frame h st f)) = rx_pack_seq st.
Proof. intros h st f Hf. unfold handle_frame. rewrite Hf. reflexivity. Qed.
