(* MODEL of zigpy_zboss/frames.py (Frame, HLPacket, LLHeader use) and of the stamping done in
   uart.py (_set_frame_flag, _ll_checksum) and commands.py (CommandBase.to_frame). *)
From Coq Require Import NArith List Bool.
From ZB Require Import Base.Bytes Base.Bits Crc.CrcModel Link.LLHeader gen.GenConsts.
Import ListNotations.
Open Scope N_scope.

Record hlpacket := { hl_hdr : option N; hl_data : list N }.
Record frame := { fr_ll : N; fr_hl : option hlpacket }.

(* HLPacket.serialize: `if self.header:` - a header equal to 0 is falsy and is left out *)
Definition hl_body (p : hlpacket) : list N :=
  (match hl_hdr p with Some h => if h =? 0 then [] else le_enc 4 h | None => [] end) ++ hl_data p.
Definition hl_serialize (p : hlpacket) : list N := le_enc 2 (crc16 (hl_body p)) ++ hl_body p.

Definition serialize (f : frame) : list N :=
  le_enc 7 (fr_ll f) ++ match fr_hl f with None => [] | Some p => hl_serialize p end.

Definition fl_first_last : N := N.lor llflag_FirstFrag llflag_LastFrag.

(* LLHeader().with_signature(sig).with_size(sz).with_type(TYPE).with_flags(fl)   (crc8 field left 0) *)
Definition ll_build (size flags : N) : N := ll_make frame_signature size type_ncp_api_hl flags 0.

(* CommandBase.to_frame: HLPacket(header, data); size = hl_packet.length + 5 where
   length = uint16_t(len(serialize())) raises when it does not fit 16 bits *)
Definition to_frame (h : N) (d : list N) : option frame :=
  let p := {| hl_hdr := Some h; hl_data := d |} in
  let len := N.of_nat (length (hl_serialize p)) in
  if len <? 65536 then Some {| fr_ll := ll_build (len + 5) fl_first_last; fr_hl := Some p |} else None.

(* CRC8(ll_header.serialize()[2:6]).digest() *)
Definition ll_crc (h : N) : N := crc8 (firstn 4 (skipn 2 (le_enc 7 h))).

(* uart._set_frame_flag then uart._ll_checksum *)
Definition stamp (seq : N) (f : frame) : frame :=
  let h1 := ll_with LFlags (fr_ll f) (N.lor (N.shiftl seq 2) (ll_get LFlags (fr_ll f))) in
  {| fr_ll := ll_with LCrc8 h1 (ll_crc h1); fr_hl := fr_hl f |}.

(* Frame.ack(ack_seq, retransmit) *)
Definition ack_frame (seq : N) (retransmit : bool) : frame :=
  let fl0 := N.lor (N.shiftl seq 4) llflag_isACK in
  let fl := if retransmit then N.lor fl0 llflag_Retransmit else fl0 in
  let h := ll_build 5 fl in
  {| fr_ll := ll_with LCrc8 h (ll_crc h); fr_hl := None |}.
