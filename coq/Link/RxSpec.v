(* SPEC of serial receive decoding: the greedy left-to-right reading of a byte stream into
   well-formed frames.  Independent of the code: no resynchronisation search, no buffer, only
   the format decoder of LinkSpec.v (bitwise CRCs) applied position by position.

   At a position: a well-formed frame there is taken (and the reading continues after it);
   a header that passed its checksum, has the NCP type, is a data header of admissible size and
   whose declared extent is not yet complete makes the reading stop (wait for more bytes);
   otherwise the position is skipped.  Fewer than 7 remaining bytes: stop. *)
From Coq Require Import NArith List Bool Arith.
From ZB Require Import Base.Bytes Crc.CrcSpec Link.LinkSpec.
Import ListNotations.
Open Scope N_scope.

Definition waits (s : list N) : bool :=
  match s with
  | m0 :: m1 :: s0 :: s1 :: ty :: fl :: c8 :: rest =>
      (m0 =? 0xDE) && (m1 =? 0xAD) && (crc8_spec [s0; s1; ty; fl] =? c8) && (ty =? 6) &&
      negb (fl_is_ack fl) &&
      (let size := s0 + 256 * s1 in
       negb (size <? (if fl_first fl then 11 else 7)) && (N.of_nat (length s) <? size + 2))
  | _ => false
  end.

(* (offset, frame) pairs; [off] is the offset of s in the whole stream *)
Fixpoint spec_parse_at (fuel : nat) (off : nat) (s : list N) : list (nat * wframe) :=
  match fuel with
  | O => []
  | S fuel =>
      if (length s <? 7)%nat then [] else
      match spec_decode s with
      | Some (w, rest) => (off, w) :: spec_parse_at fuel (off + (length s - length rest)) rest
      | None => if waits s then [] else spec_parse_at fuel (S off) (tl s)
      end
  end.

Definition spec_parse_pos (s : list N) : list (nat * wframe) := spec_parse_at (S (length s)) 0 s.
Definition spec_parse (s : list N) : list wframe := map snd (spec_parse_pos s).

(* the spec of what the receiver writes and hands up for a list of parsed frames:
   each data frame: one ACK carrying its packet sequence number, then the delivery *)
Definition spec_ack_bytes (seq : N) : list N :=
  let fl := N.lor (N.shiftl seq 4) 1 in
  [0xDE; 0xAD; 5; 0; 6; fl; crc8_spec [5; 0; 6; fl]].
