(* MODEL of the receive path of uart.py: _extract_frame, _extract_frames (resync), data_received.
   Exceptions are explicit: XRaise models an exception other than InvalidFrame / BufferTooShort
   escaping _extract_frame (it would propagate out of data_received and leave the buffer as is). *)
From Coq Require Import NArith List Bool Arith.
From ZB Require Import Base.Bytes Crc.CrcModel Link.LinkSpec Link.Frame Link.Resync gen.GenConsts.
Import ListNotations.
Open Scope N_scope.

Inductive xout := XF (f : wframe) (n : nat) | XShort | XInv | XRaise.

Definition has_flag (fl m : N) : bool := negb (N.land fl m =? 0).

(* HLPacket.deserialize(payload): uint16 checksum, CRC16 check, 4-byte command header.
   None = ValueError (short data), Some None = InvalidFrame (checksum), Some (Some _) = ok *)
Definition hl_deserialize (body : list N) : option (option (N * list N)) :=
  match le_dec 2 body with
  | None => None
  | Some (check, data) =>
      if negb (check =? crc16 data) then Some None else
      match le_dec 4 data with
      | None => None
      | Some (h, payload) => Some (Some (h, payload))
      end
  end.

Definition extract_frame_x (b : list N) : xout :=
  match b with
  | m0 :: m1 :: s0 :: s1 :: ty :: fl :: c8 :: rest =>
      (* The buffer must start with a SoF *)
      if negb ((m0 =? sig0) && (m1 =? sig1)) then XInv else
      (* header checksum before the length is trusted *)
      if negb (crc8 [s0; s1; ty; fl] =? c8) then XInv else
      if negb (ty =? type_ncp_api_hl) then XInv else
      let size := s0 + 256 * s1 in
      if has_flag fl llflag_isACK then
        if size =? 5
        then XF {| w_size := size; w_flags := fl; w_crc8 := c8; w_ack := true; w_hdr := None; w_data := [] |} 7
        else XInv
      else
      if size <? (if has_flag fl llflag_FirstFrag then 11 else 7) then XInv else
      if N.of_nat (length b) <? size + 2 then XShort else
      let body := firstn (N.to_nat (size - 5)) rest in
      if has_flag fl llflag_FirstFrag then
        match hl_deserialize body with
        | None => XRaise
        | Some None => XInv
        | Some (Some (h, payload)) =>
            XF {| w_size := size; w_flags := fl; w_crc8 := c8; w_ack := false; w_hdr := Some h; w_data := payload |}
               (N.to_nat (size + 2))
        end
      else
        (* continuation fragment: body checksum verified and stripped by the extractor *)
        match le_dec 2 body with
        | None => XRaise
        | Some (check, data) =>
            if negb (check =? crc16 data) then XInv else
            XF {| w_size := size; w_flags := fl; w_crc8 := c8; w_ack := false; w_hdr := None; w_data := data |}
               (N.to_nat (size + 2))
        end
  | _ => XShort
  end.

(* _extract_frames: loop with resynchronisation; stops on BufferTooShort; an escaping exception
   aborts the whole data_received call *)
Fixpoint extract_frames_x (fuel : nat) (b : list N) : list wframe * list N * bool (* raised *) :=
  match fuel with
  | O => ([], b, false)
  | S fuel =>
      match extract_frame_x b with
      | XShort => ([], b, false)
      | XRaise => ([], b, true)
      | XInv => extract_frames_x fuel (resync b)
      | XF f n => let '(fs, r, x) := extract_frames_x fuel (skipn n b) in (f :: fs, r, x)
      end
  end.

(* the extractor as the generic resync theory sees it *)
Definition extract_frame (b : list N) : xres wframe :=
  match extract_frame_x b with
  | XF f n => XFrame wframe f n
  | XShort => XTooShort wframe
  | XInv | XRaise => XInvalid wframe
  end.

(* ---------------------------------------------------------------------- *)
(* data_received *)

Record rxstate := {
  rx_buf : list N;
  rx_pack_seq : N;
  rx_ack_event : option bool;   (* None: no send() yet, no event object; Some b: event, set or not *)
  rx_open : bool                (* transport present *)
}.

Inductive rxout :=
| OWrite (bytes : list N)       (* transport.write *)
| ODeliver (f : wframe)         (* api.frame_received(frame) *)
| OAckSet                       (* _ack_received_event.set() *).

Definition ack_bytes (seq : N) : list N := serialize (ack_frame seq false).

Definition next_seq (s : N) : N := s mod 3 + 1.

(* one extracted frame; [handler f] = true when the upper layer raises on f (caught and logged) *)
Definition handle_frame (handler : wframe -> bool) (st : rxstate) (f : wframe) : rxstate * list rxout :=
  if w_ack f then
    let aseq := N.shiftr (N.land (w_flags f) llflag_ACKSeq) 4 in
    if aseq =? rx_pack_seq st then
      ({| rx_buf := rx_buf st; rx_pack_seq := next_seq (rx_pack_seq st);
          rx_ack_event := match rx_ack_event st with Some _ => Some true | None => None end;
          rx_open := rx_open st |},
       match rx_ack_event st with Some _ => [OAckSet] | None => [] end)
    else (st, [])
  else
    let pseq := N.shiftr (N.land (w_flags f) llflag_PacketSeq) 2 in
    (st, (if rx_open st then [OWrite (ack_bytes pseq)] else []) ++ [ODeliver f]).

Fixpoint handle_frames (handler : wframe -> bool) (st : rxstate) (fs : list wframe) : rxstate * list rxout :=
  match fs with
  | [] => (st, [])
  | f :: fs' => let '(st1, o1) := handle_frame handler st f in
                let '(st2, o2) := handle_frames handler st1 fs' in (st2, o1 ++ o2)
  end.

(* returns (new state, outputs, raised) *)
Definition data_received (handler : wframe -> bool) (st : rxstate) (chunk : list N) : rxstate * list rxout * bool :=
  let b := rx_buf st ++ chunk in
  let '(fs, r, raised) := extract_frames_x (S (length b)) b in
  let st0 := {| rx_buf := r; rx_pack_seq := rx_pack_seq st; rx_ack_event := rx_ack_event st; rx_open := rx_open st |} in
  let '(st1, outs) := handle_frames handler st0 fs in
  (st1, outs, raised).
