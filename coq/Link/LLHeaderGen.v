(* Tie A(ii): the accessors translated from the source text (gen/GenBitfields.v) agree with the
   canonical accessors the theorems are about, for all arguments.  An accessor whose source shape
   the translator did not know is `None` here and is then covered by Tie B only. *)
From Coq Require Import NArith Bool Lia.
From ZB Require Import Base.Bits Link.LLHeader gen.GenBitfields.
Open Scope N_scope.

Definition agrees1 (g : option (N -> N)) (c : N -> N) : Prop :=
  match g with Some g => forall x, g x = c x | None => True end.
Definition agrees2 (g : option (N -> N -> N)) (c : N -> N -> N) : Prop :=
  match g with Some g => forall x v, g x v = c x v | None => True end.

Ltac norm := unfold agrees1, agrees2, ll_get, ll_with, hl_get, hl_with, getf, setf, fmask; cbn; first [exact I|idtac]; intros;
             rewrite ?N.shiftl_0_r, ?N.shiftr_0_r; try reflexivity.

Lemma gen_ll_get_signature : agrees1 ll_get_signature (ll_get LSig). Proof. norm. Qed.
Lemma gen_ll_get_size : agrees1 ll_get_size (ll_get LSize). Proof. norm. Qed.
Lemma gen_ll_get_type : agrees1 ll_get_frame_type (ll_get LType). Proof. norm. Qed.
Lemma gen_ll_get_flags : agrees1 ll_get_flags (ll_get LFlags). Proof. norm. Qed.
(* the code's crc8 getter has no mask: it equals the canonical one on 56-bit words *)
Lemma gen_ll_get_crc8 : match ll_get_crc8 with Some g => forall x, x < 2 ^ 56 -> g x = ll_get LCrc8 x | None => True end.
Proof.
  unfold ll_get_crc8.
  first [exact I
        |(intros x Hx; unfold ll_get, getf; cbn [ll_sh ll_w]; rewrite (N.land_ones _ 8); symmetry; apply N.mod_small;
          rewrite N.shiftr_div_pow2; apply N.div_lt_upper_bound; [discriminate|exact Hx])].
Qed.
Lemma gen_ll_with_signature : agrees2 ll_with_signature (ll_with LSig). Proof. norm. Qed.
Lemma gen_ll_with_size : agrees2 ll_with_size (ll_with LSize). Proof. norm. Qed.
Lemma gen_ll_with_type : agrees2 ll_with_type (ll_with LType). Proof. norm. Qed.
Lemma gen_ll_with_flags : agrees2 ll_with_flags (ll_with LFlags). Proof. norm. Qed.
Lemma gen_ll_with_crc8 : agrees2 ll_with_crc8 (ll_with LCrc8). Proof. norm. Qed.

Lemma land_shiftr_mask : forall x sh w, N.shiftr (N.land x (N.shiftl (N.ones w) sh)) sh = N.land (N.shiftr x sh) (N.ones w).
Proof.
  intros. apply N.bits_inj. intros n. rewrite N.shiftr_spec', !N.land_spec, N.shiftr_spec', shiftl_testbit.
  replace (sh <=? n + sh) with true by (symmetry; apply N.leb_le; lia). replace (n + sh - sh) with n by lia.
  reflexivity.
Qed.

Lemma gen_hl_get_version : agrees1 hl_get_version (hl_get HVersion). Proof. norm. Qed.
Lemma gen_hl_get_type : agrees1 hl_get_control_type (hl_get HType).
Proof. unfold hl_get_control_type, agrees1, hl_get, getf; first [exact I|idtac]; cbn [hl_sh hl_w]; intros x; change 65280 with (N.shiftl (N.ones 8) 8); apply land_shiftr_mask. Qed.
Lemma gen_hl_get_id : agrees1 hl_get_id (hl_get HId).
Proof. unfold hl_get_id, agrees1, hl_get, getf; first [exact I|idtac]; cbn [hl_sh hl_w]; intros x; change 4294901760 with (N.shiftl (N.ones 16) 16); apply land_shiftr_mask. Qed.
Lemma gen_hl_with_version : agrees2 hl_with_version (hl_with HVersion). Proof. norm. Qed.
Lemma gen_hl_with_type : agrees2 hl_with_type (hl_with HType). Proof. norm. Qed.
(* the code's with_id masks with 0xFFFF only: equal to the canonical setter on 32-bit words *)
Lemma gen_hl_with_id : agrees2 hl_with_id (hl_with HId). Proof. norm. Qed.
