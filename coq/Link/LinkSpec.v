(* SPEC of the ZBOSS NCP link format, independent of the repository's code: a frame decoder
   written from the format description, with the bitwise CRCs of Crc/CrcSpec.v.

     DE AD | size lo hi | type = 06 | flags | crc8(size,type,flags) | [ crc16(body) lo hi | body ]
     size  = number of bytes that follow the marker  (5 for an ACK; 7 + |body| for a data frame)
     flags = bit0 isACK, bit1 retransmit, bits2-3 packet seq, bits4-5 ack seq, bit6 first, bit7 last
     body of a first fragment = 4-byte command header (little-endian) ++ payload              *)
From Coq Require Import NArith List Bool.
From ZB Require Import Base.Bytes Crc.CrcSpec.
Import ListNotations.
Open Scope N_scope.

Record wframe := {
  w_size : N; w_flags : N; w_crc8 : N;
  w_ack : bool;                 (* acknowledgement frame: no body *)
  w_hdr : option N;             (* command header, present iff first-fragment flag *)
  w_data : list N               (* body bytes after the command header (if any) *)
}.

Definition fl_is_ack (fl : N) : bool := N.testbit fl 0.
Definition fl_first (fl : N) : bool := N.testbit fl 6.
Definition fl_last (fl : N) : bool := N.testbit fl 7.
Definition fl_pseq (fl : N) : N := N.land (N.shiftr fl 2) 3.
Definition fl_aseq (fl : N) : N := N.land (N.shiftr fl 4) 3.

(* header of a frame at the start of b: marker, type and header checksum hold *)
Definition claims (b : list N) : option (N * N) :=   (* Some (size, flags) *)
  match b with
  | m0 :: m1 :: s0 :: s1 :: ty :: fl :: c8 :: _ =>
      if (m0 =? 0xDE) && (m1 =? 0xAD) && (crc8_spec [s0; s1; ty; fl] =? c8)
      then Some (s0 + 256 * s1, fl) else None
  | _ => None
  end.

Definition spec_decode (b : list N) : option (wframe * list N) :=
  match b with
  | m0 :: m1 :: s0 :: s1 :: ty :: fl :: c8 :: rest =>
      if (m0 =? 0xDE) && (m1 =? 0xAD) && (crc8_spec [s0; s1; ty; fl] =? c8) && (ty =? 6) then
        let size := s0 + 256 * s1 in
        if fl_is_ack fl then
          if size =? 5
          then Some ({| w_size := size; w_flags := fl; w_crc8 := c8; w_ack := true; w_hdr := None; w_data := [] |}, rest)
          else None
        else
          if (size <? (if fl_first fl then 11 else 7)) || (N.of_nat (length rest) <? size - 5) then None else
          let body := firstn (N.to_nat (size - 5)) rest in
          let payload := skipn 2 body in
          if le_val (firstn 2 body) =? crc16_spec payload then
            let after := skipn (N.to_nat (size - 5)) rest in
            if fl_first fl
            then Some ({| w_size := size; w_flags := fl; w_crc8 := c8; w_ack := false;
                          w_hdr := Some (le_val (firstn 4 payload)); w_data := skipn 4 payload |}, after)
            else Some ({| w_size := size; w_flags := fl; w_crc8 := c8; w_ack := false;
                          w_hdr := None; w_data := payload |}, after)
          else None
      else None
  | _ => None
  end.

(* the bytes of a frame, written from the format (for well-formed field values) *)
Definition spec_encode (w : wframe) : list N :=
  [0xDE; 0xAD] ++ le_enc 2 (w_size w) ++ [6; w_flags w; w_crc8 w] ++
  (if w_ack w then [] else
     let body := (match w_hdr w with Some h => le_enc 4 h | None => [] end) ++ w_data w in
     le_enc 2 (crc16_spec body) ++ body).
