(* MODEL of uart.send with concurrent callers (the _tx_lock, the ACK wait) and the ACK branch of
   data_received: an event-driven state machine run to quiescence after each event. *)
From Coq Require Import NArith List Bool Arith.
From ZB Require Import gen.GenConsts.
Import ListNotations.
Open Scope N_scope.

Inductive tobs :=
| TW (tag : nat) (seq : N)      (* data frame of sender tag written, stamped seq *)
| TEnd (tag : nat) (why : nat)  (* sender tag is over: 0 acked, 1 expired, 2 cancelled in its wait, 3 not written (no transport),
                                   4 cancelled while still queued for the lock *)
| TCall (tag : nat)             (* send() called *)
| TK (seq : N).                 (* ACK written for incoming data *)

Record tstate := {
  t_now : N; t_queue : list nat;                 (* callers waiting for the transmit lock, FIFO *)
  t_holder : option (nat * N);                   (* sender in its ACK wait, with its deadline *)
  t_seq : N; t_owner : option nat;               (* packet sequence; whose event an ACK sets *)
  t_open : bool; t_rx : N; t_log : list tobs     (* newest first *)
}.
Definition tinit : tstate :=
  {| t_now := 0; t_queue := []; t_holder := None; t_seq := 0; t_owner := None; t_open := true; t_rx := 0; t_log := [] |}.

Inductive tevent := TSendE (tag : nat) | TAckE (n : N) | TTickE (dt : N) | TCancelE (tag : nat) | TDataE | TCloseE.

Definition tnext (s : N) : N := s mod 3 + 1.

Definition mk (now : N) (q : list nat) (h : option (nat * N)) (sq : N) (ow : option nat) (op : bool) (rx : N) (l : list tobs) :=
  {| t_now := now; t_queue := q; t_holder := h; t_seq := sq; t_owner := ow; t_open := op; t_rx := rx; t_log := l |}.

(* the lock is free: serve queued callers until one is left waiting for its ACK *)
Fixpoint serve (fuel : nat) (s : tstate) : tstate :=
  match fuel with
  | O => s
  | S fuel =>
      match t_holder s, t_queue s with
      | None, tag :: q =>
          if t_open s then
            mk (t_now s) q (Some (tag, t_now s + ack_timeout_ms)) (t_seq s) (Some tag) true (t_rx s) (TW tag (t_seq s) :: t_log s)
          else
            (* no transport: nothing written, nothing awaited *)
            serve fuel (mk (t_now s) q None (t_seq s) (t_owner s) false (t_rx s) (TEnd tag 3 :: t_log s))
      | _, _ => s
      end
  end.
Definition tsettle (s : tstate) : tstate := serve (S (length (t_queue s))) s.

Definition end_wait (s : tstate) (why : nat) : tstate :=
  match t_holder s with
  | Some (tag, _) => tsettle (mk (t_now s) (t_queue s) None (t_seq s) (t_owner s) (t_open s) (t_rx s) (TEnd tag why :: t_log s))
  | None => s
  end.

Fixpoint ttick (fuel : nat) (s : tstate) (target : N) : tstate :=
  match fuel with
  | O => mk target (t_queue s) (t_holder s) (t_seq s) (t_owner s) (t_open s) (t_rx s) (t_log s)
  | S fuel =>
      match t_holder s with
      | Some (tag, d) =>
          if d <=? target
          then ttick fuel (end_wait (mk (N.max d (t_now s)) (t_queue s) (t_holder s) (t_seq s) (t_owner s) (t_open s) (t_rx s) (t_log s)) 1) target
          else mk target (t_queue s) (t_holder s) (t_seq s) (t_owner s) (t_open s) (t_rx s) (t_log s)
      | None => mk target (t_queue s) (t_holder s) (t_seq s) (t_owner s) (t_open s) (t_rx s) (t_log s)
      end
  end.

(* cancelling a caller that still waits for the lock: it leaves the queue *)
Definition drop (s : tstate) (tag : nat) : tstate :=
  if existsb (fun x => (x =? tag)%nat) (t_queue s)
  then mk (t_now s) (filter (fun x => negb (x =? tag)%nat) (t_queue s)) (t_holder s) (t_seq s) (t_owner s) (t_open s) (t_rx s)
          (TEnd tag 4 :: t_log s)
  else s.

Definition tstep (s : tstate) (e : tevent) : tstate :=
  match e with
  | TSendE tag =>
      tsettle (mk (t_now s) (t_queue s ++ [tag]) (t_holder s) (t_seq s) (t_owner s) (t_open s) (t_rx s) (TCall tag :: t_log s))
  | TAckE n =>
      if n =? t_seq s then
        let s1 := mk (t_now s) (t_queue s) (t_holder s) (tnext (t_seq s)) (t_owner s) (t_open s) (t_rx s) (t_log s) in
        match t_holder s, t_owner s with
        | Some (tag, _), Some o => if (tag =? o)%nat then end_wait s1 0 else s1
        | _, _ => s1
        end
      else s
  | TTickE dt => ttick (2 + length (t_queue s)) s (t_now s + dt)
  | TCancelE tag =>
      match t_holder s with
      | Some (h, _) => if (h =? tag)%nat then end_wait s 2 else drop s tag
      | None => drop s tag
      end
  | TDataE =>
      let q := tnext (t_rx s) in
      mk (t_now s) (t_queue s) (t_holder s) (t_seq s) (t_owner s) (t_open s) q (if t_open s then TK q :: t_log s else t_log s)
  | TCloseE => mk (t_now s) (t_queue s) (t_holder s) 0 (t_owner s) false (t_rx s) (t_log s)
  end.

Definition trun_events (evs : list tevent) : tstate := fold_left tstep evs tinit.
Definition tstep_obs (s : tstate) (e : tevent) : tstate * list tobs :=
  let s' := tstep s e in (s', rev (firstn (length (t_log s') - length (t_log s)) (t_log s'))).
