(* C09: outgoing fragmentation partitions any message exactly, within the size limit. *)
From Coq Require Import NArith ZArith List Bool Lia Arith ZifyNat ZifyN ZifyBool.
From ZB Require Import Base.Bytes Base.Bits Crc.CrcSpec Crc.CrcModel Crc.CrcProofs Link.LLHeader Link.LinkSpec Link.LinkSpecProofs
  Link.Frame Link.Frag Link.FrameProofs gen.GenConsts.
Import ListNotations.
Ltac Zify.zify_post_hook ::= Z.div_mod_to_equations.
Open Scope nat_scope.

Lemma MAXB_val : MAXB = 247.
Proof. reflexivity. Qed.

(* ---------------------------------------------------------------------- *)
(* chunks: a partition into MAX-sized pieces, the last one takes the remainder *)

Lemma chunks_concat : forall fuel l, concat (chunks fuel l) = l.
Proof.
  induction fuel as [|fuel IH]; intros l; cbn [chunks]; [cbn; apply app_nil_r|].
  destruct (length l <=? MAXB); [cbn; apply app_nil_r|]. cbn [concat]. rewrite IH. apply firstn_skipn.
Qed.

Lemma chunks_sizes : forall fuel l, length l <= fuel -> 0 < length l ->
  Forall (fun c => 0 < length c <= MAXB) (chunks fuel l).
Proof.
  induction fuel as [|fuel IH]; intros l Hf Hl; [lia|]. cbn [chunks].
  destruct (Nat.leb_spec (length l) MAXB) as [Hle|Hgt].
  - constructor; [lia|constructor].
  - constructor.
    + rewrite firstn_length. rewrite MAXB_val in *. lia.
    + apply IH; rewrite skipn_length; rewrite MAXB_val in *; lia.
Qed.

Lemma chunks_count : forall fuel l, length l <= fuel -> 0 < length l ->
  length (chunks fuel l) = (length l + (MAXB - 1)) / MAXB.
Proof.
  induction fuel as [|fuel IH]; intros l Hf Hl; [lia|]. cbn [chunks].
  destruct (Nat.leb_spec (length l) MAXB) as [Hle|Hgt].
  - cbn [length]. rewrite MAXB_val in *. lia.
  - cbn [length]. rewrite IH by (rewrite skipn_length; rewrite MAXB_val in *; lia).
    rewrite skipn_length. rewrite MAXB_val in *. lia.
Qed.

Lemma chunks_nonempty : forall fuel l, chunks fuel l <> [].
Proof. intros [|fuel] l; cbn [chunks]; [discriminate|]. destruct (length l <=? MAXB); discriminate. Qed.

(* ---------------------------------------------------------------------- *)
(* the fragment list as labelled pieces of the message *)

Fixpoint label_rest (cs : list (list N)) : list (N * list N) :=
  match cs with
  | [] => []
  | [c] => [(llflag_LastFrag, c)]
  | c :: cs' => (0%N, c) :: label_rest cs'
  end.

Definition spec_fragments (ser : list N) : list (N * list N) :=
  let total := length ser in
  let fs := first_size total in
  (llflag_FirstFrag, firstn fs ser) :: label_rest (chunks total (skipn fs ser)).

Definition frame_of_piece (h : N) (p : N * list N) : frame :=
  let '(fl, piece) := p in
  if (fl =? llflag_FirstFrag)%N then mk_frag fl (Some h) (skipn 4 piece) (length piece)
  else mk_frag fl None piece (length piece).

Lemma mk_rest_label : forall h cs, mk_rest cs = map (frame_of_piece h) (label_rest cs).
Proof.
  intros h. induction cs as [|c cs IH]; [reflexivity|]. destruct cs as [|c' cs'].
  - reflexivity.
  - change (mk_rest (c :: c' :: cs')) with (mk_frag 0 None c (length c) :: mk_rest (c' :: cs')).
    change (label_rest (c :: c' :: cs')) with ((0%N, c) :: label_rest (c' :: cs')).
    cbn [map]. rewrite IH. reflexivity.
Qed.

Lemma first_size_bounds : forall total, MAXB < total -> 4 <= first_size total <= MAXB /\ first_size total < total.
Proof. intros total H. unfold first_size. rewrite MAXB_val in *. destruct (Nat.eqb_spec (total mod 247) 0); lia. Qed.

Theorem tx_fragment_spec : forall h d F, to_frame h d = Some F -> h <> 0%N ->
  let ser := le_enc 4 h ++ d in
  (length ser <= MAXB -> tx_fragment F = [F]) /\
  (MAXB < length ser -> tx_fragment F = map (frame_of_piece h) (spec_fragments ser)).
Proof.
  intros h d F HF Hn ser.
  unfold to_frame in HF. cbv zeta in HF.
  set (len := N.of_nat (length (hl_serialize {| hl_hdr := Some h; hl_data := d |}))) in *.
  destruct (len <? 65536)%N; [|discriminate].
  assert (EF : F = {| fr_ll := ll_build (len + 5) fl_first_last; fr_hl := Some {| hl_hdr := Some h; hl_data := d |} |}) by congruence.
  subst F. clear HF.
  assert (Hbody : hl_body {| hl_hdr := Some h; hl_data := d |} = ser).
  { unfold hl_body. cbn [hl_hdr hl_data]. replace (h =? 0)%N with false by (symmetry; apply N.eqb_neq; exact Hn). reflexivity. }
  unfold tx_fragment. cbn [fr_hl]. rewrite Hbody. unfold count_fragments_n.
  split; intros Hlen.
  - replace ((length ser + (MAXB - 1)) / MAXB <=? 1) with true; [reflexivity|].
    symmetry. apply Nat.leb_le. rewrite MAXB_val in *. lia.
  - replace ((length ser + (MAXB - 1)) / MAXB <=? 1) with false
      by (symmetry; apply Nat.leb_gt; rewrite MAXB_val in *; lia).
    destruct (first_size_bounds _ Hlen) as ((A & B) & C).
    unfold spec_fragments. cbn [map frame_of_piece hl_hdr hl_data]. rewrite N.eqb_refl.
    rewrite (mk_rest_label h). f_equal.
    rewrite firstn_length, Nat.min_l by lia.
    replace (skipn 4 (firstn (first_size (length ser)) ser)) with (firstn (first_size (length ser) - 4) d); [reflexivity|].
    set (k := first_size (length ser)) in *. unfold ser.
    replace k with (length (le_enc 4 h) + (k - 4)) at 2 by (rewrite le_enc_length; lia).
    rewrite firstn_app_2. change 4 with (length (le_enc 4 h)) at 2. rewrite skipn_app_exact. reflexivity.
Qed.

(* ---------------------------------------------------------------------- *)
(* properties of the labelled pieces *)

Lemma label_rest_snd : forall cs, map snd (label_rest cs) = cs.
Proof.
  induction cs as [|c cs IH]; [reflexivity|]. destruct cs as [|c' cs']; [reflexivity|].
  change (label_rest (c :: c' :: cs')) with ((0%N, c) :: label_rest (c' :: cs')). cbn [map snd]. rewrite IH. reflexivity.
Qed.

Lemma label_rest_fst : forall cs, cs <> [] -> map fst (label_rest cs) = repeat 0%N (length cs - 1) ++ [llflag_LastFrag].
Proof.
  induction cs as [|c cs IH]; intros H; [congruence|]. destruct cs as [|c' cs']; [reflexivity|].
  change (label_rest (c :: c' :: cs')) with ((0%N, c) :: label_rest (c' :: cs')). cbn [map fst].
  rewrite IH by discriminate. cbn [length]. replace (S (S (length cs')) - 1) with (S (S (length cs') - 1)) by lia. reflexivity.
Qed.

Theorem pieces_concat : forall ser, concat (map snd (spec_fragments ser)) = ser.
Proof.
  intros ser. unfold spec_fragments. cbn [map snd concat]. rewrite label_rest_snd, chunks_concat. apply firstn_skipn.
Qed.

Theorem pieces_sizes : forall ser, MAXB < length ser ->
  Forall (fun p => 0 < length (snd p) <= MAXB) (spec_fragments ser).
Proof.
  intros ser H. destruct (first_size_bounds _ H) as ((A & B) & C). unfold spec_fragments. constructor.
  - cbn [snd]. rewrite firstn_length. lia.
  - assert (S : Forall (fun c => 0 < length c <= MAXB) (chunks (length ser) (skipn (first_size (length ser)) ser)))
      by (apply chunks_sizes; rewrite skipn_length; lia).
    rewrite <- (label_rest_snd (chunks _ _)) in S. rewrite Forall_map in S. exact S.
Qed.

Theorem pieces_count : forall ser, MAXB < length ser ->
  length (spec_fragments ser) = (length ser + (MAXB - 1)) / MAXB.
Proof.
  intros ser H. destruct (first_size_bounds _ H) as ((A & B) & C). unfold spec_fragments. cbn [length].
  rewrite <- (map_length snd), label_rest_snd.
  rewrite chunks_count by (rewrite skipn_length; lia). rewrite skipn_length.
  unfold first_size in *. rewrite MAXB_val in *. destruct (Nat.eqb_spec (length ser mod 247) 0); lia.
Qed.

(* exactly the first piece is flagged first, exactly the last is flagged last *)
Theorem pieces_flags : forall ser, MAXB < length ser ->
  map fst (spec_fragments ser) =
  llflag_FirstFrag :: repeat 0%N (length (spec_fragments ser) - 2) ++ [llflag_LastFrag].
Proof.
  intros ser H. unfold spec_fragments. cbn [map fst length]. f_equal.
  rewrite label_rest_fst by apply chunks_nonempty. rewrite <- (map_length snd (label_rest _)), label_rest_snd.
  reflexivity.
Qed.

(* the frame built for a piece carries exactly that piece as its body, with a matching length field *)
Lemma first_piece_prefix : forall h d, MAXB < length (le_enc 4 h ++ d) ->
  firstn 4 (firstn (first_size (length (le_enc 4 h ++ d))) (le_enc 4 h ++ d)) = le_enc 4 h.
Proof.
  intros h d H. destruct (first_size_bounds _ H) as ((A & B) & C). rewrite firstn_firstn, Nat.min_l by lia. reflexivity.
Qed.

Theorem piece_frame_body : forall h fl piece, h <> 0%N ->
  (fl = llflag_FirstFrag -> firstn 4 piece = le_enc 4 h /\ 4 <= length piece) ->
  frag_body (frame_of_piece h (fl, piece)) = piece.
Proof.
  intros h fl piece Hn Hf. unfold frame_of_piece, frag_body.
  destruct (N.eqb_spec fl llflag_FirstFrag) as [E|E].
  - destruct (Hf E) as [P L]. cbn [mk_frag fr_hl]. unfold hl_body. cbn [hl_hdr hl_data].
    replace (h =? 0)%N with false by (symmetry; apply N.eqb_neq; exact Hn). rewrite <- P. apply firstn_skipn.
  - reflexivity.
Qed.

Lemma label_rest_in : forall cs fl piece, In (fl, piece) (label_rest cs) -> (fl = 0%N \/ fl = llflag_LastFrag) /\ In piece cs.
Proof.
  induction cs as [|c cs IH]; intros fl piece H; [destruct H|]. destruct cs as [|c' cs'].
  - destruct H as [H|[]]. inversion H; subst. split; [right; reflexivity|left; reflexivity].
  - change (label_rest (c :: c' :: cs')) with ((0%N, c) :: label_rest (c' :: cs')) in H. destruct H as [H|H].
    + inversion H; subst. split; [left; reflexivity|left; reflexivity].
    + destruct (IH _ _ H) as [A B]. split; [exact A|right; exact B].
Qed.

Lemma bytes_ok_concat_in : forall cs c, bytes_ok (concat cs) -> In c cs -> bytes_ok c.
Proof.
  induction cs as [|x cs IH]; intros c H Hin; [destruct Hin|]. cbn [concat] in H. apply bytes_ok_app_iff in H.
  destruct H as [A B]. destruct Hin as [->|Hin]; [exact A|apply IH; assumption].
Qed.

(* every fragment, stamped with any packet sequence number, is the spec encoding of a well-formed
   frame whose body is exactly its piece of the message and whose flags say first / last correctly *)
Theorem fragment_frames_wellformed : forall h d seq p, h <> 0%N -> (h < 2 ^ 32)%N -> bytes_ok d -> (seq < 4)%N ->
  let ser := le_enc 4 h ++ d in
  MAXB < length ser -> In p (spec_fragments ser) ->
  exists w, serialize (stamp seq (frame_of_piece h p)) = spec_encode w /\ wf w /\ w_ack w = false /\
    w_body w = snd p /\ w_size w = (N.of_nat (length (snd p)) + 7)%N /\
    fl_first (w_flags w) = (fst p =? llflag_FirstFrag)%N /\ fl_last (w_flags w) = (fst p =? llflag_LastFrag)%N /\
    fl_pseq (w_flags w) = seq.
Proof.
  intros h d seq p Hn Hh Hd Hseq ser Hlen Hin.
  assert (Sok : bytes_ok ser) by (apply bytes_ok_app; [apply le_enc_bytes_ok|exact Hd]).
  pose proof (pieces_sizes ser Hlen) as PS. rewrite Forall_forall in PS. specialize (PS p Hin).
  destruct (first_size_bounds _ Hlen) as ((A & B) & C).
  destruct p as [fl piece]. cbn [fst snd] in *. rewrite MAXB_val in *.
  unfold spec_fragments in Hin. destruct Hin as [Hin|Hin].
  - (* first piece *)
    assert (Efl : fl = llflag_FirstFrag) by congruence.
    assert (Epc : piece = firstn (first_size (length ser)) ser) by congruence.
    subst fl. clear Hin. rewrite Epc in *. clear Epc piece.
    set (piece := firstn (first_size (length ser)) ser) in *.
    assert (Pok : bytes_ok piece) by (apply bytes_ok_firstn; exact Sok).
    assert (P4 : firstn 4 piece = le_enc 4 h) by (apply first_piece_prefix; rewrite MAXB_val; exact Hlen).
    assert (L4 : 4 <= length piece) by (unfold piece; rewrite firstn_length; lia).
    assert (Hbody : hl_body {| hl_hdr := Some h; hl_data := skipn 4 piece |} = piece).
    { unfold hl_body. cbn [hl_hdr hl_data]. replace (h =? 0)%N with false by (symmetry; apply N.eqb_neq; exact Hn).
      rewrite <- P4. apply firstn_skipn. }
    assert (Hsz1 : (N.of_nat (length piece) + 7 = 7 + N.of_nat (length (hl_body {| hl_hdr := Some h; hl_data := skipn 4 piece |})))%N)
      by (rewrite Hbody; lia).
    assert (Hsz2 : (N.of_nat (length piece) + 7 < 65536)%N) by lia.
    destruct (stamped_data_frame seq 64 (Some h) (skipn 4 piece) (N.of_nat (length piece) + 7) Hseq
                ltac:(right; left; reflexivity) (bytes_ok_skipn 4 _ Pok)
                ltac:(intros _; exists h; auto) ltac:(intros F; discriminate F) Hsz1 Hsz2) as [E W].
    eexists. split; [exact E|]. split; [exact W|].
    destruct (stamped_flags seq 64 Hseq ltac:(right; left; reflexivity)) as (_ & _ & _ & F1 & F2 & F3).
    cbn [mk_w w_ack w_size w_flags]. split; [reflexivity|]. split.
    { rewrite <- (hl_body_w_body (Some h) (skipn 4 piece) (N.of_nat (length piece) + 7) (N.lor (N.shiftl seq 2) 64)).
      - exact Hbody.
      - intros h' Eh. injection Eh as <-. exact Hn. }
    split; [reflexivity|]. split; [rewrite F1; reflexivity|]. split; [rewrite F2; reflexivity|exact F3].
  - (* later pieces *)
    destruct (label_rest_in _ _ _ Hin) as [Hfl Hpc].
    assert (Pok : bytes_ok piece).
    { apply (bytes_ok_concat_in (chunks (length ser) (skipn (first_size (length ser)) ser))); [|exact Hpc].
      rewrite chunks_concat. apply bytes_ok_skipn. exact Sok. }
    assert (Hne : (fl =? llflag_FirstFrag)%N = false) by (destruct Hfl as [-> | ->]; reflexivity).
    unfold frame_of_piece. rewrite Hne. unfold mk_frag.
    assert (Hfl' : data_flags_ok fl) by (destruct Hfl as [-> | ->]; [left|right; right; left]; reflexivity).
    assert (Hff : fl_first fl = false) by (destruct Hfl as [-> | ->]; reflexivity).
    assert (Hsz1 : (N.of_nat (length piece) + 7 = 7 + N.of_nat (length (hl_body {| hl_hdr := None; hl_data := piece |})))%N)
      by (unfold hl_body; cbn [hl_hdr hl_data app]; lia).
    assert (Hsz2 : (N.of_nat (length piece) + 7 < 65536)%N) by lia.
    destruct (stamped_data_frame seq fl None piece (N.of_nat (length piece) + 7) Hseq Hfl' Pok
                ltac:(intros F; rewrite Hff in F; discriminate F) ltac:(intros _; reflexivity) Hsz1 Hsz2) as [E W].
    eexists. split; [exact E|]. split; [exact W|].
    destruct (stamped_flags seq fl Hseq Hfl') as (_ & _ & _ & F1 & F2 & F3).
    cbn [mk_w w_ack w_size w_flags]. split; [reflexivity|]. split; [reflexivity|]. split; [reflexivity|].
    split; [rewrite F1, Hff; reflexivity|]. split; [|exact F3].
    rewrite F2. destruct Hfl as [-> | ->]; reflexivity.
Qed.
