(* MODEL of the receive-side reassembly: api.frame_received's fragment buffer and
   Frame.handle_rx_fragmentation. *)
From Coq Require Import NArith List Bool.
From ZB Require Import Base.Bytes Link.LinkSpec Link.Frame.
Import ListNotations.
Open Scope N_scope.

(* frag.hl_packet.serialize()[2:] of a received frame: header bytes (if present and non-zero) then data *)
Definition rx_body (w : wframe) : list N :=
  hl_body {| hl_hdr := w_hdr w; hl_data := w_data w |}.

Inductive rmsg :=
| RMsg (hdr : N) (data : list N)      (* a complete message: command header + parameter bytes *)
| RNoHeader (data : list N)           (* a last-flagged frame with nothing pending and no command header: dropped as unknown *)
| RShort.                             (* merged body shorter than a command header: ValueError out of frame_received *)

(* one data frame handed to the API; pending = bodies of the fragments buffered so far *)
Definition reasm_step (pending : list (list N)) (w : wframe) : list (list N) * option rmsg :=
  let pending := if fl_first (w_flags w) then [] else pending in      (* a first-flagged frame starts afresh *)
  if negb (fl_last (w_flags w)) then (pending ++ [rx_body w], None)
  else match pending with
       | [] => ([], Some (match w_hdr w with Some h => RMsg h (w_data w) | None => RNoHeader (w_data w) end))
       | _ => let merged := concat (pending ++ [rx_body w]) in
              ([], Some (match le_dec 4 merged with Some (h, d) => RMsg h d | None => RShort end))
       end.

Fixpoint reasm_run (pending : list (list N)) (ws : list wframe) : list (list N) * list rmsg :=
  match ws with
  | [] => (pending, [])
  | w :: ws' => let '(p1, o) := reasm_step pending w in
                let '(p2, os) := reasm_run p1 ws' in
                (p2, match o with Some m => m :: os | None => os end)
  end.
