(* Proofs about the checksum model: table-driven = bitwise spec, incremental law,
   linear difference automaton, error detection. *)
From Coq Require Import NArith List Bool Lia Arith.
From ZB Require Import Base.Bytes gen.GenCrcTables Crc.CrcSpec Crc.CrcModel.
Import ListNotations.
Open Scope N_scope.

(* ------------------------------------------------------------------ *)
(* bit-level facts *)

Lemma lxor_swap4 : forall a b c d, N.lxor (N.lxor a b) (N.lxor c d) = N.lxor (N.lxor a c) (N.lxor b d).
Proof.
  intros. rewrite !N.lxor_assoc. f_equal. rewrite <- !N.lxor_assoc. f_equal. apply N.lxor_comm.
Qed.

Lemma testbit_high_small : forall n a m, a < 2 ^ n -> n <= m -> N.testbit a m = false.
Proof. intros n a m Ha Hm. rewrite <- (N.mod_small a (2 ^ n)) by exact Ha. apply N.mod_pow2_bits_high. exact Hm. Qed.

Lemma lxor_lt_pow2 : forall n a b, a < 2 ^ n -> b < 2 ^ n -> N.lxor a b < 2 ^ n.
Proof.
  intros n a b Ha Hb.
  assert (E : N.lxor a b = (N.lxor a b) mod 2 ^ n).
  { apply N.bits_inj. intros m. destruct (N.lt_ge_cases m n) as [Hlt|Hge].
    - rewrite N.mod_pow2_bits_low by exact Hlt. reflexivity.
    - rewrite N.mod_pow2_bits_high by exact Hge. rewrite N.lxor_spec.
      rewrite (testbit_high_small n a m Ha Hge), (testbit_high_small n b m Hb Hge). reflexivity. }
  rewrite E. apply N.mod_lt. apply N.pow_nonzero. lia.
Qed.

Lemma shiftr_lt_pow2 : forall n a k, a < 2 ^ n -> N.shiftr a k < 2 ^ n.
Proof.
  intros n a k Ha. rewrite N.shiftr_div_pow2.
  apply N.le_lt_trans with a; [|exact Ha]. apply N.div_le_upper_bound.
  - apply N.pow_nonzero. lia.
  - assert (1 <= 2 ^ k) by (apply N.lt_pred_le; simpl; apply N.neq_0_lt_0, N.pow_nonzero; lia). nia.
Qed.

Lemma round_linear : forall p x y, round p (N.lxor x y) = N.lxor (round p x) (round p y).
Proof.
  intros p x y. unfold round. rewrite N.lxor_spec, N.shiftr_lxor.
  destruct (N.testbit x 0), (N.testbit y 0); cbn [xorb].
  - rewrite lxor_swap4, N.lxor_nilpotent, N.lxor_0_r. reflexivity.
  - rewrite !N.lxor_assoc. f_equal. apply N.lxor_comm.
  - rewrite !N.lxor_assoc. reflexivity.
  - reflexivity.
Qed.

Lemma iter_round_linear : forall n p x y,
  iter n (round p) (N.lxor x y) = N.lxor (iter n (round p) x) (iter n (round p) y).
Proof.
  induction n as [|n IH]; intros p x y; [reflexivity|]. cbn [iter]. rewrite round_linear. apply IH.
Qed.

Lemma round_0 : forall p, round p 0 = 0.
Proof. intros p. reflexivity. Qed.
Lemma iter_round_0 : forall n p, iter n (round p) 0 = 0.
Proof. induction n as [|n IH]; intros p; [reflexivity|]. cbn [iter]. rewrite round_0. apply IH. Qed.

Lemma round_lt : forall n p s, 0 < n -> p < 2 ^ n -> s < 2 ^ n -> round p s < 2 ^ n.
Proof.
  intros n p s Hn Hp Hs. unfold round. destruct (N.testbit s 0).
  - apply lxor_lt_pow2; [apply shiftr_lt_pow2; exact Hs | exact Hp].
  - apply shiftr_lt_pow2; exact Hs.
Qed.
Lemma iter_round_lt : forall k n p s, 0 < n -> p < 2 ^ n -> s < 2 ^ n -> iter k (round p) s < 2 ^ n.
Proof.
  induction k as [|k IH]; intros n p s Hn Hp Hs; [exact Hs|]. cbn [iter]. apply IH; try assumption.
  apply round_lt; assumption.
Qed.

Lemma byte_step_linear : forall p s d b e,
  byte_step p (N.lxor s d) (N.lxor b e) = N.lxor (byte_step p s b) (byte_step p d e).
Proof. intros. unfold byte_step. rewrite lxor_swap4. apply iter_round_linear. Qed.

(* The linear difference automaton: for equal-length strings the register difference
   evolves by the init/xorout-free step from the initial difference. *)
Theorem crc_reg_linear : forall p a e s d, length a = length e ->
  crc_reg p (xorl a e) (N.lxor s d) = N.lxor (crc_reg p a s) (crc_reg p e d).
Proof.
  intros p. induction a as [|x a IH]; intros [|y e] s d H; simpl in H; try discriminate; [reflexivity|].
  unfold crc_reg in *. cbn [xorl fold_left]. rewrite byte_step_linear. apply IH. lia.
Qed.

Definition lin (p : N) (e : list N) : N := crc_reg p e 0.

Corollary crc_spec_diff : forall p init xo a e, length a = length e ->
  crc_spec p init xo (xorl a e) = N.lxor (crc_spec p init xo a) (lin p e).
Proof.
  intros. unfold crc_spec, lin. rewrite <- (N.lxor_0_r init) at 1. rewrite crc_reg_linear by assumption.
  rewrite !N.lxor_assoc. f_equal. apply N.lxor_comm.
Qed.

(* ------------------------------------------------------------------ *)
(* tables: checked entry by entry against the bitwise definition (256-point finite sweeps,
   lifted to all indices < 256) *)

Definition t8_entry_ok (i : N) : bool :=
  (nth (N.to_nat i) crc8_table 0 =? N.lxor (iter 8 (round poly8) (N.lxor i 0xFF)) 0xFF) &&
  (nth (N.to_nat i) crc8_table 0 <? 256).
Definition t16_entry_ok (i : N) : bool :=
  (nth (N.to_nat i) crc16_table 0 =? iter 8 (round poly16) i).

Lemma t8_all : forallb t8_entry_ok (below 8) = true.
Proof. vm_compute. reflexivity. Qed.
Lemma t16_all : forallb t16_entry_ok (below 8) = true.
Proof. vm_compute. reflexivity. Qed.

Lemma t8_entry : forall i, i < 256 ->
  nth (N.to_nat i) crc8_table 0 = N.lxor (iter 8 (round poly8) (N.lxor i 0xFF)) 0xFF /\
  nth (N.to_nat i) crc8_table 0 < 256.
Proof.
  intros i Hi. pose proof (forallb_below 8 _ t8_all i Hi) as H. unfold t8_entry_ok in H.
  apply andb_prop in H. destruct H as [H1 H2]. apply N.eqb_eq in H1. apply N.ltb_lt in H2. split; assumption.
Qed.
Lemma t16_entry : forall i, i < 256 -> nth (N.to_nat i) crc16_table 0 = iter 8 (round poly16) i.
Proof. intros i Hi. pose proof (forallb_below 8 _ t16_all i Hi) as H. apply N.eqb_eq in H. exact H. Qed.

Lemma start_values : crc8_start = 0 /\ crc16_start = 0.
Proof. split; reflexivity. Qed.

(* ------------------------------------------------------------------ *)
(* CRC8: code = spec *)

Lemma crc8_step_spec : forall s b, s < 256 -> b < 256 ->
  crc8_step s b = N.lxor (byte_step poly8 (N.lxor s 0xFF) b) 0xFF /\ crc8_step s b < 256.
Proof.
  intros s b Hs Hb. unfold crc8_step, byte_step.
  assert (Hx : N.lxor s b < 256) by (apply (lxor_lt_pow2 8); assumption).
  destruct (t8_entry _ Hx) as [E L]. split; [|exact L]. rewrite E. f_equal. f_equal.
  rewrite !N.lxor_assoc. f_equal. apply N.lxor_comm.
Qed.

Theorem crc8_from_spec : forall bytes s, s < 256 -> bytes_ok bytes ->
  crc8_from s bytes = N.lxor (crc_reg poly8 bytes (N.lxor s 0xFF)) 0xFF /\ crc8_from s bytes < 256.
Proof.
  induction bytes as [|b bytes IH]; intros s Hs Hok.
  - unfold crc8_from, crc_reg. cbn [fold_left]. split; [|exact Hs].
    rewrite N.lxor_assoc, N.lxor_nilpotent, N.lxor_0_r. reflexivity.
  - inversion Hok as [|? ? Hb Hrest]; subst. unfold crc8_from, crc_reg in *. cbn [fold_left].
    destruct (crc8_step_spec s b Hs Hb) as [E L]. destruct (IH _ L Hrest) as [E2 L2]. split; [|exact L2].
    rewrite E2. rewrite E. rewrite N.lxor_assoc, N.lxor_nilpotent, N.lxor_0_r. reflexivity.
Qed.

Theorem crc8_code_eq_spec : forall bytes, bytes_ok bytes -> crc8 bytes = crc8_spec bytes.
Proof.
  intros bytes H. unfold crc8, crc8_spec, crc_spec.
  assert (S0 : crc8_start < 256) by reflexivity.
  destruct (crc8_from_spec bytes crc8_start S0 H) as [E _]. exact E.
Qed.
Lemma crc8_lt : forall bytes, bytes_ok bytes -> crc8 bytes < 256.
Proof. intros bytes H. apply crc8_from_spec; [reflexivity|exact H]. Qed.

(* ------------------------------------------------------------------ *)
(* CRC16: code = spec.  The 16-bit register splits as hi*256 + lo; the table handles lo. *)

Lemma split_lo_hi : forall x, x = N.lxor (N.land x 255) (N.shiftl (N.shiftr x 8) 8).
Proof.
  intros x. apply N.bits_inj. intros n. rewrite N.lxor_spec.
  change 255 with (N.ones 8). rewrite N.land_ones.
  destruct (N.lt_ge_cases n 8) as [Hlt|Hge].
  - rewrite N.mod_pow2_bits_low by exact Hlt. rewrite N.shiftl_spec_low by exact Hlt. rewrite xorb_false_r. reflexivity.
  - rewrite N.mod_pow2_bits_high by exact Hge. rewrite N.shiftl_spec_high' by exact Hge.
    rewrite N.shiftr_spec'. replace (n - 8 + 8) with n by lia. rewrite xorb_false_l. reflexivity.
Qed.

Lemma round_shiftl : forall p x k, round p (N.shiftl x (N.succ k)) = N.shiftl x k.
Proof.
  intros p x k. unfold round. rewrite N.shiftl_spec_low by lia.
  rewrite N.shiftr_shiftl_l by lia. f_equal. lia.
Qed.
Lemma iter8_round_shiftl8 : forall p x, iter 8 (round p) (N.shiftl x 8) = x.
Proof.
  intros p x. cbn [iter].
  change 8 with (N.succ 7). rewrite round_shiftl. change 7 with (N.succ 6). rewrite round_shiftl.
  change 6 with (N.succ 5). rewrite round_shiftl. change 5 with (N.succ 4). rewrite round_shiftl.
  change 4 with (N.succ 3). rewrite round_shiftl. change 3 with (N.succ 2). rewrite round_shiftl.
  change 2 with (N.succ 1). rewrite round_shiftl. change 1 with (N.succ 0). rewrite round_shiftl.
  apply N.shiftl_0_r.
Qed.

Lemma land255_lt : forall x, N.land x 255 < 256.
Proof. intros x. change 255 with (N.ones 8). rewrite N.land_ones. apply N.mod_lt. discriminate. Qed.

Lemma crc16_step_spec : forall s b, b < 256 -> crc16_step s b = byte_step poly16 s b.
Proof.
  intros s b Hb. unfold crc16_step, byte_step.
  rewrite (t16_entry _ (land255_lt _)).
  rewrite (split_lo_hi (N.lxor s b)) at 2. rewrite iter_round_linear, iter8_round_shiftl8.
  rewrite N.shiftr_lxor. replace (N.shiftr b 8) with 0.
  - rewrite N.lxor_0_r. apply N.lxor_comm.
  - symmetry. rewrite N.shiftr_div_pow2. apply N.div_small. exact Hb.
Qed.

Theorem crc16_from_spec : forall bytes s, bytes_ok bytes -> crc16_from s bytes = crc_reg poly16 bytes s.
Proof.
  induction bytes as [|b bytes IH]; intros s Hok; [reflexivity|].
  inversion Hok; subst. unfold crc16_from, crc_reg in *. cbn [fold_left].
  rewrite crc16_step_spec by assumption. apply IH. assumption.
Qed.

Theorem crc16_code_eq_spec : forall bytes, bytes_ok bytes -> crc16 bytes = crc16_spec bytes.
Proof.
  intros bytes H. unfold crc16, crc16_spec, crc_spec. rewrite crc16_from_spec by assumption.
  rewrite N.lxor_0_r. reflexivity.
Qed.

Lemma crc_reg_lt : forall n p bytes s, 0 < n -> 8 <= n -> p < 2 ^ n -> s < 2 ^ n -> bytes_ok bytes ->
  crc_reg p bytes s < 2 ^ n.
Proof.
  intros n p. induction bytes as [|b bytes IH]; intros s Hn H8 Hp Hs Hok; [exact Hs|].
  inversion Hok; subst. unfold crc_reg in *. cbn [fold_left]. apply IH; try assumption.
  unfold byte_step. apply iter_round_lt; try assumption. apply lxor_lt_pow2; [exact Hs|].
  apply N.lt_le_trans with (2 ^ 8); [assumption|]. apply N.pow_le_mono_r; lia.
Qed.
Lemma crc16_lt : forall bytes, bytes_ok bytes -> crc16 bytes < 65536.
Proof.
  intros bytes H. unfold crc16. rewrite crc16_from_spec by assumption.
  apply (crc_reg_lt 16); try assumption; try reflexivity. lia.
Qed.

(* ------------------------------------------------------------------ *)
(* incremental law (update(a); update(b) = update(a+b)), for every start state *)

Theorem crc8_incremental : forall a b s, crc8_from s (a ++ b) = crc8_from (crc8_from s a) b.
Proof. intros. unfold crc8_from. apply fold_left_app. Qed.
Theorem crc16_incremental : forall a b s, crc16_from s (a ++ b) = crc16_from (crc16_from s a) b.
Proof. intros. unfold crc16_from. apply fold_left_app. Qed.

(* ------------------------------------------------------------------ *)
(* header: every 1- and 2-bit error over the 40 bits size(16) type(8) flags(8) crc8(8) is rejected *)

Definition hdr_err (i j : N) : list N := le_enc 5 (N.lor (N.shiftl 1 i) (N.shiftl 1 j)).
(* NB: the sweeps are stated with literal lambdas and lifted with lemmas that are generic in
   the swept function, so that the kernel's conversion only ever performs beta steps and never
   has to compare unfolded (open) CRC computations, which blows up exponentially. *)
Lemma sweep2 : forall k1 k2 (f : N -> N -> bool),
  forallb (fun i => forallb (f i) (below k2)) (below k1) = true ->
  forall i j, i < 2 ^ N.of_nat k1 -> j < 2 ^ N.of_nat k2 -> f i j = true.
Proof.
  intros k1 k2 f H i j Hi Hj.
  pose proof (forallb_below k1 (fun i => forallb (f i) (below k2)) H i Hi) as Si. cbv beta in Si.
  exact (forallb_below k2 (f i) Si j Hj).
Qed.
Lemma implb_mp : forall a b, implb a b = true -> a = true -> b = true.
Proof. intros [] []; simpl; congruence. Qed.
Lemma neqb_true : forall a b : N, negb (a =? b) = true -> a <> b.
Proof. intros a b H. apply N.eqb_neq. apply negb_true_iff. exact H. Qed.

Lemma lxor_cancel_l : forall a b c, N.lxor a b = N.lxor a c -> b = c.
Proof.
  intros a b c H. assert (E : N.lxor a (N.lxor a b) = N.lxor a (N.lxor a c)) by (rewrite H; reflexivity).
  rewrite <- !N.lxor_assoc, N.lxor_nilpotent, !N.lxor_0_l in E. exact E.
Qed.

Lemma hdr_sweep_ok :
  forallb (fun i => forallb (fun j =>
     implb ((i <? 40) && (j <? 40)) (negb (lin poly8 (firstn 4 (hdr_err i j)) =? nth 4 (hdr_err i j) 0)))
     (below 6)) (below 6) = true.
Proof. vm_compute. reflexivity. Qed.

Lemma hdr_sweep_point : forall i j, i < 40 -> j < 40 -> lin poly8 (firstn 4 (hdr_err i j)) <> nth 4 (hdr_err i j) 0.
Proof.
  intros i j Hi Hj.
  assert (Hi6 : i < 2 ^ N.of_nat 6) by (simpl; lia). assert (Hj6 : j < 2 ^ N.of_nat 6) by (simpl; lia).
  pose proof (sweep2 6 6 (fun i j => implb ((i <? 40) && (j <? 40))
      (negb (lin poly8 (firstn 4 (hdr_err i j)) =? nth 4 (hdr_err i j) 0))) hdr_sweep_ok i j Hi6 Hj6) as P.
  cbv beta in P.
  apply N.ltb_lt in Hi. apply N.ltb_lt in Hj.
  assert (G : (i <? 40) && (j <? 40) = true) by (apply andb_true_intro; split; assumption).
  exact (neqb_true _ _ (implb_mp _ _ P G)).
Qed.

(* h4: the 4 covered header bytes; the stored checksum is crc8 h4.  Flip bit i and bit j
   (i = j: a single bit) of the 40-bit header: the corrupted checksum byte never equals the
   checksum of the corrupted covered bytes. *)
Theorem header_errors_detected : forall h4 i j, length h4 = 4%nat -> bytes_ok h4 -> i < 40 -> j < 40 ->
  crc8_spec (xorl h4 (firstn 4 (hdr_err i j))) <> N.lxor (crc8_spec h4) (nth 4 (hdr_err i j) 0).
Proof.
  intros h4 i j Hl Hok Hi Hj. unfold crc8_spec.
  rewrite crc_spec_diff by (rewrite Hl; reflexivity).
  intros E. apply lxor_cancel_l in E. exact (hdr_sweep_point i j Hi Hj E).
Qed.

(* ------------------------------------------------------------------ *)
(* body: every error burst confined to 16 consecutive bit positions (transmission order:
   byte by byte, least significant bit first) of the checksummed bytes is rejected *)

Definition burst3 (w o : N) : list N := le_enc 3 (N.shiftl w o).
Lemma burst_sweep_ok :
  forallb (fun o => forallb (fun w => implb (negb (w =? 0)) (negb (lin poly16 (burst3 w o) =? 0))) (below 16)) (below 3) = true.
Proof. vm_compute. reflexivity. Qed.

Lemma burst3_nonzero : forall w o, 0 < w -> w < 65536 -> o < 8 -> lin poly16 (burst3 w o) <> 0.
Proof.
  intros w o Hw Hw2 Ho.
  assert (Ho3 : o < 2 ^ N.of_nat 3) by (simpl; lia). assert (Hw16 : w < 2 ^ N.of_nat 16) by (simpl; lia).
  pose proof (sweep2 3 16 (fun o w => implb (negb (w =? 0)) (negb (lin poly16 (burst3 w o) =? 0)))
      burst_sweep_ok o w Ho3 Hw16) as P. cbv beta in P.
  assert (G : negb (w =? 0) = true) by (apply negb_true_iff, N.eqb_neq; lia).
  exact (neqb_true _ _ (implb_mp _ _ P G)).
Qed.

Lemma round16_nonzero : forall s, s < 65536 -> round poly16 s = 0 -> s = 0.
Proof.
  intros s Hs H. unfold round in H. destruct (N.testbit s 0) eqn:B.
  - apply N.lxor_eq in H. assert (N.shiftr s 1 < 32768).
    { rewrite N.shiftr_div_pow2. apply N.div_lt_upper_bound; [discriminate|]. simpl. lia. }
    unfold poly16 in H. lia.
  - rewrite N.shiftr_div_pow2 in H. change (2 ^ 1) with 2 in H.
    rewrite N.bit0_odd in B. assert (Hev : N.even s = true) by (rewrite <- N.negb_odd, B; reflexivity).
    apply N.even_spec in Hev. destruct Hev as [k Hk]. subst s. rewrite N.mul_comm, N.div_mul in H by lia. lia.
Qed.

Lemma iter_round16_nonzero : forall k s, s < 65536 -> s <> 0 -> iter k (round poly16) s <> 0.
Proof.
  induction k as [|k IH]; intros s Hs Hn; [exact Hn|]. cbn [iter]. apply IH.
  - apply (round_lt 16); try reflexivity. exact Hs.
  - intros E. apply Hn. apply round16_nonzero; assumption.
Qed.

Lemma crc_reg_zeros_nonzero : forall m s, s < 65536 -> s <> 0 -> crc_reg poly16 (repeat 0 m) s <> 0.
Proof.
  induction m as [|m IH]; intros s Hs Hn; [exact Hn|]. unfold crc_reg in *. cbn [repeat fold_left]. apply IH.
  - unfold byte_step. rewrite N.lxor_0_r. apply (iter_round_lt 8 16); try reflexivity. exact Hs.
  - unfold byte_step. rewrite N.lxor_0_r. apply iter_round16_nonzero; assumption.
Qed.

Lemma lin_zeros_prefix : forall p k r, lin p (repeat 0 k ++ r) = lin p r.
Proof.
  intros p k r. unfold lin, crc_reg. rewrite fold_left_app. f_equal.
  induction k as [|k IH]; [reflexivity|]. cbn [repeat fold_left]. unfold byte_step at 2.
  rewrite N.lxor_0_r, iter_round_0. exact IH.
Qed.

Lemma bytes_ok_repeat0 : forall k, bytes_ok (repeat 0 k).
Proof. induction k; simpl; constructor; [lia|assumption]. Qed.
Lemma bytes_ok_app : forall a b, bytes_ok a -> bytes_ok b -> bytes_ok (a ++ b).
Proof. intros. apply Forall_app. split; assumption. Qed.

(* p: the checksummed bytes; e: an error vector of the same length which, possibly extended by
   zero bytes when the burst touches the very end, is k zero bytes, the 3-byte image of a
   non-zero 16-bit pattern w shifted by o < 8 bits, then zero bytes. *)
Lemma crc_reg_app : forall p a b s, crc_reg p (a ++ b) s = crc_reg p b (crc_reg p a s).
Proof. intros. unfold crc_reg. apply fold_left_app. Qed.
Lemma crc_reg_zeros_0 : forall p j, crc_reg p (repeat 0 j) 0 = 0.
Proof.
  intros p j. induction j as [|j IH]; [reflexivity|]. unfold crc_reg in *. cbn [repeat fold_left].
  unfold byte_step at 2. rewrite N.lxor_0_r, iter_round_0. exact IH.
Qed.

Lemma lin_app : forall p a b, lin p (a ++ b) = crc_reg p b (lin p a).
Proof. intros. unfold lin. apply crc_reg_app. Qed.

Theorem body_burst_detected : forall p e k w o m j, length e = length p ->
  0 < w -> w < 65536 -> o < 8 ->
  e ++ repeat 0 j = repeat 0 k ++ burst3 w o ++ repeat 0 m ->
  crc16_spec (xorl p e) <> crc16_spec p.
Proof.
  intros p e k w o m j Hl Hw Hw2 Ho He. unfold crc16_spec.
  rewrite crc_spec_diff by (symmetry; exact Hl). intros E.
  rewrite <- (N.lxor_0_r (crc_spec poly16 0 0 p)) in E at 2. apply lxor_cancel_l in E.
  assert (Hz : lin poly16 (e ++ repeat 0 j) = 0).
  { rewrite lin_app, E. apply crc_reg_zeros_0. }
  rewrite He, lin_zeros_prefix, lin_app in Hz.
  revert Hz. apply crc_reg_zeros_nonzero.
  - unfold lin. apply (crc_reg_lt 16); try reflexivity; try lia. apply le_enc_bytes_ok.
  - apply burst3_nonzero; assumption.
Qed.

(* non-vacuity: a concrete burst instance meets the hypotheses *)
Example burst_instance :
  let p := [1; 2; 3; 4; 5] in let e := [0; 0; 0; 0x80; 0x7F] in
  length e = length p /\ e ++ repeat 0 1 = repeat 0 3 ++ burst3 0xFF 7 ++ repeat 0 0.
Proof. vm_compute. split; reflexivity. Qed.
