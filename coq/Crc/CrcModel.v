(* MODEL of zigpy_zboss/checksum.py: table-driven update loops over the REGENERATED tables. *)
From Coq Require Import NArith List Bool.
From ZB Require Import Base.Bytes gen.GenCrcTables.
Import ListNotations.
Open Scope N_scope.

(* CRC8._update:   _sum = table[_sum ^ byte] *)
Definition crc8_step (s b : N) : N := nth (N.to_nat (N.lxor s b)) crc8_table 0.
(* CRC16._update:  _sum = (_sum >> 8) ^ table[(_sum ^ byte) & 0x00FF] *)
Definition crc16_step (s b : N) : N :=
  N.lxor (N.shiftr s 8) (nth (N.to_nat (N.land (N.lxor s b) 255)) crc16_table 0).

(* CRCn(initial_string, initial_start).digest(), and .update() = continuing the fold *)
Definition crc8_from (s : N) (bytes : list N) : N := fold_left crc8_step bytes s.
Definition crc16_from (s : N) (bytes : list N) : N := fold_left crc16_step bytes s.
Definition crc8 (bytes : list N) : N := crc8_from crc8_start bytes.
Definition crc16 (bytes : list N) : N := crc16_from crc16_start bytes.
