(* Rocksoft-model bitwise CRC, reflected form (register shifts right).  This is the SPEC:
   nothing here depends on the repository's tables. *)
From Coq Require Import NArith List Bool Lia.
From ZB Require Import Base.Bytes.
Import ListNotations.
Open Scope N_scope.

(* one bit step of a reflected CRC with reflected polynomial [p] *)
Definition round (p s : N) : N :=
  if N.testbit s 0 then N.lxor (N.shiftr s 1) p else N.shiftr s 1.

(* feed one byte: xor it into the low bits, then 8 bit steps *)
Definition byte_step (p s b : N) : N := iter 8 (round p) (N.lxor s b).

Definition crc_reg (p : N) (bytes : list N) (s : N) : N := fold_left (byte_step p) bytes s.

(* refin = refout = true *)
Definition crc_spec (p init xorout : N) (bytes : list N) : N :=
  N.lxor (crc_reg p bytes init) xorout.

(* CRC-8/KOOP: width 8, poly 0x4D (reflected 0xB2), init 0xFF, xorout 0xFF, check 0xD8 *)
Definition poly8 : N := 0xB2.
Definition crc8_spec (bytes : list N) : N := crc_spec poly8 0xFF 0xFF bytes.
(* CRC-16/KERMIT: width 16, poly 0x1021 (reflected 0x8408), init 0, xorout 0, check 0x2189 *)
Definition poly16 : N := 0x8408.
Definition crc16_spec (bytes : list N) : N := crc_spec poly16 0 0 bytes.

(* "123456789" *)
Definition check_string : list N := [49; 50; 51; 52; 53; 54; 55; 56; 57].
Example crc8_check : crc8_spec check_string = 0xD8.
Proof. vm_compute. reflexivity. Qed.
Example crc16_check : crc16_spec check_string = 0x2189.
Proof. vm_compute. reflexivity. Qed.

(* The reflected polynomials are the bit reversals of the catalogue polynomials. *)
Fixpoint bitrev (w : nat) (x : N) : N :=
  match w with
  | O => 0
  | S w => N.lor (N.shiftl (N.land x 1) (N.of_nat w)) (bitrev w (N.shiftr x 1))
  end.
Example poly8_reflects : bitrev 8 0x4D = poly8. Proof. vm_compute. reflexivity. Qed.
Example poly16_reflects : bitrev 16 0x1021 = poly16. Proof. vm_compute. reflexivity. Qed.
