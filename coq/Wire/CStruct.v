(* MODEL of zigpy_zboss/types/cstruct.py (CStructField.get_size_and_alignment, CStruct.get_padded_fields /
   get_alignment / get_size / serialize / deserialize), for EVERY struct definition and both alignment modes.

   A struct definition is a list of field types.  Leaf field types are zigpy's:
     CInt size   - FixedIntType (uint8_t .. uint64_t, int8s ..): `size` bytes little-endian; alignment = size when
                   align=True, else 1.  The value is the unsigned byte pattern (a signed type maps its values to
                   it by two's complement; that bijection is zigpy's and is applied by the harness).
     CBytes n    - EUI64 (8), KeyData (16) (and AddrModeAddress, 9): alignment 1 in both modes.
     CNested fs  - a nested CStruct subclass: size/alignment computed recursively with the same `align`.
   Python's ValueError is the explicit result CValueError (deserialize) / None (serialize).
   Sizes, offsets and paddings are lengths: nat.  Byte values and integers: N. *)
From Coq Require Import NArith List Bool Arith.
From ZB Require Import Base.Bytes.
Import ListNotations.
Open Scope nat_scope.

Inductive cty :=
| CInt (size : nat)
| CBytes (n : nat)
| CNested (fields : list cty).

Inductive cval :=
| VInt (n : N)
| VBytes (bs : list N)
| VStruct (vs : list cval).

Inductive cres (A : Type) :=
| COk (a : A)
| CValueError.
Arguments COk {A} a.
Arguments CValueError {A}.

(* `(-offset) % alignment` (Python: result in [0, alignment) for alignment > 0) *)
Definition pad_to (off a : nat) : nat := (a - off mod a) mod a.

Definition padding_byte : N := 255%N.       (* CStruct._padding_byte = b"\xFF" *)

Section Layout.
  (* field type -> (size, alignment): CStructField.get_size_and_alignment(align) *)
  Variable sa : cty -> nat * nat.

  (* get_padded_fields: yields (padding, size) per field, threading `offset` *)
  Fixpoint padded_from (off : nat) (fs : list cty) : list (nat * nat) :=
    match fs with
    | [] => []
    | f :: fs' =>
        let (sz, a) := sa f in
        let p := pad_to off a in
        (p, sz) :: padded_from (off + (p + sz)) fs'
    end.
  Definition padded (fs : list cty) : list (nat * nat) := padded_from 0 fs.

  (* get_alignment: max(alignments).  (Python's max([]) raises ValueError for a struct without fields;
     such definitions are excluded by `wf` below - a field-less CStruct cannot even be nested, and every
     size/serialize/deserialize call on it raises.) *)
  Definition alignment (fs : list cty) : nat := fold_right Nat.max 0 (map (fun f => snd (sa f)) fs).

  (* get_size: total_size += padding + size; final_padding = (-total_size) % alignment *)
  Definition raw_size (fs : list cty) : nat := list_sum (map (fun ps => fst ps + snd ps) (padded fs)).
  Definition size (fs : list cty) : nat := raw_size fs + pad_to (raw_size fs) (alignment fs).
End Layout.

Fixpoint size_align (al : bool) (t : cty) : nat * nat :=
  match t with
  | CInt s => (s, if al then s else 1)
  | CBytes n => (n, 1)
  | CNested fs => (size (size_align al) fs, alignment (size_align al) fs)
  end.

(* start offset of each field's data, from the (padding, size) list *)
Fixpoint offsets_from (off : nat) (pads : list (nat * nat)) : list nat :=
  match pads with
  | [] => []
  | (p, sz) :: pads' => (off + p) :: offsets_from (off + (p + sz)) pads'
  end.

(* the class-level API of a struct definition `fs` *)
Definition cs_padded (al : bool) (fs : list cty) : list (nat * nat) := padded (size_align al) fs.
Definition cs_alignment (al : bool) (fs : list cty) : nat := alignment (size_align al) fs.
Definition cs_size (al : bool) (fs : list cty) : nat := size (size_align al) fs.
Definition cs_offsets (al : bool) (fs : list cty) : list nat := offsets_from 0 (cs_padded al fs).

(* definitions that can exist / be used in Python: int sizes >= 1, every (nested) struct has a field *)
Fixpoint wf (t : cty) : bool :=
  match t with
  | CInt s => (0 <? s)
  | CBytes _ => true
  | CNested fs => match fs with [] => false | _ => forallb wf fs end
  end.

(* ---- serialize ---- *)
(* result.ljust(n, b"\xFF") *)
Definition ljust (n : nat) (l : list N) : list N := l ++ repeat padding_byte (n - length l).

Section Ser.
  Variable serf : cty -> cval -> option (list N).
  (* for padding, _, field in get_padded_fields: result += FF * padding; result += value.serialize() *)
  Fixpoint ser_fields (pads : list (nat * nat)) (fs : list cty) (vs : list cval) {struct fs} : option (list N) :=
    match fs, pads, vs with
    | [], [], [] => Some []
    | f :: fs', (p, _) :: pads', v :: vs' =>
        match serf f v with
        | None => None
        | Some b => match ser_fields pads' fs' vs' with
                    | None => None
                    | Some bs => Some (repeat padding_byte p ++ b ++ bs)
                    end
        end
    | _, _, _ => None
    end.
End Ser.

(* None = ValueError (value missing / not convertible to the field type) *)
Fixpoint ser (al : bool) (t : cty) (v : cval) {struct t} : option (list N) :=
  match t, v with
  | CInt s, VInt n => if (n <? 256 ^ N.of_nat s)%N then Some (le_enc s n) else None
  | CBytes k, VBytes bs => if (length bs =? k) && forallb byte_ok bs then Some bs else None
  | CNested fs, VStruct vs =>
      match ser_fields (ser al) (padded (size_align al) fs) fs vs with
      | None => None
      | Some b => Some (ljust (size (size_align al) fs) b)
      end
  | _, _ => None
  end.

(* ---- deserialize ---- *)
(* data[expected_size - (orig_length - len(data)):] ; a negative bound would count from the end (Python) *)
Definition strip_final (expected consumed : nat) (d : list N) : list N :=
  if consumed <=? expected then skipn (expected - consumed) d
  else skipn (length d - (consumed - expected)) d.

Section De.
  Variable dz : cty -> list N -> cres (cval * list N).
  (* for padding, _, field in get_padded_fields: data = data[padding:]; value, data = field.type.deserialize(data) *)
  Fixpoint deser_fields (pads : list (nat * nat)) (fs : list cty) (d : list N) {struct fs}
    : cres (list cval * list N) :=
    match fs, pads with
    | [], _ => COk ([], d)
    | f :: fs', (p, _) :: pads' =>
        match dz f (skipn p d) with
        | CValueError => CValueError
        | COk (v, d') => match deser_fields pads' fs' d' with
                         | CValueError => CValueError
                         | COk (vs, r) => COk (v :: vs, r)
                         end
        end
    | _ :: _, [] => CValueError      (* not reachable: pads is get_padded_fields of fs (cs_deserialize_exact) *)
    end.
End De.

Fixpoint deser (al : bool) (t : cty) (d : list N) {struct t} : cres (cval * list N) :=
  match t with
  | CInt s => match le_dec s d with Some (n, r) => COk (VInt n, r) | None => CValueError end
  | CBytes k => if length d <? k then CValueError else COk (VBytes (firstn k d), skipn k d)
  | CNested fs =>
      let orig_length := length d in
      let expected_size := size (size_align al) fs in
      if orig_length <? expected_size then CValueError       (* "Data is too short" *)
      else match deser_fields (deser al) (padded (size_align al) fs) fs d with
           | CValueError => CValueError
           | COk (vs, d') => COk (VStruct vs, strip_final expected_size (orig_length - length d') d')
           end
  end.

Definition cs_serialize (al : bool) (fs : list cty) (vs : list cval) : option (list N) :=
  ser al (CNested fs) (VStruct vs).
Definition cs_deserialize (al : bool) (fs : list cty) (d : list N) : cres (cval * list N) :=
  deser al (CNested fs) d.

(* values a struct instance can hold: ints in range, byte fields of the right length *)
Fixpoint valid (t : cty) (v : cval) {struct t} : bool :=
  match t, v with
  | CInt s, VInt n => (n <? 256 ^ N.of_nat s)%N
  | CBytes k, VBytes bs => (length bs =? k) && forallb byte_ok bs
  | CNested fs, VStruct vs =>
      (fix go (fs : list cty) (vs : list cval) : bool :=
         match fs, vs with
         | [], [] => true
         | f :: fs', v :: vs' => valid f v && go fs' vs'
         | _, _ => false
         end) fs vs
  | _, _ => false
  end.

(* ---- SPEC: the natural-alignment rule, stated on (size, alignment) pairs, independent of the code ----
   each field starts at the first multiple of its alignment at or after the end of the previous field;
   the total is the first multiple of the largest alignment at or after the end of the last field. *)
Fixpoint natural_layout (off : nat) (sas pads : list (nat * nat)) : Prop :=
  match sas, pads with
  | [], [] => True
  | (sz, a) :: sas', (p, sz') :: pads' =>
      sz' = sz /\ p < a /\ (off + p) mod a = 0 /\ natural_layout (off + (p + sz)) sas' pads'
  | _, _ => False
  end.
Definition natural_total (sas pads : list (nat * nat)) (total align : nat) : Prop :=
  let raw := list_sum (map (fun ps => fst ps + snd ps) pads) in
  align = fold_right Nat.max 0 (map snd sas) /\ raw <= total /\ total < raw + align /\ total mod align = 0.

(* the same, decidable: used as the monitor on the implementation's own outputs *)
Fixpoint natural_layout_b (off : nat) (sas pads : list (nat * nat)) : bool :=
  match sas, pads with
  | [], [] => true
  | (sz, a) :: sas', (p, sz') :: pads' =>
      (sz' =? sz) && (p <? a) && ((off + p) mod a =? 0) && natural_layout_b (off + (p + sz)) sas' pads'
  | _, _ => false
  end.
Definition natural_total_b (sas pads : list (nat * nat)) (total align : nat) : bool :=
  let raw := list_sum (map (fun ps => fst ps + snd ps) pads) in
  (align =? fold_right Nat.max 0 (map snd sas)) && (raw <=? total) && (total <? raw + align) && (total mod align =? 0).
