(* MODEL of the NVRAM dataset containers of zigpy_zboss/types/nvids.py:
     NVRAMStruct (zigpy Struct of byte-granular leaf fields: fields decoded one after another),
     NVRAMStruct.get_byte_size, NwkAddrMapHeader / NwkAddrMapRecord / DSNwkAddrMap,
     ApsSecureEntry / DSApsSecureKeys  (their custom serialize / deserialize),
   and of what nvram.py:read() feeds them: NVRAMDataset.serialize() = u16 length + the dataset bytes.
   A record is the tuple (list) of its field values, typed by the list of its leaf field types
   (CInt n = uintN_t little-endian, CBytes 8 = EUI64, CBytes 16 = KeyData) from Wire/CStruct.v.
   None = ValueError. *)
From Coq Require Import NArith ZArith List Bool Arith.
From ZB Require Import Base.Bytes Wire.CStruct.
Import ListNotations.
Open Scope nat_scope.

(* ---- zigpy Struct with leaf fields: serialize = concatenation, deserialize = field after field ---- *)
Fixpoint zs_ser (fs : list cty) (vs : list cval) : option (list N) :=
  match fs, vs with
  | [], [] => Some []
  | f :: fs', v :: vs' =>
      match ser false f v with
      | None => None
      | Some b => match zs_ser fs' vs' with None => None | Some bs => Some (b ++ bs) end
      end
  | _, _ => None
  end.

Fixpoint zs_deser (fs : list cty) (d : list N) : option (list cval * list N) :=
  match fs with
  | [] => Some ([], d)
  | f :: fs' =>
      match deser false f d with
      | CValueError => None
      | COk (v, d') => match zs_deser fs' d' with None => None | Some (vs, r) => Some (v :: vs, r) end
      end
  end.

(* NVRAMStruct.get_byte_size: sum of the fields' _size / _length *)
Definition zs_size (fs : list cty) : nat := list_sum (map (fun f => fst (size_align false f)) fs).

Definition zs_valid (fs : list cty) (vs : list cval) : bool := valid (CNested fs) (VStruct vs).

(* ---- lists of records of one type ---- *)
Section Items.
  Variable ty : list cty.

  (* b"".join(self._serialize_item(i) for i in self) *)
  Fixpoint ser_items (rs : list (list cval)) : option (list N) :=
    match rs with
    | [] => Some []
    | r :: rs' =>
        match zs_ser ty r with
        | None => None
        | Some b => match ser_items rs' with None => None | Some bs => Some (b ++ bs) end
        end
    end.

  (* for _ in range(k): item, data = cls._deserialize_item(data); r.append(item) *)
  Fixpoint dec_n (k : nat) (d : list N) : option (list (list cval) * list N) :=
    match k with
    | O => Some ([], d)
    | S k' =>
        match zs_deser ty d with
        | None => None
        | Some (v, d') => match dec_n k' d' with None => None | Some (vs, r) => Some (v :: vs, r) end
        end
    end.
End Items.

(* ---- the address map ---- *)
Definition addr_hdr_ty : list cty := [CInt 2; CInt 1; CInt 1; CInt 2].
   (* NwkAddrMapHeader: byte_count u16, entry_count u8, version u8, _align u16 *)
Definition addr_rec_ty : list cty := [CBytes 8; CInt 2; CInt 1; CInt 1; CInt 1; CInt 3].
   (* NwkAddrMapRecord: ieee_addr EUI64, nwk_addr NWK(u16), index u8, redirect_type u8, redirect_ref u8, _align u24 *)
Definition addr_map_version : N := 2%N.

(* DSNwkAddrMap.deserialize *)
Definition parse_addr_map (d : list N) : option (list (list cval) * list N) :=
  match zs_deser addr_hdr_ty d with
  | Some ([VInt _byte_count; VInt entry_count; VInt _version; VInt _align], d1) =>
      dec_n addr_rec_ty (N.to_nat entry_count) d1
  | _ => None
  end.

(* DSNwkAddrMap.serialize: byte_count = len(items) + header.get_byte_size() - 2 *)
Definition serialize_addr_map (rs : list (list cval)) : option (list N) :=
  match ser_items addr_rec_ty rs with
  | None => None
  | Some items =>
      let byte_count := N.of_nat (length items + zs_size addr_hdr_ty - 2) in
      match zs_ser addr_hdr_ty [VInt byte_count; VInt (N.of_nat (length rs)); VInt addr_map_version; VInt 0%N] with
      | None => None           (* entry_count does not fit uint8_t / byte_count does not fit uint16_t *)
      | Some h => Some (h ++ items)
      end
  end.

(* ---- the APS key table ---- *)
Definition aps_entry_ty : list cty := [CBytes 8; CBytes 16; CInt 4].
   (* ApsSecureEntry: ieee_addr EUI64, key KeyData, _unknown_1 u32 *)

(* int((length - 4) / ApsSecureEntry.get_byte_size()) as used by range(): true division then truncation
   toward zero (Z.quot); range() of a negative count is empty (Z.to_nat) *)
Definition aps_entry_count (len : N) : nat :=
  Z.to_nat (Z.quot (Z.of_N len - 4) (Z.of_nat (zs_size aps_entry_ty))).

(* DSApsSecureKeys.deserialize *)
Definition parse_aps_keys (d : list N) : option (list (list cval) * list N) :=
  match le_dec 2 d with                    (* length, data = uint16_t.deserialize(data) *)
  | None => None
  | Some (len, d1) =>
      let d2 := skipn 4 d1 in              (* data = data[4:] *)
      dec_n aps_entry_ty (aps_entry_count len) d2
  end.

(* DSApsSecureKeys.serialize: uint16_t(len(self) * item size) + items  -- NOT the layout deserialize expects *)
Definition serialize_aps_keys (rs : list (list cval)) : option (list N) :=
  match ser_items aps_entry_ty rs with
  | None => None
  | Some items =>
      match ser false (CInt 2) (VInt (N.of_nat (length rs * zs_size aps_entry_ty))) with
      | None => None
      | Some h => Some (h ++ items)
      end
  end.

(* ---- what the NCP's ReadNVRAM response hands to deserialize (nvram.py: res.Dataset.serialize()) ----
   NVRAMDataset = LVList[uint8_t] with a uint16_t length: u16 number of dataset bytes, then the bytes *)
Definition nvram_read_bytes (dataset : list N) : list N :=
  le_enc 2 (N.of_nat (length dataset)) ++ dataset.

(* the read layouts pinned by tests/test_nvids.py, built from records *)
Definition addr_map_read_layout (byte_count version align_ : N) (n : nat) (items : list N) : list N :=
  le_enc 2 byte_count ++ le_enc 1 (N.of_nat n) ++ le_enc 1 version ++ le_enc 2 align_ ++ items.
Definition aps_keys_read_layout (redundant4 : list N) (n : nat) (items : list N) : list N :=
  le_enc 2 (N.of_nat (4 + zs_size aps_entry_ty * n)) ++ redundant4 ++ items.
