(* PROOFS about the NVRAM dataset containers: parsing the NCP's read layout built from any list of valid
   records, followed by arbitrary further bytes, returns exactly the records and those bytes. *)
From Coq Require Import NArith ZArith List Bool Arith Lia ZifyBool ZifyNat ZifyN.
From ZB Require Import Base.Bytes Wire.CStruct Wire.CStructProofs Wire.Nvram.
Import ListNotations.
Open Scope nat_scope.

(* ---- zigpy Struct of leaf fields ---- *)
Lemma zs_ser_length : forall fs vs b, zs_ser fs vs = Some b -> length b = zs_size fs.
Proof.
  unfold zs_size. induction fs as [|f fs IH]; intros vs b H.
  - destruct vs; cbn in H; [|discriminate]. inversion H. reflexivity.
  - destruct vs as [|v vs]; cbn [zs_ser] in H; [discriminate|].
    destruct (ser false f v) as [b1|] eqn:E1; [|discriminate].
    destruct (zs_ser fs vs) as [bs|] eqn:E2; [|discriminate]. inversion H; subst b.
    rewrite app_length, (ser_length _ _ _ _ E1), (IH _ _ E2). reflexivity.
Qed.

Lemma zs_roundtrip : forall fs vs b r, zs_ser fs vs = Some b -> zs_deser fs (b ++ r) = Some (vs, r).
Proof.
  induction fs as [|f fs IH]; intros vs b r H.
  - destruct vs; cbn in H; [|discriminate]. inversion H. reflexivity.
  - destruct vs as [|v vs]; cbn [zs_ser] in H; [discriminate|].
    destruct (ser false f v) as [b1|] eqn:E1; [|discriminate].
    destruct (zs_ser fs vs) as [bs|] eqn:E2; [|discriminate]. inversion H; subst b.
    cbn [zs_deser]. rewrite <- app_assoc, (ser_deser _ _ _ _ _ E1), (IH _ _ _ E2). reflexivity.
Qed.

Lemma zs_exact : forall fs d, zs_size fs <= length d -> exists vs, zs_deser fs d = Some (vs, skipn (zs_size fs) d).
Proof.
  unfold zs_size. induction fs as [|f fs IH]; intros d H; [exists []; reflexivity|].
  cbn [map] in *. change (list_sum (?x :: ?l)) with (x + list_sum l) in *.
  set (sz := fst (size_align false f)) in *. set (rest := list_sum (map _ fs)) in *.
  destruct (deser_exact false f d) as [v Hv]; [fold sz; lia|]. fold sz in Hv. cbn [zs_deser]. rewrite Hv.
  destruct (IH (skipn sz d)) as [vs Hvs]; [rewrite skipn_length; fold rest; lia|]. rewrite Hvs.
  exists (v :: vs). fold rest. rewrite skipn_skipn. replace (sz + rest) with (rest + sz) by lia. reflexivity.
Qed.

Lemma zs_short : forall fs d, length d < zs_size fs -> zs_deser fs d = None.
Proof.
  unfold zs_size. induction fs as [|f fs IH]; intros d H; [cbn in H; lia|].
  cbn [map] in *. change (list_sum (?x :: ?l)) with (x + list_sum l) in *.
  set (sz := fst (size_align false f)) in *. set (rest := list_sum (map _ fs)) in *. cbn [zs_deser].
  destruct (Nat.lt_ge_cases (length d) sz) as [L|L].
  - rewrite deser_short by (fold sz; exact L). reflexivity.
  - destruct (deser_exact false f d) as [v Hv]; [fold sz; lia|]. fold sz in Hv. rewrite Hv.
    rewrite IH; [reflexivity|]. rewrite skipn_length. fold rest. lia.
Qed.

Lemma zs_valid_ser : forall fs vs, zs_valid fs vs = true <-> exists b, zs_ser fs vs = Some b.
Proof.
  unfold zs_valid. induction fs as [|f fs IH]; intros vs.
  - destruct vs; cbn; split; try discriminate; try (intros [b Hb]; discriminate); eauto.
  - destruct vs as [|v vs]; [cbn; split; [discriminate|intros [b Hb]; discriminate]|].
    rewrite valid_nested_cons, andb_true_iff, (valid_ser false f v), (IH vs). cbn [zs_ser]. split.
    + intros [[b Hb] [bs Hbs]]. rewrite Hb, Hbs. eauto.
    + intros [bs H]. destruct (ser false f v) as [b|]; [|discriminate].
      destruct (zs_ser fs vs) as [bs'|]; [|discriminate]. eauto.
Qed.

(* NVRAMStruct.get_byte_size is the packed struct size = the length of every serialization *)
Theorem get_byte_size_is_packed_size : forall fs, wf (CNested fs) = true -> zs_size fs = cs_size false fs.
Proof. intros fs H. destruct (packed_layout fs H) as (_ & _ & _ & S). rewrite S. reflexivity. Qed.

(* ---- lists of records ---- *)
Section ItemFacts.
  Variable ty : list cty.

  Lemma ser_items_length : forall rs bs, ser_items ty rs = Some bs -> length bs = zs_size ty * length rs.
  Proof.
    induction rs as [|x rs IH]; intros bs H.
    - cbn in H. inversion H. cbn. lia.
    - cbn [ser_items] in H. destruct (zs_ser ty x) as [b|] eqn:E1; [|discriminate].
      destruct (ser_items ty rs) as [bs'|] eqn:E2; [|discriminate]. inversion H; subst bs.
      rewrite app_length, (zs_ser_length _ _ _ E1), (IH _ eq_refl). cbn [length]. lia.
  Qed.

  Lemma ser_items_defined : forall rs, Forall (fun x => zs_valid ty x = true) rs <-> exists bs, ser_items ty rs = Some bs.
  Proof.
    induction rs as [|x rs IH]; [cbn; split; eauto|]. cbn [ser_items]. split.
    - intros H. inversion H as [|? ? Hx Hr]; subst. apply zs_valid_ser in Hx. destruct Hx as [b Hb].
      apply IH in Hr. destruct Hr as [bs Hbs]. rewrite Hb, Hbs. eauto.
    - intros [bs H]. destruct (zs_ser ty x) as [b|] eqn:E1; [|discriminate].
      destruct (ser_items ty rs) as [bs'|] eqn:E2; [|discriminate]. constructor.
      + apply zs_valid_ser. eauto.
      + apply IH. eauto.
  Qed.

  Lemma dec_n_roundtrip : forall rs bs r, ser_items ty rs = Some bs -> dec_n ty (length rs) (bs ++ r) = Some (rs, r).
  Proof.
    induction rs as [|x rs IH]; intros bs r H.
    - cbn in H. inversion H. reflexivity.
    - cbn [ser_items] in H. destruct (zs_ser ty x) as [b|] eqn:E1; [|discriminate].
      destruct (ser_items ty rs) as [bs'|] eqn:E2; [|discriminate]. inversion H; subst bs.
      cbn [length dec_n]. rewrite <- app_assoc, (zs_roundtrip _ _ _ _ E1), (IH _ _ eq_refl). reflexivity.
  Qed.

  Lemma dec_n_short : forall k d, length d < zs_size ty * k -> dec_n ty k d = None.
  Proof.
    induction k as [|k IH]; intros d H; [lia|]. cbn [dec_n].
    destruct (Nat.lt_ge_cases (length d) (zs_size ty)) as [L|L].
    - rewrite zs_short by exact L. reflexivity.
    - destruct (zs_exact ty d L) as [v Hv]. rewrite Hv. rewrite IH; [reflexivity|]. rewrite skipn_length. lia.
  Qed.
End ItemFacts.

(* ================= the address map ================= *)
Lemma addr_sizes : zs_size addr_hdr_ty = 6 /\ zs_size addr_rec_ty = 16 /\ zs_size aps_entry_ty = 28.
Proof. repeat split. Qed.

Lemma addr_hdr_ser : forall bc n ver al, (bc < 65536)%N -> (n < 256)%N -> (ver < 256)%N -> (al < 65536)%N ->
  zs_ser addr_hdr_ty [VInt bc; VInt n; VInt ver; VInt al] =
  Some (le_enc 2 bc ++ le_enc 1 n ++ le_enc 1 ver ++ le_enc 2 al).
Proof.
  intros bc n ver al H1 H2 H3 H4. unfold addr_hdr_ty. cbn [zs_ser ser].
  change (256 ^ N.of_nat 2)%N with 65536%N. change (256 ^ N.of_nat 1)%N with 256%N.
  apply N.ltb_lt in H1, H2, H3, H4. rewrite H1, H2, H3, H4. rewrite app_nil_r. reflexivity.
Qed.

(* the read layout with ANY byte_count / version / _align header values: the parser uses entry_count only *)
Theorem addr_map_parse_read_layout : forall rs items bc ver al r,
  ser_items addr_rec_ty rs = Some items -> length rs < 256 ->
  (bc < 65536)%N -> (ver < 256)%N -> (al < 65536)%N ->
  parse_addr_map (addr_map_read_layout bc ver al (length rs) items ++ r) = Some (rs, r).
Proof.
  intros rs items bc ver al r Hi Hn Hbc Hver Hal. unfold parse_addr_map, addr_map_read_layout.
  assert (Hn' : (N.of_nat (length rs) < 256)%N) by lia.
  pose proof (addr_hdr_ser bc _ ver al Hbc Hn' Hver Hal) as Hh.
  pose proof (zs_roundtrip _ _ _ (items ++ r) Hh) as R.
  rewrite <- !app_assoc in R. rewrite <- !app_assoc. rewrite R. rewrite Nat2N.id. apply dec_n_roundtrip. exact Hi.
Qed.

(* what DSNwkAddrMap.serialize produces: header (byte_count = 4 + 16 n, entry_count = n, version 2, 0) + records;
   it needs n < 256 (entry_count is a uint8_t) *)
Theorem addr_map_serialize_form : forall rs items, ser_items addr_rec_ty rs = Some items -> length rs < 256 ->
  serialize_addr_map rs =
  Some (addr_map_read_layout (N.of_nat (4 + 16 * length rs)) addr_map_version 0%N (length rs) items).
Proof.
  intros rs items Hi Hn. unfold serialize_addr_map. rewrite Hi.
  pose proof (ser_items_length _ _ _ Hi) as L. destruct addr_sizes as (S6 & S16 & _). rewrite S16 in L. rewrite S6.
  replace (length items + 6 - 2) with (4 + 16 * length rs) by lia.
  rewrite addr_hdr_ser by (unfold addr_map_version; lia).
  unfold addr_map_read_layout. rewrite <- !app_assoc. reflexivity.
Qed.

Theorem addr_map_serialize_overflow : forall rs, 256 <= length rs -> serialize_addr_map rs = None.
Proof.
  intros rs Hn. unfold serialize_addr_map. destruct (ser_items addr_rec_ty rs) as [items|]; [|reflexivity].
  unfold addr_hdr_ty. cbn [zs_ser ser]. change (256 ^ N.of_nat 1)%N with 256%N.
  destruct (_ <? 256 ^ N.of_nat 2)%N; [|reflexivity].
  replace (N.of_nat (length rs) <? 256)%N with false by (symmetry; apply N.ltb_ge; lia). reflexivity.
Qed.

(* MAIN (address map): for every list of valid records (fewer than 256) and every suffix *)
Theorem addr_map_roundtrip : forall rs, Forall (fun x => zs_valid addr_rec_ty x = true) rs -> length rs < 256 ->
  exists b, serialize_addr_map rs = Some b /\ length b = 6 + 16 * length rs /\
            (forall r, parse_addr_map (b ++ r) = Some (rs, r)) /\
            (forall k, k < length b -> parse_addr_map (firstn k b) = None).
Proof.
  intros rs Hv Hn. destruct (proj1 (ser_items_defined addr_rec_ty rs) Hv) as [items Hi].
  pose proof (ser_items_length _ _ _ Hi) as L. destruct addr_sizes as (S6 & S16 & _). rewrite S16 in L.
  eexists. split; [apply addr_map_serialize_form; eassumption|].
  assert (Hlen : length (addr_map_read_layout (N.of_nat (4 + 16 * length rs)) addr_map_version 0 (length rs) items)
                 = 6 + 16 * length rs).
  { unfold addr_map_read_layout. rewrite !app_length, !le_enc_length. lia. }
  split; [exact Hlen|]. split.
  - intros r. apply addr_map_parse_read_layout; try assumption; unfold addr_map_version; lia.
  - intros k Hk. rewrite Hlen in Hk. unfold parse_addr_map.
    set (b := addr_map_read_layout _ _ _ _ _) in *.
    destruct (Nat.lt_ge_cases k 6) as [K|K].
    + rewrite zs_short; [reflexivity|]. rewrite firstn_length, S6. lia.
    + (* the header is complete: firstn k b = header ++ firstn (k-6) items *)
      assert (Hn' : (N.of_nat (length rs) < 256)%N) by lia.
      pose proof (addr_hdr_ser (N.of_nat (4 + 16 * length rs)) _ addr_map_version 0%N ltac:(lia) Hn'
                    ltac:(unfold addr_map_version; lia) ltac:(lia)) as Hh.
      set (h := le_enc 2 _ ++ le_enc 1 _ ++ le_enc 1 _ ++ le_enc 2 _) in Hh.
      assert (Eb : b = h ++ items) by (unfold b, addr_map_read_layout, h; rewrite <- !app_assoc; reflexivity).
      assert (Lh : length h = 6) by (unfold h; rewrite !app_length, !le_enc_length; reflexivity).
      rewrite Eb, firstn_app, Lh, (firstn_all2 h) by lia.
      rewrite (zs_roundtrip _ _ _ _ Hh), Nat2N.id. apply dec_n_short. rewrite firstn_length, S16. lia.
Qed.

(* through nvram.py: the dataset bytes the NCP returns are entry_count, version, _align, records; read() prepends
   their u16 length - which is exactly the header's byte_count *)
Corollary addr_map_from_dataset : forall rs items ver al, ser_items addr_rec_ty rs = Some items -> length rs < 256 ->
  (ver < 256)%N -> (al < 65536)%N ->
  parse_addr_map (nvram_read_bytes (le_enc 1 (N.of_nat (length rs)) ++ le_enc 1 ver ++ le_enc 2 al ++ items))
  = Some (rs, []).
Proof.
  intros rs items ver al Hi Hn Hver Hal. unfold nvram_read_bytes.
  pose proof (ser_items_length _ _ _ Hi) as L. destruct addr_sizes as (_ & S16 & _). rewrite S16 in L.
  pose proof (addr_map_parse_read_layout rs items
     (N.of_nat (length (le_enc 1 (N.of_nat (length rs)) ++ le_enc 1 ver ++ le_enc 2 al ++ items))) ver al [] Hi Hn) as P.
  unfold addr_map_read_layout in P. rewrite app_nil_r in P. apply P; try assumption.
  rewrite !app_length, !le_enc_length. lia.
Qed.

(* ================= the APS key table ================= *)

(* the entry-count arithmetic is exact on read layouts: length = 4 + 28 n  gives n, with remainder 0 *)
Theorem aps_entry_count_exact : forall n, aps_entry_count (N.of_nat (4 + 28 * n)) = n /\
  Z.rem (Z.of_N (N.of_nat (4 + 28 * n)) - 4) 28 = 0%Z.
Proof.
  intros n. unfold aps_entry_count. destruct addr_sizes as (_ & _ & S28). rewrite S28.
  replace (Z.of_N (N.of_nat (4 + 28 * n)) - 4)%Z with (Z.of_nat n * 28)%Z by lia.
  change (Z.of_nat 28) with 28%Z. rewrite Z.quot_mul by lia. rewrite Z.rem_mul by lia. split; [lia|reflexivity].
Qed.

(* ... and on what DSApsSecureKeys.serialize writes (length = 28 n) it is one short *)
Theorem aps_entry_count_of_serialize_length : forall n, 0 < n -> aps_entry_count (N.of_nat (28 * n)) = n - 1.
Proof.
  intros n Hn. unfold aps_entry_count. destruct addr_sizes as (_ & _ & S28). rewrite S28.
  change (Z.of_nat 28) with 28%Z.
  pose proof (Z.quot_rem (Z.of_N (N.of_nat (28 * n)) - 4) 28 ltac:(lia)) as QR.
  pose proof (Z.rem_bound_pos (Z.of_N (N.of_nat (28 * n)) - 4) 28 ltac:(lia) ltac:(lia)) as RB.
  lia.
Qed.

(* lengths below 4 (negative numerator in Python) give no entries *)
Lemma aps_entry_count_small : forall len, (len < 32)%N -> aps_entry_count len = 0.
Proof.
  intros len H. unfold aps_entry_count. destruct addr_sizes as (_ & _ & S28). rewrite S28. change (Z.of_nat 28) with 28%Z.
  destruct (Z.lt_ge_cases (Z.of_N len - 4) 0) as [L|L].
  - pose proof (Z.quot_opp_l (4 - Z.of_N len) 28 ltac:(lia)) as Q.
    replace (- (4 - Z.of_N len))%Z with (Z.of_N len - 4)%Z in Q by lia. rewrite Q.
    rewrite Z.quot_small by lia. reflexivity.
  - rewrite Z.quot_small by lia. reflexivity.
Qed.

(* MAIN (APS keys): the read layout = u16 (4 + 28 n), any 4 bytes, the n entries *)
Theorem aps_keys_parse_read_layout : forall rs items x4 r,
  ser_items aps_entry_ty rs = Some items -> length x4 = 4 -> (4 + 28 * N.of_nat (length rs) < 65536)%N ->
  parse_aps_keys (aps_keys_read_layout x4 (length rs) items ++ r) = Some (rs, r).
Proof.
  intros rs items x4 r Hi Hx Hn. unfold parse_aps_keys, aps_keys_read_layout.
  destruct addr_sizes as (_ & _ & S28). rewrite S28. rewrite <- !app_assoc.
  rewrite le_roundtrip by (change (256 ^ N.of_nat 2)%N with 65536%N; lia).
  cbv zeta. rewrite (proj1 (aps_entry_count_exact (length rs))).
  rewrite <- Hx, skipn_app, Nat.sub_diag, skipn_all. cbn [skipn app].
  apply dec_n_roundtrip. exact Hi.
Qed.

Theorem aps_keys_roundtrip : forall rs x4, Forall (fun x => zs_valid aps_entry_ty x = true) rs ->
  length x4 = 4 -> (4 + 28 * N.of_nat (length rs) < 65536)%N ->
  exists items, ser_items aps_entry_ty rs = Some items /\
    let b := aps_keys_read_layout x4 (length rs) items in
    length b = 6 + 28 * length rs /\
    (forall r, parse_aps_keys (b ++ r) = Some (rs, r)) /\
    (rs <> [] -> forall k, k < length b -> parse_aps_keys (firstn k b) = None).
Proof.
  intros rs x4 Hv Hx Hn. destruct (proj1 (ser_items_defined aps_entry_ty rs) Hv) as [items Hi].
  exists items. split; [exact Hi|]. cbv zeta.
  pose proof (ser_items_length _ _ _ Hi) as L. destruct addr_sizes as (_ & _ & S28). rewrite S28 in L.
  assert (Hlen : length (aps_keys_read_layout x4 (length rs) items) = 6 + 28 * length rs).
  { unfold aps_keys_read_layout. rewrite !app_length, le_enc_length. lia. }
  split; [exact Hlen|]. split.
  - intros r. apply aps_keys_parse_read_layout; assumption.
  - intros Hne k Hk. rewrite Hlen in Hk. unfold parse_aps_keys.
    assert (Hpos : 0 < length rs) by (destruct rs; [congruence|cbn; lia]).
    set (h := le_enc 2 (N.of_nat (4 + zs_size aps_entry_ty * length rs))).
    assert (Eb : aps_keys_read_layout x4 (length rs) items = h ++ (x4 ++ items)) by reflexivity.
    assert (Lh : length h = 2) by (unfold h; apply le_enc_length).
    rewrite Eb. destruct (Nat.lt_ge_cases k 2) as [K|K].
    + rewrite le_dec_short; [reflexivity|]. rewrite firstn_length. lia.
    + rewrite firstn_app, Lh, (firstn_all2 h) by lia. unfold h. rewrite S28.
      rewrite le_roundtrip by (change (256 ^ N.of_nat 2)%N with 65536%N; lia).
      cbv zeta. rewrite (proj1 (aps_entry_count_exact (length rs))).
      apply dec_n_short. rewrite skipn_length, firstn_length, app_length, S28. lia.
Qed.

(* the one truncation that is NOT detected: no entries, cut inside the 4 redundant bytes *)
Example aps_keys_empty_cut_undetected :
  parse_aps_keys (firstn 3 (aps_keys_read_layout [170; 187; 170; 187]%N 0 [])) = Some ([], []).
Proof. vm_compute. reflexivity. Qed.

(* through nvram.py: dataset bytes = 4 bytes + entries; read() prepends their u16 length = 4 + 28 n *)
Corollary aps_keys_from_dataset : forall rs items x4, ser_items aps_entry_ty rs = Some items -> length x4 = 4 ->
  (4 + 28 * N.of_nat (length rs) < 65536)%N ->
  parse_aps_keys (nvram_read_bytes (x4 ++ items)) = Some (rs, []).
Proof.
  intros rs items x4 Hi Hx Hn. unfold nvram_read_bytes.
  pose proof (ser_items_length _ _ _ Hi) as L. destruct addr_sizes as (_ & _ & S28). rewrite S28 in L.
  pose proof (aps_keys_parse_read_layout rs items x4 [] Hi Hx Hn) as P.
  unfold aps_keys_read_layout in P. rewrite S28 in P. rewrite <- !app_assoc, app_nil_r in P.
  rewrite app_length, Hx, L. replace (4 + 28 * length rs) with (4 + 28 * length rs) by lia. exact P.
Qed.

(* what DSApsSecureKeys.serialize writes: u16 (28 n) then the entries - no 4 redundant bytes, length not + 4 *)
Theorem aps_keys_serialize_form : forall rs items, ser_items aps_entry_ty rs = Some items -> (28 * N.of_nat (length rs) < 65536)%N ->
  serialize_aps_keys rs = Some (le_enc 2 (N.of_nat (28 * length rs)) ++ items).
Proof.
  intros rs items Hi Hn. unfold serialize_aps_keys. rewrite Hi. destruct addr_sizes as (_ & _ & S28). rewrite S28.
  cbn [ser]. change (256 ^ N.of_nat 2)%N with 65536%N.
  replace (N.of_nat (length rs * 28) <? 65536)%N with true by (symmetry; apply N.ltb_lt; lia).
  rewrite (Nat.mul_comm (length rs) 28). reflexivity.
Qed.

(* hence the library's own serialization is not a read layout: parsing it yields n - 1 entries, shifted by
   4 bytes (or a ValueError) - never the n stored records (shown by the count; concrete instance below) *)
Theorem aps_keys_serialize_is_not_read_layout : forall rs items r, ser_items aps_entry_ty rs = Some items ->
  rs <> [] -> (28 * N.of_nat (length rs) < 65536)%N ->
  forall b, serialize_aps_keys rs = Some b ->
  forall out rest, parse_aps_keys (b ++ r) = Some (out, rest) -> length out = length rs - 1.
Proof.
  intros rs items r Hi Hne Hn b Hb out rest Hp.
  rewrite (aps_keys_serialize_form rs items Hi Hn) in Hb.
  assert (Eb : b = le_enc 2 (N.of_nat (28 * length rs)) ++ items) by congruence. subst b. clear Hb.
  unfold parse_aps_keys in Hp. rewrite <- app_assoc in Hp.
  rewrite le_roundtrip in Hp by (change (256 ^ N.of_nat 2)%N with 65536%N; lia). cbv zeta in Hp.
  assert (Hpos : 0 < length rs) by (destruct rs; [congruence|cbn; lia]).
  rewrite (aps_entry_count_of_serialize_length _ Hpos) in Hp.
  revert out rest Hp. generalize (skipn 4 (items ++ r)). generalize (length rs - 1).
  induction n as [|n IH]; intros d out rest H.
  - cbn in H. inversion H. reflexivity.
  - cbn [dec_n] in H. destruct (zs_deser aps_entry_ty d) as [[v d']|]; [|discriminate].
    destruct (dec_n aps_entry_ty n d') as [[vs r']|] eqn:E; [|discriminate]. inversion H; subst.
    cbn [length]. f_equal. exact (IH _ _ _ E).
Qed.
