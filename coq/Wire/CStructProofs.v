(* PROOFS about the CStruct model: layout (packed / natural alignment), serialize length, round trip,
   strictness - for every struct definition (any field list, any nesting) and both alignment modes. *)
From Coq Require Import NArith ZArith List Bool Arith Lia ZifyBool ZifyNat ZifyN.
From ZB Require Import Base.Bytes Wire.CStruct.
Import ListNotations.
Open Scope nat_scope.

(* ---- nested induction principle for field types ---- *)
Section Ind.
  Variable P : cty -> Prop.
  Hypothesis HInt : forall s, P (CInt s).
  Hypothesis HBytes : forall n, P (CBytes n).
  Hypothesis HNested : forall fs, Forall P fs -> P (CNested fs).
  Fixpoint cty_ind' (t : cty) : P t :=
    match t with
    | CInt s => HInt s
    | CBytes n => HBytes n
    | CNested fs => HNested fs ((fix go (l : list cty) : Forall P l :=
          match l with [] => Forall_nil P | x :: l' => Forall_cons x (cty_ind' x) (go l') end) fs)
    end.
End Ind.

(* ---- (-offset) % alignment ---- *)
Lemma mod0_unique : forall a x y, 0 < a -> x mod a = 0 -> y mod a = 0 -> x <= y -> y < x + a -> x = y.
Proof.
  intros a x y Ha Hx Hy Hle Hlt.
  apply Nat.mod_divides in Hx; [|lia]. apply Nat.mod_divides in Hy; [|lia].
  destruct Hx as [c1 ->]. destruct Hy as [c2 ->]. f_equal. nia.
Qed.

Lemma pad_to_lt : forall off a, 0 < a -> pad_to off a < a.
Proof. intros off a Ha. unfold pad_to. apply Nat.mod_upper_bound. lia. Qed.

Lemma pad_to_aligned : forall off a, 0 < a -> (off + pad_to off a) mod a = 0.
Proof.
  intros off a Ha. unfold pad_to.
  pose proof (Nat.mod_upper_bound off a ltac:(lia)) as Hm.
  pose proof (Nat.div_mod off a ltac:(lia)) as Hd.
  destruct (Nat.eq_dec (off mod a) 0) as [E|E].
  - rewrite E, Nat.sub_0_r, Nat.mod_same by lia. rewrite Nat.add_0_r. exact E.
  - rewrite (Nat.mod_small (a - off mod a) a) by lia.
    replace (off + (a - off mod a)) with ((off / a + 1) * a) by nia.
    apply Nat.mod_mul. lia.
Qed.

Lemma pad_to_unique : forall off a p, 0 < a -> p < a -> (off + p) mod a = 0 -> p = pad_to off a.
Proof.
  intros off a p Ha Hp Hm.
  pose proof (pad_to_lt off a Ha) as Hq. pose proof (pad_to_aligned off a Ha) as Hqm.
  destruct (Nat.le_ge_cases p (pad_to off a)) as [L|L].
  - assert (off + p = off + pad_to off a) by (apply (mod0_unique a); lia). lia.
  - assert (off + pad_to off a = off + p) by (apply (mod0_unique a); lia). lia.
Qed.

Lemma pad_to_1 : forall off, pad_to off 1 = 0.
Proof. intros off. pose proof (pad_to_lt off 1 ltac:(lia)). lia. Qed.

(* ---- layout, generic in the (size, alignment) function ---- *)
Section LayoutFacts.
  Variable sa : cty -> nat * nat.

  Lemma padded_from_length : forall fs off, length (padded_from sa off fs) = length fs.
  Proof.
    induction fs as [|f fs IH]; intros off; [reflexivity|]. cbn [padded_from].
    destruct (sa f) as [sz a]. cbn [length]. rewrite IH. reflexivity.
  Qed.

  Lemma padded_from_natural : forall fs off, Forall (fun f => 0 < snd (sa f)) fs ->
    natural_layout off (map sa fs) (padded_from sa off fs).
  Proof.
    induction fs as [|f fs IH]; intros off H; [exact I|].
    inversion H as [|? ? Hf Hfs]; subst. cbn [padded_from map].
    destruct (sa f) as [sz a] eqn:E. cbn [snd] in Hf. cbn [natural_layout].
    repeat split; [apply pad_to_lt; exact Hf | apply pad_to_aligned; exact Hf | apply IH; exact Hfs].
  Qed.

  Lemma padded_from_packed : forall fs off, Forall (fun f => snd (sa f) = 1) fs ->
    padded_from sa off fs = map (fun f => (0, fst (sa f))) fs.
  Proof.
    induction fs as [|f fs IH]; intros off H; [reflexivity|].
    inversion H as [|? ? Hf Hfs]; subst. cbn [padded_from map].
    destruct (sa f) as [sz a] eqn:E. cbn [snd fst] in *. subst a. rewrite pad_to_1.
    f_equal. apply IH. exact Hfs.
  Qed.

  Lemma alignment_ge : forall fs f, In f fs -> snd (sa f) <= alignment sa fs.
  Proof.
    unfold alignment. induction fs as [|g fs IH]; intros f Hin; [destruct Hin|].
    cbn [map fold_right]. destruct Hin as [->|Hin]; [lia|]. specialize (IH f Hin). lia.
  Qed.

  Lemma alignment_all1 : forall fs, fs <> [] -> Forall (fun f => snd (sa f) = 1) fs -> alignment sa fs = 1.
  Proof.
    unfold alignment. induction fs as [|g fs IH]; intros Hne H; [congruence|].
    inversion H as [|? ? Hg Hfs]; subst. cbn [map fold_right]. rewrite Hg.
    destruct fs as [|h fs']; [reflexivity|]. rewrite IH; [reflexivity|discriminate|exact Hfs].
  Qed.

  Lemma raw_le_size : forall fs, raw_size sa fs <= size sa fs.
  Proof. intros fs. unfold size. lia. Qed.

  Lemma size_natural_total : forall fs, 0 < alignment sa fs ->
    natural_total (map sa fs) (padded sa fs) (size sa fs) (alignment sa fs).
  Proof.
    intros fs Ha. unfold natural_total. rewrite map_map. fold (alignment sa fs). fold (raw_size sa fs).
    unfold size. pose proof (pad_to_lt (raw_size sa fs) _ Ha). pose proof (pad_to_aligned (raw_size sa fs) _ Ha).
    repeat split; try lia; assumption.
  Qed.
End LayoutFacts.

(* the natural layout is unique: the rule determines every padding *)
Lemma natural_layout_unique : forall sas off p1 p2, Forall (fun s => 0 < snd s) sas ->
  natural_layout off sas p1 -> natural_layout off sas p2 -> p1 = p2.
Proof.
  induction sas as [|[sz a] sas IH]; intros off p1 p2 Hpos H1 H2.
  - destruct p1, p2; cbn in *; try contradiction. reflexivity.
  - inversion Hpos as [|? ? Ha Hr]; subst. cbn [snd] in Ha.
    destruct p1 as [|[q1 s1] p1]; [contradiction|]. destruct p2 as [|[q2 s2] p2]; [contradiction|].
    cbn [natural_layout] in H1, H2.
    destruct H1 as (E1 & L1 & M1 & R1). destruct H2 as (E2 & L2 & M2 & R2). subst s1 s2.
    assert (q1 = q2).
    { rewrite (pad_to_unique off a q1 Ha L1 M1). rewrite (pad_to_unique off a q2 Ha L2 M2). reflexivity. }
    subst q2. f_equal. exact (IH _ _ _ Hr R1 R2).
Qed.

Lemma natural_layout_b_spec : forall sas off pads, natural_layout_b off sas pads = true <-> natural_layout off sas pads.
Proof.
  induction sas as [|[sz a] sas IH]; intros off pads.
  - destruct pads; cbn; split; intros; try discriminate; try contradiction; auto.
  - destruct pads as [|[p sz'] pads]; cbn [natural_layout natural_layout_b]; [split; [discriminate|contradiction]|].
    rewrite !andb_true_iff, Nat.eqb_eq, Nat.ltb_lt, Nat.eqb_eq, IH. tauto.
Qed.

Lemma natural_total_b_spec : forall sas pads total align,
  natural_total_b sas pads total align = true <-> natural_total sas pads total align.
Proof.
  intros. unfold natural_total_b, natural_total. cbv zeta.
  rewrite !andb_true_iff, Nat.eqb_eq, Nat.leb_le, Nat.ltb_lt, Nat.eqb_eq. tauto.
Qed.

(* ---- well-formed definitions ---- *)
Lemma wf_nested : forall fs, wf (CNested fs) = true -> fs <> [] /\ Forall (fun f => wf f = true) fs.
Proof.
  intros fs H. cbn [wf] in H. destruct fs as [|f fs]; [discriminate|]. split; [discriminate|].
  apply Forall_forall. apply forallb_forall. exact H.
Qed.

Lemma align_pos : forall al t, wf t = true -> 0 < snd (size_align al t).
Proof.
  intros al. induction t as [s|n|fs IH] using cty_ind'; intros H.
  - cbn [wf] in H. apply Nat.ltb_lt in H. destruct al; cbn [size_align snd]; lia.
  - cbn. lia.
  - destruct (wf_nested fs H) as [Hne Hwf]. cbn [size_align snd].
    destruct fs as [|f fs]; [congruence|].
    inversion IH as [|? ? IHf _]; subst. inversion Hwf as [|? ? Hf _]; subst.
    pose proof (alignment_ge (size_align al) (f :: fs) f (or_introl eq_refl)). specialize (IHf Hf). lia.
Qed.

Lemma align_pos_fields : forall al fs, Forall (fun f => wf f = true) fs -> Forall (fun f => 0 < snd (size_align al f)) fs.
Proof. intros al fs H. eapply Forall_impl; [|exact H]. intros f Hf. apply align_pos. exact Hf. Qed.

Lemma align_packed : forall t, wf t = true -> snd (size_align false t) = 1.
Proof.
  induction t as [s|n|fs IH] using cty_ind'; intros H; [reflexivity|reflexivity|].
  destruct (wf_nested fs H) as [Hne Hwf]. cbn [size_align snd].
  apply alignment_all1; [exact Hne|].
  rewrite Forall_forall in *. intros f Hin. apply IH; [exact Hin|apply Hwf; exact Hin].
Qed.

(* ---- THEOREMS: layout ---- *)

(* alignment of the leaf types; a nested struct contributes its own size and alignment *)
Theorem int_alignment_is_size : forall s, size_align true (CInt s) = (s, s) /\ size_align false (CInt s) = (s, 1).
Proof. intros s. split; reflexivity. Qed.
Theorem bytes_alignment_is_1 : forall al n, size_align al (CBytes n) = (n, 1).
Proof. intros. reflexivity. Qed.
Theorem nested_size_align : forall al fs, size_align al (CNested fs) = (cs_size al fs, cs_alignment al fs).
Proof. intros. reflexivity. Qed.

(* the struct alignment is the largest field alignment *)
Theorem struct_alignment_is_max : forall al fs,
  cs_alignment al fs = fold_right Nat.max 0 (map (fun f => snd (size_align al f)) fs).
Proof. intros. reflexivity. Qed.

(* both modes: the (padding, size) list follows the natural-alignment rule for the fields' (size, alignment);
   every padding is minimal (< alignment), every field offset a multiple of the field's alignment *)
Theorem layout_is_natural : forall al fs, wf (CNested fs) = true ->
  natural_layout 0 (map (size_align al) fs) (cs_padded al fs).
Proof.
  intros al fs H. destruct (wf_nested fs H) as [_ Hwf]. unfold cs_padded, padded.
  apply padded_from_natural. apply align_pos_fields. exact Hwf.
Qed.

(* ... and it is the only list of paddings that does *)
Theorem layout_is_the_only_natural_one : forall al fs pads, wf (CNested fs) = true ->
  natural_layout 0 (map (size_align al) fs) pads -> pads = cs_padded al fs.
Proof.
  intros al fs pads H Hn. destruct (wf_nested fs H) as [_ Hwf].
  apply (natural_layout_unique (map (size_align al) fs) 0); [|exact Hn|apply layout_is_natural; exact H].
  apply Forall_map. apply align_pos_fields. exact Hwf.
Qed.

(* total size: first multiple of the struct alignment at or after the end of the last field *)
Theorem size_is_natural : forall al fs, wf (CNested fs) = true ->
  natural_total (map (size_align al) fs) (cs_padded al fs) (cs_size al fs) (cs_alignment al fs).
Proof.
  intros al fs H. apply size_natural_total. exact (align_pos al (CNested fs) H).
Qed.

Corollary size_multiple_of_alignment : forall al fs, wf (CNested fs) = true ->
  cs_size al fs mod cs_alignment al fs = 0.
Proof. intros al fs H. destruct (size_is_natural al fs H) as (_ & _ & _ & M). exact M. Qed.

(* explicit per-field form: offset_i is a multiple of alignment_i, padding_i < alignment_i,
   offset_i = end of field i-1 + padding_i *)
Fixpoint ends_from (off : nat) (pads : list (nat * nat)) : list nat :=
  match pads with [] => [] | (p, sz) :: pads' => (off + (p + sz)) :: ends_from (off + (p + sz)) pads' end.

Lemma natural_layout_nth : forall sas off pads, natural_layout off sas pads ->
  length pads = length sas /\
  forall i, i < length sas ->
    let a := snd (nth i sas (0, 0)) in
    let o := nth i (offsets_from off pads) 0 in
    let p := fst (nth i pads (0, 0)) in
    snd (nth i pads (0, 0)) = fst (nth i sas (0, 0)) /\ p < a /\ o mod a = 0 /\
    o = (match i with 0 => off | S j => nth j (ends_from off pads) 0 end) + p.
Proof.
  induction sas as [|[sz a] sas IH]; intros off pads H.
  - destruct pads; [|contradiction]. split; [reflexivity|]. intros i Hi. cbn in Hi. lia.
  - destruct pads as [|[p sz'] pads]; [contradiction|]. cbn [natural_layout] in H.
    destruct H as (E & L & M & R). subst sz'. destruct (IH _ _ R) as [Hlen Hn]. split; [cbn [length]; lia|].
    intros [|i] Hi.
    + cbn. repeat split; assumption.
    + cbn [length] in Hi. specialize (Hn i ltac:(lia)). cbn [nth offsets_from ends_from].
      cbv zeta in Hn |- *. destruct Hn as (A & B & C & D). repeat split; assumption.
Qed.

Theorem aligned_field_offsets : forall al fs, wf (CNested fs) = true ->
  forall i, i < length fs ->
    let f := nth i fs (CBytes 0) in
    let a := snd (size_align al f) in
    let o := nth i (cs_offsets al fs) 0 in
    let p := fst (nth i (cs_padded al fs) (0, 0)) in
    snd (nth i (cs_padded al fs) (0, 0)) = fst (size_align al f) /\
    p < a /\ o mod a = 0 /\
    o = (match i with 0 => 0 | S j => nth j (ends_from 0 (cs_padded al fs)) 0 end) + p.
Proof.
  intros al fs H i Hi. destruct (natural_layout_nth _ _ _ (layout_is_natural al fs H)) as [_ Hn].
  specialize (Hn i ltac:(rewrite map_length; exact Hi)). cbv zeta in Hn |- *.
  assert (E : nth i (map (size_align al) fs) (0, 0) = size_align al (nth i fs (CBytes 0))).
  { rewrite (nth_indep _ (0, 0) (size_align al (CBytes 0))) by (rewrite map_length; exact Hi). apply map_nth. }
  rewrite E in Hn. exact Hn.
Qed.

(* packed (align=False): no padding, each offset = sum of the preceding sizes, size = sum of the sizes *)
Fixpoint prefix_sums (off : nat) (l : list nat) : list nat :=
  match l with [] => [] | x :: l' => off :: prefix_sums (off + x) l' end.

Lemma prefix_sums_nth : forall l off i, i < length l -> nth i (prefix_sums off l) 0 = off + list_sum (firstn i l).
Proof.
  unfold list_sum. induction l as [|x l IH]; intros off i Hi; [cbn in Hi; lia|]. destruct i as [|i]; cbn [prefix_sums nth firstn list_sum fold_right]; [lia|].
  cbn [length] in Hi. rewrite IH by lia. lia.
Qed.

Lemma offsets_packed : forall (l : list nat) off,
  offsets_from off (map (fun s => (0, s)) l) = prefix_sums off l.
Proof.
  induction l as [|x l IH]; intros off; [reflexivity|]. cbn [map offsets_from prefix_sums].
  rewrite IH. f_equal. lia.
Qed.

Definition field_sizes (al : bool) (fs : list cty) : list nat := map (fun f => fst (size_align al f)) fs.

Theorem packed_layout : forall fs, wf (CNested fs) = true ->
  cs_alignment false fs = 1 /\
  cs_padded false fs = map (fun s => (0, s)) (field_sizes false fs) /\
  cs_offsets false fs = prefix_sums 0 (field_sizes false fs) /\
  cs_size false fs = list_sum (field_sizes false fs).
Proof.
  intros fs H. destruct (wf_nested fs H) as [Hne Hwf].
  assert (A1 : Forall (fun f => snd (size_align false f) = 1) fs).
  { eapply Forall_impl; [|exact Hwf]. intros f Hf. apply align_packed. exact Hf. }
  assert (Ha : cs_alignment false fs = 1) by (apply alignment_all1; assumption).
  assert (Hp : cs_padded false fs = map (fun s => (0, s)) (field_sizes false fs)).
  { unfold cs_padded, padded, field_sizes. rewrite padded_from_packed by exact A1. rewrite map_map. reflexivity. }
  split; [exact Ha|]. split; [exact Hp|]. split.
  - unfold cs_offsets. rewrite Hp. apply offsets_packed.
  - unfold cs_size, size. fold (cs_alignment false fs). rewrite Ha, pad_to_1, Nat.add_0_r.
    unfold raw_size. fold (cs_padded false fs). rewrite Hp, map_map. cbn [fst snd].
    f_equal. rewrite <- (map_id (field_sizes false fs)) at 2. apply map_ext. intros x. reflexivity.
Qed.

Corollary packed_field_offset : forall fs i, wf (CNested fs) = true -> i < length fs ->
  nth i (cs_offsets false fs) 0 = list_sum (firstn i (field_sizes false fs)).
Proof.
  intros fs i H Hi. destruct (packed_layout fs H) as (_ & _ & Ho & _). rewrite Ho.
  rewrite prefix_sums_nth; [lia|]. unfold field_sizes. rewrite map_length. exact Hi.
Qed.

(* ================= serialize / deserialize ================= *)

Lemma skipn_repeat_app : forall (x : N) p l, skipn p (repeat x p ++ l) = l.
Proof. induction p as [|p IH]; intros l; [reflexivity|]. cbn [repeat app skipn]. apply IH. Qed.

Lemma skipn_skipn : forall (A : Type) (x y : nat) (l : list A), skipn x (skipn y l) = skipn (x + y) l.
Proof.
  intros A x y. revert x. induction y as [|y IH]; intros x l; [rewrite Nat.add_0_r; reflexivity|].
  destruct l as [|h l]; [rewrite !skipn_nil; reflexivity|]. rewrite Nat.add_succ_r. cbn [skipn]. apply IH.
Qed.

Lemma bytes_ok_repeat_pad : forall p, bytes_ok (repeat padding_byte p).
Proof. induction p as [|p IH]; constructor; [unfold padding_byte; lia|exact IH]. Qed.

Lemma forallb_byte_ok : forall l, forallb byte_ok l = true -> bytes_ok l.
Proof.
  induction l as [|x l IH]; intros H; [constructor|]. cbn [forallb] in H. apply andb_true_iff in H. destruct H as [Hx Hl].
  constructor; [unfold byte_ok in Hx; apply N.ltb_lt in Hx; exact Hx | apply IH; exact Hl].
Qed.

Notation padsum pads := (list_sum (map (fun ps : nat * nat => fst ps + snd ps) pads)).

Section FieldLoops.
  Variable sa : cty -> nat * nat.
  Variable serf : cty -> cval -> option (list N).
  Variable dz : cty -> list N -> cres (cval * list N).

  Lemma ser_fields_length : forall fs,
    Forall (fun f => forall v b, serf f v = Some b -> length b = fst (sa f)) fs ->
    forall off vs bs, ser_fields serf (padded_from sa off fs) fs vs = Some bs ->
      length bs = padsum (padded_from sa off fs).
  Proof.
    clear dz.
    induction fs as [|f fs IH]; intros HF off vs bs H.
    - destruct vs; cbn in H; [|discriminate]. inversion H. reflexivity.
    - inversion HF as [|? ? Hf Hfs]; subst. cbn [padded_from] in *. destruct (sa f) as [sz a] eqn:E.
      destruct vs as [|v vs]; cbn [ser_fields] in H; [discriminate|].
      destruct (serf f v) as [b|] eqn:Eb; [|discriminate].
      destruct (ser_fields serf _ fs vs) as [bs'|] eqn:Ebs; [|discriminate].
      inversion H; subst bs. rewrite !app_length, repeat_length.
      rewrite (Hf _ _ Eb). try rewrite E. cbn [fst snd map]. rewrite (IH Hfs _ _ _ Ebs).
      change (list_sum (?x :: ?l)) with (x + list_sum l). cbn [fst snd]. lia.
  Qed.

  Lemma ser_fields_bytes_ok : forall fs,
    Forall (fun f => forall v b, serf f v = Some b -> bytes_ok b) fs ->
    forall pads vs bs, ser_fields serf pads fs vs = Some bs -> bytes_ok bs.
  Proof.
    clear dz sa.
    induction fs as [|f fs IH]; intros HF pads vs bs H.
    - destruct pads, vs; cbn in H; try discriminate. inversion H. constructor.
    - inversion HF as [|? ? Hf Hfs]; subst.
      destruct pads as [|[p s] pads]; destruct vs as [|v vs]; cbn [ser_fields] in H; try discriminate.
      destruct (serf f v) as [b|] eqn:Eb; [|discriminate].
      destruct (ser_fields serf pads fs vs) as [bs'|] eqn:Ebs; [|discriminate].
      inversion H; subst bs. apply bytes_ok_app_iff. split; [apply bytes_ok_repeat_pad|].
      apply bytes_ok_app_iff. split; [exact (Hf _ _ Eb) | exact (IH Hfs _ _ _ Ebs)].
  Qed.

  Lemma fields_roundtrip : forall fs,
    Forall (fun f => forall v b r, serf f v = Some b -> dz f (b ++ r) = COk (v, r)) fs ->
    forall pads vs bs r, ser_fields serf pads fs vs = Some bs ->
      deser_fields dz pads fs (bs ++ r) = COk (vs, r).
  Proof.
    clear sa.
    induction fs as [|f fs IH]; intros HF pads vs bs r H.
    - destruct pads, vs; cbn in H; try discriminate. inversion H. reflexivity.
    - inversion HF as [|? ? Hf Hfs]; subst.
      destruct pads as [|[p s] pads]; destruct vs as [|v vs]; cbn [ser_fields] in H; try discriminate.
      destruct (serf f v) as [b|] eqn:Eb; [|discriminate].
      destruct (ser_fields serf pads fs vs) as [bs'|] eqn:Ebs; [|discriminate].
      inversion H; subst bs. cbn [deser_fields]. rewrite <- !app_assoc, skipn_repeat_app.
      rewrite (Hf _ _ _ Eb). rewrite (IH Hfs _ _ _ _ Ebs). reflexivity.
  Qed.

  Lemma fields_exact : forall fs,
    Forall (fun f => forall d, fst (sa f) <= length d -> exists v, dz f d = COk (v, skipn (fst (sa f)) d)) fs ->
    forall off d, padsum (padded_from sa off fs) <= length d ->
      exists vs, deser_fields dz (padded_from sa off fs) fs d = COk (vs, skipn (padsum (padded_from sa off fs)) d).
  Proof.
    clear serf.
    induction fs as [|f fs IH]; intros HF off d H.
    - exists []. reflexivity.
    - inversion HF as [|? ? Hf Hfs]; subst. cbn [padded_from] in *. destruct (sa f) as [sz a] eqn:E.
      cbn [map fst snd] in *. change (list_sum (?x :: ?l)) with (x + list_sum l) in *.
      set (p := pad_to off a) in *. set (rest := padsum (padded_from sa (off + (p + sz)) fs)) in *.
      cbn [deser_fields]. cbn [fst] in Hf.
      destruct (Hf (skipn p d)) as [v Hv]; [rewrite skipn_length; lia|]. rewrite Hv, skipn_skipn.
      destruct (IH Hfs (off + (p + sz)) (skipn (sz + p) d)) as [vs Hvs]; [rewrite skipn_length; fold rest; lia|].
      rewrite Hvs. exists (v :: vs). fold rest. rewrite skipn_skipn.
      replace (p + sz + rest) with (rest + (sz + p)) by lia. reflexivity.
  Qed.
End FieldLoops.

(* length (serialize v) = size *)
Lemma ser_length : forall al t v b, ser al t v = Some b -> length b = fst (size_align al t).
Proof.
  intros al. induction t as [s|k|fs IH] using cty_ind'; intros v b H.
  - destruct v as [n| |]; cbn [ser] in H; try discriminate.
    destruct (n <? 256 ^ N.of_nat s)%N; [|discriminate]. inversion H. apply le_enc_length.
  - destruct v as [|bs|]; cbn [ser] in H; try discriminate.
    destruct (length bs =? k) eqn:E; cbn [andb] in H; [|discriminate].
    destruct (forallb byte_ok bs); [|discriminate]. inversion H; subst b. apply Nat.eqb_eq in E. exact E.
  - destruct v as [| |vs]; cbn [ser] in H; try discriminate.
    destruct (ser_fields (ser al) (padded (size_align al) fs) fs vs) as [bs|] eqn:E; [|discriminate].
    inversion H; subst b. cbn [size_align fst]. unfold ljust. rewrite app_length, repeat_length.
    pose proof (ser_fields_length (size_align al) (ser al) fs IH 0 vs bs E) as L.
    fold (padded (size_align al) fs) in L. fold (raw_size (size_align al) fs) in L.
    pose proof (raw_le_size (size_align al) fs). lia.
Qed.

Lemma ser_bytes_ok : forall al t v b, ser al t v = Some b -> bytes_ok b.
Proof.
  intros al. induction t as [s|k|fs IH] using cty_ind'; intros v b H.
  - destruct v as [n| |]; cbn [ser] in H; try discriminate.
    destruct (n <? 256 ^ N.of_nat s)%N; [|discriminate]. inversion H. apply le_enc_bytes_ok.
  - destruct v as [|bs|]; cbn [ser] in H; try discriminate.
    destruct (length bs =? k); cbn [andb] in H; [|discriminate].
    destruct (forallb byte_ok bs) eqn:F; [|discriminate]. inversion H; subst b. apply forallb_byte_ok. exact F.
  - destruct v as [| |vs]; cbn [ser] in H; try discriminate.
    destruct (ser_fields (ser al) (padded (size_align al) fs) fs vs) as [bs|] eqn:E; [|discriminate].
    inversion H; subst b. unfold ljust. apply bytes_ok_app_iff. split; [|apply bytes_ok_repeat_pad].
    exact (ser_fields_bytes_ok (ser al) fs IH _ _ _ E).
Qed.

(* deserialize (serialize v ++ rest) = (v, rest) *)
Lemma ser_deser : forall al t v b r, ser al t v = Some b -> deser al t (b ++ r) = COk (v, r).
Proof.
  intros al. induction t as [s|k|fs IH] using cty_ind'; intros v b r H.
  - destruct v as [n| |]; cbn [ser] in H; try discriminate.
    destruct (n <? 256 ^ N.of_nat s)%N eqn:L; [|discriminate]. inversion H; subst b.
    cbn [deser]. apply N.ltb_lt in L. rewrite le_roundtrip by exact L. reflexivity.
  - destruct v as [|bs|]; cbn [ser] in H; try discriminate.
    destruct (length bs =? k) eqn:E; cbn [andb] in H; [|discriminate].
    destruct (forallb byte_ok bs); [|discriminate]. inversion H; subst b. apply Nat.eqb_eq in E.
    cbn [deser]. rewrite app_length.
    destruct (length bs + length r <? k) eqn:L; [apply Nat.ltb_lt in L; lia|].
    subst k. rewrite firstn_app, Nat.sub_diag, firstn_all. cbn [firstn]. rewrite app_nil_r.
    rewrite skipn_app, Nat.sub_diag, skipn_all. reflexivity.
  - destruct v as [| |vs]; cbn [ser] in H; try discriminate.
    destruct (ser_fields (ser al) (padded (size_align al) fs) fs vs) as [bs|] eqn:E; [|discriminate].
    inversion H; subst b.
    assert (FL : Forall (fun f => forall v b, ser al f v = Some b -> length b = fst (size_align al f)) fs)
      by (apply Forall_forall; intros f _; apply ser_length).
    pose proof (ser_fields_length (size_align al) (ser al) fs FL 0 vs bs E) as L.
    fold (padded (size_align al) fs) in L. fold (raw_size (size_align al) fs) in L.
    pose proof (raw_le_size (size_align al) fs) as Hle.
    cbn [deser]. set (S := size (size_align al) fs) in *. set (pads := padded (size_align al) fs) in *.
    unfold ljust. rewrite <- app_assoc.
    rewrite !app_length, repeat_length.
    destruct (length bs + (S - length bs + length r) <? S) eqn:C; [apply Nat.ltb_lt in C; lia|].
    rewrite (fields_roundtrip (ser al) (deser al) fs IH pads vs bs _ E).
    rewrite app_length, repeat_length. unfold strip_final.
    replace (length bs + (S - length bs + length r) - (S - length bs + length r)) with (length bs) by lia.
    destruct (length bs <=? S) eqn:C2; [|apply Nat.leb_gt in C2; lia].
    rewrite skipn_repeat_app. reflexivity.
Qed.

(* strict: input shorter than the type's size is a ValueError (for a struct: the explicit length check) *)
Lemma deser_short : forall al t d, length d < fst (size_align al t) -> deser al t d = CValueError.
Proof.
  intros al [s|k|fs] d H; cbn [size_align fst] in H; cbn [deser].
  - rewrite le_dec_short by exact H. reflexivity.
  - destruct (length d <? k) eqn:C; [reflexivity|apply Nat.ltb_ge in C; lia].
  - destruct (length d <? size (size_align al) fs) eqn:C; [reflexivity|apply Nat.ltb_ge in C; lia].
Qed.

Lemma le_dec_long : forall w d, w <= length d -> exists n, le_dec w d = Some (n, skipn w d).
Proof.
  induction w as [|w IH]; intros d H; [exists 0%N; reflexivity|].
  destruct d as [|b d]; [cbn in H; lia|]. cbn [length] in H. destruct (IH d ltac:(lia)) as [n Hn].
  cbn [le_dec skipn]. rewrite Hn. eexists. reflexivity.
Qed.

(* exact: input at least as long as the size always decodes, consuming exactly `size` bytes whatever they are:
   the leaf reads and the unreachable branches of the model can not fail after the length check *)
Lemma deser_exact : forall al t d, fst (size_align al t) <= length d ->
  exists v, deser al t d = COk (v, skipn (fst (size_align al t)) d).
Proof.
  intros al. induction t as [s|k|fs IH] using cty_ind'; intros d H; cbn [size_align fst] in *; cbn [deser].
  - destruct (le_dec_long s d H) as [n Hn]. rewrite Hn. eexists. reflexivity.
  - destruct (length d <? k) eqn:C; [apply Nat.ltb_lt in C; lia|]. eexists. reflexivity.
  - set (S := size (size_align al) fs) in *.
    destruct (length d <? S) eqn:C; [apply Nat.ltb_lt in C; lia|].
    pose proof (raw_le_size (size_align al) fs) as Hle. fold S in Hle. unfold raw_size in Hle.
    destruct (fields_exact (size_align al) (deser al) fs IH 0 d) as [vs Hvs]; [fold (padded (size_align al) fs); lia|].
    fold (padded (size_align al) fs) in Hvs. rewrite Hvs. exists (VStruct vs). do 2 f_equal.
    set (raw := padsum (padded (size_align al) fs)) in *.
    unfold strip_final. rewrite skipn_length.
    replace (length d - (length d - raw)) with raw by lia.
    destruct (raw <=? S) eqn:C2; [|apply Nat.leb_gt in C2; lia].
    rewrite skipn_skipn. f_equal. lia.
Qed.

(* valid values are exactly those that serialize *)
Lemma valid_nested_cons : forall f fs v vs,
  valid (CNested (f :: fs)) (VStruct (v :: vs)) = valid f v && valid (CNested fs) (VStruct vs).
Proof. reflexivity. Qed.

Lemma valid_ser : forall al t v, valid t v = true <-> exists b, ser al t v = Some b.
Proof.
  intros al. induction t as [s|k|fs IH] using cty_ind'; intros v.
  - destruct v as [n| |]; cbn [valid ser]; try (split; [discriminate|intros [b Hb]; discriminate]).
    destruct (n <? 256 ^ N.of_nat s)%N; split; try discriminate; try (intros [b Hb]; discriminate); eauto.
  - destruct v as [|bs|]; cbn [valid ser]; try (split; [discriminate|intros [b Hb]; discriminate]).
    destruct ((length bs =? k) && forallb byte_ok bs); split; try discriminate; try (intros [b Hb]; discriminate); eauto.
  - destruct v as [| |vs]; try (cbn [valid ser]; split; [discriminate|intros [b Hb]; discriminate]).
    assert (G : forall off vs, valid (CNested fs) (VStruct vs) = true <->
                  exists bs, ser_fields (ser al) (padded_from (size_align al) off fs) fs vs = Some bs).
    { clear vs. induction IH as [|f fs Hf Hfs IHfs]; intros off vs.
      - destruct vs; cbn; split; try discriminate; try (intros [b Hb]; discriminate); eauto.
      - cbn [padded_from]. destruct (size_align al f) as [sz a].
        destruct vs as [|v vs]; [cbn; split; [discriminate|intros [b Hb]; discriminate]|].
        rewrite valid_nested_cons, andb_true_iff, (Hf v), (IHfs (off + (pad_to off a + sz)) vs).
        cbn [ser_fields]. split.
        + intros [[b Hb] [bs Hbs]]. rewrite Hb, Hbs. eauto.
        + intros [bs H]. destruct (ser al f v) as [b|]; [|discriminate].
          destruct (ser_fields _ _ fs vs) as [bs'|]; [|discriminate]. eauto. }
    rewrite (G 0 vs). cbn [ser]. unfold padded. split.
    + intros [bs Hbs]. rewrite Hbs. eauto.
    + intros [b Hb]. destruct (ser_fields _ _ fs vs) as [bs|]; [eauto|discriminate].
Qed.

(* ================= THEOREMS at the struct API ================= *)

Theorem cs_serialize_length : forall al fs vs b, cs_serialize al fs vs = Some b -> length b = cs_size al fs.
Proof. intros al fs vs b H. exact (ser_length al (CNested fs) (VStruct vs) b H). Qed.

Theorem cs_serialize_bytes : forall al fs vs b, cs_serialize al fs vs = Some b -> bytes_ok b.
Proof. intros al fs vs b H. exact (ser_bytes_ok al (CNested fs) (VStruct vs) b H). Qed.

Theorem cs_serialize_defined_iff_valid : forall al fs vs,
  valid (CNested fs) (VStruct vs) = true <-> exists b, cs_serialize al fs vs = Some b.
Proof. intros al fs vs. exact (valid_ser al (CNested fs) (VStruct vs)). Qed.

(* decoding the encoding followed by arbitrary further bytes returns the value and exactly those bytes *)
Theorem cs_roundtrip : forall al fs vs b r, cs_serialize al fs vs = Some b ->
  cs_deserialize al fs (b ++ r) = COk (VStruct vs, r).
Proof. intros al fs vs b r H. exact (ser_deser al (CNested fs) (VStruct vs) b r H). Qed.

(* ValueError exactly when the input is shorter than the struct size; otherwise exactly `size` bytes are consumed *)
Theorem cs_deserialize_short : forall al fs d, length d < cs_size al fs -> cs_deserialize al fs d = CValueError.
Proof. intros al fs d H. exact (deser_short al (CNested fs) d H). Qed.

Theorem cs_deserialize_exact : forall al fs d, cs_size al fs <= length d ->
  exists v, cs_deserialize al fs d = COk (v, skipn (cs_size al fs) d).
Proof. intros al fs d H. exact (deser_exact al (CNested fs) d H). Qed.

Theorem cs_deserialize_error_iff_short : forall al fs d,
  cs_deserialize al fs d = CValueError <-> length d < cs_size al fs.
Proof.
  intros al fs d. split; [|apply cs_deserialize_short].
  intros H. destruct (Nat.lt_ge_cases (length d) (cs_size al fs)) as [L|L]; [exact L|].
  destruct (cs_deserialize_exact al fs d L) as [v Hv]. rewrite Hv in H. discriminate.
Qed.

(* every encoding cut short is a ValueError *)
Theorem cs_strict_on_truncation : forall al fs vs b k, cs_serialize al fs vs = Some b -> k < length b ->
  cs_deserialize al fs (firstn k b) = CValueError.
Proof.
  intros al fs vs b k H Hk. apply cs_deserialize_short. rewrite firstn_length.
  rewrite <- (cs_serialize_length al fs vs b H). lia.
Qed.

(* all of it, for valid values *)
Theorem cs_codec : forall al fs vs, valid (CNested fs) (VStruct vs) = true ->
  exists b, cs_serialize al fs vs = Some b /\ length b = cs_size al fs /\ bytes_ok b /\
            (forall r, cs_deserialize al fs (b ++ r) = COk (VStruct vs, r)) /\
            (forall k, k < length b -> cs_deserialize al fs (firstn k b) = CValueError).
Proof.
  intros al fs vs Hv. destruct (proj1 (cs_serialize_defined_iff_valid al fs vs) Hv) as [b Hb].
  exists b. split; [exact Hb|]. split; [exact (cs_serialize_length _ _ _ _ Hb)|].
  split; [exact (cs_serialize_bytes _ _ _ _ Hb)|]. split.
  - intros r. exact (cs_roundtrip _ _ _ _ r Hb).
  - intros k Hk. exact (cs_strict_on_truncation _ _ _ _ k Hb Hk).
Qed.

(* non-vacuity: test_types_cstruct-like definition  u8, (u8, u32), EUI64, u24, KeyData, i8 *)
Example layout_example :
  let fs := [CInt 1; CNested [CInt 1; CInt 4]; CBytes 8; CInt 3; CBytes 16; CInt 1] in
  wf (CNested fs) = true /\
  cs_size false fs = 34 /\ cs_alignment false fs = 1 /\
  cs_size true fs = 44 /\ cs_alignment true fs = 4 /\
  cs_padded true fs = [(0, 1); (3, 8); (0, 8); (1, 3); (0, 16); (0, 1)] /\
  cs_offsets true fs = [0; 4; 12; 21; 24; 40].
Proof. cbv. repeat split. Qed.

Example codec_example :
  cs_serialize true [CInt 1; CInt 2; CInt 1] [VInt 1; VInt 0x0302; VInt 4] = Some [1; 255; 2; 3; 4; 255]%N /\
  cs_deserialize true [CInt 1; CInt 2; CInt 1] [1; 255; 2; 3; 4; 255; 9]%N = COk (VStruct [VInt 1; VInt 0x0302; VInt 4], [9]%N) /\
  cs_deserialize true [CInt 1; CInt 2; CInt 1] [1; 255; 2; 3; 4]%N = CValueError.
Proof. vm_compute. repeat split. Qed.

(* the shape of the encoding: for each field its padding (0xFF bytes) then its own encoding, then the final
   padding (0xFF bytes) up to the struct size *)
Fixpoint interleave (pads : list (nat * nat)) (chunks : list (list N)) : list N :=
  match pads, chunks with
  | (p, _) :: pads', c :: chunks' => repeat padding_byte p ++ c ++ interleave pads' chunks'
  | _, _ => []
  end.

Lemma ser_fields_form : forall serf fs pads vs bs, ser_fields serf pads fs vs = Some bs ->
  exists chunks, Forall2 (fun fv c => serf (fst fv) (snd fv) = Some c) (combine fs vs) chunks /\
                 length vs = length fs /\ bs = interleave pads chunks.
Proof.
  intros serf. induction fs as [|f fs IH]; intros pads vs bs H.
  - destruct pads, vs; cbn in H; try discriminate. inversion H. exists []. repeat split. constructor.
  - destruct pads as [|[p s] pads]; destruct vs as [|v vs]; cbn [ser_fields] in H; try discriminate.
    destruct (serf f v) as [b|] eqn:Eb; [|discriminate].
    destruct (ser_fields serf pads fs vs) as [bs'|] eqn:Ebs; [|discriminate].
    assert (E : bs = repeat padding_byte p ++ b ++ bs') by congruence. subst bs. clear H.
    destruct (IH _ _ _ Ebs) as (chunks & F & L & E). exists (b :: chunks). cbn [combine length interleave].
    split; [constructor; [exact Eb|exact F]|]. split; [rewrite L; reflexivity|]. rewrite E. reflexivity.
Qed.

Theorem cs_serialize_form : forall al fs vs b, cs_serialize al fs vs = Some b ->
  exists chunks, Forall2 (fun fv c => ser al (fst fv) (snd fv) = Some c) (combine fs vs) chunks /\
    length vs = length fs /\
    let body := interleave (cs_padded al fs) chunks in
    b = body ++ repeat padding_byte (cs_size al fs - length body).
Proof.
  intros al fs vs b H. unfold cs_serialize in H. cbn [ser] in H.
  destruct (ser_fields (ser al) (padded (size_align al) fs) fs vs) as [bs|] eqn:E; [|discriminate].
  assert (Eb : b = ljust (size (size_align al) fs) bs) by congruence. subst b. clear H.
  destruct (ser_fields_form _ _ _ _ _ E) as (chunks & F & L & Ebs). exists chunks.
  split; [exact F|]. split; [exact L|]. cbv zeta. unfold cs_padded, cs_size. rewrite <- Ebs. reflexivity.
Qed.
