(* Universe of wire-type descriptors, values, and the generic codec (MODEL of the serialize /
   deserialize methods of the wire types used by the command schemas:
     TInt w            zigpy FixedIntType (uintN_t, intNs, enums, bitmaps, NWK, PanId, Channels): w bytes little-endian
                       (the value is the unsigned image; signedness only affects the Python-level range)
     TFixBytes n       EUI64 (8), KeyData (16), and fixed-size bit-field structs as their n-byte image
     TLVBytes h cap    length-prefixed bytes: zigpy LVBytes (h=1, cap=255), ShortBytes (1, 256), LongBytes (2, 65536)
     TLVList h t       count-prefixed list (LVList subclasses, zigpy LVList)
     TFixList n t      FixedList
     TGreedy t         zigpy List / CompleteList / Payload: consumes everything
     TStruct ts        byte-granular zigpy Struct
     TSimpleDesc       zigpy_zboss.types.structs.SimpleDescriptor (two counts, then two cluster lists)    *)
From Coq Require Import NArith List Bool Arith.
From ZB Require Import Base.Bytes.
Import ListNotations.
Open Scope N_scope.

Inductive wty :=
| TInt (w : nat)
| TFixBytes (n : nat)
| TLVBytes (h : nat) (cap : N)
| TLVList (h : nat) (t : wty)
| TFixList (n : nat) (t : wty)
| TGreedy (t : wty)
| TStruct (ts : list wty)
| TSimpleDesc.

Inductive value := VInt (n : N) | VBytes (bs : list N) | VList (vs : list value).

Section Ind.
Variable P : wty -> Prop.
Hypothesis HInt : forall w, P (TInt w).
Hypothesis HFix : forall n, P (TFixBytes n).
Hypothesis HLVB : forall h cap, P (TLVBytes h cap).
Hypothesis HLVL : forall h t, P t -> P (TLVList h t).
Hypothesis HFL : forall n t, P t -> P (TFixList n t).
Hypothesis HGre : forall t, P t -> P (TGreedy t).
Hypothesis HStr : forall ts, Forall P ts -> P (TStruct ts).
Hypothesis HSD : P TSimpleDesc.
Fixpoint wty_ind' (t : wty) : P t :=
  match t with
  | TInt w => HInt w | TFixBytes n => HFix n | TLVBytes h cap => HLVB h cap
  | TLVList h t => HLVL h t (wty_ind' t)
  | TFixList n t => HFL n t (wty_ind' t)
  | TGreedy t => HGre t (wty_ind' t)
  | TStruct ts => HStr ts ((fix go (l : list wty) : Forall P l :=
        match l with [] => Forall_nil P | x :: l' => Forall_cons x (wty_ind' x) (go l') end) ts)
  | TSimpleDesc => HSD
  end.
End Ind.

Definition u16_ok (v : value) : bool := match v with VInt n => n <? 65536 | _ => false end.

(* validity: the value has the shape of the type and every component fits *)
Fixpoint valid (t : wty) (v : value) {struct t} : bool :=
  match t, v with
  | TInt w, VInt n => n <? 256 ^ N.of_nat w
  | TFixBytes k, VBytes bs => (length bs =? k)%nat && forallb byte_ok bs
  | TLVBytes h cap, VBytes bs => (N.of_nat (length bs) <? cap) && (N.of_nat (length bs) <? 256 ^ N.of_nat h) && forallb byte_ok bs
  | TLVList h t, VList vs => (N.of_nat (length vs) <? 256 ^ N.of_nat h) && forallb (valid t) vs
  | TFixList k t, VList vs => (length vs =? k)%nat && forallb (valid t) vs
  | TGreedy t, VList vs => forallb (valid t) vs
  | TStruct ts, VList vs =>
      (fix go (ts : list wty) (vs : list value) : bool :=
         match ts, vs with
         | [], [] => true
         | t :: ts', v :: vs' => valid t v && go ts' vs'
         | _, _ => false
         end) ts vs
  | TSimpleDesc, VList [VInt ep; VInt prof; VInt dt; VInt dv; VList ins; VList outs] =>
      (ep <? 256) && (prof <? 65536) && (dt <? 65536) && (dv <? 256) &&
      (N.of_nat (length ins) <? 256) && (N.of_nat (length outs) <? 256) &&
      forallb u16_ok ins && forallb u16_ok outs
  | _, _ => false
  end.

Definition enc_u16 (v : value) : list N := match v with VInt n => le_enc 2 n | _ => [] end.

Fixpoint enc (t : wty) (v : value) {struct t} : list N :=
  match t, v with
  | TInt w, VInt n => le_enc w n
  | TFixBytes _, VBytes bs => bs
  | TLVBytes h _, VBytes bs => le_enc h (N.of_nat (length bs)) ++ bs
  | TLVList h t, VList vs => le_enc h (N.of_nat (length vs)) ++ concat (map (enc t) vs)
  | TFixList _ t, VList vs => concat (map (enc t) vs)
  | TGreedy t, VList vs => concat (map (enc t) vs)
  | TStruct ts, VList vs =>
      (fix go (ts : list wty) (vs : list value) : list N :=
         match ts, vs with
         | t :: ts', v :: vs' => enc t v ++ go ts' vs'
         | _, _ => []
         end) ts vs
  | TSimpleDesc, VList [VInt ep; VInt prof; VInt dt; VInt dv; VList ins; VList outs] =>
      le_enc 1 ep ++ le_enc 2 prof ++ le_enc 2 dt ++ le_enc 1 dv ++
      le_enc 1 (N.of_nat (length ins)) ++ le_enc 1 (N.of_nat (length outs)) ++
      concat (map enc_u16 ins) ++ concat (map enc_u16 outs)
  | _, _ => []
  end.

(* decode n items / greedy items with an abstract item decoder *)
Section Loops.
Variable decitem : list N -> option (value * list N).
Fixpoint dec_n (k : nat) (d : list N) : option (list value * list N) :=
  match k with
  | O => Some ([], d)
  | S k => match decitem d with
           | None => None
           | Some (v, d') => match dec_n k d' with Some (vs, r) => Some (v :: vs, r) | None => None end
           end
  end.
Fixpoint dec_greedy (fuel : nat) (d : list N) : option (list value) :=
  match d with
  | [] => Some []
  | _ => match fuel with
         | O => None   (* an item that consumes nothing: Python would loop forever *)
         | S fuel => match decitem d with
                     | None => None
                     | Some (v, d') => match dec_greedy fuel d' with Some vs => Some (v :: vs) | None => None end
                     end
         end
  end.
End Loops.

Definition dec_u16 (d : list N) : option (value * list N) :=
  match le_dec 2 d with Some (n, r) => Some (VInt n, r) | None => None end.

(* None = ValueError *)
Fixpoint dec (t : wty) (d : list N) {struct t} : option (value * list N) :=
  match t with
  | TInt w => match le_dec w d with Some (n, r) => Some (VInt n, r) | None => None end
  | TFixBytes k => if (length d <? k)%nat then None else Some (VBytes (firstn k d), skipn k d)
  | TLVBytes h cap => match le_dec h d with
                  | Some (n, r) => let k := N.to_nat n in
                                   if (length r <? k)%nat then None else Some (VBytes (firstn k r), skipn k r)
                  | None => None end
  | TLVList h t => match le_dec h d with
                   | Some (n, r) => match dec_n (dec t) (N.to_nat n) r with
                                    | Some (vs, r') => Some (VList vs, r') | None => None end
                   | None => None end
  | TFixList k t => match dec_n (dec t) k d with Some (vs, r') => Some (VList vs, r') | None => None end
  | TGreedy t => match dec_greedy (dec t) (length d) d with Some vs => Some (VList vs, []) | None => None end
  | TStruct ts =>
      (fix go (ts : list wty) (d : list N) : option (value * list N) :=
         match ts with
         | [] => Some (VList [], d)
         | t :: ts' => match dec t d with
                       | None => None
                       | Some (v, d') => match go ts' d' with
                                         | Some (VList vs, r) => Some (VList (v :: vs), r)
                                         | _ => None end
                       end
         end) ts d
  | TSimpleDesc =>
      match le_dec 1 d with None => None | Some (ep, d1) =>
      match le_dec 2 d1 with None => None | Some (prof, d2) =>
      match le_dec 2 d2 with None => None | Some (dt, d3) =>
      match le_dec 1 d3 with None => None | Some (dv, d4) =>
      match le_dec 1 d4 with None => None | Some (ic, d5) =>
      match le_dec 1 d5 with None => None | Some (oc, d6) =>
      match dec_n dec_u16 (N.to_nat ic) d6 with None => None | Some (ins, d7) =>
      match dec_n dec_u16 (N.to_nat oc) d7 with None => None | Some (outs, d8) =>
        Some (VList [VInt ep; VInt prof; VInt dt; VInt dv; VList ins; VList outs], d8)
      end end end end end end end end
  end.

(* self-delimiting types: no greedy component anywhere *)
Fixpoint selfdelim (t : wty) : bool :=
  match t with
  | TInt _ | TFixBytes _ | TLVBytes _ _ | TSimpleDesc => true
  | TLVList _ t | TFixList _ t => selfdelim t
  | TGreedy _ => false
  | TStruct ts => forallb selfdelim ts
  end.

(* every encoding of the type is non-empty (needed under TGreedy: an item that encodes to nothing
   would make the greedy decoder loop) *)
Fixpoint nonempty_enc (t : wty) : bool :=
  match t with
  | TInt w => negb (w =? 0)%nat
  | TFixBytes n => negb (n =? 0)%nat
  | TLVBytes h _ => negb (h =? 0)%nat
  | TLVList h _ => negb (h =? 0)%nat
  | TFixList n t => negb (n =? 0)%nat && nonempty_enc t
  | TGreedy _ => false
  | TStruct ts => existsb nonempty_enc ts
  | TSimpleDesc => true
  end.
