(* C16 (generic part): wire types are self-delimiting, strict on short input, and invert exactly. *)
From Coq Require Import NArith ZArith List Bool Lia Arith ZifyBool ZifyNat ZifyN.
From ZB Require Import Base.Bytes Wire.Wty.
Import ListNotations.
Ltac Zify.zify_post_hook ::= Z.div_mod_to_equations.
Open Scope N_scope.
Arguments N.mul : simpl never.
Arguments N.add : simpl never.
Arguments N.pow : simpl never.
Arguments N.div : simpl never.
Arguments N.modulo : simpl never.
Arguments N.ltb : simpl never.
Arguments N.of_nat : simpl never.
Arguments N.to_nat : simpl never.
Arguments le_enc : simpl never.
Arguments le_dec : simpl never.

(* ---------------------------------------------------------------------- *)
(* helper facts *)

Lemma firstn_app_len : forall (A : Type) (a b : list A), firstn (length a) (a ++ b) = a.
Proof. intros. rewrite firstn_app, Nat.sub_diag, firstn_all. simpl. apply app_nil_r. Qed.
Lemma skipn_app_len : forall (A : Type) (a b : list A), skipn (length a) (a ++ b) = b.
Proof. intros. rewrite skipn_app, Nat.sub_diag, skipn_all. reflexivity. Qed.

Lemma forallb_byte_ok : forall l, forallb byte_ok l = true <-> bytes_ok l.
Proof.
  intros l. unfold bytes_ok, byte_ok. rewrite forallb_forall, Forall_forall.
  split; intros H x Hx; specialize (H x Hx); [apply N.ltb_lt|apply N.ltb_lt]; exact H.
Qed.

Lemma dec_n_roundtrip : forall (decitem : list N -> option (value * list N)) (e : value -> list N) (ok : value -> bool),
  (forall v r, ok v = true -> decitem (e v ++ r) = Some (v, r)) ->
  forall vs r, forallb ok vs = true -> dec_n decitem (length vs) (concat (map e vs) ++ r) = Some (vs, r).
Proof.
  intros decitem e ok Ht. induction vs as [|v vs IH]; intros r Hv; [reflexivity|].
  cbn [forallb] in Hv. apply andb_true_iff in Hv. destruct Hv as [Hv1 Hv2].
  cbn [length map concat dec_n]. rewrite <- app_assoc. rewrite Ht by assumption. rewrite IH by assumption. reflexivity.
Qed.

Lemma dec_u16_roundtrip : forall v r, u16_ok v = true -> dec_u16 (enc_u16 v ++ r) = Some (v, r).
Proof.
  intros [n| |] r H; try discriminate. unfold dec_u16, enc_u16. cbn [u16_ok] in H. apply N.ltb_lt in H.
  rewrite le_roundtrip; [reflexivity|]. exact H.
Qed.

(* ---------------------------------------------------------------------- *)
(* 1. decoding an encoding followed by arbitrary further bytes returns the value and those bytes *)

Theorem roundtrip : forall t, selfdelim t = true ->
  forall v r, valid t v = true -> dec t (enc t v ++ r) = Some (v, r).
Proof.
  induction t using wty_ind'; intros Hsd v r Hv.
  - (* TInt *) destruct v; try discriminate. cbn [valid enc dec] in *. apply N.ltb_lt in Hv. rewrite le_roundtrip by assumption. reflexivity.
  - (* TFixBytes *) destruct v; try discriminate. cbn [valid enc dec] in *. apply andb_true_iff in Hv. destruct Hv as [Hl _].
    apply Nat.eqb_eq in Hl. subst n. rewrite app_length.
    replace (length bs + length r <? length bs)%nat with false by (symmetry; apply Nat.ltb_ge; lia).
    rewrite firstn_app_len, skipn_app_len. reflexivity.
  - (* TLVBytes *) destruct v; try discriminate. cbn [valid enc dec] in *. apply andb_true_iff in Hv. destruct Hv as [Hl _].
    apply andb_true_iff in Hl. destruct Hl as [_ Hl]. apply N.ltb_lt in Hl.
    rewrite <- app_assoc. rewrite le_roundtrip by assumption. cbv zeta. rewrite Nat2N.id. rewrite app_length.
    replace (length bs + length r <? length bs)%nat with false by (symmetry; apply Nat.ltb_ge; lia).
    rewrite firstn_app_len, skipn_app_len. reflexivity.
  - (* TLVList *) destruct v; try discriminate. cbn [selfdelim] in Hsd. cbn [valid] in Hv. apply andb_true_iff in Hv. destruct Hv as [Hl Hvs].
    apply N.ltb_lt in Hl. cbn [enc dec]. rewrite <- app_assoc. rewrite le_roundtrip by assumption. rewrite Nat2N.id.
    rewrite (dec_n_roundtrip (dec t) (enc t) (valid t) (IHt Hsd)) by assumption. reflexivity.
  - (* TFixList *) destruct v; try discriminate. cbn [selfdelim] in Hsd. cbn [valid] in Hv. apply andb_true_iff in Hv. destruct Hv as [Hl Hvs].
    apply Nat.eqb_eq in Hl. subst n. cbn [enc dec].
    rewrite (dec_n_roundtrip (dec t) (enc t) (valid t) (IHt Hsd)) by assumption. reflexivity.
  - (* TGreedy *) discriminate.
  - (* TStruct *) destruct v as [| |vs]; try discriminate. cbn [selfdelim] in Hsd.
    revert vs r Hv Hsd. induction H as [|t ts Ht Hts IH]; intros vs r Hv Hsd.
    + destruct vs; [reflexivity | discriminate].
    + destruct vs as [|v vs]; [discriminate|]. cbn [forallb] in Hsd.
      apply andb_true_iff in Hsd. destruct Hsd as [Hs1 Hs2].
      change (valid (TStruct (t :: ts)) (VList (v :: vs))) with (valid t v && valid (TStruct ts) (VList vs)) in Hv.
      apply andb_true_iff in Hv. destruct Hv as [Hv1 Hv2].
      change (enc (TStruct (t :: ts)) (VList (v :: vs))) with (enc t v ++ enc (TStruct ts) (VList vs)).
      rewrite <- app_assoc.
      change (dec (TStruct (t :: ts)) ?d) with
        (match dec t d with None => None | Some (v0, d') =>
           match dec (TStruct ts) d' with Some (VList vs0, r0) => Some (VList (v0 :: vs0), r0) | _ => None end end).
      rewrite (Ht Hs1) by assumption. rewrite (IH vs r Hv2 Hs2). reflexivity.
  - (* TSimpleDesc *)
    destruct v as [| |vs]; try discriminate.
    destruct vs as [|[ep| |] [|[prof| |] [|[dt| |] [|[dv| |] [|[| |ins] [|[| |outs] [|]]]]]]]; try discriminate.
    cbn [valid] in Hv. repeat (apply andb_true_iff in Hv; destruct Hv as [Hv ?]).
    repeat match goal with H : (_ <? _) = true |- _ => apply N.ltb_lt in H end.
    cbn [enc dec]. rewrite <- !app_assoc.
    rewrite (le_roundtrip 1) by (simpl; lia). rewrite (le_roundtrip 2) by (simpl; lia).
    rewrite (le_roundtrip 2) by (simpl; lia). rewrite (le_roundtrip 1) by (simpl; lia).
    rewrite (le_roundtrip 1) by (simpl; lia). rewrite (le_roundtrip 1) by (simpl; lia).
    rewrite !Nat2N.id.
    rewrite (dec_n_roundtrip dec_u16 enc_u16 u16_ok dec_u16_roundtrip) by assumption.
    rewrite (dec_n_roundtrip dec_u16 enc_u16 u16_ok dec_u16_roundtrip) by assumption. reflexivity.
Qed.

(* ---------------------------------------------------------------------- *)
(* 2. decoders of self-delimiting types never look beyond what they consume *)

Lemma le_dec_extend : forall w d n r s, le_dec w d = Some (n, r) -> le_dec w (d ++ s) = Some (n, r ++ s).
Proof.
  induction w as [|w IH]; intros d n r s H.
  - unfold le_dec in *. inversion H; subst. reflexivity.
  - destruct d as [|b d']; [discriminate H|].
    change (le_dec (S w) (b :: d')) with (match le_dec w d' with Some (n, r) => Some (b + 256 * n, r) | None => None end) in H.
    change (le_dec (S w) ((b :: d') ++ s)) with (match le_dec w (d' ++ s) with Some (n, r) => Some (b + 256 * n, r) | None => None end).
    destruct (le_dec w d') as [[n' r']|] eqn:E; [|discriminate]. rewrite (IH _ _ _ s E). inversion H; subst. reflexivity.
Qed.

Lemma dec_n_extend : forall (decitem : list N -> option (value * list N)),
  (forall d v r s, decitem d = Some (v, r) -> decitem (d ++ s) = Some (v, r ++ s)) ->
  forall k d vs r s, dec_n decitem k d = Some (vs, r) -> dec_n decitem k (d ++ s) = Some (vs, r ++ s).
Proof.
  intros decitem Hx. induction k as [|k IH]; intros d vs r s H.
  - cbn [dec_n] in *. inversion H; subst. reflexivity.
  - cbn [dec_n] in *. destruct (decitem d) as [[v d']|] eqn:E; [|discriminate]. rewrite (Hx _ _ _ s E).
    destruct (dec_n decitem k d') as [[vs' r']|] eqn:E2; [|discriminate]. rewrite (IH _ _ _ s E2).
    inversion H; subst. reflexivity.
Qed.

Lemma dec_u16_extend : forall d v r s, dec_u16 d = Some (v, r) -> dec_u16 (d ++ s) = Some (v, r ++ s).
Proof.
  intros d v r s H. unfold dec_u16 in *. destruct (le_dec 2 d) as [[n r']|] eqn:E; [|discriminate].
  rewrite (le_dec_extend _ _ _ _ s E). inversion H; subst. reflexivity.
Qed.

Theorem dec_extend : forall t, selfdelim t = true ->
  forall d v r s, dec t d = Some (v, r) -> dec t (d ++ s) = Some (v, r ++ s).
Proof.
  induction t using wty_ind'; intros Hsd d v r s Hd.
  - cbn [dec] in *. destruct (le_dec w d) as [[n r']|] eqn:E; [|discriminate]. rewrite (le_dec_extend _ _ _ _ s E).
    inversion Hd; subst. reflexivity.
  - cbn [dec] in *. destruct (length d <? n)%nat eqn:L; [discriminate|]. apply Nat.ltb_ge in L.
    rewrite app_length. replace (length d + length s <? n)%nat with false by (symmetry; apply Nat.ltb_ge; lia).
    inversion Hd; subst. rewrite firstn_app_le, skipn_app_le by lia. reflexivity.
  - cbn [dec] in *. destruct (le_dec h d) as [[n r']|] eqn:E; [|discriminate]. rewrite (le_dec_extend _ _ _ _ s E).
    cbv zeta in *. destruct (length r' <? N.to_nat n)%nat eqn:L; [discriminate|]. apply Nat.ltb_ge in L.
    rewrite app_length. replace (length r' + length s <? N.to_nat n)%nat with false by (symmetry; apply Nat.ltb_ge; lia).
    inversion Hd; subst. rewrite firstn_app_le, skipn_app_le by lia. reflexivity.
  - cbn [selfdelim] in Hsd. cbn [dec] in *. destruct (le_dec h d) as [[n r']|] eqn:E; [|discriminate].
    rewrite (le_dec_extend _ _ _ _ s E).
    destruct (dec_n (dec t) (N.to_nat n) r') as [[vs r'']|] eqn:E2; [|discriminate].
    rewrite (dec_n_extend (dec t) (IHt Hsd) _ _ _ _ s E2). inversion Hd; subst. reflexivity.
  - cbn [selfdelim] in Hsd. cbn [dec] in *.
    destruct (dec_n (dec t) n d) as [[vs r'']|] eqn:E2; [|discriminate].
    rewrite (dec_n_extend (dec t) (IHt Hsd) _ _ _ _ s E2). inversion Hd; subst. reflexivity.
  - discriminate.
  - cbn [selfdelim] in Hsd. revert d v r Hd Hsd. induction H as [|t ts Ht Hts IH]; intros d v r Hd Hsd.
    + cbn [dec] in *. inversion Hd; subst. reflexivity.
    + cbn [forallb] in Hsd. apply andb_true_iff in Hsd. destruct Hsd as [Hs1 Hs2].
      change (dec (TStruct (t :: ts)) ?x) with
        (match dec t x with None => None | Some (v0, d') =>
           match dec (TStruct ts) d' with Some (VList vs0, r0) => Some (VList (v0 :: vs0), r0) | _ => None end end) in *.
      destruct (dec t d) as [[v0 d']|] eqn:E; [|discriminate]. rewrite (Ht Hs1 _ _ _ s E).
      destruct (dec (TStruct ts) d') as [[[| |vs0] r0]|] eqn:E2; try discriminate.
      rewrite (IH _ _ _ E2 Hs2). inversion Hd; subst. reflexivity.
  - cbn [dec] in *.
    destruct (le_dec 1 d) as [[ep d1]|] eqn:E1; [|discriminate]. rewrite (le_dec_extend _ _ _ _ s E1).
    destruct (le_dec 2 d1) as [[prof d2]|] eqn:E2; [|discriminate]. rewrite (le_dec_extend _ _ _ _ s E2).
    destruct (le_dec 2 d2) as [[dt d3]|] eqn:E3; [|discriminate]. rewrite (le_dec_extend _ _ _ _ s E3).
    destruct (le_dec 1 d3) as [[dv d4]|] eqn:E4; [|discriminate]. rewrite (le_dec_extend _ _ _ _ s E4).
    destruct (le_dec 1 d4) as [[ic d5]|] eqn:E5; [|discriminate]. rewrite (le_dec_extend _ _ _ _ s E5).
    destruct (le_dec 1 d5) as [[oc d6]|] eqn:E6; [|discriminate]. rewrite (le_dec_extend _ _ _ _ s E6).
    destruct (dec_n dec_u16 (N.to_nat ic) d6) as [[ins d7]|] eqn:E7; [|discriminate].
    rewrite (dec_n_extend dec_u16 dec_u16_extend _ _ _ _ s E7).
    destruct (dec_n dec_u16 (N.to_nat oc) d7) as [[outs d8]|] eqn:E8; [|discriminate].
    rewrite (dec_n_extend dec_u16 dec_u16_extend _ _ _ _ s E8). inversion Hd; subst. reflexivity.
Qed.

(* 3. strict on short input: no proper prefix of an encoding decodes *)
Theorem strict_on_truncation : forall t, selfdelim t = true -> forall v p s, valid t v = true ->
  enc t v = p ++ s -> s <> [] -> dec t p = None.
Proof.
  intros t Hsd v p s Hv He Hs. destruct (dec t p) as [[v' r']|] eqn:E; [|reflexivity]. exfalso.
  pose proof (dec_extend t Hsd _ _ _ s E) as X. rewrite <- He in X.
  pose proof (roundtrip t Hsd v [] Hv) as R. rewrite app_nil_r in R. rewrite R in X. inversion X as [[Hvv Hr]].
  destruct r'; destruct s; try discriminate. apply Hs. reflexivity.
Qed.

(* ---------------------------------------------------------------------- *)
(* 4. greedy lists: consume everything by design *)

Lemma concat_nonempty_first : forall (l : list (list N)), l <> [] -> (forall x, In x l -> x <> []) -> concat l <> [].
Proof. intros [|x l] H H2; [congruence|]. cbn [concat]. specialize (H2 x (or_introl eq_refl)). destruct x; [congruence|discriminate]. Qed.

Lemma nonempty_enc_spec : forall t, nonempty_enc t = true -> forall v, valid t v = true -> enc t v <> [].
Proof.
  induction t using wty_ind'; intros Hne v Hv.
  - destruct v; try discriminate. cbn [nonempty_enc enc] in *. intros E. apply (f_equal (@length N)) in E. rewrite le_enc_length in E.
    apply negb_true_iff, Nat.eqb_neq in Hne. simpl in E. lia.
  - destruct v; try discriminate. cbn [nonempty_enc enc valid] in *. apply andb_true_iff in Hv. destruct Hv as [Hl _]. apply Nat.eqb_eq in Hl.
    apply negb_true_iff, Nat.eqb_neq in Hne. intros E. subst bs. simpl in Hl. lia.
  - destruct v; try discriminate. cbn [nonempty_enc enc] in *. apply negb_true_iff, Nat.eqb_neq in Hne.
    intros E. apply (f_equal (@length N)) in E. rewrite app_length, le_enc_length in E. simpl in E. lia.
  - destruct v; try discriminate. cbn [nonempty_enc enc] in *. apply negb_true_iff, Nat.eqb_neq in Hne.
    intros E. apply (f_equal (@length N)) in E. rewrite app_length, le_enc_length in E. simpl in E. lia.
  - destruct v; try discriminate. cbn [nonempty_enc enc valid] in *. apply andb_true_iff in Hne. destruct Hne as [Hn Ht].
    apply negb_true_iff, Nat.eqb_neq in Hn. apply andb_true_iff in Hv. destruct Hv as [Hl Hvs]. apply Nat.eqb_eq in Hl.
    apply concat_nonempty_first.
    + destruct vs; [simpl in Hl; lia|discriminate].
    + intros x Hx. apply in_map_iff in Hx. destruct Hx as (y & <- & Hy). apply IHt; [exact Ht|].
      rewrite forallb_forall in Hvs. apply Hvs. exact Hy.
  - discriminate.
  - destruct v as [| |vs]; try discriminate. cbn [nonempty_enc] in Hne.
    revert vs Hv Hne. induction H as [|t ts Ht Hts IH]; intros vs Hv Hne; [discriminate|].
    destruct vs as [|v vs]; [discriminate|].
    change (valid (TStruct (t :: ts)) (VList (v :: vs))) with (valid t v && valid (TStruct ts) (VList vs)) in Hv.
    apply andb_true_iff in Hv. destruct Hv as [Hv1 Hv2].
    change (enc (TStruct (t :: ts)) (VList (v :: vs))) with (enc t v ++ enc (TStruct ts) (VList vs)).
    cbn [existsb] in Hne. apply orb_true_iff in Hne. destruct Hne as [Hne|Hne].
    + intros E. apply app_eq_nil in E. destruct E as [E _]. exact (Ht Hne v Hv1 E).
    + intros E. apply app_eq_nil in E. destruct E as [_ E]. exact (IH vs Hv2 Hne E).
  - destruct v as [| |vs]; try discriminate.
    destruct vs as [|[ep| |] [|[prof| |] [|[dt| |] [|[dv| |] [|[| |ins] [|[| |outs] [|]]]]]]]; try discriminate.
Qed.

Lemma dec_greedy_roundtrip : forall t, selfdelim t = true -> nonempty_enc t = true ->
  forall vs fuel, forallb (valid t) vs = true -> (length (concat (map (enc t) vs)) <= fuel)%nat ->
  dec_greedy (dec t) fuel (concat (map (enc t) vs)) = Some vs.
Proof.
  intros t Hsd Hne. induction vs as [|v vs IH]; intros fuel Hv Hf.
  - cbn [map concat]. destruct fuel; reflexivity.
  - cbn [forallb] in Hv. apply andb_true_iff in Hv. destruct Hv as [Hv1 Hv2].
    cbn [map concat] in *. pose proof (nonempty_enc_spec t Hne v Hv1) as Hn.
    destruct (enc t v ++ concat (map (enc t) vs)) as [|b rest] eqn:Ed.
    { apply app_eq_nil in Ed. destruct Ed as [E _]. congruence. }
    destruct fuel as [|fuel]; [simpl in Hf; lia|]. cbn [dec_greedy]. rewrite <- Ed.
    rewrite (roundtrip t Hsd v _ Hv1). rewrite IH; [reflexivity|exact Hv2|].
    rewrite <- Ed in Hf. rewrite app_length in Hf.
    assert (1 <= length (enc t v))%nat by (destruct (enc t v); [congruence|simpl; lia]). lia.
Qed.

Theorem greedy_roundtrip : forall t, selfdelim t = true -> nonempty_enc t = true ->
  forall vs, valid (TGreedy t) (VList vs) = true ->
  dec (TGreedy t) (enc (TGreedy t) (VList vs)) = Some (VList vs, []).
Proof.
  intros t Hsd Hne vs Hv. cbn [valid enc dec] in *. rewrite (dec_greedy_roundtrip t Hsd Hne vs _ Hv (le_n _)). reflexivity.
Qed.

(* a cut inside an item of a greedy list is an error *)
Theorem greedy_strict : forall t, selfdelim t = true -> nonempty_enc t = true ->
  forall vs v q s, forallb (valid t) vs = true -> valid t v = true -> enc t v = q ++ s -> q <> [] -> s <> [] ->
  dec (TGreedy t) (concat (map (enc t) vs) ++ q) = None.
Proof.
  intros t Hsd Hne vs v q s Hvs Hv He Hq Hs. cbn [dec].
  assert (G : forall fuel, dec_greedy (dec t) fuel (concat (map (enc t) vs) ++ q) = None).
  { clear - Hsd Hne Hvs Hv He Hq Hs. induction vs as [|w vs IH]; intros fuel.
    - cbn [map concat app]. destruct q as [|b q']; [congruence|]. destruct fuel; [reflexivity|]. cbn [dec_greedy].
      rewrite (strict_on_truncation t Hsd v (b :: q') s Hv He Hs). reflexivity.
    - cbn [forallb] in Hvs. apply andb_true_iff in Hvs. destruct Hvs as [Hw Hvs].
      cbn [map concat]. rewrite <- app_assoc. pose proof (nonempty_enc_spec t Hne w Hw) as Hn.
      destruct (enc t w ++ concat (map (enc t) vs) ++ q) as [|b rest] eqn:Ed.
      { apply app_eq_nil in Ed. destruct Ed as [E _]. congruence. }
      destruct fuel; [reflexivity|]. cbn [dec_greedy]. rewrite <- Ed. rewrite (roundtrip t Hsd w _ Hw).
      rewrite (IH Hvs). reflexivity. }
  rewrite G. reflexivity.
Qed.

(* ---------------------------------------------------------------------- *)
(* 5. whatever decodes re-encodes to exactly the bytes consumed: nothing shifted, nothing invented *)

Lemma le_dec_sound : forall w d n r, bytes_ok d -> le_dec w d = Some (n, r) -> d = le_enc w n ++ r /\ bytes_ok r.
Proof.
  intros w d n r Hok H. destruct (le_dec_some _ _ _ _ H) as (E1 & E2 & E3).
  assert (Hf : bytes_ok (firstn w d)) by (apply bytes_ok_firstn; exact Hok).
  split.
  - rewrite E1 at 1. f_equal. rewrite E3. pose proof (le_enc_val _ Hf) as X. rewrite E2 in X. symmetry. exact X.
  - rewrite E1 in Hok. apply bytes_ok_app_iff in Hok. apply Hok.
Qed.

Lemma dec_n_sound : forall (decitem : list N -> option (value * list N)) (e : value -> list N),
  (forall d v r, bytes_ok d -> decitem d = Some (v, r) -> d = e v ++ r /\ bytes_ok r) ->
  forall k d vs r, bytes_ok d -> dec_n decitem k d = Some (vs, r) -> d = concat (map e vs) ++ r /\ bytes_ok r /\ length vs = k.
Proof.
  intros decitem e Hx. induction k as [|k IH]; intros d vs r Hok H.
  - cbn [dec_n] in H. inversion H; subst. repeat split; assumption.
  - cbn [dec_n] in H. destruct (decitem d) as [[v d']|] eqn:E; [|discriminate].
    destruct (Hx _ _ _ Hok E) as [E1 Hok'].
    destruct (dec_n decitem k d') as [[vs' r']|] eqn:E2; [|discriminate].
    assert (Evs : vs = v :: vs') by congruence. assert (Er : r = r') by congruence. rewrite Evs, Er. clear H.
    destruct (IH _ _ _ Hok' E2) as (E3 & Hok'' & L). cbn [map concat length]. rewrite <- app_assoc, <- E3.
    repeat split; [exact E1|exact Hok''|lia].
Qed.

Lemma dec_u16_sound : forall d v r, bytes_ok d -> dec_u16 d = Some (v, r) -> d = enc_u16 v ++ r /\ bytes_ok r.
Proof.
  intros d v r Hok H. unfold dec_u16 in H. destruct (le_dec 2 d) as [[n r']|] eqn:E; [|discriminate]. inversion H; subst.
  exact (le_dec_sound _ _ _ _ Hok E).
Qed.

Lemma dec_greedy_sound : forall (decitem : list N -> option (value * list N)) (e : value -> list N),
  (forall d v r, bytes_ok d -> decitem d = Some (v, r) -> d = e v ++ r /\ bytes_ok r) ->
  forall fuel d vs, bytes_ok d -> dec_greedy decitem fuel d = Some vs -> d = concat (map e vs).
Proof.
  intros decitem e Hx. induction fuel as [|fuel IHf]; intros d vs Hok E.
  - destruct d; cbn [dec_greedy] in E; [|discriminate]. assert (vs = []) by congruence. subst vs. reflexivity.
  - destruct d as [|b d']; cbn [dec_greedy] in E.
    + assert (vs = []) by congruence. subst vs. reflexivity.
    + destruct (decitem (b :: d')) as [[v0 d'']|] eqn:E0; [|discriminate]. destruct (Hx _ _ _ Hok E0) as [E1 Hok'].
      destruct (dec_greedy decitem fuel d'') as [vs'|] eqn:E2; [|discriminate].
      assert (Evs : vs = v0 :: vs') by congruence. rewrite Evs. cbn [map concat]. rewrite <- (IHf _ _ Hok' E2). exact E1.
Qed.

Theorem dec_sound : forall t d v r, bytes_ok d -> dec t d = Some (v, r) -> d = enc t v ++ r /\ bytes_ok r.
Proof.
  induction t using wty_ind'; intros d v r Hok Hd.
  - cbn [dec] in Hd. destruct (le_dec w d) as [[n r']|] eqn:E; [|discriminate]. injection Hd as Ev Er; rewrite <- Ev, <- Er. exact (le_dec_sound _ _ _ _ Hok E).
  - cbn [dec] in Hd. destruct (length d <? n)%nat; [discriminate|]. injection Hd as Ev Er; rewrite <- Ev, <- Er. cbn [enc].
    split; [symmetry; apply firstn_skipn|apply bytes_ok_skipn; exact Hok].
  - cbn [dec] in Hd. destruct (le_dec h d) as [[n r']|] eqn:E; [|discriminate]. destruct (le_dec_sound _ _ _ _ Hok E) as [E1 Hok'].
    cbv zeta in Hd. destruct (length r' <? N.to_nat n)%nat eqn:L; [discriminate|]. apply Nat.ltb_ge in L. injection Hd as Ev Er; rewrite <- Ev, <- Er. cbn [enc].
    rewrite firstn_length, Nat.min_l by exact L. rewrite N2Nat.id. rewrite <- app_assoc, firstn_skipn.
    split; [exact E1|apply bytes_ok_skipn; exact Hok'].
  - cbn [dec] in Hd. destruct (le_dec h d) as [[n r']|] eqn:E; [|discriminate]. destruct (le_dec_sound _ _ _ _ Hok E) as [E1 Hok'].
    destruct (dec_n (dec t) (N.to_nat n) r') as [[vs r'']|] eqn:E2; [|discriminate]. injection Hd as Ev Er; rewrite <- Ev, <- Er.
    destruct (dec_n_sound (dec t) (enc t) IHt _ _ _ _ Hok' E2) as (E3 & Hok'' & L). cbn [enc].
    rewrite L, N2Nat.id, <- app_assoc, <- E3. split; [exact E1|exact Hok''].
  - cbn [dec] in Hd. destruct (dec_n (dec t) n d) as [[vs r'']|] eqn:E2; [|discriminate]. injection Hd as Ev Er; rewrite <- Ev, <- Er.
    destruct (dec_n_sound (dec t) (enc t) IHt _ _ _ _ Hok E2) as (E3 & Hok'' & L). cbn [enc]. split; [exact E3|exact Hok''].
  - cbn [dec] in Hd. destruct (dec_greedy (dec t) (length d) d) as [vs|] eqn:E; [|discriminate].
    injection Hd as Ev Er; rewrite <- Ev, <- Er. cbn [enc]. rewrite app_nil_r. split; [|constructor].
    exact (dec_greedy_sound (dec t) (enc t) IHt _ _ _ Hok E).
  - revert d v r Hok Hd. induction H as [|t ts Ht Hts IH]; intros d v r Hok Hd.
    + cbn [dec] in Hd. injection Hd as Ev Er; rewrite <- Ev, <- Er. split; [reflexivity|exact Hok].
    + change (dec (TStruct (t :: ts)) d) with
        (match dec t d with None => None | Some (v0, d') =>
           match dec (TStruct ts) d' with Some (VList vs0, r0) => Some (VList (v0 :: vs0), r0) | _ => None end end) in Hd.
      destruct (dec t d) as [[v0 d']|] eqn:E; [|discriminate]. destruct (Ht _ _ _ Hok E) as [E1 Hok'].
      destruct (dec (TStruct ts) d') as [[[| |vs0] r0]|] eqn:E2; try discriminate. injection Hd as Ev Er; rewrite <- Ev, <- Er.
      destruct (IH _ _ _ Hok' E2) as [E3 Hok''].
      change (enc (TStruct (t :: ts)) (VList (v0 :: vs0))) with (enc t v0 ++ enc (TStruct ts) (VList vs0)).
      rewrite <- app_assoc, <- E3. split; [exact E1|exact Hok''].
  - cbn [dec] in Hd.
    destruct (le_dec 1 d) as [[ep d1]|] eqn:E1; [|discriminate]. destruct (le_dec_sound _ _ _ _ Hok E1) as [X1 O1].
    destruct (le_dec 2 d1) as [[prof d2]|] eqn:E2; [|discriminate]. destruct (le_dec_sound _ _ _ _ O1 E2) as [X2 O2].
    destruct (le_dec 2 d2) as [[dt d3]|] eqn:E3; [|discriminate]. destruct (le_dec_sound _ _ _ _ O2 E3) as [X3 O3].
    destruct (le_dec 1 d3) as [[dv d4]|] eqn:E4; [|discriminate]. destruct (le_dec_sound _ _ _ _ O3 E4) as [X4 O4].
    destruct (le_dec 1 d4) as [[ic d5]|] eqn:E5; [|discriminate]. destruct (le_dec_sound _ _ _ _ O4 E5) as [X5 O5].
    destruct (le_dec 1 d5) as [[oc d6]|] eqn:E6; [|discriminate]. destruct (le_dec_sound _ _ _ _ O5 E6) as [X6 O6].
    destruct (dec_n dec_u16 (N.to_nat ic) d6) as [[ins d7]|] eqn:E7; [|discriminate].
    destruct (dec_n_sound dec_u16 enc_u16 dec_u16_sound _ _ _ _ O6 E7) as (X7 & O7 & L7).
    destruct (dec_n dec_u16 (N.to_nat oc) d7) as [[outs d8]|] eqn:E8; [|discriminate].
    destruct (dec_n_sound dec_u16 enc_u16 dec_u16_sound _ _ _ _ O7 E8) as (X8 & O8 & L8).
    injection Hd as Ev Er; rewrite <- Ev, <- Er. cbn [enc]. rewrite L7, L8, !N2Nat.id. split; [|exact O8].
    rewrite X1 at 1. rewrite X2 at 1. rewrite X3 at 1. rewrite X4 at 1. rewrite X5 at 1. rewrite X6 at 1. rewrite X7 at 1.
    rewrite X8 at 1. rewrite <- !app_assoc. reflexivity.
Qed.
