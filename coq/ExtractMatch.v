(* Extraction of the "match" sub-model (C17, C12): pattern matching, de-duplication, listener table and dispatch.
   ExtrOcamlBasic only; numbers stay Coq's N / positive / nat datatypes. *)
From Coq Require Import NArith List.
From Coq Require Extraction ExtrOcamlBasic.
From ZB Require Import Api.Match Api.Dispatch Api.DispatchProofs.

Extraction Language OCaml.
Set Extraction KeepSingleton.
Extraction "../ocaml/gen/model_match.ml"
  pat_of_cmd pmatches matches dedup mk_patterns headers any_match resolve_count
  init step run exec dispatch fut_of oldest_eligible cb_due.
