(* C12 - a response resolves only the oldest matching waiter, and every matching callback exactly once. *)
From Coq Require Import NArith List Bool.
From ZB Require Import Api.Match Api.MatchProofs Api.Dispatch Api.DispatchProofs.
Import ListNotations.
Open Scope N_scope.

(* All theorems: for every schema assignment `arity`, every history evs of {register waiter, register callback,
   cancel, receive, settle} whose registered patterns respect the schemas, with s the state after evs, and every
   received command c.  oldest_eligible s c = the earliest-registered (over the whole history) waiter that is
   still pending and one of whose given patterns matches c. *)

Theorem C12_resolves_the_oldest_pending_matching_waiter : forall arity evs, Forall (ev_wf arity) evs -> forall c,
  d_resolved (dispatch (exec init evs) c) =
  match oldest_eligible (exec init evs) c with Some l => [l_id l] | None => [] end.
Proof. exact receive_resolves_oldest_pending_matching. Qed.
Print Assumptions C12_resolves_the_oldest_pending_matching_waiter.

Theorem C12_resolves_at_most_one_waiter : forall arity evs, Forall (ev_wf arity) evs -> forall c,
  (length (d_resolved (dispatch (exec init evs) c)) <= 1)%nat.
Proof. exact receive_resolves_at_most_one. Qed.
Print Assumptions C12_resolves_at_most_one_waiter.

(* every future after the dispatch: only that waiter's changes (to "done with c") *)
Theorem C12_no_other_future_changes : forall arity evs, Forall (ev_wf arity) evs -> forall c id,
  fut_of (d_futs (dispatch (exec init evs) c)) id =
  match oldest_eligible (exec init evs) c with
  | Some l => if id =? l_id l then Some (FDone c) else fut_of (st_futs (exec init evs)) id
  | None => fut_of (st_futs (exec init evs)) id
  end.
Proof. exact receive_futures. Qed.
Print Assumptions C12_no_other_future_changes.

Theorem C12_nonmatching_waiter_unchanged : forall arity evs, Forall (ev_wf arity) evs -> forall c l,
  In l (st_regs (exec init evs)) -> any_match (l_orig l) c = false ->
  fut_of (d_futs (dispatch (exec init evs) c)) (l_id l) = fut_of (st_futs (exec init evs)) (l_id l).
Proof. exact nonmatching_waiter_unchanged. Qed.
Print Assumptions C12_nonmatching_waiter_unchanged.

Theorem C12_waiter_for_another_command_unchanged : forall arity evs, Forall (ev_wf arity) evs -> forall c l,
  In l (st_regs (exec init evs)) -> (forall p, In p (l_orig l) -> fst p <> fst c) ->
  fut_of (d_futs (dispatch (exec init evs) c)) (l_id l) = fut_of (st_futs (exec init evs)) (l_id l).
Proof. exact other_type_waiter_unchanged. Qed.
Print Assumptions C12_waiter_for_another_command_unchanged.

(* callbacks: exactly those registered with a matching pattern, in registration order, each exactly once *)
Theorem C12_invokes_exactly_the_matching_callbacks : forall arity evs, Forall (ev_wf arity) evs -> forall c,
  d_called (dispatch (exec init evs) c) = map l_id (filter (cb_due c) (st_regs (exec init evs))).
Proof. exact receive_callbacks. Qed.
Print Assumptions C12_invokes_exactly_the_matching_callbacks.

Theorem C12_callback_invoked_iff_matching : forall arity evs, Forall (ev_wf arity) evs -> forall c id,
  In id (d_called (dispatch (exec init evs) c)) <->
  exists l, In l (st_regs (exec init evs)) /\ l_id l = id /\ is_waiter l = false /\ any_match (l_orig l) c = true.
Proof. exact receive_callbacks_iff. Qed.
Print Assumptions C12_callback_invoked_iff_matching.

Theorem C12_callback_invoked_exactly_once : forall arity evs, Forall (ev_wf arity) evs -> forall c id,
  count_occ N.eq_dec (d_called (dispatch (exec init evs) c)) id =
  if in_dec N.eq_dec id (d_called (dispatch (exec init evs) c)) then 1%nat else 0%nat.
Proof. exact receive_callbacks_once. Qed.
Print Assumptions C12_callback_invoked_exactly_once.

(* whatever a waiter was resolved with is matched by one of its patterns, so it has that pattern's command type:
   a request (which waits for its own Rsp class, all parameters free) returns only its own response type *)
Theorem C12_resolved_only_with_own_command_type : forall arity evs, Forall (ev_wf arity) evs -> forall id c,
  fut_of (st_futs (exec init evs)) id = Some (FDone c) ->
  exists l p, In l (st_regs (exec init evs)) /\ l_id l = id /\ is_waiter l = true /\
              In p (l_orig l) /\ pmatches p c = true /\ fst p = fst c.
Proof. exact resolved_only_with_matching_command. Qed.
Print Assumptions C12_resolved_only_with_own_command_type.

(* the done-callbacks remove nothing that can still react *)
Theorem C12_live_listener_stays_registered : forall arity evs, Forall (ev_wf arity) evs -> forall l,
  In l (st_regs (exec init evs)) -> keep (st_futs (exec init evs)) l = true -> In l (st_table (exec init evs)).
Proof. exact live_listener_stays_registered. Qed.
Print Assumptions C12_live_listener_stays_registered.

(* a resolved or cancelled future never changes again *)
Theorem C12_finished_future_is_final : forall s ev id x, fut_of (st_futs s) id = Some x -> x <> FPending ->
  fut_of (st_futs (fst (step s ev))) id = Some x.
Proof. exact finished_is_final. Qed.
Print Assumptions C12_finished_future_is_final.

(* the observations of a run are those of the states the theorems speak about *)
Theorem C12_run_is_exec : forall evs s, fst (run s evs) = exec s evs.
Proof. exact run_exec. Qed.
Print Assumptions C12_run_is_exec.

(* non-vacuity: a well-formed history over two command types with equal, overlapping and foreign patterns, a
   cancellation and a burst of three commands in one loop step; the oldest waiter (0) is cancelled, so the first
   command goes to waiter 2, the second to waiter 3 (2 is done but still registered), the third to nobody; the
   waiter for the other type (4) is untouched; callback 1 fires once per command. *)
Example C12_nonvacuous :
  let arity := fun _ : N => 2%nat in
  let p := (5, [None; Some 1]) in let c := (5, [Some 9; Some 1]) in
  let evs := [ERegWaiter [p]; ERegCallback [p; (5, [None; None])]; ERegWaiter [(5, [Some 9; None]); p]; ERegWaiter [p];
              ERegWaiter [(6, [None; None])]; ECancel 0] in
  Forall (ev_wf arity) evs /\
  option_map l_id (oldest_eligible (exec init evs) c) = Some 2 /\
  snd (run (exec init evs) [EReceive c; EReceive c; EReceive c; ESettle; EReceive (6, [Some 0; Some 0])]) =
  [OReceived [2] [1] true; OReceived [3] [1] true; OReceived [] [1] true; OSettled; OReceived [4] [] true].
Proof. cbv zeta. split; [repeat constructor|split; reflexivity]. Qed.
