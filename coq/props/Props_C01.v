(* C01 - placeholder: statements land with Link/RxProofs.v *)
From ZB Require Import Link.Rx Link.RxSpec.
