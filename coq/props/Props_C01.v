(* C01 - serial receive decoding is exact and independent of chunk boundaries.
   Only statements, closed by `exact`, with Print Assumptions beneath. *)
From Coq Require Import NArith List.
From ZB Require Import Base.Bytes Link.LinkSpec Link.LinkSpecProofs Link.Rx Link.RxSpec Link.RxProofs.
Import ListNotations.
Open Scope N_scope.

(* For every link state (any buffer content), handler, and partition of the incoming bytes into one
   or more read chunks: no exception escapes, and what is written and handed up is what the spec
   receiver does for the frames of the greedy spec parse of the WHOLE byte sequence - the chunk
   boundaries do not appear on the right-hand side. *)
Theorem C01_chunk_independent_and_exact : forall h st c cs,
  bytes_ok (rx_buf st) -> Forall bytes_ok (c :: cs) ->
  let '(p, e, o) := outs_of (rx_pack_seq st) (rx_ack_event st) (rx_open st)
                            (spec_parse (rx_buf st ++ concat (c :: cs))) in
  exists buf, rx_run h st (c :: cs) = ({| rx_buf := buf; rx_pack_seq := p; rx_ack_event := e; rx_open := rx_open st |}, o, false).
Proof. exact rx_chunk_independent_exact. Qed.
Print Assumptions C01_chunk_independent_and_exact.

(* the frames the extractor delivers for a buffer are exactly the greedy spec parse (spec CRCs, declared
   length = actual length, NCP type), for every byte string *)
Theorem C01_deliveries_are_the_spec_parse : forall b, bytes_ok b -> dels b = spec_parse b.
Proof. exact dels_spec. Qed.
Print Assumptions C01_deliveries_are_the_spec_parse.

(* soundness: every parsed frame is a well-formed frame occurrence at its offset *)
Theorem C01_sound : forall s o w, In (o, w) (spec_parse_pos s) -> exists rest, spec_decode (skipn o s) = Some (w, rest).
Proof.
  intros s o w H. destruct (spec_sound (length s) s 0 s (le_n _) eq_refl o w H) as (r & A & _). exists r. exact A.
Qed.
Print Assumptions C01_sound.

(* each once, in stream order, without overlap *)
Theorem C01_in_order_once : forall s, incr 0 (spec_parse_pos s).
Proof. intros s. exact (spec_parse_increasing (length s) s 0 (le_n _)). Qed.
Print Assumptions C01_in_order_once.

(* completeness: a well-formed frame occurrence is parsed unless it starts inside the declared extent
   of an earlier header that passed the header checksum *)
Theorem C01_complete : forall s i w rest, spec_decode (skipn i s) = Some (w, rest) ->
  (forall p sz fl, (p < i)%nat -> claims (skipn p s) = Some (sz, fl) -> N.of_nat p + 2 + sz <= N.of_nat i) ->
  In (i, w) (spec_parse_pos s).
Proof. exact spec_complete. Qed.
Print Assumptions C01_complete.

(* promptness: with the bytes received so far, however chunked *)
Theorem C01_prompt : forall h st c cs i w rest, bytes_ok (rx_buf st) -> Forall bytes_ok (c :: cs) ->
  let s := rx_buf st ++ concat (c :: cs) in
  spec_decode (skipn i s) = Some (w, rest) -> w_ack w = false ->
  (forall p sz fl, (p < i)%nat -> claims (skipn p s) = Some (sz, fl) -> N.of_nat p + 2 + sz <= N.of_nat i) ->
  In (ODeliver w) (snd (fst (rx_run h st (c :: cs)))).
Proof. exact rx_prompt. Qed.
Print Assumptions C01_prompt.

(* "well-formed frame" is not an empty notion: the decoder inverts the encoder on every wf value *)
Theorem C01_wellformed_frames_decode : forall w r, wf w -> spec_decode (spec_encode w ++ r) = Some (w, r).
Proof. exact spec_decode_encode. Qed.
Print Assumptions C01_wellformed_frames_decode.

(* non-vacuity: noise, a valid frame, a corrupted copy, a second valid frame: 2 frames parsed *)
Example C01_instance :
  let f1 := [0xDE; 0xAD; 0x0E; 0; 6; 0xC0; 0x5D; 0xB3; 0x50; 0; 0; 1; 0; 1; 2; 3] in
  let bad := [0xDE; 0xAD; 0x0E; 0; 6; 0xC0; 0x5D; 0xB3; 0x50; 0; 0; 1; 0; 1; 2; 4] in
  length (spec_parse ([0xDE; 1; 2] ++ f1 ++ bad ++ f1)) = 2%nat.
Proof. vm_compute. reflexivity. Qed.
