(* C16 - wire types are self-delimiting, strict on short input, and invert exactly (generic codec part;
   C-structs and NVRAM containers: Wire/CStruct*.v, Wire/Nvram*.v). *)
From Coq Require Import NArith List Bool.
From ZB Require Import Base.Bytes Wire.Wty Wire.WtyProofs.
Import ListNotations.
Open Scope N_scope.

(* decoding a value's encoding followed by arbitrary further bytes returns the value and exactly those bytes *)
Theorem C16_self_delimiting_roundtrip : forall t, selfdelim t = true ->
  forall v r, valid t v = true -> dec t (enc t v ++ r) = Some (v, r).
Proof. exact roundtrip. Qed.
Print Assumptions C16_self_delimiting_roundtrip.

(* greedy types consume everything by design *)
Theorem C16_greedy_roundtrip : forall t, selfdelim t = true -> nonempty_enc t = true ->
  forall vs, valid (TGreedy t) (VList vs) = true -> dec (TGreedy t) (enc (TGreedy t) (VList vs)) = Some (VList vs, []).
Proof. exact greedy_roundtrip. Qed.
Print Assumptions C16_greedy_roundtrip.

(* an encoding cut short is an error, never a truncated value *)
Theorem C16_strict_on_truncation : forall t, selfdelim t = true -> forall v p s, valid t v = true ->
  enc t v = p ++ s -> s <> [] -> dec t p = None.
Proof. exact strict_on_truncation. Qed.
Print Assumptions C16_strict_on_truncation.

Theorem C16_greedy_strict_inside_an_item : forall t, selfdelim t = true -> nonempty_enc t = true ->
  forall vs v q s, forallb (valid t) vs = true -> valid t v = true -> enc t v = q ++ s -> q <> [] -> s <> [] ->
  dec (TGreedy t) (List.concat (map (enc t) vs) ++ q) = None.
Proof. exact greedy_strict. Qed.
Print Assumptions C16_greedy_strict_inside_an_item.

(* decoders never look beyond what they consume, and what they return re-encodes to the bytes consumed *)
Theorem C16_decoder_is_prefix_determined : forall t, selfdelim t = true ->
  forall d v r s, dec t d = Some (v, r) -> dec t (d ++ s) = Some (v, r ++ s).
Proof. exact dec_extend. Qed.
Print Assumptions C16_decoder_is_prefix_determined.
Theorem C16_decoded_reencodes : forall t d v r, bytes_ok d -> dec t d = Some (v, r) -> d = enc t v ++ r /\ bytes_ok r.
Proof. exact dec_sound. Qed.
Print Assumptions C16_decoded_reencodes.

Example C16_instance : let t := TStruct [TInt 1; TLVList 1 (TInt 2); TSimpleDesc] in
  let v := VList [VInt 7; VList [VInt 513; VInt 2]; VList [VInt 1; VInt 260; VInt 5; VInt 0; VList [VInt 6]; VList []]] in
  selfdelim t = true /\ valid t v = true /\ dec t (enc t v ++ [9; 9]) = Some (v, [9; 9]).
Proof. vm_compute. repeat split. Qed.
