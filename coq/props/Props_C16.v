(* C16 - wire types are self-delimiting, strict on short input, and invert exactly (generic codec part;
   C-structs and NVRAM containers: Wire/CStruct*.v, Wire/Nvram*.v). *)
From Coq Require Import NArith List Bool.
From Coq Require Import ZArith.
From ZB Require Import Base.Bytes Wire.Wty Wire.WtyProofs.
From ZB Require Wire.CStruct Wire.CStructProofs Wire.Nvram Wire.NvramProofs.
Import ListNotations.
Open Scope N_scope.

(* decoding a value's encoding followed by arbitrary further bytes returns the value and exactly those bytes *)
Theorem C16_self_delimiting_roundtrip : forall t, selfdelim t = true ->
  forall v r, valid t v = true -> dec t (enc t v ++ r) = Some (v, r).
Proof. exact roundtrip. Qed.
Print Assumptions C16_self_delimiting_roundtrip.

(* greedy types consume everything by design *)
Theorem C16_greedy_roundtrip : forall t, selfdelim t = true -> nonempty_enc t = true ->
  forall vs, valid (TGreedy t) (VList vs) = true -> dec (TGreedy t) (enc (TGreedy t) (VList vs)) = Some (VList vs, []).
Proof. exact greedy_roundtrip. Qed.
Print Assumptions C16_greedy_roundtrip.

(* an encoding cut short is an error, never a truncated value *)
Theorem C16_strict_on_truncation : forall t, selfdelim t = true -> forall v p s, valid t v = true ->
  enc t v = p ++ s -> s <> [] -> dec t p = None.
Proof. exact strict_on_truncation. Qed.
Print Assumptions C16_strict_on_truncation.

Theorem C16_greedy_strict_inside_an_item : forall t, selfdelim t = true -> nonempty_enc t = true ->
  forall vs v q s, forallb (valid t) vs = true -> valid t v = true -> enc t v = q ++ s -> q <> [] -> s <> [] ->
  dec (TGreedy t) (List.concat (map (enc t) vs) ++ q) = None.
Proof. exact greedy_strict. Qed.
Print Assumptions C16_greedy_strict_inside_an_item.

(* decoders never look beyond what they consume, and what they return re-encodes to the bytes consumed *)
Theorem C16_decoder_is_prefix_determined : forall t, selfdelim t = true ->
  forall d v r s, dec t d = Some (v, r) -> dec t (d ++ s) = Some (v, r ++ s).
Proof. exact dec_extend. Qed.
Print Assumptions C16_decoder_is_prefix_determined.
Theorem C16_decoded_reencodes : forall t d v r, bytes_ok d -> dec t d = Some (v, r) -> d = enc t v ++ r /\ bytes_ok r.
Proof. exact dec_sound. Qed.
Print Assumptions C16_decoded_reencodes.

Example C16_instance : let t := TStruct [TInt 1; TLVList 1 (TInt 2); TSimpleDesc] in
  let v := VList [VInt 7; VList [VInt 513; VInt 2]; VList [VInt 1; VInt 260; VInt 5; VInt 0; VList [VInt 6]; VList []]] in
  selfdelim t = true /\ valid t v = true /\ dec t (enc t v ++ [9; 9]) = Some (v, [9; 9]).
Proof. vm_compute. repeat split. Qed.

(* ====================================================================== *)
(* C-style structs (both alignment modes) and NVRAM dataset containers *)
Module CStructPart.
Import ZB.Wire.CStruct ZB.Wire.CStructProofs ZB.Wire.Nvram ZB.Wire.NvramProofs.
Import ListNotations.
Open Scope nat_scope.

(* ---- layout ---- *)
(* alignment of an int field = its size when alignment is requested, 1 otherwise; byte fields 1;
   a nested struct counts with its own size and alignment *)
Theorem C16cs_int_alignment_is_its_size : forall s,
  size_align true (CInt s) = (s, s) /\ size_align false (CInt s) = (s, 1).
Proof. exact int_alignment_is_size. Qed.
Print Assumptions C16cs_int_alignment_is_its_size.

Theorem C16cs_nested_struct_size_and_alignment : forall al fs,
  size_align al (CNested fs) = (cs_size al fs, cs_alignment al fs) /\
  cs_alignment al fs = fold_right Nat.max 0 (map (fun f => snd (size_align al f)) fs).
Proof. intros al fs. split; [exact (nested_size_align al fs)|exact (struct_alignment_is_max al fs)]. Qed.
Print Assumptions C16cs_nested_struct_size_and_alignment.

(* both modes: paddings follow the natural-alignment rule (each field at the first multiple of its alignment at
   or after the end of the previous field; padding minimal) - and that rule determines them uniquely *)
Theorem C16cs_layout_is_the_natural_one : forall al fs, wf (CNested fs) = true ->
  natural_layout 0 (map (size_align al) fs) (cs_padded al fs) /\
  (forall pads, natural_layout 0 (map (size_align al) fs) pads -> pads = cs_padded al fs).
Proof. intros al fs H. split; [exact (layout_is_natural al fs H)|intros pads; exact (layout_is_the_only_natural_one al fs pads H)]. Qed.
Print Assumptions C16cs_layout_is_the_natural_one.

Theorem C16cs_field_offsets_aligned_padding_minimal : forall al fs, wf (CNested fs) = true ->
  forall i, i < length fs ->
    let f := nth i fs (CBytes 0) in
    let a := snd (size_align al f) in
    let o := nth i (cs_offsets al fs) 0 in
    let p := fst (nth i (cs_padded al fs) (0, 0)) in
    snd (nth i (cs_padded al fs) (0, 0)) = fst (size_align al f) /\
    p < a /\ o mod a = 0 /\
    o = (match i with 0 => 0 | S j => nth j (ends_from 0 (cs_padded al fs)) 0 end) + p.
Proof. exact aligned_field_offsets. Qed.
Print Assumptions C16cs_field_offsets_aligned_padding_minimal.

(* total size: first multiple of the struct alignment (= max field alignment) at or after the last field's end *)
Theorem C16cs_size_is_natural : forall al fs, wf (CNested fs) = true ->
  natural_total (map (size_align al) fs) (cs_padded al fs) (cs_size al fs) (cs_alignment al fs).
Proof. exact size_is_natural. Qed.
Print Assumptions C16cs_size_is_natural.

(* packed: no padding, offset = sum of the preceding sizes, size = sum of the sizes *)
Theorem C16cs_packed_layout : forall fs, wf (CNested fs) = true ->
  cs_alignment false fs = 1 /\
  cs_padded false fs = map (fun s => (0, s)) (field_sizes false fs) /\
  cs_offsets false fs = prefix_sums 0 (field_sizes false fs) /\
  cs_size false fs = list_sum (field_sizes false fs).
Proof. exact packed_layout. Qed.
Print Assumptions C16cs_packed_layout.

Theorem C16cs_packed_field_offset : forall fs i, wf (CNested fs) = true -> i < length fs ->
  nth i (cs_offsets false fs) 0 = list_sum (firstn i (field_sizes false fs)).
Proof. exact packed_field_offset. Qed.
Print Assumptions C16cs_packed_field_offset.

(* ---- serialize / deserialize ---- *)
(* for valid values (ints in range, byte fields of the right length): the encoding has exactly `size` bytes,
   decoding it followed by ANY further bytes returns the value and exactly those bytes, and every proper
   prefix of it is a ValueError *)
Theorem C16cs_codec : forall al fs vs, valid (CNested fs) (VStruct vs) = true ->
  exists b, cs_serialize al fs vs = Some b /\ length b = cs_size al fs /\ bytes_ok b /\
            (forall r, cs_deserialize al fs (b ++ r) = COk (VStruct vs, r)) /\
            (forall k, k < length b -> cs_deserialize al fs (firstn k b) = CValueError).
Proof. exact cs_codec. Qed.
Print Assumptions C16cs_codec.

(* the encoding is: per field its padding of 0xFF bytes then the field's own encoding; then 0xFF up to the size *)
Theorem C16cs_serialize_form : forall al fs vs b, cs_serialize al fs vs = Some b ->
  exists chunks, Forall2 (fun fv c => ser al (fst fv) (snd fv) = Some c) (combine fs vs) chunks /\
    length vs = length fs /\
    let body := interleave (cs_padded al fs) chunks in
    b = body ++ repeat padding_byte (cs_size al fs - length body).
Proof. exact cs_serialize_form. Qed.
Print Assumptions C16cs_serialize_form.

Theorem C16cs_serialize_defined_iff_valid : forall al fs vs,
  valid (CNested fs) (VStruct vs) = true <-> exists b, cs_serialize al fs vs = Some b.
Proof. exact cs_serialize_defined_iff_valid. Qed.
Print Assumptions C16cs_serialize_defined_iff_valid.

(* strictness, exactly: ValueError if and only if the input is shorter than the struct size; otherwise exactly
   `size` bytes are consumed whatever they contain *)
Theorem C16cs_deserialize_error_iff_short : forall al fs d,
  (cs_deserialize al fs d = CValueError <-> length d < cs_size al fs) /\
  (cs_size al fs <= length d -> exists v, cs_deserialize al fs d = COk (v, skipn (cs_size al fs) d)).
Proof. intros al fs d. split; [exact (cs_deserialize_error_iff_short al fs d)|exact (cs_deserialize_exact al fs d)]. Qed.
Print Assumptions C16cs_deserialize_error_iff_short.

(* ---- NVRAM datasets ---- *)
Theorem C16cs_get_byte_size_is_packed_size : forall fs, wf (CNested fs) = true -> zs_size fs = cs_size false fs.
Proof. exact get_byte_size_is_packed_size. Qed.
Print Assumptions C16cs_get_byte_size_is_packed_size.

(* address map: what DSNwkAddrMap.serialize writes for any list of fewer than 256 valid records is the read layout
   (header byte_count = 4 + 16 n, entry_count = n, version 2), parses back to exactly the records and the
   further bytes, and is rejected when cut short *)
Theorem C16cs_addr_map_roundtrip : forall rs, Forall (fun x => zs_valid addr_rec_ty x = true) rs -> length rs < 256 ->
  exists b, serialize_addr_map rs = Some b /\ length b = 6 + 16 * length rs /\
            (forall r, parse_addr_map (b ++ r) = Some (rs, r)) /\
            (forall k, k < length b -> parse_addr_map (firstn k b) = None).
Proof. exact addr_map_roundtrip. Qed.
Print Assumptions C16cs_addr_map_roundtrip.

Theorem C16cs_addr_map_serialize_form : forall rs items, ser_items addr_rec_ty rs = Some items -> length rs < 256 ->
  serialize_addr_map rs =
  Some (addr_map_read_layout (N.of_nat (4 + 16 * length rs)) addr_map_version 0%N (length rs) items).
Proof. exact addr_map_serialize_form. Qed.
Print Assumptions C16cs_addr_map_serialize_form.

(* the version byte DSNwkAddrMap.serialize writes is 2 (nvids.py: `version = 2`); the empty map is 04 00 00 02 00 00 (byte count 4: the count field does not count itself) *)
Theorem C16cs_addr_map_version_is_2 : addr_map_version = 2%N /\ serialize_addr_map [] = Some [4; 0; 0; 2; 0; 0]%N.
Proof. split; reflexivity. Qed.
Print Assumptions C16cs_addr_map_version_is_2.

(* any header values around the entry count (the parser reads entry_count only) *)
Theorem C16cs_addr_map_parse_read_layout : forall rs items bc ver al r,
  ser_items addr_rec_ty rs = Some items -> length rs < 256 ->
  (bc < 65536)%N -> (ver < 256)%N -> (al < 65536)%N ->
  parse_addr_map (addr_map_read_layout bc ver al (length rs) items ++ r) = Some (rs, r).
Proof. exact addr_map_parse_read_layout. Qed.
Print Assumptions C16cs_addr_map_parse_read_layout.

(* APS keys: read layout = u16 (4 + 28 n), any 4 bytes, the n 28-byte entries *)
Theorem C16cs_aps_keys_roundtrip : forall rs x4, Forall (fun x => zs_valid aps_entry_ty x = true) rs ->
  length x4 = 4 -> (4 + 28 * N.of_nat (length rs) < 65536)%N ->
  exists items, ser_items aps_entry_ty rs = Some items /\
    let b := aps_keys_read_layout x4 (length rs) items in
    length b = 6 + 28 * length rs /\
    (forall r, parse_aps_keys (b ++ r) = Some (rs, r)) /\
    (rs <> [] -> forall k, k < length b -> parse_aps_keys (firstn k b) = None).
Proof. exact aps_keys_roundtrip. Qed.
Print Assumptions C16cs_aps_keys_roundtrip.

(* the entry-count arithmetic int((length - 4) / 28) is exact on such layouts *)
Theorem C16cs_aps_entry_count_exact : forall n, aps_entry_count (N.of_nat (4 + 28 * n)) = n /\
  Z.rem (Z.of_N (N.of_nat (4 + 28 * n)) - 4) 28 = 0%Z.
Proof. exact aps_entry_count_exact. Qed.
Print Assumptions C16cs_aps_entry_count_exact.

(* through nvram.py read(): NVRAMDataset.serialize() of the dataset bytes *)
Theorem C16cs_datasets_from_read : forall rs items,
  (forall ver al, ser_items addr_rec_ty rs = Some items -> length rs < 256 -> (ver < 256)%N -> (al < 65536)%N ->
     parse_addr_map (nvram_read_bytes (le_enc 1 (N.of_nat (length rs)) ++ le_enc 1 ver ++ le_enc 2 al ++ items))
     = Some (rs, [])) /\
  (forall x4, ser_items aps_entry_ty rs = Some items -> length x4 = 4 -> (4 + 28 * N.of_nat (length rs) < 65536)%N ->
     parse_aps_keys (nvram_read_bytes (x4 ++ items)) = Some (rs, [])).
Proof.
  intros rs items. split.
  - intros ver al. exact (addr_map_from_dataset rs items ver al).
  - intros x4. exact (aps_keys_from_dataset rs items x4).
Qed.
Print Assumptions C16cs_datasets_from_read.

(* the asymmetry: DSApsSecureKeys.serialize writes u16 (28 n) + entries, which is NOT the read layout -
   parsing it can only ever return n - 1 entries *)
Theorem C16cs_aps_keys_serialize_form : forall rs items, ser_items aps_entry_ty rs = Some items ->
  (28 * N.of_nat (length rs) < 65536)%N ->
  serialize_aps_keys rs = Some (le_enc 2 (N.of_nat (28 * length rs)) ++ items).
Proof. exact aps_keys_serialize_form. Qed.
Print Assumptions C16cs_aps_keys_serialize_form.

Theorem C16cs_aps_keys_serialize_is_not_read_layout : forall rs items r, ser_items aps_entry_ty rs = Some items ->
  rs <> [] -> (28 * N.of_nat (length rs) < 65536)%N ->
  forall b, serialize_aps_keys rs = Some b ->
  forall out rest, parse_aps_keys (b ++ r) = Some (out, rest) -> length out = length rs - 1.
Proof. exact aps_keys_serialize_is_not_read_layout. Qed.
Print Assumptions C16cs_aps_keys_serialize_is_not_read_layout.

(* non-vacuity: concrete instances satisfying the hypotheses *)
Example C16cs_example_layout :
  let fs := [CInt 1; CNested [CInt 1; CInt 4]; CBytes 8; CInt 3; CBytes 16; CInt 1] in
  wf (CNested fs) = true /\ cs_size true fs = 44 /\ cs_alignment true fs = 4 /\
  cs_padded true fs = [(0, 1); (3, 8); (0, 8); (1, 3); (0, 16); (0, 1)] /\ cs_size false fs = 34.
Proof. vm_compute. repeat split. Qed.

Example C16cs_example_records :
  let r := [VBytes [1; 2; 3; 4; 5; 6; 7; 8]%N; VInt 0x1234; VInt 1; VInt 0; VInt 5; VInt 0] in
  let e := [VBytes [1; 2; 3; 4; 5; 6; 7; 8]%N; VBytes (repeat 7%N 16); VInt 5] in
  zs_valid addr_rec_ty r = true /\ zs_valid aps_entry_ty e = true /\
  parse_addr_map (nvram_read_bytes ([1; 2; 0; 0]%N ++ match zs_ser addr_rec_ty r with Some b => b | None => [] end)) = Some ([r], []) /\
  parse_aps_keys (nvram_read_bytes ([170; 187; 170; 187]%N ++ match zs_ser aps_entry_ty e with Some b => b | None => [] end)) = Some ([e], []).
Proof. vm_compute. repeat split. Qed.

End CStructPart.
