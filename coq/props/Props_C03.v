(* C03 - Checksums equal CRC-8/KOOP and CRC-16/KERMIT for every input.
   Only statements, closed by `exact`, with Print Assumptions beneath. *)
From Coq Require Import NArith List.
From ZB Require Import Base.Bytes Crc.CrcSpec Crc.CrcModel Crc.CrcProofs.
Import ListNotations.
Open Scope N_scope.

(* every byte string: code digest = CRC-8/KOOP (poly 0x4D, init 0xFF, reflected, xorout 0xFF) *)
Theorem C03_crc8_is_koop : forall bytes, bytes_ok bytes -> crc8 bytes = crc8_spec bytes.
Proof. exact crc8_code_eq_spec. Qed.
Print Assumptions C03_crc8_is_koop.

(* every (state, bytes) pair of the 8-bit automaton *)
Theorem C03_crc8_every_state : forall bytes s, s < 256 -> bytes_ok bytes ->
  crc8_from s bytes = N.lxor (crc_reg poly8 bytes (N.lxor s 0xFF)) 0xFF /\ crc8_from s bytes < 256.
Proof. exact crc8_from_spec. Qed.
Print Assumptions C03_crc8_every_state.

(* every byte string: code digest = CRC-16/KERMIT (poly 0x1021, init 0, reflected, no xorout),
   from every start state *)
Theorem C03_crc16_is_kermit : forall bytes, bytes_ok bytes -> crc16 bytes = crc16_spec bytes.
Proof. exact crc16_code_eq_spec. Qed.
Print Assumptions C03_crc16_is_kermit.
Theorem C03_crc16_every_state : forall bytes s, bytes_ok bytes -> crc16_from s bytes = crc_reg poly16 bytes s.
Proof. exact crc16_from_spec. Qed.
Print Assumptions C03_crc16_every_state.

(* incremental feeding gives the digest of the concatenation *)
Theorem C03_crc8_incremental : forall a b s, crc8_from s (a ++ b) = crc8_from (crc8_from s a) b.
Proof. exact crc8_incremental. Qed.
Print Assumptions C03_crc8_incremental.
Theorem C03_crc16_incremental : forall a b s, crc16_from s (a ++ b) = crc16_from (crc16_from s a) b.
Proof. exact crc16_incremental. Qed.
Print Assumptions C03_crc16_incremental.

(* every 1- or 2-bit corruption of the 40 header bits (4 covered bytes + checksum byte) is rejected *)
Theorem C03_header_1_2_bit_errors_rejected : forall h4 i j, length h4 = 4%nat -> bytes_ok h4 -> i < 40 -> j < 40 ->
  crc8_spec (xorl h4 (firstn 4 (hdr_err i j))) <> N.lxor (crc8_spec h4) (nth 4 (hdr_err i j) 0).
Proof. exact header_errors_detected. Qed.
Print Assumptions C03_header_1_2_bit_errors_rejected.

(* every error burst of up to 16 bits in the checksummed body bytes is rejected *)
Theorem C03_body_bursts_rejected : forall p e k w o m j, length e = length p ->
  0 < w -> w < 65536 -> o < 8 ->
  e ++ repeat 0 j = repeat 0 k ++ burst3 w o ++ repeat 0 m ->
  crc16_spec (xorl p e) <> crc16_spec p.
Proof. exact body_burst_detected. Qed.
Print Assumptions C03_body_bursts_rejected.
