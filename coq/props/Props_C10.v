(* C10 - fragmented incoming messages are reassembled into exactly the original. *)
From Coq Require Import NArith List Bool.
From ZB Require Import Base.Bytes Link.LinkSpec Link.LinkSpecProofs Link.Frame Link.Frag Link.Reasm Link.ReasmProofs
  Link.RxSpec Link.RxProofs Link.FragProofs gen.GenConsts.
Import ListNotations.
Open Scope N_scope.

(* From ANY pending state (in particular one left behind by an interrupted fragment sequence), the frames
   of a message - whatever the fragment sizes (first fragment >= 4 bytes) - deliver exactly that message
   once, at its last fragment, and leave nothing pending: a first-flagged frame starts a new message. *)
Theorem C10_message_reassembled_exactly : forall h d ws pending, h <> 0 -> h < 2 ^ 32 -> frag_seq h d ws ->
  reasm_run pending ws = ([], [RMsg h d]).
Proof. exact reasm_message. Qed.
Print Assumptions C10_message_reassembled_exactly.

(* a sequence of messages after an arbitrary interrupted prefix: exactly those messages, in order *)
Theorem C10_interrupted_sequences_do_not_corrupt : forall msgs pending,
  Forall (fun m => let '(h, d, ws) := m in h <> 0 /\ h < 2 ^ 32 /\ frag_seq h d ws) msgs ->
  reasm_run pending (concat (map (fun m => snd m) msgs)) =
  ((match msgs with [] => pending | _ => [] end), map (fun m => RMsg (fst (fst m)) (snd (fst m))) msgs).
Proof. exact reasm_messages. Qed.
Print Assumptions C10_interrupted_sequences_do_not_corrupt.

(* the wire part: the concatenated encodings of well-formed frames are parsed (C01: for every chunking)
   into exactly those frames *)
Theorem C10_clean_stream_parses_to_its_frames : forall ws, Forall wf ws -> spec_parse (concat (map spec_encode ws)) = ws.
Proof. exact spec_parse_clean_stream. Qed.
Print Assumptions C10_clean_stream_parses_to_its_frames.

(* what the host's own transmitter emits (C09: each fragment is the spec encoding of a well-formed frame whose
   body is its piece, first/last flags as labelled, pieces concatenating to the message) *)
Theorem C10_tx_fragments_are_wellformed_pieces : forall h d seq p, h <> 0 -> h < 2 ^ 32 -> bytes_ok d -> seq < 4 ->
  let ser := le_enc 4 h ++ d in
  (MAXB < length ser)%nat -> In p (spec_fragments ser) ->
  exists w, serialize (stamp seq (frame_of_piece h p)) = spec_encode w /\ wf w /\ w_ack w = false /\
    w_body w = snd p /\ w_size w = N.of_nat (length (snd p)) + 7 /\
    fl_first (w_flags w) = (fst p =? llflag_FirstFrag) /\ fl_last (w_flags w) = (fst p =? llflag_LastFrag) /\
    fl_pseq (w_flags w) = seq.
Proof. exact fragment_frames_wellformed. Qed.
Print Assumptions C10_tx_fragments_are_wellformed_pieces.

Example C10_instance :
  let p1 := [0; 0; 1; 0; 9] in let p2 := [8; 7] in
  reasm_run [[1; 2; 3]] [first_frame 0x40 p1; cont_frame 0x80 p2] = ([], [RMsg 65536 [9; 8; 7]]).
Proof. vm_compute. reflexivity. Qed.
