(* C07 - transmission is stop-and-wait: one unacknowledged data frame at a time, in order. *)
From Coq Require Import NArith List Bool.
From ZB Require Import Link.TxSched Link.TxSchedProofs Link.TxSchedSeq gen.GenConsts.
Import ListNotations.
Open Scope N_scope.

(* for EVERY event history - any number of concurrent callers of send(), matching / stale / duplicate ACKs,
   silence past the ACK wait, cancellation of the sender in flight or of queued senders, incoming data,
   close - the observable log satisfies: a data frame is written only when none is in flight, and a frame
   in flight ends only by its ACK, the expiry of its wait, or the cancellation of its sender *)
Theorem C07_stop_and_wait : forall evs, stop_and_wait (t_log (trun_events evs)) = true.
Proof. exact stop_and_wait_always. Qed.
Print Assumptions C07_stop_and_wait.

(* ... and callers are served in the order they called, each exactly once: every served caller is the head
   of the FIFO of outstanding calls *)
Theorem C07_in_request_order_each_once : forall evs, fifo_order (t_log (trun_events evs)) = true.
Proof. exact fifo_order_always. Qed.
Print Assumptions C07_in_request_order_each_once.

(* the invariant behind both: at every reachable state the frame in flight is the lock holder's and the
   lock queue is the FIFO of outstanding calls *)
Theorem C07_invariant : forall evs, Inv (trun_events evs).
Proof. exact reachable_inv. Qed.
Print Assumptions C07_invariant.

(* a queued caller never waits while the link is free *)
Theorem C07_no_idle_waiting : forall fuel s, (length (t_queue s) < fuel)%nat -> no_idle_waiting (serve fuel s).
Proof. exact serve_drains. Qed.
Print Assumptions C07_no_idle_waiting.

Example C07_instance :
  rev (t_log (trun_events [TSendE 1; TSendE 2; TAckE 3; TAckE 0; TTickE 1000; TCancelE 2])) =
  [TCall 1; TW 1 0; TCall 2; TEnd 1 0; TW 2 1; TEnd 2 1].
Proof. vm_compute. reflexivity. Qed.

(* ---- what "acknowledged" and "expired" mean in the scheduler (Link/TxSchedSeq.v): in every reachable state the wait in
   progress is ended by an ACK carrying the number its frame was stamped with ... *)
Theorem C07_matching_ack_ends_the_wait : forall evs tag d,
  t_holder (trun_events evs) = Some (tag, d) ->
  exists new, t_log (tstep (trun_events evs) (TAckE (t_seq (trun_events evs)))) = new ++ TEnd tag 0 :: t_log (trun_events evs).
Proof. exact matching_ack_ends_the_wait. Qed.
Print Assumptions C07_matching_ack_ends_the_wait.

(* ... a frame written on a free link is waited for until exactly ACK_TIMEOUT (the tree's constant) later ... *)
Theorem C07_wait_is_ack_timeout : forall s tag tg d,
  t_holder s = None -> t_queue s = [] -> t_open s = true ->
  t_holder (tstep s (TSendE tag)) = Some (tg, d) -> tg = tag /\ d = t_now s + ack_timeout_ms.
Proof. exact wait_is_ack_timeout. Qed.
Print Assumptions C07_wait_is_ack_timeout.

(* ... and the wait expires when the clock reaches that deadline, not before *)
Theorem C07_no_expiry_before_deadline : forall s dt tag d,
  t_holder s = Some (tag, d) -> t_now s + dt < d ->
  t_holder (tstep s (TTickE dt)) = Some (tag, d) /\ t_log (tstep s (TTickE dt)) = t_log s.
Proof. exact no_expiry_before_deadline. Qed.
Print Assumptions C07_no_expiry_before_deadline.
Theorem C07_expiry_at_deadline : forall s dt tag d,
  t_holder s = Some (tag, d) -> d <= t_now s + dt ->
  exists new, t_log (tstep s (TTickE dt)) = new ++ TEnd tag 1 :: t_log s.
Proof. exact expiry_at_deadline. Qed.
Print Assumptions C07_expiry_at_deadline.

(* cancelling the sender whose frame is in flight ends its wait as cancelled; after close() a send() is over at once *)
Theorem C07_cancel_in_flight_ends_cancelled : forall s tag d, t_holder s = Some (tag, d) ->
  exists new, t_log (tstep s (TCancelE tag)) = new ++ TEnd tag 2 :: t_log s.
Proof. exact cancel_in_flight_ends_cancelled. Qed.
Print Assumptions C07_cancel_in_flight_ends_cancelled.
Theorem C07_send_after_close_writes_nothing : forall s tag, t_open s = false -> t_holder s = None -> t_queue s = [] ->
  t_log (tstep s (TSendE tag)) = TEnd tag 3 :: TCall tag :: t_log s /\ t_holder (tstep s (TSendE tag)) = None.
Proof. exact send_after_close_writes_nothing. Qed.
Print Assumptions C07_send_after_close_writes_nothing.
