(* C09 - outgoing fragmentation partitions any message exactly, within the size limit.
   Only statements, closed by `exact`, with Print Assumptions beneath. *)
From Coq Require Import NArith List Arith.
From ZB Require Import Base.Bytes Link.LinkSpec Link.LinkSpecProofs Link.Frame Link.Frag Link.FrameProofs Link.FragProofs gen.GenConsts.
Import ListNotations.
Open Scope nat_scope.

(* the limit is the protocol's 247 *)
Theorem C09_limit : MAXB = 247.
Proof. exact MAXB_val. Qed.
Print Assumptions C09_limit.

(* a message (4-byte command header + payload, any length) is sent as one frame if it fits, and
   otherwise as the frames built from the labelled pieces of spec_fragments *)
Theorem C09_fragment_list : forall h d F, to_frame h d = Some F -> h <> 0%N ->
  let ser := le_enc 4 h ++ d in
  (length ser <= MAXB -> tx_fragment F = [F]) /\
  (MAXB < length ser -> tx_fragment F = map (frame_of_piece h) (spec_fragments ser)).
Proof. exact tx_fragment_spec. Qed.
Print Assumptions C09_fragment_list.

(* the pieces, concatenated in order, are byte for byte the message *)
Theorem C09_pieces_concatenate : forall ser, concat (map snd (spec_fragments ser)) = ser.
Proof. exact pieces_concat. Qed.
Print Assumptions C09_pieces_concatenate.

(* every piece is non-empty and at most 247 bytes *)
Theorem C09_piece_sizes : forall ser, MAXB < length ser -> Forall (fun p => 0 < length (snd p) <= MAXB) (spec_fragments ser).
Proof. exact pieces_sizes. Qed.
Print Assumptions C09_piece_sizes.

(* as few fragments as the limit allows *)
Theorem C09_fragment_count : forall ser, MAXB < length ser -> length (spec_fragments ser) = (length ser + (MAXB - 1)) / MAXB.
Proof. exact pieces_count. Qed.
Print Assumptions C09_fragment_count.

(* exactly the first is flagged first, exactly the last is flagged last *)
Theorem C09_flags : forall ser, MAXB < length ser ->
  map fst (spec_fragments ser) = llflag_FirstFrag :: repeat 0%N (length (spec_fragments ser) - 2) ++ [llflag_LastFrag].
Proof. exact pieces_flags. Qed.
Print Assumptions C09_flags.

(* each fragment as put on the wire (any packet sequence number): well-formed, its own valid body
   checksum (wf + spec encoding), body = its piece, length field = body + 7, flags as labelled *)
Theorem C09_each_fragment_wellformed : forall h d seq p, h <> 0%N -> (h < 2 ^ 32)%N -> bytes_ok d -> (seq < 4)%N ->
  let ser := le_enc 4 h ++ d in
  MAXB < length ser -> In p (spec_fragments ser) ->
  exists w, serialize (stamp seq (frame_of_piece h p)) = spec_encode w /\ wf w /\ w_ack w = false /\
    w_body w = snd p /\ w_size w = (N.of_nat (length (snd p)) + 7)%N /\
    fl_first (w_flags w) = (fst p =? llflag_FirstFrag)%N /\ fl_last (w_flags w) = (fst p =? llflag_LastFrag)%N /\
    fl_pseq (w_flags w) = seq.
Proof. exact fragment_frames_wellformed. Qed.
Print Assumptions C09_each_fragment_wellformed.

(* an unfragmented frame carries both flags and is well-formed: C05_command_frames (flags 192 = first|last) *)

(* non-vacuity: total = 248 = 1 mod 247 (the residue class the pinned revision got wrong) *)
Example C09_instance :
  map (fun p => (fst p, length (snd p))) (spec_fragments (le_enc 4 65536%N ++ repeat 7%N 244)) = [(64%N, 4); (128%N, 244)].
Proof. vm_compute. reflexivity. Qed.

(* the limit is the protocol's 247 bytes *)
Theorem C09_limit_is_247 : MAXB = 247%nat.
Proof. exact MAXB_val. Qed.
Print Assumptions C09_limit_is_247.
