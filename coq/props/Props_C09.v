(* C09 - placeholder: statements land with Link/FragProofs.v *)
From Coq Require Import NArith List.
From ZB Require Import Base.Bytes Link.Frame Link.Frag.
