(* C20 - closing or losing the link never strands a caller and is reported once. *)
From Coq Require Import NArith List Bool.
From ZB Require Import Api.Api Api.ApiProofs Api.ApiLive Api.ApiFifo Api.ApiReset gen.GenConsts.
Import ListNotations.
Open Scope N_scope.

(* after close() (and after a connection loss) the link is absent, and stays absent *)
Theorem C20_close_makes_link_absent : forall s, uart_present (step s EClose) = false.
Proof. exact close_makes_link_absent. Qed.
Print Assumptions C20_close_makes_link_absent.
Theorem C20_link_stays_absent : forall s e, uart_present s = false -> uart_present (step s e) = false.
Proof. exact link_stays_absent. Qed.
Print Assumptions C20_link_stays_absent.

(* new requests are refused immediately: the request ends in the very step it is issued *)
Theorem C20_new_requests_refused_immediately : forall s rid cls b n t, uart_present s = false -> get s rid = None ->
  log (step s (EIssue rid cls b n t)) = OE rid ORuntime :: log s.
Proof. exact issue_refused_when_link_absent. Qed.
Print Assumptions C20_new_requests_refused_immediately.

(* the owning application is told exactly once per loss, only while attached and not during a reset, by no other event *)
Theorem C20_loss_reported_exactly_once : forall s e,
  count_lost (log (step s e)) =
  (count_lost (log s) + match e with ELost => if app_attached s && negb (reset_in_progress s) then 1 else 0 | _ => 0 end)%nat.
Proof. exact loss_reported_exactly. Qed.
Print Assumptions C20_loss_reported_exactly_once.
Theorem C20_close_detaches_app : forall s, reset_in_progress s = false -> app_attached (step s EClose) = false.
Proof. exact close_detaches_app. Qed.
Print Assumptions C20_close_detaches_app.

(* every request still ends with an outcome and never keeps a waiter (C13), also across close / loss *)
Theorem C20_no_waiter_survives : forall evs, Forall good (reqs (run_events evs)).
Proof. exact finished_requests_have_no_pending_waiter. Qed.
Print Assumptions C20_no_waiter_survives.

(* ---------------------------------------------------------------------------------------------------------------
   TERMINATION.  An event list is well-formed when every issue announces at least one fragment (C09). *)

(* the scheduler never stops for lack of fuel: after every event the system is quiescent (no woken task left unrun);
   LI (uart present -> transport open) holds in every reachable state (C20_link_invariant) *)
Theorem C20_link_invariant : forall evs, LI (run_events evs).
Proof. exact LI_reachable. Qed.
Print Assumptions C20_link_invariant.
Theorem C20_scheduler_always_drains : forall s w, LI s -> snd (run' (S (potential s w)) s w) = [].
Proof. exact settle_drains. Qed.
Print Assumptions C20_scheduler_always_drains.

(* after close() (no reset in progress) every request that was in flight or queued - in whatever phase: waiting for the
   blocking lock, for the transmit slot, for an ACK, for its response - has ended once the acknowledgement wait has
   passed: none waits for its response timeout or forever *)
Theorem C20_close_terminates : forall evs dt, wf_events evs ->
  reset_in_progress (run_events evs) = false -> ack_timeout_ms <= dt ->
  forallb is_done (reqs (step (step (run_events evs) EClose) (ETick dt))) = true.
Proof. exact close_terminates. Qed.
Print Assumptions C20_close_terminates.

(* ... whatever else happens in between (more requests, which are refused; repeated close; loss; resets; stale ACKs
   and responses): closing again is harmless *)
Theorem C20_close_terminates_whatever_follows : forall evs evs' dt, wf_events evs -> wf_events evs' ->
  reset_in_progress (run_events evs) = false -> ack_timeout_ms <= dt ->
  forallb is_done (reqs (run_events (evs ++ [EClose] ++ evs' ++ [ETick dt]))) = true.
Proof. exact close_terminates_general. Qed.
Print Assumptions C20_close_terminates_whatever_follows.

(* "closing again is harmless": a second close() changes nothing at all - not one field of the state, not one observation *)
Theorem C20_close_again_is_harmless : forall evs, wf_events evs -> reset_in_progress (run_events evs) = false ->
  step (step (run_events evs) EClose) EClose = step (run_events evs) EClose.
Proof. exact close_again_is_harmless. Qed.
Print Assumptions C20_close_again_is_harmless.

(* when the connection is lost, requests in flight still terminate by their timeout: all have ended once the
   acknowledgement wait plus the longest response timeout T has passed *)
Theorem C20_loss_terminates_by_timeout : forall evs dt T, wf_events evs ->
  (forall r, In r (reqs (run_events evs)) -> r_timeout r <= T) -> ack_timeout_ms + T <= dt ->
  forallb is_done (reqs (step (step (run_events evs) ELost) (ETick dt))) = true.
Proof. exact lost_terminates. Qed.
Print Assumptions C20_loss_terminates_by_timeout.

(* the hypotheses are met by a history with four requests in four different phases at close time; all four end *)
Example C20_termination_instance :
  wf_events ex_evs /\ reset_in_progress (run_events ex_evs) = false /\
  map (fun r => (r_id r, r_phase r)) (reqs (run_events ex_evs)) =
    [(1%nat, PAwaitRsp 5000); (2%nat, PAwaitAck 0 1000); (3%nat, PQMsg); (4%nat, PQBlock)] /\
  map (fun r => (r_id r, r_phase r)) (reqs (step (step (run_events ex_evs) EClose) (ETick 1000))) =
    [(1%nat, PDone OCancelled); (2%nat, PDone ORuntime); (3%nat, PDone ORuntime); (4%nat, PDone ORuntime)].
Proof. exact close_terminates_nonvacuous. Qed.

(* ---- "during a deliberate reset" as a statement about HISTORIES: the flag the theorems above read in the pre-state
   is raised by the begin of a reset, lowered by its end, and touched by no other event *)
Theorem C20_reset_flag_is_the_history : forall evs,
  reset_in_progress (run_events evs) = fold_left reset_flag_step evs false.
Proof. exact reset_flag_is_history. Qed.
Print Assumptions C20_reset_flag_is_the_history.

(* whatever happened before and whatever happens during the reset, a connection loss between the begin of a
   deliberate reset and its end is NOT reported to the application *)
Theorem C20_loss_during_reset_not_reported : forall before during, no_reset_end during ->
  count_lost (log (run_events (before ++ EResetBegin :: during ++ [ELost]))) =
  count_lost (log (run_events (before ++ EResetBegin :: during))).
Proof. exact loss_during_reset_not_reported. Qed.
Print Assumptions C20_loss_during_reset_not_reported.

(* once the reset has ended, or if none was begun, a loss while the application is attached is reported exactly once *)
Theorem C20_loss_after_reset_reported_once : forall before after, no_reset_begin after ->
  app_attached (run_events (before ++ EResetEnd :: after)) = true ->
  count_lost (log (run_events (before ++ EResetEnd :: after ++ [ELost]))) =
  S (count_lost (log (run_events (before ++ EResetEnd :: after)))).
Proof. exact loss_after_reset_reported_once. Qed.
Print Assumptions C20_loss_after_reset_reported_once.
Theorem C20_loss_without_reset_reported_once : forall evs, no_reset_begin evs -> app_attached (run_events evs) = true ->
  count_lost (log (run_events (evs ++ [ELost]))) = S (count_lost (log (run_events evs))).
Proof. exact loss_without_reset_reported_once. Qed.
Print Assumptions C20_loss_without_reset_reported_once.

(* non-vacuity: a request, a reset, a loss during it (not reported), the end of the reset, a second loss (reported) *)
Example C20_reset_instance :
  let h := [EIssue 1%nat 7 false 1%nat 5000; EResetBegin; EAck 0; ELost; EResetEnd; ELost] in
  count_lost (log (run_events (firstn 4 h))) = 0%nat /\ count_lost (log (run_events h)) = 1%nat /\
  app_attached (run_events (firstn 5 h)) = true.
Proof. vm_compute. repeat split. Qed.
