(* C20 - closing or losing the link never strands a caller and is reported once. *)
From Coq Require Import NArith List Bool.
From ZB Require Import Api.Api Api.ApiProofs.
Import ListNotations.
Open Scope N_scope.

(* after close() (and after a connection loss) the link is absent, and stays absent *)
Theorem C20_close_makes_link_absent : forall s, uart_present (step s EClose) = false.
Proof. exact close_makes_link_absent. Qed.
Print Assumptions C20_close_makes_link_absent.
Theorem C20_link_stays_absent : forall s e, uart_present s = false -> uart_present (step s e) = false.
Proof. exact link_stays_absent. Qed.
Print Assumptions C20_link_stays_absent.

(* new requests are refused immediately: the request ends in the very step it is issued *)
Theorem C20_new_requests_refused_immediately : forall s rid cls b n t, uart_present s = false -> get s rid = None ->
  log (step s (EIssue rid cls b n t)) = OE rid ORuntime :: log s.
Proof. exact issue_refused_when_link_absent. Qed.
Print Assumptions C20_new_requests_refused_immediately.

(* the owning application is told exactly once per loss, only while attached and not during a reset, by no other event *)
Theorem C20_loss_reported_exactly_once : forall s e,
  count_lost (log (step s e)) =
  (count_lost (log s) + match e with ELost => if app_attached s && negb (reset_in_progress s) then 1 else 0 | _ => 0 end)%nat.
Proof. exact loss_reported_exactly. Qed.
Print Assumptions C20_loss_reported_exactly_once.
Theorem C20_close_detaches_app : forall s, reset_in_progress s = false -> app_attached (step s EClose) = false.
Proof. exact close_detaches_app. Qed.
Print Assumptions C20_close_detaches_app.

(* every request still ends with an outcome and never keeps a waiter (C13), also across close / loss *)
Theorem C20_no_waiter_survives : forall evs, Forall good (reqs (run_events evs)).
Proof. exact finished_requests_have_no_pending_waiter. Qed.
Print Assumptions C20_no_waiter_survives.

(* termination within the ACK wait after close: decided on the model for this scenario by computation (the general
   statement "for all histories, all_done after Close; Tick ACK_TIMEOUT" is checked by the correspondence monitor
   at every quiescent point of the scenarios, not yet proved: C20_termination is PARTIAL) *)
Example C20_termination_instance :
  let s := run_events [EIssue 1 10 true 1 5000; EIssue 2 11 true 1 5000; EIssue 3 12 false 2 5000; EAck 0; EClose; ETick 1000] in
  forallb is_done (reqs s) = true /\ now s = 1000.
Proof. vm_compute. split; reflexivity. Qed.
