(* C14 - blocking requests are mutually exclusive and served first-come first-served. *)
From Coq Require Import NArith List Bool.
From ZB Require Import Api.Api Api.ApiProofs Api.ApiLive Api.ApiFifo gen.GenConsts.
Import ListNotations.
Open Scope N_scope.

(* For every event history the trace obeys the lock discipline (same predicate as C11; the clauses used here):
   - a data frame of a request marked blocking is written only while that request holds the blocking lock
     (frag_ok: negb blocking || holds (a_bh a) rid);
   - the blocking lock is acquired directly only when it is free and nobody waits (GBlkAcq), a request waits
     only when it is taken (GBlkWait), and it is handed over to the head of the FIFO queue when - and only
     when - its holder releases it (GBlkRel), i.e. when the holder's request ended: first-come first-served;
   - a cancelled waiter leaves the queue (GBlkDrop). *)
Theorem C14_blocking_lock_discipline : forall evs, discipline (log (run_events evs)) = true.
Proof. exact discipline_always. Qed.
Print Assumptions C14_blocking_lock_discipline.

Theorem C14_blocking_write_needs_the_lock : forall l1 l2 r k q, discipline (l2 ++ OW r k q :: l1) = true ->
  exists a, scan l1 = Some a /\ frag_ok a r k = true.
Proof. exact discipline_at_write. Qed.
Print Assumptions C14_blocking_write_needs_the_lock.

(* the invariant: the trace's abstract lock state IS the state's lock state *)
Theorem C14_invariant : forall evs, scan (log (run_events evs)) = Some (abs_of (run_events evs)).
Proof. exact reachable_inv. Qed.
Print Assumptions C14_invariant.

(* "Requests not marked blocking never wait for a blocking request's response: they are transmitted as soon as the link
   is free": in every reachable state (well-formed history) in which the link is up and no message is being sent, a
   non-blocking request issued now writes its first fragment in that very step - whatever the state of the blocking
   lock (no hypothesis on it) *)
Theorem C14_nonblocking_request_sends_at_once : forall evs rid cls n t, wf_events evs ->
  get (run_events evs) rid = None -> uart_present (run_events evs) = true -> msg_holder (run_events evs) = None -> (1 <= n)%nat ->
  In (OW rid 0 (pack_seq (run_events evs))) (snd (step_obs (run_events evs) (EIssue rid cls false n t))).
Proof. exact nonblocking_request_sends_at_once. Qed.
Print Assumptions C14_nonblocking_request_sends_at_once.

(* the lock state is consistent with the requests' phases in every reachable state: a request waits in a lock's queue
   iff it is in the corresponding phase; the blocking lock is held by exactly the blocking request that is between its
   first frame and its end; at most one request awaits an ACK (the holder of the message lock) *)
Theorem C14_reachable_states_consistent : forall evs, wf_events evs -> Q (run_events evs).
Proof. exact reachable_Q. Qed.
Print Assumptions C14_reachable_states_consistent.
Theorem C14_consistent_means : forall s, Q s ->
  NoDup (ids s) /\ NoDup (msg_q s) /\ NoDup (block_q s) /\
  (msg_holder s = None -> msg_q s = []) /\ (block_holder s = None -> block_q s = []) /\
  (forall r, In r (reqs s) ->
     (is_done r = false -> lookup s (r_id r) = Some (r_blocking r, r_nfrags r) /\ (1 <= r_nfrags r)%nat) /\
     (r_phase r = PQBlock <-> In (r_id r) (block_q s)) /\
     (r_phase r = PQMsg <-> In (r_id r) (msg_q s)) /\
     ((exists k d, r_phase r = PAwaitAck k d) <-> msg_holder s = Some (r_id r)) /\
     (r_blocking r = true /\ (r_phase r = PQMsg \/ is_ack r = true \/ is_rsp r = true) <-> block_holder s = Some (r_id r)) /\
     (r_phase r = PQBlock -> r_blocking r = true) /\
     (forall k d, r_phase r = PAwaitAck k d -> msg_next s = S k /\ (k < r_nfrags r)%nat /\ d <= now s + ack_timeout_ms) /\
     (forall d, r_phase r = PAwaitRsp d -> d <= now s + r_timeout r)).
Proof. exact Q_spelled_out. Qed.
Print Assumptions C14_consistent_means.

(* "queued blocking requests proceed in the order they were issued": in every reachable state the queue of the blocking
   lock is an order-preserving sub-list of the request ids, which are kept in issue order (a request is appended when it
   is issued and never moves); the lock is handed to the HEAD of that queue only when its holder releases it (the
   discipline above) - so blocking requests are served first-come first-served *)
Theorem C14_blocking_queue_in_issue_order : forall evs, Subseq (block_q (run_events evs)) (ids (run_events evs)).
Proof. exact blocking_queue_in_issue_order. Qed.
Print Assumptions C14_blocking_queue_in_issue_order.

(* non-vacuity: two blocking requests and a non-blocking one: the second blocking request's frame appears only after
   the first one ended; the non-blocking one does not wait for the first one's response *)
Example C14_instance :
  filter (fun o => match o with OW _ _ _ | OE _ _ => true | _ => false end)
         (rev (log (run_events [EIssue 1 10 true 1 5000; EIssue 2 11 true 1 5000; EAck 0; EIssue 3 12 false 1 5000; EAck 1; ERsp 10; EAck 2])))
  = [OW 1 0 0; OW 3 0 1; OE 1 ORsp; OW 2 0 2].
Proof. vm_compute. reflexivity. Qed.
