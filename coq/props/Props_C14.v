(* C14 - blocking requests are mutually exclusive and served first-come first-served. *)
From Coq Require Import NArith List Bool.
From ZB Require Import Api.Api Api.ApiProofs.
Import ListNotations.
Open Scope N_scope.

(* For every event history the trace obeys the lock discipline (same predicate as C11; the clauses used here):
   - a data frame of a request marked blocking is written only while that request holds the blocking lock
     (frag_ok: negb blocking || holds (a_bh a) rid);
   - the blocking lock is acquired directly only when it is free and nobody waits (GBlkAcq), a request waits
     only when it is taken (GBlkWait), and it is handed over to the head of the FIFO queue when - and only
     when - its holder releases it (GBlkRel), i.e. when the holder's request ended: first-come first-served;
   - a cancelled waiter leaves the queue (GBlkDrop). *)
Theorem C14_blocking_lock_discipline : forall evs, discipline (log (run_events evs)) = true.
Proof. exact discipline_always. Qed.
Print Assumptions C14_blocking_lock_discipline.

Theorem C14_blocking_write_needs_the_lock : forall l1 l2 r k q, discipline (l2 ++ OW r k q :: l1) = true ->
  exists a, scan l1 = Some a /\ frag_ok a r k = true.
Proof. exact discipline_at_write. Qed.
Print Assumptions C14_blocking_write_needs_the_lock.

(* the invariant: the trace's abstract lock state IS the state's lock state *)
Theorem C14_invariant : forall evs, scan (log (run_events evs)) = Some (abs_of (run_events evs)).
Proof. exact reachable_inv. Qed.
Print Assumptions C14_invariant.

(* non-vacuity: two blocking requests and a non-blocking one: the second blocking request's frame appears only after
   the first one ended; the non-blocking one does not wait for the first one's response *)
Example C14_instance :
  filter (fun o => match o with OW _ _ _ | OE _ _ => true | _ => false end)
         (rev (log (run_events [EIssue 1 10 true 1 5000; EIssue 2 11 true 1 5000; EAck 0; EIssue 3 12 false 1 5000; EAck 1; ERsp 10; EAck 2])))
  = [OW 1 0 0; OW 3 0 1; OE 1 ORsp; OW 2 0 2].
Proof. vm_compute. reflexivity. Qed.
