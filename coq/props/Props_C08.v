(* C08 - packet sequence numbers advance 0,1,2,3,1,2,3.. exactly on matching ACKs. *)
From Coq Require Import NArith List.
From ZB Require Import Base.Bytes Link.LinkSpec Link.LinkSpecProofs Link.Frame Link.Rx Link.TxSeq Link.FrameProofs Link.TxSeqProofs gen.GenConsts.
Import ListNotations.
Open Scope N_scope.

(* for every event history, the sequence state equals seq_of (number of matching ACKs since the last close) *)
Theorem C08_sequence_follows_matching_acks : forall evs m, fst (trun (seq_of m) evs) = seq_of (fold_left cstep evs m).
Proof. exact trun_counts. Qed.
Print Assumptions C08_sequence_follows_matching_acks.

Theorem C08_cycle_is_0_then_123 : forall m, next_seq (seq_of m) = seq_of (m + 1) /\ seq_of m < 4.
Proof. intros m. split; [exact (next_seq_of m)|exact (seq_of_lt4 m)]. Qed.
Print Assumptions C08_cycle_is_0_then_123.

(* ACKs with another number, expiry of the ACK wait, incoming data frames leave it unchanged; close resets *)
Theorem C08_changes_only_on_matching_ack : forall s ev,
  fst (tstep s ev) = match ev with
                     | TAck n => if n =? s then s mod 3 + 1 else s
                     | TClose => 0
                     | _ => s
                     end.
Proof. exact seq_changes_only_on_matching_ack. Qed.
Print Assumptions C08_changes_only_on_matching_ack.

(* the receive path's ACK branch is that step *)
Theorem C08_receiver_ack_branch : forall h st f, w_ack f = true ->
  rx_pack_seq (fst (handle_frame h st f)) =
  fst (tstep (rx_pack_seq st) (TAck (N.shiftr (N.land (w_flags f) llflag_ACKSeq) 4))).
Proof. exact handle_frame_ack. Qed.
Print Assumptions C08_receiver_ack_branch.
Theorem C08_receiver_data_branch : forall h st f, w_ack f = false -> rx_pack_seq (fst (handle_frame h st f)) = rx_pack_seq st.
Proof. exact handle_frame_data. Qed.
Print Assumptions C08_receiver_data_branch.

(* each send writes a well-formed frame (valid header checksum for the stamped flags) carrying the current number *)
Theorem C08_send_stamps_current_number : forall m fl0 hdr data size, data_flags_ok fl0 -> bytes_ok data ->
  (fl_first fl0 = true -> exists h, hdr = Some h /\ h <> 0 /\ h < 2 ^ 32) ->
  (fl_first fl0 = false -> hdr = None) ->
  size = 7 + N.of_nat (length (hl_body {| hl_hdr := hdr; hl_data := data |})) -> size < 65536 ->
  let f := {| fr_ll := ll_build size fl0; fr_hl := Some {| hl_hdr := hdr; hl_data := data |} |} in
  exists w, snd (tstep (seq_of m) (TSend f)) = [spec_encode w] /\ wf w /\ fl_pseq (w_flags w) = seq_of m /\
            w_hdr w = hdr /\ w_data w = data.
Proof. exact send_stamps_current. Qed.
Print Assumptions C08_send_stamps_current_number.
