(* C08 - packet sequence numbers advance 0,1,2,3,1,2,3.. exactly on matching ACKs. *)
From Coq Require Import NArith List.
From ZB Require Import Base.Bytes Link.LinkSpec Link.LinkSpecProofs Link.Frame Link.Rx Link.TxSeq Link.FrameProofs Link.TxSeqProofs gen.GenConsts.
Import ListNotations.
Open Scope N_scope.

(* for every event history, the sequence state equals seq_of (number of matching ACKs since the last close) *)
Theorem C08_sequence_follows_matching_acks : forall evs m, fst (trun (seq_of m) evs) = seq_of (fold_left cstep evs m).
Proof. exact trun_counts. Qed.
Print Assumptions C08_sequence_follows_matching_acks.

Theorem C08_cycle_is_0_then_123 : forall m, next_seq (seq_of m) = seq_of (m + 1) /\ seq_of m < 4.
Proof. intros m. split; [exact (next_seq_of m)|exact (seq_of_lt4 m)]. Qed.
Print Assumptions C08_cycle_is_0_then_123.

(* ACKs with another number, expiry of the ACK wait, incoming data frames leave it unchanged; close resets *)
Theorem C08_changes_only_on_matching_ack : forall s ev,
  fst (tstep s ev) = match ev with
                     | TAck n => if n =? s then s mod 3 + 1 else s
                     | TClose => 0
                     | _ => s
                     end.
Proof. exact seq_changes_only_on_matching_ack. Qed.
Print Assumptions C08_changes_only_on_matching_ack.

(* the receive path's ACK branch is that step *)
Theorem C08_receiver_ack_branch : forall h st f, w_ack f = true ->
  rx_pack_seq (fst (handle_frame h st f)) =
  fst (tstep (rx_pack_seq st) (TAck (N.shiftr (N.land (w_flags f) llflag_ACKSeq) 4))).
Proof. exact handle_frame_ack. Qed.
Print Assumptions C08_receiver_ack_branch.
Theorem C08_receiver_data_branch : forall h st f, w_ack f = false -> rx_pack_seq (fst (handle_frame h st f)) = rx_pack_seq st.
Proof. exact handle_frame_data. Qed.
Print Assumptions C08_receiver_data_branch.

(* each send writes a well-formed frame (valid header checksum for the stamped flags) carrying the current number *)
Theorem C08_send_stamps_current_number : forall m fl0 hdr data size, data_flags_ok fl0 -> bytes_ok data ->
  (fl_first fl0 = true -> exists h, hdr = Some h /\ h <> 0 /\ h < 2 ^ 32) ->
  (fl_first fl0 = false -> hdr = None) ->
  size = 7 + N.of_nat (length (hl_body {| hl_hdr := hdr; hl_data := data |})) -> size < 65536 ->
  let f := {| fr_ll := ll_build size fl0; fr_hl := Some {| hl_hdr := hdr; hl_data := data |} |} in
  exists w, snd (tstep (seq_of m) (TSend f)) = [spec_encode w] /\ wf w /\ fl_pseq (w_flags w) = seq_of m /\
            w_hdr w = hdr /\ w_data w = data.
Proof. exact send_stamps_current. Qed.
Print Assumptions C08_send_stamps_current_number.

(* ---- the send scheduler of C07 (Link/TxSched.v: concurrent callers, the lock, the ACK wait) keeps the SAME numbering:
   its number follows the history by the step function of the numbering model above, and every data frame it writes
   carries the number current at that moment *)
From ZB Require Link.TxSched Link.TxSchedSeq.

Theorem C08_scheduler_step_is_the_numbering_model : forall q n,
  TxSchedSeq.seq_step q (TxSched.TAckE n) = fst (tstep q (TAck n)) /\
  TxSchedSeq.seq_step q TxSched.TCloseE = fst (tstep q TClose) /\
  (forall tag, TxSchedSeq.seq_step q (TxSched.TSendE tag) = q) /\ (forall dt, TxSchedSeq.seq_step q (TxSched.TTickE dt) = q) /\
  (forall tag, TxSchedSeq.seq_step q (TxSched.TCancelE tag) = q) /\ TxSchedSeq.seq_step q TxSched.TDataE = q.
Proof. intros q n. repeat split. Qed.
Print Assumptions C08_scheduler_step_is_the_numbering_model.

Theorem C08_scheduler_numbering_follows_history : forall evs,
  TxSched.t_seq (TxSched.trun_events evs) = fold_left TxSchedSeq.seq_step evs 0.
Proof. exact TxSchedSeq.seq_follows_history. Qed.
Print Assumptions C08_scheduler_numbering_follows_history.

Theorem C08_scheduler_writes_carry_current_number : forall s e,
  exists new, TxSched.t_log (TxSched.tstep s e) = new ++ TxSched.t_log s /\
              Forall (TxSchedSeq.stamped (TxSched.t_seq (TxSched.tstep s e))) new.
Proof. exact TxSchedSeq.writes_carry_current_number. Qed.
Print Assumptions C08_scheduler_writes_carry_current_number.

(* non-vacuity: three senders, the numbers on the wire are 0, 1, 2, then (after ACK 3 is missed and a close) 0 again *)
Example C08_scheduler_instance :
  let evs := [TxSched.TSendE 1; TxSched.TAckE 0; TxSched.TSendE 2; TxSched.TAckE 1; TxSched.TSendE 3; TxSched.TAckE 0;
              TxSched.TAckE 2; TxSched.TCloseE] in
  TxSched.t_seq (TxSched.trun_events (firstn 7 evs)) = 3 /\ TxSched.t_seq (TxSched.trun_events evs) = 0 /\
  filter (fun o => match o with TxSched.TW _ _ => true | _ => false end) (rev (TxSched.t_log (TxSched.trun_events evs))) =
    [TxSched.TW 1 0; TxSched.TW 2 1; TxSched.TW 3 2].
Proof. vm_compute. repeat split. Qed.

(* the bytes written: in event order; an incoming data frame is answered with the ACK for ITS number (C06), whatever the
   host's own numbering state *)
Theorem C08_writes_in_event_order : forall a b s,
  snd (trun s (a ++ b)) = snd (trun s a) ++ snd (trun (fst (trun s a)) b) /\
  fst (trun s (a ++ b)) = fst (trun (fst (trun s a)) b).
Proof.
  induction a as [|e a IH]; intros b s; [split; reflexivity|].
  cbn [app trun]. destruct (tstep s e) as [s1 w1] eqn:E1.
  destruct (IH b s1) as [IHw IHs].
  destruct (trun s1 (a ++ b)) as [s2 w2] eqn:E2. destruct (trun s1 a) as [s3 w3] eqn:E3.
  cbn [fst snd] in *. split; [rewrite IHw, app_assoc; reflexivity|exact IHs].
Qed.
Print Assumptions C08_writes_in_event_order.
Theorem C08_incoming_data_is_acked_with_its_own_number : forall s q, tstep s (TDataIn q) = (s, [ack_bytes q]).
Proof. reflexivity. Qed.
Print Assumptions C08_incoming_data_is_acked_with_its_own_number.
