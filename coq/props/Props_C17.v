(* C17 - pattern matching is field-wise wildcarding; a listener fires once per match. *)
From Coq Require Import NArith List Bool.
From ZB Require Import Api.Match Api.MatchProofs.
Import ListNotations.
Open Scope N_scope.

(* a pattern matches exactly the commands of its type that agree with it on every parameter it specifies
   (instances of one command class share the schema: parameter lists of equal length) *)
Theorem C17_matches_is_fieldwise_wildcarding : forall (p : pat) (c : cmd), length (snd p) = length (snd c) ->
  (matches p c = true <->
   fst p = fst c /\
   forall i, (i < length (snd c))%nat -> nth i (snd p) None = None \/ nth i (snd p) None = Some (nth i (snd c) 0)).
Proof. exact matches_spec. Qed.
Print Assumptions C17_matches_is_fieldwise_wildcarding.

(* the same for two partial commands, as the code compares them (de-duplication; received commands with absent
   optional parameters): every parameter the first specifies is specified equally by the second *)
Theorem C17_partial_matches_is_fieldwise : forall p q : pat, length (snd p) = length (snd q) ->
  (pmatches p q = true <->
   fst p = fst q /\ forall i, nth i (snd p) None = None \/ nth i (snd p) None = nth i (snd q) None).
Proof. exact pmatches_spec. Qed.
Print Assumptions C17_partial_matches_is_fieldwise.

Theorem C17_matches_reflexive : (forall p : pat, pmatches p p = true) /\ (forall c : cmd, matches (pat_of_cmd c) c = true).
Proof. exact (conj pmatches_refl matches_refl). Qed.
Print Assumptions C17_matches_reflexive.

Theorem C17_matches_transitive : forall p q r : pat, length (snd p) = length (snd q) ->
  pmatches p q = true -> pmatches q r = true -> pmatches p r = true.
Proof. exact pmatches_trans. Qed.
Print Assumptions C17_matches_transitive.

(* folding a collection of patterns (duplicates, chains general->specific, any order) never loses or adds a matched
   command; c may be fully bound or partial *)
Theorem C17_dedup_preserves_matching : forall (arity : N -> nat) (ps : list pat) (c : pat), Forall (wf arity) ps ->
  existsb (fun p => pmatches p c) (dedup ps) = existsb (fun p => pmatches p c) ps.
Proof. exact dedup_preserves_matching. Qed.
Print Assumptions C17_dedup_preserves_matching.

Theorem C17_dedup_only_given_patterns : forall ps x, In x (dedup ps) -> In x ps.
Proof. exact dedup_subset. Qed.
Print Assumptions C17_dedup_only_given_patterns.

Theorem C17_dedup_nonempty : forall ps, ps <> [] -> dedup ps <> [].
Proof. exact dedup_nonempty. Qed.
Print Assumptions C17_dedup_nonempty.

(* a listener built from ps hands a command to its reaction once if some given pattern matches it, never otherwise,
   never more than once; and it is registered once per header *)
Theorem C17_listener_reacts_once_iff_some_pattern_matches : forall (arity : N -> nat) ps c, Forall (wf arity) ps ->
  resolve_count (dedup ps) c = (if existsb (fun p => pmatches p c) ps then 1 else 0)%nat.
Proof. exact listener_reacts_once_iff_some_pattern_matches. Qed.
Print Assumptions C17_listener_reacts_once_iff_some_pattern_matches.

Theorem C17_listener_reacts_at_most_once : forall lps c, (resolve_count lps c <= 1)%nat.
Proof. exact resolve_at_most_once. Qed.
Print Assumptions C17_listener_reacts_at_most_once.

Theorem C17_listener_registered_once_per_header : forall lps,
  NoDup (headers lps) /\ forall h, In h (headers lps) <-> exists p, In p lps /\ fst p = h.
Proof. exact (fun lps => conj (headers_nodup lps) (headers_spec lps)). Qed.
Print Assumptions C17_listener_registered_once_per_header.

(* non-vacuity: a schema assignment and a redundant, overlapping, two-type collection satisfying the hypotheses;
   the fold is non-trivial (5 patterns -> 2) and a command outside every pattern stays unmatched *)
Example C17_nonvacuous :
  let arity := fun t : N => if t =? 7 then 3%nat else 2%nat in
  let ps := [(7, [Some 1; Some 2; None]); (7, [Some 1; None; None]); (8, [None; Some 4]); (7, [Some 1; Some 2; Some 3]); (8, [Some 5; Some 4])] in
  Forall (wf arity) ps /\ dedup ps = [(7, [Some 1; None; None]); (8, [None; Some 4])] /\
  matches (7, [Some 1; None; None]) (7, [1; 9; 9]) = true /\
  existsb (fun p => pmatches p (pat_of_cmd (7, [2; 2; 3]))) ps = false /\
  existsb (fun p => pmatches p (pat_of_cmd (7, [2; 2; 3]))) (dedup ps) = false.
Proof. cbv zeta. split; [repeat constructor|repeat split]. Qed.
