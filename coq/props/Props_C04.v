(* C04 - every typed command survives encode -> wire -> decode unchanged. *)
From Coq Require Import NArith List String Bool.
From ZB Require Import Base.Bytes Wire.Wty Wire.WtyProofs Cmd.Schema Cmd.Command Cmd.CommandProofs gen.GenSchemas.
Import ListNotations.
Open Scope list_scope.
Open Scope N_scope.

(* the bytes produced are the parameter encodings in schema order (the 4-byte command header is the
   frame's HL header: C05) *)
Theorem C04_layout : forall ps a, enc_params ps a = List.concat (given_encodings ps a).
Proof. exact enc_params_layout. Qed.
Print Assumptions C04_layout.

(* for every response / indication class of the tree (schemas regenerated on every run) and every
   assignment the constructor accepts: decoding the encoding yields the same assignment, nothing left over *)
Theorem C04_roundtrip_all_commands : forall c a, In c schemas -> decodable c = true -> construct_ok (c_params c) a = true ->
  from_body c (enc_params (c_params c) a) = Accept a.
Proof. exact C04_all_commands. Qed.
Print Assumptions C04_roundtrip_all_commands.

(* for any schema meeting the decidable side condition *)
Theorem C04_roundtrip_generic : forall c a, schema_ok (c_params c) = true -> construct_ok (c_params c) a = true ->
  from_body c (enc_params (c_params c) a) = Accept a.
Proof. exact C04_roundtrip. Qed.
Print Assumptions C04_roundtrip_generic.

(* an accepted assignment has every value in range: no out-of-range encoding is ever emitted *)
Theorem C04_out_of_range_refused : forall ps a, construct_ok ps a = true -> values_ok ps a = true.
Proof. exact construct_checks_values. Qed.
Print Assumptions C04_out_of_range_refused.

Example C04_instance : exists c, In c schemas /\ decodable c = true /\
  construct_ok (c_params c) [Some (VInt 7); Some (VInt 0); Some (VInt 0)] = true.
Proof. exists (nth 1 schemas (nth 0 schemas {| c_name := ""; c_header := 0; c_blocking := false; c_registered := false; c_params := [] |})).
  split; [right; left; reflexivity|]. split; reflexivity. Qed.

(* ---- what "in range" is, spelled out for the leaf types (the theorems above use `valid` as a hypothesis; these pin the
   acceptance set itself, from above AND from below; Tie B compares it with what the constructor accepts) *)
Theorem C04_in_range_means :
  (forall w n, valid (TInt w) (VInt n) = (n <? 256 ^ N.of_nat w)) /\
  (forall k bs, valid (TFixBytes k) (VBytes bs) = (Nat.eqb (List.length bs) k && forallb byte_ok bs)) /\
  (forall h cap bs, valid (TLVBytes h cap) (VBytes bs) =
     ((N.of_nat (List.length bs) <? cap) && (N.of_nat (List.length bs) <? 256 ^ N.of_nat h) && forallb byte_ok bs)) /\
  (forall h t vs, valid (TLVList h t) (VList vs) = ((N.of_nat (List.length vs) <? 256 ^ N.of_nat h) && forallb (valid t) vs)) /\
  (forall k t vs, valid (TFixList k t) (VList vs) = (Nat.eqb (List.length vs) k && forallb (valid t) vs)) /\
  (forall t vs, valid (TGreedy t) (VList vs) = forallb (valid t) vs).
Proof. repeat split. Qed.
Print Assumptions C04_in_range_means.

(* the boundaries, evaluated: zigpy's LVBytes (1-byte prefix) takes 254 bytes and refuses 255; the library's ShortBytes
   takes 255 and refuses 256; a simple descriptor's endpoint may be 255, not 256; a 16-bit list item may be 65535 *)
Example C04_boundaries :
  valid (TLVBytes 1 255) (VBytes (repeat 7 254)) = true /\ valid (TLVBytes 1 255) (VBytes (repeat 7 255)) = false /\
  valid (TLVBytes 1 256) (VBytes (repeat 7 255)) = true /\ valid (TLVBytes 1 256) (VBytes (repeat 7 256)) = false /\
  valid TSimpleDesc (VList [VInt 255; VInt 65535; VInt 65535; VInt 255; VList [VInt 65535]; VList []]) = true /\
  valid TSimpleDesc (VList [VInt 256; VInt 0; VInt 0; VInt 0; VList []; VList []]) = false /\
  valid TSimpleDesc (VList [VInt 0; VInt 0; VInt 0; VInt 0; VList [VInt 65536]; VList []]) = false /\
  valid (TLVList 1 (TInt 2)) (VList (repeat (VInt 65535) 255)) = true /\
  valid (TLVList 1 (TInt 2)) (VList (repeat (VInt 1) 256)) = false /\
  valid (TFixBytes 8) (VBytes (repeat 1 7)) = false.
Proof. vm_compute. repeat split. Qed.
