(* C04 - every typed command survives encode -> wire -> decode unchanged. *)
From Coq Require Import NArith List String Bool.
From ZB Require Import Base.Bytes Wire.Wty Wire.WtyProofs Cmd.Schema Cmd.Command Cmd.CommandProofs gen.GenSchemas.
Import ListNotations.
Open Scope list_scope.
Open Scope N_scope.

(* the bytes produced are the parameter encodings in schema order (the 4-byte command header is the
   frame's HL header: C05) *)
Theorem C04_layout : forall ps a, enc_params ps a = List.concat (given_encodings ps a).
Proof. exact enc_params_layout. Qed.
Print Assumptions C04_layout.

(* for every response / indication class of the tree (schemas regenerated on every run) and every
   assignment the constructor accepts: decoding the encoding yields the same assignment, nothing left over *)
Theorem C04_roundtrip_all_commands : forall c a, In c schemas -> decodable c = true -> construct_ok (c_params c) a = true ->
  from_body c (enc_params (c_params c) a) = Accept a.
Proof. exact C04_all_commands. Qed.
Print Assumptions C04_roundtrip_all_commands.

(* for any schema meeting the decidable side condition *)
Theorem C04_roundtrip_generic : forall c a, schema_ok (c_params c) = true -> construct_ok (c_params c) a = true ->
  from_body c (enc_params (c_params c) a) = Accept a.
Proof. exact C04_roundtrip. Qed.
Print Assumptions C04_roundtrip_generic.

(* an accepted assignment has every value in range: no out-of-range encoding is ever emitted *)
Theorem C04_out_of_range_refused : forall ps a, construct_ok ps a = true -> values_ok ps a = true.
Proof. exact construct_checks_values. Qed.
Print Assumptions C04_out_of_range_refused.

Example C04_instance : exists c, In c schemas /\ decodable c = true /\
  construct_ok (c_params c) [Some (VInt 7); Some (VInt 0); Some (VInt 0)] = true.
Proof. exists (nth 1 schemas (nth 0 schemas {| c_name := ""; c_header := 0; c_blocking := false; c_registered := false; c_params := [] |})).
  split; [right; left; reflexivity|]. split; reflexivity. Qed.
