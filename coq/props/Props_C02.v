(* C02 - the receiver is total: no input or handler failure makes it raise or go deaf. *)
From Coq Require Import NArith List.
From ZB Require Import Base.Bytes Link.LinkSpec Link.LinkSpecProofs Link.Rx Link.RxSpec Link.RxProofs.
Import ListNotations.
Open Scope N_scope.

(* the frame extractor never lets an exception other than InvalidFrame/BufferTooShort escape *)
Theorem C02_extractor_never_raises : forall b, bytes_ok b -> extract_frame_x b <> XRaise.
Proof. exact extract_never_raises. Qed.
Print Assumptions C02_extractor_never_raises.

(* in every protocol state (any buffer, any pack_seq, ACK event absent / clear / set, transport open
   or closed), for every chunk sequence and handler: data_received does not raise *)
Theorem C02_receive_never_raises : forall h st c cs, bytes_ok (rx_buf st) -> Forall bytes_ok (c :: cs) ->
  snd (rx_run h st (c :: cs)) = false.
Proof. exact rx_total. Qed.
Print Assumptions C02_receive_never_raises.

(* a failing handler changes nothing: same writes, same deliveries, same state *)
Theorem C02_handler_failure_isolated : forall h1 h2 chunks st, rx_run h1 st chunks = rx_run h2 st chunks.
Proof. exact rx_handler_irrelevant. Qed.
Print Assumptions C02_handler_failure_isolated.

(* never deaf: from ANY state and after ANY input, a quiet gap (65537 zero bytes: longer than any
   declared extent) followed by a well-formed data frame gets that frame handed up *)
Theorem C02_never_deaf : forall h st c cs w, bytes_ok (rx_buf st) -> Forall bytes_ok (c :: cs) -> wf w -> w_ack w = false ->
  In (ODeliver w) (snd (fst (rx_run h st (c :: cs ++ [repeat 0 GAP ++ spec_encode w])))).
Proof. exact rx_never_deaf. Qed.
Print Assumptions C02_never_deaf.

(* and without a gap, whenever the frame does not start inside an earlier declared extent *)
Theorem C02_delivered_outside_claimed_extents : forall h st c cs i w rest, bytes_ok (rx_buf st) -> Forall bytes_ok (c :: cs) ->
  let s := rx_buf st ++ concat (c :: cs) in
  spec_decode (skipn i s) = Some (w, rest) -> w_ack w = false ->
  (forall p sz fl, (p < i)%nat -> claims (skipn p s) = Some (sz, fl) -> N.of_nat p + 2 + sz <= N.of_nat i) ->
  In (ODeliver w) (snd (fst (rx_run h st (c :: cs)))).
Proof. exact rx_prompt. Qed.
Print Assumptions C02_delivered_outside_claimed_extents.
