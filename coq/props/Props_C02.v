From ZB Require Import Link.Rx Link.RxSpec.
