(* C11 - any request reaches the NCP intact, fragments contiguous, each awaiting its ACK. *)
From Coq Require Import NArith List Bool.
From ZB Require Import Api.Api Api.ApiProofs Base.Bytes Link.LinkSpec Link.LinkSpecProofs Link.Frame Link.Frag Link.FrameProofs
  Link.FragProofs Link.Reasm Link.ReasmProofs Link.RxSpec Link.EndToEnd Api.ApiWire gen.GenConsts.
Import ListNotations.
Open Scope N_scope.

(* For every event history (any number of concurrent blocking / non-blocking requests of 1..n fragments; ACKs
   with any number, responses, silence, cancellations, close, loss, reset) the trace obeys the lock discipline:
   a data frame (OW rid k) is written only by the request that holds the message lock, it is fragment k = the
   next fragment of that request's run (0, 1, 2, ... without gaps), k < its number of fragments, and the lock is
   handed over FIFO only when its holder releases it.  Hence the fragments of one message are never interleaved
   with frames of another. *)
Theorem C11_fragments_contiguous_in_order : forall evs, discipline (log (run_events evs)) = true.
Proof. exact discipline_always. Qed.
Print Assumptions C11_fragments_contiguous_in_order.

(* what this says at each data frame *)
Theorem C11_each_write_is_the_holders_next_fragment : forall l1 l2 r k q, discipline (l2 ++ OW r k q :: l1) = true ->
  exists a, scan l1 = Some a /\ frag_ok a r k = true.
Proof. exact discipline_at_write. Qed.
Print Assumptions C11_each_write_is_the_holders_next_fragment.

(* every byte written belongs to a well-formed frame: each fragment as stamped by send() is the spec encoding
   of a well-formed frame carrying exactly its piece of the message (C09/C05) *)
Theorem C11_every_fragment_wellformed : forall h d seq p, h <> 0 -> h < 2 ^ 32 -> bytes_ok d -> seq < 4 ->
  let ser := le_enc 4 h ++ d in
  (MAXB < length ser)%nat -> In p (spec_fragments ser) ->
  exists w, serialize (stamp seq (frame_of_piece h p)) = spec_encode w /\ wf w /\ w_ack w = false /\
    w_body w = snd p /\ w_size w = N.of_nat (length (snd p)) + 7 /\
    fl_first (w_flags w) = (fst p =? llflag_FirstFrag) /\ fl_last (w_flags w) = (fst p =? llflag_LastFrag) /\
    fl_pseq (w_flags w) = seq.
Proof. exact fragment_frames_wellformed. Qed.
Print Assumptions C11_every_fragment_wellformed.

(* the protocol-following NCP (check every checksum and length = spec parse; concatenate first..last = reassembly)
   gets from a contiguous run of fragment frames exactly the command header and parameter bytes *)
Theorem C11_ncp_reassembles_the_request : forall h d ws pending, h <> 0 -> h < 2 ^ 32 -> frag_seq h d ws ->
  reasm_run pending ws = ([], [RMsg h d]).
Proof. exact reasm_message. Qed.
Print Assumptions C11_ncp_reassembles_the_request.
Theorem C11_ncp_parses_clean_wire : forall ws, Forall wf ws -> spec_parse (concat (map spec_encode ws)) = ws.
Proof. exact spec_parse_clean_stream. Qed.
Print Assumptions C11_ncp_parses_clean_wire.

(* ---------------------------------------------------------------------------------------------------------------
   END TO END.  (1) Link level: for ANY table of valid messages and ANY schedule of writes in which acknowledgement
   frames are interspersed freely and data frames form contiguous fragment runs (fragment 0 may start a run at any
   time, fragment k>0 only continues the run in progress), with ANY sequence numbers below 4, the NCP that parses the
   byte stream by the format (all checksums and lengths), drops ACK frames and concatenates first..last fragments
   receives exactly the (command header, parameter bytes) of the requests whose last fragment was written, in order. *)
Theorem C11_ncp_receives_exactly_the_completed_messages : forall (msg : nat -> N * list N) its cur',
  (forall r k q, In (IFrag r k q) its -> valid msg r) -> sched_run msg None its = Some cur' ->
  snd (ncp (wire msg its)) = map (msg_of msg) (completed msg its) /\ P msg cur' (fst (ncp (wire msg its))).
Proof. exact ncp_receives_exactly_the_completed_messages. Qed.
Print Assumptions C11_ncp_receives_exactly_the_completed_messages.

(* (2) From the request state machine: for EVERY event history (concurrent blocking / non-blocking requests, ACKs with
   any number, responses, silence, cancellations, resets) during which the transport stays open, with every issue event
   announcing the number of fragments the transmitter makes of that request's message, the bytes the machine writes
   (data frames OW rid k seq = fragment k stamped seq; acknowledgement frames OK seq) are such a schedule - by the lock
   discipline - and so the NCP receives every fully written request intact, in order, and nothing else. *)
Theorem C11_requests_reach_the_ncp_intact : forall (msg : nat -> N * list N) evs,
  (forall rid cls b n t, In (EIssue rid cls b n t) evs -> valid msg rid /\ n = nfr msg rid) ->
  transport_open (run_events evs) = true ->
  let its := items_of (log (run_events evs)) in
  snd (ncp (wire msg its)) = map (msg_of msg) (completed msg its).
Proof. exact requests_reach_the_ncp_intact. Qed.
Print Assumptions C11_requests_reach_the_ncp_intact.

(* the hypotheses are satisfiable by a non-trivial history: a 2-fragment and a 1-fragment request, concurrently *)
Definition ex_msg (r : nat) : N * list N := if Nat.eqb r 1 then (0x00030100, repeat 7 300%nat) else (0x00010200, [1; 2; 3]).
Definition ex_evs : list event := [EIssue 1 10 false 2 5000; EIssue 2 11 false 1 5000; EAck 0; EAck 1; EAck 2].
Example C11_end_to_end_instance :
  nfr ex_msg 1 = 2%nat /\ nfr ex_msg 2 = 1%nat /\ transport_open (run_events ex_evs) = true /\
  completed ex_msg (items_of (log (run_events ex_evs))) = [1%nat; 2%nat] /\
  snd (ncp (wire ex_msg (items_of (log (run_events ex_evs))))) = [RMsg 0x00030100 (repeat 7 300%nat); RMsg 0x00010200 [1; 2; 3]].
Proof. vm_compute. repeat split; reflexivity. Qed.

Example C11_instance :
  discipline (log (run_events [EIssue 1 10 false 2 5000; EIssue 2 11 false 1 5000; EAck 0; EAck 1; EAck 2])) = true /\
  filter (fun o => match o with OW _ _ _ => true | _ => false end)
         (rev (log (run_events [EIssue 1 10 false 2 5000; EIssue 2 11 false 1 5000; EAck 0; EAck 1; EAck 2])))
  = [OW 1 0 0; OW 1 1 1; OW 2 0 2].
Proof. vm_compute. split; reflexivity. Qed.
