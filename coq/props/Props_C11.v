From ZB Require Import Api.Api.
