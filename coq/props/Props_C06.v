(* C06 - each accepted data frame is acknowledged once, with its own sequence number. *)
From Coq Require Import NArith List.
From ZB Require Import Base.Bytes Link.LinkSpec Link.LinkSpecProofs Link.Frame Link.Rx Link.RxSpec Link.RxProofs Link.FrameProofs.
Import ListNotations.
Open Scope N_scope.

(* the transport writes and upper-layer deliveries produced for a list of accepted frames are, per
   data frame, exactly one ACK (spec encoding, carrying that frame's packet sequence number) followed
   by the delivery; ACK frames produce neither; nothing else is written *)
Theorem C06_ack_then_deliver : forall fs ps ev opn, filter is_wd (snd (outs_of ps ev opn fs)) = expected_wd opn fs.
Proof. exact outs_of_wd. Qed.
Print Assumptions C06_ack_then_deliver.

(* ... and the accepted frames are exactly the well-formed frames of the stream (C01), for every state,
   handler and chunking; rejected input is by definition not in spec_parse *)
Theorem C06_accepted_are_wellformed : forall h st c cs,
  bytes_ok (rx_buf st) -> Forall bytes_ok (c :: cs) ->
  let '(p, e, o) := outs_of (rx_pack_seq st) (rx_ack_event st) (rx_open st)
                            (spec_parse (rx_buf st ++ concat (c :: cs))) in
  exists buf, rx_run h st (c :: cs) = ({| rx_buf := buf; rx_pack_seq := p; rx_ack_event := e; rx_open := rx_open st |}, o, false).
Proof. exact rx_chunk_independent_exact. Qed.
Print Assumptions C06_accepted_are_wellformed.

(* the bytes written are the well-formed ACK frame for that sequence number *)
Theorem C06_ack_bytes_wellformed : forall q, q < 4 ->
  ack_bytes q = spec_ack_bytes q /\ spec_decode (ack_bytes q) = Some (ack_w q false, []) /\ fl_aseq (w_flags (ack_w q false)) = q.
Proof.
  intros q H. split; [exact (ack_bytes_spec q H)|].
  destruct (ack_frame_wellformed q false [] H) as (_ & _ & _ & D & _ & A).
  split; [|exact A]. unfold ack_bytes. rewrite <- (app_nil_r (serialize (ack_frame q false))). exact D.
Qed.
Print Assumptions C06_ack_bytes_wellformed.

(* independent of the handler *)
Theorem C06_regardless_of_handler : forall h1 h2 chunks st, rx_run h1 st chunks = rx_run h2 st chunks.
Proof. exact rx_handler_irrelevant. Qed.
Print Assumptions C06_regardless_of_handler.

Example C06_instance :
  let f := {| w_size := 14; w_flags := 0xC8; w_crc8 := 0; w_ack := false; w_hdr := Some 65536; w_data := [1; 2; 3] |} in
  filter is_wd (snd (outs_of 0 None true [f; f])) =
  [OWrite (spec_ack_bytes 2); ODeliver f; OWrite (spec_ack_bytes 2); ODeliver f].
Proof. vm_compute. reflexivity. Qed.
