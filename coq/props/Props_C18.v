(* C18 - packets and bind requests cross the radio boundary faithfully, both ways. *)
From Coq Require Import NArith ZArith List Bool.
From ZB Require Import Base.Bytes Radio.Radio Radio.RadioProofs.
Import ListNotations.
Open Scope N_scope.

(* every packet that is turned into a data request: payload unchanged, DataLength = |payload|, ParamLength = 21,
   same TSN / profile / cluster / endpoints (an endpoint that is given is non-zero and forwarded as it is) / radius, no alias *)
Theorem C18_send_fields_preserved : forall p r, send_packet_req true p = SReq r ->
  dr_payload r = p_data p /\
  dr_data_length r = N.of_nat (length (p_data p)) /\
  dr_param_length r = 21 /\
  dr_tsn r = p_tsn p /\ dr_profile r = p_profile p /\ dr_cluster r = p_cluster p /\
  dr_src_ep r = or0 (p_src_ep p) /\ dr_dst_ep r = or0 (p_dst_ep p) /\
  (forall e, p_src_ep p = Some e -> dr_src_ep r = e /\ e <> 0) /\
  (forall e, p_dst_ep p = Some e -> dr_dst_ep r = e /\ e <> 0) /\
  dr_radius r = or0 (p_radius p) /\
  dr_use_alias r = 0 /\ dr_alias_src r = 0 /\ dr_alias_seq r = 0.
Proof. exact send_packet_fields. Qed.
Print Assumptions C18_send_fields_preserved.

(* destination per addressing mode: 16-bit addresses little-endian in the first two of the eight bytes and the rest zero
   (mode Broadcast is sent with mode Group, as the code does), 64-bit addresses unchanged *)
Theorem C18_send_destination_per_mode : forall p r, send_packet_req true p = SReq r ->
  match p_dst p with
  | ZNwk a => dr_dst_mode r = mode_nwk /\ a < 65536 /\ dr_dst_addr r = le_enc 2 a ++ [0; 0; 0; 0; 0; 0]
  | ZGroup a => dr_dst_mode r = mode_group /\ a < 65536 /\ dr_dst_addr r = le_enc 2 a ++ [0; 0; 0; 0; 0; 0]
  | ZBroadcast a => dr_dst_mode r = mode_group /\ a < 65536 /\ dr_dst_addr r = le_enc 2 a ++ [0; 0; 0; 0; 0; 0]
  | ZIeee bs => dr_dst_mode r = mode_ieee /\ dr_dst_addr r = bs
  end /\ length (dr_dst_addr r) = 8%nat /\ bytes_ok (dr_dst_addr r).
Proof. exact send_packet_destination. Qed.
Print Assumptions C18_send_destination_per_mode.

(* ACK -> ACK_ENABLED (bit 2), APS_Encryption -> SECURITY_ENABLED (bit 0), and no other option bit is ever set *)
Theorem C18_send_options_preserved_none_invented : forall p r, send_packet_req true p = SReq r ->
  N.testbit (dr_tx_options r) 2 = N.testbit (p_tx_options p) 0 /\
  N.testbit (dr_tx_options r) 0 = N.testbit (p_tx_options p) 1 /\
  (forall i, i <> 0 -> i <> 2 -> N.testbit (dr_tx_options r) i = false) /\
  N.land (dr_tx_options r) (N.lnot (N.lor txo_ACK_ENABLED txo_SECURITY_ENABLED) 8) = 0.
Proof. exact send_packet_options. Qed.
Print Assumptions C18_send_options_preserved_none_invented.

(* the encoded request body: TSN, 21, DataLength (LE16), a parameter section of exactly 21 bytes, then the payload bytes *)
Theorem C18_send_encoded_body : forall p r, send_packet_req true p = SReq r ->
  encode_data_req r = [p_tsn p; 21] ++ le_enc 2 (N.of_nat (length (p_data p))) ++ data_req_params r ++ p_data p /\
  N.of_nat (length (data_req_params r)) = dr_param_length r /\
  length (data_req_params r) = 21%nat /\
  skipn 25 (encode_data_req r) = p_data p /\
  N.of_nat (length (skipn 25 (encode_data_req r))) = dr_data_length r /\
  N.of_nat (length (p_data p)) < 65536.
Proof. exact send_packet_encoding. Qed.
Print Assumptions C18_send_encoded_body.

(* every well-typed packet not involving endpoint 0 IS turned into one data request (no size bound on the payload
   other than the 16-bit DataLength field) *)
Theorem C18_send_every_packet_one_request : forall p, packet_ok p -> p_src_ep p <> Some 0 -> p_dst_ep p <> Some 0 ->
  send_packet_req true p = SReq (the_request p).
Proof. exact send_packet_total. Qed.
Print Assumptions C18_send_every_packet_one_request.

(* every indication with at least two payload bytes is delivered with the same source, endpoints, cluster, profile, LQI
   (and RSSI), data = the first PayloadLength payload bytes, TSN = second payload byte, destination kind by the
   frame-control bits: Broadcast bit before Group bit before unicast *)
Theorem C18_indication_delivered_faithfully : forall own m, (2 <= length (di_payload m))%nat ->
  exists p, apsde_to_packet own m = IPacket p /\
    p_src p = Some (ZNwk (di_src_addr m)) /\
    p_src_ep p = Some (di_src_ep m) /\ p_dst_ep p = Some (di_dst_ep m) /\
    p_cluster p = di_cluster m /\ p_profile p = di_profile m /\
    p_lqi p = Some (di_lqi m) /\ p_rssi p = Some (di_rssi m) /\
    p_data p = firstn (N.to_nat (di_payload_length m)) (di_payload m) /\
    nth_error (di_payload m) 1 = Some (p_tsn p) /\
    p_dst p = (if N.testbit (di_frame_fc m) 2 then ZBroadcast bcast_ALL_ROUTERS_AND_COORDINATOR
               else if N.testbit (di_frame_fc m) 3 then ZGroup (di_grp_addr m)
               else ZNwk own) /\
    p_tx_options p = (if N.testbit (di_frame_fc m) 5 then zopt_APS_Encryption else 0).
Proof. exact indication_faithful. Qed.
Print Assumptions C18_indication_delivered_faithfully.

Theorem C18_indication_data_is_payload_prefix : forall own m p, apsde_to_packet own m = IPacket p ->
  exists rest, di_payload m = p_data p ++ rest /\
    length (p_data p) = Nat.min (N.to_nat (di_payload_length m)) (length (di_payload m)).
Proof. exact indication_data_prefix. Qed.
Print Assumptions C18_indication_data_is_payload_prefix.

(* sequence numbers issued for requests are never 255, whatever the stored counter *)
Theorem C18_sequence_never_255 : forall n, next_sequence n < 255.
Proof. exact next_sequence_lt_255. Qed.
Print Assumptions C18_sequence_never_255.

Theorem C18_sequence_cycle : forall n, n < 255 ->
  next_sequence n = (if n =? 254 then 0 else n + 1) /\ next_sequence n <> 255.
Proof. exact next_sequence_cycle. Qed.
Print Assumptions C18_sequence_cycle.

(* bind and unbind: equal parameter assignments and equal returned status for EVERY input; only the command differs *)
Theorem C18_bind_unbind_encoded_alike : forall tsn nwk eui ep cl dst st,
  bind_out (bind_req tsn nwk eui ep cl dst st) = bind_out (unbind_req tsn nwk eui ep cl dst st) /\
  (forall c, bind_cmd_of (bind_req tsn nwk eui ep cl dst st) = Some c -> c = CmdBind) /\
  (forall c, bind_cmd_of (unbind_req tsn nwk eui ep cl dst st) = Some c -> c = CmdUnbind).
Proof. exact bind_unbind_equal. Qed.
Print Assumptions C18_bind_unbind_encoded_alike.

(* a 64-bit destination is forwarded: source address, endpoint, cluster, destination address and endpoint *)
Theorem C18_bind_ieee_destination_forwarded : forall tsn nwk eui ep cl bs g dep st,
  bind_args_ok tsn nwk eui ep cl dep -> length bs = 8%nat -> bytes_ok bs ->
  let dst := {| ma_mode := mode_ieee; ma_nwk := g; ma_ieee := Some bs; ma_endpoint := dep |} in
  let r := {| b_tsn := tsn; b_target_nwk := nwk; b_src_ieee := eui; b_src_ep := ep; b_cluster := cl;
              b_dst_mode := bindmode_IEEE; b_dst_addr := bs; b_dst_ep := or0 dep |} in
  bind_req tsn nwk eui ep cl dst st = BReq CmdBind r (bind_status st) /\
  unbind_req tsn nwk eui ep cl dst st = BReq CmdUnbind r (bind_status st).
Proof. exact bind_ieee_forwarded. Qed.
Print Assumptions C18_bind_ieee_destination_forwarded.

(* a group destination is forwarded (with or without an endpoint attribute): group address LE16 + six zero bytes *)
Theorem C18_bind_group_destination_forwarded : forall tsn nwk eui ep cl g ie dep st,
  bind_args_ok tsn nwk eui ep cl dep -> g < 65536 ->
  let dst := {| ma_mode := mode_group; ma_nwk := Some g; ma_ieee := ie; ma_endpoint := dep |} in
  let r := {| b_tsn := tsn; b_target_nwk := nwk; b_src_ieee := eui; b_src_ep := ep; b_cluster := cl;
              b_dst_mode := bindmode_Group; b_dst_addr := le_enc 2 g ++ [0; 0; 0; 0; 0; 0]; b_dst_ep := or0 dep |} in
  bind_req tsn nwk eui ep cl dst st = BReq CmdBind r (bind_status st) /\
  unbind_req tsn nwk eui ep cl dst st = BReq CmdUnbind r (bind_status st).
Proof. exact bind_group_forwarded. Qed.
Print Assumptions C18_bind_group_destination_forwarded.

(* where the forwarded fields sit in the encoded body of either request *)
Theorem C18_bind_encoded_layout : forall r, length (b_src_ieee r) = 8%nat -> length (b_dst_addr r) = 8%nat ->
  length (encode_bind r) = 24%nat /\
  firstn 8 (skipn 3 (encode_bind r)) = b_src_ieee r /\
  nth_error (encode_bind r) 11 = Some (b_src_ep r) /\
  firstn 2 (skipn 12 (encode_bind r)) = le_enc 2 (b_cluster r) /\
  nth_error (encode_bind r) 14 = Some (b_dst_mode r) /\
  firstn 8 (skipn 15 (encode_bind r)) = b_dst_addr r /\
  nth_error (encode_bind r) 23 = Some (b_dst_ep r).
Proof. exact encode_bind_layout. Qed.
Print Assumptions C18_bind_encoded_layout.

(* non-vacuity: the hypotheses are satisfiable by concrete, non-trivial instances *)
Definition ex_packet : packet :=
  {| p_src := None; p_src_ep := Some 1; p_dst := ZNwk 4660; p_dst_ep := Some 2; p_tsn := 7; p_profile := 260; p_cluster := 6;
     p_data := [1; 2; 3]; p_tx_options := 5; p_radius := Some 30; p_lqi := None; p_rssi := None |}.
Example C18_nonvacuous :
  packet_ok ex_packet /\
  (exists r, send_packet_req true ex_packet = SReq r /\
     encode_data_req r = [7; 21; 3; 0; 52; 18; 0; 0; 0; 0; 0; 0; 4; 1; 6; 0; 2; 1; 30; 2; 4; 0; 0; 0; 0; 1; 2; 3]) /\
  (exists p, apsde_to_packet 0
     {| di_param_length := 21; di_payload_length := 3; di_frame_fc := 12; di_src_addr := 4660; di_dst_addr := 0;
        di_grp_addr := 21862; di_dst_ep := 1; di_src_ep := 2; di_cluster := 6; di_profile := 260; di_packet_counter := 1;
        di_src_mac := 1; di_dst_mac := 2; di_lqi := 200; di_rssi := (-50)%Z; di_key_attr := 0;
        di_payload := [1; 2; 3; 4; 5] |} = IPacket p /\ p_data p = [1; 2; 3] /\ p_dst p = ZBroadcast 65532) /\
  bind_args_ok 42 39321 [17; 0; 255; 238; 221; 204; 187; 170] 3 6 None /\
  (exists r s, unbind_req 42 39321 [17; 0; 255; 238; 221; 204; 187; 170] 3 6
     {| ma_mode := 1; ma_nwk := Some 4660; ma_ieee := None; ma_endpoint := None |} 132 = BReq CmdUnbind r s /\
     s = 132 /\ encode_bind r = [42; 153; 153; 17; 0; 255; 238; 221; 204; 187; 170; 3; 6; 0; 1; 52; 18; 0; 0; 0; 0; 0; 0; 0]) /\
  next_sequence 254 = 0.
Proof.
  split.
  { unfold packet_ok, ex_packet; cbn. repeat split; try reflexivity. repeat constructor. }
  split; [eexists; split; reflexivity|].
  split; [eexists; repeat split; reflexivity|].
  split.
  { unfold bind_args_ok; cbn. repeat split; try reflexivity. repeat constructor. }
  split; [do 2 eexists; repeat split; reflexivity|reflexivity].
Qed.
