(* C05 - every frame the host builds is well-formed and decodes back to itself.
   Only statements, closed by `exact`, with Print Assumptions beneath. *)
From Coq Require Import NArith List.
From ZB Require Import Base.Bytes Base.Bits Link.LLHeader Link.LLHeaderGen Link.LinkSpec Link.LinkSpecProofs Link.Frame Link.Rx
  Link.FrameProofs gen.GenBitfields gen.GenConsts.
Import ListNotations.
Open Scope N_scope.

(* header bit-fields: changing one never alters another; reading back gives the written value *)
Theorem C05_ll_field_readback : forall f h v, ll_get f (ll_with f h v) = v mod 2 ^ ll_w f.
Proof. exact ll_get_with_same. Qed.
Print Assumptions C05_ll_field_readback.
Theorem C05_ll_fields_independent : forall f g h v, f <> g -> h < 2 ^ 56 -> ll_get f (ll_with g h v) = ll_get f h.
Proof. exact ll_get_with_other. Qed.
Print Assumptions C05_ll_fields_independent.
Theorem C05_hl_field_readback : forall f h v, hl_get f (hl_with f h v) = v mod 2 ^ hl_w f.
Proof. exact hl_get_with_same. Qed.
Print Assumptions C05_hl_field_readback.
Theorem C05_hl_fields_independent : forall f g h v, f <> g -> h < 2 ^ 32 -> hl_get f (hl_with g h v) = hl_get f h.
Proof. exact hl_get_with_other. Qed.
Print Assumptions C05_hl_fields_independent.

(* Tie A(ii): the accessors as translated from the source text are these canonical accessors *)
Theorem C05_source_accessors_are_canonical :
  agrees1 ll_get_signature (ll_get LSig) /\ agrees1 ll_get_size (ll_get LSize) /\ agrees1 ll_get_frame_type (ll_get LType) /\
  agrees1 ll_get_flags (ll_get LFlags) /\
  agrees2 ll_with_signature (ll_with LSig) /\ agrees2 ll_with_size (ll_with LSize) /\ agrees2 ll_with_type (ll_with LType) /\
  agrees2 ll_with_flags (ll_with LFlags) /\ agrees2 ll_with_crc8 (ll_with LCrc8) /\
  agrees1 hl_get_version (hl_get HVersion) /\ agrees1 hl_get_control_type (hl_get HType) /\ agrees1 hl_get_id (hl_get HId) /\
  agrees2 hl_with_version (hl_with HVersion) /\ agrees2 hl_with_type (hl_with HType) /\ agrees2 hl_with_id (hl_with HId).
Proof.
  exact (conj gen_ll_get_signature (conj gen_ll_get_size (conj gen_ll_get_type (conj gen_ll_get_flags
        (conj gen_ll_with_signature (conj gen_ll_with_size (conj gen_ll_with_type (conj gen_ll_with_flags
        (conj gen_ll_with_crc8 (conj gen_hl_get_version (conj gen_hl_get_type (conj gen_hl_get_id
        (conj gen_hl_with_version (conj gen_hl_with_type gen_hl_with_id)))))))))))))).
Qed.
Print Assumptions C05_source_accessors_are_canonical.

(* the independent decoder inverts the format on every well-formed frame value *)
Theorem C05_spec_codec_inverse : forall w r, wf w -> spec_decode (spec_encode w ++ r) = Some (w, r).
Proof. exact spec_decode_encode. Qed.
Print Assumptions C05_spec_codec_inverse.

(* every command frame (any command header, any payload that fits the 16-bit length, any packet
   sequence number): length field = bytes after the marker, well-formed, the independent decoder and
   the library's decoder recover header fields, command header and payload, consuming exactly the frame *)
Theorem C05_command_frames : forall h d seq F r, to_frame h d = Some F ->
  h <> 0 -> h < 2 ^ 32 -> bytes_ok d -> seq < 4 -> N.of_nat (length d) + 11 < 65536 ->
  let b := serialize (stamp seq F) in
  let w := mk_w (N.of_nat (length d) + 11) (N.lor (N.shiftl seq 2) 192) (Some h) d in
  wf w /\ b = spec_encode w /\ N.of_nat (length b) = 2 + w_size w /\
  spec_decode (b ++ r) = Some (w, r) /\ extract_frame_x (b ++ r) = XF w (length b).
Proof. exact command_frame_wellformed. Qed.
Print Assumptions C05_command_frames.

(* every stamped data frame or fragment with the flags the code uses (none / first / last / both) *)
Theorem C05_data_frames_and_fragments : forall seq fl0 hdr data size, seq < 4 -> data_flags_ok fl0 -> bytes_ok data ->
  (fl_first fl0 = true -> exists h, hdr = Some h /\ h <> 0 /\ h < 2 ^ 32) ->
  (fl_first fl0 = false -> hdr = None) ->
  size = 7 + N.of_nat (length (hl_body {| hl_hdr := hdr; hl_data := data |})) -> size < 65536 ->
  let w := mk_w size (N.lor (N.shiftl seq 2) fl0) hdr data in
  serialize (stamp seq {| fr_ll := ll_build size fl0; fr_hl := Some {| hl_hdr := hdr; hl_data := data |} |})
    = spec_encode w /\ wf w.
Proof. exact stamped_data_frame. Qed.
Print Assumptions C05_data_frames_and_fragments.

(* every acknowledgement (sequence 0..3, with and without the retransmit flag) *)
Theorem C05_ack_frames : forall seq rt r, seq < 4 ->
  let b := serialize (ack_frame seq rt) in
  wf (ack_w seq rt) /\ b = spec_encode (ack_w seq rt) /\ length b = 7%nat /\
  spec_decode (b ++ r) = Some (ack_w seq rt, r) /\ extract_frame_x (b ++ r) = XF (ack_w seq rt) 7 /\
  fl_aseq (w_flags (ack_w seq rt)) = seq.
Proof. exact ack_frame_wellformed. Qed.
Print Assumptions C05_ack_frames.

(* non-vacuity: a concrete command frame meets the hypotheses *)
Example C05_instance : exists F, to_frame 65536 [1; 2; 3] = Some F /\ (65536 <> 0) /\ 65536 < 2 ^ 32.
Proof. eexists. split; [reflexivity|]. split; [discriminate|reflexivity]. Qed.

(* the constants of the link format the code is written with are the format's (LinkSpec.v states the format with literal
   numbers; this pins the names the model takes from the source text) *)
Theorem C05_format_constants :
  (frame_signature, sig0, sig1, type_ncp_api_hl, llflag_isACK, llflag_Retransmit, llflag_PacketSeq, llflag_ACKSeq,
   llflag_FirstFrag, llflag_LastFrag, ll_body_size_max) = (44510, 222, 173, 6, 1, 2, 12, 48, 64, 128, 247).
Proof. reflexivity. Qed.
Print Assumptions C05_format_constants.
