(* C05 - placeholder until FrameProofs.v lands: the accessor theorems are already proved. *)
From Coq Require Import NArith List.
From ZB Require Import Base.Bytes Base.Bits Link.LLHeader Link.LLHeaderGen.
Open Scope N_scope.

Theorem C05_ll_field_readback : forall f h v, ll_get f (ll_with f h v) = v mod 2 ^ ll_w f.
Proof. exact ll_get_with_same. Qed.
Print Assumptions C05_ll_field_readback.
Theorem C05_ll_fields_independent : forall f g h v, f <> g -> h < 2 ^ 56 -> ll_get f (ll_with g h v) = ll_get f h.
Proof. exact ll_get_with_other. Qed.
Print Assumptions C05_ll_fields_independent.
Theorem C05_hl_field_readback : forall f h v, hl_get f (hl_with f h v) = v mod 2 ^ hl_w f.
Proof. exact hl_get_with_same. Qed.
Print Assumptions C05_hl_field_readback.
Theorem C05_hl_fields_independent : forall f g h v, f <> g -> h < 2 ^ 32 -> hl_get f (hl_with g h v) = hl_get f h.
Proof. exact hl_get_with_other. Qed.
Print Assumptions C05_hl_fields_independent.
