(* C13 - a finished request leaves nothing behind, however it finished. *)
From Coq Require Import NArith List Bool.
From ZB Require Import Api.Api Api.ApiProofs Api.ApiCancel.
Import ListNotations.
Open Scope N_scope.

(* for every event history: a request that is over (response, timeout, cancellation at any point, disconnection,
   refusal) never has a pending future, i.e. no one-shot waiter of it is registered *)
Theorem C13_no_waiter_left_behind : forall evs, Forall good (reqs (run_events evs)).
Proof. exact finished_requests_have_no_pending_waiter. Qed.
Print Assumptions C13_no_waiter_left_behind.

(* a response arriving when no live waiter of its command exists (it comes late) changes no request *)
Theorem C13_late_response_discarded : forall s cls,
  (forall r, In r (waiters s) -> r_cls r <> cls) -> reqs (step s (ERsp cls)) = reqs s.
Proof. exact late_response_discarded. Qed.
Print Assumptions C13_late_response_discarded.

(* a response resolves the oldest LIVE waiter of its command: finished requests are skipped, so the next request
   for the same command receives its own response *)
Theorem C13_response_goes_to_a_live_waiter : forall s cls r, oldest_waiter s cls = Some r -> In r (waiters s) /\ r_cls r = cls.
Proof. exact response_goes_to_oldest_live_waiter. Qed.
Print Assumptions C13_response_goes_to_a_live_waiter.

(* a request either returns a response or raises: the outcome type has no "returned nothing" (ORsp | OTimeout |
   OCancelled | ORuntime); the correspondence check maps an implementation `None` return to a disagreement *)
Theorem C13_outcomes : forall o : outcome, o = ORsp \/ o = OTimeout \/ o = OCancelled \/ o = ORuntime.
Proof. intros []; auto. Qed.
Print Assumptions C13_outcomes.

Example C13_instance :
  let s := run_events [EIssue 1 10 true 1 5000; EIssue 2 10 true 1 5000; ECancel 2; EAck 0; ECancel 1; ERsp 10;
                       EIssue 3 10 true 1 5000; EAck 1; ERsp 10] in
  map (fun r => (r_id r, r_phase r)) (reqs s) = [(1%nat, PDone OCancelled); (2%nat, PDone OCancelled); (3%nat, PDone ORsp)]
  /\ waiters s = [].
Proof. vm_compute. split; reflexivity. Qed.

(* a request cancelled by its caller - wherever it is: queued for the blocking lock, queued for the message lock, waiting
   for an acknowledgement, waiting for its response - ends with CancelledError; cancelling an ended request is void *)
Theorem C13_cancelled_request_ends_cancelled : forall s rid r,
  get s rid = Some r -> is_done r = false -> In (OE rid OCancelled) (log (step s (ECancel rid))).
Proof. exact cancelled_request_ends_cancelled. Qed.
Print Assumptions C13_cancelled_request_ends_cancelled.
Theorem C13_cancel_after_the_end_is_void : forall s rid r, get s rid = Some r -> is_done r = true -> step s (ECancel rid) = s.
Proof. exact cancel_after_the_end_is_void. Qed.
Print Assumptions C13_cancel_after_the_end_is_void.
