(* C15 - failure responses cut short after the status are returned, never mis-parsed. *)
From Coq Require Import NArith List String Bool.
From ZB Require Import Base.Bytes Wire.Wty Wire.WtyProofs Cmd.Schema Cmd.Command Cmd.CommandProofs Cmd.FromBody gen.GenSchemas.
Import ListNotations.
Open Scope list_scope.
Open Scope N_scope.

(* whatever is returned (complete or partial) re-encodes to a prefix of the received bytes:
   no shifted or invented field values; a complete command consumed everything *)
Theorem C15_nothing_shifted_or_invented : forall ps rsp st data, bytes_ok data ->
  (forall a, dec_params rsp ps st data = Accept a -> data = enc_params ps a) /\
  (forall a, dec_params rsp ps st data = Partial a -> exists rest, data = enc_params ps a ++ rest).
Proof. exact decoded_is_prefix. Qed.
Print Assumptions C15_nothing_shifted_or_invented.

(* a response whose status code (already parsed) is non-zero, cut short at ANY point of the remaining
   fields, is returned (complete up to the cut), never rejected *)
Theorem C15_failure_status_returned : forall ps a so om c n,
  no_status ps = true -> schema_ok_from ps so = true -> opt_prefix_ok ps a om = true -> values_ok ps a = true ->
  (om = true -> so = true) -> n <> 0 ->
  dec_params true ps (Some n) (firstn c (enc_params ps a)) <> Reject.
Proof. exact failure_status_never_rejected. Qed.
Print Assumptions C15_failure_status_returned.

(* with status zero (or no status parsed yet, or not a response): a cut inside or right before a
   required field is rejected *)
Theorem C15_status_zero_truncation_rejected : forall ps1 a1 p ps2 v q s rsp st,
  all_given_required ps1 a1 = true ->
  p_opt p = false -> selfdelim (p_ty p) = true -> valid (p_ty p) v = true -> enc (p_ty p) v = q ++ s -> s <> [] ->
  (rsp = false \/ status_after ps1 a1 st = None \/ status_after ps1 a1 st = Some 0) ->
  dec_params rsp (ps1 ++ p :: ps2) st (enc_params ps1 a1 ++ q) = Reject.
Proof. exact truncated_is_rejected. Qed.
Print Assumptions C15_status_zero_truncation_rejected.

(* a complete command followed by surplus bytes is rejected *)
Theorem C15_surplus_rejected : forall ps a s rsp st, all_given_selfdelim ps a = true -> s <> [] ->
  dec_params rsp ps st (enc_params ps a ++ s) = Reject.
Proof. exact surplus_is_rejected. Qed.
Print Assumptions C15_surplus_rejected.

(* every response schema of the tree starts with TSN, StatusCat, StatusCode (one byte each) and has no other StatusCode *)
(* (rsp_prefix_ok: Cmd/FromBody.v) *)
Theorem C15_all_responses_have_status_prefix :
  forallb (fun c => implb (c_ctl c =? 1) (rsp_prefix_ok c)) schemas = true.
Proof. vm_compute. reflexivity. Qed.
Print Assumptions C15_all_responses_have_status_prefix.

(* ---- the same, about from_frame as a whole (`from_body`: the loop entered the way the code enters it - "is a
   response" = the control type of the class, no status parsed yet) and for EVERY response class of the tree *)

(* a response of the tree with a non-zero status code, cut at ANY point after the three status bytes: returned *)
Theorem C15_failure_response_of_the_tree_returned : forall c rest_a t cat n k,
  In c schemas -> c_ctl c = 1 -> n <> 0 ->
  opt_prefix_ok (skipn 3 (c_params c)) rest_a false = true -> values_ok (skipn 3 (c_params c)) rest_a = true ->
  from_body c (t :: cat :: n :: firstn k (enc_params (skipn 3 (c_params c)) rest_a)) <> Reject.
Proof.
  intros c a t cat n k Hin Hctl Hn Ho Hv.
  apply from_body_failure_response_returned; try assumption.
  - pose proof (proj1 (forallb_forall _ _) C15_all_responses_have_status_prefix c Hin) as H.
    cbv beta in H. rewrite Hctl in H. exact H.
  - pose proof (proj1 (forallb_forall _ _) all_decoded_schemas_ok c Hin) as H.
    cbv beta in H. unfold decodable in H. rewrite Hctl in H. exact H.
Qed.
Print Assumptions C15_failure_response_of_the_tree_returned.

(* ... with status code zero, cut inside or right before a required parameter: rejected *)
Theorem C15_success_response_truncated_rejected : forall c ps1 a1 p ps2 v q s t cat,
  c_ctl c = 1 -> rsp_prefix_ok c = true ->
  skipn 3 (c_params c) = ps1 ++ p :: ps2 -> no_status ps1 = true ->
  all_given_required ps1 a1 = true ->
  p_opt p = false -> selfdelim (p_ty p) = true -> valid (p_ty p) v = true -> enc (p_ty p) v = q ++ s -> s <> [] ->
  from_body c (t :: cat :: 0 :: enc_params ps1 a1 ++ q) = Reject.
Proof. exact from_body_success_response_truncated_rejected. Qed.
Print Assumptions C15_success_response_truncated_rejected.

(* an indication (anything that is not a response) never gets the benefit of a failure status *)
Theorem C15_indication_truncated_rejected : forall c ps1 a1 p ps2 v q s,
  c_ctl c <> 1 -> c_params c = ps1 ++ p :: ps2 -> all_given_required ps1 a1 = true ->
  p_opt p = false -> selfdelim (p_ty p) = true -> valid (p_ty p) v = true -> enc (p_ty p) v = q ++ s -> s <> [] ->
  from_body c (enc_params ps1 a1 ++ q) = Reject.
Proof. exact from_body_indication_truncated_rejected. Qed.
Print Assumptions C15_indication_truncated_rejected.

(* a response cut inside its three status bytes: rejected *)
Theorem C15_cut_inside_status_rejected : forall c d,
  c_ctl c = 1 -> rsp_prefix_ok c = true -> (List.length d < 3)%nat -> from_body c d = Reject.
Proof. exact from_body_cut_inside_status_rejected. Qed.
Print Assumptions C15_cut_inside_status_rejected.

(* non-vacuity: a response class of the tree with a required parameter behind the status; failure status and nothing
   else -> partial command with exactly the three status fields; status zero -> rejected; cut inside the status -> rejected *)
Definition has_tail (c : cmd) : bool :=
  (c_ctl c =? 1) && match skipn 3 (c_params c) with p :: _ => negb (p_opt p) && selfdelim (p_ty p) | [] => false end.
Example C15_from_body_instance : exists c, In c schemas /\ has_tail c = true /\
  from_body c [7; 1; 5] = Partial (Some (VInt 7) :: Some (VInt 1) :: Some (VInt 5) :: nones (skipn 3 (c_params c))) /\
  from_body c [7; 1; 0] = Reject /\ from_body c [7; 1] = Reject.
Proof.
  destruct (find has_tail schemas) as [c|] eqn:E; [|vm_compute in E; discriminate].
  exists c. destruct (find_some _ _ E) as [Hin Ht]. split; [exact Hin|]. split; [exact Ht|].
  clear Hin Ht. vm_compute in E. inversion E. vm_compute. auto.
Qed.
