(* C15 - failure responses cut short after the status are returned, never mis-parsed. *)
From Coq Require Import NArith List String Bool.
From ZB Require Import Base.Bytes Wire.Wty Wire.WtyProofs Cmd.Schema Cmd.Command Cmd.CommandProofs gen.GenSchemas.
Import ListNotations.
Open Scope list_scope.
Open Scope N_scope.

(* whatever is returned (complete or partial) re-encodes to a prefix of the received bytes:
   no shifted or invented field values; a complete command consumed everything *)
Theorem C15_nothing_shifted_or_invented : forall ps rsp st data, bytes_ok data ->
  (forall a, dec_params rsp ps st data = Accept a -> data = enc_params ps a) /\
  (forall a, dec_params rsp ps st data = Partial a -> exists rest, data = enc_params ps a ++ rest).
Proof. exact decoded_is_prefix. Qed.
Print Assumptions C15_nothing_shifted_or_invented.

(* a response whose status code (already parsed) is non-zero, cut short at ANY point of the remaining
   fields, is returned (complete up to the cut), never rejected *)
Theorem C15_failure_status_returned : forall ps a so om c n,
  no_status ps = true -> schema_ok_from ps so = true -> opt_prefix_ok ps a om = true -> values_ok ps a = true ->
  (om = true -> so = true) -> n <> 0 ->
  dec_params true ps (Some n) (firstn c (enc_params ps a)) <> Reject.
Proof. exact failure_status_never_rejected. Qed.
Print Assumptions C15_failure_status_returned.

(* with status zero (or no status parsed yet, or not a response): a cut inside or right before a
   required field is rejected *)
Theorem C15_status_zero_truncation_rejected : forall ps1 a1 p ps2 v q s rsp st,
  all_given_required ps1 a1 = true ->
  p_opt p = false -> selfdelim (p_ty p) = true -> valid (p_ty p) v = true -> enc (p_ty p) v = q ++ s -> s <> [] ->
  (rsp = false \/ status_after ps1 a1 st = None \/ status_after ps1 a1 st = Some 0) ->
  dec_params rsp (ps1 ++ p :: ps2) st (enc_params ps1 a1 ++ q) = Reject.
Proof. exact truncated_is_rejected. Qed.
Print Assumptions C15_status_zero_truncation_rejected.

(* a complete command followed by surplus bytes is rejected *)
Theorem C15_surplus_rejected : forall ps a s rsp st, all_given_selfdelim ps a = true -> s <> [] ->
  dec_params rsp ps st (enc_params ps a ++ s) = Reject.
Proof. exact surplus_is_rejected. Qed.
Print Assumptions C15_surplus_rejected.

(* every response schema of the tree starts with TSN, StatusCat, StatusCode (one byte each) and has no other StatusCode *)
Definition rsp_prefix_ok (c : cmd) : bool :=
  match c_params c with
  | p1 :: p2 :: p3 :: rest =>
      (match p_ty p1, p_ty p2, p_ty p3 with TInt 1, TInt 1, TInt 1 => true | _, _, _ => false end) &&
      negb (is_status_code p1) && negb (is_status_code p2) && is_status_code p3 && no_status rest &&
      negb (p_opt p1) && negb (p_opt p2) && negb (p_opt p3)
  | _ => false
  end.
Theorem C15_all_responses_have_status_prefix :
  forallb (fun c => implb (c_ctl c =? 1) (rsp_prefix_ok c)) schemas = true.
Proof. vm_compute. reflexivity. Qed.
Print Assumptions C15_all_responses_have_status_prefix.
