(* C19 - command identifiers, field layouts and enum values stay the NCP protocol's. *)
From Coq Require Import NArith List String Bool.
From ZB Require Import Wire.Wty Cmd.Schema Cmd.Command Cmd.Pinned gen.GenSchemas gen.GenEnums pinned.PinnedSchemas pinned.PinnedEnums Cmd.Command Cmd.FromBody.
Import ListNotations.
Open Scope N_scope.

Theorem C19_schemas_unchanged : schemas = pinned_schemas.
Proof. exact schemas_are_pinned. Qed.
Print Assumptions C19_schemas_unchanged.

Theorem C19_enum_values_unchanged : enums = pinned_enums.
Proof. exact enums_are_pinned. Qed.
Print Assumptions C19_enum_values_unchanged.

Theorem C19_headers_one_to_one : NoDup (map c_header schemas).
Proof. exact headers_unique. Qed.
Print Assumptions C19_headers_one_to_one.

Theorem C19_every_class_registered_by_header : forallb c_registered schemas = true.
Proof. exact all_registered. Qed.
Print Assumptions C19_every_class_registered_by_header.

Theorem C19_requests_paired_with_responses :
  forallb (fun c => implb (c_ctl c =? 0) (has 1 (c_id c)) && implb (c_ctl c =? 1) (has 0 (c_id c))) schemas = true.
Proof. exact req_rsp_paired. Qed.
Print Assumptions C19_requests_paired_with_responses.

Theorem C19_header_shape : forallb (fun c => (N.land (c_header c) 255 =? 0) && (c_ctl c <? 3) && negb (c_header c =? 0)) schemas = true.
Proof. exact header_shape. Qed.
Print Assumptions C19_header_shape.

Theorem C19_encoding_is_pinned_for_all_assignments : forall i a,
  enc_params (c_params (nth i schemas (nth 0 schemas (nth 0 pinned_schemas {| c_name := ""; c_header := 0; c_blocking := false; c_registered := false; c_params := [] |})))) a =
  enc_params (c_params (nth i pinned_schemas (nth 0 pinned_schemas (nth 0 pinned_schemas {| c_name := ""; c_header := 0; c_blocking := false; c_registered := false; c_params := [] |})))) a.
Proof. exact encoding_is_pinned. Qed.
Print Assumptions C19_encoding_is_pinned_for_all_assignments.

(* "command headers identify command types one-to-one", on the decoding side: a frame is accepted only by the class
   whose header it carries (the request class never accepts the response of the same id, nor the other way round),
   and among the classes of the tree at most one accepts any given frame *)
Theorem C19_frame_accepted_only_by_its_own_class : forall c hdr data,
  from_frame c hdr data <> Reject -> hdr = c_header c.
Proof. exact from_frame_only_for_own_header. Qed.
Print Assumptions C19_frame_accepted_only_by_its_own_class.

Theorem C19_at_most_one_class_of_the_tree_accepts_a_frame : forall c1 c2 hdr d1 d2,
  In c1 schemas -> In c2 schemas ->
  from_frame c1 hdr d1 <> Reject -> from_frame c2 hdr d2 <> Reject -> c1 = c2.
Proof. intros c1 c2 hdr d1 d2. apply at_most_one_class_accepts. exact headers_unique. Qed.
Print Assumptions C19_at_most_one_class_of_the_tree_accepts_a_frame.
