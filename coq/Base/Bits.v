(* Generic bit-field lemmas over N: a field is (shift, width); the setter clears the field with a
   mask confined to [total] bits and ors the new value in. *)
From Coq Require Import NArith Bool Lia.
Open Scope N_scope.

Definition getf (sh w x : N) : N := N.land (N.shiftr x sh) (N.ones w).
Definition fmask (total sh w : N) : N := N.ldiff (N.ones total) (N.shiftl (N.ones w) sh).
Definition setf (total sh w x v : N) : N :=
  N.lor (N.land x (fmask total sh w)) (N.shiftl (N.land v (N.ones w)) sh).

Lemma ones_testbit : forall w n, N.testbit (N.ones w) n = (n <? w).
Proof.
  intros w n. destruct (N.ltb_spec n w) as [H|H].
  - apply N.ones_spec_low. exact H.
  - apply N.ones_spec_high. exact H.
Qed.

Lemma getf_testbit : forall sh w x n, N.testbit (getf sh w x) n = N.testbit x (n + sh) && (n <? w).
Proof. intros. unfold getf. rewrite N.land_spec, N.shiftr_spec', ones_testbit. reflexivity. Qed.

Lemma shiftl_testbit : forall a sh n, N.testbit (N.shiftl a sh) n = (sh <=? n) && N.testbit a (n - sh).
Proof.
  intros a sh n. destruct (N.leb_spec sh n) as [H|H].
  - rewrite N.shiftl_spec_high' by exact H. reflexivity.
  - rewrite N.shiftl_spec_low by exact H. reflexivity.
Qed.

Lemma fmask_testbit : forall total sh w n,
  N.testbit (fmask total sh w) n = (n <? total) && negb ((sh <=? n) && (n - sh <? w)).
Proof. intros. unfold fmask. rewrite N.ldiff_spec, ones_testbit, shiftl_testbit, ones_testbit. reflexivity. Qed.

Lemma setf_testbit : forall total sh w x v n,
  N.testbit (setf total sh w x v) n =
  (N.testbit x n && ((n <? total) && negb ((sh <=? n) && (n - sh <? w))))
  || ((sh <=? n) && (N.testbit v (n - sh) && (n - sh <? w))).
Proof.
  intros. unfold setf. rewrite N.lor_spec, N.land_spec, fmask_testbit, shiftl_testbit, N.land_spec, ones_testbit.
  reflexivity.
Qed.

(* reading back the field just written gives the written value (truncated to the width) *)
Lemma getf_setf_same : forall total sh w x v, getf sh w (setf total sh w x v) = N.land v (N.ones w).
Proof.
  intros. apply N.bits_inj. intros n. rewrite getf_testbit, setf_testbit, N.land_spec, ones_testbit.
  replace (n + sh - sh) with n by lia.
  destruct (N.ltb_spec n w) as [Hw|Hw].
  - replace (sh <=? n + sh) with true by (symmetry; apply N.leb_le; lia).
    cbn [andb negb]. rewrite !andb_false_r, !andb_true_r. reflexivity.
  - rewrite !andb_false_r. reflexivity.
Qed.

(* writing one field leaves a disjoint field unchanged, for words that fit in [total] bits *)
Lemma getf_setf_other : forall total sh1 w1 sh2 w2 x v,
  x < 2 ^ total -> (sh1 + w1 <= sh2 \/ sh2 + w2 <= sh1) ->
  getf sh1 w1 (setf total sh2 w2 x v) = getf sh1 w1 x.
Proof.
  intros total sh1 w1 sh2 w2 x v Hx Hd. apply N.bits_inj. intros n.
  rewrite !getf_testbit, setf_testbit.
  destruct (N.ltb_spec n w1) as [Hw|Hw]; [|rewrite !andb_false_r; reflexivity]. rewrite !andb_true_r.
  destruct (N.ltb_spec (n + sh1) total) as [Ht|Ht].
  - cbn [andb].
    assert (E : (sh2 <=? n + sh1) && (n + sh1 - sh2 <? w2) = false).
    { destruct (N.leb_spec sh2 (n + sh1)) as [A|A]; [|reflexivity]. cbn [andb]. apply N.ltb_ge. lia. }
    rewrite E. cbn [negb]. rewrite andb_true_r.
    destruct (N.leb_spec sh2 (n + sh1)) as [A|A]; cbn [andb]; [|rewrite orb_false_r; reflexivity].
    replace (n + sh1 - sh2 <? w2) with false by (symmetry; apply N.ltb_ge; lia).
    rewrite andb_false_r, orb_false_r. reflexivity.
  - (* bit above total: x has no such bit, and the field written lies below total? not needed: *)
    assert (Hb : N.testbit x (n + sh1) = false).
    { rewrite <- (N.mod_small x (2 ^ total)) by exact Hx. apply N.mod_pow2_bits_high. exact Ht. }
    rewrite Hb. cbn [andb orb].
    destruct (N.leb_spec sh2 (n + sh1)) as [A|A]; cbn [andb]; [|reflexivity].
    replace (n + sh1 - sh2 <? w2) with false by (symmetry; apply N.ltb_ge; lia).
    rewrite andb_false_r. reflexivity.
Qed.

Lemma setf_lt : forall total sh w x v, sh + w <= total -> setf total sh w x v < 2 ^ total.
Proof.
  intros total sh w x v H.
  assert (E : setf total sh w x v = (setf total sh w x v) mod 2 ^ total).
  { apply N.bits_inj. intros n. destruct (N.lt_ge_cases n total) as [Hlt|Hge].
    - rewrite N.mod_pow2_bits_low by exact Hlt. reflexivity.
    - rewrite N.mod_pow2_bits_high by exact Hge. rewrite setf_testbit.
      replace (n <? total) with false by (symmetry; apply N.ltb_ge; exact Hge).
      cbn [andb]. rewrite andb_false_r. cbn [orb].
      destruct (N.leb_spec sh n) as [A|A]; cbn [andb]; [|reflexivity].
      replace (n - sh <? w) with false by (symmetry; apply N.ltb_ge; lia). apply andb_false_r. }
  rewrite E. apply N.mod_lt. apply N.pow_nonzero. lia.
Qed.

Lemma land_ones_mod : forall v w, N.land v (N.ones w) = v mod 2 ^ w.
Proof. intros. apply N.land_ones. Qed.
