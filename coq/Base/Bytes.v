(* Byte lists, finite enumerations over N built by doubling, little-endian codecs. *)
From Coq Require Import NArith List Bool Lia Arith.
Import ListNotations.
Open Scope N_scope.

Definition byte_ok (b : N) : bool := b <? 256.
Definition bytes_ok (l : list N) : Prop := Forall (fun b => b < 256) l.

(* all N below 2^k, built by doubling: no unary numbers *)
Fixpoint below (k : nat) : list N :=
  match k with
  | O => [0]
  | S k => let l := below k in l ++ map (fun x => x + N.shiftl 1 (N.of_nat k)) l
  end.

Lemma below_In : forall k i, i < 2 ^ N.of_nat k -> In i (below k).
Proof.
  induction k as [|k IH]; intros i Hi.
  - simpl in Hi. assert (i = 0) by lia. subst. left. reflexivity.
  - rewrite Nat2N.inj_succ, N.pow_succ_r' in Hi. cbn [below]. apply in_or_app.
    destruct (N.lt_ge_cases i (2 ^ N.of_nat k)) as [Hlt|Hge].
    + left. apply IH. exact Hlt.
    + right. apply in_map_iff. exists (i - 2 ^ N.of_nat k). split.
      * rewrite N.shiftl_1_l. lia.
      * apply IH. lia.
Qed.

Lemma forallb_below : forall k (P : N -> bool), forallb P (below k) = true ->
  forall i, i < 2 ^ N.of_nat k -> P i = true.
Proof. intros k P H i Hi. rewrite forallb_forall in H. apply H. apply below_In. exact Hi. Qed.

Fixpoint iter {A} (n : nat) (f : A -> A) (x : A) : A :=
  match n with O => x | S n => iter n f (f x) end.

Lemma iter_S_r : forall A n (f : A -> A) x, iter (S n) f x = f (iter n f x).
Proof. intros A n f. induction n as [|n IH]; intros x; [reflexivity|]. cbn [iter] in *. rewrite <- IH. reflexivity. Qed.

Lemma iter_add : forall A n m (f : A -> A) x, iter (n + m) f x = iter m f (iter n f x).
Proof. intros A n m f. induction n as [|n IH]; intros x; [reflexivity|]. cbn [iter Nat.add]. apply IH. Qed.

(* pointwise xor of byte lists, truncated to the shorter *)
Fixpoint xorl (a b : list N) : list N :=
  match a, b with
  | x :: a', y :: b' => N.lxor x y :: xorl a' b'
  | _, _ => []
  end.

Lemma xorl_length : forall a b, length a = length b -> length (xorl a b) = length a.
Proof. induction a as [|x a IH]; intros [|y b] H; simpl in *; try discriminate; [reflexivity|]. rewrite IH by lia. reflexivity. Qed.

Lemma xorl_app : forall a1 b1 a2 b2, length a1 = length b1 ->
  xorl (a1 ++ a2) (b1 ++ b2) = xorl a1 b1 ++ xorl a2 b2.
Proof. induction a1 as [|x a1 IH]; intros [|y b1] a2 b2 H; simpl in *; try discriminate; [reflexivity|]. rewrite IH by lia. reflexivity. Qed.

(* little-endian fixed width *)
Fixpoint le_enc (w : nat) (n : N) : list N :=
  match w with O => [] | S w => (n mod 256) :: le_enc w (n / 256) end.
Fixpoint le_dec (w : nat) (d : list N) : option (N * list N) :=
  match w with
  | O => Some (0, d)
  | S w => match d with
           | [] => None
           | b :: d' => match le_dec w d' with Some (n, r) => Some (b + 256 * n, r) | None => None end
           end
  end.
(* value of a complete little-endian byte list *)
Fixpoint le_val (d : list N) : N :=
  match d with [] => 0 | b :: d' => b + 256 * le_val d' end.

Lemma le_enc_length : forall w n, length (le_enc w n) = w.
Proof. induction w; intros; simpl; [reflexivity| rewrite IHw; reflexivity]. Qed.

Lemma le_enc_bytes_ok : forall w n, bytes_ok (le_enc w n).
Proof. induction w as [|w IH]; intros n; simpl; constructor; [apply N.mod_lt; lia | apply IH]. Qed.

Lemma le_roundtrip : forall w n r, n < 256 ^ N.of_nat w -> le_dec w (le_enc w n ++ r) = Some (n, r).
Proof.
  induction w as [|w IH]; intros n r Hn.
  - simpl in *. assert (n = 0) by lia. subst. reflexivity.
  - rewrite Nat2N.inj_succ, N.pow_succ_r' in Hn. cbn [le_enc le_dec app].
    rewrite IH.
    + pose proof (N.div_mod n 256 ltac:(lia)) as E. rewrite N.add_comm, <- E. reflexivity.
    + apply N.div_lt_upper_bound; lia.
Qed.

Lemma le_dec_short : forall w d, (length d < w)%nat -> le_dec w d = None.
Proof.
  induction w as [|w IH]; intros d H; [lia|]. simpl. destruct d as [|b d']; [reflexivity|].
  simpl in H. rewrite IH by lia. reflexivity.
Qed.

Lemma le_dec_some : forall w d n r, le_dec w d = Some (n, r) ->
  d = firstn w d ++ r /\ length (firstn w d) = w /\ n = le_val (firstn w d).
Proof.
  induction w as [|w IH]; intros d n r H.
  - simpl in H. inversion H; subst. repeat split.
  - simpl in H. destruct d as [|b d']; [discriminate|].
    destruct (le_dec w d') as [[n' r']|] eqn:E; [|discriminate]. inversion H; subst.
    destruct (IH _ _ _ E) as (H1 & H2 & H3). cbn [firstn app length le_val].
    repeat split; [f_equal; exact H1 | f_equal; exact H2 | rewrite <- H3; reflexivity].
Qed.

Lemma le_val_bound : forall d, bytes_ok d -> le_val d < 256 ^ N.of_nat (length d).
Proof.
  induction d as [|b d IH]; intros H.
  - simpl. lia.
  - inversion H; subst. cbn [length le_val]. rewrite Nat2N.inj_succ, N.pow_succ_r'. specialize (IH H3). lia.
Qed.

Lemma le_enc_val : forall d, bytes_ok d -> le_enc (length d) (le_val d) = d.
Proof.
  induction d as [|b d IH]; intros H; [reflexivity|]. inversion H; subst. cbn [length le_enc le_val].
  replace ((b + 256 * le_val d) mod 256) with b.
  - replace ((b + 256 * le_val d) / 256) with (le_val d); [rewrite IH by assumption; reflexivity|].
    symmetry. rewrite N.mul_comm. rewrite N.div_add by lia. rewrite N.div_small by lia. reflexivity.
  - symmetry. rewrite N.mul_comm. rewrite N.mod_add by lia. apply N.mod_small. lia.
Qed.

Lemma skipn_app_le : forall (A : Type) n (b c : list A), (n <= length b)%nat -> skipn n (b ++ c) = skipn n b ++ c.
Proof. intros A n b c H. rewrite skipn_app. replace (n - length b)%nat with O by lia. reflexivity. Qed.

Lemma firstn_app_le : forall (A : Type) n (b c : list A), (n <= length b)%nat -> firstn n (b ++ c) = firstn n b.
Proof. intros A n b c H. rewrite firstn_app. replace (n - length b)%nat with O by lia. simpl. apply app_nil_r. Qed.

Lemma bytes_ok_firstn : forall n l, bytes_ok l -> bytes_ok (firstn n l).
Proof.
  induction n as [|n IH]; intros l H; [constructor|]. destruct l as [|x l]; [constructor|].
  inversion H; subst. cbn [firstn]. constructor; [assumption | apply IH; assumption].
Qed.
Lemma bytes_ok_skipn : forall n l, bytes_ok l -> bytes_ok (skipn n l).
Proof.
  induction n as [|n IH]; intros l H; [exact H|]. destruct l as [|x l]; [constructor|].
  inversion H; subst. cbn [skipn]. apply IH; assumption.
Qed.
Lemma bytes_ok_app_iff : forall a b, bytes_ok (a ++ b) <-> bytes_ok a /\ bytes_ok b.
Proof. intros. unfold bytes_ok. apply Forall_app. Qed.
