Api/Dispatch.vo Api/Dispatch.glob Api/Dispatch.v.beautified Api/Dispatch.required_vo: Api/Dispatch.v Api/Match.vo
Api/Dispatch.vio: Api/Dispatch.v Api/Match.vio
Api/Dispatch.vos Api/Dispatch.vok Api/Dispatch.required_vos: Api/Dispatch.v Api/Match.vos
Api/DispatchProofs.vo Api/DispatchProofs.glob Api/DispatchProofs.v.beautified Api/DispatchProofs.required_vo: Api/DispatchProofs.v Api/Match.vo Api/MatchProofs.vo Api/Dispatch.vo
Api/DispatchProofs.vio: Api/DispatchProofs.v Api/Match.vio Api/MatchProofs.vio Api/Dispatch.vio
Api/DispatchProofs.vos Api/DispatchProofs.vok Api/DispatchProofs.required_vos: Api/DispatchProofs.v Api/Match.vos Api/MatchProofs.vos Api/Dispatch.vos
Api/Match.vo Api/Match.glob Api/Match.v.beautified Api/Match.required_vo: Api/Match.v 
Api/Match.vio: Api/Match.v 
Api/Match.vos Api/Match.vok Api/Match.required_vos: Api/Match.v 
Api/MatchProofs.vo Api/MatchProofs.glob Api/MatchProofs.v.beautified Api/MatchProofs.required_vo: Api/MatchProofs.v Api/Match.vo
Api/MatchProofs.vio: Api/MatchProofs.v Api/Match.vio
Api/MatchProofs.vos Api/MatchProofs.vok Api/MatchProofs.required_vos: Api/MatchProofs.v Api/Match.vos
Base/Bits.vo Base/Bits.glob Base/Bits.v.beautified Base/Bits.required_vo: Base/Bits.v 
Base/Bits.vio: Base/Bits.v 
Base/Bits.vos Base/Bits.vok Base/Bits.required_vos: Base/Bits.v 
Base/Bytes.vo Base/Bytes.glob Base/Bytes.v.beautified Base/Bytes.required_vo: Base/Bytes.v 
Base/Bytes.vio: Base/Bytes.v 
Base/Bytes.vos Base/Bytes.vok Base/Bytes.required_vos: Base/Bytes.v 
Cmd/Command.vo Cmd/Command.glob Cmd/Command.v.beautified Cmd/Command.required_vo: Cmd/Command.v Base/Bytes.vo Wire/Wty.vo Cmd/Schema.vo
Cmd/Command.vio: Cmd/Command.v Base/Bytes.vio Wire/Wty.vio Cmd/Schema.vio
Cmd/Command.vos Cmd/Command.vok Cmd/Command.required_vos: Cmd/Command.v Base/Bytes.vos Wire/Wty.vos Cmd/Schema.vos
Cmd/CommandProofs.vo Cmd/CommandProofs.glob Cmd/CommandProofs.v.beautified Cmd/CommandProofs.required_vo: Cmd/CommandProofs.v Base/Bytes.vo Wire/Wty.vo Wire/WtyProofs.vo Cmd/Schema.vo Cmd/Command.vo gen/GenSchemas.vo
Cmd/CommandProofs.vio: Cmd/CommandProofs.v Base/Bytes.vio Wire/Wty.vio Wire/WtyProofs.vio Cmd/Schema.vio Cmd/Command.vio gen/GenSchemas.vio
Cmd/CommandProofs.vos Cmd/CommandProofs.vok Cmd/CommandProofs.required_vos: Cmd/CommandProofs.v Base/Bytes.vos Wire/Wty.vos Wire/WtyProofs.vos Cmd/Schema.vos Cmd/Command.vos gen/GenSchemas.vos
Cmd/Pinned.vo Cmd/Pinned.glob Cmd/Pinned.v.beautified Cmd/Pinned.required_vo: Cmd/Pinned.v Wire/Wty.vo Cmd/Schema.vo Cmd/Command.vo gen/GenSchemas.vo gen/GenEnums.vo pinned/PinnedSchemas.vo pinned/PinnedEnums.vo
Cmd/Pinned.vio: Cmd/Pinned.v Wire/Wty.vio Cmd/Schema.vio Cmd/Command.vio gen/GenSchemas.vio gen/GenEnums.vio pinned/PinnedSchemas.vio pinned/PinnedEnums.vio
Cmd/Pinned.vos Cmd/Pinned.vok Cmd/Pinned.required_vos: Cmd/Pinned.v Wire/Wty.vos Cmd/Schema.vos Cmd/Command.vos gen/GenSchemas.vos gen/GenEnums.vos pinned/PinnedSchemas.vos pinned/PinnedEnums.vos
Cmd/Schema.vo Cmd/Schema.glob Cmd/Schema.v.beautified Cmd/Schema.required_vo: Cmd/Schema.v Wire/Wty.vo
Cmd/Schema.vio: Cmd/Schema.v Wire/Wty.vio
Cmd/Schema.vos Cmd/Schema.vok Cmd/Schema.required_vos: Cmd/Schema.v Wire/Wty.vos
Crc/CrcModel.vo Crc/CrcModel.glob Crc/CrcModel.v.beautified Crc/CrcModel.required_vo: Crc/CrcModel.v Base/Bytes.vo gen/GenCrcTables.vo
Crc/CrcModel.vio: Crc/CrcModel.v Base/Bytes.vio gen/GenCrcTables.vio
Crc/CrcModel.vos Crc/CrcModel.vok Crc/CrcModel.required_vos: Crc/CrcModel.v Base/Bytes.vos gen/GenCrcTables.vos
Crc/CrcProofs.vo Crc/CrcProofs.glob Crc/CrcProofs.v.beautified Crc/CrcProofs.required_vo: Crc/CrcProofs.v Base/Bytes.vo gen/GenCrcTables.vo Crc/CrcSpec.vo Crc/CrcModel.vo
Crc/CrcProofs.vio: Crc/CrcProofs.v Base/Bytes.vio gen/GenCrcTables.vio Crc/CrcSpec.vio Crc/CrcModel.vio
Crc/CrcProofs.vos Crc/CrcProofs.vok Crc/CrcProofs.required_vos: Crc/CrcProofs.v Base/Bytes.vos gen/GenCrcTables.vos Crc/CrcSpec.vos Crc/CrcModel.vos
Crc/CrcSpec.vo Crc/CrcSpec.glob Crc/CrcSpec.v.beautified Crc/CrcSpec.required_vo: Crc/CrcSpec.v Base/Bytes.vo
Crc/CrcSpec.vio: Crc/CrcSpec.v Base/Bytes.vio
Crc/CrcSpec.vos Crc/CrcSpec.vok Crc/CrcSpec.required_vos: Crc/CrcSpec.v Base/Bytes.vos
Extract.vo Extract.glob Extract.v.beautified Extract.required_vo: Extract.v Base/Bytes.vo Crc/CrcSpec.vo Crc/CrcModel.vo Link/LLHeader.vo Link/LinkSpec.vo Link/Frame.vo Link/Frag.vo Link/Resync.vo Link/Rx.vo Link/RxSpec.vo Link/TxSeq.vo Wire/Wty.vo Cmd/Schema.vo Cmd/Command.vo gen/GenSchemas.vo
Extract.vio: Extract.v Base/Bytes.vio Crc/CrcSpec.vio Crc/CrcModel.vio Link/LLHeader.vio Link/LinkSpec.vio Link/Frame.vio Link/Frag.vio Link/Resync.vio Link/Rx.vio Link/RxSpec.vio Link/TxSeq.vio Wire/Wty.vio Cmd/Schema.vio Cmd/Command.vio gen/GenSchemas.vio
Extract.vos Extract.vok Extract.required_vos: Extract.v Base/Bytes.vos Crc/CrcSpec.vos Crc/CrcModel.vos Link/LLHeader.vos Link/LinkSpec.vos Link/Frame.vos Link/Frag.vos Link/Resync.vos Link/Rx.vos Link/RxSpec.vos Link/TxSeq.vos Wire/Wty.vos Cmd/Schema.vos Cmd/Command.vos gen/GenSchemas.vos
ExtractCstruct.vo ExtractCstruct.glob ExtractCstruct.v.beautified ExtractCstruct.required_vo: ExtractCstruct.v Base/Bytes.vo Wire/CStruct.vo Wire/Nvram.vo
ExtractCstruct.vio: ExtractCstruct.v Base/Bytes.vio Wire/CStruct.vio Wire/Nvram.vio
ExtractCstruct.vos ExtractCstruct.vok ExtractCstruct.required_vos: ExtractCstruct.v Base/Bytes.vos Wire/CStruct.vos Wire/Nvram.vos
ExtractMatch.vo ExtractMatch.glob ExtractMatch.v.beautified ExtractMatch.required_vo: ExtractMatch.v Api/Match.vo Api/Dispatch.vo Api/DispatchProofs.vo
ExtractMatch.vio: ExtractMatch.v Api/Match.vio Api/Dispatch.vio Api/DispatchProofs.vio
ExtractMatch.vos ExtractMatch.vok ExtractMatch.required_vos: ExtractMatch.v Api/Match.vos Api/Dispatch.vos Api/DispatchProofs.vos
ExtractRadio.vo ExtractRadio.glob ExtractRadio.v.beautified ExtractRadio.required_vo: ExtractRadio.v Base/Bytes.vo Radio/Radio.vo
ExtractRadio.vio: ExtractRadio.v Base/Bytes.vio Radio/Radio.vio
ExtractRadio.vos ExtractRadio.vok ExtractRadio.required_vos: ExtractRadio.v Base/Bytes.vos Radio/Radio.vos
Link/Frag.vo Link/Frag.glob Link/Frag.v.beautified Link/Frag.required_vo: Link/Frag.v Base/Bytes.vo Base/Bits.vo Crc/CrcModel.vo Link/LLHeader.vo Link/Frame.vo gen/GenConsts.vo
Link/Frag.vio: Link/Frag.v Base/Bytes.vio Base/Bits.vio Crc/CrcModel.vio Link/LLHeader.vio Link/Frame.vio gen/GenConsts.vio
Link/Frag.vos Link/Frag.vok Link/Frag.required_vos: Link/Frag.v Base/Bytes.vos Base/Bits.vos Crc/CrcModel.vos Link/LLHeader.vos Link/Frame.vos gen/GenConsts.vos
Link/FragProofs.vo Link/FragProofs.glob Link/FragProofs.v.beautified Link/FragProofs.required_vo: Link/FragProofs.v Base/Bytes.vo Base/Bits.vo Crc/CrcSpec.vo Crc/CrcModel.vo Crc/CrcProofs.vo Link/LLHeader.vo Link/LinkSpec.vo Link/LinkSpecProofs.vo Link/Frame.vo Link/Frag.vo Link/FrameProofs.vo gen/GenConsts.vo
Link/FragProofs.vio: Link/FragProofs.v Base/Bytes.vio Base/Bits.vio Crc/CrcSpec.vio Crc/CrcModel.vio Crc/CrcProofs.vio Link/LLHeader.vio Link/LinkSpec.vio Link/LinkSpecProofs.vio Link/Frame.vio Link/Frag.vio Link/FrameProofs.vio gen/GenConsts.vio
Link/FragProofs.vos Link/FragProofs.vok Link/FragProofs.required_vos: Link/FragProofs.v Base/Bytes.vos Base/Bits.vos Crc/CrcSpec.vos Crc/CrcModel.vos Crc/CrcProofs.vos Link/LLHeader.vos Link/LinkSpec.vos Link/LinkSpecProofs.vos Link/Frame.vos Link/Frag.vos Link/FrameProofs.vos gen/GenConsts.vos
Link/Frame.vo Link/Frame.glob Link/Frame.v.beautified Link/Frame.required_vo: Link/Frame.v Base/Bytes.vo Base/Bits.vo Crc/CrcModel.vo Link/LLHeader.vo gen/GenConsts.vo
Link/Frame.vio: Link/Frame.v Base/Bytes.vio Base/Bits.vio Crc/CrcModel.vio Link/LLHeader.vio gen/GenConsts.vio
Link/Frame.vos Link/Frame.vok Link/Frame.required_vos: Link/Frame.v Base/Bytes.vos Base/Bits.vos Crc/CrcModel.vos Link/LLHeader.vos gen/GenConsts.vos
Link/FrameProofs.vo Link/FrameProofs.glob Link/FrameProofs.v.beautified Link/FrameProofs.required_vo: Link/FrameProofs.v Base/Bytes.vo Base/Bits.vo Crc/CrcSpec.vo Crc/CrcModel.vo Crc/CrcProofs.vo Link/LLHeader.vo Link/LinkSpec.vo Link/LinkSpecProofs.vo Link/Frame.vo Link/Rx.vo Link/RxProofs.vo gen/GenConsts.vo
Link/FrameProofs.vio: Link/FrameProofs.v Base/Bytes.vio Base/Bits.vio Crc/CrcSpec.vio Crc/CrcModel.vio Crc/CrcProofs.vio Link/LLHeader.vio Link/LinkSpec.vio Link/LinkSpecProofs.vio Link/Frame.vio Link/Rx.vio Link/RxProofs.vio gen/GenConsts.vio
Link/FrameProofs.vos Link/FrameProofs.vok Link/FrameProofs.required_vos: Link/FrameProofs.v Base/Bytes.vos Base/Bits.vos Crc/CrcSpec.vos Crc/CrcModel.vos Crc/CrcProofs.vos Link/LLHeader.vos Link/LinkSpec.vos Link/LinkSpecProofs.vos Link/Frame.vos Link/Rx.vos Link/RxProofs.vos gen/GenConsts.vos
Link/LLHeader.vo Link/LLHeader.glob Link/LLHeader.v.beautified Link/LLHeader.required_vo: Link/LLHeader.v Base/Bits.vo Base/Bytes.vo
Link/LLHeader.vio: Link/LLHeader.v Base/Bits.vio Base/Bytes.vio
Link/LLHeader.vos Link/LLHeader.vok Link/LLHeader.required_vos: Link/LLHeader.v Base/Bits.vos Base/Bytes.vos
Link/LLHeaderGen.vo Link/LLHeaderGen.glob Link/LLHeaderGen.v.beautified Link/LLHeaderGen.required_vo: Link/LLHeaderGen.v Base/Bits.vo Link/LLHeader.vo gen/GenBitfields.vo
Link/LLHeaderGen.vio: Link/LLHeaderGen.v Base/Bits.vio Link/LLHeader.vio gen/GenBitfields.vio
Link/LLHeaderGen.vos Link/LLHeaderGen.vok Link/LLHeaderGen.required_vos: Link/LLHeaderGen.v Base/Bits.vos Link/LLHeader.vos gen/GenBitfields.vos
Link/LinkSpec.vo Link/LinkSpec.glob Link/LinkSpec.v.beautified Link/LinkSpec.required_vo: Link/LinkSpec.v Base/Bytes.vo Crc/CrcSpec.vo
Link/LinkSpec.vio: Link/LinkSpec.v Base/Bytes.vio Crc/CrcSpec.vio
Link/LinkSpec.vos Link/LinkSpec.vok Link/LinkSpec.required_vos: Link/LinkSpec.v Base/Bytes.vos Crc/CrcSpec.vos
Link/LinkSpecProofs.vo Link/LinkSpecProofs.glob Link/LinkSpecProofs.v.beautified Link/LinkSpecProofs.required_vo: Link/LinkSpecProofs.v Base/Bytes.vo Crc/CrcSpec.vo Crc/CrcModel.vo Crc/CrcProofs.vo Link/LinkSpec.vo
Link/LinkSpecProofs.vio: Link/LinkSpecProofs.v Base/Bytes.vio Crc/CrcSpec.vio Crc/CrcModel.vio Crc/CrcProofs.vio Link/LinkSpec.vio
Link/LinkSpecProofs.vos Link/LinkSpecProofs.vok Link/LinkSpecProofs.required_vos: Link/LinkSpecProofs.v Base/Bytes.vos Crc/CrcSpec.vos Crc/CrcModel.vos Crc/CrcProofs.vos Link/LinkSpec.vos
Link/Resync.vo Link/Resync.glob Link/Resync.v.beautified Link/Resync.required_vo: Link/Resync.v 
Link/Resync.vio: Link/Resync.v 
Link/Resync.vos Link/Resync.vok Link/Resync.required_vos: Link/Resync.v 
Link/Rx.vo Link/Rx.glob Link/Rx.v.beautified Link/Rx.required_vo: Link/Rx.v Base/Bytes.vo Crc/CrcModel.vo Link/LinkSpec.vo Link/Frame.vo Link/Resync.vo gen/GenConsts.vo
Link/Rx.vio: Link/Rx.v Base/Bytes.vio Crc/CrcModel.vio Link/LinkSpec.vio Link/Frame.vio Link/Resync.vio gen/GenConsts.vio
Link/Rx.vos Link/Rx.vok Link/Rx.required_vos: Link/Rx.v Base/Bytes.vos Crc/CrcModel.vos Link/LinkSpec.vos Link/Frame.vos Link/Resync.vos gen/GenConsts.vos
Link/RxProofs.vo Link/RxProofs.glob Link/RxProofs.v.beautified Link/RxProofs.required_vo: Link/RxProofs.v Base/Bytes.vo Crc/CrcSpec.vo Crc/CrcModel.vo Crc/CrcProofs.vo Link/LinkSpec.vo Link/LinkSpecProofs.vo Link/Frame.vo Link/Resync.vo Link/Rx.vo Link/RxSpec.vo gen/GenConsts.vo
Link/RxProofs.vio: Link/RxProofs.v Base/Bytes.vio Crc/CrcSpec.vio Crc/CrcModel.vio Crc/CrcProofs.vio Link/LinkSpec.vio Link/LinkSpecProofs.vio Link/Frame.vio Link/Resync.vio Link/Rx.vio Link/RxSpec.vio gen/GenConsts.vio
Link/RxProofs.vos Link/RxProofs.vok Link/RxProofs.required_vos: Link/RxProofs.v Base/Bytes.vos Crc/CrcSpec.vos Crc/CrcModel.vos Crc/CrcProofs.vos Link/LinkSpec.vos Link/LinkSpecProofs.vos Link/Frame.vos Link/Resync.vos Link/Rx.vos Link/RxSpec.vos gen/GenConsts.vos
Link/RxSpec.vo Link/RxSpec.glob Link/RxSpec.v.beautified Link/RxSpec.required_vo: Link/RxSpec.v Base/Bytes.vo Crc/CrcSpec.vo Link/LinkSpec.vo
Link/RxSpec.vio: Link/RxSpec.v Base/Bytes.vio Crc/CrcSpec.vio Link/LinkSpec.vio
Link/RxSpec.vos Link/RxSpec.vok Link/RxSpec.required_vos: Link/RxSpec.v Base/Bytes.vos Crc/CrcSpec.vos Link/LinkSpec.vos
Link/TxSeq.vo Link/TxSeq.glob Link/TxSeq.v.beautified Link/TxSeq.required_vo: Link/TxSeq.v Base/Bytes.vo Link/LinkSpec.vo Link/Frame.vo Link/Rx.vo gen/GenConsts.vo
Link/TxSeq.vio: Link/TxSeq.v Base/Bytes.vio Link/LinkSpec.vio Link/Frame.vio Link/Rx.vio gen/GenConsts.vio
Link/TxSeq.vos Link/TxSeq.vok Link/TxSeq.required_vos: Link/TxSeq.v Base/Bytes.vos Link/LinkSpec.vos Link/Frame.vos Link/Rx.vos gen/GenConsts.vos
Link/TxSeqProofs.vo Link/TxSeqProofs.glob Link/TxSeqProofs.v.beautified Link/TxSeqProofs.required_vo: Link/TxSeqProofs.v Base/Bytes.vo Link/LinkSpec.vo Link/LinkSpecProofs.vo Link/Frame.vo Link/Rx.vo Link/TxSeq.vo Link/FrameProofs.vo gen/GenConsts.vo
Link/TxSeqProofs.vio: Link/TxSeqProofs.v Base/Bytes.vio Link/LinkSpec.vio Link/LinkSpecProofs.vio Link/Frame.vio Link/Rx.vio Link/TxSeq.vio Link/FrameProofs.vio gen/GenConsts.vio
Link/TxSeqProofs.vos Link/TxSeqProofs.vok Link/TxSeqProofs.required_vos: Link/TxSeqProofs.v Base/Bytes.vos Link/LinkSpec.vos Link/LinkSpecProofs.vos Link/Frame.vos Link/Rx.vos Link/TxSeq.vos Link/FrameProofs.vos gen/GenConsts.vos
Radio/Radio.vo Radio/Radio.glob Radio/Radio.v.beautified Radio/Radio.required_vo: Radio/Radio.v Base/Bytes.vo
Radio/Radio.vio: Radio/Radio.v Base/Bytes.vio
Radio/Radio.vos Radio/Radio.vok Radio/Radio.required_vos: Radio/Radio.v Base/Bytes.vos
Radio/RadioProofs.vo Radio/RadioProofs.glob Radio/RadioProofs.v.beautified Radio/RadioProofs.required_vo: Radio/RadioProofs.v Base/Bytes.vo Radio/Radio.vo
Radio/RadioProofs.vio: Radio/RadioProofs.v Base/Bytes.vio Radio/Radio.vio
Radio/RadioProofs.vos Radio/RadioProofs.vok Radio/RadioProofs.required_vos: Radio/RadioProofs.v Base/Bytes.vos Radio/Radio.vos
Wire/CStruct.vo Wire/CStruct.glob Wire/CStruct.v.beautified Wire/CStruct.required_vo: Wire/CStruct.v Base/Bytes.vo
Wire/CStruct.vio: Wire/CStruct.v Base/Bytes.vio
Wire/CStruct.vos Wire/CStruct.vok Wire/CStruct.required_vos: Wire/CStruct.v Base/Bytes.vos
Wire/CStructProofs.vo Wire/CStructProofs.glob Wire/CStructProofs.v.beautified Wire/CStructProofs.required_vo: Wire/CStructProofs.v Base/Bytes.vo Wire/CStruct.vo
Wire/CStructProofs.vio: Wire/CStructProofs.v Base/Bytes.vio Wire/CStruct.vio
Wire/CStructProofs.vos Wire/CStructProofs.vok Wire/CStructProofs.required_vos: Wire/CStructProofs.v Base/Bytes.vos Wire/CStruct.vos
Wire/Nvram.vo Wire/Nvram.glob Wire/Nvram.v.beautified Wire/Nvram.required_vo: Wire/Nvram.v Base/Bytes.vo Wire/CStruct.vo
Wire/Nvram.vio: Wire/Nvram.v Base/Bytes.vio Wire/CStruct.vio
Wire/Nvram.vos Wire/Nvram.vok Wire/Nvram.required_vos: Wire/Nvram.v Base/Bytes.vos Wire/CStruct.vos
Wire/NvramProofs.vo Wire/NvramProofs.glob Wire/NvramProofs.v.beautified Wire/NvramProofs.required_vo: Wire/NvramProofs.v Base/Bytes.vo Wire/CStruct.vo Wire/CStructProofs.vo Wire/Nvram.vo
Wire/NvramProofs.vio: Wire/NvramProofs.v Base/Bytes.vio Wire/CStruct.vio Wire/CStructProofs.vio Wire/Nvram.vio
Wire/NvramProofs.vos Wire/NvramProofs.vok Wire/NvramProofs.required_vos: Wire/NvramProofs.v Base/Bytes.vos Wire/CStruct.vos Wire/CStructProofs.vos Wire/Nvram.vos
Wire/Wty.vo Wire/Wty.glob Wire/Wty.v.beautified Wire/Wty.required_vo: Wire/Wty.v Base/Bytes.vo
Wire/Wty.vio: Wire/Wty.v Base/Bytes.vio
Wire/Wty.vos Wire/Wty.vok Wire/Wty.required_vos: Wire/Wty.v Base/Bytes.vos
Wire/WtyProofs.vo Wire/WtyProofs.glob Wire/WtyProofs.v.beautified Wire/WtyProofs.required_vo: Wire/WtyProofs.v Base/Bytes.vo Wire/Wty.vo
Wire/WtyProofs.vio: Wire/WtyProofs.v Base/Bytes.vio Wire/Wty.vio
Wire/WtyProofs.vos Wire/WtyProofs.vok Wire/WtyProofs.required_vos: Wire/WtyProofs.v Base/Bytes.vos Wire/Wty.vos
gen/GenBitfields.vo gen/GenBitfields.glob gen/GenBitfields.v.beautified gen/GenBitfields.required_vo: gen/GenBitfields.v 
gen/GenBitfields.vio: gen/GenBitfields.v 
gen/GenBitfields.vos gen/GenBitfields.vok gen/GenBitfields.required_vos: gen/GenBitfields.v 
gen/GenConsts.vo gen/GenConsts.glob gen/GenConsts.v.beautified gen/GenConsts.required_vo: gen/GenConsts.v 
gen/GenConsts.vio: gen/GenConsts.v 
gen/GenConsts.vos gen/GenConsts.vok gen/GenConsts.required_vos: gen/GenConsts.v 
gen/GenCrcTables.vo gen/GenCrcTables.glob gen/GenCrcTables.v.beautified gen/GenCrcTables.required_vo: gen/GenCrcTables.v 
gen/GenCrcTables.vio: gen/GenCrcTables.v 
gen/GenCrcTables.vos gen/GenCrcTables.vok gen/GenCrcTables.required_vos: gen/GenCrcTables.v 
gen/GenEnums.vo gen/GenEnums.glob gen/GenEnums.v.beautified gen/GenEnums.required_vo: gen/GenEnums.v 
gen/GenEnums.vio: gen/GenEnums.v 
gen/GenEnums.vos gen/GenEnums.vok gen/GenEnums.required_vos: gen/GenEnums.v 
gen/GenSchemas.vo gen/GenSchemas.glob gen/GenSchemas.v.beautified gen/GenSchemas.required_vo: gen/GenSchemas.v Wire/Wty.vo Cmd/Schema.vo
gen/GenSchemas.vio: gen/GenSchemas.v Wire/Wty.vio Cmd/Schema.vio
gen/GenSchemas.vos gen/GenSchemas.vok gen/GenSchemas.required_vos: gen/GenSchemas.v Wire/Wty.vos Cmd/Schema.vos
pinned/PinnedEnums.vo pinned/PinnedEnums.glob pinned/PinnedEnums.v.beautified pinned/PinnedEnums.required_vo: pinned/PinnedEnums.v 
pinned/PinnedEnums.vio: pinned/PinnedEnums.v 
pinned/PinnedEnums.vos pinned/PinnedEnums.vok pinned/PinnedEnums.required_vos: pinned/PinnedEnums.v 
pinned/PinnedSchemas.vo pinned/PinnedSchemas.glob pinned/PinnedSchemas.v.beautified pinned/PinnedSchemas.required_vo: pinned/PinnedSchemas.v Wire/Wty.vo Cmd/Schema.vo
pinned/PinnedSchemas.vio: pinned/PinnedSchemas.v Wire/Wty.vio Cmd/Schema.vio
pinned/PinnedSchemas.vos pinned/PinnedSchemas.vok pinned/PinnedSchemas.required_vos: pinned/PinnedSchemas.v Wire/Wty.vos Cmd/Schema.vos
props/Props_C01.vo props/Props_C01.glob props/Props_C01.v.beautified props/Props_C01.required_vo: props/Props_C01.v Base/Bytes.vo Link/LinkSpec.vo Link/LinkSpecProofs.vo Link/Rx.vo Link/RxSpec.vo Link/RxProofs.vo
props/Props_C01.vio: props/Props_C01.v Base/Bytes.vio Link/LinkSpec.vio Link/LinkSpecProofs.vio Link/Rx.vio Link/RxSpec.vio Link/RxProofs.vio
props/Props_C01.vos props/Props_C01.vok props/Props_C01.required_vos: props/Props_C01.v Base/Bytes.vos Link/LinkSpec.vos Link/LinkSpecProofs.vos Link/Rx.vos Link/RxSpec.vos Link/RxProofs.vos
props/Props_C02.vo props/Props_C02.glob props/Props_C02.v.beautified props/Props_C02.required_vo: props/Props_C02.v Base/Bytes.vo Link/LinkSpec.vo Link/LinkSpecProofs.vo Link/Rx.vo Link/RxSpec.vo Link/RxProofs.vo
props/Props_C02.vio: props/Props_C02.v Base/Bytes.vio Link/LinkSpec.vio Link/LinkSpecProofs.vio Link/Rx.vio Link/RxSpec.vio Link/RxProofs.vio
props/Props_C02.vos props/Props_C02.vok props/Props_C02.required_vos: props/Props_C02.v Base/Bytes.vos Link/LinkSpec.vos Link/LinkSpecProofs.vos Link/Rx.vos Link/RxSpec.vos Link/RxProofs.vos
props/Props_C03.vo props/Props_C03.glob props/Props_C03.v.beautified props/Props_C03.required_vo: props/Props_C03.v Base/Bytes.vo Crc/CrcSpec.vo Crc/CrcModel.vo Crc/CrcProofs.vo
props/Props_C03.vio: props/Props_C03.v Base/Bytes.vio Crc/CrcSpec.vio Crc/CrcModel.vio Crc/CrcProofs.vio
props/Props_C03.vos props/Props_C03.vok props/Props_C03.required_vos: props/Props_C03.v Base/Bytes.vos Crc/CrcSpec.vos Crc/CrcModel.vos Crc/CrcProofs.vos
props/Props_C04.vo props/Props_C04.glob props/Props_C04.v.beautified props/Props_C04.required_vo: props/Props_C04.v Base/Bytes.vo Wire/Wty.vo Wire/WtyProofs.vo Cmd/Schema.vo Cmd/Command.vo Cmd/CommandProofs.vo gen/GenSchemas.vo
props/Props_C04.vio: props/Props_C04.v Base/Bytes.vio Wire/Wty.vio Wire/WtyProofs.vio Cmd/Schema.vio Cmd/Command.vio Cmd/CommandProofs.vio gen/GenSchemas.vio
props/Props_C04.vos props/Props_C04.vok props/Props_C04.required_vos: props/Props_C04.v Base/Bytes.vos Wire/Wty.vos Wire/WtyProofs.vos Cmd/Schema.vos Cmd/Command.vos Cmd/CommandProofs.vos gen/GenSchemas.vos
props/Props_C05.vo props/Props_C05.glob props/Props_C05.v.beautified props/Props_C05.required_vo: props/Props_C05.v Base/Bytes.vo Base/Bits.vo Link/LLHeader.vo Link/LLHeaderGen.vo Link/LinkSpec.vo Link/LinkSpecProofs.vo Link/Frame.vo Link/Rx.vo Link/FrameProofs.vo gen/GenBitfields.vo
props/Props_C05.vio: props/Props_C05.v Base/Bytes.vio Base/Bits.vio Link/LLHeader.vio Link/LLHeaderGen.vio Link/LinkSpec.vio Link/LinkSpecProofs.vio Link/Frame.vio Link/Rx.vio Link/FrameProofs.vio gen/GenBitfields.vio
props/Props_C05.vos props/Props_C05.vok props/Props_C05.required_vos: props/Props_C05.v Base/Bytes.vos Base/Bits.vos Link/LLHeader.vos Link/LLHeaderGen.vos Link/LinkSpec.vos Link/LinkSpecProofs.vos Link/Frame.vos Link/Rx.vos Link/FrameProofs.vos gen/GenBitfields.vos
props/Props_C06.vo props/Props_C06.glob props/Props_C06.v.beautified props/Props_C06.required_vo: props/Props_C06.v Base/Bytes.vo Link/LinkSpec.vo Link/LinkSpecProofs.vo Link/Frame.vo Link/Rx.vo Link/RxSpec.vo Link/RxProofs.vo Link/FrameProofs.vo
props/Props_C06.vio: props/Props_C06.v Base/Bytes.vio Link/LinkSpec.vio Link/LinkSpecProofs.vio Link/Frame.vio Link/Rx.vio Link/RxSpec.vio Link/RxProofs.vio Link/FrameProofs.vio
props/Props_C06.vos props/Props_C06.vok props/Props_C06.required_vos: props/Props_C06.v Base/Bytes.vos Link/LinkSpec.vos Link/LinkSpecProofs.vos Link/Frame.vos Link/Rx.vos Link/RxSpec.vos Link/RxProofs.vos Link/FrameProofs.vos
props/Props_C08.vo props/Props_C08.glob props/Props_C08.v.beautified props/Props_C08.required_vo: props/Props_C08.v Base/Bytes.vo Link/LinkSpec.vo Link/LinkSpecProofs.vo Link/Frame.vo Link/Rx.vo Link/TxSeq.vo Link/FrameProofs.vo Link/TxSeqProofs.vo gen/GenConsts.vo
props/Props_C08.vio: props/Props_C08.v Base/Bytes.vio Link/LinkSpec.vio Link/LinkSpecProofs.vio Link/Frame.vio Link/Rx.vio Link/TxSeq.vio Link/FrameProofs.vio Link/TxSeqProofs.vio gen/GenConsts.vio
props/Props_C08.vos props/Props_C08.vok props/Props_C08.required_vos: props/Props_C08.v Base/Bytes.vos Link/LinkSpec.vos Link/LinkSpecProofs.vos Link/Frame.vos Link/Rx.vos Link/TxSeq.vos Link/FrameProofs.vos Link/TxSeqProofs.vos gen/GenConsts.vos
props/Props_C09.vo props/Props_C09.glob props/Props_C09.v.beautified props/Props_C09.required_vo: props/Props_C09.v Base/Bytes.vo Link/LinkSpec.vo Link/LinkSpecProofs.vo Link/Frame.vo Link/Frag.vo Link/FrameProofs.vo Link/FragProofs.vo gen/GenConsts.vo
props/Props_C09.vio: props/Props_C09.v Base/Bytes.vio Link/LinkSpec.vio Link/LinkSpecProofs.vio Link/Frame.vio Link/Frag.vio Link/FrameProofs.vio Link/FragProofs.vio gen/GenConsts.vio
props/Props_C09.vos props/Props_C09.vok props/Props_C09.required_vos: props/Props_C09.v Base/Bytes.vos Link/LinkSpec.vos Link/LinkSpecProofs.vos Link/Frame.vos Link/Frag.vos Link/FrameProofs.vos Link/FragProofs.vos gen/GenConsts.vos
props/Props_C12.vo props/Props_C12.glob props/Props_C12.v.beautified props/Props_C12.required_vo: props/Props_C12.v Api/Match.vo Api/MatchProofs.vo Api/Dispatch.vo Api/DispatchProofs.vo
props/Props_C12.vio: props/Props_C12.v Api/Match.vio Api/MatchProofs.vio Api/Dispatch.vio Api/DispatchProofs.vio
props/Props_C12.vos props/Props_C12.vok props/Props_C12.required_vos: props/Props_C12.v Api/Match.vos Api/MatchProofs.vos Api/Dispatch.vos Api/DispatchProofs.vos
props/Props_C15.vo props/Props_C15.glob props/Props_C15.v.beautified props/Props_C15.required_vo: props/Props_C15.v Base/Bytes.vo Wire/Wty.vo Wire/WtyProofs.vo Cmd/Schema.vo Cmd/Command.vo Cmd/CommandProofs.vo gen/GenSchemas.vo
props/Props_C15.vio: props/Props_C15.v Base/Bytes.vio Wire/Wty.vio Wire/WtyProofs.vio Cmd/Schema.vio Cmd/Command.vio Cmd/CommandProofs.vio gen/GenSchemas.vio
props/Props_C15.vos props/Props_C15.vok props/Props_C15.required_vos: props/Props_C15.v Base/Bytes.vos Wire/Wty.vos Wire/WtyProofs.vos Cmd/Schema.vos Cmd/Command.vos Cmd/CommandProofs.vos gen/GenSchemas.vos
props/Props_C16.vo props/Props_C16.glob props/Props_C16.v.beautified props/Props_C16.required_vo: props/Props_C16.v Base/Bytes.vo Wire/Wty.vo Wire/WtyProofs.vo
props/Props_C16.vio: props/Props_C16.v Base/Bytes.vio Wire/Wty.vio Wire/WtyProofs.vio
props/Props_C16.vos props/Props_C16.vok props/Props_C16.required_vos: props/Props_C16.v Base/Bytes.vos Wire/Wty.vos Wire/WtyProofs.vos
props/Props_C16cstruct.vo props/Props_C16cstruct.glob props/Props_C16cstruct.v.beautified props/Props_C16cstruct.required_vo: props/Props_C16cstruct.v Base/Bytes.vo Wire/CStruct.vo Wire/CStructProofs.vo Wire/Nvram.vo Wire/NvramProofs.vo
props/Props_C16cstruct.vio: props/Props_C16cstruct.v Base/Bytes.vio Wire/CStruct.vio Wire/CStructProofs.vio Wire/Nvram.vio Wire/NvramProofs.vio
props/Props_C16cstruct.vos props/Props_C16cstruct.vok props/Props_C16cstruct.required_vos: props/Props_C16cstruct.v Base/Bytes.vos Wire/CStruct.vos Wire/CStructProofs.vos Wire/Nvram.vos Wire/NvramProofs.vos
props/Props_C17.vo props/Props_C17.glob props/Props_C17.v.beautified props/Props_C17.required_vo: props/Props_C17.v Api/Match.vo Api/MatchProofs.vo
props/Props_C17.vio: props/Props_C17.v Api/Match.vio Api/MatchProofs.vio
props/Props_C17.vos props/Props_C17.vok props/Props_C17.required_vos: props/Props_C17.v Api/Match.vos Api/MatchProofs.vos
props/Props_C18.vo props/Props_C18.glob props/Props_C18.v.beautified props/Props_C18.required_vo: props/Props_C18.v Base/Bytes.vo Radio/Radio.vo Radio/RadioProofs.vo
props/Props_C18.vio: props/Props_C18.v Base/Bytes.vio Radio/Radio.vio Radio/RadioProofs.vio
props/Props_C18.vos props/Props_C18.vok props/Props_C18.required_vos: props/Props_C18.v Base/Bytes.vos Radio/Radio.vos Radio/RadioProofs.vos
props/Props_C19.vo props/Props_C19.glob props/Props_C19.v.beautified props/Props_C19.required_vo: props/Props_C19.v Wire/Wty.vo Cmd/Schema.vo Cmd/Command.vo Cmd/Pinned.vo gen/GenSchemas.vo gen/GenEnums.vo pinned/PinnedSchemas.vo pinned/PinnedEnums.vo
props/Props_C19.vio: props/Props_C19.v Wire/Wty.vio Cmd/Schema.vio Cmd/Command.vio Cmd/Pinned.vio gen/GenSchemas.vio gen/GenEnums.vio pinned/PinnedSchemas.vio pinned/PinnedEnums.vio
props/Props_C19.vos props/Props_C19.vok props/Props_C19.required_vos: props/Props_C19.v Wire/Wty.vos Cmd/Schema.vos Cmd/Command.vos Cmd/Pinned.vos gen/GenSchemas.vos gen/GenEnums.vos pinned/PinnedSchemas.vos pinned/PinnedEnums.vos
