Base/Bytes.vo Base/Bytes.glob Base/Bytes.v.beautified Base/Bytes.required_vo: Base/Bytes.v 
Base/Bytes.vio: Base/Bytes.v 
Base/Bytes.vos Base/Bytes.vok Base/Bytes.required_vos: Base/Bytes.v 
Crc/CrcModel.vo Crc/CrcModel.glob Crc/CrcModel.v.beautified Crc/CrcModel.required_vo: Crc/CrcModel.v Base/Bytes.vo gen/GenCrcTables.vo
Crc/CrcModel.vio: Crc/CrcModel.v Base/Bytes.vio gen/GenCrcTables.vio
Crc/CrcModel.vos Crc/CrcModel.vok Crc/CrcModel.required_vos: Crc/CrcModel.v Base/Bytes.vos gen/GenCrcTables.vos
Crc/CrcProofs.vo Crc/CrcProofs.glob Crc/CrcProofs.v.beautified Crc/CrcProofs.required_vo: Crc/CrcProofs.v Base/Bytes.vo gen/GenCrcTables.vo Crc/CrcSpec.vo Crc/CrcModel.vo
Crc/CrcProofs.vio: Crc/CrcProofs.v Base/Bytes.vio gen/GenCrcTables.vio Crc/CrcSpec.vio Crc/CrcModel.vio
Crc/CrcProofs.vos Crc/CrcProofs.vok Crc/CrcProofs.required_vos: Crc/CrcProofs.v Base/Bytes.vos gen/GenCrcTables.vos Crc/CrcSpec.vos Crc/CrcModel.vos
Crc/CrcSpec.vo Crc/CrcSpec.glob Crc/CrcSpec.v.beautified Crc/CrcSpec.required_vo: Crc/CrcSpec.v Base/Bytes.vo
Crc/CrcSpec.vio: Crc/CrcSpec.v Base/Bytes.vio
Crc/CrcSpec.vos Crc/CrcSpec.vok Crc/CrcSpec.required_vos: Crc/CrcSpec.v Base/Bytes.vos
Extract.vo Extract.glob Extract.v.beautified Extract.required_vo: Extract.v Base/Bytes.vo Crc/CrcSpec.vo Crc/CrcModel.vo
Extract.vio: Extract.v Base/Bytes.vio Crc/CrcSpec.vio Crc/CrcModel.vio
Extract.vos Extract.vok Extract.required_vos: Extract.v Base/Bytes.vos Crc/CrcSpec.vos Crc/CrcModel.vos
gen/GenBitfields.vo gen/GenBitfields.glob gen/GenBitfields.v.beautified gen/GenBitfields.required_vo: gen/GenBitfields.v 
gen/GenBitfields.vio: gen/GenBitfields.v 
gen/GenBitfields.vos gen/GenBitfields.vok gen/GenBitfields.required_vos: gen/GenBitfields.v 
gen/GenConsts.vo gen/GenConsts.glob gen/GenConsts.v.beautified gen/GenConsts.required_vo: gen/GenConsts.v 
gen/GenConsts.vio: gen/GenConsts.v 
gen/GenConsts.vos gen/GenConsts.vok gen/GenConsts.required_vos: gen/GenConsts.v 
gen/GenCrcTables.vo gen/GenCrcTables.glob gen/GenCrcTables.v.beautified gen/GenCrcTables.required_vo: gen/GenCrcTables.v 
gen/GenCrcTables.vio: gen/GenCrcTables.v 
gen/GenCrcTables.vos gen/GenCrcTables.vok gen/GenCrcTables.required_vos: gen/GenCrcTables.v 
props/Props_C03.vo props/Props_C03.glob props/Props_C03.v.beautified props/Props_C03.required_vo: props/Props_C03.v Base/Bytes.vo Crc/CrcSpec.vo Crc/CrcModel.vo Crc/CrcProofs.vo
props/Props_C03.vio: props/Props_C03.v Base/Bytes.vio Crc/CrcSpec.vio Crc/CrcModel.vio Crc/CrcProofs.vio
props/Props_C03.vos props/Props_C03.vok props/Props_C03.required_vos: props/Props_C03.v Base/Bytes.vos Crc/CrcSpec.vos Crc/CrcModel.vos Crc/CrcProofs.vos
