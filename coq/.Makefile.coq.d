Base/Bits.vo Base/Bits.glob Base/Bits.v.beautified Base/Bits.required_vo: Base/Bits.v 
Base/Bits.vio: Base/Bits.v 
Base/Bits.vos Base/Bits.vok Base/Bits.required_vos: Base/Bits.v 
Base/Bytes.vo Base/Bytes.glob Base/Bytes.v.beautified Base/Bytes.required_vo: Base/Bytes.v 
Base/Bytes.vio: Base/Bytes.v 
Base/Bytes.vos Base/Bytes.vok Base/Bytes.required_vos: Base/Bytes.v 
Crc/CrcModel.vo Crc/CrcModel.glob Crc/CrcModel.v.beautified Crc/CrcModel.required_vo: Crc/CrcModel.v Base/Bytes.vo gen/GenCrcTables.vo
Crc/CrcModel.vio: Crc/CrcModel.v Base/Bytes.vio gen/GenCrcTables.vio
Crc/CrcModel.vos Crc/CrcModel.vok Crc/CrcModel.required_vos: Crc/CrcModel.v Base/Bytes.vos gen/GenCrcTables.vos
Crc/CrcProofs.vo Crc/CrcProofs.glob Crc/CrcProofs.v.beautified Crc/CrcProofs.required_vo: Crc/CrcProofs.v Base/Bytes.vo gen/GenCrcTables.vo Crc/CrcSpec.vo Crc/CrcModel.vo
Crc/CrcProofs.vio: Crc/CrcProofs.v Base/Bytes.vio gen/GenCrcTables.vio Crc/CrcSpec.vio Crc/CrcModel.vio
Crc/CrcProofs.vos Crc/CrcProofs.vok Crc/CrcProofs.required_vos: Crc/CrcProofs.v Base/Bytes.vos gen/GenCrcTables.vos Crc/CrcSpec.vos Crc/CrcModel.vos
Crc/CrcSpec.vo Crc/CrcSpec.glob Crc/CrcSpec.v.beautified Crc/CrcSpec.required_vo: Crc/CrcSpec.v Base/Bytes.vo
Crc/CrcSpec.vio: Crc/CrcSpec.v Base/Bytes.vio
Crc/CrcSpec.vos Crc/CrcSpec.vok Crc/CrcSpec.required_vos: Crc/CrcSpec.v Base/Bytes.vos
Extract.vo Extract.glob Extract.v.beautified Extract.required_vo: Extract.v Base/Bytes.vo Crc/CrcSpec.vo Crc/CrcModel.vo Link/LLHeader.vo Link/LinkSpec.vo Link/Frame.vo Link/Frag.vo Link/Resync.vo Link/Rx.vo Link/RxSpec.vo Link/TxSeq.vo
Extract.vio: Extract.v Base/Bytes.vio Crc/CrcSpec.vio Crc/CrcModel.vio Link/LLHeader.vio Link/LinkSpec.vio Link/Frame.vio Link/Frag.vio Link/Resync.vio Link/Rx.vio Link/RxSpec.vio Link/TxSeq.vio
Extract.vos Extract.vok Extract.required_vos: Extract.v Base/Bytes.vos Crc/CrcSpec.vos Crc/CrcModel.vos Link/LLHeader.vos Link/LinkSpec.vos Link/Frame.vos Link/Frag.vos Link/Resync.vos Link/Rx.vos Link/RxSpec.vos Link/TxSeq.vos
Link/Frag.vo Link/Frag.glob Link/Frag.v.beautified Link/Frag.required_vo: Link/Frag.v Base/Bytes.vo Base/Bits.vo Crc/CrcModel.vo Link/LLHeader.vo Link/Frame.vo gen/GenConsts.vo
Link/Frag.vio: Link/Frag.v Base/Bytes.vio Base/Bits.vio Crc/CrcModel.vio Link/LLHeader.vio Link/Frame.vio gen/GenConsts.vio
Link/Frag.vos Link/Frag.vok Link/Frag.required_vos: Link/Frag.v Base/Bytes.vos Base/Bits.vos Crc/CrcModel.vos Link/LLHeader.vos Link/Frame.vos gen/GenConsts.vos
Link/FragProofs.vo Link/FragProofs.glob Link/FragProofs.v.beautified Link/FragProofs.required_vo: Link/FragProofs.v Base/Bytes.vo Base/Bits.vo Crc/CrcSpec.vo Crc/CrcModel.vo Crc/CrcProofs.vo Link/LLHeader.vo Link/LinkSpec.vo Link/LinkSpecProofs.vo Link/Frame.vo Link/Frag.vo Link/FrameProofs.vo gen/GenConsts.vo
Link/FragProofs.vio: Link/FragProofs.v Base/Bytes.vio Base/Bits.vio Crc/CrcSpec.vio Crc/CrcModel.vio Crc/CrcProofs.vio Link/LLHeader.vio Link/LinkSpec.vio Link/LinkSpecProofs.vio Link/Frame.vio Link/Frag.vio Link/FrameProofs.vio gen/GenConsts.vio
Link/FragProofs.vos Link/FragProofs.vok Link/FragProofs.required_vos: Link/FragProofs.v Base/Bytes.vos Base/Bits.vos Crc/CrcSpec.vos Crc/CrcModel.vos Crc/CrcProofs.vos Link/LLHeader.vos Link/LinkSpec.vos Link/LinkSpecProofs.vos Link/Frame.vos Link/Frag.vos Link/FrameProofs.vos gen/GenConsts.vos
Link/Frame.vo Link/Frame.glob Link/Frame.v.beautified Link/Frame.required_vo: Link/Frame.v Base/Bytes.vo Base/Bits.vo Crc/CrcModel.vo Link/LLHeader.vo gen/GenConsts.vo
Link/Frame.vio: Link/Frame.v Base/Bytes.vio Base/Bits.vio Crc/CrcModel.vio Link/LLHeader.vio gen/GenConsts.vio
Link/Frame.vos Link/Frame.vok Link/Frame.required_vos: Link/Frame.v Base/Bytes.vos Base/Bits.vos Crc/CrcModel.vos Link/LLHeader.vos gen/GenConsts.vos
Link/FrameProofs.vo Link/FrameProofs.glob Link/FrameProofs.v.beautified Link/FrameProofs.required_vo: Link/FrameProofs.v Base/Bytes.vo Base/Bits.vo Crc/CrcSpec.vo Crc/CrcModel.vo Crc/CrcProofs.vo Link/LLHeader.vo Link/LinkSpec.vo Link/LinkSpecProofs.vo Link/Frame.vo Link/Rx.vo Link/RxProofs.vo gen/GenConsts.vo
Link/FrameProofs.vio: Link/FrameProofs.v Base/Bytes.vio Base/Bits.vio Crc/CrcSpec.vio Crc/CrcModel.vio Crc/CrcProofs.vio Link/LLHeader.vio Link/LinkSpec.vio Link/LinkSpecProofs.vio Link/Frame.vio Link/Rx.vio Link/RxProofs.vio gen/GenConsts.vio
Link/FrameProofs.vos Link/FrameProofs.vok Link/FrameProofs.required_vos: Link/FrameProofs.v Base/Bytes.vos Base/Bits.vos Crc/CrcSpec.vos Crc/CrcModel.vos Crc/CrcProofs.vos Link/LLHeader.vos Link/LinkSpec.vos Link/LinkSpecProofs.vos Link/Frame.vos Link/Rx.vos Link/RxProofs.vos gen/GenConsts.vos
Link/LLHeader.vo Link/LLHeader.glob Link/LLHeader.v.beautified Link/LLHeader.required_vo: Link/LLHeader.v Base/Bits.vo Base/Bytes.vo
Link/LLHeader.vio: Link/LLHeader.v Base/Bits.vio Base/Bytes.vio
Link/LLHeader.vos Link/LLHeader.vok Link/LLHeader.required_vos: Link/LLHeader.v Base/Bits.vos Base/Bytes.vos
Link/LLHeaderGen.vo Link/LLHeaderGen.glob Link/LLHeaderGen.v.beautified Link/LLHeaderGen.required_vo: Link/LLHeaderGen.v Base/Bits.vo Link/LLHeader.vo gen/GenBitfields.vo
Link/LLHeaderGen.vio: Link/LLHeaderGen.v Base/Bits.vio Link/LLHeader.vio gen/GenBitfields.vio
Link/LLHeaderGen.vos Link/LLHeaderGen.vok Link/LLHeaderGen.required_vos: Link/LLHeaderGen.v Base/Bits.vos Link/LLHeader.vos gen/GenBitfields.vos
Link/LinkSpec.vo Link/LinkSpec.glob Link/LinkSpec.v.beautified Link/LinkSpec.required_vo: Link/LinkSpec.v Base/Bytes.vo Crc/CrcSpec.vo
Link/LinkSpec.vio: Link/LinkSpec.v Base/Bytes.vio Crc/CrcSpec.vio
Link/LinkSpec.vos Link/LinkSpec.vok Link/LinkSpec.required_vos: Link/LinkSpec.v Base/Bytes.vos Crc/CrcSpec.vos
Link/LinkSpecProofs.vo Link/LinkSpecProofs.glob Link/LinkSpecProofs.v.beautified Link/LinkSpecProofs.required_vo: Link/LinkSpecProofs.v Base/Bytes.vo Crc/CrcSpec.vo Crc/CrcModel.vo Crc/CrcProofs.vo Link/LinkSpec.vo
Link/LinkSpecProofs.vio: Link/LinkSpecProofs.v Base/Bytes.vio Crc/CrcSpec.vio Crc/CrcModel.vio Crc/CrcProofs.vio Link/LinkSpec.vio
Link/LinkSpecProofs.vos Link/LinkSpecProofs.vok Link/LinkSpecProofs.required_vos: Link/LinkSpecProofs.v Base/Bytes.vos Crc/CrcSpec.vos Crc/CrcModel.vos Crc/CrcProofs.vos Link/LinkSpec.vos
Link/Resync.vo Link/Resync.glob Link/Resync.v.beautified Link/Resync.required_vo: Link/Resync.v 
Link/Resync.vio: Link/Resync.v 
Link/Resync.vos Link/Resync.vok Link/Resync.required_vos: Link/Resync.v 
Link/Rx.vo Link/Rx.glob Link/Rx.v.beautified Link/Rx.required_vo: Link/Rx.v Base/Bytes.vo Crc/CrcModel.vo Link/LinkSpec.vo Link/Frame.vo Link/Resync.vo gen/GenConsts.vo
Link/Rx.vio: Link/Rx.v Base/Bytes.vio Crc/CrcModel.vio Link/LinkSpec.vio Link/Frame.vio Link/Resync.vio gen/GenConsts.vio
Link/Rx.vos Link/Rx.vok Link/Rx.required_vos: Link/Rx.v Base/Bytes.vos Crc/CrcModel.vos Link/LinkSpec.vos Link/Frame.vos Link/Resync.vos gen/GenConsts.vos
Link/RxProofs.vo Link/RxProofs.glob Link/RxProofs.v.beautified Link/RxProofs.required_vo: Link/RxProofs.v Base/Bytes.vo Crc/CrcSpec.vo Crc/CrcModel.vo Crc/CrcProofs.vo Link/LinkSpec.vo Link/LinkSpecProofs.vo Link/Frame.vo Link/Resync.vo Link/Rx.vo Link/RxSpec.vo gen/GenConsts.vo
Link/RxProofs.vio: Link/RxProofs.v Base/Bytes.vio Crc/CrcSpec.vio Crc/CrcModel.vio Crc/CrcProofs.vio Link/LinkSpec.vio Link/LinkSpecProofs.vio Link/Frame.vio Link/Resync.vio Link/Rx.vio Link/RxSpec.vio gen/GenConsts.vio
Link/RxProofs.vos Link/RxProofs.vok Link/RxProofs.required_vos: Link/RxProofs.v Base/Bytes.vos Crc/CrcSpec.vos Crc/CrcModel.vos Crc/CrcProofs.vos Link/LinkSpec.vos Link/LinkSpecProofs.vos Link/Frame.vos Link/Resync.vos Link/Rx.vos Link/RxSpec.vos gen/GenConsts.vos
Link/RxSpec.vo Link/RxSpec.glob Link/RxSpec.v.beautified Link/RxSpec.required_vo: Link/RxSpec.v Base/Bytes.vo Crc/CrcSpec.vo Link/LinkSpec.vo
Link/RxSpec.vio: Link/RxSpec.v Base/Bytes.vio Crc/CrcSpec.vio Link/LinkSpec.vio
Link/RxSpec.vos Link/RxSpec.vok Link/RxSpec.required_vos: Link/RxSpec.v Base/Bytes.vos Crc/CrcSpec.vos Link/LinkSpec.vos
Link/TxSeq.vo Link/TxSeq.glob Link/TxSeq.v.beautified Link/TxSeq.required_vo: Link/TxSeq.v Base/Bytes.vo Link/LinkSpec.vo Link/Frame.vo Link/Rx.vo gen/GenConsts.vo
Link/TxSeq.vio: Link/TxSeq.v Base/Bytes.vio Link/LinkSpec.vio Link/Frame.vio Link/Rx.vio gen/GenConsts.vio
Link/TxSeq.vos Link/TxSeq.vok Link/TxSeq.required_vos: Link/TxSeq.v Base/Bytes.vos Link/LinkSpec.vos Link/Frame.vos Link/Rx.vos gen/GenConsts.vos
Link/TxSeqProofs.vo Link/TxSeqProofs.glob Link/TxSeqProofs.v.beautified Link/TxSeqProofs.required_vo: Link/TxSeqProofs.v Base/Bytes.vo Link/LinkSpec.vo Link/LinkSpecProofs.vo Link/Frame.vo Link/Rx.vo Link/TxSeq.vo Link/FrameProofs.vo gen/GenConsts.vo
Link/TxSeqProofs.vio: Link/TxSeqProofs.v Base/Bytes.vio Link/LinkSpec.vio Link/LinkSpecProofs.vio Link/Frame.vio Link/Rx.vio Link/TxSeq.vio Link/FrameProofs.vio gen/GenConsts.vio
Link/TxSeqProofs.vos Link/TxSeqProofs.vok Link/TxSeqProofs.required_vos: Link/TxSeqProofs.v Base/Bytes.vos Link/LinkSpec.vos Link/LinkSpecProofs.vos Link/Frame.vos Link/Rx.vos Link/TxSeq.vos Link/FrameProofs.vos gen/GenConsts.vos
gen/GenBitfields.vo gen/GenBitfields.glob gen/GenBitfields.v.beautified gen/GenBitfields.required_vo: gen/GenBitfields.v 
gen/GenBitfields.vio: gen/GenBitfields.v 
gen/GenBitfields.vos gen/GenBitfields.vok gen/GenBitfields.required_vos: gen/GenBitfields.v 
gen/GenConsts.vo gen/GenConsts.glob gen/GenConsts.v.beautified gen/GenConsts.required_vo: gen/GenConsts.v 
gen/GenConsts.vio: gen/GenConsts.v 
gen/GenConsts.vos gen/GenConsts.vok gen/GenConsts.required_vos: gen/GenConsts.v 
gen/GenCrcTables.vo gen/GenCrcTables.glob gen/GenCrcTables.v.beautified gen/GenCrcTables.required_vo: gen/GenCrcTables.v 
gen/GenCrcTables.vio: gen/GenCrcTables.v 
gen/GenCrcTables.vos gen/GenCrcTables.vok gen/GenCrcTables.required_vos: gen/GenCrcTables.v 
props/Props_C01.vo props/Props_C01.glob props/Props_C01.v.beautified props/Props_C01.required_vo: props/Props_C01.v Base/Bytes.vo Link/LinkSpec.vo Link/LinkSpecProofs.vo Link/Rx.vo Link/RxSpec.vo Link/RxProofs.vo
props/Props_C01.vio: props/Props_C01.v Base/Bytes.vio Link/LinkSpec.vio Link/LinkSpecProofs.vio Link/Rx.vio Link/RxSpec.vio Link/RxProofs.vio
props/Props_C01.vos props/Props_C01.vok props/Props_C01.required_vos: props/Props_C01.v Base/Bytes.vos Link/LinkSpec.vos Link/LinkSpecProofs.vos Link/Rx.vos Link/RxSpec.vos Link/RxProofs.vos
props/Props_C02.vo props/Props_C02.glob props/Props_C02.v.beautified props/Props_C02.required_vo: props/Props_C02.v Base/Bytes.vo Link/LinkSpec.vo Link/LinkSpecProofs.vo Link/Rx.vo Link/RxSpec.vo Link/RxProofs.vo
props/Props_C02.vio: props/Props_C02.v Base/Bytes.vio Link/LinkSpec.vio Link/LinkSpecProofs.vio Link/Rx.vio Link/RxSpec.vio Link/RxProofs.vio
props/Props_C02.vos props/Props_C02.vok props/Props_C02.required_vos: props/Props_C02.v Base/Bytes.vos Link/LinkSpec.vos Link/LinkSpecProofs.vos Link/Rx.vos Link/RxSpec.vos Link/RxProofs.vos
props/Props_C03.vo props/Props_C03.glob props/Props_C03.v.beautified props/Props_C03.required_vo: props/Props_C03.v Base/Bytes.vo Crc/CrcSpec.vo Crc/CrcModel.vo Crc/CrcProofs.vo
props/Props_C03.vio: props/Props_C03.v Base/Bytes.vio Crc/CrcSpec.vio Crc/CrcModel.vio Crc/CrcProofs.vio
props/Props_C03.vos props/Props_C03.vok props/Props_C03.required_vos: props/Props_C03.v Base/Bytes.vos Crc/CrcSpec.vos Crc/CrcModel.vos Crc/CrcProofs.vos
props/Props_C05.vo props/Props_C05.glob props/Props_C05.v.beautified props/Props_C05.required_vo: props/Props_C05.v Base/Bytes.vo Base/Bits.vo Link/LLHeader.vo Link/LLHeaderGen.vo Link/LinkSpec.vo Link/LinkSpecProofs.vo Link/Frame.vo Link/Rx.vo Link/FrameProofs.vo gen/GenBitfields.vo
props/Props_C05.vio: props/Props_C05.v Base/Bytes.vio Base/Bits.vio Link/LLHeader.vio Link/LLHeaderGen.vio Link/LinkSpec.vio Link/LinkSpecProofs.vio Link/Frame.vio Link/Rx.vio Link/FrameProofs.vio gen/GenBitfields.vio
props/Props_C05.vos props/Props_C05.vok props/Props_C05.required_vos: props/Props_C05.v Base/Bytes.vos Base/Bits.vos Link/LLHeader.vos Link/LLHeaderGen.vos Link/LinkSpec.vos Link/LinkSpecProofs.vos Link/Frame.vos Link/Rx.vos Link/FrameProofs.vos gen/GenBitfields.vos
props/Props_C06.vo props/Props_C06.glob props/Props_C06.v.beautified props/Props_C06.required_vo: props/Props_C06.v Base/Bytes.vo Link/LinkSpec.vo Link/LinkSpecProofs.vo Link/Frame.vo Link/Rx.vo Link/RxSpec.vo Link/RxProofs.vo Link/FrameProofs.vo
props/Props_C06.vio: props/Props_C06.v Base/Bytes.vio Link/LinkSpec.vio Link/LinkSpecProofs.vio Link/Frame.vio Link/Rx.vio Link/RxSpec.vio Link/RxProofs.vio Link/FrameProofs.vio
props/Props_C06.vos props/Props_C06.vok props/Props_C06.required_vos: props/Props_C06.v Base/Bytes.vos Link/LinkSpec.vos Link/LinkSpecProofs.vos Link/Frame.vos Link/Rx.vos Link/RxSpec.vos Link/RxProofs.vos Link/FrameProofs.vos
props/Props_C08.vo props/Props_C08.glob props/Props_C08.v.beautified props/Props_C08.required_vo: props/Props_C08.v Base/Bytes.vo Link/LinkSpec.vo Link/LinkSpecProofs.vo Link/Frame.vo Link/Rx.vo Link/TxSeq.vo Link/FrameProofs.vo Link/TxSeqProofs.vo gen/GenConsts.vo
props/Props_C08.vio: props/Props_C08.v Base/Bytes.vio Link/LinkSpec.vio Link/LinkSpecProofs.vio Link/Frame.vio Link/Rx.vio Link/TxSeq.vio Link/FrameProofs.vio Link/TxSeqProofs.vio gen/GenConsts.vio
props/Props_C08.vos props/Props_C08.vok props/Props_C08.required_vos: props/Props_C08.v Base/Bytes.vos Link/LinkSpec.vos Link/LinkSpecProofs.vos Link/Frame.vos Link/Rx.vos Link/TxSeq.vos Link/FrameProofs.vos Link/TxSeqProofs.vos gen/GenConsts.vos
props/Props_C09.vo props/Props_C09.glob props/Props_C09.v.beautified props/Props_C09.required_vo: props/Props_C09.v Base/Bytes.vo Link/LinkSpec.vo Link/LinkSpecProofs.vo Link/Frame.vo Link/Frag.vo Link/FrameProofs.vo Link/FragProofs.vo gen/GenConsts.vo
props/Props_C09.vio: props/Props_C09.v Base/Bytes.vio Link/LinkSpec.vio Link/LinkSpecProofs.vio Link/Frame.vio Link/Frag.vio Link/FrameProofs.vio Link/FragProofs.vio gen/GenConsts.vio
props/Props_C09.vos props/Props_C09.vok props/Props_C09.required_vos: props/Props_C09.v Base/Bytes.vos Link/LinkSpec.vos Link/LinkSpecProofs.vos Link/Frame.vos Link/Frag.vos Link/FrameProofs.vos Link/FragProofs.vos gen/GenConsts.vos
