(* Extraction of the CStruct / NVRAM sub-model (engine "cstruct") for the correspondence check.
   ExtrOcamlBasic only; numbers stay Coq's N / positive / nat datatypes. *)
From Coq Require Import NArith List.
From Coq Require Extraction ExtrOcamlBasic.
From ZB Require Import Base.Bytes Wire.CStruct Wire.Nvram.

Extraction Language OCaml.
Set Extraction KeepSingleton.
Extraction "../ocaml/gen/model_cstruct.ml"
  N.add N.mul N.div N.modulo N.of_nat N.to_nat
  size_align cs_padded cs_alignment cs_size cs_offsets wf valid cs_serialize cs_deserialize
  natural_layout_b natural_total_b
  zs_size zs_ser zs_deser
  addr_hdr_ty addr_rec_ty aps_entry_ty
  parse_addr_map serialize_addr_map parse_aps_keys serialize_aps_keys aps_entry_count
  ser_items nvram_read_bytes addr_map_read_layout aps_keys_read_layout.
