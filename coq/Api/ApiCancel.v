(* What a cancelled request ends with: CancelledError, at whatever point of its life it is cancelled (queued for the
   blocking lock, queued for the message lock, waiting for an acknowledgement, waiting for its response). *)
From Coq Require Import NArith List Bool Arith Lia.
From ZB Require Import Api.Api Api.ApiProofs.
Import ListNotations.
Open Scope N_scope.

Lemma get_blk_drop : forall s rid x, get (blk_drop s rid) x = get s x.
Proof. intros s rid x. unfold blk_drop. destruct (existsb _ _); reflexivity. Qed.
Lemma get_msg_drop : forall s rid x, get (msg_drop s rid) x = get s x.
Proof. intros s rid x. unfold msg_drop. destruct (existsb _ _); reflexivity. Qed.

Lemma finish_emits : forall s rid o r, get s rid = Some r -> In (OE rid o) (log (finish s rid o)).
Proof. intros s rid o r H. unfold finish. rewrite H. cbn [emit set_log log]. left. reflexivity. Qed.

Lemma rel_keeps_obs : forall s s' o, Rel s s' -> In o (log s) -> In o (log s').
Proof. intros s s' o (_ & (new & E & _) & _) H. rewrite E. apply in_or_app. right. exact H. Qed.

Theorem cancelled_request_ends_cancelled : forall s rid r,
  get s rid = Some r -> is_done r = false -> In (OE rid OCancelled) (log (step s (ECancel rid))).
Proof.
  intros s rid r Hg Hd. cbn [step]. unfold cancel. rewrite Hg. unfold is_done in Hd.
  destruct (r_phase r) eqn:P; try discriminate.
  - apply (finish_emits _ rid OCancelled r). rewrite get_blk_drop. exact Hg.
  - eapply rel_keeps_obs; [apply rel_settle|]. apply (finish_emits _ rid OCancelled r). rewrite get_msg_drop. exact Hg.
  - eapply rel_keeps_obs; [apply rel_settle|]. apply (finish_emits _ rid OCancelled r). exact Hg.
  - eapply rel_keeps_obs; [apply rel_settle|]. apply (finish_emits _ rid OCancelled r). exact Hg.
Qed.

(* ... and cancelling a request that has already ended changes nothing *)
Theorem cancel_after_the_end_is_void : forall s rid r, get s rid = Some r -> is_done r = true -> step s (ECancel rid) = s.
Proof.
  intros s rid r Hg Hd. cbn [step]. unfold cancel. rewrite Hg. unfold is_done in Hd.
  destruct (r_phase r); try discriminate. reflexivity.
Qed.
