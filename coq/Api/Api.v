(* MODEL of api.request / _send_frags / _send_to_uart / close / connection_lost together with uart.send
   and the ACK branch of data_received, as an event-driven state machine: each event is applied and the
   system is then run to quiescence the way asyncio does for these coroutines (FIFO lock hand-over,
   timers in deadline order).  All nondeterminism is in the event list. *)
From Coq Require Import NArith List Bool Arith.
From ZB Require Import gen.GenConsts.
Import ListNotations.
Open Scope N_scope.

Inductive outcome := ORsp | OTimeout | OCancelled | ORuntime.
Inductive fut := FPending | FGot | FCancelled.
Inductive phase :=
| PQBlock                      (* waiting for the blocking-request lock *)
| PQMsg                        (* waiting for the message (fragment run) lock *)
| PAwaitAck (k : nat) (deadline : N)   (* fragment k on the wire (or skipped), waiting for its ACK *)
| PAwaitRsp (deadline : N)     (* all fragments sent, waiting for the response *)
| PDone (o : outcome).

Record req := {
  r_id : nat; r_cls : N; r_blocking : bool; r_nfrags : nat; r_timeout : N;
  r_phase : phase; r_fut : fut
}.

Inductive obs :=
| OW (rid : nat) (k : nat) (seq : N)   (* data frame written *)
| OK (seq : N)                         (* ACK written for an incoming data frame *)
| OE (rid : nat) (o : outcome)         (* request ended *)
| OL                                   (* app.connection_lost *)
(* ghost observations (not visible from outside; they make the lock discipline part of the trace) *)
| GIssue (rid : nat) (blocking : bool) (nfrags : nat)
| GSkip (rid : nat) (k : nat)           (* fragment k not written: no transport (the send returns at once) *)
| GBlkAcq (rid : nat) | GBlkWait (rid : nat) | GBlkRel (rid : nat) | GBlkDrop (rid : nat)
| GMsgAcq (rid : nat) | GMsgWait (rid : nat) | GMsgRel (rid : nat) | GMsgDrop (rid : nat).

Record state := {
  now : N;
  reqs : list req;
  block_holder : option nat; block_q : list nat;
  msg_holder : option nat; msg_q : list nat;
  pack_seq : N;
  ack_owner : option nat;          (* whose ACK event the receive path sets; None before the first send *)
  uart_present : bool;             (* api._uart is not None *)
  transport_open : bool;           (* proto._transport is not None *)
  app_attached : bool;
  reset_in_progress : bool;
  rx_seq : N;                      (* harness convention: packet seq of the next incoming data frame *)
  msg_next : nat;                  (* ghost: index of the next fragment of the message run in progress *)
  tbl : list (nat * (bool * nat)); (* ghost: static attributes (blocking, nfrags) of every issued request *)
  log : list obs                   (* newest first *)
}.

Definition init : state :=
  {| now := 0; reqs := []; block_holder := None; block_q := []; msg_holder := None; msg_q := [];
     pack_seq := 0; ack_owner := None; uart_present := true; transport_open := true; app_attached := true;
     reset_in_progress := false; rx_seq := 0; msg_next := 0; tbl := []; log := [] |}.

Inductive event :=
| EIssue (rid : nat) (cls : N) (blocking : bool) (nfrags : nat) (timeout : N)
| EAck (n : N)
| ERsp (cls : N)
| EData
| ETick (dt : N)
| ECancel (rid : nat)
| EClose | ELost | EResetBegin | EResetEnd.

(* ---- record updates ---- *)
Definition set_log (s : state) (l : list obs) : state :=
  {| now := now s; reqs := reqs s; block_holder := block_holder s; block_q := block_q s; msg_holder := msg_holder s;
     msg_q := msg_q s; pack_seq := pack_seq s; ack_owner := ack_owner s; uart_present := uart_present s;
     transport_open := transport_open s; app_attached := app_attached s; reset_in_progress := reset_in_progress s;
     rx_seq := rx_seq s; msg_next := msg_next s; tbl := tbl s; log := l |}.
Definition emit (s : state) (o : obs) : state := set_log s (o :: log s).
Definition set_reqs (s : state) (rs : list req) : state :=
  {| now := now s; reqs := rs; block_holder := block_holder s; block_q := block_q s; msg_holder := msg_holder s;
     msg_q := msg_q s; pack_seq := pack_seq s; ack_owner := ack_owner s; uart_present := uart_present s;
     transport_open := transport_open s; app_attached := app_attached s; reset_in_progress := reset_in_progress s;
     rx_seq := rx_seq s; msg_next := msg_next s; tbl := tbl s; log := log s |}.
Definition set_block (s : state) (h : option nat) (q : list nat) : state :=
  {| now := now s; reqs := reqs s; block_holder := h; block_q := q; msg_holder := msg_holder s;
     msg_q := msg_q s; pack_seq := pack_seq s; ack_owner := ack_owner s; uart_present := uart_present s;
     transport_open := transport_open s; app_attached := app_attached s; reset_in_progress := reset_in_progress s;
     rx_seq := rx_seq s; msg_next := msg_next s; tbl := tbl s; log := log s |}.
Definition set_msg (s : state) (h : option nat) (q : list nat) : state :=
  {| now := now s; reqs := reqs s; block_holder := block_holder s; block_q := block_q s; msg_holder := h;
     msg_q := q; pack_seq := pack_seq s; ack_owner := ack_owner s; uart_present := uart_present s;
     transport_open := transport_open s; app_attached := app_attached s; reset_in_progress := reset_in_progress s;
     rx_seq := rx_seq s; msg_next := msg_next s; tbl := tbl s; log := log s |}.
Definition set_link (s : state) (ps : N) (ao : option nat) (up tr app rst : bool) (rx : N) (t : N) : state :=
  {| now := t; reqs := reqs s; block_holder := block_holder s; block_q := block_q s; msg_holder := msg_holder s;
     msg_q := msg_q s; pack_seq := ps; ack_owner := ao; uart_present := up;
     transport_open := tr; app_attached := app; reset_in_progress := rst;
     rx_seq := rx; msg_next := msg_next s; tbl := tbl s; log := log s |}.

Definition get (s : state) (rid : nat) : option req := find (fun r => (r_id r =? rid)%nat) (reqs s).
Definition upd_req (r : req) (p : phase) (f : fut) : req :=
  {| r_id := r_id r; r_cls := r_cls r; r_blocking := r_blocking r; r_nfrags := r_nfrags r; r_timeout := r_timeout r;
     r_phase := p; r_fut := f |}.
Definition put (s : state) (r' : req) : state :=
  set_reqs s (map (fun r => if (r_id r =? r_id r')%nat then r' else r) (reqs s)).
Definition set_phase (s : state) (rid : nat) (p : phase) : state :=
  match get s rid with Some r => put s (upd_req r p (r_fut r)) | None => s end.
Definition set_fut (s : state) (rid : nat) (f : fut) : state :=
  match get s rid with Some r => put s (upd_req r (r_phase r) f) | None => s end.

Definition next_seq (s : N) : N := s mod 3 + 1.
Definition is_done (r : req) : bool := match r_phase r with PDone _ => true | _ => false end.

(* ---- ghost-field updates ---- *)
Definition set_ghost (s : state) (mn : nat) (tb : list (nat * (bool * nat))) : state :=
  {| now := now s; reqs := reqs s; block_holder := block_holder s; block_q := block_q s; msg_holder := msg_holder s;
     msg_q := msg_q s; pack_seq := pack_seq s; ack_owner := ack_owner s; uart_present := uart_present s;
     transport_open := transport_open s; app_attached := app_attached s; reset_in_progress := reset_in_progress s;
     rx_seq := rx_seq s; msg_next := mn; tbl := tb; log := log s |}.

Definition lookup (s : state) (rid : nat) : option (bool * nat) :=
  match find (fun e => (fst e =? rid)%nat) (tbl s) with Some e => Some (snd e) | None => None end.
Definition holds_msg (s : state) (rid : nat) : bool := match msg_holder s with Some h => (h =? rid)%nat | None => false end.
Definition holds_blk (s : state) (rid : nat) : bool := match block_holder s with Some h => (h =? rid)%nat | None => false end.
Definition remove (x : nat) (l : list nat) : list nat := filter (fun y => negb (y =? x)%nat) l.

(* ---- lock primitives (asyncio.Lock, FIFO): every state change is paired with its ghost observation ---- *)
Definition blk_try (s : state) (rid : nat) : state * bool :=
  match block_holder s, block_q s with
  | None, [] => (emit (set_block s (Some rid) []) (GBlkAcq rid), true)
  | _, _ => (emit (set_block s (block_holder s) (block_q s ++ [rid])) (GBlkWait rid), false)
  end.
Definition blk_rel (s : state) (rid : nat) : state * option nat :=
  if holds_blk s rid then
    match block_q s with
    | [] => (emit (set_block s None []) (GBlkRel rid), None)
    | n :: q => (emit (set_block s (Some n) q) (GBlkRel rid), Some n)
    end
  else (s, None).
Definition blk_drop (s : state) (rid : nat) : state :=
  if existsb (fun x => (x =? rid)%nat) (block_q s)
  then emit (set_block s (block_holder s) (remove rid (block_q s))) (GBlkDrop rid) else s.

Definition msg_try (s : state) (rid : nat) : state * bool :=
  match msg_holder s, msg_q s with
  | None, [] => (emit (set_ghost (set_msg s (Some rid) []) 0 (tbl s)) (GMsgAcq rid), true)
  | _, _ => (emit (set_msg s (msg_holder s) (msg_q s ++ [rid])) (GMsgWait rid), false)
  end.
Definition msg_rel (s : state) (rid : nat) : state * option nat :=
  if holds_msg s rid then
    match msg_q s with
    | [] => (emit (set_msg s None []) (GMsgRel rid), None)
    | n :: q => (emit (set_ghost (set_msg s (Some n) q) 0 (tbl s)) (GMsgRel rid), Some n)
    end
  else (s, None).
Definition msg_drop (s : state) (rid : nat) : state :=
  if existsb (fun x => (x =? rid)%nat) (msg_q s)
  then emit (set_msg s (msg_holder s) (remove rid (msg_q s))) (GMsgDrop rid) else s.

(* uart.send for the next fragment of request rid.  The guard (rid holds the message lock, and the blocking lock
   if it is a blocking request, and has fragments left) always holds in the real system: it makes the lock
   discipline explicit so that it can be proved from the model's own text. *)
Definition may_write (s : state) (rid : nat) : bool :=
  match lookup s rid with
  | Some (blocking, nfrags) => holds_msg s rid && (negb blocking || holds_blk s rid) && (msg_next s <? nfrags)%nat
  | None => false
  end.

Definition do_write (s : state) (rid : nat) : state :=
  let k := msg_next s in
  if transport_open s then
    let s1 := emit (set_ghost s (S k) (tbl s)) (OW rid k (pack_seq s)) in
    let s2 := set_link s1 (pack_seq s1) (Some rid) (uart_present s1) (transport_open s1) (app_attached s1)
                       (reset_in_progress s1) (rx_seq s1) (now s1) in
    set_phase s2 rid (PAwaitAck k (now s + ack_timeout_ms))
  else set_phase (emit (set_ghost s (S k) (tbl s)) (GSkip rid k)) rid (PAwaitAck k (now s))   (* nothing written *)
.

(* the request ends: its future is cancelled by `finally` if still pending *)
Definition finish (s : state) (rid : nat) (o : outcome) : state :=
  match get s rid with
  | Some r => emit (put s (upd_req r (PDone o) (match r_fut r with FPending => FCancelled | f => f end))) (OE rid o)
  | None => s
  end.

(* work items: (rid, tag): 0 = enter message stage, 1 = start next fragment, 2 = fragment done,
   3 = release message lock, 4 = release blocking lock *)
Definition act (s : state) (rid tag : nat) : state * list (nat * nat) * list (nat * nat) :=
  (* returns (state, items to run next (front), items to run after the current task's continuation (back)) *)
  match get s rid with
  | None => (s, [], [])
  | Some r =>
    match tag with
    | 0%nat => let '(s1, got) := msg_try s rid in
               if got then (s1, [(rid, 1%nat)], []) else (set_phase s1 rid PQMsg, [], [])
    | 1%nat => if negb (uart_present s) then (finish s rid ORuntime, [(rid, 3%nat); (rid, 4%nat)], [])
               else if may_write s rid then
                 let s1 := do_write s rid in
                 if transport_open s then (s1, [], []) else (s1, [(rid, 2%nat)], [])
               else (s, [], [])
    | 2%nat => match r_phase r with
               | PAwaitAck k _ =>
                   if (S k <? r_nfrags r)%nat then (s, [(rid, 1%nat)], [])
                   else
                     let '(s0, nxt) := msg_rel s rid in
                     let back := match nxt with Some n => [(n, 1%nat)] | None => [] end in
                     match r_fut r with
                     | FGot => (finish s0 rid ORsp, [(rid, 4%nat)], back)
                     | FCancelled => (finish s0 rid OCancelled, [(rid, 4%nat)], back)
                     | FPending => (set_phase s0 rid (PAwaitRsp (now s + r_timeout r)), [], back)
                     end
               | _ => (s, [], [])
               end
    | 3%nat => let '(s0, nxt) := msg_rel s rid in
               (s0, [], match nxt with Some n => [(n, 1%nat)] | None => [] end)
    | _ => let '(s0, nxt) := blk_rel s rid in
           (s0, [], match nxt with Some n => [(n, 0%nat)] | None => [] end)
    end
  end.

Fixpoint run (fuel : nat) (s : state) (work : list (nat * nat)) : state :=
  match fuel with
  | O => s
  | S fuel =>
      match work with
      | [] => s
      | (rid, tag) :: rest => let '(s1, front, back) := act s rid tag in run fuel s1 (front ++ rest ++ back)
      end
  end.

(* Fuel: a potential that every scheduler step decreases (proved in ApiLive.v: the work list is always drained).
   An item's weight bounds the items its request can still produce in this run; a queued request will be handed
   an item of weight 3 (message queue) or 4 (blocking queue) when its lock is released. *)
Definition weight (it : nat * nat) : nat :=
  match snd it with 0%nat => 4 | 1%nat => 3 | 2%nat => 4 | 3%nat => 1 | _ => 1 end%nat.
Definition potential (s : state) (work : list (nat * nat)) : nat :=
  (list_sum (map weight work) + 3 * length (msg_q s) + 4 * length (block_q s))%nat.
Definition settle (s : state) (work : list (nat * nat)) : state := run (S (potential s work)) s work.

(* ---- events ---- *)
Definition issue (s : state) (rid : nat) (cls : N) (blocking : bool) (nfrags : nat) (timeout : N) : state :=
  let r0 := {| r_id := rid; r_cls := cls; r_blocking := blocking; r_nfrags := nfrags; r_timeout := timeout;
               r_phase := PQMsg; r_fut := FPending |} in
  if negb (uart_present s) then
    emit (set_reqs s (reqs s ++ [upd_req r0 (PDone ORuntime) FCancelled])) (OE rid ORuntime)
  else
    let s1 := emit (set_ghost (set_reqs s (reqs s ++ [r0])) (msg_next s) (tbl s ++ [(rid, (blocking, nfrags))])) (GIssue rid blocking nfrags) in
    if blocking then
      let '(s2, got) := blk_try s1 rid in
      if got then settle s2 [(rid, 0%nat)] else set_phase s2 rid PQBlock
    else settle s1 [(rid, 0%nat)].

Definition rx_ack (s : state) (n : N) : state :=
  if n =? pack_seq s then
    let s1 := set_link s (next_seq (pack_seq s)) (ack_owner s) (uart_present s) (transport_open s) (app_attached s)
                       (reset_in_progress s) (rx_seq s) (now s) in
    match ack_owner s with
    | Some rid => match get s1 rid with
                  | Some r => match r_phase r with
                              | PAwaitAck _ _ => settle s1 [(rid, 2%nat)]
                              | _ => s1
                              end
                  | None => s1
                  end
    | None => s1
    end
  else s.

(* oldest registered pending waiter of class cls *)
Definition oldest_waiter (s : state) (cls : N) : option req :=
  find (fun r => (r_cls r =? cls) && negb (is_done r) && match r_fut r with FPending => true | _ => false end) (reqs s).

Definition incoming_data (s : state) : state :=
  let q := next_seq (rx_seq s) in
  let s1 := set_link s (pack_seq s) (ack_owner s) (uart_present s) (transport_open s) (app_attached s)
                     (reset_in_progress s) q (now s) in
  if transport_open s then emit s1 (OK q) else s1.

Definition rx_rsp (s : state) (cls : N) : state :=
  let s1 := incoming_data s in
  match oldest_waiter s1 cls with
  | None => s1
  | Some r =>
      let s2 := set_fut s1 (r_id r) FGot in
      match r_phase r with
      | PAwaitRsp _ => settle (finish s2 (r_id r) ORsp) [(r_id r, 4%nat)]
      | _ => s2
      end
  end.

(* earliest deadline among requests in a waiting phase *)
Definition deadline_of (r : req) : option N :=
  match r_phase r with PAwaitAck _ d => Some d | PAwaitRsp d => Some d | _ => None end.
Definition earliest (s : state) : option req :=
  fold_left (fun acc r => match deadline_of r, acc with
                          | Some d, Some a => match deadline_of a with Some da => if d <? da then Some r else acc | None => Some r end
                          | Some d, None => Some r
                          | None, _ => acc end) (reqs s) None.

Definition set_now (s : state) (t : N) : state :=
  set_link s (pack_seq s) (ack_owner s) (uart_present s) (transport_open s) (app_attached s) (reset_in_progress s) (rx_seq s) t.

Fixpoint tick_loop (fuel : nat) (s : state) (target : N) : state :=
  match fuel with
  | O => set_now s target
  | S fuel =>
      match earliest s with
      | Some r =>
          match deadline_of r with
          | Some d =>
              if d <=? target then
                let s1 := set_now s (N.max d (now s)) in
                match r_phase r with
                | PAwaitAck _ _ => tick_loop fuel (settle s1 [(r_id r, 2%nat)]) target
                | PAwaitRsp _ => tick_loop fuel (settle (finish s1 (r_id r) OTimeout) [(r_id r, 4%nat)]) target
                | _ => set_now s target
                end
              else set_now s target
          | None => set_now s target
          end
      | None => set_now s target
      end
  end.
Definition tick (s : state) (dt : N) : state := tick_loop (4 + 4 * length (reqs s)) s (now s + dt).

Definition cancel (s : state) (rid : nat) : state :=
  match get s rid with
  | None => s
  | Some r =>
      match r_phase r with
      | PDone _ => s
      | PQBlock => finish (blk_drop s rid) rid OCancelled
      | PQMsg => settle (finish (msg_drop s rid) rid OCancelled) [(rid, 4%nat)]
      | PAwaitAck _ _ => settle (finish s rid OCancelled) [(rid, 3%nat); (rid, 4%nat)]
      | PAwaitRsp _ => settle (finish s rid OCancelled) [(rid, 4%nat)]
      end
  end.

(* close(): unless a reset is in progress, detach the app and cancel every registered waiter; then close the uart *)
Definition cancel_waiters (s : state) : state :=
  let victims := filter (fun r => negb (is_done r) && match r_fut r with FPending => true | _ => false end) (reqs s) in
  let s1 := fold_left (fun acc r => set_fut acc (r_id r) FCancelled) victims s in
  (* requests waiting for their response end now (CancelledError), in registration order *)
  fold_left (fun acc r => match r_phase r with
                          | PAwaitRsp _ => settle (finish acc (r_id r) OCancelled) [(r_id r, 4%nat)]
                          | _ => acc end) victims s1.

(* no reset in progress: the application is detached *)
Definition detach_app (s : state) : state :=
  set_link s (pack_seq s) (ack_owner s) (uart_present s) (transport_open s) false false (rx_seq s) (now s).

Definition close (s : state) : state :=
  (* close() is synchronous: listeners are cancelled and the uart is closed before any woken task runs *)
  let s0 := if uart_present s
            then set_link s 0 (ack_owner s) false false (app_attached s) (reset_in_progress s) (rx_seq s) (now s)
            else s in
  if reset_in_progress s0 then s0
  else cancel_waiters (detach_app s0).

Definition lost (s : state) : state :=
  let s1 := set_link s (pack_seq s) (ack_owner s) false (transport_open s) (app_attached s) (reset_in_progress s) (rx_seq s) (now s) in
  if app_attached s && negb (reset_in_progress s) then emit s1 OL else s1.

Definition step (s : state) (e : event) : state :=
  match e with
  | EIssue rid cls b n t => match get s rid with Some _ => s | None => issue s rid cls b n t end
  | EAck n => rx_ack s n
  | ERsp cls => rx_rsp s cls
  | EData => incoming_data s
  | ETick dt => tick s dt
  | ECancel rid => cancel s rid
  | EClose => close s
  | ELost => lost s
  | EResetBegin => set_link s (pack_seq s) (ack_owner s) (uart_present s) (transport_open s) (app_attached s) true (rx_seq s) (now s)
  | EResetEnd => set_link s (pack_seq s) (ack_owner s) (uart_present s) (transport_open s) (app_attached s) false (rx_seq s) (now s)
  end.

Definition run_events (evs : list event) : state := fold_left step evs init.

(* observations produced by the last event only *)
Definition step_obs (s : state) (e : event) : state * list obs :=
  let s' := step s e in (s', rev (firstn (length (log s') - length (log s)) (log s'))).
