(* PROOFS for C17: matching is field-wise wildcarding (a preorder); de-duplication of a pattern collection
   neither loses nor adds a matched command; a listener reacts at most once per command. *)
From Coq Require Import NArith Arith List Bool Lia.
From ZB Require Import Api.Match.
Import ListNotations.
Open Scope N_scope.

(* ---- one parameter ------------------------------------------------------------------------------- *)
Lemma field_ok_spec : forall e a, field_ok e a = true <-> e = None \/ e = a.
Proof.
  intros [v|] [w|]; cbn [field_ok].
  - rewrite N.eqb_eq. split; [intros ->; right; reflexivity|intros [H|H]; [discriminate|congruence]].
  - split; [discriminate|intros [H|H]; discriminate].
  - split; [left; reflexivity|reflexivity].
  - split; [left; reflexivity|reflexivity].
Qed.

Lemma field_ok_refl : forall e, field_ok e e = true.
Proof. intros e. apply field_ok_spec. right. reflexivity. Qed.

Lemma field_ok_trans : forall e a b, field_ok e a = true -> field_ok a b = true -> field_ok e b = true.
Proof.
  intros e a b H1 H2. apply field_ok_spec in H1. apply field_ok_spec in H2. apply field_ok_spec.
  destruct H1 as [->| ->]; [left; reflexivity|exact H2].
Qed.

(* ---- parameter lists ----------------------------------------------------------------------------- *)
Lemma fields_match_cons : forall e es x xs,
  fields_match (e :: es) (x :: xs) = field_ok e x && fields_match es xs.
Proof. intros. cbn [fields_match]. destruct (field_ok e x); reflexivity. Qed.

Lemma fields_match_spec : forall es xs, length es = length xs ->
  (fields_match es xs = true <-> forall i, nth i es None = None \/ nth i es None = nth i xs None).
Proof.
  induction es as [|e es IH]; intros [|x xs] L; try discriminate L.
  - split; [intros _ i; left; destruct i; reflexivity|reflexivity].
  - rewrite fields_match_cons, andb_true_iff, field_ok_spec, (IH xs) by (cbn in L; congruence). split.
    + intros [H0 HS] [|i]; [exact H0|exact (HS i)].
    + intros H. split; [exact (H 0%nat)|intros i; exact (H (S i))].
Qed.

Lemma fields_match_refl : forall es, fields_match es es = true.
Proof. induction es as [|e es IH]; [reflexivity|]. rewrite fields_match_cons, field_ok_refl, IH. reflexivity. Qed.

Lemma fields_match_trans : forall es xs ys, length es = length xs ->
  fields_match es xs = true -> fields_match xs ys = true -> fields_match es ys = true.
Proof.
  induction es as [|e es IH]; intros [|x xs] ys L H1 H2; try discriminate L; [reflexivity|].
  destruct ys as [|y ys]; [reflexivity|].
  rewrite fields_match_cons, andb_true_iff in *. destruct H1 as [A1 B1]. destruct H2 as [A2 B2].
  split; [exact (field_ok_trans _ _ _ A1 A2)|]. apply (IH xs ys); [cbn in L; congruence|exact B1|exact B2].
Qed.

(* ---- patterns ------------------------------------------------------------------------------------ *)
Lemma pmatches_iff : forall p q, pmatches p q = true <-> fst p = fst q /\ fields_match (snd p) (snd q) = true.
Proof.
  intros p q. unfold pmatches. destruct (N.eqb_spec (fst p) (fst q)) as [E|E].
  - split; [intros H; split; [exact E|exact H]|intros [_ H]; exact H].
  - split; [discriminate|intros [H _]; contradiction].
Qed.

Lemma pmatches_type : forall p q, pmatches p q = true -> fst p = fst q.
Proof. intros p q H. apply pmatches_iff in H. exact (proj1 H). Qed.

(* matching is exactly field-wise wildcarding (instances of one command class have the same schema, hence
   parameter lists of equal length) *)
Theorem pmatches_spec : forall p q, length (snd p) = length (snd q) ->
  (pmatches p q = true <->
   fst p = fst q /\ forall i, nth i (snd p) None = None \/ nth i (snd p) None = nth i (snd q) None).
Proof. intros p q L. rewrite pmatches_iff, (fields_match_spec _ _ L). reflexivity. Qed.

Theorem matches_spec : forall (p : pat) (c : cmd), length (snd p) = length (snd c) ->
  (matches p c = true <->
   fst p = fst c /\
   forall i, (i < length (snd c))%nat -> nth i (snd p) None = None \/ nth i (snd p) None = Some (nth i (snd c) 0)).
Proof.
  intros p c L. unfold matches. rewrite pmatches_spec by (cbn [pat_of_cmd snd]; rewrite map_length; exact L).
  cbn [pat_of_cmd fst snd]. split; intros [T H]; (split; [exact T|]).
  - intros i Hi. destruct (H i) as [A|A]; [left; exact A|right]. rewrite A.
    rewrite (nth_indep _ None (Some 0)) by (rewrite map_length; exact Hi). apply map_nth.
  - intros i. destruct (Nat.lt_ge_cases i (length (snd c))) as [Hi|Hi].
    + destruct (H i Hi) as [A|A]; [left; exact A|right]. rewrite A.
      rewrite (nth_indep _ None (Some 0)) by (rewrite map_length; exact Hi). symmetry. apply map_nth.
    + left. apply nth_overflow. rewrite L. exact Hi.
Qed.

Theorem pmatches_refl : forall p, pmatches p p = true.
Proof. intros p. apply pmatches_iff. split; [reflexivity|apply fields_match_refl]. Qed.

(* every fully bound command is matched by itself taken as a pattern *)
Theorem matches_refl : forall c : cmd, matches (pat_of_cmd c) c = true.
Proof. intros c. apply pmatches_refl. Qed.

Theorem pmatches_trans : forall p q r, length (snd p) = length (snd q) ->
  pmatches p q = true -> pmatches q r = true -> pmatches p r = true.
Proof.
  intros p q r L H1 H2. apply pmatches_iff in H1. apply pmatches_iff in H2. apply pmatches_iff.
  destruct H1 as [T1 F1]. destruct H2 as [T2 F2]. split; [congruence|exact (fields_match_trans _ _ _ L F1 F2)].
Qed.

Theorem matches_trans : forall (p q : pat) (c : cmd), length (snd p) = length (snd q) ->
  pmatches p q = true -> matches q c = true -> matches p c = true.
Proof. intros p q c L H1 H2. exact (pmatches_trans p q (pat_of_cmd c) L H1 H2). Qed.

(* without the schema (equal length) side condition transitivity fails for the zip-truncating loop *)
Example pmatches_trans_needs_schema :
  pmatches (1, [Some 1; Some 2]) (1, [Some 1]) = true /\ pmatches (1, [Some 1]) (1, [Some 1; Some 3]) = true /\
  pmatches (1, [Some 1; Some 2]) (1, [Some 1; Some 3]) = false.
Proof. repeat split. Qed.

(* ---- schemas: every instance of a command class has one slot per schema parameter ------------------ *)
Definition wf (arity : N -> nat) (p : pat) : Prop := length (snd p) = arity (fst p).

Lemma wf_same_length : forall ar p q, wf ar p -> wf ar q -> pmatches p q = true -> length (snd p) = length (snd q).
Proof. intros ar p q Wp Wq H. apply pmatches_type in H. unfold wf in *. congruence. Qed.

(* ---- de-duplication ------------------------------------------------------------------------------ *)
Definition covered (l : list pat) (x : pat) : Prop := exists y, In y l /\ pmatches y x = true.

Lemma insert_in : forall c m x, In x (insert c m) -> x = c \/ In x m.
Proof.
  induction m as [|a m IH]; intros x H; cbn [insert] in H.
  - destruct H as [H|[]]. left. symmetry. exact H.
  - destruct (pmatches a c); [right; exact H|]. destruct (pmatches c a).
    + destruct H as [H|H]; [left; symmetry; exact H|right; right; exact H].
    + destruct H as [H|H]; [right; left; exact H|]. destruct (IH x H) as [E|E]; [left; exact E|right; right; exact E].
Qed.

Lemma insert_covers_new : forall c m, covered (insert c m) c.
Proof.
  induction m as [|a m IH]; cbn [insert].
  - exists c. split; [left; reflexivity|apply pmatches_refl].
  - destruct (pmatches a c) eqn:E1; [exists a; split; [left; reflexivity|exact E1]|].
    destruct (pmatches c a); [exists c; split; [left; reflexivity|apply pmatches_refl]|].
    destruct IH as (y & Hy & My). exists y. split; [right; exact Hy|exact My].
Qed.

Lemma insert_covers_old : forall ar c m x, wf ar c -> Forall (wf ar) m -> covered m x -> covered (insert c m) x.
Proof.
  induction m as [|a m IH]; intros x Wc Wm (y & Hy & My); [destruct Hy|]. cbn [insert].
  destruct (pmatches a c); [exists y; split; [exact Hy|exact My]|].
  inversion Wm as [|a' m' Wa Wm' E]; subst a' m'.
  destruct (pmatches c a) eqn:E2.
  - destruct Hy as [->|Hy]; [|exists y; split; [right; exact Hy|exact My]].
    exists c. split; [left; reflexivity|].
    exact (pmatches_trans c y x (wf_same_length ar c y Wc Wa E2) E2 My).
  - destruct Hy as [->|Hy]; [exists y; split; [left; reflexivity|exact My]|].
    destruct (IH x Wc Wm' (ex_intro _ y (conj Hy My))) as (z & Hz & Mz). exists z. split; [right; exact Hz|exact Mz].
Qed.

Lemma insert_wf : forall ar c m, wf ar c -> Forall (wf ar) m -> Forall (wf ar) (insert c m).
Proof.
  intros ar c m Wc Wm. apply Forall_forall. intros x Hx. destruct (insert_in c m x Hx) as [->|H]; [exact Wc|].
  exact (proj1 (Forall_forall _ _) Wm x H).
Qed.

Lemma insert_nonempty : forall c m, insert c m <> [].
Proof. intros c [|a m]; cbn [insert]; [discriminate|]. destruct (pmatches a c); [discriminate|]. destruct (pmatches c a); discriminate. Qed.

Lemma insert_length : forall c m, (length (insert c m) <= S (length m))%nat.
Proof.
  induction m as [|a m IH]; cbn [insert]; [cbn; lia|]. destruct (pmatches a c); [cbn; lia|].
  destruct (pmatches c a); cbn [length]; lia.
Qed.

Lemma dedup_into_in : forall cs m x, In x (dedup_into m cs) -> In x m \/ In x cs.
Proof.
  induction cs as [|c cs IH]; intros m x H; cbn [dedup_into] in H; [left; exact H|].
  destruct (IH _ _ H) as [A|A]; [|right; right; exact A].
  destruct (insert_in c m x A) as [->|B]; [right; left; reflexivity|left; exact B].
Qed.

Lemma dedup_into_covers : forall ar cs m, Forall (wf ar) m -> Forall (wf ar) cs ->
  forall x, covered m x \/ In x cs -> covered (dedup_into m cs) x.
Proof.
  induction cs as [|c cs IH]; intros m Wm Wcs x H; cbn [dedup_into].
  - destruct H as [H|[]]. exact H.
  - inversion Wcs as [|c' cs' Wc Wcs' E]; subst c' cs'.
    apply IH; [exact (insert_wf ar c m Wc Wm)|exact Wcs'|].
    destruct H as [H|[<-|H]].
    + left. exact (insert_covers_old ar c m x Wc Wm H).
    + left. apply insert_covers_new.
    + right. exact H.
Qed.

Lemma dedup_into_nil : forall cs m, dedup_into m cs = [] -> m = [] /\ cs = [].
Proof.
  induction cs as [|c cs IH]; intros m H; cbn [dedup_into] in H; [split; [exact H|reflexivity]|].
  destruct (IH _ H) as [A _]. destruct (insert_nonempty c m A).
Qed.

Lemma dedup_into_length : forall cs m, (length (dedup_into m cs) <= length m + length cs)%nat.
Proof.
  induction cs as [|c cs IH]; intros m; cbn [dedup_into length]; [lia|].
  pose proof (IH (insert c m)). pose proof (insert_length c m). lia.
Qed.

(* the result only contains given patterns *)
Theorem dedup_subset : forall ps x, In x (dedup ps) -> In x ps.
Proof. intros ps x H. destruct (dedup_into_in ps [] x H) as [[]|A]. exact A. Qed.

(* every given pattern is matched by a pattern of the result *)
Theorem dedup_covers : forall ar ps x, Forall (wf ar) ps -> In x ps -> covered (dedup ps) x.
Proof. intros ar ps x W H. apply (dedup_into_covers ar ps [] (Forall_nil _) W). right. exact H. Qed.

Theorem dedup_length : forall ps, (length (dedup ps) <= length ps)%nat.
Proof. intros ps. exact (dedup_into_length ps []). Qed.

(* MAIN (C17): a listener built from any collection of patterns - redundant, overlapping, in any order - matches
   exactly what at least one of the given patterns matches.  c may itself be partial (a received command with
   absent optional parameters). *)
Theorem dedup_preserves_matching : forall ar ps c, Forall (wf ar) ps ->
  any_match (dedup ps) c = any_match ps c.
Proof.
  intros ar ps c W. apply eq_true_iff_eq. unfold any_match. rewrite !existsb_exists. split.
  - intros (y & Hy & My). exists y. split; [exact (dedup_subset ps y Hy)|exact My].
  - intros (p & Hp & Mp). destruct (dedup_covers ar ps p W Hp) as (y & Hy & My). exists y. split; [exact Hy|].
    pose proof (proj1 (Forall_forall _ _) W) as W'.
    exact (pmatches_trans y p c (wf_same_length ar y p (W' y (dedup_subset ps y Hy)) (W' p Hp) My) My Mp).
Qed.

Theorem dedup_nonempty : forall ps, ps <> [] -> dedup ps <> [].
Proof. intros ps H E. destruct (dedup_into_nil ps [] E) as [_ A]. exact (H A). Qed.

Theorem mk_patterns_spec : forall ps, (ps = [] -> mk_patterns ps = None) /\ (ps <> [] -> mk_patterns ps = Some (dedup ps)).
Proof.
  intros ps. unfold mk_patterns. split; [intros ->; reflexivity|]. intros H. pose proof (dedup_nonempty ps H).
  destruct (dedup ps); [contradiction|reflexivity].
Qed.

(* ---- listener: registered once per header, reacts at most once per command --------------------------- *)
Theorem headers_nodup : forall lps, NoDup (headers lps).
Proof. intros lps. apply NoDup_nodup. Qed.

Theorem headers_spec : forall lps h, In h (headers lps) <-> exists p, In p lps /\ fst p = h.
Proof.
  intros lps h. unfold headers. rewrite nodup_In, in_map_iff. split; intros (p & A & B); exists p; split; assumption.
Qed.

Lemma any_match_header : forall lps c, any_match lps c = true -> In (fst c) (headers lps).
Proof.
  intros lps c H. apply existsb_exists in H. destruct H as (p & Hp & Mp). apply headers_spec. exists p.
  split; [exact Hp|exact (pmatches_type _ _ Mp)].
Qed.

Theorem resolve_at_most_once : forall lps c, (resolve_count lps c <= 1)%nat.
Proof. intros lps c. unfold resolve_count. destruct (any_match lps c); lia. Qed.

Theorem listener_reacts_once_iff_some_pattern_matches : forall ar ps c, Forall (wf ar) ps ->
  resolve_count (dedup ps) c = (if existsb (fun p => pmatches p c) ps then 1 else 0)%nat.
Proof. intros ar ps c W. unfold resolve_count. rewrite (dedup_preserves_matching ar ps c W). reflexivity. Qed.

(* the literal lists of tests/test_utils.py style: a general pattern swallows the specific ones, in any order *)
Example dedup_chain :
  dedup [(7, [Some 1; Some 2]); (7, [Some 1; None]); (7, [None; None]); (8, [Some 1; None])] = [(7, [None; None]); (8, [Some 1; None])] /\
  dedup [(7, [None; None]); (7, [Some 1; Some 2]); (7, [Some 1; None])] = [(7, [None; None])].
Proof. split; reflexivity. Qed.
