(* Invariants of the API state machine (Api.v), by induction over event histories:
   lock discipline (C11 contiguity / stop-and-wait at message level, C14 blocking exclusion + FIFO),
   no waiter left behind (C13), refusal after close and loss reporting (C20). *)
From Coq Require Import NArith List Bool Lia Arith.
From ZB Require Import Api.Api gen.GenConsts.
Import ListNotations.
Open Scope N_scope.

(* ====================================================================== *)
(* 1. the lock discipline as a decidable predicate over the trace *)

Record abs := { a_bh : option nat; a_bq : list nat; a_mh : option nat; a_mq : list nat; a_next : nat;
                a_tbl : list (nat * (bool * nat)) }.
Definition abs0 : abs := {| a_bh := None; a_bq := []; a_mh := None; a_mq := []; a_next := 0%nat; a_tbl := [] |}.

Definition alookup (a : abs) (rid : nat) : option (bool * nat) :=
  match find (fun e => (fst e =? rid)%nat) (a_tbl a) with Some e => Some (snd e) | None => None end.
Definition is_some {A} (o : option A) : bool := match o with Some _ => true | None => false end.
Definition holds (o : option nat) (rid : nat) : bool := match o with Some h => (h =? rid)%nat | None => false end.
Definition nonnil {A} (l : list A) : bool := match l with [] => false | _ => true end.

(* a fragment (written, or skipped for lack of a transport) is legitimate only when its request holds the message
   lock, holds the blocking lock if it is a blocking request, and the fragment is the next one of the run *)
Definition frag_ok (a : abs) (rid k : nat) : bool :=
  match alookup a rid with
  | Some (blocking, nfrags) => holds (a_mh a) rid && (negb blocking || holds (a_bh a) rid) && (k =? a_next a)%nat && (k <? nfrags)%nat
  | None => false
  end.

Definition apply (o : obs) (a : abs) : option abs :=
  match o with
  | GIssue r b n => Some {| a_bh := a_bh a; a_bq := a_bq a; a_mh := a_mh a; a_mq := a_mq a; a_next := a_next a; a_tbl := a_tbl a ++ [(r, (b, n))] |}
  | GBlkAcq r => if negb (is_some (a_bh a)) && negb (nonnil (a_bq a))
                 then Some {| a_bh := Some r; a_bq := []; a_mh := a_mh a; a_mq := a_mq a; a_next := a_next a; a_tbl := a_tbl a |} else None
  | GBlkWait r => if is_some (a_bh a) || nonnil (a_bq a)      (* a request only waits when the lock is taken *)
                  then Some {| a_bh := a_bh a; a_bq := a_bq a ++ [r]; a_mh := a_mh a; a_mq := a_mq a; a_next := a_next a; a_tbl := a_tbl a |} else None
  | GBlkRel r => if holds (a_bh a) r then
                   match a_bq a with       (* FIFO hand-over *)
                   | [] => Some {| a_bh := None; a_bq := []; a_mh := a_mh a; a_mq := a_mq a; a_next := a_next a; a_tbl := a_tbl a |}
                   | n :: q => Some {| a_bh := Some n; a_bq := q; a_mh := a_mh a; a_mq := a_mq a; a_next := a_next a; a_tbl := a_tbl a |}
                   end else None
  | GBlkDrop r => Some {| a_bh := a_bh a; a_bq := remove r (a_bq a); a_mh := a_mh a; a_mq := a_mq a; a_next := a_next a; a_tbl := a_tbl a |}
  | GMsgAcq r => if negb (is_some (a_mh a)) && negb (nonnil (a_mq a))
                 then Some {| a_bh := a_bh a; a_bq := a_bq a; a_mh := Some r; a_mq := []; a_next := 0%nat; a_tbl := a_tbl a |} else None
  | GMsgWait r => if is_some (a_mh a) || nonnil (a_mq a)
                  then Some {| a_bh := a_bh a; a_bq := a_bq a; a_mh := a_mh a; a_mq := a_mq a ++ [r]; a_next := a_next a; a_tbl := a_tbl a |} else None
  | GMsgRel r => if holds (a_mh a) r then
                   match a_mq a with
                   | [] => Some {| a_bh := a_bh a; a_bq := a_bq a; a_mh := None; a_mq := []; a_next := a_next a; a_tbl := a_tbl a |}
                   | n :: q => Some {| a_bh := a_bh a; a_bq := a_bq a; a_mh := Some n; a_mq := q; a_next := 0%nat; a_tbl := a_tbl a |}
                   end else None
  | GMsgDrop r => Some {| a_bh := a_bh a; a_bq := a_bq a; a_mh := a_mh a; a_mq := remove r (a_mq a); a_next := a_next a; a_tbl := a_tbl a |}
  | OW r k _ | GSkip r k =>
      if frag_ok a r k
      then Some {| a_bh := a_bh a; a_bq := a_bq a; a_mh := a_mh a; a_mq := a_mq a; a_next := S k; a_tbl := a_tbl a |} else None
  | OK _ | OE _ _ | OL => Some a
  end.

Fixpoint scan (l : list obs) : option abs :=
  match l with
  | [] => Some abs0
  | o :: l' => match scan l' with Some a => apply o a | None => None end
  end.

Definition discipline (l : list obs) : bool := is_some (scan l).

(* ====================================================================== *)
(* 2. the invariant: the trace's abstract lock state is the state's *)

Definition abs_of (s : state) : abs :=
  {| a_bh := block_holder s; a_bq := block_q s; a_mh := msg_holder s; a_mq := msg_q s; a_next := msg_next s; a_tbl := tbl s |}.
Definition Inv (s : state) : Prop := scan (log s) = Some (abs_of s).

(* changes that touch neither the locks, the ghosts nor the log *)
Definition same (s s' : state) : Prop := abs_of s' = abs_of s /\ log s' = log s.

Lemma same_inv : forall s s', same s s' -> Inv s -> Inv s'.
Proof. intros s s' [A L] I. unfold Inv in *. rewrite A, L. exact I. Qed.

Lemma same_refl : forall s, same s s. Proof. intros; split; reflexivity. Qed.
Lemma same_trans : forall a b c, same a b -> same b c -> same a c.
Proof. intros a b c [A1 L1] [A2 L2]. split; congruence. Qed.

Lemma same_set_reqs : forall s rs, same s (set_reqs s rs). Proof. intros; split; reflexivity. Qed.
Lemma same_put : forall s r, same s (put s r). Proof. intros; apply same_set_reqs. Qed.
Lemma same_set_phase : forall s rid p, same s (set_phase s rid p).
Proof. intros. unfold set_phase. destruct (get s rid); [apply same_put|apply same_refl]. Qed.
Lemma same_set_fut : forall s rid f, same s (set_fut s rid f).
Proof. intros. unfold set_fut. destruct (get s rid); [apply same_put|apply same_refl]. Qed.
Lemma same_set_link : forall s a b c d e f g h, same s (set_link s a b c d e f g h). Proof. intros; split; reflexivity. Qed.

(* emitting an observation the scan ignores *)
Definition neutral (o : obs) : Prop := forall a, apply o a = Some a.
Lemma emit_neutral_inv : forall s o, neutral o -> Inv s -> Inv (emit s o).
Proof. intros s o N I. unfold Inv in *. cbn [emit set_log log scan]. rewrite I. rewrite N. reflexivity. Qed.
Lemma neutral_OE : forall r o, neutral (OE r o). Proof. intros r o a. reflexivity. Qed.
Lemma neutral_OK : forall q, neutral (OK q). Proof. intros q a. reflexivity. Qed.
Lemma neutral_OL : neutral OL. Proof. intros a. reflexivity. Qed.

Lemma finish_inv : forall s rid o, Inv s -> Inv (finish s rid o).
Proof.
  intros s rid o I. unfold finish. destruct (get s rid) as [r|]; [|exact I].
  apply emit_neutral_inv; [apply neutral_OE|]. exact (same_inv _ _ (same_put _ _) I).
Qed.

(* ---- lock primitives ---- *)
Lemma blk_try_inv : forall s rid, Inv s -> Inv (fst (blk_try s rid)).
Proof.
  intros s rid I. unfold blk_try, Inv in *.
  destruct (block_holder s) as [h|] eqn:Eh; [|destruct (block_q s) as [|n q] eqn:Eq];
    cbn [fst emit set_log set_block log scan]; rewrite I; unfold apply, abs_of; cbn [a_bh a_bq is_some nonnil negb andb orb];
    rewrite ?Eh, ?Eq; cbn [is_some nonnil negb andb orb]; reflexivity.
Qed.
Lemma blk_rel_inv : forall s rid, Inv s -> Inv (fst (blk_rel s rid)).
Proof.
  intros s rid I. unfold blk_rel. destruct (holds_blk s rid) eqn:H; [|exact I].
  unfold Inv in *. destruct (block_q s) as [|n q] eqn:Eq; cbn [fst emit set_log set_block log scan]; rewrite I;
    unfold apply, abs_of; cbn [a_bh a_bq]; unfold holds_blk in H; unfold holds; rewrite H, Eq; reflexivity.
Qed.
Lemma blk_drop_inv : forall s rid, Inv s -> Inv (blk_drop s rid).
Proof.
  intros s rid I. unfold blk_drop. destruct (existsb _ (block_q s)); [|exact I].
  unfold Inv in *. cbn [emit set_log set_block log scan]. rewrite I. reflexivity.
Qed.
Lemma msg_try_inv : forall s rid, Inv s -> Inv (fst (msg_try s rid)).
Proof.
  intros s rid I. unfold msg_try, Inv in *.
  destruct (msg_holder s) as [h|] eqn:Eh; [|destruct (msg_q s) as [|n q] eqn:Eq];
    cbn [fst emit set_log set_msg set_ghost log scan]; rewrite I; unfold apply, abs_of; cbn [a_mh a_mq is_some nonnil negb andb orb];
    rewrite ?Eh, ?Eq; cbn [is_some nonnil negb andb orb]; reflexivity.
Qed.
Lemma msg_rel_inv : forall s rid, Inv s -> Inv (fst (msg_rel s rid)).
Proof.
  intros s rid I. unfold msg_rel. destruct (holds_msg s rid) eqn:H; [|exact I].
  unfold Inv in *. destruct (msg_q s) as [|n q] eqn:Eq; cbn [fst emit set_log set_msg set_ghost log scan]; rewrite I;
    unfold apply, abs_of; cbn [a_mh a_mq]; unfold holds_msg in H; unfold holds; rewrite H, Eq; reflexivity.
Qed.
Lemma msg_drop_inv : forall s rid, Inv s -> Inv (msg_drop s rid).
Proof.
  intros s rid I. unfold msg_drop. destruct (existsb _ (msg_q s)); [|exact I].
  unfold Inv in *. cbn [emit set_log set_msg log scan]. rewrite I. reflexivity.
Qed.

(* a guarded write is a legitimate fragment of the trace *)
Lemma may_write_frag_ok : forall s rid, may_write s rid = true -> frag_ok (abs_of s) rid (msg_next s) = true.
Proof.
  intros s rid H. unfold may_write, frag_ok, alookup, lookup in *. cbn [abs_of a_tbl a_mh a_bh a_next].
  destruct (find _ (tbl s)) as [e|]; [|discriminate]. destruct (snd e) as [b n].
  unfold holds_msg, holds_blk, holds in *. rewrite Nat.eqb_refl, andb_true_r. exact H.
Qed.

Lemma do_write_inv : forall s rid, may_write s rid = true -> Inv s -> Inv (do_write s rid).
Proof.
  intros s rid G I. pose proof (may_write_frag_ok s rid G) as F. unfold do_write. destruct (transport_open s).
  - apply (same_inv _ _ (same_set_phase _ _ _)). apply (same_inv _ _ (same_set_link _ _ _ _ _ _ _ _ _)).
    unfold Inv in *. cbn [emit set_log set_ghost log scan]. rewrite I. cbn [apply]. rewrite F. reflexivity.
  - apply (same_inv _ _ (same_set_phase _ _ _)).
    unfold Inv in *. cbn [emit set_log set_ghost log scan]. rewrite I. cbn [apply]. rewrite F. reflexivity.
Qed.

(* ---- one work item, the scheduler, the events ---- *)
Lemma act_inv : forall s rid tag, Inv s -> Inv (fst (fst (act s rid tag))).
Proof.
  intros s rid tag I. unfold act. destruct (get s rid) as [r|]; [|exact I].
  destruct tag as [|[|[|[|t]]]].
  - pose proof (msg_try_inv s rid I) as M. destruct (msg_try s rid) as [s1 got]. cbn [fst] in M.
    destruct got; cbn [fst]; [exact M|]. exact (same_inv _ _ (same_set_phase _ _ _) M).
  - destruct (negb (uart_present s)); cbn [fst]; [apply finish_inv; exact I|].
    destruct (may_write s rid) eqn:G; [|exact I].
    destruct (transport_open s); cbn [fst]; apply do_write_inv; assumption.
  - destruct (r_phase r) as [| |k d| |]; try exact I.
    destruct (S k <? r_nfrags r)%nat; [exact I|].
    pose proof (msg_rel_inv s rid I) as M. destruct (msg_rel s rid) as [s0 nxt]. cbn [fst] in M.
    destruct (r_fut r); cbn [fst]; [exact (same_inv _ _ (same_set_phase _ _ _) M)|apply finish_inv; exact M|apply finish_inv; exact M].
  - pose proof (msg_rel_inv s rid I) as M. destruct (msg_rel s rid) as [s0 nxt]. exact M.
  - pose proof (blk_rel_inv s rid I) as M. destruct (blk_rel s rid) as [s0 nxt]. exact M.
Qed.

Lemma run_inv : forall fuel s work, Inv s -> Inv (run fuel s work).
Proof.
  induction fuel as [|fuel IH]; intros s work I; [exact I|]. cbn [run]. destruct work as [|[rid tag] rest]; [exact I|].
  pose proof (act_inv s rid tag I) as A. destruct (act s rid tag) as [[s1 front] back]. apply IH. exact A.
Qed.
Lemma settle_inv : forall s work, Inv s -> Inv (settle s work).
Proof. intros. apply run_inv. assumption. Qed.

Lemma issue_inv : forall s rid cls b n t, Inv s -> Inv (issue s rid cls b n t).
Proof.
  intros s rid cls b n t I. unfold issue. destruct (negb (uart_present s)).
  - apply emit_neutral_inv; [apply neutral_OE|]. exact (same_inv _ _ (same_set_reqs _ _) I).
  - set (s1 := emit _ (GIssue rid b n)).
    assert (I1 : Inv s1).
    { unfold s1, Inv in *. cbn [emit set_log set_ghost set_reqs log scan]. rewrite I. reflexivity. }
    destruct b.
    + pose proof (blk_try_inv s1 rid I1) as B. destruct (blk_try s1 rid) as [s2 got]. cbn [fst] in B.
      destruct got; [apply settle_inv; exact B|exact (same_inv _ _ (same_set_phase _ _ _) B)].
    + apply settle_inv. exact I1.
Qed.

Lemma incoming_data_inv : forall s, Inv s -> Inv (incoming_data s).
Proof.
  intros s I. unfold incoming_data. destruct (transport_open s).
  - apply emit_neutral_inv; [apply neutral_OK|]. exact (same_inv _ _ (same_set_link _ _ _ _ _ _ _ _ _) I).
  - exact (same_inv _ _ (same_set_link _ _ _ _ _ _ _ _ _) I).
Qed.

Lemma tick_loop_inv : forall fuel s target, Inv s -> Inv (tick_loop fuel s target).
Proof.
  induction fuel as [|fuel IH]; intros s target I; [exact (same_inv _ _ (same_set_link _ _ _ _ _ _ _ _ _) I)|].
  cbn [tick_loop]. destruct (earliest s) as [r|]; [|exact (same_inv _ _ (same_set_link _ _ _ _ _ _ _ _ _) I)].
  destruct (deadline_of r) as [d|]; [|exact (same_inv _ _ (same_set_link _ _ _ _ _ _ _ _ _) I)].
  destruct (d <=? target); [|exact (same_inv _ _ (same_set_link _ _ _ _ _ _ _ _ _) I)].
  assert (I1 : Inv (set_now s (N.max d (now s)))) by exact (same_inv _ _ (same_set_link _ _ _ _ _ _ _ _ _) I).
  destruct (r_phase r); try exact (same_inv _ _ (same_set_link _ _ _ _ _ _ _ _ _) I).
  - apply IH. apply settle_inv. exact I1.
  - apply IH. apply settle_inv. apply finish_inv. exact I1.
Qed.

Lemma fold_inv : forall (A : Type) (f : state -> A -> state) (l : list A) s,
  (forall s a, Inv s -> Inv (f s a)) -> Inv s -> Inv (fold_left f l s).
Proof. intros A f l. induction l as [|a l IH]; intros s H I; [exact I|]. cbn [fold_left]. apply IH; [exact H|apply H; exact I]. Qed.

Lemma cancel_waiters_inv : forall s, Inv s -> Inv (cancel_waiters s).
Proof.
  intros s I. unfold cancel_waiters. apply fold_inv.
  - intros s0 r I0. destruct (r_phase r); try exact I0. apply settle_inv. apply finish_inv. exact I0.
  - apply fold_inv; [|exact I]. intros s0 r I0. exact (same_inv _ _ (same_set_fut _ _ _) I0).
Qed.

Theorem step_inv : forall s e, Inv s -> Inv (step s e).
Proof.
  intros s e I. destruct e as [rid cls b n t|n|cls| |dt|rid| | | |]; cbn [step].
  - destruct (get s rid); [exact I|apply issue_inv; exact I].
  - unfold rx_ack. destruct (n =? pack_seq s); [|exact I].
    set (s1 := set_link _ _ _ _ _ _ _ _ _). assert (I1 : Inv s1) by exact (same_inv _ _ (same_set_link _ _ _ _ _ _ _ _ _) I).
    destruct (ack_owner s) as [o|]; [|exact I1]. destruct (get s1 o) as [r|]; [|exact I1].
    destruct (r_phase r); try exact I1. apply settle_inv. exact I1.
  - unfold rx_rsp. pose proof (incoming_data_inv s I) as I1. destruct (oldest_waiter (incoming_data s) cls) as [r|]; [|exact I1].
    assert (I2 : Inv (set_fut (incoming_data s) (r_id r) FGot)) by exact (same_inv _ _ (same_set_fut _ _ _) I1).
    destruct (r_phase r); try exact I2. apply settle_inv. apply finish_inv. exact I2.
  - apply incoming_data_inv. exact I.
  - apply tick_loop_inv. exact I.
  - unfold cancel. destruct (get s rid) as [r|]; [|exact I]. destruct (r_phase r).
    + apply finish_inv. apply blk_drop_inv. exact I.
    + apply settle_inv. apply finish_inv. apply msg_drop_inv. exact I.
    + apply settle_inv. apply finish_inv. exact I.
    + apply settle_inv. apply finish_inv. exact I.
    + exact I.
  - unfold close. set (s0 := if uart_present s then _ else s).
    assert (I0 : Inv s0) by (unfold s0; destruct (uart_present s); [exact (same_inv _ _ (same_set_link _ _ _ _ _ _ _ _ _) I)|exact I]).
    destruct (reset_in_progress s0); [exact I0|]. apply cancel_waiters_inv. exact (same_inv _ _ (same_set_link _ _ _ _ _ _ _ _ _) I0).
  - unfold lost. destruct (app_attached s && negb (reset_in_progress s)).
    + apply emit_neutral_inv; [apply neutral_OL|]. exact (same_inv _ _ (same_set_link _ _ _ _ _ _ _ _ _) I).
    + exact (same_inv _ _ (same_set_link _ _ _ _ _ _ _ _ _) I).
  - exact (same_inv _ _ (same_set_link _ _ _ _ _ _ _ _ _) I).
  - exact (same_inv _ _ (same_set_link _ _ _ _ _ _ _ _ _) I).
Qed.

Theorem reachable_inv : forall evs, Inv (run_events evs).
Proof. intros evs. unfold run_events. apply fold_inv; [exact step_inv|reflexivity]. Qed.

(* MAIN (C11, C14): for every event history the trace obeys the lock discipline *)
Theorem discipline_always : forall evs, discipline (log (run_events evs)) = true.
Proof. intros evs. unfold discipline. rewrite (reachable_inv evs). reflexivity. Qed.

(* what the discipline says at a data frame: read off the definition of scan *)
Theorem discipline_at_write : forall l1 l2 r k q, discipline (l2 ++ OW r k q :: l1) = true ->
  exists a, scan l1 = Some a /\ frag_ok a r k = true.
Proof.
  induction l2 as [|o l2 IH]; intros r k q H.
  - cbn [app] in H. unfold discipline in H. cbn [scan] in H. destruct (scan l1) as [a|]; [|discriminate].
    exists a. split; [reflexivity|]. cbn [apply] in H. destruct (frag_ok a r k); [reflexivity|discriminate].
  - apply (IH r k q). unfold discipline in *. cbn [app scan] in H. destruct (scan (l2 ++ OW r k q :: l1)); [reflexivity|discriminate].
Qed.

(* ====================================================================== *)
(* 3. further invariants: link flags only change by close/loss/reset; loss is reported by `lost` only;
      a finished request never has a pending future *)

Definition link_of (s : state) := (uart_present s, transport_open s, app_attached s, reset_in_progress s).
Definition good (r : req) : Prop := is_done r = true -> r_fut r <> FPending.
Definition Rel (s s' : state) : Prop :=
  link_of s' = link_of s /\
  (exists new, log s' = new ++ log s /\ Forall (fun o => o <> OL) new) /\
  (Forall good (reqs s) -> Forall good (reqs s')).

Lemma rel_refl : forall s, Rel s s.
Proof. intros s. split; [reflexivity|]. split; [exists []; split; [reflexivity|constructor]|auto]. Qed.
Lemma rel_trans : forall a b c, Rel a b -> Rel b c -> Rel a c.
Proof.
  intros a b c (L1 & (n1 & E1 & F1) & G1) (L2 & (n2 & E2 & F2) & G2). split; [congruence|]. split; [|auto].
  exists (n2 ++ n1). split; [rewrite E2, E1, app_assoc; reflexivity|apply Forall_app; split; assumption].
Qed.

Lemma rel_nolog : forall s s', link_of s' = link_of s -> log s' = log s -> (Forall good (reqs s) -> Forall good (reqs s')) -> Rel s s'.
Proof. intros s s' L E G. split; [exact L|]. split; [exists []; split; [exact E|constructor]|exact G]. Qed.

Lemma rel_emit : forall s o, o <> OL -> Rel s (emit s o).
Proof. intros s o H. split; [reflexivity|]. split; [exists [o]; split; [reflexivity|constructor; [exact H|constructor]]|auto]. Qed.
Lemma rel_set_block : forall s h q, Rel s (set_block s h q). Proof. intros. apply rel_nolog; auto. Qed.
Lemma rel_set_msg : forall s h q, Rel s (set_msg s h q). Proof. intros. apply rel_nolog; auto. Qed.
Lemma rel_set_ghost : forall s n t, Rel s (set_ghost s n t). Proof. intros. apply rel_nolog; auto. Qed.

Lemma put_good : forall s r', good r' -> Forall good (reqs s) -> Forall good (reqs (put s r')).
Proof.
  intros s r' G F. unfold put. cbn [set_reqs reqs]. rewrite Forall_forall in *. intros x Hx. apply in_map_iff in Hx.
  destruct Hx as (y & E & Hy). destruct (r_id y =? r_id r')%nat; [subst x; exact G|subst x; apply F; exact Hy].
Qed.
Lemma rel_put : forall s r', good r' -> Rel s (put s r').
Proof. intros s r' G. apply rel_nolog; [reflexivity|reflexivity|apply put_good; exact G]. Qed.

Definition live_phase (p : phase) : Prop := match p with PDone _ => False | _ => True end.
Lemma rel_set_phase : forall s rid p, live_phase p -> Rel s (set_phase s rid p).
Proof.
  intros s rid p Hp. unfold set_phase. destruct (get s rid) as [r|]; [|apply rel_refl]. apply rel_put.
  unfold good, is_done. cbn [upd_req r_phase]. destruct p; try discriminate. destruct Hp.
Qed.
Lemma rel_set_fut : forall s rid f, f <> FPending -> Rel s (set_fut s rid f).
Proof.
  intros s rid f Hf. unfold set_fut. destruct (get s rid) as [r|]; [|apply rel_refl]. apply rel_put.
  unfold good. cbn [upd_req r_fut]. intros _. exact Hf.
Qed.
Lemma rel_finish : forall s rid o, Rel s (finish s rid o).
Proof.
  intros s rid o. unfold finish. destruct (get s rid) as [r|]; [|apply rel_refl].
  eapply rel_trans; [apply rel_put|apply rel_emit; discriminate].
  unfold good. cbn [upd_req r_fut]. intros _. destruct (r_fut r); discriminate.
Qed.

Lemma rel_blk_try : forall s rid, Rel s (fst (blk_try s rid)).
Proof.
  intros. unfold blk_try. destruct (block_holder s); [|destruct (block_q s)]; cbn [fst];
    (eapply rel_trans; [apply rel_set_block|apply rel_emit; discriminate]).
Qed.
Lemma rel_blk_rel : forall s rid, Rel s (fst (blk_rel s rid)).
Proof.
  intros. unfold blk_rel. destruct (holds_blk s rid); [|apply rel_refl]. destruct (block_q s); cbn [fst];
    (eapply rel_trans; [apply rel_set_block|apply rel_emit; discriminate]).
Qed.
Lemma rel_blk_drop : forall s rid, Rel s (blk_drop s rid).
Proof.
  intros. unfold blk_drop. destruct (existsb _ _); [|apply rel_refl].
  eapply rel_trans; [apply rel_set_block|apply rel_emit; discriminate].
Qed.
Lemma rel_msg_try : forall s rid, Rel s (fst (msg_try s rid)).
Proof.
  intros. unfold msg_try. destruct (msg_holder s); [|destruct (msg_q s)]; cbn [fst].
  - eapply rel_trans; [apply rel_set_msg|apply rel_emit; discriminate].
  - eapply rel_trans; [apply rel_set_msg|]. eapply rel_trans; [apply rel_set_ghost|apply rel_emit; discriminate].
  - eapply rel_trans; [apply rel_set_msg|apply rel_emit; discriminate].
Qed.
Lemma rel_msg_rel : forall s rid, Rel s (fst (msg_rel s rid)).
Proof.
  intros. unfold msg_rel. destruct (holds_msg s rid); [|apply rel_refl]. destruct (msg_q s); cbn [fst].
  - eapply rel_trans; [apply rel_set_msg|apply rel_emit; discriminate].
  - eapply rel_trans; [apply rel_set_msg|]. eapply rel_trans; [apply rel_set_ghost|apply rel_emit; discriminate].
Qed.
Lemma rel_msg_drop : forall s rid, Rel s (msg_drop s rid).
Proof.
  intros. unfold msg_drop. destruct (existsb _ _); [|apply rel_refl].
  eapply rel_trans; [apply rel_set_msg|apply rel_emit; discriminate].
Qed.

Lemma rel_same_link : forall s ps ao rx t,
  Rel s (set_link s ps ao (uart_present s) (transport_open s) (app_attached s) (reset_in_progress s) rx t).
Proof. intros. apply rel_nolog; auto. Qed.

Lemma rel_emit' : forall s s' o, Rel s s' -> o <> OL -> Rel s (emit s' o).
Proof. intros s s' o R H. eapply rel_trans; [exact R|apply rel_emit; exact H]. Qed.
Lemma rel_phase' : forall s s' rid p, Rel s s' -> live_phase p -> Rel s (set_phase s' rid p).
Proof. intros s s' rid p R H. eapply rel_trans; [exact R|apply rel_set_phase; exact H]. Qed.
Lemma rel_link' : forall s s' ps ao rx t, Rel s s' ->
  Rel s (set_link s' ps ao (uart_present s') (transport_open s') (app_attached s') (reset_in_progress s') rx t).
Proof. intros. eapply rel_trans; [eassumption|apply rel_same_link]. Qed.

Lemma rel_do_write : forall s rid, Rel s (do_write s rid).
Proof.
  intros. unfold do_write. destruct (transport_open s) eqn:T.
  - apply rel_phase'; [|exact I]. apply rel_link'. apply rel_emit'; [apply rel_set_ghost|discriminate].
  - apply rel_phase'; [|exact I]. apply rel_emit'; [apply rel_set_ghost|discriminate].
Qed.

Lemma rel_act : forall s rid tag, Rel s (fst (fst (act s rid tag))).
Proof.
  intros s rid tag. unfold act. destruct (get s rid) as [r|]; [|apply rel_refl].
  destruct tag as [|[|[|[|t]]]].
  - pose proof (rel_msg_try s rid) as M. destruct (msg_try s rid) as [s1 got]. cbn [fst] in M.
    destruct got; cbn [fst]; [exact M|]. eapply rel_trans; [exact M|apply rel_set_phase; exact I].
  - destruct (negb (uart_present s)); cbn [fst]; [apply rel_finish|].
    destruct (may_write s rid); [|apply rel_refl]. destruct (transport_open s); cbn [fst]; apply rel_do_write.
  - destruct (r_phase r) as [| |k d| |]; try apply rel_refl.
    destruct (S k <? r_nfrags r)%nat; [apply rel_refl|].
    pose proof (rel_msg_rel s rid) as M. destruct (msg_rel s rid) as [s0 nxt]. cbn [fst] in M.
    destruct (r_fut r); cbn [fst]; (eapply rel_trans; [exact M|]); [apply rel_set_phase; exact I|apply rel_finish|apply rel_finish].
  - pose proof (rel_msg_rel s rid) as M. destruct (msg_rel s rid) as [s0 nxt]. exact M.
  - pose proof (rel_blk_rel s rid) as M. destruct (blk_rel s rid) as [s0 nxt]. exact M.
Qed.

Lemma rel_run : forall fuel s work, Rel s (run fuel s work).
Proof.
  induction fuel as [|fuel IH]; intros s work; [apply rel_refl|]. cbn [run]. destruct work as [|[rid tag] rest]; [apply rel_refl|].
  pose proof (rel_act s rid tag) as A. destruct (act s rid tag) as [[s1 front] back]. eapply rel_trans; [exact A|apply IH].
Qed.
Lemma rel_settle : forall s work, Rel s (settle s work). Proof. intros. apply rel_run. Qed.

Lemma rel_fold : forall (A : Type) (f : state -> A -> state) (l : list A) s, (forall s a, Rel s (f s a)) -> Rel s (fold_left f l s).
Proof.
  intros A f l. induction l as [|a l IH]; intros s H; [apply rel_refl|]. cbn [fold_left].
  eapply rel_trans; [apply H|apply IH; exact H].
Qed.

Lemma rel_cancel_waiters : forall s, Rel s (cancel_waiters s).
Proof.
  intros s. unfold cancel_waiters.
  set (victims := filter _ (reqs s)).
  set (s1 := fold_left (fun acc r => set_fut acc (r_id r) FCancelled) victims s).
  assert (R1 : Rel s s1).
  { unfold s1. apply rel_fold. intros s0 r. apply rel_set_fut. intros E. discriminate E. }
  eapply rel_trans; [exact R1|]. apply rel_fold. intros s0 r. destruct (r_phase r); try apply rel_refl.
  eapply rel_trans; [apply rel_finish|apply rel_settle].
Qed.

Lemma rel_tick_loop : forall fuel s target, Rel s (tick_loop fuel s target).
Proof.
  induction fuel as [|fuel IH]; intros s target; [apply rel_same_link|].
  cbn [tick_loop]. destruct (earliest s) as [r|]; [|apply rel_same_link].
  destruct (deadline_of r) as [d|]; [|apply rel_same_link]. destruct (d <=? target); [|apply rel_same_link].
  destruct (r_phase r); try apply rel_same_link.
  - eapply rel_trans; [apply rel_same_link|]. eapply rel_trans; [apply rel_settle|apply IH].
  - eapply rel_trans; [apply rel_same_link|]. eapply rel_trans; [apply rel_finish|]. eapply rel_trans; [apply rel_settle|apply IH].
Qed.

(* every event other than close / loss / reset begin / end is link-neutral, reports no loss, keeps `good` *)
Definition link_event (e : event) : bool := match e with EClose | ELost | EResetBegin | EResetEnd => true | _ => false end.

Lemma good_issue_append : forall s r, good r -> Forall good (reqs s) -> Forall good (reqs s ++ [r]).
Proof. intros s r G F. apply Forall_app. split; [exact F|constructor; [exact G|constructor]]. Qed.

Lemma rel_incoming_data : forall s, Rel s (incoming_data s).
Proof.
  intros s. unfold incoming_data. destruct (transport_open s) eqn:T.
  - apply rel_emit'; [|discriminate]. apply rel_nolog; [unfold link_of; cbn; rewrite T; reflexivity|reflexivity|auto].
  - apply rel_nolog; [unfold link_of; cbn; rewrite T; reflexivity|reflexivity|auto].
Qed.

Theorem rel_step : forall s e, link_event e = false -> Rel s (step s e).
Proof.
  intros s e He. destruct e as [rid cls b n t|n|cls| |dt|rid| | | |]; try discriminate; cbn [step].
  - destruct (get s rid); [apply rel_refl|]. unfold issue. destruct (negb (uart_present s)).
    + apply rel_emit'; [|discriminate]. apply rel_nolog; [reflexivity|reflexivity|].
      cbn [set_reqs reqs]. apply good_issue_append. unfold good. cbn. congruence.
    + set (s1 := emit _ (GIssue rid b n)).
      assert (R1 : Rel s s1).
      { unfold s1. apply rel_emit'; [|discriminate]. eapply rel_trans; [|apply rel_set_ghost].
        apply rel_nolog; [reflexivity|reflexivity|]. cbn [set_reqs reqs]. apply good_issue_append. unfold good. cbn. congruence. }
      destruct b.
      * pose proof (rel_blk_try s1 rid) as B. destruct (blk_try s1 rid) as [s2 got]. cbn [fst] in B.
        destruct got; (eapply rel_trans; [exact R1|]); (eapply rel_trans; [exact B|]); [apply rel_settle|apply rel_set_phase; exact I].
      * eapply rel_trans; [exact R1|apply rel_settle].
  - unfold rx_ack. destruct (n =? pack_seq s); [|apply rel_refl].
    destruct (ack_owner s) as [o|]; [|apply rel_same_link].
    set (s1 := set_link _ _ _ _ _ _ _ _ _). destruct (get s1 o) as [r|]; [|apply rel_same_link].
    destruct (r_phase r); try apply rel_same_link. eapply rel_trans; [apply rel_same_link|apply rel_settle].
  - unfold rx_rsp.
    pose proof (rel_incoming_data s) as R1.
    destruct (oldest_waiter (incoming_data s) cls) as [r|]; [|exact R1].
    assert (R2 : Rel s (set_fut (incoming_data s) (r_id r) FGot)) by (eapply rel_trans; [exact R1|apply rel_set_fut; intros E; discriminate E]).
    destruct (r_phase r); try exact R2. eapply rel_trans; [exact R2|]. eapply rel_trans; [apply rel_finish|apply rel_settle].
  - apply rel_incoming_data.
  - apply rel_tick_loop.
  - unfold cancel. destruct (get s rid) as [r|]; [|apply rel_refl]. destruct (r_phase r).
    + eapply rel_trans; [apply rel_blk_drop|apply rel_finish].
    + eapply rel_trans; [apply rel_msg_drop|]. eapply rel_trans; [apply rel_finish|apply rel_settle].
    + eapply rel_trans; [apply rel_finish|apply rel_settle].
    + eapply rel_trans; [apply rel_finish|apply rel_settle].
    + apply rel_refl.
Qed.

(* ====================================================================== *)
(* 4. C13: a finished request never has a pending waiter; late responses change nothing *)

Lemma good_link_events : forall s e, link_event e = true -> Forall good (reqs s) -> Forall good (reqs (step s e)).
Proof.
  intros s e He G. destruct e; try discriminate; cbn [step].
  - unfold close. set (s0 := if uart_present s then _ else s).
    assert (G0 : Forall good (reqs s0)) by (unfold s0; destruct (uart_present s); exact G).
    destruct (reset_in_progress s0); [exact G0|].
    destruct (rel_cancel_waiters (detach_app s0)) as (_ & _ & K). apply K. exact G0.
  - unfold lost. destruct (app_attached s && negb (reset_in_progress s)); exact G.
  - exact G.
  - exact G.
Qed.

Theorem finished_requests_have_no_pending_waiter : forall evs, Forall good (reqs (run_events evs)).
Proof.
  intros evs. unfold run_events.
  assert (H : forall s, Forall good (reqs s) -> Forall good (reqs (fold_left step evs s))).
  { induction evs as [|e evs IH]; intros s G; [exact G|]. cbn [fold_left]. apply IH.
    destruct (link_event e) eqn:L; [apply good_link_events; assumption|].
    destruct (rel_step s e L) as (_ & _ & K). apply K. exact G. }
  apply H. constructor.
Qed.

(* the number of registered one-shot waiters = requests that are not over and whose future is pending *)
Definition waiters (s : state) : list req :=
  filter (fun r => negb (is_done r) && match r_fut r with FPending => true | _ => false end) (reqs s).

(* a response for which no live waiter exists (e.g. it arrives after its request ended) has no effect on any request *)
Lemma find_none_all : forall (A : Type) (f : A -> bool) l, (forall x, In x l -> f x = false) -> find f l = None.
Proof.
  intros A f l. induction l as [|x l IH]; intros H; [reflexivity|]. cbn [find]. rewrite (H x (or_introl eq_refl)). apply IH.
  intros y Hy. apply H. right. exact Hy.
Qed.

Theorem late_response_discarded : forall s cls,
  (forall r, In r (waiters s) -> r_cls r <> cls) -> reqs (step s (ERsp cls)) = reqs s.
Proof.
  intros s cls H. cbn [step]. unfold rx_rsp.
  assert (E : oldest_waiter (incoming_data s) cls = None).
  { unfold oldest_waiter. assert (R : reqs (incoming_data s) = reqs s) by (unfold incoming_data; destruct (transport_open s); reflexivity).
    rewrite R. apply find_none_all. intros r Hr. destruct (r_cls r =? cls) eqn:C; [|reflexivity]. apply N.eqb_eq in C.
    destruct (negb (is_done r)) eqn:W1; [|reflexivity]. destruct (r_fut r) eqn:W2; try reflexivity.
    exfalso. apply (H r); [|exact C]. unfold waiters. apply filter_In. split; [exact Hr|]. rewrite W1, W2. reflexivity. }
  rewrite E. unfold incoming_data. destruct (transport_open s); reflexivity.
Qed.

(* a response resolves the OLDEST live waiter of its command: the follow-up request gets its own response *)
Theorem response_goes_to_oldest_live_waiter : forall s cls r, oldest_waiter s cls = Some r ->
  In r (waiters s) /\ r_cls r = cls.
Proof.
  intros s cls r H. unfold oldest_waiter in H. apply find_some in H. destruct H as [Hin Hc].
  apply andb_prop in Hc. destruct Hc as [Hc W2]. apply andb_prop in Hc. destruct Hc as [C W1].
  split; [|apply N.eqb_eq; exact C]. unfold waiters. apply filter_In. split; [exact Hin|]. rewrite W1, W2. reflexivity.
Qed.

(* ====================================================================== *)
(* 5. C20: refusal after close / loss; loss reported exactly by `lost` *)

Theorem close_makes_link_absent : forall s, uart_present (step s EClose) = false.
Proof.
  intros s. cbn [step]. unfold close. set (s0 := if uart_present s then _ else s).
  assert (U0 : uart_present s0 = false) by (unfold s0; destruct (uart_present s) eqn:U; [reflexivity|exact U]).
  destruct (reset_in_progress s0); [exact U0|].
  destruct (rel_cancel_waiters (detach_app s0)) as (L & _ & _).
  unfold link_of in L. injection L as L1 _ _ _. rewrite L1. exact U0.
Qed.

Theorem loss_makes_link_absent : forall s, uart_present (step s ELost) = false.
Proof. intros s. cbn [step]. unfold lost. destruct (app_attached s && negb (reset_in_progress s)); reflexivity. Qed.

(* the link stays absent under every event (nothing in this model reconnects) *)
Theorem link_stays_absent : forall s e, uart_present s = false -> uart_present (step s e) = false.
Proof.
  intros s e U. destruct (link_event e) eqn:L.
  - destruct e; try discriminate; [apply close_makes_link_absent|apply loss_makes_link_absent|exact U|exact U].
  - destruct (rel_step s e L) as (K & _ & _). unfold link_of in K. injection K as K1 _ _ _. rewrite K1. exact U.
Qed.

(* a request issued while the link is absent is refused in the same step: it ends at once with RuntimeError *)
Theorem issue_refused_when_link_absent : forall s rid cls b n t, uart_present s = false -> get s rid = None ->
  log (step s (EIssue rid cls b n t)) = OE rid ORuntime :: log s.
Proof. intros s rid cls b n t U G. cbn [step]. rewrite G. unfold issue. rewrite U. reflexivity. Qed.

Fixpoint count_lost (l : list obs) : nat := match l with [] => 0 | OL :: l' => S (count_lost l') | _ :: l' => count_lost l' end.
Lemma count_lost_app : forall a b, count_lost (a ++ b) = (count_lost a + count_lost b)%nat.
Proof. induction a as [|o a IH]; intros b; [reflexivity|]. destruct o; cbn [app count_lost]; rewrite IH; reflexivity. Qed.
Lemma count_lost_none : forall l, Forall (fun o => o <> OL) l -> count_lost l = 0%nat.
Proof. induction l as [|o l IH]; intros H; [reflexivity|]. inversion H; subst. destruct o; cbn [count_lost]; try (apply IH; assumption). congruence. Qed.

(* the application is told about a lost connection exactly when the connection is lost while an application is
   attached and no reset is in progress - once per loss - and by no other event *)
Theorem loss_reported_exactly : forall s e,
  count_lost (log (step s e)) =
  (count_lost (log s) + match e with ELost => if app_attached s && negb (reset_in_progress s) then 1 else 0 | _ => 0 end)%nat.
Proof.
  intros s e. destruct (link_event e) eqn:L.
  - destruct e; try discriminate; cbn [step].
    + unfold close. set (s0 := if uart_present s then _ else s).
      assert (E0 : log s0 = log s) by (unfold s0; destruct (uart_present s); reflexivity).
      destruct (reset_in_progress s0); [rewrite E0; lia|].
      destruct (rel_cancel_waiters (detach_app s0)) as (_ & (new & E & F) & _).
      rewrite E. unfold detach_app. cbn [set_link log]. rewrite count_lost_app, (count_lost_none _ F), E0. lia.
    + unfold lost. destruct (app_attached s && negb (reset_in_progress s)); cbn [emit set_log set_link log count_lost]; lia.
    + cbn [set_link log]. lia.
    + cbn [set_link log]. lia.
  - destruct (rel_step s e L) as (_ & (new & E & F) & _). rewrite E, count_lost_app, (count_lost_none _ F).
    destruct e; try discriminate; lia.
Qed.

(* close() detaches the application unless a reset is in progress: later losses are not reported *)
Theorem close_detaches_app : forall s, reset_in_progress s = false -> app_attached (step s EClose) = false.
Proof.
  intros s R. cbn [step]. unfold close. set (s0 := if uart_present s then _ else s).
  assert (R0 : reset_in_progress s0 = false) by (unfold s0; destruct (uart_present s); exact R).
  rewrite R0.
  destruct (rel_cancel_waiters (detach_app s0)) as (L & _ & _).
  unfold link_of in L. injection L as _ _ L3 _. rewrite L3. reflexivity.
Qed.
