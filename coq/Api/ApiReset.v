(* The "a reset is in progress" flag IS the event history: raised by the begin of a deliberate reset, lowered by its end,
   touched by nothing else - so "no loss is reported during a reset" is a statement about histories, not about a flag
   that happens to be set in a pre-state. *)
From Coq Require Import NArith List Bool Arith Lia.
From ZB Require Import Api.Api Api.ApiProofs.
Import ListNotations.
Open Scope N_scope.

Definition reset_flag_step (b : bool) (e : event) : bool :=
  match e with EResetBegin => true | EResetEnd => false | _ => b end.

Lemma step_reset_flag : forall s e, reset_in_progress (step s e) = reset_flag_step (reset_in_progress s) e.
Proof.
  intros s e. destruct (link_event e) eqn:L.
  - destruct e; try discriminate; cbn [step reset_flag_step].
    + unfold close. set (s0 := if uart_present s then _ else s).
      assert (R0 : reset_in_progress s0 = reset_in_progress s) by (unfold s0; destruct (uart_present s); reflexivity).
      destruct (reset_in_progress s0) eqn:E; [congruence|].
      destruct (rel_cancel_waiters (detach_app s0)) as (Lk & _ & _).
      unfold link_of in Lk. injection Lk as _ _ _ L4. rewrite L4. unfold detach_app. cbn [set_link reset_in_progress]. congruence.
    + unfold lost. destruct (app_attached s && negb (reset_in_progress s)); reflexivity.
    + reflexivity.
    + reflexivity.
  - destruct (rel_step s e L) as (K & _ & _). unfold link_of in K. injection K as _ _ _ K4. rewrite K4.
    destruct e; try discriminate; reflexivity.
Qed.

Theorem reset_flag_is_history_from : forall evs s,
  reset_in_progress (fold_left step evs s) = fold_left reset_flag_step evs (reset_in_progress s).
Proof.
  induction evs as [|e evs IH]; intros s; [reflexivity|]. cbn [fold_left]. rewrite IH, step_reset_flag. reflexivity.
Qed.

Theorem reset_flag_is_history : forall evs, reset_in_progress (run_events evs) = fold_left reset_flag_step evs false.
Proof. intros evs. unfold run_events. rewrite reset_flag_is_history_from. reflexivity. Qed.

(* a reset that has begun stays in progress until its end *)
Definition no_reset_end (evs : list event) : Prop := Forall (fun e => e <> EResetEnd) evs.

Lemma flag_stays_raised : forall evs, no_reset_end evs -> fold_left reset_flag_step evs true = true.
Proof.
  induction evs as [|e evs IH]; intros H; [reflexivity|]. inversion H as [|x l He Hl]; subst.
  cbn [fold_left]. replace (reset_flag_step true e) with true by (destruct e; try reflexivity; congruence). apply IH. exact Hl.
Qed.

Lemma run_events_app : forall a b, run_events (a ++ b) = fold_left step b (run_events a).
Proof. intros a b. unfold run_events. apply fold_left_app. Qed.

Theorem in_reset_between_begin_and_end : forall before during, no_reset_end during ->
  reset_in_progress (run_events (before ++ EResetBegin :: during)) = true.
Proof.
  intros before during H. rewrite reset_flag_is_history, fold_left_app. cbn [fold_left reset_flag_step].
  apply flag_stays_raised. exact H.
Qed.

(* whatever happened before, and whatever happens during the reset (requests, acknowledgements, responses, time,
   cancellations, close, earlier losses): a connection loss between the begin of a deliberate reset and its end is NOT
   reported to the application *)
Theorem loss_during_reset_not_reported : forall before during, no_reset_end during ->
  count_lost (log (run_events (before ++ EResetBegin :: during ++ [ELost]))) =
  count_lost (log (run_events (before ++ EResetBegin :: during))).
Proof.
  intros before during H.
  replace (before ++ EResetBegin :: during ++ [ELost]) with ((before ++ EResetBegin :: during) ++ [ELost])
    by (rewrite <- app_assoc; reflexivity).
  rewrite run_events_app. cbn [fold_left]. rewrite loss_reported_exactly, (in_reset_between_begin_and_end _ _ H).
  rewrite andb_false_r. lia.
Qed.

(* and once the reset has ended (or none was ever begun), a loss while the application is attached IS reported, once *)
Definition no_reset_begin (evs : list event) : Prop := Forall (fun e => e <> EResetBegin) evs.

Lemma flag_stays_lowered : forall evs, no_reset_begin evs -> fold_left reset_flag_step evs false = false.
Proof.
  induction evs as [|e evs IH]; intros H; [reflexivity|]. inversion H as [|x l He Hl]; subst.
  cbn [fold_left]. replace (reset_flag_step false e) with false by (destruct e; try reflexivity; congruence). apply IH. exact Hl.
Qed.

Theorem loss_after_reset_reported_once : forall before after, no_reset_begin after ->
  app_attached (run_events (before ++ EResetEnd :: after)) = true ->
  count_lost (log (run_events (before ++ EResetEnd :: after ++ [ELost]))) =
  S (count_lost (log (run_events (before ++ EResetEnd :: after)))).
Proof.
  intros before after H A.
  replace (before ++ EResetEnd :: after ++ [ELost]) with ((before ++ EResetEnd :: after) ++ [ELost])
    by (rewrite <- app_assoc; reflexivity).
  rewrite run_events_app. cbn [fold_left]. rewrite loss_reported_exactly, A.
  rewrite reset_flag_is_history, fold_left_app. cbn [fold_left reset_flag_step]. rewrite (flag_stays_lowered _ H).
  cbn [negb andb]. lia.
Qed.

Theorem loss_without_reset_reported_once : forall evs, no_reset_begin evs ->
  app_attached (run_events evs) = true ->
  count_lost (log (run_events (evs ++ [ELost]))) = S (count_lost (log (run_events evs))).
Proof.
  intros evs H A. rewrite run_events_app. cbn [fold_left]. rewrite loss_reported_exactly, A.
  rewrite reset_flag_is_history, (flag_stays_lowered _ H). cbn [negb andb]. lia.
Qed.
