(* PROOFS for C12: for every history, a received command resolves at most one waiter - the earliest-registered
   still-pending waiter one of whose (given) patterns matches; no other future changes; every registered callback
   with a matching pattern is invoked exactly once and no other. *)
From Coq Require Import NArith Arith List Bool Lia.
From ZB Require Import Api.Match Api.MatchProofs Api.Dispatch.
Import ListNotations.
Open Scope N_scope.

(* ---- generic list facts ---------------------------------------------------------------------------- *)
Lemma find_filter_sub : forall (A : Type) (P Q : A -> bool) (l : list A),
  (forall x, In x l -> P x = true -> Q x = true) -> find P (filter Q l) = find P l.
Proof.
  induction l as [|a l IH]; intros H; [reflexivity|]. cbn [filter find].
  assert (IH' : find P (filter Q l) = find P l) by (apply IH; intros x Hx; apply H; right; exact Hx).
  destruct (Q a) eqn:EQ; cbn [find].
  - destruct (P a); [reflexivity|exact IH'].
  - destruct (P a) eqn:EP; [|exact IH']. rewrite (H a (or_introl eq_refl) EP) in EQ. discriminate.
Qed.

Lemma filter_filter_sub : forall (A : Type) (P Q : A -> bool) (l : list A),
  (forall x, In x l -> P x = true -> Q x = true) -> filter P (filter Q l) = filter P l.
Proof.
  induction l as [|a l IH]; intros H; [reflexivity|]. cbn [filter].
  assert (IH' : filter P (filter Q l) = filter P l) by (apply IH; intros x Hx; apply H; right; exact Hx).
  destruct (Q a) eqn:EQ; cbn [filter].
  - destruct (P a); [rewrite IH'; reflexivity|exact IH'].
  - destruct (P a) eqn:EP; [|exact IH']. rewrite (H a (or_introl eq_refl) EP) in EQ. discriminate.
Qed.

Lemma find_ext_in : forall (A : Type) (P Q : A -> bool) (l : list A),
  (forall x, In x l -> P x = Q x) -> find P l = find Q l.
Proof.
  induction l as [|a l IH]; intros H; [reflexivity|]. cbn [find]. rewrite <- (H a (or_introl eq_refl)).
  destruct (P a); [reflexivity|]. apply IH. intros x Hx. apply H. right. exact Hx.
Qed.

Lemma NoDup_snoc : forall (A : Type) (l : list A) (x : A), NoDup l -> ~ In x l -> NoDup (l ++ [x]).
Proof.
  induction l as [|a l IH]; intros x N H; cbn [app]; [constructor; [intros []|constructor]|].
  inversion N as [|a' l' Na Nl E]; subst a' l'. constructor.
  - intros Hin. apply in_app_or in Hin. destruct Hin as [Hin|[Hin|[]]]; [exact (Na Hin)|]. apply H. left. symmetry. exact Hin.
  - apply IH; [exact Nl|]. intros Hin. apply H. right. exact Hin.
Qed.

Lemma NoDup_map_inj : forall (A B : Type) (f : A -> B) (l : list A) (x y : A),
  NoDup (map f l) -> In x l -> In y l -> f x = f y -> x = y.
Proof.
  induction l as [|a l IH]; intros x y N Hx Hy E; [destruct Hx|]. cbn [map] in N.
  inversion N as [|b l' Na Nl E']; subst b l'.
  destruct Hx as [->|Hx]; destruct Hy as [->|Hy]; [reflexivity| | |exact (IH x y Nl Hx Hy E)].
  - exfalso. apply Na. rewrite E. apply in_map. exact Hy.
  - exfalso. apply Na. rewrite <- E. apply in_map. exact Hx.
Qed.

Lemma NoDup_map_filter : forall (A B : Type) (f : A -> B) (P : A -> bool) (l : list A),
  NoDup (map f l) -> NoDup (map f (filter P l)).
Proof.
  induction l as [|a l IH]; intros N; [constructor|]. cbn [map] in N. inversion N as [|b l' Na Nl E]; subst b l'.
  cbn [filter]. destruct (P a); [|exact (IH Nl)]. cbn [map]. constructor; [|exact (IH Nl)].
  intros Hin. apply Na. apply in_map_iff in Hin. destruct Hin as (x & Ex & Hx). apply filter_In in Hx.
  rewrite <- Ex. apply in_map. exact (proj1 Hx).
Qed.

(* ---- futures --------------------------------------------------------------------------------------- *)
Lemma fut_of_set : forall futs id v id',
  fut_of (set_fut futs id v) id' =
  if id' =? id then match fut_of futs id with Some _ => Some v | None => None end else fut_of futs id'.
Proof.
  induction futs as [|[k x] futs IH]; intros id v id'; cbn [set_fut fut_of].
  - destruct (id' =? id); reflexivity.
  - destruct (N.eqb_spec k id) as [E1|E1]; cbn [fut_of].
    + destruct (N.eqb_spec k id') as [E2|E2]; destruct (N.eqb_spec id' id) as [E3|E3]; try congruence.
      rewrite IH. destruct (N.eqb_spec id' id); [contradiction|reflexivity].
    + destruct (N.eqb_spec k id') as [E2|E2]; destruct (N.eqb_spec id' id) as [E3|E3]; try congruence.
      * rewrite IH. destruct (N.eqb_spec id' id); [reflexivity|contradiction].
      * rewrite IH. destruct (N.eqb_spec id' id); [contradiction|reflexivity].
Qed.

Lemma fut_of_app : forall futs n v id,
  fut_of (futs ++ [(n, v)]) id =
  match fut_of futs id with Some x => Some x | None => if n =? id then Some v else None end.
Proof.
  induction futs as [|[k x] futs IH]; intros n v id; cbn [app fut_of]; [reflexivity|].
  destruct (k =? id); [reflexivity|apply IH].
Qed.

Lemma fut_of_in : forall futs id x, fut_of futs id = Some x -> In (id, x) futs.
Proof.
  induction futs as [|[k y] futs IH]; intros id x H; cbn [fut_of] in H; [discriminate|].
  destruct (N.eqb_spec k id) as [->|E]; [left; congruence|right; exact (IH _ _ H)].
Qed.

Lemma set_fut_ids : forall futs id v e, In e (set_fut futs id v) -> exists e', In e' futs /\ fst e' = fst e.
Proof.
  induction futs as [|[k x] futs IH]; intros id v e H; cbn [set_fut] in H; [destruct H|].
  destruct (k =? id); (destruct H as [<-|H]; [exists (k, x); split; [left; reflexivity|reflexivity]|]);
    destruct (IH _ _ _ H) as (e' & A & B); exists e'; (split; [right; exact A|exact B]).
Qed.

Lemma pending_set_mono : forall futs id v x, v <> FPending -> pending (set_fut futs id v) x = true -> pending futs x = true.
Proof.
  intros futs id v x Hv. unfold pending. rewrite fut_of_set. destruct (x =? id); [|exact (fun H => H)].
  destruct (fut_of futs id); [|discriminate]. destruct v; [contradiction|discriminate|discriminate].
Qed.

(* ---- the dispatch loop ----------------------------------------------------------------------------- *)
Definition w_hit (c : pat) (futs : list (N * fstate)) (l : listener) : bool :=
  is_waiter l && pending futs (l_id l) && any_match (l_pats l) c.
Definition cb_hit (c : pat) (l : listener) : bool := negb (is_waiter l) && any_match (l_pats l) c.

Lemma loop_skipping : forall c ls futs,
  d_futs (dispatch_loop c ls futs true) = futs /\ d_resolved (dispatch_loop c ls futs true) = [] /\
  d_called (dispatch_loop c ls futs true) = map l_id (filter (cb_hit c) ls).
Proof.
  induction ls as [|a ls IH]; intros futs; [repeat split|]. cbn [dispatch_loop filter]. unfold cb_hit at 1, is_waiter.
  destruct (IH futs) as (A & B & C). destruct (l_kind a); cbn [negb andb].
  - repeat split; assumption.
  - destruct (any_match (l_pats a) c); cbn [d_futs d_resolved d_called map]; repeat split; try assumption. rewrite C. reflexivity.
Qed.

Lemma loop_scanning : forall c ls futs,
  d_called (dispatch_loop c ls futs false) = map l_id (filter (cb_hit c) ls) /\
  match find (w_hit c futs) ls with
  | Some l => d_resolved (dispatch_loop c ls futs false) = [l_id l] /\
              d_futs (dispatch_loop c ls futs false) = set_fut futs (l_id l) (FDone c)
  | None => d_resolved (dispatch_loop c ls futs false) = [] /\ d_futs (dispatch_loop c ls futs false) = futs
  end.
Proof.
  induction ls as [|a ls IH]; intros futs; [repeat split|]. cbn [dispatch_loop filter find].
  unfold cb_hit at 1, w_hit at 1, is_waiter. destruct (IH futs) as (C & R). destruct (l_kind a); cbn [negb andb].
  - destruct (any_match (l_pats a) c); [|rewrite andb_false_r; split; [exact C|exact R]].
    destruct (pending futs (l_id a)); cbn [andb]; [|split; [exact C|exact R]].
    destruct (loop_skipping c ls (set_fut futs (l_id a) (FDone c))) as (A & B & C').
    cbn [d_futs d_resolved d_called]. rewrite A, B, C'. repeat split.
  - destruct (any_match (l_pats a) c); cbn [d_futs d_resolved d_called map]; [|split; [exact C|exact R]].
    split; [rewrite C; reflexivity|exact R].
Qed.

(* ---- the specification, over the registration history ------------------------------------------------ *)
(* a waiter is eligible for c: still pending, and one of the patterns it was registered with matches c *)
Definition eligible (futs : list (N * fstate)) (c : pat) (l : listener) : bool :=
  is_waiter l && pending futs (l_id l) && any_match (l_orig l) c.
Definition cb_due (c : pat) (l : listener) : bool := negb (is_waiter l) && any_match (l_orig l) c.
(* earliest-registered eligible waiter *)
Definition oldest_eligible (s : state) (c : pat) : option listener := find (eligible (st_futs s) c) (st_regs s).

Definition ev_wf (ar : N -> nat) (ev : event) : Prop :=
  match ev with ERegWaiter ps | ERegCallback ps => Forall (wf ar) ps | _ => True end.

Record inv (ar : N -> nat) (s : state) : Prop := {
  inv_lt_regs : forall l, In l (st_regs s) -> l_id l < st_next s;
  inv_lt_futs : forall e, In e (st_futs s) -> fst e < st_next s;
  inv_nodup : NoDup (map l_id (st_regs s));
  inv_pats : forall l, In l (st_regs s) -> l_pats l = dedup (l_orig l) /\ Forall (wf ar) (l_orig l);
  inv_sub : forall l, In l (st_table s) -> In l (st_regs s);
  inv_J : filter (keep (st_futs s)) (st_table s) = filter (keep (st_futs s)) (st_regs s);
  inv_done : forall id c, fut_of (st_futs s) id = Some (FDone c) ->
             exists l, In l (st_regs s) /\ l_id l = id /\ is_waiter l = true /\ any_match (l_orig l) c = true
}.

Lemma init_inv : forall ar, inv ar init.
Proof.
  intros ar. constructor; cbn [init st_regs st_futs st_table st_next].
  - intros l [].
  - intros e [].
  - constructor.
  - intros l [].
  - intros l [].
  - reflexivity.
  - intros id c H. discriminate H.
Qed.

Lemma keep_mono_J : forall (futs futs' : list (N * fstate)) (t r : list listener),
  (forall x, pending futs' x = true -> pending futs x = true) ->
  filter (keep futs) t = filter (keep futs) r -> filter (keep futs') t = filter (keep futs') r.
Proof.
  intros futs futs' t r M J.
  assert (S : forall l : list listener, filter (keep futs') (filter (keep futs) l) = filter (keep futs') l).
  { intros l. apply filter_filter_sub. intros x _. unfold keep. destruct (negb (is_waiter x)); [reflexivity|].
    cbn [orb]. apply M. }
  rewrite <- (S t), <- (S r), J. reflexivity.
Qed.

Lemma register_inv : forall ar s k ps, Forall (wf ar) ps -> inv ar s -> inv ar (fst (register s k ps)).
Proof.
  intros ar s k ps W I. destruct I as [Lr Lf Nd Pt Sb J Dn]. unfold register, mk_patterns.
  destruct (dedup ps) as [|p0 lps0] eqn:D; cbn [fst].
  - constructor; cbn [st_regs st_futs st_table st_next]; try assumption.
    + intros l H. pose proof (Lr l H). lia.
    + intros e H. pose proof (Lf e H). lia.
  - set (l := {| l_id := st_next s; l_kind := k; l_orig := ps; l_pats := p0 :: lps0 |}).
    set (futs' := match k with KWaiter => st_futs s ++ [(st_next s, FPending)] | KCallback => st_futs s end).
    assert (Fo : forall id, fut_of futs' id =
                 match fut_of (st_futs s) id with
                 | Some x => Some x
                 | None => match k with KWaiter => if st_next s =? id then Some FPending else None | KCallback => None end
                 end).
    { intros id. unfold futs'. destruct k; [apply fut_of_app|destruct (fut_of (st_futs s) id); reflexivity]. }
    assert (Pe : forall id, id < st_next s -> pending futs' id = pending (st_futs s) id).
    { intros id Hid. unfold pending. rewrite Fo. destruct (fut_of (st_futs s) id); [reflexivity|].
      destruct k; [|reflexivity]. destruct (N.eqb_spec (st_next s) id); [lia|reflexivity]. }
    assert (Ke : forall x, In x (st_regs s) -> keep futs' x = keep (st_futs s) x).
    { intros x Hx. unfold keep. rewrite (Pe _ (Lr x Hx)). reflexivity. }
    assert (Kl : keep futs' l = true).
    { unfold keep, is_waiter, pending. rewrite Fo. cbn [l l_kind l_id].
      destruct k; cbn [negb orb]; [|reflexivity].
      destruct (fut_of (st_futs s) (st_next s)) as [x|] eqn:F.
      - apply fut_of_in in F. pose proof (Lf _ F) as Hlt. cbn [fst] in Hlt. lia.
      - rewrite N.eqb_refl. reflexivity. }
    constructor; cbn [st_regs st_futs st_table st_next]; fold l; fold futs'.
    + intros x H. apply in_app_or in H. destruct H as [H|[<-|[]]]; [pose proof (Lr x H); lia|cbn [l l_id]; lia].
    + intros e H. unfold futs' in H. destruct k; [|pose proof (Lf e H); lia].
      apply in_app_or in H. destruct H as [H|[<-|[]]]; [pose proof (Lf e H); lia|cbn [fst]; lia].
    + rewrite map_app. cbn [map]. apply NoDup_snoc; [exact Nd|]. intros H. apply in_map_iff in H.
      destruct H as (x & Ex & Hx). pose proof (Lr x Hx). cbn [l l_id] in Ex. lia.
    + intros x H. apply in_app_or in H. destruct H as [H|[<-|[]]]; [exact (Pt x H)|]. cbn [l l_pats l_orig].
      split; [symmetry; exact D|exact W].
    + intros x H. apply in_app_or in H. apply in_or_app. destruct H as [H|H]; [left; exact (Sb x H)|right; exact H].
    + rewrite !filter_app. f_equal.
      rewrite (filter_ext_in (keep futs') (keep (st_futs s)) (st_table s)) by (intros x Hx; apply Ke; exact (Sb x Hx)).
      rewrite (filter_ext_in (keep futs') (keep (st_futs s)) (st_regs s)) by (intros x Hx; apply Ke; exact Hx).
      exact J.
    + intros id c H. rewrite Fo in H. destruct (fut_of (st_futs s) id) as [x|] eqn:F.
      * injection H as ->. destruct (Dn id c F) as (x & A & B). exists x. split; [apply in_or_app; left; exact A|exact B].
      * destruct k; [|discriminate]. destruct (st_next s =? id); discriminate.
Qed.

(* any pattern of the listener matching c implies the listener is in the header list of c's type *)
Lemma any_match_has_header : forall c l, any_match (l_pats l) c = true -> has_header (fst c) l = true.
Proof.
  intros c l H. unfold has_header. apply existsb_exists. exists (fst c). split; [exact (any_match_header _ _ H)|apply N.eqb_refl].
Qed.

(* dispatch against the specification *)
Lemma dispatch_spec : forall ar s c, inv ar s ->
  d_called (dispatch s c) = map l_id (filter (cb_due c) (st_regs s)) /\
  match oldest_eligible s c with
  | Some l => d_resolved (dispatch s c) = [l_id l] /\ d_futs (dispatch s c) = set_fut (st_futs s) (l_id l) (FDone c)
  | None => d_resolved (dispatch s c) = [] /\ d_futs (dispatch s c) = st_futs s
  end.
Proof.
  intros ar s c I. destruct I as [Lr Lf Nd Pt Sb J Dn]. unfold dispatch, oldest_eligible.
  destruct (loop_scanning c (header_list (fst c) (st_table s)) (st_futs s)) as (C & R).
  assert (Am : forall x, In x (st_regs s) -> any_match (l_pats x) c = any_match (l_orig x) c).
  { intros x Hx. destruct (Pt x Hx) as (E & W). rewrite E. exact (dedup_preserves_matching ar _ c W). }
  split.
  - rewrite C. unfold header_list. f_equal.
    rewrite filter_filter_sub by (intros x _ H; apply any_match_has_header; unfold cb_hit in H; apply andb_true_iff in H; exact (proj2 H)).
    rewrite (filter_ext_in (cb_hit c) (cb_due c) (st_table s))
      by (intros x Hx; unfold cb_hit, cb_due; rewrite (Am x (Sb x Hx)); reflexivity).
    assert (K : forall l : list listener, filter (cb_due c) (filter (keep (st_futs s)) l) = filter (cb_due c) l).
    { intros l. apply filter_filter_sub. intros x _ H. unfold cb_due in H. apply andb_true_iff in H. unfold keep.
      rewrite (proj1 H). reflexivity. }
    rewrite <- (K (st_table s)), J, K. reflexivity.
  - assert (F : find (w_hit c (st_futs s)) (header_list (fst c) (st_table s)) = find (eligible (st_futs s) c) (st_regs s)).
    { unfold header_list.
      rewrite find_filter_sub by (intros x _ H; apply any_match_has_header; unfold w_hit in H; apply andb_true_iff in H; exact (proj2 H)).
      rewrite (find_ext_in _ (w_hit c (st_futs s)) (eligible (st_futs s) c) (st_table s))
        by (intros x Hx; unfold w_hit, eligible; rewrite (Am x (Sb x Hx)); reflexivity).
      assert (K : forall l : list listener, find (eligible (st_futs s) c) (filter (keep (st_futs s)) l) = find (eligible (st_futs s) c) l).
      { intros l. apply find_filter_sub. intros x _ H. unfold eligible in H. apply andb_true_iff in H. destruct H as [H _].
        apply andb_true_iff in H. unfold keep. rewrite (proj2 H). apply orb_true_r. }
      rewrite <- (K (st_table s)), J, K. reflexivity. }
    rewrite F in R. exact R.
Qed.

Lemma eligible_pending : forall s c l, oldest_eligible s c = Some l ->
  In l (st_regs s) /\ is_waiter l = true /\ pending (st_futs s) (l_id l) = true /\ any_match (l_orig l) c = true.
Proof.
  intros s c l H. apply find_some in H. destruct H as [Hin E]. unfold eligible in E.
  apply andb_true_iff in E. destruct E as [E E3]. apply andb_true_iff in E. destruct E as [E1 E2]. repeat split; assumption.
Qed.

Lemma step_inv : forall ar s ev, ev_wf ar ev -> inv ar s -> inv ar (fst (step s ev)).
Proof.
  intros ar s ev W I. destruct ev as [ps|ps|id|c|]; cbn [step].
  - exact (register_inv ar s KWaiter ps W I).
  - exact (register_inv ar s KCallback ps W I).
  - destruct (pending (st_futs s) id) eqn:P; cbn [fst]; [|exact I]. destruct I as [Lr Lf Nd Pt Sb J Dn].
    constructor; cbn [st_regs st_futs st_table st_next]; try assumption.
    + intros e H. destruct (set_fut_ids _ _ _ _ H) as (e' & A & B). rewrite <- B. exact (Lf e' A).
    + apply (keep_mono_J (st_futs s)); [|exact J]. intros x. apply pending_set_mono. discriminate.
    + intros id' c H. rewrite fut_of_set in H. destruct (id' =? id); [|exact (Dn id' c H)].
      destruct (fut_of (st_futs s) id); discriminate.
  - cbn [fst]. destruct (dispatch_spec ar s c I) as (_ & R). pose proof (eligible_pending s c) as EP.
    destruct I as [Lr Lf Nd Pt Sb J Dn].
    destruct (oldest_eligible s c) as [l|]; destruct R as (_ & ->).
    + destruct (EP l eq_refl) as (Hin & Hw & Hp & Hm).
      constructor; cbn [st_regs st_futs st_table st_next]; try assumption.
      * intros e H. destruct (set_fut_ids _ _ _ _ H) as (e' & A & B). rewrite <- B. exact (Lf e' A).
      * apply (keep_mono_J (st_futs s)); [|exact J]. intros x. apply pending_set_mono. discriminate.
      * intros id' c' H. rewrite fut_of_set in H. destruct (N.eqb_spec id' (l_id l)) as [->|E]; [|exact (Dn id' c' H)].
        destruct (fut_of (st_futs s) (l_id l)); [|discriminate]. injection H as <-. exists l. repeat split; assumption.
    + constructor; assumption.
  - cbn [fst]. destruct I as [Lr Lf Nd Pt Sb J Dn]. constructor; cbn [st_regs st_futs st_table st_next]; try assumption.
    + intros l H. apply filter_In in H. exact (Sb l (proj1 H)).
    + rewrite <- J. apply filter_filter_sub. intros x _ H. exact H.
Qed.

Lemma exec_inv : forall ar evs s, Forall (ev_wf ar) evs -> inv ar s -> inv ar (exec s evs).
Proof.
  induction evs as [|ev evs IH]; intros s W I; [exact I|]. inversion W as [|ev' evs' We Wr E]; subst ev' evs'.
  unfold exec. cbn [fold_left]. apply IH; [exact Wr|exact (step_inv ar s ev We I)].
Qed.

Lemma run_exec : forall evs s, fst (run s evs) = exec s evs.
Proof.
  induction evs as [|ev evs IH]; intros s; [reflexivity|]. unfold exec. cbn [run fold_left].
  destruct (step s ev) as [s1 o]. specialize (IH s1). destruct (run s1 evs) as [s2 os]. exact IH.
Qed.

(* ---- C12 over all histories -------------------------------------------------------------------------- *)
Section Histories.
  Variable ar : N -> nat.
  Variable evs : list event.
  Hypothesis Wf : Forall (ev_wf ar) evs.
  Let s := exec init evs.

  Lemma reach_inv : inv ar s.
  Proof. exact (exec_inv ar evs init Wf (init_inv ar)). Qed.

  (* the command resolves exactly the earliest-registered still-pending waiter with a matching pattern, if any *)
  Theorem receive_resolves_oldest_pending_matching : forall c,
    d_resolved (dispatch s c) = match oldest_eligible s c with Some l => [l_id l] | None => [] end.
  Proof.
    intros c. destruct (dispatch_spec ar s c reach_inv) as (_ & R). destruct (oldest_eligible s c); exact (proj1 R).
  Qed.

  Theorem receive_resolves_at_most_one : forall c, (length (d_resolved (dispatch s c)) <= 1)%nat.
  Proof. intros c. rewrite receive_resolves_oldest_pending_matching. destruct (oldest_eligible s c); cbn; lia. Qed.

  (* all futures after the dispatch: only that waiter's future changes, to "done with c" *)
  Theorem receive_futures : forall c id,
    fut_of (d_futs (dispatch s c)) id =
    match oldest_eligible s c with
    | Some l => if id =? l_id l then Some (FDone c) else fut_of (st_futs s) id
    | None => fut_of (st_futs s) id
    end.
  Proof.
    intros c id. destruct (dispatch_spec ar s c reach_inv) as (_ & R). pose proof (eligible_pending s c) as EP.
    destruct (oldest_eligible s c) as [l|]; destruct R as (_ & ->); [|reflexivity].
    destruct (EP l eq_refl) as (_ & _ & Hp & _). rewrite fut_of_set. destruct (id =? l_id l); [|reflexivity].
    unfold pending in Hp. destruct (fut_of (st_futs s) (l_id l)); [reflexivity|discriminate].
  Qed.

  (* a waiter none of whose patterns matches the command keeps its state ... *)
  Theorem nonmatching_waiter_unchanged : forall c l, In l (st_regs s) ->
    any_match (l_orig l) c = false -> fut_of (d_futs (dispatch s c)) (l_id l) = fut_of (st_futs s) (l_id l).
  Proof.
    intros c l Hin Hm. rewrite receive_futures. pose proof (eligible_pending s c) as EP.
    destruct (oldest_eligible s c) as [l0|]; [|reflexivity]. destruct (EP l0 eq_refl) as (Hin0 & _ & _ & Hm0).
    destruct (N.eqb_spec (l_id l) (l_id l0)) as [E|E]; [|reflexivity].
    rewrite (NoDup_map_inj _ _ l_id _ l l0 (inv_nodup ar s reach_inv) Hin Hin0 E) in Hm. congruence.
  Qed.

  (* ... in particular every waiter registered for other command types only *)
  Theorem other_type_waiter_unchanged : forall c l, In l (st_regs s) ->
    (forall p, In p (l_orig l) -> fst p <> fst c) -> fut_of (d_futs (dispatch s c)) (l_id l) = fut_of (st_futs s) (l_id l).
  Proof.
    intros c l Hin Ht. apply nonmatching_waiter_unchanged; [exact Hin|]. destruct (any_match (l_orig l) c) eqn:E; [|reflexivity].
    apply existsb_exists in E. destruct E as (p & Hp & Mp). destruct (Ht p Hp (pmatches_type _ _ Mp)).
  Qed.

  (* a waiter that is not pending any more (resolved or cancelled, possibly still registered) keeps its state *)
  Theorem finished_waiter_unchanged : forall c id, pending (st_futs s) id = false ->
    fut_of (d_futs (dispatch s c)) id = fut_of (st_futs s) id.
  Proof.
    intros c id Hp. rewrite receive_futures. pose proof (eligible_pending s c) as EP.
    destruct (oldest_eligible s c) as [l0|]; [|reflexivity]. destruct (EP l0 eq_refl) as (_ & _ & Hp0 & _).
    destruct (N.eqb_spec id (l_id l0)) as [->|E]; [congruence|reflexivity].
  Qed.

  (* the callbacks invoked are those registered with a matching pattern, each exactly once, in registration order *)
  Theorem receive_callbacks : forall c, d_called (dispatch s c) = map l_id (filter (cb_due c) (st_regs s)).
  Proof. intros c. exact (proj1 (dispatch_spec ar s c reach_inv)). Qed.

  Theorem receive_callbacks_iff : forall c id,
    In id (d_called (dispatch s c)) <->
    exists l, In l (st_regs s) /\ l_id l = id /\ is_waiter l = false /\ any_match (l_orig l) c = true.
  Proof.
    intros c id. rewrite receive_callbacks, in_map_iff. split.
    - intros (l & E & H). apply filter_In in H. destruct H as [Hin H]. unfold cb_due in H. apply andb_true_iff in H.
      exists l. repeat split; [exact Hin|exact E|apply negb_true_iff; exact (proj1 H)|exact (proj2 H)].
    - intros (l & Hin & E & Hk & Hm). exists l. split; [exact E|]. apply filter_In. split; [exact Hin|]. unfold cb_due.
      rewrite Hk, Hm. reflexivity.
  Qed.

  Theorem receive_callbacks_once : forall c id,
    count_occ N.eq_dec (d_called (dispatch s c)) id = if in_dec N.eq_dec id (d_called (dispatch s c)) then 1%nat else 0%nat.
  Proof.
    intros c id. assert (Nd : NoDup (d_called (dispatch s c))).
    { rewrite receive_callbacks. apply NoDup_map_filter. exact (inv_nodup ar s reach_inv). }
    destruct (in_dec N.eq_dec id (d_called (dispatch s c))) as [H|H].
    - exact (proj1 (NoDup_count_occ' N.eq_dec _) Nd id H).
    - exact (proj1 (count_occ_not_In N.eq_dec _ id) H).
  Qed.

  (* a future is only ever resolved with a command matched by one of the patterns its waiter was registered
     with - in particular a command of that pattern's type (a request only returns its own response type) *)
  Theorem resolved_only_with_matching_command : forall id c, fut_of (st_futs s) id = Some (FDone c) ->
    exists l p, In l (st_regs s) /\ l_id l = id /\ is_waiter l = true /\ In p (l_orig l) /\ pmatches p c = true /\ fst p = fst c.
  Proof.
    intros id c H. destruct (inv_done ar s reach_inv id c H) as (l & Hin & E & Hw & Hm).
    apply existsb_exists in Hm. destruct Hm as (p & Hp & Mp). exists l, p.
    repeat split; try assumption. exact (pmatches_type _ _ Mp).
  Qed.

  (* the done-callbacks never drop a listener that can still react: callbacks and pending waiters stay registered *)
  Theorem live_listener_stays_registered : forall l, In l (st_regs s) -> keep (st_futs s) l = true -> In l (st_table s).
  Proof.
    intros l Hin Hk. assert (H : In l (filter (keep (st_futs s)) (st_regs s))) by (apply filter_In; split; assumption).
    rewrite <- (inv_J ar s reach_inv) in H. apply filter_In in H. exact (proj1 H).
  Qed.
End Histories.

(* a finished future never changes again (resolved at most once; a cancelled waiter is never resolved) *)
Theorem finished_is_final : forall s ev id x, fut_of (st_futs s) id = Some x -> x <> FPending ->
  fut_of (st_futs (fst (step s ev))) id = Some x.
Proof.
  intros s ev id x H Hx. assert (Np : pending (st_futs s) id = false).
  { unfold pending. rewrite H. destruct x; [contradiction|reflexivity|reflexivity]. }
  destruct ev as [ps|ps|id'|c|]; cbn [step].
  - unfold register. destruct (mk_patterns ps); cbn [fst st_futs]; [|exact H]. rewrite fut_of_app, H. reflexivity.
  - unfold register. destruct (mk_patterns ps); cbn [fst st_futs]; exact H.
  - destruct (pending (st_futs s) id') eqn:P; cbn [fst st_futs]; [|exact H]. rewrite fut_of_set.
    destruct (N.eqb_spec id id') as [->|E]; [congruence|exact H].
  - cbn [fst st_futs]. unfold dispatch. destruct (loop_scanning c (header_list (fst c) (st_table s)) (st_futs s)) as (_ & R).
    destruct (find (w_hit c (st_futs s)) (header_list (fst c) (st_table s))) as [l|] eqn:F; destruct R as (_ & ->); [|exact H].
    apply find_some in F. destruct F as (_ & F). unfold w_hit in F. apply andb_true_iff in F. destruct F as (F & _).
    apply andb_true_iff in F. destruct F as (_ & F). rewrite fut_of_set.
    destruct (N.eqb_spec id (l_id l)) as [->|E]; [congruence|exact H].
  - exact H.
Qed.

(* two identical responses delivered in one event-loop step (no settle in between) to two equal waiters and a
   callback: first response -> first waiter, second response -> second waiter (the first is still registered but
   done), callback invoked once per response; a third one finds no waiter. *)
Example burst_in_one_loop_step :
  let p := (5, [None; Some 1]) in let c := (5, [Some 9; Some 1]) in
  snd (run init [ERegWaiter [p]; ERegCallback [p; (5, [None; None])]; ERegWaiter [p; p]; EReceive c; EReceive c; EReceive c; ESettle]) =
  [ORegistered 0; ORegistered 1; ORegistered 2; OReceived [0] [1] true; OReceived [2] [1] true; OReceived [] [1] true; OSettled].
Proof. reflexivity. Qed.
