(* MODEL of command pattern matching and listener construction:
     zigpy_zboss/types/commands.py  CommandBase.matches          (field-wise comparison over zip(bound params))
     zigpy_zboss/utils.py           deduplicate_commands         (replace-in-place, first-hit break, append otherwise)
                                    BaseResponseListener.__post_init__ / matching_headers / resolve
   A command class is identified by a type id (its header).  A (possibly partial) command is its type id and one
   slot per schema parameter: None = parameter not bound (wildcard in a pattern; absent optional parameter in a
   received command), Some v = bound to value v.  Values are compared with decidable equality (N here). *)
From Coq Require Import NArith List Bool.
Import ListNotations.
Open Scope N_scope.

Definition value := N.
Definition cmd : Type := (N * list value)%type.            (* fully bound command: type id, parameter values *)
Definition pat : Type := (N * list (option value))%type.   (* partial command (pattern): type id, optional values *)

Definition pat_of_cmd (c : cmd) : pat := (fst c, map (@Some value) (snd c)).

(* "expected_value is not None and expected_value != actual_value -> return False" for one parameter pair *)
Definition field_ok (expected actual : option value) : bool :=
  match expected with
  | None => true
  | Some v => match actual with Some w => v =? w | None => false end
  end.

(* the loop over zip(self._bound_params.values(), other._bound_params.values()) : stops at the shorter list *)
Fixpoint fields_match (es xs : list (option value)) : bool :=
  match es, xs with
  | e :: es', x :: xs' => if field_ok e x then fields_match es' xs' else false
  | _, _ => true
  end.

(* CommandBase.matches(self = p, other = q); both may be partial *)
Definition pmatches (p q : pat) : bool :=
  if fst p =? fst q then fields_match (snd p) (snd q) else false.

(* a pattern against a fully bound command *)
Definition matches (p : pat) (c : cmd) : bool := pmatches p (pat_of_cmd c).

(* one iteration of the outer loop of deduplicate_commands: scan maximal_commands for the first entry that
   matches command (command is redundant: break) or is matched by it (replace in place: break); if the scan
   ends without a break (for-else) the command is appended *)
Fixpoint insert (command : pat) (maximal : list pat) : list pat :=
  match maximal with
  | [] => [command]
  | other :: rest =>
      if pmatches other command then other :: rest
      else if pmatches command other then command :: rest
      else other :: insert command rest
  end.

Fixpoint dedup_into (maximal : list pat) (commands : list pat) : list pat :=
  match commands with
  | [] => maximal
  | command :: rest => dedup_into (insert command maximal) rest
  end.

Definition dedup (commands : list pat) : list pat := dedup_into [] commands.

(* BaseResponseListener.__post_init__: None stands for the ValueError on an empty command collection *)
Definition mk_patterns (ps : list pat) : option (list pat) :=
  match dedup ps with
  | [] => None
  | l => Some l
  end.

(* matching_headers(): the set of headers of the (de-duplicated) matching commands *)
Definition headers (lps : list pat) : list N := nodup N.eq_dec (map fst lps).

(* resolve(): any(c.matches(response) for c in matching_commands) *)
Definition any_match (lps : list pat) (c : pat) : bool := existsb (fun p => pmatches p c) lps.

(* number of times resolve() hands one response to _resolve (callback invocations of an IndicationListener) *)
Definition resolve_count (lps : list pat) (c : pat) : nat := if any_match lps c then 1%nat else 0%nat.
