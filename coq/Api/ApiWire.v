(* C11 end to end: from ANY event history of the request state machine (Api.v) to what a protocol-following NCP receives.
   The data frames the machine writes (observations OW rid k seq) and the acknowledgement frames (OK seq) are turned into
   the bytes on the wire (Link/EndToEnd.v: the transmitter's fragment k of the request's message, stamped seq); the lock
   discipline proved in ApiProofs.v makes the sequence of writes a schedule of contiguous fragment runs; hence the NCP
   reassembles exactly the messages of the requests whose last fragment was written. *)
From Coq Require Import NArith List Bool Lia Arith.
From ZB Require Import Api.Api Api.ApiProofs Base.Bytes Link.LinkSpec Link.Frame Link.Reasm Link.RxSpec Link.EndToEnd gen.GenConsts.
Import ListNotations.
Open Scope N_scope.

Section Wire.

Variable msg : nat -> N * list N.          (* request id -> (command header, parameter bytes) *)

(* an issue event is consistent with the message table: the number of fragments it announces is what the transmitter makes *)
Definition Pi (r : nat) (b : bool) (n : nat) : Prop := valid msg r /\ n = nfr msg r.

(* ====================================================================== *)
(* 1. what is in the log while the transport is open *)

Definition okobs (o : obs) : Prop :=
  match o with
  | OW _ _ q => q < 4
  | OK q => q < 4
  | GSkip _ _ => False                  (* a fragment is skipped only when there is no transport *)
  | GIssue r b n => Pi r b n
  | _ => True
  end.

Definition Wr (s s' : state) : Prop :=
  transport_open s' = transport_open s /\ (pack_seq s < 4 -> pack_seq s' < 4) /\
  (transport_open s = true -> pack_seq s < 4 -> Forall okobs (log s) -> Forall okobs (log s')).

Lemma wr_refl : forall s, Wr s s. Proof. intros s. repeat split; auto. Qed.
Lemma wr_trans : forall a b c, Wr a b -> Wr b c -> Wr a c.
Proof.
  intros a b c (T1 & P1 & L1) (T2 & P2 & L2). split; [congruence|]. split; [auto|].
  intros T P F. apply L2; [congruence|auto|auto].
Qed.
Lemma wr_nolog : forall s s', transport_open s' = transport_open s -> pack_seq s' = pack_seq s -> log s' = log s -> Wr s s'.
Proof. intros s s' T P L. split; [exact T|]. split; [rewrite P; auto|]. intros _ _ F. rewrite L. exact F. Qed.
Lemma wr_emit : forall s o, (transport_open s = true -> pack_seq s < 4 -> okobs o) -> Wr s (emit s o).
Proof. intros s o H. split; [reflexivity|]. split; [auto|]. intros T P F. cbn. constructor; [apply H; assumption|exact F]. Qed.
Lemma wr_set_block : forall s h q, Wr s (set_block s h q). Proof. intros. apply wr_nolog; reflexivity. Qed.
Lemma wr_set_msg : forall s h q, Wr s (set_msg s h q). Proof. intros. apply wr_nolog; reflexivity. Qed.
Lemma wr_set_ghost : forall s n t, Wr s (set_ghost s n t). Proof. intros. apply wr_nolog; reflexivity. Qed.
Lemma wr_set_reqs : forall s rs, Wr s (set_reqs s rs). Proof. intros. apply wr_nolog; reflexivity. Qed.
Lemma wr_put : forall s r, Wr s (put s r). Proof. intros. apply wr_set_reqs. Qed.
Lemma wr_set_phase : forall s rid p, Wr s (set_phase s rid p).
Proof. intros. unfold set_phase. destruct (get s rid); [apply wr_put|apply wr_refl]. Qed.
Lemma wr_set_fut : forall s rid f, Wr s (set_fut s rid f).
Proof. intros. unfold set_fut. destruct (get s rid); [apply wr_put|apply wr_refl]. Qed.
Lemma wr_link : forall s ps ao up app rst rx t, (pack_seq s < 4 -> ps < 4) ->
  Wr s (set_link s ps ao up (transport_open s) app rst rx t).
Proof. intros. split; [reflexivity|]. split; [assumption|]. intros _ _ F. exact F. Qed.

Ltac trivial_obs := intros _ _; exact I.

Lemma wr_finish : forall s rid o, Wr s (finish s rid o).
Proof.
  intros. unfold finish. destruct (get s rid); [|apply wr_refl].
  eapply wr_trans; [apply wr_put|apply wr_emit; trivial_obs].
Qed.
Lemma wr_blk_try : forall s rid, Wr s (fst (blk_try s rid)).
Proof.
  intros. unfold blk_try. destruct (block_holder s); [|destruct (block_q s)]; cbn [fst];
    (eapply wr_trans; [apply wr_set_block|apply wr_emit; trivial_obs]).
Qed.
Lemma wr_blk_rel : forall s rid, Wr s (fst (blk_rel s rid)).
Proof.
  intros. unfold blk_rel. destruct (holds_blk s rid); [|apply wr_refl]. destruct (block_q s); cbn [fst];
    (eapply wr_trans; [apply wr_set_block|apply wr_emit; trivial_obs]).
Qed.
Lemma wr_blk_drop : forall s rid, Wr s (blk_drop s rid).
Proof.
  intros. unfold blk_drop. destruct (existsb _ _); [|apply wr_refl].
  eapply wr_trans; [apply wr_set_block|apply wr_emit; trivial_obs].
Qed.
Lemma wr_msg_try : forall s rid, Wr s (fst (msg_try s rid)).
Proof.
  intros. unfold msg_try. destruct (msg_holder s); [|destruct (msg_q s)]; cbn [fst].
  - eapply wr_trans; [apply wr_set_msg|apply wr_emit; trivial_obs].
  - eapply wr_trans; [apply wr_set_msg|]. eapply wr_trans; [apply wr_set_ghost|apply wr_emit; trivial_obs].
  - eapply wr_trans; [apply wr_set_msg|apply wr_emit; trivial_obs].
Qed.
Lemma wr_msg_rel : forall s rid, Wr s (fst (msg_rel s rid)).
Proof.
  intros. unfold msg_rel. destruct (holds_msg s rid); [|apply wr_refl]. destruct (msg_q s); cbn [fst].
  - eapply wr_trans; [apply wr_set_msg|apply wr_emit; trivial_obs].
  - eapply wr_trans; [apply wr_set_msg|]. eapply wr_trans; [apply wr_set_ghost|apply wr_emit; trivial_obs].
Qed.
Lemma wr_msg_drop : forall s rid, Wr s (msg_drop s rid).
Proof.
  intros. unfold msg_drop. destruct (existsb _ _); [|apply wr_refl].
  eapply wr_trans; [apply wr_set_msg|apply wr_emit; trivial_obs].
Qed.

Lemma wr_do_write : forall s rid, Wr s (do_write s rid).
Proof.
  intros. unfold do_write. destruct (transport_open s) eqn:T.
  - eapply wr_trans; [|apply wr_set_phase].
    set (s1 := emit _ _).
    assert (W1 : Wr s s1).
    { unfold s1. eapply wr_trans; [apply wr_set_ghost|]. apply wr_emit. cbn [okobs set_ghost pack_seq]. intros _ P. exact P. }
    eapply wr_trans; [exact W1|]. apply wr_link. auto.
  - eapply wr_trans; [|apply wr_set_phase].
    eapply wr_trans; [apply wr_set_ghost|]. apply wr_emit. cbn [set_ghost transport_open]. rewrite T. discriminate.
Qed.

Lemma wr_act : forall s rid tag, Wr s (fst (fst (act s rid tag))).
Proof.
  intros s rid tag. unfold act. destruct (get s rid) as [r|]; [|apply wr_refl].
  destruct tag as [|[|[|[|t]]]].
  - pose proof (wr_msg_try s rid) as M. destruct (msg_try s rid) as [s1 got]. cbn [fst] in M.
    destruct got; cbn [fst]; [exact M|]. eapply wr_trans; [exact M|apply wr_set_phase].
  - destruct (negb (uart_present s)); cbn [fst]; [apply wr_finish|].
    destruct (may_write s rid); [|apply wr_refl]. destruct (transport_open s); cbn [fst]; apply wr_do_write.
  - destruct (r_phase r) as [| |k d| |]; try apply wr_refl.
    destruct (S k <? r_nfrags r)%nat; [apply wr_refl|].
    pose proof (wr_msg_rel s rid) as M. destruct (msg_rel s rid) as [s0 nxt]. cbn [fst] in M.
    destruct (r_fut r); cbn [fst]; (eapply wr_trans; [exact M|]); [apply wr_set_phase|apply wr_finish|apply wr_finish].
  - pose proof (wr_msg_rel s rid) as M. destruct (msg_rel s rid) as [s0 nxt]. exact M.
  - pose proof (wr_blk_rel s rid) as M. destruct (blk_rel s rid) as [s0 nxt]. exact M.
Qed.

Lemma wr_run : forall fuel s work, Wr s (run fuel s work).
Proof.
  induction fuel as [|fuel IH]; intros s work; [apply wr_refl|]. cbn [run]. destruct work as [|[rid tag] rest]; [apply wr_refl|].
  pose proof (wr_act s rid tag) as A. destruct (act s rid tag) as [[s1 front] back]. eapply wr_trans; [exact A|apply IH].
Qed.
Lemma wr_settle : forall s work, Wr s (settle s work). Proof. intros. apply wr_run. Qed.

Lemma wr_fold : forall (A : Type) (f : state -> A -> state) (l : list A) s, (forall s a, Wr s (f s a)) -> Wr s (fold_left f l s).
Proof.
  intros A f l. induction l as [|a l IH]; intros s H; [apply wr_refl|]. cbn [fold_left].
  eapply wr_trans; [apply H|apply IH; exact H].
Qed.

Lemma wr_cancel_waiters : forall s, Wr s (cancel_waiters s).
Proof.
  intros s. unfold cancel_waiters.
  set (victims := filter _ (reqs s)).
  eapply wr_trans; [apply wr_fold; intros; apply wr_set_fut|].
  apply wr_fold. intros s0 r. destruct (r_phase r); try apply wr_refl.
  eapply wr_trans; [apply wr_finish|apply wr_settle].
Qed.

Lemma wr_set_now : forall s t, Wr s (set_now s t).
Proof. intros. unfold set_now. apply wr_link. auto. Qed.

Lemma wr_tick_loop : forall fuel s target, Wr s (tick_loop fuel s target).
Proof.
  induction fuel as [|fuel IH]; intros s target; [apply wr_set_now|].
  cbn [tick_loop]. destruct (earliest s) as [r|]; [|apply wr_set_now].
  destruct (deadline_of r) as [d|]; [|apply wr_set_now]. destruct (d <=? target); [|apply wr_set_now].
  destruct (r_phase r); try apply wr_set_now.
  - eapply wr_trans; [apply wr_set_now|]. eapply wr_trans; [apply wr_settle|apply IH].
  - eapply wr_trans; [apply wr_set_now|]. eapply wr_trans; [apply wr_finish|]. eapply wr_trans; [apply wr_settle|apply IH].
Qed.

Lemma next_seq_lt : forall x, next_seq x < 4.
Proof. intros x. unfold next_seq. pose proof (N.mod_upper_bound x 3 ltac:(discriminate)). lia. Qed.

Lemma wr_incoming_data : forall s, Wr s (incoming_data s).
Proof.
  intros s. unfold incoming_data. destruct (transport_open s) eqn:T.
  - eapply wr_trans; [|apply wr_emit; intros _ _; cbn [okobs]; apply next_seq_lt].
    rewrite <- T at 1. apply wr_link. auto.
  - rewrite <- T at 1. apply wr_link. auto.
Qed.

(* every event except close *)
Definition good_event (e : event) : Prop := match e with EIssue r _ b n _ => Pi r b n | _ => True end.

Lemma wr_step : forall s e, good_event e -> e <> EClose -> Wr s (step s e).
Proof.
  intros s e G NC. destruct e as [rid cls b n t|n|cls| |dt|rid| | | |]; cbn [step]; try congruence.
  - destruct (get s rid); [apply wr_refl|]. unfold issue. destruct (negb (uart_present s)).
    + eapply wr_trans; [apply wr_set_reqs|apply wr_emit; trivial_obs].
    + set (s1 := emit _ (GIssue rid b n)).
      assert (R1 : Wr s s1).
      { unfold s1. eapply wr_trans; [apply wr_set_reqs|]. eapply wr_trans; [apply wr_set_ghost|].
        apply wr_emit. intros _ _. exact G. }
      destruct b.
      * pose proof (wr_blk_try s1 rid) as B. destruct (blk_try s1 rid) as [s2 got]. cbn [fst] in B.
        destruct got; (eapply wr_trans; [exact R1|]); (eapply wr_trans; [exact B|]); [apply wr_settle|apply wr_set_phase].
      * eapply wr_trans; [exact R1|apply wr_settle].
  - unfold rx_ack. destruct (n =? pack_seq s); [|apply wr_refl].
    assert (L : Wr s (set_link s (next_seq (pack_seq s)) (ack_owner s) (uart_present s) (transport_open s) (app_attached s)
                               (reset_in_progress s) (rx_seq s) (now s))) by (apply wr_link; intros _; apply next_seq_lt).
    destruct (ack_owner s) as [o|]; [|exact L].
    set (s1 := set_link _ _ _ _ _ _ _ _ _) in *. destruct (get s1 o) as [r|]; [|exact L].
    destruct (r_phase r); try exact L. eapply wr_trans; [exact L|apply wr_settle].
  - unfold rx_rsp.
    pose proof (wr_incoming_data s) as R1.
    destruct (oldest_waiter (incoming_data s) cls) as [r|]; [|exact R1].
    assert (R2 : Wr s (set_fut (incoming_data s) (r_id r) FGot)) by (eapply wr_trans; [exact R1|apply wr_set_fut]).
    destruct (r_phase r); try exact R2. eapply wr_trans; [exact R2|]. eapply wr_trans; [apply wr_finish|apply wr_settle].
  - apply wr_incoming_data.
  - apply wr_tick_loop.
  - unfold cancel. destruct (get s rid) as [r|]; [|apply wr_refl]. destruct (r_phase r).
    + eapply wr_trans; [apply wr_blk_drop|apply wr_finish].
    + eapply wr_trans; [apply wr_msg_drop|]. eapply wr_trans; [apply wr_finish|apply wr_settle].
    + eapply wr_trans; [apply wr_finish|apply wr_settle].
    + eapply wr_trans; [apply wr_finish|apply wr_settle].
    + apply wr_refl.
  - unfold lost. set (s1 := set_link _ _ _ _ _ _ _ _ _).
    assert (L : Wr s s1) by (apply wr_link; auto).
    destruct (app_attached s && negb (reset_in_progress s)); [|exact L].
    eapply wr_trans; [exact L|apply wr_emit; trivial_obs].
  - apply wr_link; auto.
  - apply wr_link; auto.
Qed.

(* the invariant: while the transport is open, every logged write carries a sequence number below 4, nothing was skipped,
   and every issue is consistent with the message table *)
Definition K (s : state) : Prop := pack_seq s < 4 /\ (transport_open s = true -> Forall okobs (log s)).

Lemma K_wr : forall s s', K s -> Wr s s' -> K s'.
Proof.
  intros s s' (P & F) (T & P' & L). split; [auto|]. intros T'. rewrite T in T'. apply L; auto.
Qed.

Lemma event_eq_close : forall e : event, {e = EClose} + {e <> EClose}.
Proof. destruct e; try (left; reflexivity); right; discriminate. Qed.

Lemma K_step : forall s e, good_event e -> K s -> K (step s e).
Proof.
  intros s e G Ks. destruct (event_eq_close e) as [->|NC]; [|apply (K_wr s); [exact Ks|apply wr_step; assumption]].
  cbn [step]. unfold close.
  set (s0 := if uart_present s then _ else s).
  assert (K0 : K s0).
  { unfold s0. destruct (uart_present s); [|exact Ks]. split; [reflexivity|]. cbn [set_link transport_open]. discriminate. }
  destruct (reset_in_progress s0); [exact K0|].
  apply (K_wr s0); [exact K0|]. eapply wr_trans; [|apply wr_cancel_waiters].
  unfold detach_app. apply wr_link. auto.
Qed.

(* ====================================================================== *)
(* 2. the lock discipline makes the writes a schedule of contiguous fragment runs *)

Definition item_of (o : obs) : list item :=
  match o with OW r k q => [IFrag r k q] | OK q => [IAck q false] | _ => [] end.
(* l is newest first (as the log is) *)
Fixpoint items_of (l : list obs) : list item :=
  match l with [] => [] | o :: l' => items_of l' ++ item_of o end.

Lemma sched_run_app : forall a b cur, sched_run msg cur (a ++ b) =
  match sched_run msg cur a with Some c => sched_run msg c b | None => None end.
Proof.
  induction a as [|x a IH]; intros b cur; [reflexivity|]. cbn [app sched_run].
  destruct (sched_step msg cur x); [apply IH|reflexivity].
Qed.

(* table entries come from issue observations *)
Lemma tbl_from_issue : forall l a, scan l = Some a -> forall r b n, In (r, (b, n)) (a_tbl a) -> In (GIssue r b n) l.
Proof.
  induction l as [|o l IH]; intros a H r b n Hin.
  - cbn [scan] in H. assert (a = abs0) by congruence. subst a. destruct Hin.
  - cbn [scan] in H. destruct (scan l) as [a0|] eqn:E; [|discriminate].
    assert (Keep : a_tbl a = a_tbl a0 -> In (GIssue r b n) (o :: l)).
    { intros Et. right. apply (IH a0 eq_refl). rewrite <- Et. exact Hin. }
    destruct o; cbn [apply] in H;
      repeat match type of H with
             | (if ?c then _ else _) = _ => destruct c; [|try discriminate]
             | match ?x with _ => _ end = _ => destruct x
             end;
      try discriminate; try (apply Keep; assert (Ha : Some a = Some a) by reflexivity; injection H as <-; reflexivity).
    (* GIssue *)
    injection H as <-. cbn [a_tbl] in Hin. apply in_app_or in Hin. destruct Hin as [Hin|Hin].
    + right. apply (IH a0 eq_refl). exact Hin.
    + destruct Hin as [Hin|[]]. left. congruence.
Qed.

Lemma alookup_in : forall a r b n, alookup a r = Some (b, n) -> In (r, (b, n)) (a_tbl a).
Proof.
  intros a r b n H. unfold alookup in H. destruct (find _ (a_tbl a)) as [[r' [b' n']]|] eqn:E; [|discriminate].
  apply find_some in E. destruct E as [Hin Hr]. cbn [fst] in Hr. apply Nat.eqb_eq in Hr. subst r'. cbn [snd] in H.
  assert (b' = b /\ n' = n) as [-> ->] by (split; congruence). exact Hin.
Qed.

(* the run in progress, as far as the trace's abstract lock state knows it *)
Definition J (a : abs) (cur : option (nat * nat)) : Prop :=
  forall r, a_mh a = Some r -> (0 < a_next a)%nat -> (a_next a < nfr msg r)%nat -> cur = Some (r, a_next a).

Lemma discipline_is_schedule : forall l a, scan l = Some a -> Forall okobs l ->
  exists cur, sched_run msg None (items_of l) = Some cur /\ J a cur.
Proof.
  induction l as [|o l IH]; intros a H F.
  - cbn [scan] in H. assert (a = abs0) by congruence. subst a. exists None. split; [reflexivity|].
    intros r Hr. discriminate Hr.
  - inversion F as [|x xs Fo Fl]; subst. cbn [scan] in H. destruct (scan l) as [a0|] eqn:E; [|discriminate].
    destruct (IH a0 eq_refl Fl) as (cur & S0 & J0). cbn [items_of]. rewrite sched_run_app, S0.
    assert (Same : item_of o = [] -> a_mh a = a_mh a0 -> a_next a = a_next a0 ->
                   exists cur', sched_run msg cur (item_of o) = Some cur' /\ J a cur').
    { intros Ei Eh En. rewrite Ei. exists cur. split; [reflexivity|]. unfold J. rewrite Eh, En. exact J0. }
    assert (Reset : item_of o = [] -> a_next a = 0%nat -> exists cur', sched_run msg cur (item_of o) = Some cur' /\ J a cur').
    { intros Ei En. rewrite Ei. exists cur. split; [reflexivity|]. unfold J. rewrite En. intros r _ Hpos. lia. }
    assert (NoHolder : item_of o = [] -> a_mh a = None -> exists cur', sched_run msg cur (item_of o) = Some cur' /\ J a cur').
    { intros Ei Eh. rewrite Ei. exists cur. split; [reflexivity|]. unfold J. rewrite Eh. intros r Hr. discriminate Hr. }
    destruct o as [r k q|q|r oc| |r b n|r k|r|r|r|r|r|r|r|r]; cbn [apply] in H; cbn [okobs] in Fo.
    + (* OW *)
      destruct (frag_ok a0 r k) eqn:FO; [|discriminate]. injection H as <-.
      unfold frag_ok in FO. destruct (alookup a0 r) as [[b n]|] eqn:AL; [|discriminate].
      apply andb_prop in FO. destruct FO as [FO Hkn]. apply andb_prop in FO. destruct FO as [FO Hk].
      apply andb_prop in FO. destruct FO as [Hh _].
      apply Nat.eqb_eq in Hk. apply Nat.ltb_lt in Hkn.
      assert (Hn : n = nfr msg r).
      { pose proof (tbl_from_issue l a0 E r b n (alookup_in _ _ _ _ AL)) as Hin.
        rewrite Forall_forall in Fl. exact (proj2 (Fl _ Hin)). }
      assert (Hholder : a_mh a0 = Some r).
      { unfold holds in Hh. destruct (a_mh a0) as [h|]; [|discriminate]. apply Nat.eqb_eq in Hh. congruence. }
      cbn [item_of sched_run sched_step].
      replace (q <? 4) with true by (symmetry; apply N.ltb_lt; exact Fo).
      replace (k <? nfr msg r)%nat with true by (symmetry; apply Nat.ltb_lt; lia).
      assert (Hc : ((k =? 0)%nat || continues cur r k) = true).
      { destruct (Nat.eqb_spec k 0) as [|Hk0]; [reflexivity|]. cbn [orb].
        rewrite (J0 r Hholder) by lia. cbn [continues]. rewrite Hk, !Nat.eqb_refl. reflexivity. }
      rewrite Hc. cbn [andb]. eexists. split; [reflexivity|].
      unfold J. cbn [a_mh a_next]. intros r' Hr' _ Hlt. assert (r' = r) by congruence. subst r'.
      replace (S k =? nfr msg r)%nat with false by (symmetry; apply Nat.eqb_neq; lia). reflexivity.
    + (* OK: an acknowledgement frame *)
      injection H as <-. cbn [item_of sched_run sched_step].
      replace (q <? 4) with true by (symmetry; apply N.ltb_lt; exact Fo).
      exists cur. split; [reflexivity|exact J0].
    + injection H as <-. apply Same; reflexivity.
    + injection H as <-. apply Same; reflexivity.
    + injection H as <-. apply Same; reflexivity.
    + destruct Fo.
    + destruct (_ && _); [|discriminate]. injection H as <-. apply Same; reflexivity.
    + destruct (_ || _); [|discriminate]. injection H as <-. apply Same; reflexivity.
    + destruct (holds _ _); [|discriminate]. destruct (a_bq a0); injection H as <-; apply Same; reflexivity.
    + injection H as <-. apply Same; reflexivity.
    + destruct (_ && _); [|discriminate]. injection H as <-. apply Reset; reflexivity.
    + destruct (_ || _); [|discriminate]. injection H as <-. apply Same; reflexivity.
    + destruct (holds _ _); [|discriminate]. destruct (a_mq a0); injection H as <-; [apply NoHolder|apply Reset]; reflexivity.
    + injection H as <-. apply Same; reflexivity.
Qed.

(* ====================================================================== *)
(* 3. MAIN: any history -> what the NCP receives *)

Lemma K_reachable : forall evs, Forall good_event evs -> K (run_events evs).
Proof.
  intros evs G. unfold run_events.
  assert (H : forall s, K s -> K (fold_left step evs s)).
  { induction G as [|e evs Ge Gs IH]; intros s Ks; [exact Ks|]. cbn [fold_left]. apply IH. apply K_step; assumption. }
  apply H. split; [reflexivity|]. intros _. constructor.
Qed.

Theorem requests_reach_the_ncp_intact : forall evs,
  (forall rid cls b n t, In (EIssue rid cls b n t) evs -> valid msg rid /\ n = nfr msg rid) ->
  transport_open (run_events evs) = true ->
  let its := items_of (log (run_events evs)) in
  snd (ncp (wire msg its)) = map (msg_of msg) (completed msg its).
Proof.
  intros evs Hev Topen its.
  assert (G : Forall good_event evs).
  { rewrite Forall_forall. intros e He. destruct e; try exact I. cbn [good_event]. eapply Hev. exact He. }
  destruct (K_reachable evs G) as [_ Kl]. specialize (Kl Topen).
  destruct (discipline_is_schedule _ _ (reachable_inv evs) Kl) as (cur & S & _).
  assert (V : forall r k q, In (IFrag r k q) its -> valid msg r).
  { intros r k q Hin.
    (* a written fragment belongs to an issued request *)
    assert (Hw : In (OW r k q) (log (run_events evs))).
    { clear - Hin. unfold its in Hin. induction (log (run_events evs)) as [|o l IH]; [destruct Hin|].
      cbn [items_of] in Hin. apply in_app_or in Hin. destruct Hin as [Hin|Hin]; [right; apply IH; exact Hin|].
      left. destruct o; cbn [item_of In] in Hin; try (destruct Hin as [Hin|Hin]; [|destruct Hin]); try (destruct Hin; fail); congruence. }
    apply in_split in Hw. destruct Hw as (l2 & l1 & El).
    pose proof (discipline_always evs) as D. rewrite El in D.
    destruct (discipline_at_write l1 l2 r k q D) as (a & Sa & FO).
    unfold frag_ok in FO. destruct (alookup a r) as [[b n]|] eqn:AL; [|discriminate].
    pose proof (tbl_from_issue l1 a Sa r b n (alookup_in _ _ _ _ AL)) as Hi.
    assert (Hi' : In (GIssue r b n) (log (run_events evs))) by (rewrite El; apply in_or_app; right; right; exact Hi).
    rewrite Forall_forall in Kl. exact (proj1 (Kl _ Hi')). }
  exact (proj1 (ncp_receives_exactly_the_completed_messages msg its cur V S)).
Qed.

End Wire.
