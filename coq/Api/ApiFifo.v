(* C14, "queued blocking requests proceed in the order they were issued": in every reachable state the queue of the
   blocking-request lock lists its waiters in ISSUE order (it is an order-preserving sub-list of the requests' ids, which
   are kept in issue order).  Together with the FIFO hand-over proved for the trace (the lock goes to the HEAD of the
   queue, only when its holder releases it: `discipline`), blocking requests are served first-come first-served. *)
From Coq Require Import NArith List Bool Lia Arith.
From ZB Require Import Api.Api Api.ApiProofs Api.ApiLive gen.GenConsts.
Import ListNotations.
Open Scope N_scope.

(* order-preserving sub-list *)
Inductive Subseq {A : Type} : list A -> list A -> Prop :=
| sub_nil : forall l, Subseq [] l
| sub_keep : forall x a b, Subseq a b -> Subseq (x :: a) (x :: b)
| sub_skip : forall x a b, Subseq a b -> Subseq a (x :: b).

Lemma subseq_refl : forall (A : Type) (l : list A), Subseq l l.
Proof. induction l; constructor; assumption. Qed.
Lemma subseq_trans : forall (A : Type) (a b c : list A), Subseq a b -> Subseq b c -> Subseq a c.
Proof.
  intros A a b c H1 H2. revert a H1. induction H2 as [l|x b c H IH|x b c H IH]; intros a H1.
  - inversion H1; subst. constructor.
  - inversion H1; subst; [constructor|constructor; apply IH; assumption|apply sub_skip; apply IH; assumption].
  - apply sub_skip. apply IH. exact H1.
Qed.
Lemma subseq_tail : forall (A : Type) (x : A) l, Subseq l (x :: l).
Proof. intros. apply sub_skip. apply subseq_refl. Qed.
Lemma subseq_filter : forall (A : Type) (f : A -> bool) l, Subseq (filter f l) l.
Proof. induction l as [|x l IH]; [constructor|]. cbn [filter]. destruct (f x); [apply sub_keep|apply sub_skip]; exact IH. Qed.
Lemma subseq_app_last : forall (A : Type) (a b : list A) x, Subseq a b -> Subseq (a ++ [x]) (b ++ [x]).
Proof.
  intros A a b x H. induction H as [l|y a b H IH|y a b H IH].
  - induction l as [|z l IHl]; [apply subseq_refl|]. cbn [app]. apply sub_skip. exact IHl.
  - cbn [app]. apply sub_keep. exact IH.
  - cbn [app]. apply sub_skip. exact IH.
Qed.
Lemma subseq_app_r : forall (A : Type) (a b : list A) x, Subseq a b -> Subseq a (b ++ [x]).
Proof.
  intros A a b x H. induction H as [l|y a b H IH|y a b H IH]; [constructor|cbn [app]; apply sub_keep; exact IH|cbn [app]; apply sub_skip; exact IH].
Qed.

(* steps that add no request: the ids stay, the blocking queue only loses members (order kept) *)
Definition Fr (s s' : state) : Prop := ids s' = ids s /\ Subseq (block_q s') (block_q s).

Lemma fr_refl : forall s, Fr s s. Proof. intros s. split; [reflexivity|apply subseq_refl]. Qed.
Lemma fr_trans : forall a b c, Fr a b -> Fr b c -> Fr a c.
Proof. intros a b c [I1 S1] [I2 S2]. split; [congruence|eapply subseq_trans; eassumption]. Qed.
Lemma fr_same : forall s s', reqs s' = reqs s -> block_q s' = block_q s -> Fr s s'.
Proof. intros s s' R B. split; [apply ids_reqs; exact R|rewrite B; apply subseq_refl]. Qed.

Lemma fr_emit : forall s o, Fr s (emit s o). Proof. intros. apply fr_same; reflexivity. Qed.
Lemma fr_set_msg : forall s h q, Fr s (set_msg s h q). Proof. intros. apply fr_same; reflexivity. Qed.
Lemma fr_set_ghost : forall s n t, Fr s (set_ghost s n t). Proof. intros. apply fr_same; reflexivity. Qed.
Lemma fr_set_link : forall s a b c d e f g h, Fr s (set_link s a b c d e f g h). Proof. intros. apply fr_same; reflexivity. Qed.
Lemma fr_put : forall s r, Fr s (put s r).
Proof. intros. split; [apply ids_put|apply subseq_refl]. Qed.
Lemma fr_set_phase : forall s rid p, Fr s (set_phase s rid p).
Proof. intros. split; [apply ids_set_phase|]. unfold set_phase. destruct (get s rid); apply subseq_refl. Qed.
Lemma fr_set_fut : forall s rid f, Fr s (set_fut s rid f).
Proof. intros. split; [apply ids_set_fut|]. unfold set_fut. destruct (get s rid); apply subseq_refl. Qed.
Lemma fr_finish : forall s rid o, Fr s (finish s rid o).
Proof. intros. split; [apply ids_finish|]. unfold finish. destruct (get s rid); apply subseq_refl. Qed.

Lemma fr_blk_rel : forall s rid, Fr s (fst (blk_rel s rid)).
Proof.
  intros. unfold blk_rel. destruct (holds_blk s rid); [|apply fr_refl]. destruct (block_q s) as [|n q] eqn:E; cbn [fst].
  - split; [reflexivity|]. cbn. rewrite E. constructor.
  - split; [reflexivity|]. cbn. rewrite E. apply subseq_tail.
Qed.
Lemma fr_blk_drop : forall s rid, Fr s (blk_drop s rid).
Proof.
  intros. unfold blk_drop. destruct (existsb _ _); [|apply fr_refl]. split; [reflexivity|]. cbn. unfold remove. apply subseq_filter.
Qed.
Lemma fr_msg_try : forall s rid, Fr s (fst (msg_try s rid)).
Proof. intros. unfold msg_try. destruct (msg_holder s); [|destruct (msg_q s)]; cbn [fst]; apply fr_same; reflexivity. Qed.
Lemma fr_msg_rel : forall s rid, Fr s (fst (msg_rel s rid)).
Proof. intros. unfold msg_rel. destruct (holds_msg s rid); [|apply fr_refl]. destruct (msg_q s); cbn [fst]; apply fr_same; reflexivity. Qed.
Lemma fr_msg_drop : forall s rid, Fr s (msg_drop s rid).
Proof. intros. unfold msg_drop. destruct (existsb _ _); [|apply fr_refl]. apply fr_same; reflexivity. Qed.

Lemma fr_do_write : forall s rid, Fr s (do_write s rid).
Proof.
  intros. unfold do_write. destruct (transport_open s).
  - eapply fr_trans; [|apply fr_set_phase]. apply fr_same; reflexivity.
  - eapply fr_trans; [|apply fr_set_phase]. apply fr_same; reflexivity.
Qed.

Lemma fr_act : forall s rid tag, Fr s (fst (fst (act s rid tag))).
Proof.
  intros s rid tag. unfold act. destruct (get s rid) as [r|]; [|apply fr_refl].
  destruct tag as [|[|[|[|t]]]].
  - pose proof (fr_msg_try s rid) as M. destruct (msg_try s rid) as [s1 got]. cbn [fst] in M.
    destruct got; cbn [fst]; [exact M|]. eapply fr_trans; [exact M|apply fr_set_phase].
  - destruct (negb (uart_present s)); cbn [fst]; [apply fr_finish|].
    destruct (may_write s rid); [|apply fr_refl]. destruct (transport_open s); cbn [fst]; apply fr_do_write.
  - destruct (r_phase r) as [| |k d| |]; try apply fr_refl.
    destruct (S k <? r_nfrags r)%nat; [apply fr_refl|].
    pose proof (fr_msg_rel s rid) as M. destruct (msg_rel s rid) as [s0 nxt]. cbn [fst] in M.
    destruct (r_fut r); cbn [fst]; (eapply fr_trans; [exact M|]); [apply fr_set_phase|apply fr_finish|apply fr_finish].
  - pose proof (fr_msg_rel s rid) as M. destruct (msg_rel s rid) as [s0 nxt]. exact M.
  - pose proof (fr_blk_rel s rid) as M. destruct (blk_rel s rid) as [s0 nxt]. exact M.
Qed.

Lemma fr_run : forall fuel s work, Fr s (run fuel s work).
Proof.
  induction fuel as [|fuel IH]; intros s work; [apply fr_refl|]. cbn [run]. destruct work as [|[rid tag] rest]; [apply fr_refl|].
  pose proof (fr_act s rid tag) as A. destruct (act s rid tag) as [[s1 front] back]. eapply fr_trans; [exact A|apply IH].
Qed.
Lemma fr_settle : forall s work, Fr s (settle s work). Proof. intros. apply fr_run. Qed.

Lemma fr_fold : forall (A : Type) (f : state -> A -> state) (l : list A) s, (forall s a, Fr s (f s a)) -> Fr s (fold_left f l s).
Proof.
  intros A f l. induction l as [|a l IH]; intros s H; [apply fr_refl|]. cbn [fold_left].
  eapply fr_trans; [apply H|apply IH; exact H].
Qed.

Lemma fr_cancel_waiters : forall s, Fr s (cancel_waiters s).
Proof.
  intros s. unfold cancel_waiters.
  eapply fr_trans; [apply fr_fold; intros; apply fr_set_fut|].
  apply fr_fold. intros s0 r. destruct (r_phase r); try apply fr_refl.
  eapply fr_trans; [apply fr_finish|apply fr_settle].
Qed.

Lemma fr_set_now : forall s t, Fr s (set_now s t). Proof. intros. unfold set_now. apply fr_set_link. Qed.

Lemma fr_tick_loop : forall fuel s target, Fr s (tick_loop fuel s target).
Proof.
  induction fuel as [|fuel IH]; intros s target; [apply fr_set_now|].
  cbn [tick_loop]. destruct (earliest s) as [r|]; [|apply fr_set_now].
  destruct (deadline_of r) as [d|]; [|apply fr_set_now]. destruct (d <=? target); [|apply fr_set_now].
  destruct (r_phase r); try apply fr_set_now.
  - eapply fr_trans; [apply fr_set_now|]. eapply fr_trans; [apply fr_settle|apply IH].
  - eapply fr_trans; [apply fr_set_now|]. eapply fr_trans; [apply fr_finish|]. eapply fr_trans; [apply fr_settle|apply IH].
Qed.

Lemma fr_incoming_data : forall s, Fr s (incoming_data s).
Proof. intros s. unfold incoming_data. destruct (transport_open s); apply fr_same; reflexivity. Qed.

(* every event that does not issue a request *)
Lemma fr_step : forall s e, (forall rid cls b n t, e <> EIssue rid cls b n t) -> Fr s (step s e).
Proof.
  intros s e NI. destruct e as [rid cls b n t|n|cls| |dt|rid| | | |]; cbn [step].
  - exfalso. apply (NI rid cls b n t). reflexivity.
  - unfold rx_ack. destruct (n =? pack_seq s); [|apply fr_refl].
    destruct (ack_owner s) as [o|]; [|apply fr_set_link].
    set (s1 := set_link _ _ _ _ _ _ _ _ _). destruct (get s1 o) as [r|]; [|apply fr_set_link].
    destruct (r_phase r); try apply fr_set_link. eapply fr_trans; [apply fr_set_link|apply fr_settle].
  - unfold rx_rsp. pose proof (fr_incoming_data s) as R1.
    destruct (oldest_waiter (incoming_data s) cls) as [r|]; [|exact R1].
    assert (R2 : Fr s (set_fut (incoming_data s) (r_id r) FGot)) by (eapply fr_trans; [exact R1|apply fr_set_fut]).
    destruct (r_phase r); try exact R2. eapply fr_trans; [exact R2|]. eapply fr_trans; [apply fr_finish|apply fr_settle].
  - apply fr_incoming_data.
  - apply fr_tick_loop.
  - unfold cancel. destruct (get s rid) as [r|]; [|apply fr_refl]. destruct (r_phase r).
    + eapply fr_trans; [apply fr_blk_drop|apply fr_finish].
    + eapply fr_trans; [apply fr_msg_drop|]. eapply fr_trans; [apply fr_finish|apply fr_settle].
    + eapply fr_trans; [apply fr_finish|apply fr_settle].
    + eapply fr_trans; [apply fr_finish|apply fr_settle].
    + apply fr_refl.
  - unfold close. set (s0 := if uart_present s then _ else s).
    assert (F0 : Fr s s0) by (unfold s0; destruct (uart_present s); [apply fr_set_link|apply fr_refl]).
    destruct (reset_in_progress s0); [exact F0|].
    eapply fr_trans; [exact F0|]. eapply fr_trans; [|apply fr_cancel_waiters]. unfold detach_app. apply fr_set_link.
  - unfold lost. destruct (app_attached s && negb (reset_in_progress s)); [|apply fr_set_link].
    eapply fr_trans; [apply fr_set_link|apply fr_emit].
  - apply fr_set_link.
  - apply fr_set_link.
Qed.

(* the invariant *)
Definition InOrder (s : state) : Prop := Subseq (block_q s) (ids s).

Lemma inorder_fr : forall s s', InOrder s -> Fr s s' -> InOrder s'.
Proof. intros s s' H [I S]. unfold InOrder. rewrite I. eapply subseq_trans; eassumption. Qed.

Lemma inorder_step : forall s e, InOrder s -> InOrder (step s e).
Proof.
  intros s e H. destruct e as [rid cls b n t|n|cls| |dt|rid| | | |];
    try (apply (inorder_fr s); [exact H|apply fr_step; intros; discriminate]).
  cbn [step]. destruct (get s rid); [exact H|]. unfold issue. destruct (negb (uart_present s)).
  - (* refused: the request is recorded (already ended), the queue is untouched *)
    unfold InOrder, ids. cbn [emit set_log set_reqs reqs block_q]. rewrite map_app. cbn [map]. apply subseq_app_r. exact H.
  - set (s1 := emit _ (GIssue rid b n)).
    assert (I1 : ids s1 = ids s ++ [rid]) by (unfold s1, ids; cbn; rewrite map_app; reflexivity).
    assert (B1 : block_q s1 = block_q s) by reflexivity.
    destruct b.
    + unfold blk_try. rewrite B1. change (block_holder s1) with (block_holder s).
      destruct (block_holder s) as [h|]; [|destruct (block_q s) as [|q0 qs] eqn:EQ].
      * (* queued behind the holder: appended at the END of the queue, and it is the LAST id *)
        apply (inorder_fr (emit (set_block s1 (Some h) (block_q s ++ [rid])) (GBlkWait rid))); [|apply fr_set_phase].
        unfold InOrder. change (ids (emit _ _)) with (ids s1). rewrite I1. cbn [emit set_log set_block block_q].
        apply subseq_app_last. exact H.
      * apply (inorder_fr (emit (set_block s1 (Some rid) []) (GBlkAcq rid))); [|apply fr_settle].
        unfold InOrder. cbn [emit set_log set_block block_q]. constructor.
      * apply (inorder_fr (emit (set_block s1 None ((q0 :: qs) ++ [rid])) (GBlkWait rid))); [|apply fr_set_phase].
        unfold InOrder. change (ids (emit _ _)) with (ids s1). rewrite I1. cbn [emit set_log set_block block_q].
        apply subseq_app_last. unfold InOrder in H. rewrite EQ in H. exact H.
    + apply (inorder_fr s1); [|apply fr_settle]. unfold InOrder. rewrite I1, B1. apply subseq_app_r. exact H.
Qed.

Theorem blocking_queue_in_issue_order : forall evs, InOrder (run_events evs).
Proof.
  intros evs. unfold run_events.
  assert (G : forall s, InOrder s -> InOrder (fold_left step evs s)).
  { induction evs as [|e evs IH]; intros s H; [exact H|]. cbn [fold_left]. apply IH. apply inorder_step. exact H. }
  apply G. unfold InOrder. constructor.
Qed.
Print Assumptions blocking_queue_in_issue_order.

(* (`ids s` is in issue order by construction: `issue` appends the new request at the end of `reqs`, every other
   operation updates requests in place - `ids_put`, `ids_act` in ApiLive.v, and the first component of `Fr` above.) *)

(* ====================================================================== *)
(* C20, "closing again is harmless": a second close() changes nothing at all *)

Lemma filter_none : forall (A : Type) (f : A -> bool) l, (forall x, In x l -> f x = false) -> filter f l = [].
Proof.
  intros A f l. induction l as [|x l IH]; intros H; [reflexivity|]. cbn [filter]. rewrite (H x (or_introl eq_refl)).
  apply IH. intros y Hy. apply H. right. exact Hy.
Qed.

Lemma close_after_close : forall s, K s -> app_attached s = false -> reset_in_progress s = false -> step s EClose = s.
Proof.
  intros s (_ & U & A) AP RS. cbn [step]. unfold close. rewrite U, RS. unfold cancel_waiters.
  assert (V : filter (fun r => negb (is_done r) && match r_fut r with FPending => true | _ => false end) (reqs (detach_app s)) = []).
  { apply filter_none. intros x Hx. change (reqs (detach_app s)) with (reqs s) in Hx. destruct (A x Hx) as [NP _].
    destruct (r_fut x); try (rewrite andb_false_r; reflexivity). congruence. }
  rewrite V. cbn [fold_left]. unfold detach_app. destruct s. cbn in *. subst. reflexivity.
Qed.

Theorem close_again_is_harmless : forall evs, wf_events evs -> reset_in_progress (run_events evs) = false ->
  step (step (run_events evs) EClose) EClose = step (run_events evs) EClose.
Proof.
  intros evs W RS. destruct (reachable_J evs W) as (R & L & C & GD). set (s := run_events evs) in *.
  assert (K2 : K (step s EClose)).
  { split; [apply step_J; [exact I|split; [exact R|split; [exact L|split; [exact C|exact GD]]]]|]. split; [apply close_makes_link_absent|].
    cbn [step]. rewrite close_eq. destruct (close_pre_facts s R L C GD) as (R0 & L0 & C0 & G0 & U0 & RS0). rewrite RS0, RS.
    assert (R1 : Q (detach_app (close_pre s))) by (apply (RI_fields (close_pre s)); try reflexivity; exact R0).
    exact (proj1 (proj2 (proj2 (cancel_waiters_spec (detach_app (close_pre s)) R1 L0 C0 G0)))). }
  apply close_after_close; [exact K2|apply close_detaches_app; exact RS|].
  (* close leaves the reset mark as it was *)
  cbn [step]. rewrite close_eq. destruct (close_pre_facts s R L C GD) as (_ & _ & _ & _ & _ & RS0). rewrite RS0, RS.
  destruct (rel_cancel_waiters (detach_app (close_pre s))) as (LK & _). unfold link_of in LK. injection LK as _ _ _ LK. rewrite LK. reflexivity.
Qed.
Print Assumptions close_again_is_harmless.
