(* Liveness of the API state machine (Api.v).
   1. settle_drains            : the scheduler never stops for lack of fuel (every act step decreases `potential`,
                                 given the link invariant LI: uart present -> transport open).
   2. act_RI / settle_Q /      : run invariant RI s work (per-request lock/queue/work-thread status okv + global part RG),
      step_J / reachable_Q       quiescent invariant Q s = RI s [], for every reachable state (well-formed histories);
                                 guard_never_fails, Q_spelled_out, reachable_spelled_out state its content.
   3. close_terminates(_general): after close (no reset in progress) and a tick of at least the ACK timeout every request is over.
   4. lost_terminates          : after connection loss and a tick of ACK timeout + longest response timeout every request is over.
   5. nonblocking_request_sends_at_once : with the message lock free and the link up a non-blocking request writes its
                                 first fragment in the step that issues it, whatever the state of the blocking lock. *)
From Coq Require Import NArith List Bool Arith Lia.
From ZB Require Import Api.Api Api.ApiProofs gen.GenConsts.
Import ListNotations.
Open Scope N_scope.

(* ====================================================================== *)
(* 0. projections of the record updates *)

Lemma get_put_reqs : forall s r, reqs (put s r) = map (fun x => if (r_id x =? r_id r)%nat then r else x) (reqs s).
Proof. reflexivity. Qed.

Section Proj.
Variable s : state.
Lemma mq_emit o : msg_q (emit s o) = msg_q s. Proof. reflexivity. Qed.
Lemma bq_emit o : block_q (emit s o) = block_q s. Proof. reflexivity. Qed.
Lemma mh_emit o : msg_holder (emit s o) = msg_holder s. Proof. reflexivity. Qed.
Lemma bh_emit o : block_holder (emit s o) = block_holder s. Proof. reflexivity. Qed.
Lemma reqs_emit o : reqs (emit s o) = reqs s. Proof. reflexivity. Qed.
Lemma tbl_emit o : tbl (emit s o) = tbl s. Proof. reflexivity. Qed.
Lemma mn_emit o : msg_next (emit s o) = msg_next s. Proof. reflexivity. Qed.
Lemma now_emit o : now (emit s o) = now s. Proof. reflexivity. Qed.
Lemma up_emit o : uart_present (emit s o) = uart_present s. Proof. reflexivity. Qed.
Lemma tr_emit o : transport_open (emit s o) = transport_open s. Proof. reflexivity. Qed.

Lemma mq_put r : msg_q (put s r) = msg_q s. Proof. reflexivity. Qed.
Lemma bq_put r : block_q (put s r) = block_q s. Proof. reflexivity. Qed.
Lemma mh_put r : msg_holder (put s r) = msg_holder s. Proof. reflexivity. Qed.
Lemma bh_put r : block_holder (put s r) = block_holder s. Proof. reflexivity. Qed.
Lemma tbl_put r : tbl (put s r) = tbl s. Proof. reflexivity. Qed.
Lemma mn_put r : msg_next (put s r) = msg_next s. Proof. reflexivity. Qed.
Lemma now_put r : now (put s r) = now s. Proof. reflexivity. Qed.
Lemma up_put r : uart_present (put s r) = uart_present s. Proof. reflexivity. Qed.
Lemma tr_put r : transport_open (put s r) = transport_open s. Proof. reflexivity. Qed.

Lemma mq_set_block h q : msg_q (set_block s h q) = msg_q s. Proof. reflexivity. Qed.
Lemma bq_set_block h q : block_q (set_block s h q) = q. Proof. reflexivity. Qed.
Lemma mh_set_block h q : msg_holder (set_block s h q) = msg_holder s. Proof. reflexivity. Qed.
Lemma bh_set_block h q : block_holder (set_block s h q) = h. Proof. reflexivity. Qed.
Lemma reqs_set_block h q : reqs (set_block s h q) = reqs s. Proof. reflexivity. Qed.
Lemma tbl_set_block h q : tbl (set_block s h q) = tbl s. Proof. reflexivity. Qed.
Lemma mn_set_block h q : msg_next (set_block s h q) = msg_next s. Proof. reflexivity. Qed.
Lemma now_set_block h q : now (set_block s h q) = now s. Proof. reflexivity. Qed.
Lemma up_set_block h q : uart_present (set_block s h q) = uart_present s. Proof. reflexivity. Qed.
Lemma tr_set_block h q : transport_open (set_block s h q) = transport_open s. Proof. reflexivity. Qed.

Lemma mq_set_msg h q : msg_q (set_msg s h q) = q. Proof. reflexivity. Qed.
Lemma bq_set_msg h q : block_q (set_msg s h q) = block_q s. Proof. reflexivity. Qed.
Lemma mh_set_msg h q : msg_holder (set_msg s h q) = h. Proof. reflexivity. Qed.
Lemma bh_set_msg h q : block_holder (set_msg s h q) = block_holder s. Proof. reflexivity. Qed.
Lemma reqs_set_msg h q : reqs (set_msg s h q) = reqs s. Proof. reflexivity. Qed.
Lemma tbl_set_msg h q : tbl (set_msg s h q) = tbl s. Proof. reflexivity. Qed.
Lemma mn_set_msg h q : msg_next (set_msg s h q) = msg_next s. Proof. reflexivity. Qed.
Lemma now_set_msg h q : now (set_msg s h q) = now s. Proof. reflexivity. Qed.
Lemma up_set_msg h q : uart_present (set_msg s h q) = uart_present s. Proof. reflexivity. Qed.
Lemma tr_set_msg h q : transport_open (set_msg s h q) = transport_open s. Proof. reflexivity. Qed.

Lemma mq_set_ghost n t : msg_q (set_ghost s n t) = msg_q s. Proof. reflexivity. Qed.
Lemma bq_set_ghost n t : block_q (set_ghost s n t) = block_q s. Proof. reflexivity. Qed.
Lemma mh_set_ghost n t : msg_holder (set_ghost s n t) = msg_holder s. Proof. reflexivity. Qed.
Lemma bh_set_ghost n t : block_holder (set_ghost s n t) = block_holder s. Proof. reflexivity. Qed.
Lemma reqs_set_ghost n t : reqs (set_ghost s n t) = reqs s. Proof. reflexivity. Qed.
Lemma tbl_set_ghost n t : tbl (set_ghost s n t) = t. Proof. reflexivity. Qed.
Lemma mn_set_ghost n t : msg_next (set_ghost s n t) = n. Proof. reflexivity. Qed.
Lemma now_set_ghost n t : now (set_ghost s n t) = now s. Proof. reflexivity. Qed.
Lemma up_set_ghost n t : uart_present (set_ghost s n t) = uart_present s. Proof. reflexivity. Qed.
Lemma tr_set_ghost n t : transport_open (set_ghost s n t) = transport_open s. Proof. reflexivity. Qed.

Lemma mq_set_reqs rs : msg_q (set_reqs s rs) = msg_q s. Proof. reflexivity. Qed.
Lemma bq_set_reqs rs : block_q (set_reqs s rs) = block_q s. Proof. reflexivity. Qed.
Lemma mh_set_reqs rs : msg_holder (set_reqs s rs) = msg_holder s. Proof. reflexivity. Qed.
Lemma bh_set_reqs rs : block_holder (set_reqs s rs) = block_holder s. Proof. reflexivity. Qed.
Lemma reqs_set_reqs rs : reqs (set_reqs s rs) = rs. Proof. reflexivity. Qed.
Lemma tbl_set_reqs rs : tbl (set_reqs s rs) = tbl s. Proof. reflexivity. Qed.
Lemma mn_set_reqs rs : msg_next (set_reqs s rs) = msg_next s. Proof. reflexivity. Qed.
Lemma now_set_reqs rs : now (set_reqs s rs) = now s. Proof. reflexivity. Qed.
Lemma up_set_reqs rs : uart_present (set_reqs s rs) = uart_present s. Proof. reflexivity. Qed.
Lemma tr_set_reqs rs : transport_open (set_reqs s rs) = transport_open s. Proof. reflexivity. Qed.

Lemma mq_set_link a b c d e f g h : msg_q (set_link s a b c d e f g h) = msg_q s. Proof. reflexivity. Qed.
Lemma bq_set_link a b c d e f g h : block_q (set_link s a b c d e f g h) = block_q s. Proof. reflexivity. Qed.
Lemma mh_set_link a b c d e f g h : msg_holder (set_link s a b c d e f g h) = msg_holder s. Proof. reflexivity. Qed.
Lemma bh_set_link a b c d e f g h : block_holder (set_link s a b c d e f g h) = block_holder s. Proof. reflexivity. Qed.
Lemma reqs_set_link a b c d e f g h : reqs (set_link s a b c d e f g h) = reqs s. Proof. reflexivity. Qed.
Lemma tbl_set_link a b c d e f g h : tbl (set_link s a b c d e f g h) = tbl s. Proof. reflexivity. Qed.
Lemma mn_set_link a b c d e f g h : msg_next (set_link s a b c d e f g h) = msg_next s. Proof. reflexivity. Qed.
Lemma now_set_link a b c d e f g h : now (set_link s a b c d e f g h) = h. Proof. reflexivity. Qed.
Lemma up_set_link a b c d e f g h : uart_present (set_link s a b c d e f g h) = c. Proof. reflexivity. Qed.
Lemma tr_set_link a b c d e f g h : transport_open (set_link s a b c d e f g h) = d. Proof. reflexivity. Qed.
End Proj.

Global Hint Rewrite mq_emit bq_emit mh_emit bh_emit reqs_emit tbl_emit mn_emit now_emit up_emit tr_emit
  mq_put bq_put mh_put bh_put tbl_put mn_put now_put up_put tr_put
  mq_set_block bq_set_block mh_set_block bh_set_block reqs_set_block tbl_set_block mn_set_block now_set_block up_set_block tr_set_block
  mq_set_msg bq_set_msg mh_set_msg bh_set_msg reqs_set_msg tbl_set_msg mn_set_msg now_set_msg up_set_msg tr_set_msg
  mq_set_ghost bq_set_ghost mh_set_ghost bh_set_ghost reqs_set_ghost tbl_set_ghost mn_set_ghost now_set_ghost up_set_ghost tr_set_ghost
  mq_set_reqs bq_set_reqs mh_set_reqs bh_set_reqs reqs_set_reqs tbl_set_reqs mn_set_reqs now_set_reqs up_set_reqs tr_set_reqs
  mq_set_link bq_set_link mh_set_link bh_set_link reqs_set_link tbl_set_link mn_set_link now_set_link up_set_link tr_set_link : proj.

(* everything except the request list *)
Definition frame (s : state) :=
  (now s, block_holder s, block_q s, msg_holder s, msg_q s, (uart_present s, transport_open s, msg_next s, tbl s)).

Lemma frame_set_phase : forall s rid p, frame (set_phase s rid p) = frame s.
Proof. intros. unfold set_phase. destruct (get s rid); reflexivity. Qed.
Lemma frame_set_fut : forall s rid f, frame (set_fut s rid f) = frame s.
Proof. intros. unfold set_fut. destruct (get s rid); reflexivity. Qed.
Lemma frame_finish : forall s rid o, frame (finish s rid o) = frame s.
Proof. intros. unfold finish. destruct (get s rid); reflexivity. Qed.

Ltac frame_fields H :=
  unfold frame in H;
  let a := fresh "Fnow" in let b := fresh "Fbh" in let c := fresh "Fbq" in let d := fresh "Fmh" in let e := fresh "Fmq" in
  let f := fresh "Fup" in let g := fresh "Ftr" in let h := fresh "Fmn" in let i := fresh "Ftbl" in
  assert (a := f_equal (fun x => fst (fst (fst (fst (fst x))))) H);
  assert (b := f_equal (fun x => snd (fst (fst (fst (fst x))))) H);
  assert (c := f_equal (fun x => snd (fst (fst (fst x)))) H);
  assert (d := f_equal (fun x => snd (fst (fst x))) H);
  assert (e := f_equal (fun x => snd (fst x)) H);
  assert (f := f_equal (fun x => fst (fst (fst (snd x)))) H);
  assert (g := f_equal (fun x => snd (fst (fst (snd x)))) H);
  assert (h := f_equal (fun x => snd (fst (snd x))) H);
  assert (i := f_equal (fun x => snd (snd x)) H);
  cbn [fst snd] in a, b, c, d, e, f, g, h, i; clear H.

(* ====================================================================== *)
(* 1. fuel adequacy: the scheduler always drains its work list *)

(* the link invariant: a present uart has an open transport (close clears both, loss clears uart_present only) *)
Definition LI (s : state) : Prop := uart_present s = true -> transport_open s = true.

Lemma LI_link_of : forall s s', link_of s' = link_of s -> LI s -> LI s'.
Proof. intros s s' L H. unfold link_of in L. injection L as L1 L2 _ _. unfold LI in *. rewrite L1, L2. exact H. Qed.

Lemma LI_rel : forall s s', Rel s s' -> LI s -> LI s'.
Proof. intros s s' (L & _) H. exact (LI_link_of _ _ L H). Qed.

Lemma LI_step : forall s e, LI s -> LI (step s e).
Proof.
  intros s e H. destruct (link_event e) eqn:L.
  - destruct e; try discriminate; cbn [step].
    + unfold close. set (s0 := if uart_present s then _ else s).
      assert (H0 : LI s0) by (unfold s0; destruct (uart_present s); [intros X; discriminate X|exact H]).
      destruct (reset_in_progress s0); [exact H0|]. apply (LI_rel _ _ (rel_cancel_waiters _)). exact H0.
    + unfold lost. destruct (app_attached s && negb (reset_in_progress s)); intros X; discriminate X.
    + exact H.
    + exact H.
  - exact (LI_rel _ _ (rel_step s e L) H).
Qed.

Lemma LI_fold : forall evs s, LI s -> LI (fold_left step evs s).
Proof. induction evs as [|e evs IH]; intros s H; [exact H|]. cbn [fold_left]. apply IH. apply LI_step. exact H. Qed.
Theorem LI_reachable : forall evs, LI (run_events evs).
Proof. intros. apply LI_fold. intros _. reflexivity. Qed.

Fixpoint run' (fuel : nat) (s : state) (work : list (nat * nat)) : state * list (nat * nat) :=
  match fuel with
  | O => (s, work)
  | S fuel =>
      match work with
      | [] => (s, [])
      | (rid, tag) :: rest => let '(s1, front, back) := act s rid tag in run' fuel s1 (front ++ rest ++ back)
      end
  end.

Lemma run'_fst : forall fuel s w, fst (run' fuel s w) = run fuel s w.
Proof.
  induction fuel as [|fuel IH]; intros s w; [reflexivity|]. cbn [run run']. destruct w as [|[rid tag] rest]; [reflexivity|].
  destruct (act s rid tag) as [[s1 front] back]. apply IH.
Qed.

Definition wsum (w : list (nat * nat)) : nat := list_sum (map weight w).
Lemma wsum_app : forall a b, wsum (a ++ b) = (wsum a + wsum b)%nat.
Proof. intros. unfold wsum. rewrite map_app, list_sum_app. reflexivity. Qed.
Lemma wsum_cons : forall x a, wsum (x :: a) = (weight x + wsum a)%nat. Proof. reflexivity. Qed.
Lemma wsum_nil : wsum [] = 0%nat. Proof. reflexivity. Qed.
Lemma potential_eq : forall s w, potential s w = (wsum w + 3 * length (msg_q s) + 4 * length (block_q s))%nat.
Proof. reflexivity. Qed.
Lemma weight_pos : forall it, (1 <= weight it)%nat.
Proof. intros [r t]. unfold weight. cbn [snd]. destruct t as [|[|[|[|t]]]]; lia. Qed.

Definition nxt_items (t : nat) (nxt : option nat) : list (nat * nat) := match nxt with Some n => [(n, t)] | None => [] end.

Lemma msg_rel_pot : forall s rid,
  block_q (fst (msg_rel s rid)) = block_q s /\
  (3 * length (msg_q (fst (msg_rel s rid))) + wsum (nxt_items 1 (snd (msg_rel s rid))) <= 3 * length (msg_q s))%nat.
Proof.
  intros s rid. unfold msg_rel. destruct (holds_msg s rid); [|cbn [fst snd nxt_items]; rewrite wsum_nil; split; [reflexivity|lia]].
  destruct (msg_q s) as [|n q]; cbn [fst snd nxt_items]; autorewrite with proj; split; try reflexivity;
    rewrite ?wsum_cons, ?wsum_nil; cbn [length weight snd]; lia.
Qed.

Lemma blk_rel_pot : forall s rid,
  msg_q (fst (blk_rel s rid)) = msg_q s /\
  (4 * length (block_q (fst (blk_rel s rid))) + wsum (nxt_items 0 (snd (blk_rel s rid))) <= 4 * length (block_q s))%nat.
Proof.
  intros s rid. unfold blk_rel. destruct (holds_blk s rid); [|cbn [fst snd nxt_items]; rewrite wsum_nil; split; [reflexivity|lia]].
  destruct (block_q s) as [|n q]; cbn [fst snd nxt_items]; autorewrite with proj; split; try reflexivity;
    rewrite ?wsum_cons, ?wsum_nil; cbn [length weight snd]; lia.
Qed.

Lemma q_set_phase : forall s rid p, msg_q (set_phase s rid p) = msg_q s /\ block_q (set_phase s rid p) = block_q s.
Proof. intros. pose proof (frame_set_phase s rid p) as F. frame_fields F. split; assumption. Qed.
Lemma q_finish : forall s rid o, msg_q (finish s rid o) = msg_q s /\ block_q (finish s rid o) = block_q s.
Proof. intros. pose proof (frame_finish s rid o) as F. frame_fields F. split; assumption. Qed.
Lemma q_do_write : forall s rid, msg_q (do_write s rid) = msg_q s /\ block_q (do_write s rid) = block_q s.
Proof.
  intros. unfold do_write. destruct (transport_open s).
  - destruct (q_set_phase (set_link (emit (set_ghost s (S (msg_next s)) (tbl s)) (OW rid (msg_next s) (pack_seq s)))
       (pack_seq (emit (set_ghost s (S (msg_next s)) (tbl s)) (OW rid (msg_next s) (pack_seq s)))) (Some rid)
       (uart_present (emit (set_ghost s (S (msg_next s)) (tbl s)) (OW rid (msg_next s) (pack_seq s))))
       (transport_open (emit (set_ghost s (S (msg_next s)) (tbl s)) (OW rid (msg_next s) (pack_seq s))))
       (app_attached (emit (set_ghost s (S (msg_next s)) (tbl s)) (OW rid (msg_next s) (pack_seq s))))
       (reset_in_progress (emit (set_ghost s (S (msg_next s)) (tbl s)) (OW rid (msg_next s) (pack_seq s))))
       (rx_seq (emit (set_ghost s (S (msg_next s)) (tbl s)) (OW rid (msg_next s) (pack_seq s))))
       (now (emit (set_ghost s (S (msg_next s)) (tbl s)) (OW rid (msg_next s) (pack_seq s))))) rid (PAwaitAck (msg_next s) (now s + ack_timeout_ms))) as [A B].
    cbv zeta. rewrite A, B. split; reflexivity.
  - destruct (q_set_phase (emit (set_ghost s (S (msg_next s)) (tbl s)) (GSkip rid (msg_next s))) rid (PAwaitAck (msg_next s) (now s))) as [A B].
    rewrite A, B. split; reflexivity.
Qed.

Lemma msg_try_pot : forall s rid,
  block_q (fst (msg_try s rid)) = block_q s /\
  (if snd (msg_try s rid) then msg_q (fst (msg_try s rid)) = msg_q s
   else length (msg_q (fst (msg_try s rid))) = S (length (msg_q s))).
Proof.
  intros s rid. unfold msg_try. destruct (msg_holder s); [|destruct (msg_q s) eqn:E]; cbn [fst snd]; autorewrite with proj;
    split; try reflexivity; try (rewrite app_length; cbn [length]; lia).
Qed.

(* KEY: every scheduler step strictly decreases the potential *)
Lemma act_potential : forall s rid tag rest, LI s ->
  (potential (fst (fst (act s rid tag))) (snd (fst (act s rid tag)) ++ rest ++ snd (act s rid tag))
   < potential s ((rid, tag) :: rest))%nat.
Proof.
  intros s rid tag rest L. rewrite !potential_eq, !wsum_app, wsum_cons.
  pose proof (weight_pos (rid, tag)) as WP.
  unfold act. destruct (get s rid) as [r|]; [|cbn [fst snd]; rewrite wsum_nil; lia].
  destruct tag as [|[|[|[|t]]]]; cbn [weight snd] in *.
  - pose proof (msg_try_pot s rid) as [B M]. destruct (msg_try s rid) as [s1 got]. cbn [fst snd] in B, M.
    destruct got; cbn [fst snd].
    + rewrite B, M, wsum_cons, !wsum_nil. cbn [weight snd]. lia.
    + destruct (q_set_phase s1 rid PQMsg) as [A1 A2]. rewrite A1, A2, B, M, !wsum_nil. lia.
  - destruct (uart_present s) eqn:U; cbn [negb].
    + destruct (may_write s rid); [|cbn [fst snd]; rewrite wsum_nil; lia].
      rewrite (L U). cbn [fst snd]. destruct (q_do_write s rid) as [A1 A2]. rewrite A1, A2, wsum_nil. lia.
    + cbn [fst snd]. destruct (q_finish s rid ORuntime) as [A1 A2]. rewrite A1, A2, !wsum_cons, !wsum_nil. cbn [weight snd]. lia.
  - destruct (r_phase r) as [| |k d| |]; try (cbn [fst snd]; rewrite wsum_nil; lia).
    destruct (S k <? r_nfrags r)%nat; [cbn [fst snd]; rewrite wsum_cons, !wsum_nil; cbn [weight snd]; lia|].
    pose proof (msg_rel_pot s rid) as [B M]. destruct (msg_rel s rid) as [s0 nxt]. cbn [fst snd] in B, M.
    fold (nxt_items 1 nxt).
    destruct (r_fut r); cbn [fst snd].
    + destruct (q_set_phase s0 rid (PAwaitRsp (now s + r_timeout r))) as [A1 A2]. rewrite A1, A2, B, wsum_nil. lia.
    + destruct (q_finish s0 rid ORsp) as [A1 A2]. rewrite A1, A2, B, wsum_cons, wsum_nil. cbn [weight snd]. lia.
    + destruct (q_finish s0 rid OCancelled) as [A1 A2]. rewrite A1, A2, B, wsum_cons, wsum_nil. cbn [weight snd]. lia.
  - pose proof (msg_rel_pot s rid) as [B M]. destruct (msg_rel s rid) as [s0 nxt]. cbn [fst snd] in B, M |- *.
    fold (nxt_items 1 nxt). rewrite B, wsum_nil. lia.
  - pose proof (blk_rel_pot s rid) as [B M]. destruct (blk_rel s rid) as [s0 nxt]. cbn [fst snd] in B, M |- *.
    fold (nxt_items 0 nxt). rewrite B, wsum_nil. lia.
Qed.

Lemma LI_act : forall s rid tag, LI s -> LI (fst (fst (act s rid tag))).
Proof. intros s rid tag. apply LI_rel. apply rel_act. Qed.

Lemma run'_drains : forall fuel s w, LI s -> (potential s w < fuel)%nat -> snd (run' fuel s w) = [].
Proof.
  induction fuel as [|fuel IH]; intros s w L H; [lia|]. cbn [run']. destruct w as [|[rid tag] rest]; [reflexivity|].
  pose proof (act_potential s rid tag rest L) as P. pose proof (LI_act s rid tag L) as L1.
  destruct (act s rid tag) as [[s1 front] back]. cbn [fst snd] in P, L1. apply IH; [exact L1|lia].
Qed.

(* ITEM 1: settle never stops for lack of fuel *)
Theorem settle_drains : forall s w, LI s -> snd (run' (S (potential s w)) s w) = [].
Proof. intros s w L. apply run'_drains; [exact L|lia]. Qed.
Print Assumptions settle_drains.

(* more fuel than needed changes nothing: settle is the unbounded scheduler *)
Lemma run_more_fuel : forall fuel s w, LI s -> (potential s w < fuel)%nat -> forall extra, run (extra + fuel) s w = run fuel s w.
Proof.
  induction fuel as [|fuel IH]; intros s w L H extra; [lia|]. rewrite Nat.add_succ_r. cbn [run]. destruct w as [|[rid tag] rest]; [reflexivity|].
  pose proof (act_potential s rid tag rest L) as P. pose proof (LI_act s rid tag L) as L1.
  destruct (act s rid tag) as [[s1 front] back]. cbn [fst snd] in P, L1. apply IH; [exact L1|lia].
Qed.

(* ====================================================================== *)
(* 2. the run invariant RI s work and the quiescent invariant Q s = RI s [] *)

Definition mem (x : nat) (l : list nat) : bool := existsb (fun y => (y =? x)%nat) l.
Definition tags (w : list (nat * nat)) (id : nat) : list nat := map snd (filter (fun it => (fst it =? id)%nat) w).
Definition lookupt (tb : list (nat * (bool * nat))) (rid : nat) : option (bool * nat) :=
  match find (fun e => (fst e =? rid)%nat) tb with Some e => Some (snd e) | None => None end.
Definition ids (s : state) : list nat := map r_id (reqs s).

(* the thread of work items of one request *)
Inductive sit := Idle | T0 | T1 | T2 | T34 | T4 | Bad.
Definition sit_of (tg : list nat) : sit :=
  match tg with
  | [] => Idle
  | [t] => match t with 0 => T0 | 1 => T1 | 2 => T2 | 4 => T4 | _ => Bad end
  | [3; 4] => T34
  | _ => Bad
  end%nat.

(* what a request in situation st / phase ph must hold: (holds msg lock, holds blocking lock, in msg_q, in block_q) *)
Definition okv (st : sit) (hm hb inm inb : bool) (lk : option (bool * nat)) (mn : nat) (t : N) (r : req) : Prop :=
  (is_done r = false -> lk = Some (r_blocking r, r_nfrags r) /\ (1 <= r_nfrags r)%nat) /\
  match st, r_phase r with
  | Idle, PQBlock => (hm, hb, inm, inb) = (false, false, false, true) /\ r_blocking r = true
  | Idle, PQMsg => (hm, hb, inm, inb) = (false, r_blocking r, true, false)
  | Idle, PAwaitAck k d => (hm, hb, inm, inb) = (true, r_blocking r, false, false) /\
                           mn = S k /\ (k < r_nfrags r)%nat /\ d <= t + ack_timeout_ms
  | Idle, PAwaitRsp d => (hm, hb, inm, inb) = (false, r_blocking r, false, false) /\ d <= t + r_timeout r
  | Idle, PDone _ => (hm, hb, inm, inb) = (false, false, false, false)
  | T0, PQBlock | T0, PQMsg => (hm, hb, inm, inb) = (false, r_blocking r, false, false)
  | T1, PQBlock | T1, PQMsg | T1, PAwaitAck _ _ => (hm, hb, inm, inb) = (true, r_blocking r, false, false) /\ (mn < r_nfrags r)%nat
  | T2, PAwaitAck k _ => (hm, hb, inm, inb) = (true, r_blocking r, false, false) /\ mn = S k /\ (k < r_nfrags r)%nat
  | T34, PDone _ => (hm, hb, inm, inb) = (true, r_blocking r, false, false)
  | T4, PDone _ => (hm, hb, inm, inb) = (false, r_blocking r, false, false)
  | _, _ => False
  end.

Definition okf (w : list (nat * nat)) (mh bh : option nat) (mq bq : list nat) (tb : list (nat * (bool * nat)))
               (mn : nat) (t : N) (r : req) : Prop :=
  okv (sit_of (tags w (r_id r))) (holds mh (r_id r)) (holds bh (r_id r)) (mem (r_id r) mq) (mem (r_id r) bq)
      (lookupt tb (r_id r)) mn t r.
Definition ok (s : state) (w : list (nat * nat)) (r : req) : Prop :=
  okf w (msg_holder s) (block_holder s) (msg_q s) (block_q s) (tbl s) (msg_next s) (now s) r.

(* the global part: depends on the locks, the ghost table and the ids only *)
Record RG (s : state) : Prop := {
  rg_ids : NoDup (ids s);
  rg_mq : NoDup (msg_q s);
  rg_bq : NoDup (block_q s);
  rg_mh : msg_holder s = None -> msg_q s = [];
  rg_bh : block_holder s = None -> block_q s = [];
  rg_kmq : forall id, In id (msg_q s) -> In id (ids s);
  rg_kbq : forall id, In id (block_q s) -> In id (ids s);
  rg_kmh : forall h, msg_holder s = Some h -> In h (ids s);
  rg_kbh : forall h, block_holder s = Some h -> In h (ids s);
  rg_tbl : forall id, lookupt (tbl s) id <> None -> In id (ids s)
}.

Definition RI (s : state) (w : list (nat * nat)) : Prop := RG s /\ forall r, In r (reqs s) -> ok s w r.
Definition Q (s : state) : Prop := RI s [].

(* ---- small facts ---- *)
Lemma lookup_lookupt : forall s rid, lookup s rid = lookupt (tbl s) rid. Proof. reflexivity. Qed.
Lemma holds_msg_holds : forall s rid, holds_msg s rid = holds (msg_holder s) rid. Proof. reflexivity. Qed.
Lemma holds_blk_holds : forall s rid, holds_blk s rid = holds (block_holder s) rid. Proof. reflexivity. Qed.

Lemma mem_In : forall x l, mem x l = true <-> In x l.
Proof.
  intros x l. unfold mem. rewrite existsb_exists. split.
  - intros (y & Hy & E). apply Nat.eqb_eq in E. subst y. exact Hy.
  - intros H. exists x. split; [exact H|apply Nat.eqb_refl].
Qed.
Lemma mem_false : forall x l, mem x l = false <-> ~ In x l.
Proof. intros x l. rewrite <- mem_In. destruct (mem x l); split; congruence. Qed.
Lemma mem_app : forall x a b, mem x (a ++ b) = mem x a || mem x b.
Proof. intros. unfold mem. apply existsb_app. Qed.
Lemma mem_cons : forall x y l, mem x (y :: l) = (y =? x)%nat || mem x l. Proof. reflexivity. Qed.
Lemma mem_nil : forall x, mem x [] = false. Proof. reflexivity. Qed.
Lemma mem_remove : forall x y l, mem x (remove y l) = negb (x =? y)%nat && mem x l.
Proof.
  intros x y l. induction l as [|z l IH]; [rewrite andb_false_r; reflexivity|].
  unfold remove in *. cbn [filter]. destruct (z =? y)%nat eqn:E; cbn [negb].
  - rewrite IH, mem_cons. apply Nat.eqb_eq in E. subst z. destruct (x =? y)%nat eqn:E2; cbn [negb andb]; [reflexivity|].
    rewrite Nat.eqb_sym, E2. reflexivity.
  - rewrite !mem_cons, IH. destruct (z =? x)%nat eqn:E2; cbn [orb]; [|reflexivity].
    apply Nat.eqb_eq in E2. subst z. rewrite E. reflexivity.
Qed.

Lemma tags_nil : forall id, tags [] id = []. Proof. reflexivity. Qed.
Lemma tags_cons : forall a t l id, tags ((a, t) :: l) id = if (a =? id)%nat then t :: tags l id else tags l id.
Proof. intros. unfold tags. cbn [filter fst]. destruct (a =? id)%nat; reflexivity. Qed.
Lemma tags_app : forall a b id, tags (a ++ b) id = tags a id ++ tags b id.
Proof. intros. unfold tags. rewrite filter_app, map_app. reflexivity. Qed.
Lemma tags_nxt_ne : forall t nxt id, (forall n, nxt = Some n -> n <> id) -> tags (nxt_items t nxt) id = [].
Proof.
  intros t [n|] id H; [|reflexivity]. cbn [nxt_items]. rewrite tags_cons.
  destruct (n =? id)%nat eqn:E; [|reflexivity]. apply Nat.eqb_eq in E. exfalso. exact (H n eq_refl E).
Qed.

Lemma holds_some : forall h id, holds (Some h) id = (h =? id)%nat. Proof. reflexivity. Qed.
Lemma holds_none : forall id, holds None id = false. Proof. reflexivity. Qed.

Lemma get_In : forall s rid r, get s rid = Some r -> In r (reqs s) /\ r_id r = rid.
Proof. intros s rid r H. unfold get in H. apply find_some in H. destruct H as [A B]. apply Nat.eqb_eq in B. split; assumption. Qed.
Lemma get_ids : forall s rid, get s rid <> None <-> In rid (ids s).
Proof.
  intros s rid. unfold get, ids. split.
  - intros H. destruct (find _ (reqs s)) as [r|] eqn:E; [|congruence]. apply find_some in E. destruct E as [A B].
    apply Nat.eqb_eq in B. subst rid. apply in_map. exact A.
  - intros H E. apply in_map_iff in H. destruct H as (r & A & B). pose proof (find_none _ _ E r B) as C. cbn beta in C.
    rewrite A, Nat.eqb_refl in C. discriminate C.
Qed.
Lemma get_unique : forall s rid r x, NoDup (ids s) -> get s rid = Some r -> In x (reqs s) -> r_id x = rid -> x = r.
Proof.
  intros s rid r x. unfold get, ids. induction (reqs s) as [|y l IH]; intros N G I E; [destruct I|].
  cbn [find] in G. cbn [map] in N. inversion N as [|? ? N1 N2]; subst.
  destruct (r_id y =? r_id x)%nat eqn:Ey.
  - assert (y = r) by congruence. subst y. destruct I as [I|I]; [symmetry; exact I|].
    exfalso. apply N1. apply Nat.eqb_eq in Ey. rewrite Ey. apply in_map. exact I.
  - destruct I as [I|I]; [subst y; rewrite Nat.eqb_refl in Ey; discriminate Ey|]. apply IH; auto.
Qed.

Lemma ids_put : forall s r', ids (put s r') = ids s.
Proof.
  intros. unfold ids, put. cbn [set_reqs reqs]. rewrite map_map. apply map_ext_in. intros x _.
  destruct (r_id x =? r_id r')%nat eqn:E; [apply Nat.eqb_eq in E; symmetry; exact E|reflexivity].
Qed.
Lemma reqs_put_cases : forall s r' x, In x (reqs (put s r')) -> x = r' \/ (In x (reqs s) /\ r_id x <> r_id r').
Proof.
  intros s r' x H. unfold put in H. cbn [set_reqs reqs] in H. apply in_map_iff in H. destruct H as (y & E & Hy).
  destruct (r_id y =? r_id r')%nat eqn:Ey; [left; symmetry; exact E|right]. subst x. split; [exact Hy|]. apply Nat.eqb_neq. exact Ey.
Qed.

(* ---- consequences of okv ---- *)
Ltac okv_split H :=
  let HL := fresh "HL" in let HP := fresh "HP" in destruct H as [HL HP].

Lemma okv_inm : forall st hm hb inb lk mn t r, okv st hm hb true inb lk mn t r ->
  st = Idle /\ r_phase r = PQMsg /\ hm = false /\ hb = r_blocking r /\ inb = false.
Proof.
  intros st hm hb inb lk mn t r [HL HP].
  destruct st; destruct (r_phase r); try contradiction; repeat match goal with H : _ /\ _ |- _ => destruct H end;
    try congruence. repeat split; congruence.
Qed.
Lemma okv_inb : forall st hm hb inm lk mn t r, okv st hm hb inm true lk mn t r ->
  st = Idle /\ r_phase r = PQBlock /\ hm = false /\ hb = false /\ inm = false /\ r_blocking r = true.
Proof.
  intros st hm hb inm lk mn t r [HL HP].
  destruct st; destruct (r_phase r); try contradiction; repeat match goal with H : _ /\ _ |- _ => destruct H end;
    try congruence. repeat split; congruence.
Qed.
Lemma okv_idle_hm : forall hb inm inb lk mn t r, okv Idle true hb inm inb lk mn t r ->
  exists k d, r_phase r = PAwaitAck k d.
Proof.
  intros hb inm inb lk mn t r [HL HP].
  destruct (r_phase r) as [| |k d| |]; try contradiction; repeat match goal with H : _ /\ _ |- _ => destruct H end;
    try congruence. exists k, d. reflexivity.
Qed.
Lemma okv_mn : forall st hb inm inb lk mn mn' t r, okv st false hb inm inb lk mn t r -> okv st false hb inm inb lk mn' t r.
Proof.
  intros st hb inm inb lk mn mn' t r [HL HP]. split; [exact HL|].
  destruct st; destruct (r_phase r); try contradiction; repeat match goal with H : _ /\ _ |- _ => destruct H end;
    try congruence; repeat split; assumption.
Qed.
Lemma okv_now : forall st hm hb inm inb lk mn t t' r, t <= t' -> okv st hm hb inm inb lk mn t r -> okv st hm hb inm inb lk mn t' r.
Proof.
  intros st hm hb inm inb lk mn t t' r LE [HL HP]. split; [exact HL|].
  destruct st; destruct (r_phase r); try contradiction; try exact HP.
  - destruct HP as (A & B & C & D). repeat split; try assumption. lia.
  - destruct HP as (A & B). split; [exact A|lia].
Qed.

(* a request untouched by a step keeps its status *)
Lemma ok_other : forall w w' mh mh' bh bh' mq mq' bq bq' tb tb' mn mn' t t' x,
  tags w' (r_id x) = tags w (r_id x) ->
  holds mh' (r_id x) = holds mh (r_id x) -> holds bh' (r_id x) = holds bh (r_id x) ->
  mem (r_id x) mq' = mem (r_id x) mq -> mem (r_id x) bq' = mem (r_id x) bq ->
  lookupt tb' (r_id x) = lookupt tb (r_id x) ->
  (mn' = mn \/ holds mh (r_id x) = false) -> t <= t' ->
  okf w mh bh mq bq tb mn t x -> okf w' mh' bh' mq' bq' tb' mn' t' x.
Proof.
  intros w w' mh mh' bh bh' mq mq' bq bq' tb tb' mn mn' t t' x E1 E2 E3 E4 E5 E6 M T H.
  unfold okf in *. rewrite E1, E2, E3, E4, E5, E6. apply (okv_now _ _ _ _ _ _ _ t t' _ T).
  destruct M as [M|M]; [rewrite M; exact H|]. rewrite M in *. exact (okv_mn _ _ _ _ _ _ _ _ _ H).
Qed.

(* the global part only depends on the frame and the ids *)
Lemma RG_frame : forall s s', frame s' = frame s -> ids s' = ids s -> RG s -> RG s'.
Proof.
  intros s s' F I [A1 A2 A3 A4 A5 A6 A7 A8 A9 A10]. frame_fields F.
  constructor; rewrite ?I, ?Fmq, ?Fbq, ?Fmh, ?Fbh, ?Ftbl; assumption.
Qed.

Lemma ids_set_phase : forall s rid p, ids (set_phase s rid p) = ids s.
Proof. intros. unfold set_phase. destruct (get s rid); [apply ids_put|reflexivity]. Qed.
Lemma ids_set_fut : forall s rid f, ids (set_fut s rid f) = ids s.
Proof. intros. unfold set_fut. destruct (get s rid); [apply ids_put|reflexivity]. Qed.
Lemma ids_finish : forall s rid o, ids (finish s rid o) = ids s.
Proof. intros. unfold finish. destruct (get s rid); [|reflexivity]. unfold ids. rewrite reqs_emit. apply ids_put. Qed.

(* ---- effect of the lock primitives ---- *)
(* fields the lock primitives never touch *)
Definition base (s : state) := (now s, reqs s, tbl s, (uart_present s, transport_open s)).

Lemma msg_rel_spec : forall s rid, holds_msg s rid = true ->
  base (fst (msg_rel s rid)) = base s /\
  block_holder (fst (msg_rel s rid)) = block_holder s /\ block_q (fst (msg_rel s rid)) = block_q s /\
  ((msg_q s = [] /\ snd (msg_rel s rid) = None /\ msg_holder (fst (msg_rel s rid)) = None /\
    msg_q (fst (msg_rel s rid)) = [] /\ msg_next (fst (msg_rel s rid)) = msg_next s) \/
   (exists n q, msg_q s = n :: q /\ snd (msg_rel s rid) = Some n /\ msg_holder (fst (msg_rel s rid)) = Some n /\
    msg_q (fst (msg_rel s rid)) = q /\ msg_next (fst (msg_rel s rid)) = 0%nat)).
Proof.
  intros s rid H. unfold msg_rel. rewrite H. destruct (msg_q s) as [|n q]; cbn [fst snd].
  - repeat split. left. repeat split.
  - repeat split. right. exists n, q. repeat split.
Qed.

Lemma blk_rel_spec : forall s rid, holds_blk s rid = true ->
  base (fst (blk_rel s rid)) = base s /\
  msg_holder (fst (blk_rel s rid)) = msg_holder s /\ msg_q (fst (blk_rel s rid)) = msg_q s /\
  msg_next (fst (blk_rel s rid)) = msg_next s /\
  ((block_q s = [] /\ snd (blk_rel s rid) = None /\ block_holder (fst (blk_rel s rid)) = None /\
    block_q (fst (blk_rel s rid)) = []) \/
   (exists n q, block_q s = n :: q /\ snd (blk_rel s rid) = Some n /\ block_holder (fst (blk_rel s rid)) = Some n /\
    block_q (fst (blk_rel s rid)) = q)).
Proof.
  intros s rid H. unfold blk_rel. rewrite H. destruct (block_q s) as [|n q]; cbn [fst snd].
  - repeat split. left. repeat split.
  - repeat split. right. exists n, q. repeat split.
Qed.

Lemma holds_true : forall o rid, holds o rid = true -> o = Some rid.
Proof. intros [h|] rid H; [|discriminate H]. apply Nat.eqb_eq in H. congruence. Qed.

Ltac base_fields H :=
  unfold base in H;
  let a := fresh "Bnow" in let b := fresh "Breqs" in let c := fresh "Btbl" in let d := fresh "Bup" in let e := fresh "Btr" in
  assert (a := f_equal (fun x => fst (fst (fst x))) H);
  assert (b := f_equal (fun x => snd (fst (fst x))) H);
  assert (c := f_equal (fun x => snd (fst x)) H);
  assert (d := f_equal (fun x => fst (snd x)) H);
  assert (e := f_equal (fun x => snd (snd x)) H);
  cbn [fst snd] in a, b, c, d, e; clear H.

Lemma ids_reqs : forall s s', reqs s' = reqs s -> ids s' = ids s. Proof. intros s s' H. unfold ids. rewrite H. reflexivity. Qed.
Lemma get_reqs : forall s s' rid, reqs s' = reqs s -> get s' rid = get s rid. Proof. intros s s' rid H. unfold get. rewrite H. reflexivity. Qed.

Lemma RG_msg_rel : forall s rid, RG s -> RG (fst (msg_rel s rid)).
Proof.
  intros s rid G. destruct (holds_msg s rid) eqn:H; [|unfold msg_rel; rewrite H; exact G].
  destruct (msg_rel_spec s rid H) as (B & E1 & E2 & C). set (s0 := fst (msg_rel s rid)) in *. base_fields B.
  pose proof (ids_reqs _ _ Breqs) as I. destruct G as [A1 A2 A3 A4 A5 A6 A7 A8 A9 A10].
  destruct C as [(Q0 & _ & C1 & C2 & _)|(n & q & Q0 & _ & C1 & C2 & _)];
    constructor; rewrite ?I, ?E1, ?E2, ?C1, ?C2, ?Btbl; try assumption; try (intros; discriminate); try constructor; try contradiction.
  - rewrite Q0 in A2. inversion A2; assumption.
  - intros id Hid. apply A6. rewrite Q0. right. exact Hid.
  - intros h Hh. apply A6. rewrite Q0. left. congruence.
Qed.

Lemma RG_blk_rel : forall s rid, RG s -> RG (fst (blk_rel s rid)).
Proof.
  intros s rid G. destruct (holds_blk s rid) eqn:H; [|unfold blk_rel; rewrite H; exact G].
  destruct (blk_rel_spec s rid H) as (B & E1 & E2 & _ & C). set (s0 := fst (blk_rel s rid)) in *. base_fields B.
  pose proof (ids_reqs _ _ Breqs) as I. destruct G as [A1 A2 A3 A4 A5 A6 A7 A8 A9 A10].
  destruct C as [(Q0 & _ & C1 & C2)|(n & q & Q0 & _ & C1 & C2)];
    constructor; rewrite ?I, ?E1, ?E2, ?C1, ?C2, ?Btbl; try assumption; try (intros; discriminate); try constructor; try contradiction.
  - rewrite Q0 in A3. inversion A3; assumption.
  - intros id Hid. apply A7. rewrite Q0. right. exact Hid.
  - intros h Hh. apply A7. rewrite Q0. left. congruence.
Qed.

Lemma sit_idle : forall l, sit_of l = Idle -> l = [].
Proof. intros [|[|[|[|[|[|t]]]]] [|[|[|[|[|[|u]]]]] [|? ?]]]; cbn; intros H; try discriminate H; reflexivity. Qed.

Lemma neq_eqb : forall a b : nat, a <> b -> (a =? b)%nat = false. Proof. intros. apply Nat.eqb_neq. assumption. Qed.
Lemma neq_eqb' : forall a b : nat, a <> b -> (b =? a)%nat = false. Proof. intros. apply Nat.eqb_neq. auto. Qed.

(* releasing the message lock: effect on the requests other than the releasing one *)
Lemma ok_others_msg_rel : forall s rid w w' x, RG s -> holds_msg s rid = true ->
  r_id x <> rid -> ok s w x ->
  tags w' (r_id x) = tags w (r_id x) ++ tags (nxt_items 1 (snd (msg_rel s rid))) (r_id x) ->
  ok (fst (msg_rel s rid)) w' x.
Proof.
  intros s rid w w' x G H NE OKx TG.
  destruct (msg_rel_spec s rid H) as (B & E1 & E2 & C). set (s0 := fst (msg_rel s rid)) in *. base_fields B.
  rewrite holds_msg_holds in H. apply holds_true in H.
  unfold ok in *. rewrite E1, E2, Btbl, Bnow.
  destruct C as [(Q0 & N0 & C1 & C2 & C3)|(n & q & Q0 & N0 & C1 & C2 & C3)]; rewrite C1, C2, C3; rewrite N0 in TG.
  - revert OKx. apply ok_other; try reflexivity.
    + rewrite TG. cbn [nxt_items]. rewrite tags_nil, app_nil_r. reflexivity.
    + rewrite H, holds_some, holds_none. symmetry. apply neq_eqb'. exact NE.
    + rewrite Q0. reflexivity.
    + left; reflexivity.
  - cbn [nxt_items] in TG. rewrite tags_cons, tags_nil in TG. destruct (n =? r_id x)%nat eqn:En.
    + (* x is the successor *)
      apply Nat.eqb_eq in En. unfold okf in *. rewrite Q0, mem_cons, (proj2 (Nat.eqb_eq _ _) En) in OKx. cbn [orb] in OKx.
      destruct (okv_inm _ _ _ _ _ _ _ _ OKx) as (S1 & P1 & H1 & H2 & H3). apply sit_idle in S1. rewrite S1 in TG. cbn [app] in TG.
      rewrite TG. cbn [sit_of]. rewrite holds_some, (proj2 (Nat.eqb_eq _ _) En).
      destruct OKx as [HL _]. split; [exact HL|]. rewrite P1.
      assert (D : is_done x = false) by (unfold is_done; rewrite P1; reflexivity). destruct (HL D) as [_ NF].
      assert (M : mem (r_id x) q = false).
      { apply mem_false. destruct G as [_ A2 _ _ _ _ _ _ _ _]. rewrite Q0 in A2. inversion A2; subst. congruence. }
      rewrite M, H2, H3. split; [reflexivity|lia].
    + revert OKx. apply ok_other; try reflexivity.
      * rewrite TG, app_nil_r. reflexivity.
      * rewrite H, !holds_some, En. symmetry. apply neq_eqb. auto.
      * rewrite Q0, mem_cons, En. reflexivity.
      * right. rewrite H, holds_some. apply neq_eqb. auto.
Qed.

Lemma ok_others_blk_rel : forall s rid w w' x, RG s -> holds_blk s rid = true ->
  r_id x <> rid -> ok s w x ->
  tags w' (r_id x) = tags w (r_id x) ++ tags (nxt_items 0 (snd (blk_rel s rid))) (r_id x) ->
  ok (fst (blk_rel s rid)) w' x.
Proof.
  intros s rid w w' x G H NE OKx TG.
  destruct (blk_rel_spec s rid H) as (B & E1 & E2 & E3 & C). set (s0 := fst (blk_rel s rid)) in *. base_fields B.
  rewrite holds_blk_holds in H. apply holds_true in H.
  unfold ok in *. rewrite E1, E2, E3, Btbl, Bnow.
  destruct C as [(Q0 & N0 & C1 & C2)|(n & q & Q0 & N0 & C1 & C2)]; rewrite C1, C2; rewrite N0 in TG.
  - revert OKx. apply ok_other; try reflexivity.
    + rewrite TG. cbn [nxt_items]. rewrite tags_nil, app_nil_r. reflexivity.
    + rewrite H, holds_some, holds_none. symmetry. apply neq_eqb'. exact NE.
    + rewrite Q0. reflexivity.
    + left; reflexivity.
  - cbn [nxt_items] in TG. rewrite tags_cons, tags_nil in TG. destruct (n =? r_id x)%nat eqn:En.
    + apply Nat.eqb_eq in En. unfold okf in *. rewrite Q0, mem_cons, (proj2 (Nat.eqb_eq _ _) En) in OKx. cbn [orb] in OKx.
      destruct (okv_inb _ _ _ _ _ _ _ _ OKx) as (S1 & P1 & H1 & H2 & H3 & H4). apply sit_idle in S1. rewrite S1 in TG. cbn [app] in TG.
      rewrite TG. cbn [sit_of]. rewrite holds_some, (proj2 (Nat.eqb_eq _ _) En).
      destruct OKx as [HL _]. split; [exact HL|]. rewrite P1.
      assert (M : mem (r_id x) q = false).
      { apply mem_false. destruct G as [_ _ A3 _ _ _ _ _ _ _]. rewrite Q0 in A3. inversion A3; subst. congruence. }
      rewrite M, H1, H3, H4. reflexivity.
    + revert OKx. apply ok_other; try reflexivity.
      * rewrite TG, app_nil_r. reflexivity.
      * rewrite H, !holds_some, En. symmetry. apply neq_eqb. auto.
      * rewrite Q0, mem_cons, En. reflexivity.
      * left; reflexivity.
Qed.

Lemma ok_frame : forall s s' w x, frame s' = frame s -> ok s w x -> ok s' w x.
Proof. intros s s' w x F H. frame_fields F. unfold ok in *. rewrite Fmh, Fbh, Fmq, Fbq, Ftbl, Fmn, Fnow. exact H. Qed.

Definition fin (r : req) (o : outcome) : req :=
  upd_req r (PDone o) (match r_fut r with FPending => FCancelled | f => f end).
Lemma finish_get : forall s rid r o, get s rid = Some r -> finish s rid o = emit (put s (fin r o)) (OE rid o).
Proof. intros s rid r o H. unfold finish. rewrite H. reflexivity. Qed.
Lemma set_phase_get : forall s rid r p, get s rid = Some r -> set_phase s rid p = put s (upd_req r p (r_fut r)).
Proof. intros s rid r p H. unfold set_phase. rewrite H. reflexivity. Qed.
Lemma set_fut_get : forall s rid r f, get s rid = Some r -> set_fut s rid f = put s (upd_req r (r_phase r) f).
Proof. intros s rid r f H. unfold set_fut. rewrite H. reflexivity. Qed.

Lemma reqs_finish_cases : forall s rid r o x, get s rid = Some r -> In x (reqs (finish s rid o)) ->
  x = fin r o \/ (In x (reqs s) /\ r_id x <> rid).
Proof.
  intros s rid r o x G H. rewrite (finish_get _ _ _ _ G), reqs_emit in H. apply reqs_put_cases in H.
  destruct (get_In _ _ _ G) as [_ E]. cbn [fin upd_req r_id] in H. rewrite E in H. exact H.
Qed.
Lemma reqs_set_phase_cases : forall s rid r p x, get s rid = Some r -> In x (reqs (set_phase s rid p)) ->
  x = upd_req r p (r_fut r) \/ (In x (reqs s) /\ r_id x <> rid).
Proof.
  intros s rid r p x G H. rewrite (set_phase_get _ _ _ _ G) in H. apply reqs_put_cases in H.
  destruct (get_In _ _ _ G) as [_ E]. cbn [upd_req r_id] in H. rewrite E in H. exact H.
Qed.
Lemma reqs_same_cases : forall s rid r x, NoDup (ids s) -> get s rid = Some r -> In x (reqs s) ->
  x = r \/ (In x (reqs s) /\ r_id x <> rid).
Proof.
  intros s rid r x N G H. destruct (Nat.eq_dec (r_id x) rid) as [E|E]; [left; exact (get_unique _ _ _ _ N G H E)|right; split; assumption].
Qed.

(* assembling RI after a step that changed (at most) the record of request rid *)
Lemma RI_upd : forall s s' w w' rid r',
  RG s' ->
  (forall x, In x (reqs s') -> x = r' \/ (In x (reqs s) /\ r_id x <> rid)) ->
  ok s' w' r' ->
  (forall x, In x (reqs s) -> r_id x <> rid -> ok s w x -> ok s' w' x) ->
  RI s w -> RI s' w'.
Proof.
  intros s s' w w' rid r' G C O1 O2 [_ A]. split; [exact G|]. intros x Hx. destruct (C x Hx) as [E|[I NE]]; [subst x; exact O1|].
  apply O2; auto.
Qed.

(* the head item's own thread *)
Lemma sit_head : forall t l, sit_of (t :: l) <> Bad ->
  (t = 3 /\ l = [4])%nat \/ (l = [] /\ (t = 0 \/ t = 1 \/ t = 2 \/ t = 4))%nat.
Proof.
  intros t l H. destruct l as [|u l].
  - right. split; [reflexivity|]. destruct t as [|[|[|[|[|t]]]]]; cbn in H; try congruence; auto.
  - left. destruct t as [|[|[|[|t]]]]; cbn in H; try congruence.
    destruct u as [|[|[|[|[|u]]]]]; cbn in H; try congruence. destruct l; [auto|congruence].
Qed.
Lemma okv_not_bad : forall hm hb inm inb lk mn t r, ~ okv Bad hm hb inm inb lk mn t r.
Proof. intros hm hb inm inb lk mn t r [_ H]. destruct (r_phase r); exact H. Qed.

(* ok of the acting request: its situation, given the tag *)
Lemma ok_head : forall s rid tag rest r, r_id r = rid -> ok s ((rid, tag) :: rest) r ->
  okv (sit_of (tag :: tags rest rid)) (holds (msg_holder s) rid) (holds (block_holder s) rid) (mem rid (msg_q s))
      (mem rid (block_q s)) (lookupt (tbl s) rid) (msg_next s) (now s) r /\
  ((tag = 3 /\ tags rest rid = [4])%nat \/ (tags rest rid = [] /\ (tag = 0 \/ tag = 1 \/ tag = 2 \/ tag = 4))%nat).
Proof.
  intros s rid tag rest r E H. unfold ok, okf in H. rewrite E, tags_cons, Nat.eqb_refl in H. split; [exact H|].
  apply sit_head. intros B. rewrite B in H. exact (okv_not_bad _ _ _ _ _ _ _ _ H).
Qed.

Lemma msg_rel_own : forall s rid, holds_msg s rid = true -> mem rid (msg_q s) = false ->
  holds (msg_holder (fst (msg_rel s rid))) rid = false /\ mem rid (msg_q (fst (msg_rel s rid))) = false /\
  tags (nxt_items 1 (snd (msg_rel s rid))) rid = [].
Proof.
  intros s rid H M. destruct (msg_rel_spec s rid H) as (_ & _ & _ & C).
  destruct C as [(Q0 & N0 & C1 & C2 & C3)|(n & q & Q0 & N0 & C1 & C2 & C3)]; rewrite C1, C2, N0.
  - repeat split.
  - rewrite Q0, mem_cons in M. apply orb_false_elim in M. destruct M as [M1 M2].
    cbn [nxt_items]. rewrite tags_cons, holds_some, M1. repeat split. exact M2.
Qed.
Lemma blk_rel_own : forall s rid, holds_blk s rid = true -> mem rid (block_q s) = false ->
  holds (block_holder (fst (blk_rel s rid))) rid = false /\ mem rid (block_q (fst (blk_rel s rid))) = false /\
  tags (nxt_items 0 (snd (blk_rel s rid))) rid = [].
Proof.
  intros s rid H M. destruct (blk_rel_spec s rid H) as (_ & _ & _ & _ & C).
  destruct C as [(Q0 & N0 & C1 & C2)|(n & q & Q0 & N0 & C1 & C2)]; rewrite C1, C2, N0.
  - repeat split.
  - rewrite Q0, mem_cons in M. apply orb_false_elim in M. destruct M as [M1 M2].
    cbn [nxt_items]. rewrite tags_cons, holds_some, M1. repeat split. exact M2.
Qed.

Lemma RI_drop : forall s rid tag rest, get s rid = None -> RI s ((rid, tag) :: rest) -> RI s rest.
Proof.
  intros s rid tag rest G [A B]. split; [exact A|]. intros x Hx. specialize (B x Hx). unfold ok, okf in *.
  rewrite tags_cons in B. destruct (rid =? r_id x)%nat eqn:E; [|exact B]. apply Nat.eqb_eq in E. exfalso.
  assert (In rid (ids s)) by (rewrite E; unfold ids; apply in_map; exact Hx). apply get_ids in H. congruence.
Qed.

(* tag 3: release the message lock *)
Lemma act3_RI : forall s rid rest r, get s rid = Some r -> RI s ((rid, 3%nat) :: rest) ->
  RI (fst (msg_rel s rid)) (rest ++ nxt_items 1 (snd (msg_rel s rid))).
Proof.
  intros s rid rest r G R. pose proof R as [RGs OKs]. destruct (get_In _ _ _ G) as [Ir Er].
  destruct (ok_head s rid 3 rest r Er (OKs r Ir)) as [[HL HP] TR].
  destruct TR as [[_ TR]|[_ TR]]; [|lia]. rewrite TR in HP. cbn [sit_of] in HP.
  destruct (r_phase r) as [| | | |o] eqn:P; try contradiction. injection HP as H1 H2 H3 H4.
  rewrite <- holds_msg_holds in H1.
  destruct (msg_rel_own s rid H1 H3) as (O1 & O2 & O3).
  destruct (msg_rel_spec s rid H1) as (B & E1 & E2 & _). base_fields B.
  apply (RI_upd s _ ((rid, 3%nat) :: rest) _ rid r).
  - apply RG_msg_rel. exact RGs.
  - intros x Hx. rewrite Breqs in Hx. apply (reqs_same_cases s rid r x (rg_ids _ RGs) G Hx).
  - unfold ok, okf. rewrite Er, tags_app, TR, O1, O2, O3, E1, E2, Btbl, H2, H4. cbn [app sit_of]. split; [exact HL|].
    rewrite P. reflexivity.
  - intros x Hx NE OKx. apply (ok_others_msg_rel s rid ((rid, 3%nat) :: rest)); auto.
    rewrite tags_app, tags_cons, (neq_eqb' _ _ NE). reflexivity.
  - exact R.
Qed.

(* tag 4: release the blocking lock (if held) *)
Lemma act4_RI : forall s rid rest r t, get s rid = Some r -> RI s ((rid, S (S (S (S t)))) :: rest) ->
  RI (fst (blk_rel s rid)) (rest ++ nxt_items 0 (snd (blk_rel s rid))).
Proof.
  intros s rid rest r t G R. pose proof R as [RGs OKs]. destruct (get_In _ _ _ G) as [Ir Er].
  destruct (ok_head s rid _ rest r Er (OKs r Ir)) as [[HL HP] TR].
  destruct TR as [[TR _]|[TR T4]]; [lia|]. assert (t = 0%nat) by lia. subst t. clear T4.
  rewrite TR in HP. cbn [sit_of] in HP.
  destruct (r_phase r) as [| | | |o] eqn:P; try contradiction. injection HP as H1 H2 H3 H4.
  destruct (holds_blk s rid) eqn:HB.
  - destruct (blk_rel_own s rid HB H4) as (O1 & O2 & O3).
    destruct (blk_rel_spec s rid HB) as (B & E1 & E2 & E3 & _). base_fields B.
    apply (RI_upd s _ ((rid, 4%nat) :: rest) _ rid r).
    + apply RG_blk_rel. exact RGs.
    + intros x Hx. rewrite Breqs in Hx. apply (reqs_same_cases s rid r x (rg_ids _ RGs) G Hx).
    + unfold ok, okf. rewrite Er, tags_app, TR, O1, O2, O3, E1, E2, Btbl, H1, H3. cbn [app sit_of]. split; [exact HL|].
      rewrite P. reflexivity.
    + intros x Hx NE OKx. apply (ok_others_blk_rel s rid ((rid, 4%nat) :: rest)); auto.
      rewrite tags_app, tags_cons, (neq_eqb' _ _ NE). reflexivity.
    + exact R.
  - unfold blk_rel. rewrite HB. cbn [fst snd nxt_items]. rewrite app_nil_r.
    apply (RI_upd s s ((rid, 4%nat) :: rest) rest rid r).
    + exact RGs.
    + intros x Hx. apply (reqs_same_cases s rid r x (rg_ids _ RGs) G Hx).
    + unfold ok, okf. rewrite Er, TR, H1, H3, H4. rewrite holds_blk_holds in HB. rewrite HB. cbn [sit_of]. split; [exact HL|].
      rewrite P. reflexivity.
    + intros x Hx NE OKx. unfold ok, okf in *. rewrite tags_cons, (neq_eqb' _ _ NE) in OKx. exact OKx.
    + exact R.
Qed.

Lemma NoDup_snoc : forall (l : list nat) x, NoDup l -> ~ In x l -> NoDup (l ++ [x]).
Proof.
  induction l as [|y l IH]; intros x N H; cbn [app]; [constructor; [intros []|constructor]|].
  inversion N; subst. constructor.
  - intros I. apply in_app_or in I. destruct I as [I|[I|[]]]; [contradiction|]. subst. apply H. left. reflexivity.
  - apply IH; [assumption|]. intros I. apply H. right. exact I.
Qed.

(* tag 0: enter the message stage *)
Lemma act0_RI : forall s rid rest r, get s rid = Some r -> RI s ((rid, 0%nat) :: rest) ->
  RI (fst (fst (act s rid 0))) (snd (fst (act s rid 0)) ++ rest ++ snd (act s rid 0)).
Proof.
  intros s rid rest r G R. pose proof R as [RGs OKs]. destruct (get_In _ _ _ G) as [Ir Er].
  destruct (ok_head s rid _ rest r Er (OKs r Ir)) as [[HL HP] TR].
  destruct TR as [[TR _]|[TR _]]; [lia|]. rewrite TR in HP. cbn [sit_of] in HP.
  assert (ND : is_done r = false) by (unfold is_done; destruct (r_phase r); try contradiction; reflexivity).
  assert (HP' : (holds (msg_holder s) rid, holds (block_holder s) rid, mem rid (msg_q s), mem rid (block_q s)) = (false, r_blocking r, false, false))
    by (destruct (r_phase r); try contradiction; exact HP).
  assert (PH : r_phase r = PQBlock \/ r_phase r = PQMsg) by (destruct (r_phase r); try contradiction; auto).
  clear HP. injection HP' as H1 H2 H3 H4. destruct (HL ND) as [LK NF].
  assert (Irid : In rid (ids s)) by (apply get_ids; congruence).
  unfold act. rewrite G. unfold msg_try.
  assert (FAIL : forall h, msg_holder s = h -> h <> None ->
    RI (set_phase (emit (set_msg s h (msg_q s ++ [rid])) (GMsgWait rid)) rid PQMsg) ([] ++ rest ++ [])).
  { intros h Eh Hh. subst h. set (s1 := emit _ (GMsgWait rid)).
    assert (G1 : get s1 rid = Some r) by exact G.
    rewrite app_nil_r. cbn [app].
    apply (RI_upd s _ ((rid, 0%nat) :: rest) _ rid (upd_req r PQMsg (r_fut r))).
    - apply (RG_frame s1); [apply frame_set_phase|apply ids_set_phase|].
      destruct RGs as [A1 A2 A3 A4 A5 A6 A7 A8 A9 A10]. unfold s1. constructor; autorewrite with proj; try assumption.
      + apply NoDup_snoc; [exact A2|]. apply mem_false. exact H3.
      + intros E. contradiction.
      + intros id Hid. apply in_app_or in Hid. destruct Hid as [Hid|[Hid|[]]]; [apply A6; exact Hid|subst id; exact Irid].
    - intros x Hx. apply (reqs_set_phase_cases s1 rid r PQMsg x G1) in Hx. exact Hx.
    - apply (ok_frame s1); [apply frame_set_phase|]. unfold ok, okf, s1. autorewrite with proj. cbn [upd_req r_id].
      rewrite Er, TR, H1, H2, H4, mem_app, H3, mem_cons, Nat.eqb_refl. cbn [orb sit_of]. split; [intros _; split; assumption|].
      reflexivity.
    - intros x Hx NE OKx. apply (ok_frame s1); [apply frame_set_phase|]. revert OKx. unfold ok, s1. autorewrite with proj.
      apply ok_other; try reflexivity; try (left; reflexivity); try lia.
      + rewrite tags_cons, (neq_eqb' _ _ NE). reflexivity.
      + rewrite mem_app, mem_cons, (neq_eqb' _ _ NE). cbn [mem existsb]. rewrite !orb_false_r. reflexivity.
    - exact R. }
  destruct (msg_holder s) as [h|] eqn:Eh.
  - cbn [fst snd]. apply (FAIL (Some h)); [reflexivity|discriminate].
  - destruct (msg_q s) as [|n q] eqn:Eq; [|pose proof (rg_mh _ RGs Eh) as X; rewrite Eq in X; discriminate X].
    cbn [fst snd]. rewrite app_nil_r. cbn [app]. set (s1 := emit _ (GMsgAcq rid)).
    apply (RI_upd s _ ((rid, 0%nat) :: rest) _ rid r).
    + destruct RGs as [A1 A2 A3 A4 A5 A6 A7 A8 A9 A10]. unfold s1. constructor; autorewrite with proj; try assumption.
      * constructor.
      * reflexivity.
      * intros id [].
      * intros h Hh. assert (h = rid) by congruence. subst h. exact Irid.
    + intros x Hx. apply (reqs_same_cases s rid r x (rg_ids _ RGs) G Hx).
    + unfold ok, okf, s1. autorewrite with proj. rewrite Er, tags_cons, Nat.eqb_refl, TR, holds_some, Nat.eqb_refl, H2, H4.
      cbn [sit_of mem existsb]. split; [intros _; split; assumption|].
      destruct PH as [PH|PH]; rewrite PH; (split; [reflexivity|lia]).
    + intros x Hx NE OKx. revert OKx. unfold ok, s1. autorewrite with proj. rewrite Eh, Eq.
      apply ok_other; try reflexivity; try lia.
      * rewrite !tags_cons, (neq_eqb' _ _ NE). reflexivity.
      * rewrite holds_some, holds_none. apply neq_eqb'. exact NE.
      * right. reflexivity.
    + exact R.
Qed.

(* the guard of a fragment write holds whenever the scheduler reaches it *)
Lemma may_write_true : forall s rid r, r_id r = rid -> is_done r = false ->
  okv T1 (holds (msg_holder s) rid) (holds (block_holder s) rid) (mem rid (msg_q s)) (mem rid (block_q s))
      (lookupt (tbl s) rid) (msg_next s) (now s) r -> may_write s rid = true.
Proof.
  intros s rid r Er ND [HL HP]. destruct (HL ND) as [LK NF]. unfold may_write. rewrite lookup_lookupt, LK.
  rewrite holds_msg_holds, holds_blk_holds.
  assert (X : (holds (msg_holder s) rid, holds (block_holder s) rid) = (true, r_blocking r) /\ (msg_next s < r_nfrags r)%nat).
  { destruct (r_phase r); try contradiction; destruct HP as [E L]; (split; [congruence|exact L]). }
  destruct X as [E L]. injection E as E1 E2. rewrite E1, E2. destruct (r_blocking r); cbn [negb orb andb]; apply Nat.ltb_lt; exact L.
Qed.

(* tag 1: send the next fragment *)
Lemma act1_RI : forall s rid rest r, LI s -> get s rid = Some r -> RI s ((rid, 1%nat) :: rest) ->
  RI (fst (fst (act s rid 1))) (snd (fst (act s rid 1)) ++ rest ++ snd (act s rid 1)).
Proof.
  intros s rid rest r L G R. pose proof R as [RGs OKs]. destruct (get_In _ _ _ G) as [Ir Er].
  destruct (ok_head s rid _ rest r Er (OKs r Ir)) as [OKr TR].
  destruct TR as [[TR _]|[TR _]]; [lia|]. rewrite TR in OKr. cbn [sit_of] in OKr. pose proof OKr as [HL HP].
  assert (ND : is_done r = false) by (unfold is_done; destruct (r_phase r); try contradiction; reflexivity).
  assert (HP' : (holds (msg_holder s) rid, holds (block_holder s) rid, mem rid (msg_q s), mem rid (block_q s)) = (true, r_blocking r, false, false)
                /\ (msg_next s < r_nfrags r)%nat)
    by (destruct (r_phase r); try contradiction; exact HP).
  clear HP. destruct HP' as [HP' MN]. injection HP' as H1 H2 H3 H4. destruct (HL ND) as [LK NF].
  unfold act. rewrite G. destruct (uart_present s) eqn:U; cbn [negb].
  - rewrite (may_write_true s rid r Er ND OKr), (L U). cbn [fst snd]. rewrite app_nil_r. cbn [app].
    unfold do_write. rewrite (L U). set (s2 := set_link _ _ _ _ _ _ _ _ _).
    assert (G2 : get s2 rid = Some r) by exact G.
    set (d := now s + ack_timeout_ms).
    apply (RI_upd s _ ((rid, 1%nat) :: rest) _ rid (upd_req r (PAwaitAck (msg_next s) d) (r_fut r))).
    + apply (RG_frame s2); [apply frame_set_phase|apply ids_set_phase|].
      destruct RGs as [A1 A2 A3 A4 A5 A6 A7 A8 A9 A10]. unfold s2. constructor; autorewrite with proj; assumption.
    + intros x Hx. apply (reqs_set_phase_cases s2 rid r _ x G2) in Hx. exact Hx.
    + apply (ok_frame s2); [apply frame_set_phase|]. unfold ok, okf, s2. autorewrite with proj. cbn [upd_req r_id].
      rewrite Er, TR, H1, H2, H3, H4. cbn [sit_of]. split; [intros _; split; assumption|].
      cbn [upd_req r_phase r_blocking r_nfrags]. repeat split; try assumption. unfold d. lia.
    + intros x Hx NE OKx. apply (ok_frame s2); [apply frame_set_phase|]. revert OKx. unfold ok, s2. autorewrite with proj.
      apply ok_other; try reflexivity; try lia.
      * rewrite tags_cons, (neq_eqb' _ _ NE). reflexivity.
      * right. rewrite (holds_true _ _ H1), holds_some. apply neq_eqb'. exact NE.
    + exact R.
  - cbn [fst snd]. rewrite app_nil_r.
    apply (RI_upd s _ ((rid, 1%nat) :: rest) _ rid (fin r ORuntime)).
    + apply (RG_frame s); [apply frame_finish|apply ids_finish|exact RGs].
    + intros x Hx. apply (reqs_finish_cases s rid r _ x G) in Hx. exact Hx.
    + apply (ok_frame s); [apply frame_finish|]. unfold ok, okf. cbn [fin upd_req r_id].
      rewrite Er, !tags_app, !tags_cons, Nat.eqb_refl, TR, tags_nil, H1, H2, H3, H4. cbn [app sit_of]. split; [intros X; discriminate X|].
      reflexivity.
    + intros x Hx NE OKx. apply (ok_frame s); [apply frame_finish|]. revert OKx. unfold ok.
      apply ok_other; try reflexivity; try lia; try (left; reflexivity).
      rewrite !tags_app, !tags_cons, (neq_eqb' _ _ NE), tags_nil. reflexivity.
    + exact R.
Qed.

(* tag 2, last fragment acknowledged: release the message lock, then wait for the response or end *)
Lemma act2_release : forall s rid rest r k d s' r' front,
  get s rid = Some r -> RI s ((rid, 2%nat) :: rest) -> r_phase r = PAwaitAck k d ->
  frame s' = frame (fst (msg_rel s rid)) -> ids s' = ids s ->
  (forall x, In x (reqs s') -> x = r' \/ (In x (reqs s) /\ r_id x <> rid)) ->
  r_id r' = rid -> r_blocking r' = r_blocking r -> r_nfrags r' = r_nfrags r ->
  ((front = [] /\ exists dd, r_phase r' = PAwaitRsp dd /\ dd <= now s + r_timeout r') \/
   (front = [(rid, 4%nat)] /\ exists o, r_phase r' = PDone o)) ->
  RI s' (front ++ rest ++ nxt_items 1 (snd (msg_rel s rid))).
Proof.
  intros s rid rest r k d s' r' front G R P F I C E1' E2' E3' FR.
  pose proof R as [RGs OKs]. destruct (get_In _ _ _ G) as [Ir Er].
  destruct (ok_head s rid _ rest r Er (OKs r Ir)) as [OKr TR].
  destruct TR as [[TR _]|[TR _]]; [lia|]. rewrite TR in OKr. cbn [sit_of] in OKr. pose proof OKr as [HL HP].
  rewrite P in HP. destruct HP as (HP & MN & KN). injection HP as H1 H2 H3 H4.
  assert (ND : is_done r = false) by (unfold is_done; rewrite P; reflexivity). destruct (HL ND) as [LK NF].
  rewrite <- holds_msg_holds in H1.
  destruct (msg_rel_own s rid H1 H3) as (O1 & O2 & O3).
  destruct (msg_rel_spec s rid H1) as (B & E1 & E2 & _). base_fields B.
  set (s0 := fst (msg_rel s rid)) in *.
  apply (RI_upd s _ ((rid, 2%nat) :: rest) _ rid r').
  - apply (RG_frame s0); [exact F|rewrite I; symmetry; apply ids_reqs; exact Breqs|]. apply RG_msg_rel. exact RGs.
  - exact C.
  - apply (ok_frame s0); [exact F|]. unfold ok, okf. rewrite E1', !tags_app, TR, O1, O2, O3, E1, E2, Btbl, H2, H4, app_nil_r, LK, <- E2', <- E3'.
    destruct FR as [[F0 [dd [PP DD]]]|[F0 [o PP]]]; rewrite F0; unfold okv, is_done; rewrite PP.
    + cbn [tags filter map sit_of app]. split; [intros _; split; [reflexivity|rewrite E3'; exact NF]|].
      split; [reflexivity|rewrite Bnow; exact DD].
    + rewrite tags_cons, Nat.eqb_refl, tags_nil. cbn [sit_of app]. split; [intros X; discriminate X|reflexivity].
  - intros x Hx NE OKx. apply (ok_frame s0); [exact F|]. apply (ok_others_msg_rel s rid ((rid, 2%nat) :: rest)); auto.
    rewrite !tags_app, tags_cons, (neq_eqb' _ _ NE).
    assert (T0 : tags front (r_id x) = []).
    { destruct FR as [[F0 _]|[F0 _]]; rewrite F0; [reflexivity|]. rewrite tags_cons, (neq_eqb' _ _ NE). reflexivity. }
    rewrite T0. reflexivity.
  - exact R.
Qed.

Lemma act2_RI : forall s rid rest r, get s rid = Some r -> RI s ((rid, 2%nat) :: rest) ->
  RI (fst (fst (act s rid 2))) (snd (fst (act s rid 2)) ++ rest ++ snd (act s rid 2)).
Proof.
  intros s rid rest r G R. pose proof R as [RGs OKs]. destruct (get_In _ _ _ G) as [Ir Er].
  destruct (ok_head s rid _ rest r Er (OKs r Ir)) as [OKr TR].
  destruct TR as [[TR _]|[TR _]]; [lia|]. rewrite TR in OKr. cbn [sit_of] in OKr. pose proof OKr as [HL HP].
  unfold act. rewrite G. destruct (r_phase r) as [| |k d| |] eqn:P; try contradiction.
  destruct HP as (HP & MN & KN). injection HP as H1 H2 H3 H4.
  assert (ND : is_done r = false) by (unfold is_done; rewrite P; reflexivity). destruct (HL ND) as [LK NF].
  destruct (S k <? r_nfrags r)%nat eqn:LT.
  - cbn [fst snd]. rewrite app_nil_r. cbn [app]. apply Nat.ltb_lt in LT.
    apply (RI_upd s s ((rid, 2%nat) :: rest) _ rid r).
    + exact RGs.
    + intros x Hx. apply (reqs_same_cases s rid r x (rg_ids _ RGs) G Hx).
    + unfold ok, okf. rewrite Er, tags_cons, Nat.eqb_refl, TR, H1, H2, H3, H4. cbn [sit_of]. split; [exact HL|].
      rewrite P. split; [reflexivity|lia].
    + intros x Hx NE OKx. unfold ok, okf in *. rewrite tags_cons, (neq_eqb' _ _ NE) in *. exact OKx.
    + exact R.
  - rewrite <- holds_msg_holds in H1.
    destruct (msg_rel_spec s rid H1) as (B & _). base_fields B.
    pose proof (act2_release s rid rest r k d) as AR.
    destruct (msg_rel s rid) as [s0 nxt]. cbn [fst snd] in AR, Breqs.
    assert (G0 : get s0 rid = Some r) by (rewrite (get_reqs _ _ rid Breqs); exact G).
    fold (nxt_items 1 nxt).
    destruct (r_fut r); cbn [fst snd].
    + apply (AR _ (upd_req r (PAwaitRsp (now s + r_timeout r)) (r_fut r))); auto.
      * apply frame_set_phase.
      * rewrite ids_set_phase. apply ids_reqs. exact Breqs.
      * intros x Hx. apply (reqs_set_phase_cases s0 rid r _ x G0) in Hx. rewrite Breqs in Hx. exact Hx.
      * left. split; [reflexivity|]. eexists. split; [reflexivity|]. cbn [upd_req r_timeout]. lia.
    + apply (AR _ (fin r ORsp)); auto.
      * apply frame_finish.
      * rewrite ids_finish. apply ids_reqs. exact Breqs.
      * intros x Hx. apply (reqs_finish_cases s0 rid r _ x G0) in Hx. rewrite Breqs in Hx. exact Hx.
      * right. split; [reflexivity|]. eexists. reflexivity.
    + apply (AR _ (fin r OCancelled)); auto.
      * apply frame_finish.
      * rewrite ids_finish. apply ids_reqs. exact Breqs.
      * intros x Hx. apply (reqs_finish_cases s0 rid r _ x G0) in Hx. rewrite Breqs in Hx. exact Hx.
      * right. split; [reflexivity|]. eexists. reflexivity.
Qed.

(* ITEM 2 (scheduler part): one work item preserves the run invariant *)
Theorem act_RI : forall s rid tag rest, LI s -> RI s ((rid, tag) :: rest) ->
  RI (fst (fst (act s rid tag))) (snd (fst (act s rid tag)) ++ rest ++ snd (act s rid tag)).
Proof.
  intros s rid tag rest L R. destruct (get s rid) as [r|] eqn:G.
  - destruct tag as [|[|[|[|t]]]].
    + apply (act0_RI s rid rest r G R).
    + apply (act1_RI s rid rest r L G R).
    + apply (act2_RI s rid rest r G R).
    + pose proof (act3_RI s rid rest r G R) as X. unfold act. rewrite G. destruct (msg_rel s rid) as [s0 nxt]. exact X.
    + pose proof (act4_RI s rid rest r t G R) as X. unfold act. rewrite G. destruct (blk_rel s rid) as [s0 nxt]. exact X.
  - unfold act. rewrite G. cbn [fst snd]. rewrite app_nil_r. cbn [app]. exact (RI_drop s rid tag rest G R).
Qed.

Lemma run'_RI : forall fuel s w, LI s -> RI s w -> RI (fst (run' fuel s w)) (snd (run' fuel s w)).
Proof.
  induction fuel as [|fuel IH]; intros s w L R; [exact R|]. cbn [run']. destruct w as [|[rid tag] rest]; [exact R|].
  pose proof (act_RI s rid tag rest L R) as A. pose proof (LI_act s rid tag L) as L1.
  destruct (act s rid tag) as [[s1 front] back]. cbn [fst snd] in A, L1. apply IH; assumption.
Qed.

Theorem settle_Q : forall s w, LI s -> RI s w -> Q (settle s w).
Proof.
  intros s w L R. unfold settle, Q. rewrite <- run'_fst. pose proof (run'_RI (S (potential s w)) s w L R) as X.
  rewrite (settle_drains s w L) in X. exact X.
Qed.

(* ====================================================================== *)
(* 2b. the events preserve Q *)

Lemma RI_fields : forall s s' w, now s <= now s' -> block_holder s' = block_holder s -> block_q s' = block_q s ->
  msg_holder s' = msg_holder s -> msg_q s' = msg_q s -> msg_next s' = msg_next s -> tbl s' = tbl s -> reqs s' = reqs s ->
  RI s w -> RI s' w.
Proof.
  intros s s' w T E1 E2 E3 E4 E5 E6 E7 [[A1 A2 A3 A4 A5 A6 A7 A8 A9 A10] B]. split.
  - constructor; unfold ids; rewrite ?E1, ?E2, ?E3, ?E4, ?E6, ?E7; assumption.
  - intros x Hx. rewrite E7 in Hx. specialize (B x Hx). revert B. unfold ok. rewrite E1, E2, E3, E4, E5, E6.
    apply ok_other; try reflexivity; [left; reflexivity|exact T].
Qed.

Lemma okv_ext : forall st hm hb inm inb lk mn t r r', r_phase r' = r_phase r -> r_blocking r' = r_blocking r ->
  r_nfrags r' = r_nfrags r -> r_timeout r' = r_timeout r -> okv st hm hb inm inb lk mn t r -> okv st hm hb inm inb lk mn t r'.
Proof. intros st hm hb inm inb lk mn t r r' E1 E2 E3 E4 H. unfold okv, is_done in *. rewrite E1, E2, E3, E4. exact H. Qed.

(* a step that changes (at most) the record of rid and the work list, not the frame *)
Lemma RI_change : forall s s' w w' rid r',
  RI s w -> frame s' = frame s -> ids s' = ids s ->
  (forall x, In x (reqs s') -> x = r' \/ (In x (reqs s) /\ r_id x <> rid)) ->
  ok s w' r' -> (forall id, id <> rid -> tags w' id = tags w id) -> RI s' w'.
Proof.
  intros s s' w w' rid r' R F I C O T. apply (RI_upd s s' w w' rid r').
  - apply (RG_frame s); [exact F|exact I|exact (proj1 R)].
  - exact C.
  - apply (ok_frame s); assumption.
  - intros x Hx NE OKx. apply (ok_frame s); [exact F|]. revert OKx. unfold ok.
    apply ok_other; try reflexivity; try lia. apply T; exact NE.
  - exact R.
Qed.

Lemma tags_single_ne : forall rid t id l, id <> rid -> tags ((rid, t) :: l) id = tags l id.
Proof. intros. rewrite tags_cons, (neq_eqb' _ _ H). reflexivity. Qed.

Lemma ok_idle : forall s r, ok s [] r ->
  okv Idle (holds (msg_holder s) (r_id r)) (holds (block_holder s) (r_id r)) (mem (r_id r) (msg_q s)) (mem (r_id r) (block_q s))
      (lookupt (tbl s) (r_id r)) (msg_next s) (now s) r.
Proof. intros s r H. exact H. Qed.

(* set_fut does not touch anything the invariant looks at *)
Lemma RI_set_fut : forall s w rid f, RI s w -> RI (set_fut s rid f) w.
Proof.
  intros s w rid f R. destruct (get s rid) as [r|] eqn:G; [|unfold set_fut; rewrite G; exact R].
  destruct (get_In _ _ _ G) as [Ir Er].
  apply (RI_change s _ w w rid (upd_req r (r_phase r) f) R).
  - apply frame_set_fut.
  - apply ids_set_fut.
  - intros x Hx. rewrite (set_fut_get _ _ _ _ G) in Hx. apply reqs_put_cases in Hx. cbn [upd_req r_id] in Hx. rewrite Er in Hx. exact Hx.
  - pose proof (proj2 R r Ir) as O. unfold ok, okf in *. cbn [upd_req r_id]. revert O. apply okv_ext; reflexivity.
  - reflexivity.
Qed.

(* the ACK wait of request rid is over: item (rid, 2) *)
Lemma RI_start2 : forall s rid r k d, Q s -> get s rid = Some r -> r_phase r = PAwaitAck k d -> RI s [(rid, 2%nat)].
Proof.
  intros s rid r k d R G P. destruct (get_In _ _ _ G) as [Ir Er]. pose proof (ok_idle _ _ (proj2 R r Ir)) as [HL HP].
  rewrite P in HP. destruct HP as (HP & MN & KN & _).
  apply (RI_change s s [] _ rid r R); try reflexivity.
  - intros x Hx. apply (reqs_same_cases s rid r x (rg_ids _ (proj1 R)) G Hx).
  - unfold ok, okf. rewrite tags_cons, Er, Nat.eqb_refl, tags_nil. cbn [sit_of]. rewrite <- Er. split; [exact HL|].
    rewrite P. repeat split; assumption.
  - intros id NE. apply tags_single_ne. exact NE.
Qed.

(* a request ends while it holds no message lock and sits in no queue: item (rid, 4) *)
Lemma RI_finish4 : forall s rid r o, Q s -> get s rid = Some r -> (exists d, r_phase r = PAwaitRsp d) ->
  RI (finish s rid o) [(rid, 4%nat)].
Proof.
  intros s rid r o R G [d P]. destruct (get_In _ _ _ G) as [Ir Er]. pose proof (ok_idle _ _ (proj2 R r Ir)) as [HL HP].
  rewrite P in HP.
  apply (RI_change s _ [] _ rid (fin r o) R).
  - apply frame_finish.
  - apply ids_finish.
  - intros x Hx. apply (reqs_finish_cases s rid r o x G Hx).
  - unfold ok, okf. cbn [fin upd_req r_id]. rewrite tags_cons, Er, Nat.eqb_refl, tags_nil. cbn [sit_of]. rewrite <- Er.
    split; [intros X; discriminate X|]. exact (proj1 HP).
  - intros id NE. apply tags_single_ne. exact NE.
Qed.

(* a request ends while it holds the message lock: items (rid, 3); (rid, 4) *)
Lemma RI_finish34 : forall s rid r o, Q s -> get s rid = Some r -> (exists k d, r_phase r = PAwaitAck k d) ->
  RI (finish s rid o) [(rid, 3%nat); (rid, 4%nat)].
Proof.
  intros s rid r o R G [k [d P]]. destruct (get_In _ _ _ G) as [Ir Er]. pose proof (ok_idle _ _ (proj2 R r Ir)) as [HL HP].
  rewrite P in HP. destruct HP as [HP _].
  apply (RI_change s _ [] _ rid (fin r o) R).
  - apply frame_finish.
  - apply ids_finish.
  - intros x Hx. apply (reqs_finish_cases s rid r o x G Hx).
  - unfold ok, okf. cbn [fin upd_req r_id]. rewrite !tags_cons, Er, Nat.eqb_refl, tags_nil. cbn [sit_of]. rewrite <- Er.
    split; [intros X; discriminate X|]. exact HP.
  - intros id NE. rewrite !tags_single_ne by exact NE. reflexivity.
Qed.

Lemma get_put_same : forall s rid r r', get s rid = Some r -> r_id r' = rid -> get (put s r') rid = Some r'.
Proof.
  intros s rid r r' G E. unfold get, put in *. cbn [set_reqs reqs]. subst rid.
  induction (reqs s) as [|y l IH]; [discriminate G|]. cbn [find map] in *.
  destruct (r_id y =? r_id r')%nat eqn:Ey.
  - rewrite Nat.eqb_refl. reflexivity.
  - rewrite Ey. apply IH. exact G.
Qed.
Lemma get_put_other : forall s rid r', r_id r' <> rid -> get (put s r') rid = get s rid.
Proof.
  intros s rid r' NE. unfold get, put. cbn [set_reqs reqs]. induction (reqs s) as [|y l IH]; [reflexivity|]. cbn [find map].
  destruct (r_id y =? r_id r')%nat eqn:Ey.
  - apply Nat.eqb_eq in Ey. rewrite (neq_eqb _ _ NE), Ey, (neq_eqb _ _ NE). exact IH.
  - destruct (r_id y =? rid)%nat; [reflexivity|exact IH].
Qed.

Lemma In_get : forall s r, NoDup (ids s) -> In r (reqs s) -> get s (r_id r) = Some r.
Proof.
  intros s r N H. destruct (get s (r_id r)) as [r0|] eqn:G.
  - f_equal. symmetry. exact (get_unique _ _ _ _ N G H eq_refl).
  - exfalso. assert (I : In (r_id r) (ids s)) by (unfold ids; apply in_map; exact H). apply get_ids in I. congruence.
Qed.

Lemma LI_same_link : forall s ps ao rx t,
  LI s -> LI (set_link s ps ao (uart_present s) (transport_open s) (app_attached s) (reset_in_progress s) rx t).
Proof. intros s ps ao rx t L. exact L. Qed.
Lemma LI_finish : forall s rid o, LI s -> LI (finish s rid o). Proof. intros s rid o. apply LI_rel. apply rel_finish. Qed.
Lemma LI_set_fut : forall s rid f, LI s -> LI (set_fut s rid f).
Proof. intros s rid f L. pose proof (frame_set_fut s rid f) as F. frame_fields F. unfold LI in *. rewrite Fup, Ftr. exact L. Qed.
Lemma LI_settle : forall s w, LI s -> LI (settle s w). Proof. intros s w. apply LI_rel. apply rel_settle. Qed.

Lemma Q_rx_ack : forall s n, LI s -> Q s -> Q (rx_ack s n).
Proof.
  intros s n L R. unfold rx_ack. destruct (n =? pack_seq s); [|exact R].
  set (s1 := set_link _ _ _ _ _ _ _ _ _).
  assert (R1 : Q s1) by (apply (RI_fields s); try reflexivity; exact R).
  assert (L1 : LI s1) by exact L.
  destruct (ack_owner s) as [o|]; [|exact R1]. destruct (get s1 o) as [r|] eqn:G; [|exact R1].
  destruct (r_phase r) as [| |k d| |] eqn:P; try exact R1.
  apply settle_Q; [exact L1|]. exact (RI_start2 s1 o r k d R1 G P).
Qed.

Lemma Q_incoming_data : forall s, Q s -> Q (incoming_data s).
Proof. intros s R. unfold incoming_data. destruct (transport_open s); apply (RI_fields s); try reflexivity; exact R. Qed.
Lemma LI_incoming_data : forall s, LI s -> LI (incoming_data s).
Proof. intros s. apply LI_rel. apply rel_incoming_data. Qed.

Lemma Q_rx_rsp : forall s cls, LI s -> Q s -> Q (rx_rsp s cls).
Proof.
  intros s cls L R. unfold rx_rsp. pose proof (Q_incoming_data s R) as R1. pose proof (LI_incoming_data s L) as L1.
  set (s1 := incoming_data s) in *. destruct (oldest_waiter s1 cls) as [r|] eqn:O; [|exact R1].
  unfold oldest_waiter in O. apply find_some in O. destruct O as [Ir _].
  pose proof (In_get s1 r (rg_ids _ (proj1 R1)) Ir) as G.
  pose proof (RI_set_fut s1 [] (r_id r) FGot R1) as R2.
  destruct (r_phase r) as [| | |d|] eqn:P; try exact R2.
  apply settle_Q; [apply LI_finish; apply LI_set_fut; exact L1|].
  apply (RI_finish4 _ _ (upd_req r (r_phase r) FGot)); [exact R2| |exists d; exact P].
  rewrite (set_fut_get _ _ _ _ G). apply (get_put_same _ _ r); [exact G|reflexivity].
Qed.

Definition earlier (acc : option req) (r : req) : option req :=
  match deadline_of r, acc with
  | Some d, Some a => match deadline_of a with Some da => if d <? da then Some r else acc | None => Some r end
  | Some d, None => Some r
  | None, _ => acc end.
Lemma earliest_fold : forall s, earliest s = fold_left earlier (reqs s) None. Proof. reflexivity. Qed.
Lemma earlier_cases : forall acc r, earlier acc r = acc \/ (earlier acc r = Some r /\ deadline_of r <> None).
Proof.
  intros acc r. unfold earlier. destruct (deadline_of r) as [d|]; [|left; reflexivity].
  destruct acc as [a|]; [|right; split; [reflexivity|discriminate]].
  destruct (deadline_of a) as [da|]; [|right; split; [reflexivity|discriminate]].
  destruct (d <? da); [right; split; [reflexivity|discriminate]|left; reflexivity].
Qed.
Lemma fold_earlier_In : forall l acc r, fold_left earlier l acc = Some r -> In r l \/ acc = Some r.
Proof.
  induction l as [|y l IH]; intros acc r H; [right; exact H|]. cbn [fold_left] in H. apply IH in H.
  destruct H as [H|H]; [left; right; exact H|]. destruct (earlier_cases acc y) as [E|[E _]]; rewrite E in H.
  - right. exact H.
  - left. left. congruence.
Qed.
Lemma earliest_In : forall s r, earliest s = Some r -> In r (reqs s).
Proof. intros s r H. rewrite earliest_fold in H. apply fold_earlier_In in H. destruct H as [H|H]; [exact H|discriminate H]. Qed.

Lemma Q_set_now : forall s t, now s <= t -> Q s -> Q (set_now s t).
Proof. intros s t T R. apply (RI_fields s); try reflexivity; [exact T|exact R]. Qed.

Lemma now_set_phase : forall s rid p, now (set_phase s rid p) = now s.
Proof. intros. pose proof (frame_set_phase s rid p) as F. frame_fields F. exact Fnow. Qed.
Lemma now_finish : forall s rid o, now (finish s rid o) = now s.
Proof. intros. pose proof (frame_finish s rid o) as F. frame_fields F. exact Fnow. Qed.
Lemma now_msg_rel : forall s rid, now (fst (msg_rel s rid)) = now s.
Proof. intros. unfold msg_rel. destruct (holds_msg s rid); [destruct (msg_q s)|]; reflexivity. Qed.
Lemma now_blk_rel : forall s rid, now (fst (blk_rel s rid)) = now s.
Proof. intros. unfold blk_rel. destruct (holds_blk s rid); [destruct (block_q s)|]; reflexivity. Qed.
Lemma now_msg_try : forall s rid, now (fst (msg_try s rid)) = now s.
Proof. intros. unfold msg_try. destruct (msg_holder s); [|destruct (msg_q s)]; reflexivity. Qed.
Lemma now_do_write : forall s rid, now (do_write s rid) = now s.
Proof. intros. unfold do_write. destruct (transport_open s); rewrite now_set_phase; reflexivity. Qed.
Lemma now_act : forall s rid tag, now (fst (fst (act s rid tag))) = now s.
Proof.
  intros s rid tag. unfold act. destruct (get s rid) as [r|]; [|reflexivity]. destruct tag as [|[|[|[|t]]]].
  - pose proof (now_msg_try s rid) as M. destruct (msg_try s rid) as [s1 got]. cbn [fst] in M.
    destruct got; cbn [fst]; [exact M|]. rewrite now_set_phase. exact M.
  - destruct (negb (uart_present s)); cbn [fst]; [apply now_finish|].
    destruct (may_write s rid); [|reflexivity]. destruct (transport_open s); cbn [fst]; apply now_do_write.
  - destruct (r_phase r); try reflexivity. destruct (S k <? r_nfrags r)%nat; [reflexivity|].
    pose proof (now_msg_rel s rid) as M. destruct (msg_rel s rid) as [s0 nxt]. cbn [fst] in M.
    destruct (r_fut r); cbn [fst]; rewrite ?now_set_phase, ?now_finish; exact M.
  - pose proof (now_msg_rel s rid) as M. destruct (msg_rel s rid) as [s0 nxt]. exact M.
  - pose proof (now_blk_rel s rid) as M. destruct (blk_rel s rid) as [s0 nxt]. exact M.
Qed.
Lemma now_run : forall fuel s w, now (run fuel s w) = now s.
Proof.
  induction fuel as [|fuel IH]; intros s w; [reflexivity|]. cbn [run]. destruct w as [|[rid tag] rest]; [reflexivity|].
  pose proof (now_act s rid tag) as A. destruct (act s rid tag) as [[s1 front] back]. cbn [fst] in A. rewrite IH. exact A.
Qed.
Lemma now_settle : forall s w, now (settle s w) = now s. Proof. intros. apply now_run. Qed.

Lemma Q_tick_loop : forall fuel s target, now s <= target -> LI s -> Q s -> Q (tick_loop fuel s target).
Proof.
  induction fuel as [|fuel IH]; intros s target T L R; [apply Q_set_now; assumption|].
  cbn [tick_loop]. destruct (earliest s) as [r|] eqn:E; [|apply Q_set_now; assumption].
  destruct (deadline_of r) as [d|]; [|apply Q_set_now; assumption].
  destruct (d <=? target) eqn:D; [|apply Q_set_now; assumption]. apply N.leb_le in D.
  set (s1 := set_now s (N.max d (now s))).
  assert (R1 : Q s1) by (apply Q_set_now; [lia|exact R]).
  assert (L1 : LI s1) by exact L.
  assert (T1 : now s1 <= target) by (unfold s1; cbn [set_now set_link now]; lia).
  apply earliest_In in E. pose proof (In_get s r (rg_ids _ (proj1 R)) E) as G.
  assert (G1 : get s1 (r_id r) = Some r) by exact G.
  assert (NS : forall w, now (settle s1 w) = now s1) by (intros; apply now_settle).
  destruct (r_phase r) as [| |k dd|dd|] eqn:P; try (apply Q_set_now; assumption).
  - apply IH.
    + rewrite NS. exact T1.
    + apply LI_settle. exact L1.
    + apply settle_Q; [exact L1|]. exact (RI_start2 s1 _ r k dd R1 G1 P).
  - apply IH.
    + rewrite now_settle, now_finish. exact T1.
    + apply LI_settle. apply LI_finish. exact L1.
    + apply settle_Q; [apply LI_finish; exact L1|]. apply (RI_finish4 s1 _ r); [exact R1|exact G1|exists dd; exact P].
Qed.

Lemma In_remove : forall x y l, In x (remove y l) -> In x l.
Proof. intros x y l H. unfold remove in H. apply filter_In in H. exact (proj1 H). Qed.
Lemma remove_nil : forall y l, l = [] -> remove y l = []. Proof. intros; subst; reflexivity. Qed.

(* cancelling a request that waits for the message lock *)
Lemma RI_cancel_qmsg : forall s rid r, Q s -> get s rid = Some r -> r_phase r = PQMsg ->
  RI (finish (msg_drop s rid) rid OCancelled) [(rid, 4%nat)].
Proof.
  intros s rid r R G P. destruct (get_In _ _ _ G) as [Ir Er]. pose proof (ok_idle _ _ (proj2 R r Ir)) as [HL HP].
  rewrite P, Er in HP. injection HP as H1 H2 H3 H4. pose proof R as [RGs _].
  unfold msg_drop. fold (mem rid (msg_q s)). rewrite H3. set (s1 := emit _ (GMsgDrop rid)).
  assert (G1 : get s1 rid = Some r) by exact G.
  apply (RI_upd s _ [] _ rid (fin r OCancelled)).
  - apply (RG_frame s1); [apply frame_finish|apply ids_finish|].
    destruct RGs as [A1 A2 A3 A4 A5 A6 A7 A8 A9 A10]. unfold s1. constructor; autorewrite with proj; try assumption.
    + apply NoDup_filter. exact A2.
    + intros E. apply remove_nil. auto.
    + intros id Hid. apply A6. exact (In_remove _ _ _ Hid).
  - intros x Hx. apply (reqs_finish_cases s1 rid r _ x G1 Hx).
  - apply (ok_frame s1); [apply frame_finish|]. unfold ok, okf, s1. autorewrite with proj. cbn [fin upd_req r_id].
    rewrite Er, tags_cons, Nat.eqb_refl, tags_nil, mem_remove, Nat.eqb_refl, H1, H2, H4. cbn [sit_of negb andb].
    split; [intros X; discriminate X|reflexivity].
  - intros x Hx NE OKx. apply (ok_frame s1); [apply frame_finish|]. revert OKx. unfold ok, s1. autorewrite with proj.
    apply ok_other; try reflexivity; try lia.
    + apply tags_single_ne. exact NE.
    + rewrite mem_remove, (neq_eqb _ _ NE). reflexivity.
  - exact R.
Qed.

(* cancelling a request that waits for the blocking lock *)
Lemma Q_cancel_qblock : forall s rid r, Q s -> get s rid = Some r -> r_phase r = PQBlock ->
  Q (finish (blk_drop s rid) rid OCancelled).
Proof.
  intros s rid r R G P. destruct (get_In _ _ _ G) as [Ir Er]. pose proof (ok_idle _ _ (proj2 R r Ir)) as [HL HP].
  rewrite P, Er in HP. destruct HP as [HP BL]. injection HP as H1 H2 H3 H4. pose proof R as [RGs _].
  unfold blk_drop. fold (mem rid (block_q s)). rewrite H4. set (s1 := emit _ (GBlkDrop rid)).
  assert (G1 : get s1 rid = Some r) by exact G.
  apply (RI_upd s _ [] _ rid (fin r OCancelled)).
  - apply (RG_frame s1); [apply frame_finish|apply ids_finish|].
    destruct RGs as [A1 A2 A3 A4 A5 A6 A7 A8 A9 A10]. unfold s1. constructor; autorewrite with proj; try assumption.
    + apply NoDup_filter. exact A3.
    + intros E. apply remove_nil. auto.
    + intros id Hid. apply A7. exact (In_remove _ _ _ Hid).
  - intros x Hx. apply (reqs_finish_cases s1 rid r _ x G1 Hx).
  - apply (ok_frame s1); [apply frame_finish|]. unfold ok, okf, s1. autorewrite with proj. cbn [fin upd_req r_id].
    rewrite Er, tags_nil, mem_remove, Nat.eqb_refl, H1, H2, H3. cbn [sit_of negb andb].
    split; [intros X; discriminate X|reflexivity].
  - intros x Hx NE OKx. apply (ok_frame s1); [apply frame_finish|]. revert OKx. unfold ok, s1. autorewrite with proj.
    apply ok_other; try reflexivity; try lia.
    rewrite mem_remove, (neq_eqb _ _ NE). reflexivity.
  - exact R.
Qed.

Lemma LI_msg_drop : forall s rid, LI s -> LI (msg_drop s rid). Proof. intros s rid. apply LI_rel. apply rel_msg_drop. Qed.

Lemma Q_cancel : forall s rid, LI s -> Q s -> Q (cancel s rid).
Proof.
  intros s rid L R. unfold cancel. destruct (get s rid) as [r|] eqn:G; [|exact R].
  destruct (r_phase r) as [| |k d|d|o] eqn:P.
  - exact (Q_cancel_qblock s rid r R G P).
  - apply settle_Q; [apply LI_finish; apply LI_msg_drop; exact L|]. exact (RI_cancel_qmsg s rid r R G P).
  - apply settle_Q; [apply LI_finish; exact L|]. apply (RI_finish34 s rid r); [exact R|exact G|exists k, d; exact P].
  - apply settle_Q; [apply LI_finish; exact L|]. apply (RI_finish4 s rid r); [exact R|exact G|exists d; exact P].
  - exact R.
Qed.

Lemma lookupt_app : forall tb rid v id,
  lookupt (tb ++ [(rid, v)]) id = match lookupt tb id with Some v' => Some v' | None => if (rid =? id)%nat then Some v else None end.
Proof.
  intros tb rid v id. unfold lookupt. induction tb as [|e tb IH]; cbn [app find fst].
  - destruct (rid =? id)%nat; reflexivity.
  - destruct (fst e =? id)%nat; [reflexivity|exact IH].
Qed.

(* a new request record is appended; the blocking lock may be taken or queued on by it *)
Lemma RI_issue_gen : forall s s' w' rnew v,
  Q s -> ~ In (r_id rnew) (ids s) -> reqs s' = reqs s ++ [rnew] -> now s' = now s -> msg_next s' = msg_next s ->
  msg_holder s' = msg_holder s -> msg_q s' = msg_q s ->
  (tbl s' = tbl s \/ tbl s' = tbl s ++ [(r_id rnew, v)]) ->
  ((block_holder s' = block_holder s /\ block_q s' = block_q s) \/
   (block_holder s = None /\ block_q s = [] /\ block_holder s' = Some (r_id rnew) /\ block_q s' = []) \/
   (exists h, block_holder s = Some h /\ block_holder s' = Some h /\ block_q s' = block_q s ++ [r_id rnew])) ->
  (forall id, id <> r_id rnew -> tags w' id = []) ->
  ok s' w' rnew -> RI s' w'.
Proof.
  intros s s' w' rnew v R FR E1 E2 E3 E4 E5 TB BL TG OWN. set (rid := r_id rnew) in *.
  pose proof R as [[A1 A2 A3 A4 A5 A6 A7 A8 A9 A10] OKs].
  assert (I : ids s' = ids s ++ [rid]) by (unfold ids; rewrite E1, map_app; reflexivity).
  split.
  - constructor; rewrite ?I, ?E4, ?E5; try assumption.
    + apply NoDup_snoc; assumption.
    + destruct BL as [[B1 B2]|[(B1 & B2 & B3 & B4)|(h & B1 & B3 & B4)]]; rewrite ?B2, ?B4; try assumption; [constructor|].
      apply NoDup_snoc; [assumption|]. intros X. apply FR. apply A7. exact X.
    + destruct BL as [[B1 B2]|[(B1 & B2 & B3 & B4)|(h & B1 & B3 & B4)]]; rewrite ?B1, ?B2, ?B3, ?B4; try assumption; try reflexivity.
      intros X. discriminate X.
    + intros id Hid. apply in_or_app. left. apply A6. exact Hid.
    + intros id Hid. apply in_or_app.
      destruct BL as [[B1 B2]|[(B1 & B2 & B3 & B4)|(h & B1 & B3 & B4)]]; rewrite ?B2, ?B4 in Hid.
      * left. apply A7. exact Hid.
      * destruct Hid.
      * apply in_app_or in Hid. destruct Hid as [Hid|Hid]; [left; apply A7; exact Hid|right; exact Hid].
    + intros h Hh. apply in_or_app. left. apply A8. exact Hh.
    + intros h Hh. apply in_or_app.
      destruct BL as [[B1 B2]|[(B1 & B2 & B3 & B4)|(h' & B1 & B3 & B4)]]; rewrite ?B1, ?B3 in Hh.
      * left. apply A9. exact Hh.
      * right. left. congruence.
      * left. apply A9. congruence.
    + intros id Hid. apply in_or_app. destruct TB as [TB|TB]; rewrite TB in Hid; [left; apply A10; exact Hid|].
      rewrite lookupt_app in Hid. destruct (lookupt (tbl s) id) eqn:LK; [left; apply A10; congruence|].
      destruct (rid =? id)%nat eqn:E; [|congruence]. apply Nat.eqb_eq in E. right. left. exact E.
  - intros x Hx. rewrite E1 in Hx. apply in_app_or in Hx. destruct Hx as [Hx|[Hx|[]]]; [|subst x; exact OWN].
    assert (NE : r_id x <> rid) by (intros X; apply FR; rewrite <- X; unfold ids; apply in_map; exact Hx).
    specialize (OKs x Hx). revert OKs. unfold ok. rewrite E2, E3, E4, E5. apply ok_other; try reflexivity; try lia.
    + rewrite (TG _ NE). reflexivity.
    + destruct BL as [[B1 B2]|[(B1 & B2 & B3 & B4)|(h & B1 & B3 & B4)]]; rewrite ?B1, ?B3; try reflexivity.
      rewrite holds_some, holds_none. apply neq_eqb'. exact NE.
    + destruct BL as [[B1 B2]|[(B1 & B2 & B3 & B4)|(h & B1 & B3 & B4)]]; rewrite ?B2, ?B4; try reflexivity.
      rewrite mem_app, mem_cons, (neq_eqb' _ _ NE). cbn [mem existsb orb]. apply orb_false_r.
    + destruct TB as [TB|TB]; rewrite TB; [reflexivity|]. rewrite lookupt_app, (neq_eqb' _ _ NE).
      destruct (lookupt (tbl s) (r_id x)); reflexivity.
Qed.

Lemma map_fresh : forall (l : list req) rid r', ~ In rid (map r_id l) ->
  map (fun x => if (r_id x =? rid)%nat then r' else x) l = l.
Proof.
  induction l as [|y l IH]; intros rid r' H; [reflexivity|]. cbn [map] in *.
  rewrite IH by (intros X; apply H; right; exact X).
  destruct (r_id y =? rid)%nat eqn:E; [|reflexivity]. apply Nat.eqb_eq in E. exfalso. apply H. left. exact E.
Qed.
Lemma find_fresh : forall (l : list req) rid r0, ~ In rid (map r_id l) -> r_id r0 = rid ->
  find (fun r => (r_id r =? rid)%nat) (l ++ [r0]) = Some r0.
Proof.
  induction l as [|y l IH]; intros rid r0 H E; cbn [app find].
  - rewrite E, Nat.eqb_refl. reflexivity.
  - cbn [map] in H. destruct (r_id y =? rid)%nat eqn:Ey; [apply Nat.eqb_eq in Ey; exfalso; apply H; left; exact Ey|].
    apply IH; [intros X; apply H; right; exact X|exact E].
Qed.

Lemma Q_issue : forall s rid cls b n t, (1 <= n)%nat -> LI s -> Q s -> get s rid = None -> Q (issue s rid cls b n t).
Proof.
  intros s rid cls b n t WF L R G. pose proof R as [[A1 A2 A3 A4 A5 A6 A7 A8 A9 A10] OKs].
  assert (FR : ~ In rid (ids s)) by (intros X; apply get_ids in X; congruence).
  assert (F1 : holds (msg_holder s) rid = false).
  { destruct (msg_holder s) as [h|] eqn:E; [|reflexivity]. rewrite holds_some. apply neq_eqb. intros X. subst h. apply FR. apply A8. reflexivity. }
  assert (F2 : holds (block_holder s) rid = false).
  { destruct (block_holder s) as [h|] eqn:E; [|reflexivity]. rewrite holds_some. apply neq_eqb. intros X. subst h. apply FR. apply A9. reflexivity. }
  assert (F3 : mem rid (msg_q s) = false) by (apply mem_false; intros X; apply FR; apply A6; exact X).
  assert (F4 : mem rid (block_q s) = false) by (apply mem_false; intros X; apply FR; apply A7; exact X).
  assert (F5 : lookupt (tbl s) rid = None).
  { destruct (lookupt (tbl s) rid) eqn:E; [|reflexivity]. exfalso. apply FR. apply A10. congruence. }
  unfold issue. set (r0 := {| r_id := rid; r_cls := cls; r_blocking := b; r_nfrags := n; r_timeout := t; r_phase := PQMsg; r_fut := FPending |}).
  destruct (uart_present s) eqn:U; cbn [negb].
  2:{ apply (RI_issue_gen s _ [] (upd_req r0 (PDone ORuntime) FCancelled) (b, n) R); try reflexivity; try exact FR.
      - left; reflexivity.
      - left; split; reflexivity.
      - unfold ok, okf. autorewrite with proj. cbn [upd_req r0 r_id]. rewrite tags_nil, F1, F2, F3, F4. cbn [sit_of].
        split; [intros X; discriminate X|reflexivity]. }
  set (s1 := emit _ (GIssue rid b n)).
  assert (L1 : LI s1) by exact L.
  assert (LK : lookupt (tbl s ++ [(rid, (b, n))]) rid = Some (b, n)) by (rewrite lookupt_app, F5, Nat.eqb_refl; reflexivity).
  destruct b.
  - unfold blk_try. change (block_holder s1) with (block_holder s). change (block_q s1) with (block_q s).
    assert (FAIL : forall h, block_holder s = Some h ->
       Q (set_phase (emit (set_block s1 (block_holder s) (block_q s ++ [rid])) (GBlkWait rid)) rid PQBlock)).
    { intros h Eh. set (s2 := emit _ (GBlkWait rid)).
      assert (G2 : get s2 rid = Some r0) by (unfold get, s2, s1; autorewrite with proj; apply find_fresh; [exact FR|reflexivity]).
      rewrite (set_phase_get _ _ _ _ G2). set (r1 := upd_req r0 PQBlock (r_fut r0)).
      apply (RI_issue_gen s _ [] r1 (true, n) R); try reflexivity; try exact FR.
      - unfold put, s2, s1. autorewrite with proj. rewrite map_app, (map_fresh _ _ _ FR). cbn [map r0 r_id r1 upd_req].
        rewrite Nat.eqb_refl. reflexivity.
      - right; reflexivity.
      - right; right. exists h. repeat split; assumption.
      - unfold ok, okf, put, s2, s1. autorewrite with proj. cbn [r1 upd_req r0 r_id r_phase r_blocking r_nfrags]. rewrite LK, tags_nil, F1, F2, F3, mem_app, F4, mem_cons, Nat.eqb_refl.
        cbn [sit_of orb]. split; [intros _; split; [reflexivity|exact WF]|]. split; reflexivity. }
    destruct (block_holder s) as [h|] eqn:Eh.
    + cbn [fst snd]. apply (FAIL h). reflexivity.
    + destruct (block_q s) as [|m q] eqn:Eq; [|pose proof (A5 eq_refl) as X; discriminate X].
      cbn [fst snd]. apply settle_Q; [exact L1|].
      apply (RI_issue_gen s _ _ r0 (true, n) R); try reflexivity; try exact FR.
      * right; reflexivity.
      * right; left. repeat split; assumption.
      * intros id NE. apply tags_single_ne. exact NE.
      * unfold ok, okf, s1. autorewrite with proj. cbn [r0 r_id]. rewrite LK, tags_cons, Nat.eqb_refl, tags_nil, F1, F3, holds_some, Nat.eqb_refl.
        cbn [sit_of mem existsb]. split; [intros _; split; [reflexivity|exact WF]|reflexivity].
  - apply settle_Q; [exact L1|].
    apply (RI_issue_gen s _ _ r0 (false, n) R); try reflexivity; try exact FR.
    + right; reflexivity.
    + left; split; reflexivity.
    + intros id NE. apply tags_single_ne. exact NE.
    + unfold ok, okf, s1. autorewrite with proj. cbn [r0 r_id]. rewrite LK, tags_cons, Nat.eqb_refl, tags_nil, F1, F2, F3, F4.
      cbn [sit_of]. split; [intros _; split; [reflexivity|exact WF]|reflexivity].
Qed.

(* ====================================================================== *)
(* 2c. per-record predicates that the scheduler preserves *)

Definition keeps (P : req -> Prop) : Prop :=
  (forall r p, P r -> match p with PAwaitRsp _ | PDone _ => False | _ => True end -> P (upd_req r p (r_fut r))) /\
  (forall r o, P r -> P (fin r o)) /\
  (forall r d, P r -> r_fut r = FPending -> P (upd_req r (PAwaitRsp d) (r_fut r))).

Definition All (P : req -> Prop) (s : state) : Prop := forall x, In x (reqs s) -> P x.

Lemma All_reqs : forall (P : req -> Prop) s s', reqs s' = reqs s -> All P s -> All P s'.
Proof. intros P s s' E H x Hx. rewrite E in Hx. exact (H x Hx). Qed.
Lemma All_put : forall (P : req -> Prop) s r', P r' -> All P s -> All P (put s r').
Proof. intros P s r' H A x Hx. apply reqs_put_cases in Hx. destruct Hx as [E|[I _]]; [subst x; exact H|exact (A x I)]. Qed.
Lemma All_set_phase : forall (P : req -> Prop) s rid p, keeps P -> match p with PAwaitRsp _ | PDone _ => False | _ => True end ->
  All P s -> All P (set_phase s rid p).
Proof.
  intros P s rid p (K1 & _ & _) Hp A. unfold set_phase. destruct (get s rid) as [r|] eqn:G; [|exact A].
  apply All_put; [|exact A]. apply K1; [|exact Hp]. exact (A r (proj1 (get_In _ _ _ G))).
Qed.
Lemma All_finish : forall (P : req -> Prop) s rid o, keeps P -> All P s -> All P (finish s rid o).
Proof.
  intros P s rid o (_ & K2 & _) A. destruct (get s rid) as [r|] eqn:G; [|unfold finish; rewrite G; exact A].
  rewrite (finish_get _ _ _ _ G). apply (All_reqs P (put s (fin r o))); [reflexivity|].
  apply All_put; [|exact A]. apply K2. exact (A r (proj1 (get_In _ _ _ G))).
Qed.

Lemma reqs_msg_rel : forall s rid, reqs (fst (msg_rel s rid)) = reqs s.
Proof. intros. unfold msg_rel. destruct (holds_msg s rid); [destruct (msg_q s)|]; reflexivity. Qed.
Lemma reqs_blk_rel : forall s rid, reqs (fst (blk_rel s rid)) = reqs s.
Proof. intros. unfold blk_rel. destruct (holds_blk s rid); [destruct (block_q s)|]; reflexivity. Qed.
Lemma reqs_msg_try : forall s rid, reqs (fst (msg_try s rid)) = reqs s.
Proof. intros. unfold msg_try. destruct (msg_holder s); [|destruct (msg_q s)]; reflexivity. Qed.
Lemma reqs_blk_try : forall s rid, reqs (fst (blk_try s rid)) = reqs s.
Proof. intros. unfold blk_try. destruct (block_holder s); [|destruct (block_q s)]; reflexivity. Qed.

Lemma All_do_write : forall (P : req -> Prop) s rid, keeps P -> All P s -> All P (do_write s rid).
Proof.
  intros P s rid K A. unfold do_write. destruct (transport_open s); apply All_set_phase; try exact K; try exact I;
    apply (All_reqs P s); try reflexivity; exact A.
Qed.

Lemma All_act : forall (P : req -> Prop) s rid tag, keeps P -> All P s -> All P (fst (fst (act s rid tag))).
Proof.
  intros P s rid tag K A. unfold act. destruct (get s rid) as [r|] eqn:G; [|exact A].
  destruct tag as [|[|[|[|t]]]].
  - pose proof (reqs_msg_try s rid) as M. destruct (msg_try s rid) as [s1 got]. cbn [fst] in M.
    assert (A1 : All P s1) by (apply (All_reqs P s); assumption).
    destruct got; cbn [fst]; [exact A1|]. apply All_set_phase; [exact K|exact I|exact A1].
  - destruct (negb (uart_present s)); cbn [fst]; [apply All_finish; assumption|].
    destruct (may_write s rid); [|exact A]. destruct (transport_open s); cbn [fst]; apply All_do_write; assumption.
  - destruct (r_phase r) as [| |k d| |]; try exact A. destruct (S k <? r_nfrags r)%nat; [exact A|].
    pose proof (reqs_msg_rel s rid) as M. destruct (msg_rel s rid) as [s0 nxt]. cbn [fst] in M.
    assert (A0 : All P s0) by (apply (All_reqs P s); assumption).
    assert (G0 : get s0 rid = Some r) by (rewrite (get_reqs _ _ rid M); exact G).
    destruct (r_fut r) eqn:F; cbn [fst]; [|apply All_finish; assumption|apply All_finish; assumption].
    rewrite (set_phase_get _ _ _ _ G0). apply All_put; [|exact A0]. destruct K as (_ & _ & K3). rewrite F.
    rewrite <- F. apply K3; [|exact F]. exact (A r (proj1 (get_In _ _ _ G))).
  - pose proof (reqs_msg_rel s rid) as M. destruct (msg_rel s rid) as [s0 nxt]. cbn [fst] in *. apply (All_reqs P s); assumption.
  - pose proof (reqs_blk_rel s rid) as M. destruct (blk_rel s rid) as [s0 nxt]. cbn [fst] in *. apply (All_reqs P s); assumption.
Qed.

Lemma All_run : forall (P : req -> Prop) fuel s w, keeps P -> All P s -> All P (run fuel s w).
Proof.
  intros P. induction fuel as [|fuel IH]; intros s w K A; [exact A|]. cbn [run]. destruct w as [|[rid tag] rest]; [exact A|].
  pose proof (All_act P s rid tag K A) as A1. destruct (act s rid tag) as [[s1 front] back]. apply IH; assumption.
Qed.
Lemma All_settle : forall (P : req -> Prop) s w, keeps P -> All P s -> All P (settle s w).
Proof. intros. apply All_run; assumption. Qed.

(* the three instances *)
Definition is_rsp (r : req) : bool := match r_phase r with PAwaitRsp _ => true | _ => false end.
Definition g2 (r : req) : Prop := is_rsp r = true -> r_fut r = FPending.
Definition np (L : list nat) (r : req) : Prop := r_fut r <> FPending /\ (is_rsp r = true -> In (r_id r) L).

Lemma keeps_g2 : keeps g2.
Proof.
  unfold keeps, g2, is_rsp. repeat split.
  - intros r p _ Hp. cbn [upd_req r_phase]. destruct p; try discriminate. destruct Hp.
  - intros r o _. cbn [fin upd_req r_phase]. discriminate.
  - intros r d _ F _. exact F.
Qed.
Lemma keeps_np : forall L, keeps (np L).
Proof.
  intros L. unfold keeps, np, is_rsp. repeat split.
  - cbn [upd_req r_fut]. tauto.
  - destruct H as [_ H]. cbn [upd_req r_phase r_id] in *. destruct p; try discriminate. destruct H0.
  - cbn [fin upd_req r_fut]. destruct (r_fut r); congruence.
  - cbn [fin upd_req r_phase]. discriminate.
  - destruct H as [H _]. contradiction.
  - destruct H as [H _]. contradiction.
Qed.

(* ---- a request other than the acting one keeps its record ---- *)
Lemma get_set_phase_other : forall s rid p i, rid <> i -> get (set_phase s rid p) i = get s i.
Proof.
  intros s rid p i NE. unfold set_phase. destruct (get s rid) as [r|] eqn:G; [|reflexivity].
  apply get_put_other. cbn [upd_req r_id]. rewrite (proj2 (get_In _ _ _ G)). exact NE.
Qed.
Lemma get_set_fut_other : forall s rid f i, rid <> i -> get (set_fut s rid f) i = get s i.
Proof.
  intros s rid f i NE. unfold set_fut. destruct (get s rid) as [r|] eqn:G; [|reflexivity].
  apply get_put_other. cbn [upd_req r_id]. rewrite (proj2 (get_In _ _ _ G)). exact NE.
Qed.
Lemma get_finish_other : forall s rid o i, rid <> i -> get (finish s rid o) i = get s i.
Proof.
  intros s rid o i NE. destruct (get s rid) as [r|] eqn:G; [|unfold finish; rewrite G; reflexivity].
  rewrite (finish_get _ _ _ _ G). change (get (put s (fin r o)) i = get s i).
  apply get_put_other. cbn [fin upd_req r_id]. rewrite (proj2 (get_In _ _ _ G)). exact NE.
Qed.
Lemma get_do_write_other : forall s rid i, rid <> i -> get (do_write s rid) i = get s i.
Proof. intros s rid i NE. unfold do_write. destruct (transport_open s); rewrite get_set_phase_other by exact NE; reflexivity. Qed.

Lemma get_act_other : forall s rid tag i, rid <> i -> get (fst (fst (act s rid tag))) i = get s i.
Proof.
  intros s rid tag i NE. unfold act. destruct (get s rid) as [r|] eqn:G; [|reflexivity].
  destruct tag as [|[|[|[|t]]]].
  - pose proof (reqs_msg_try s rid) as M. destruct (msg_try s rid) as [s1 got]. cbn [fst] in M.
    destruct got; cbn [fst]; rewrite ?get_set_phase_other by exact NE; apply get_reqs; exact M.
  - destruct (negb (uart_present s)); cbn [fst]; [apply get_finish_other; exact NE|].
    destruct (may_write s rid); [|reflexivity]. destruct (transport_open s); cbn [fst]; apply get_do_write_other; exact NE.
  - destruct (r_phase r) as [| |k d| |]; try reflexivity. destruct (S k <? r_nfrags r)%nat; [reflexivity|].
    pose proof (reqs_msg_rel s rid) as M. destruct (msg_rel s rid) as [s0 nxt]. cbn [fst] in M.
    destruct (r_fut r); cbn [fst]; rewrite ?get_set_phase_other, ?get_finish_other by exact NE; apply get_reqs; exact M.
  - pose proof (reqs_msg_rel s rid) as M. destruct (msg_rel s rid) as [s0 nxt]. cbn [fst] in *. apply get_reqs; exact M.
  - pose proof (reqs_blk_rel s rid) as M. destruct (blk_rel s rid) as [s0 nxt]. cbn [fst] in *. apply get_reqs; exact M.
Qed.

(* a request waiting for its response is not touched by the scheduler *)
Lemma rsp_idle : forall s w x, ok s w x -> is_rsp x = true -> tags w (r_id x) = [].
Proof.
  intros s w x [_ H] R. apply sit_idle. unfold is_rsp in R. destruct (r_phase x); try discriminate R.
  destruct (sit_of (tags w (r_id x))); try contradiction. reflexivity.
Qed.

Lemma stable_run : forall i x, is_rsp x = true -> forall fuel s w, LI s -> RI s w -> get s i = Some x ->
  get (run fuel s w) i = Some x.
Proof.
  intros i x Rx. induction fuel as [|fuel IH]; intros s w L R G; [exact G|]. cbn [run]. destruct w as [|[rid tag] rest]; [exact G|].
  assert (NE : rid <> i).
  { intros E. subst rid. destruct (get_In _ _ _ G) as [Ix Ex]. pose proof (rsp_idle _ _ _ (proj2 R x Ix) Rx) as T.
    rewrite Ex, tags_cons, Nat.eqb_refl in T. discriminate T. }
  pose proof (act_RI s rid tag rest L R) as A. pose proof (LI_act s rid tag L) as L1. pose proof (get_act_other s rid tag i NE) as G1.
  destruct (act s rid tag) as [[s1 front] back]. cbn [fst snd] in A, L1, G1. apply IH; [exact L1|exact A|congruence].
Qed.
Lemma stable_settle : forall i x s w, is_rsp x = true -> LI s -> RI s w -> get s i = Some x -> get (settle s w) i = Some x.
Proof. intros i x s w Rx. apply stable_run. exact Rx. Qed.

(* ====================================================================== *)
(* 2d. close: cancel_waiters *)

Definition cf1 (a : state) (r : req) : state := set_fut a (r_id r) FCancelled.
Definition cf2 (a : state) (r : req) : state :=
  match r_phase r with PAwaitRsp _ => settle (finish a (r_id r) OCancelled) [(r_id r, 4%nat)] | _ => a end.
Lemma cancel_waiters_eq : forall s, cancel_waiters s = fold_left cf2 (waiters s) (fold_left cf1 (waiters s) s).
Proof. reflexivity. Qed.

Lemma fold1_RI : forall l s w, RI s w -> RI (fold_left cf1 l s) w.
Proof. induction l as [|r l IH]; intros s w R; [exact R|]. cbn [fold_left]. apply IH. apply RI_set_fut. exact R. Qed.
Lemma fold1_LI : forall l s, LI s -> LI (fold_left cf1 l s).
Proof. induction l as [|r l IH]; intros s L; [exact L|]. cbn [fold_left]. apply IH. apply LI_set_fut. exact L. Qed.
Lemma fold1_up : forall l s, uart_present (fold_left cf1 l s) = uart_present s.
Proof.
  induction l as [|r l IH]; intros s; [reflexivity|]. cbn [fold_left]. rewrite IH. unfold cf1.
  pose proof (frame_set_fut s (r_id r) FCancelled) as F. frame_fields F. exact Fup.
Qed.

Lemma fold1_spec : forall l acc x', In x' (reqs (fold_left cf1 l acc)) ->
  exists x, In x (reqs acc) /\ r_id x' = r_id x /\ r_phase x' = r_phase x /\
            ((r_fut x' = r_fut x /\ ~ In (r_id x) (map r_id l)) \/ r_fut x' = FCancelled).
Proof.
  induction l as [|r l IH]; intros acc x' H.
  - exists x'. repeat split; auto.
  - cbn [fold_left] in H. apply IH in H. destruct H as (x1 & I1 & E1 & P1 & F1). unfold cf1 in I1.
    destruct (get acc (r_id r)) as [r0|] eqn:G.
    + rewrite (set_fut_get _ _ _ _ G) in I1. apply reqs_put_cases in I1. cbn [upd_req r_id] in I1.
      destruct (get_In _ _ _ G) as [I0 E0]. destruct I1 as [E|[I NE]].
      * subst x1. exists r0. cbn [upd_req r_id r_phase r_fut] in *. repeat split; try assumption. right.
        destruct F1 as [[F1 _]|F1]; congruence.
      * exists x1. repeat split; try assumption. destruct F1 as [[F1 N1]|F1]; [left|right; exact F1]. split; [exact F1|].
        cbn [map]. intros [X|X]; [|contradiction]. apply NE. rewrite E0. symmetry. exact X.
    + unfold set_fut in I1. rewrite G in I1. exists x1. repeat split; try assumption.
      destruct F1 as [[F1 N1]|F1]; [left|right; exact F1]. split; [exact F1|].
      cbn [map]. intros [X|X]; [|contradiction].
      assert (In (r_id r) (ids acc)) by (rewrite X; unfold ids; apply in_map; exact I1). apply get_ids in H. congruence.
Qed.

Definition rsp_ids (l : list req) : list nat := map r_id (filter is_rsp l).

Lemma NoDup_map_filter : forall (f : req -> bool) l, NoDup (map r_id l) -> NoDup (map r_id (filter f l)).
Proof.
  intros f. induction l as [|y l IH]; intros N; [constructor|]. cbn [map filter] in *. inversion N; subst.
  destruct (f y); [|apply IH; assumption]. cbn [map]. constructor; [|apply IH; assumption].
  intros X. apply H1. apply in_map_iff in X. destruct X as (z & E & Hz). apply filter_In in Hz. rewrite <- E. apply in_map. exact (proj1 Hz).
Qed.

(* one step of the second loop of cancel_waiters *)
Definition FI2 (acc : state) (l : list req) : Prop :=
  Q acc /\ LI acc /\ All (np (rsp_ids l)) acc /\
  (forall r, In r l -> is_rsp r = true -> exists r', get acc (r_id r) = Some r' /\ is_rsp r' = true) /\
  NoDup (map r_id l).

Lemma FI2_step : forall acc r l, FI2 acc (r :: l) -> FI2 (cf2 acc r) l.
Proof.
  intros acc r l (R & L & A & S & N). cbn [map] in N. inversion N as [|? ? N1 N2]; subst.
  destruct (is_rsp r) eqn:Rr.
  - destruct (S r (or_introl eq_refl) Rr) as (r' & G & Rr').
    assert (E2 : cf2 acc r = settle (finish acc (r_id r) OCancelled) [(r_id r, 4%nat)])
      by (unfold cf2; unfold is_rsp in Rr; destruct (r_phase r); try discriminate Rr; reflexivity).
    rewrite E2. set (acc1 := finish acc (r_id r) OCancelled).
    assert (R1 : RI acc1 [(r_id r, 4%nat)]).
    { apply (RI_finish4 acc _ r'); [exact R|exact G|]. unfold is_rsp in Rr'. destruct (r_phase r') as [| | |d|]; try discriminate Rr'. exists d. reflexivity. }
    assert (L1 : LI acc1) by (apply LI_finish; exact L).
    split; [|split; [|split; [|split]]].
    + exact (settle_Q _ _ L1 R1).
    + apply LI_settle. exact L1.
    + apply All_settle; [apply keeps_np|]. intros x Hx. apply (reqs_finish_cases acc _ r' _ x G) in Hx. destruct Hx as [E|[I NE]].
      * subst x. split; [cbn [fin upd_req r_fut]; destruct (r_fut r'); congruence|]. cbn. discriminate.
      * destruct (A x I) as [F1 F2]. split; [exact F1|]. intros Rx. specialize (F2 Rx). unfold rsp_ids in F2. cbn [filter] in F2.
        rewrite Rr in F2. cbn [map] in F2. destruct F2 as [F2|F2]; [congruence|exact F2].
    + intros r2 I2 R2. destruct (S r2 (or_intror I2) R2) as (r2' & G2 & R2'). exists r2'. split; [|exact R2'].
      assert (NE : r_id r <> r_id r2) by (intros X; apply N1; rewrite X; apply in_map; exact I2).
      apply stable_settle; [exact R2'|exact L1|exact R1|]. unfold acc1. rewrite get_finish_other by exact NE. exact G2.
    + exact N2.
  - assert (E2 : cf2 acc r = acc) by (unfold cf2; unfold is_rsp in Rr; destruct (r_phase r); try discriminate Rr; reflexivity).
    rewrite E2. split; [|split; [|split; [|split]]]; try assumption.
    + intros x Hx. specialize (A x Hx). unfold rsp_ids in A. cbn [filter] in A. rewrite Rr in A. exact A.
    + intros r2 I2 R2. exact (S r2 (or_intror I2) R2).
Qed.

Lemma FI2_fold : forall l acc, FI2 acc l -> FI2 (fold_left cf2 l acc) [].
Proof. induction l as [|r l IH]; intros acc H; [exact H|]. cbn [fold_left]. apply IH. apply FI2_step. exact H. Qed.

Lemma fold1_ids : forall l s, ids (fold_left cf1 l s) = ids s.
Proof. induction l as [|r l IH]; intros s; [reflexivity|]. cbn [fold_left]. rewrite IH. apply ids_set_fut. Qed.

Lemma is_rsp_phase : forall a b, r_phase a = r_phase b -> is_rsp a = is_rsp b.
Proof. intros a b H. unfold is_rsp. rewrite H. reflexivity. Qed.

Lemma In_waiters : forall s x, In x (reqs s) -> is_done x = false -> r_fut x = FPending -> In x (waiters s).
Proof. intros s x I D F. unfold waiters. apply filter_In. split; [exact I|]. rewrite D, F. reflexivity. Qed.

Theorem cancel_waiters_spec : forall s, Q s -> LI s -> All g2 s -> Forall good (reqs s) -> FI2 (cancel_waiters s) [].
Proof.
  intros s R L C GD. rewrite cancel_waiters_eq. apply FI2_fold.
  assert (N : NoDup (ids s)) by exact (rg_ids _ (proj1 R)).
  rewrite Forall_forall in GD.
  split; [|split; [|split; [|split]]].
  - apply fold1_RI. exact R.
  - apply fold1_LI. exact L.
  - intros x' Hx'. apply fold1_spec in Hx'. destruct Hx' as (x & Ix & Ei & Ep & Ef). split.
    + destruct Ef as [[Ef Nx]|Ef]; [|congruence]. rewrite Ef. intros FP.
      destruct (is_done x) eqn:D; [exact (GD x Ix D FP)|]. apply Nx. apply in_map. exact (In_waiters s x Ix D FP).
    + intros Rx'. rewrite (is_rsp_phase _ _ Ep) in Rx'. rewrite Ei. unfold rsp_ids. apply in_map. apply filter_In. split; [|exact Rx'].
      apply In_waiters; [exact Ix| |exact (C x Ix Rx')]. unfold is_rsp in Rx'. unfold is_done. destruct (r_phase x); try discriminate Rx'; reflexivity.
  - intros r Ir Rr. unfold waiters in Ir. apply filter_In in Ir. destruct Ir as [Ir _].
    set (s1 := fold_left cf1 _ s).
    assert (I1 : In (r_id r) (ids s1)) by (unfold s1; rewrite fold1_ids; unfold ids; apply in_map; exact Ir).
    apply get_ids in I1. destruct (get s1 (r_id r)) as [r'|] eqn:G1; [|congruence]. exists r'. split; [reflexivity|].
    destruct (get_In _ _ _ G1) as [I' E']. unfold s1 in I'. apply fold1_spec in I'. destruct I' as (x & Ix & Ei & Ep & _).
    assert (x = r) by (apply (get_unique s (r_id r) r x N (In_get s r N Ir) Ix); congruence). subst x.
    rewrite (is_rsp_phase _ _ Ep). exact Rr.
  - unfold waiters. apply NoDup_map_filter. exact N.
Qed.

(* ---- close ---- *)
Definition close_pre (s : state) : state :=
  if uart_present s then set_link s 0 (ack_owner s) false false (app_attached s) (reset_in_progress s) (rx_seq s) (now s) else s.
Lemma close_eq : forall s, close s = if reset_in_progress (close_pre s) then close_pre s else cancel_waiters (detach_app (close_pre s)).
Proof. reflexivity. Qed.
Lemma close_pre_facts : forall s, Q s -> LI s -> All g2 s -> Forall good (reqs s) ->
  Q (close_pre s) /\ LI (close_pre s) /\ All g2 (close_pre s) /\ Forall good (reqs (close_pre s)) /\ uart_present (close_pre s) = false /\
  reset_in_progress (close_pre s) = reset_in_progress s.
Proof.
  intros s R L C GD. unfold close_pre. destruct (uart_present s) eqn:U.
  - split; [|split; [|split; [|split; [|split]]]]; try assumption; try reflexivity.
    + apply (RI_fields s); try reflexivity; exact R.
    + intros X; discriminate X.
  - split; [|split; [|split; [|split; [|split]]]]; try assumption; reflexivity.
Qed.

Lemma Q_close : forall s, Q s -> LI s -> All g2 s -> Forall good (reqs s) -> Q (close s) /\ All g2 (close s).
Proof.
  intros s R L C GD. rewrite close_eq. destruct (close_pre_facts s R L C GD) as (R0 & L0 & C0 & G0 & U0 & _).
  destruct (reset_in_progress (close_pre s)); [split; assumption|].
  assert (R1 : Q (detach_app (close_pre s))) by (apply (RI_fields (close_pre s)); try reflexivity; exact R0).
  destruct (cancel_waiters_spec (detach_app (close_pre s)) R1 L0 C0 G0) as (R2 & _ & A2 & _).
  split; [exact R2|]. intros x Hx Rx. destruct (A2 x Hx) as [_ X]. destruct (X Rx).
Qed.

(* ---- the per-record predicates through the events ---- *)
Lemma All_set_now : forall (P : req -> Prop) s t, All P s -> All P (set_now s t).
Proof. intros P s t A. exact A. Qed.

Lemma All_tick_loop : forall (P : req -> Prop) fuel s target, keeps P -> All P s -> All P (tick_loop fuel s target).
Proof.
  intros P. induction fuel as [|fuel IH]; intros s target K A; [exact A|].
  cbn [tick_loop]. destruct (earliest s) as [r|]; [|exact A]. destruct (deadline_of r) as [d|]; [|exact A].
  destruct (d <=? target); [|exact A]. destruct (r_phase r); try exact A.
  - apply IH; [exact K|]. apply All_settle; [exact K|]. exact A.
  - apply IH; [exact K|]. apply All_settle; [exact K|]. apply All_finish; [exact K|]. exact A.
Qed.

Lemma All_cancel : forall (P : req -> Prop) s rid, keeps P -> All P s -> All P (cancel s rid).
Proof.
  intros P s rid K A. unfold cancel. destruct (get s rid) as [r|]; [|exact A]. destruct (r_phase r).
  - apply All_finish; [exact K|]. apply (All_reqs P s); [|exact A]. unfold blk_drop. destruct (existsb _ _); reflexivity.
  - apply All_settle; [exact K|]. apply All_finish; [exact K|]. apply (All_reqs P s); [|exact A]. unfold msg_drop. destruct (existsb _ _); reflexivity.
  - apply All_settle; [exact K|]. apply All_finish; [exact K|]. exact A.
  - apply All_settle; [exact K|]. apply All_finish; [exact K|]. exact A.
  - exact A.
Qed.

Lemma All_app1 : forall (P : req -> Prop) s s' r0, reqs s' = reqs s ++ [r0] -> P r0 -> All P s -> All P s'.
Proof. intros P s s' r0 E H A x Hx. rewrite E in Hx. apply in_app_or in Hx. destruct Hx as [Hx|[Hx|[]]]; [exact (A x Hx)|subst x; exact H]. Qed.

Lemma g2_issue : forall s rid cls b n t, All g2 s -> All g2 (issue s rid cls b n t).
Proof.
  intros s rid cls b n t A. unfold issue. destruct (negb (uart_present s)).
  - intros x Hx. autorewrite with proj in Hx. apply in_app_or in Hx. destruct Hx as [Hx|[Hx|[]]]; [exact (A x Hx)|].
    subst x. unfold g2, is_rsp. cbn. discriminate.
  - set (s1 := emit _ (GIssue rid b n)).
    assert (A1 : All g2 s1).
    { intros x Hx. unfold s1 in Hx. autorewrite with proj in Hx. apply in_app_or in Hx. destruct Hx as [Hx|[Hx|[]]]; [exact (A x Hx)|].
      subst x. unfold g2, is_rsp. cbn. discriminate. }
    destruct b.
    + pose proof (reqs_blk_try s1 rid) as B. destruct (blk_try s1 rid) as [s2 got]. cbn [fst] in B.
      assert (A2 : All g2 s2) by (apply (All_reqs g2 s1); assumption).
      destruct got; [apply All_settle; [apply keeps_g2|exact A2]|apply All_set_phase; [apply keeps_g2|exact I|exact A2]].
    + apply All_settle; [apply keeps_g2|exact A1].
Qed.

Lemma g2_rx_rsp : forall s cls, Q s -> All g2 s -> All g2 (rx_rsp s cls).
Proof.
  intros s cls R A. unfold rx_rsp. pose proof (Q_incoming_data s R) as R1.
  assert (A1 : All g2 (incoming_data s)) by (apply (All_reqs g2 s); [unfold incoming_data; destruct (transport_open s); reflexivity|exact A]).
  set (s1 := incoming_data s) in *. destruct (oldest_waiter s1 cls) as [r|] eqn:O; [|exact A1].
  unfold oldest_waiter in O. apply find_some in O. destruct O as [Ir _].
  pose proof (In_get s1 r (rg_ids _ (proj1 R1)) Ir) as G.
  assert (A2 : forall x, In x (reqs (set_fut s1 (r_id r) FGot)) -> x = upd_req r (r_phase r) FGot \/ g2 x).
  { intros x Hx. rewrite (set_fut_get _ _ _ _ G) in Hx. apply reqs_put_cases in Hx. destruct Hx as [E|[I _]]; [left; exact E|right; exact (A1 x I)]. }
  assert (G2 : get (set_fut s1 (r_id r) FGot) (r_id r) = Some (upd_req r (r_phase r) FGot))
    by (rewrite (set_fut_get _ _ _ _ G); apply (get_put_same _ _ r); [exact G|reflexivity]).
  destruct (r_phase r) as [| | |d|] eqn:P;
    try (intros x Hx; destruct (A2 x Hx) as [E|E]; [subst x; unfold g2, is_rsp; cbn [upd_req r_phase]; discriminate|exact E]).
  apply All_settle; [apply keeps_g2|]. intros x Hx. apply (reqs_finish_cases _ _ _ _ x G2) in Hx. destruct Hx as [E|[I NE]].
  - subst x. unfold g2, is_rsp. cbn. discriminate.
  - destruct (A2 x I) as [E|E]; [|exact E]. subst x. cbn [upd_req r_id] in NE. congruence.
Qed.

(* ---- the reachable-state invariant ---- *)
Definition wf_event (e : event) : Prop := match e with EIssue _ _ _ n _ => (1 <= n)%nat | _ => True end.
Definition wf_events (evs : list event) : Prop := Forall wf_event evs.

Definition J (s : state) : Prop := Q s /\ LI s /\ All g2 s /\ Forall good (reqs s).

Lemma good_step : forall s e, Forall good (reqs s) -> Forall good (reqs (step s e)).
Proof.
  intros s e G. destruct (link_event e) eqn:L; [apply good_link_events; assumption|].
  destruct (rel_step s e L) as (_ & _ & K). apply K. exact G.
Qed.

Theorem step_J : forall s e, wf_event e -> J s -> J (step s e).
Proof.
  intros s e W (R & L & C & GD).
  assert (QC : Q (step s e) /\ All g2 (step s e)).
  { destruct e as [rid cls b n t|n|cls| |dt|rid| | | |]; cbn [step].
    - destruct (get s rid) eqn:G; [split; assumption|]. split; [apply Q_issue; assumption|apply g2_issue; assumption].
    - split; [apply Q_rx_ack; assumption|]. unfold rx_ack. destruct (n =? pack_seq s); [|exact C].
      destruct (ack_owner s) as [o|]; [|exact C]. set (s1 := set_link _ _ _ _ _ _ _ _ _). destruct (get s1 o) as [r|]; [|exact C].
      destruct (r_phase r); try exact C. apply All_settle; [apply keeps_g2|exact C].
    - split; [apply Q_rx_rsp; assumption|apply g2_rx_rsp; assumption].
    - split; [apply Q_incoming_data; assumption|]. apply (All_reqs g2 s); [unfold incoming_data; destruct (transport_open s); reflexivity|exact C].
    - split; [apply Q_tick_loop; try assumption; lia|apply All_tick_loop; [apply keeps_g2|exact C]].
    - split; [apply Q_cancel; assumption|apply All_cancel; [apply keeps_g2|exact C]].
    - apply Q_close; assumption.
    - split; [|unfold lost; destruct (app_attached s && negb (reset_in_progress s)); exact C].
      unfold lost; destruct (app_attached s && negb (reset_in_progress s)); apply (RI_fields s); try reflexivity; exact R.
    - split; [|exact C]. apply (RI_fields s); try reflexivity; exact R.
    - split; [|exact C]. apply (RI_fields s); try reflexivity; exact R. }
  destruct QC as [R' C']. split; [exact R'|]. split; [apply LI_step; exact L|]. split; [exact C'|apply good_step; exact GD].
Qed.

Lemma J_init : J init.
Proof.
  split; [|split; [|split]].
  - split; [|intros r []]. constructor.
    + constructor.
    + constructor.
    + constructor.
    + reflexivity.
    + reflexivity.
    + intros id [].
    + intros id [].
    + intros h H; discriminate H.
    + intros h H; discriminate H.
    + intros id H. exfalso. apply H. reflexivity.
  - intros _. reflexivity.
  - intros x [].
  - constructor.
Qed.

Lemma J_fold : forall evs s, wf_events evs -> J s -> J (fold_left step evs s).
Proof.
  induction evs as [|e evs IH]; intros s W H; [exact H|]. cbn [fold_left]. inversion W; subst. apply IH; [assumption|].
  apply step_J; assumption.
Qed.

(* ITEM 2: every reachable state satisfies the quiescent invariant *)
Theorem reachable_J : forall evs, wf_events evs -> J (run_events evs).
Proof. intros evs W. apply J_fold; [exact W|exact J_init]. Qed.
Theorem reachable_Q : forall evs, wf_events evs -> Q (run_events evs).
Proof. intros evs W. exact (proj1 (reachable_J evs W)). Qed.
Print Assumptions reachable_Q.

(* ====================================================================== *)
(* 3. termination after close *)

Definition is_ack (r : req) : bool := match r_phase r with PAwaitAck _ _ => true | _ => false end.

Lemma okv_idle_hb : forall hm inm inb lk mn t r, okv Idle hm true inm inb lk mn t r -> is_done r = false /\ r_phase r <> PQBlock.
Proof.
  intros hm inm inb lk mn t r [HL HP]. unfold is_done.
  destruct (r_phase r); try contradiction; repeat match goal with H : _ /\ _ |- _ => destruct H end; try congruence;
    split; congruence.
Qed.

(* in a quiescent state without pending deadlines every request is over *)
Lemma all_done_quiescent : forall s, Q s -> (forall x, In x (reqs s) -> deadline_of x = None) -> forallb is_done (reqs s) = true.
Proof.
  intros s [RGs OKs] ND. apply forallb_forall. intros x Hx.
  assert (NoMsgHolder : msg_holder s = None).
  { destruct (msg_holder s) as [h|] eqn:Eh; [|reflexivity]. exfalso.
    pose proof (rg_kmh _ RGs h Eh) as Ih. apply get_ids in Ih. destruct (get s h) as [rh|] eqn:G; [|congruence].
    destruct (get_In _ _ _ G) as [Irh Erh]. pose proof (ok_idle _ _ (OKs rh Irh)) as O. rewrite Erh, Eh, holds_some, Nat.eqb_refl in O.
    destruct (okv_idle_hm _ _ _ _ _ _ _ O) as (k & d & P). specialize (ND rh Irh). unfold deadline_of in ND. rewrite P in ND. discriminate ND. }
  assert (NoQMsg : forall y, In y (reqs s) -> r_phase y <> PQMsg).
  { intros y Hy P. pose proof (ok_idle _ _ (OKs y Hy)) as [_ O]. rewrite P in O. injection O as _ _ O _.
    apply mem_In in O. rewrite (rg_mh _ RGs NoMsgHolder) in O. destruct O. }
  assert (NoBlkHolder : block_holder s = None).
  { destruct (block_holder s) as [h|] eqn:Eh; [|reflexivity]. exfalso.
    pose proof (rg_kbh _ RGs h Eh) as Ih. apply get_ids in Ih. destruct (get s h) as [rh|] eqn:G; [|congruence].
    destruct (get_In _ _ _ G) as [Irh Erh]. pose proof (ok_idle _ _ (OKs rh Irh)) as O. rewrite Erh, Eh, holds_some, Nat.eqb_refl in O.
    destruct (okv_idle_hb _ _ _ _ _ _ _ O) as (D & P). specialize (ND rh Irh). pose proof (NoQMsg rh Irh) as P2.
    unfold deadline_of in ND. unfold is_done in D. destruct (r_phase rh); congruence. }
  pose proof (ok_idle _ _ (OKs x Hx)) as [_ O]. pose proof (NoQMsg x Hx) as P2. specialize (ND x Hx). unfold deadline_of in ND.
  unfold is_done. destruct (r_phase x) eqn:P; try congruence. destruct O as [O _]. injection O as _ _ _ O.
  apply mem_In in O. rewrite (rg_bh _ RGs NoBlkHolder) in O. destruct O.
Qed.

Lemma fold_earlier_None : forall l acc, fold_left earlier l acc = None -> acc = None /\ forall x, In x l -> deadline_of x = None.
Proof.
  induction l as [|y l IH]; intros acc H; [split; [exact H|intros x []]|]. cbn [fold_left] in H. apply IH in H. destruct H as [H1 H2].
  destruct (earlier_cases acc y) as [E|[E _]]; rewrite E in H1; [|discriminate H1]. split; [exact H1|].
  intros x [Hx|Hx]; [|exact (H2 x Hx)]. subst x. subst acc. unfold earlier in E. destruct (deadline_of y); [discriminate E|reflexivity].
Qed.
Lemma earliest_None : forall s, earliest s = None -> forall x, In x (reqs s) -> deadline_of x = None.
Proof. intros s H. rewrite earliest_fold in H. exact (proj2 (fold_earlier_None _ _ H)). Qed.
Lemma fold_earlier_dl : forall l acc r, fold_left earlier l acc = Some r -> (forall a, acc = Some a -> deadline_of a <> None) -> deadline_of r <> None.
Proof.
  induction l as [|y l IH]; intros acc r H A; [exact (A r H)|]. cbn [fold_left] in H. apply (IH _ _ H).
  intros a Ha. destruct (earlier_cases acc y) as [E|[E D]]; rewrite E in Ha; [exact (A a Ha)|]. congruence.
Qed.
Lemma earliest_dl : forall s r, earliest s = Some r -> deadline_of r <> None.
Proof. intros s r H. rewrite earliest_fold in H. apply (fold_earlier_dl _ _ _ H). intros a Ha. discriminate Ha. Qed.

Lemma find_none_dl : forall l, (forall x, In x l -> deadline_of x = None) -> forall acc, fold_left earlier l acc = acc.
Proof.
  induction l as [|y l IH]; intros H acc; [reflexivity|]. cbn [fold_left]. rewrite IH by (intros x Hx; apply H; right; exact Hx).
  unfold earlier. rewrite (H y (or_introl eq_refl)). reflexivity.
Qed.
Lemma tick_loop_nodl : forall fuel s target, (forall x, In x (reqs s) -> deadline_of x = None) -> reqs (tick_loop fuel s target) = reqs s.
Proof.
  intros fuel s target H. destruct fuel as [|fuel]; [reflexivity|]. cbn [tick_loop]. rewrite earliest_fold, (find_none_dl _ H). reflexivity.
Qed.

(* with the link absent, a request still in its ACK wait has a pending item that will end it *)
Definition NA (s : state) (w : list (nat * nat)) : Prop :=
  uart_present s = false /\
  forall x, In x (reqs s) -> is_ack x = true -> In (r_id x, 2%nat) w \/ In (r_id x, 1%nat) w.

Lemma up_act : forall s rid tag, uart_present (fst (fst (act s rid tag))) = uart_present s.
Proof. intros. destruct (rel_act s rid tag) as (L & _). unfold link_of in L. injection L as L1 _ _ _. exact L1. Qed.

Lemma in_mid : forall (it : nat * nat) front rest back, In it rest -> In it (front ++ rest ++ back).
Proof. intros. apply in_or_app. right. apply in_or_app. left. assumption. Qed.

Lemma act_NA : forall s rid tag rest, RI s ((rid, tag) :: rest) -> NA s ((rid, tag) :: rest) ->
  NA (fst (fst (act s rid tag))) (snd (fst (act s rid tag)) ++ rest ++ snd (act s rid tag)).
Proof.
  intros s rid tag rest R (U & K). split; [rewrite up_act; exact U|].
  (* items of old records other than the head's *)
  assert (OLD : forall x front back, In x (reqs s) -> is_ack x = true -> (r_id x <> rid \/ (tag <> 1 /\ tag <> 2)%nat) ->
            In (r_id x, 2%nat) (front ++ rest ++ back) \/ In (r_id x, 1%nat) (front ++ rest ++ back)).
  { intros x front back Ix Ax NE. destruct (K x Ix Ax) as [[E|H]|[E|H]].
    - exfalso. injection E as E1 E2. destruct NE as [NE|[_ NE]]; congruence.
    - left. apply in_mid. exact H.
    - exfalso. injection E as E1 E2. destruct NE as [NE|[NE _]]; congruence.
    - right. apply in_mid. exact H. }
  unfold act. destruct (get s rid) as [r|] eqn:G.
  2:{ cbn [fst snd]. intros x Ix Ax. apply OLD; try assumption. left. intros E.
      assert (In rid (ids s)) by (rewrite <- E; unfold ids; apply in_map; exact Ix). apply get_ids in H. congruence. }
  destruct (get_In _ _ _ G) as [Ir Er].
  assert (NEW : forall p f, is_ack (upd_req r p f) = true -> exists k d, p = PAwaitAck k d)
    by (intros p f H; unfold is_ack in H; cbn [upd_req r_phase] in H; destruct p; try discriminate H; eauto).
  destruct tag as [|[|[|[|t]]]].
  - pose proof (reqs_msg_try s rid) as M. destruct (msg_try s rid) as [s1 got]. cbn [fst] in M.
    assert (G1 : get s1 rid = Some r) by (rewrite (get_reqs _ _ rid M); exact G).
    destruct got; cbn [fst snd]; intros x Ix Ax.
    + rewrite M in Ix. apply OLD; try assumption. right. lia.
    + apply (reqs_set_phase_cases s1 rid r _ x G1) in Ix. destruct Ix as [E|[Ix NE]].
      * subst x. destruct (NEW _ _ Ax) as (k & d & X). discriminate X.
      * rewrite M in Ix. apply OLD; try assumption. left. exact NE.
  - rewrite U. cbn [negb fst snd]. intros x Ix Ax. apply (reqs_finish_cases s rid r _ x G) in Ix. destruct Ix as [E|[Ix NE]].
    + subst x. discriminate Ax.
    + apply OLD; try assumption. left. exact NE.
  - destruct (r_phase r) as [| |k d| |] eqn:P.
    1,2,4,5: (cbn [fst snd]; intros x Ix Ax; apply OLD; try assumption; left; intros E;
      pose proof (get_unique s rid r x (rg_ids _ (proj1 R)) G Ix E) as X; subst x; unfold is_ack in Ax; rewrite P in Ax; discriminate Ax).
    destruct (S k <? r_nfrags r)%nat.
    + cbn [fst snd]. intros x Ix Ax. destruct (Nat.eq_dec (r_id x) rid) as [E|E].
      * right. left. rewrite E. reflexivity.
      * apply OLD; try assumption. left. exact E.
    + pose proof (reqs_msg_rel s rid) as M. destruct (msg_rel s rid) as [s0 nxt]. cbn [fst] in M.
      assert (G0 : get s0 rid = Some r) by (rewrite (get_reqs _ _ rid M); exact G).
      destruct (r_fut r); cbn [fst snd]; intros x Ix Ax.
      * apply (reqs_set_phase_cases s0 rid r _ x G0) in Ix. destruct Ix as [E|[Ix NE]].
        -- subst x. discriminate Ax.
        -- rewrite M in Ix. apply OLD; try assumption. left. exact NE.
      * apply (reqs_finish_cases s0 rid r _ x G0) in Ix. destruct Ix as [E|[Ix NE]].
        -- subst x. discriminate Ax.
        -- rewrite M in Ix. apply OLD; try assumption. left. exact NE.
      * apply (reqs_finish_cases s0 rid r _ x G0) in Ix. destruct Ix as [E|[Ix NE]].
        -- subst x. discriminate Ax.
        -- rewrite M in Ix. apply OLD; try assumption. left. exact NE.
  - pose proof (reqs_msg_rel s rid) as M. destruct (msg_rel s rid) as [s0 nxt]. cbn [fst snd] in *.
    intros x Ix Ax. rewrite M in Ix. apply OLD; try assumption. right. lia.
  - pose proof (reqs_blk_rel s rid) as M. destruct (blk_rel s rid) as [s0 nxt]. cbn [fst snd] in *.
    intros x Ix Ax. rewrite M in Ix. apply OLD; try assumption. right. lia.
Qed.

Lemma run'_NA : forall fuel s w, LI s -> RI s w -> NA s w -> NA (fst (run' fuel s w)) (snd (run' fuel s w)).
Proof.
  induction fuel as [|fuel IH]; intros s w L R A; [exact A|]. cbn [run']. destruct w as [|[rid tag] rest]; [exact A|].
  pose proof (act_RI s rid tag rest L R) as R1. pose proof (LI_act s rid tag L) as L1. pose proof (act_NA s rid tag rest R A) as A1.
  destruct (act s rid tag) as [[s1 front] back]. cbn [fst snd] in *. apply IH; assumption.
Qed.

Lemma settle_NA : forall s w, LI s -> RI s w -> NA s w -> NA (settle s w) [].
Proof.
  intros s w L R A. pose proof (run'_NA (S (potential s w)) s w L R A) as X.
  rewrite (settle_drains s w L), run'_fst in X. exact X.
Qed.

Lemma ack_holder : forall s x, Q s -> In x (reqs s) -> is_ack x = true ->
  msg_holder s = Some (r_id x) /\ exists k d, r_phase x = PAwaitAck k d /\ d <= now s + ack_timeout_ms.
Proof.
  intros s x R Ix Ax. pose proof (ok_idle _ _ (proj2 R x Ix)) as [_ O]. unfold is_ack in Ax.
  destruct (r_phase x) as [| |k d| |]; try discriminate Ax. destruct O as (O & _ & _ & D). injection O as O _ _ _.
  split; [exact (holds_true _ _ O)|]. exists k, d. split; [reflexivity|exact D].
Qed.

Lemma tick_after_close : forall s dt, Q s -> LI s -> uart_present s = false -> All (np []) s -> ack_timeout_ms <= dt ->
  forallb is_done (reqs (tick s dt)) = true.
Proof.
  intros s dt R L U A DT. unfold tick. change (4 + 4 * length (reqs s))%nat with (S (3 + 4 * length (reqs s))).
  set (fuel := (3 + 4 * length (reqs s))%nat). set (target := now s + dt). cbn [tick_loop].
  assert (NR : forall s', All (np []) s' -> forall x, In x (reqs s') -> is_rsp x = false).
  { intros s' A' x Ix. destruct (is_rsp x) eqn:E; [|reflexivity]. destruct (A' x Ix) as [_ X]. destruct (X E). }
  destruct (earliest s) as [r|] eqn:E.
  2:{ change (reqs (set_now s target)) with (reqs s). apply all_done_quiescent; [exact R|]. exact (earliest_None s E). }
  pose proof (earliest_In s r E) as Ir. pose proof (earliest_dl s r E) as Dr. pose proof (NR s A r Ir) as Rr.
  assert (Ar : is_ack r = true).
  { unfold is_ack, is_rsp, deadline_of in *. destruct (r_phase r); congruence. }
  destruct (ack_holder s r R Ir Ar) as (Hm & k & d & P & D).
  unfold deadline_of. rewrite P. assert (LE : d <=? target = true) by (apply N.leb_le; unfold target; lia). rewrite LE.
  set (s1 := set_now s (N.max d (now s))).
  assert (R1 : Q s1) by (apply Q_set_now; [lia|exact R]).
  assert (L1 : LI s1) by exact L.
  assert (G1 : get s1 (r_id r) = Some r) by exact (In_get s r (rg_ids _ (proj1 R)) Ir).
  assert (RI1 : RI s1 [(r_id r, 2%nat)]) by exact (RI_start2 s1 _ r k d R1 G1 P).
  assert (NA1 : NA s1 [(r_id r, 2%nat)]).
  { split; [exact U|]. intros x Ix Ax. left. left.
    destruct (ack_holder s x R Ix Ax) as (Hx & _). f_equal. congruence. }
  pose proof (settle_Q s1 _ L1 RI1) as R3. pose proof (settle_NA s1 _ L1 RI1 NA1) as (U3 & K3).
  assert (A3 : All (np []) (settle s1 [(r_id r, 2%nat)])) by (apply All_settle; [apply keeps_np|exact A]).
  set (s3 := settle s1 [(r_id r, 2%nat)]) in *.
  assert (ND : forall x, In x (reqs s3) -> deadline_of x = None).
  { intros x Ix. pose proof (NR s3 A3 x Ix) as Rx. unfold deadline_of. unfold is_rsp in Rx.
    destruct (r_phase x) eqn:Px; try reflexivity; try discriminate Rx.
    assert (Ax : is_ack x = true) by (unfold is_ack; rewrite Px; reflexivity). destruct (K3 x Ix Ax) as [[]|[]]. }
  rewrite (tick_loop_nodl fuel s3 target ND). apply all_done_quiescent; assumption.
Qed.

(* ITEM 3 (C20): every request that was in flight or queued when the API is closed has ended once the
   acknowledgement wait has passed *)
Theorem close_terminates : forall evs dt, wf_events evs ->
  reset_in_progress (run_events evs) = false -> ack_timeout_ms <= dt ->
  forallb is_done (reqs (step (step (run_events evs) EClose) (ETick dt))) = true.
Proof.
  intros evs dt W RS DT. destruct (reachable_J evs W) as (R & L & C & GD). set (s := run_events evs) in *.
  cbn [step]. rewrite close_eq. destruct (close_pre_facts s R L C GD) as (R0 & L0 & C0 & G0 & U0 & RS0).
  rewrite RS0, RS.
  assert (R1 : Q (detach_app (close_pre s))) by (apply (RI_fields (close_pre s)); try reflexivity; exact R0).
  destruct (cancel_waiters_spec (detach_app (close_pre s)) R1 L0 C0 G0) as (R2 & L2 & A2 & _).
  apply tick_after_close; try assumption.
  destruct (rel_cancel_waiters (detach_app (close_pre s))) as (LK & _). unfold link_of in LK. injection LK as LK _ _ _.
  rewrite LK. exact U0.
Qed.
Print Assumptions close_terminates.

(* non-vacuity: four requests in four different phases at close time *)
Definition ex_evs : list event :=
  [EIssue 1 10 false 1 5000; EAck 0; EIssue 2 11 true 2 5000; EIssue 3 12 false 1 5000; EIssue 4 13 true 1 5000].
Example close_terminates_nonvacuous :
  wf_events ex_evs /\ reset_in_progress (run_events ex_evs) = false /\
  map (fun r => (r_id r, r_phase r)) (reqs (run_events ex_evs)) =
    [(1%nat, PAwaitRsp 5000); (2%nat, PAwaitAck 0 1000); (3%nat, PQMsg); (4%nat, PQBlock)] /\
  map (fun r => (r_id r, r_phase r)) (reqs (step (step (run_events ex_evs) EClose) (ETick 1000))) =
    [(1%nat, PDone OCancelled); (2%nat, PDone ORuntime); (3%nat, PDone ORuntime); (4%nat, PDone ORuntime)].
Proof.
  split; [repeat constructor|]. split; [reflexivity|]. split; vm_compute; reflexivity.
Qed.

(* ---- the stronger form: any (well-formed) events between the close and the tick ---- *)
Definition K (s : state) : Prop := J s /\ uart_present s = false /\ All (np []) s.

Lemma step_K : forall s e, wf_event e -> K s -> K (step s e).
Proof.
  intros s e W (Js & U & A). split; [apply step_J; assumption|]. split; [apply link_stays_absent; exact U|].
  destruct Js as (R & L & C & GD).
  destruct e as [rid cls b n t|n|cls| |dt|rid| | | |]; cbn [step].
  - destruct (get s rid); [exact A|]. unfold issue. rewrite U. cbn [negb].
    intros x Hx. autorewrite with proj in Hx. apply in_app_or in Hx. destruct Hx as [Hx|[Hx|[]]]; [exact (A x Hx)|].
    subst x. split; [cbn; discriminate|cbn; discriminate].
  - unfold rx_ack. destruct (n =? pack_seq s); [|exact A].
    destruct (ack_owner s) as [o|]; [|exact A]. set (s1 := set_link _ _ _ _ _ _ _ _ _). destruct (get s1 o) as [r|]; [|exact A].
    destruct (r_phase r); try exact A. apply All_settle; [apply keeps_np|exact A].
  - unfold rx_rsp.
    assert (A1 : All (np []) (incoming_data s)) by (apply (All_reqs _ s); [unfold incoming_data; destruct (transport_open s); reflexivity|exact A]).
    assert (O : oldest_waiter (incoming_data s) cls = None).
    { unfold oldest_waiter. apply find_none_all. intros x Hx. destruct (A1 x Hx) as [F _]. destruct (r_fut x); try congruence;
        rewrite andb_false_r; reflexivity. }
    rewrite O. exact A1.
  - apply (All_reqs _ s); [unfold incoming_data; destruct (transport_open s); reflexivity|exact A].
  - apply All_tick_loop; [apply keeps_np|exact A].
  - apply All_cancel; [apply keeps_np|exact A].
  - rewrite close_eq. destruct (close_pre_facts s R L C GD) as (R0 & L0 & C0 & G0 & U0 & RS0).
    assert (A0 : All (np []) (close_pre s)) by (unfold close_pre; destruct (uart_present s); exact A).
    destruct (reset_in_progress (close_pre s)); [exact A0|].
    assert (R1 : Q (detach_app (close_pre s))) by (apply (RI_fields (close_pre s)); try reflexivity; exact R0).
    exact (proj1 (proj2 (proj2 (cancel_waiters_spec (detach_app (close_pre s)) R1 L0 C0 G0)))).
  - unfold lost. destruct (app_attached s && negb (reset_in_progress s)); exact A.
  - exact A.
  - exact A.
Qed.

Lemma K_fold : forall evs s, wf_events evs -> K s -> K (fold_left step evs s).
Proof.
  induction evs as [|e evs IH]; intros s W H; [exact H|]. cbn [fold_left]. inversion W; subst. apply IH; [assumption|].
  apply step_K; assumption.
Qed.

Theorem close_terminates_general : forall evs evs' dt, wf_events evs -> wf_events evs' ->
  reset_in_progress (run_events evs) = false -> ack_timeout_ms <= dt ->
  forallb is_done (reqs (run_events (evs ++ [EClose] ++ evs' ++ [ETick dt]))) = true.
Proof.
  intros evs evs' dt W W' RS DT. unfold run_events. rewrite !fold_left_app. cbn [fold_left].
  fold (run_events evs). destruct (reachable_J evs W) as (R & L & C & GD). set (s := run_events evs) in *.
  assert (K2 : K (step s EClose)).
  { split; [apply step_J; [exact I|split; [exact R|split; [exact L|split; [exact C|exact GD]]]]|]. split; [apply close_makes_link_absent|].
    cbn [step]. rewrite close_eq. destruct (close_pre_facts s R L C GD) as (R0 & L0 & C0 & G0 & U0 & RS0). rewrite RS0, RS.
    assert (R1 : Q (detach_app (close_pre s))) by (apply (RI_fields (close_pre s)); try reflexivity; exact R0).
    exact (proj1 (proj2 (proj2 (cancel_waiters_spec (detach_app (close_pre s)) R1 L0 C0 G0)))). }
  destruct (K_fold evs' _ W' K2) as ((R3 & L3 & _) & U3 & A3). cbn [step]. apply tick_after_close; assumption.
Qed.
Print Assumptions close_terminates_general.

(* ====================================================================== *)
(* 5. (C14) a non-blocking request never waits for a blocking request's response: with the message lock free
      and the link up, its first fragment is written in the very step that issues it *)

Lemma log_set_phase : forall s rid p, log (set_phase s rid p) = log s.
Proof. intros. unfold set_phase. destruct (get s rid); reflexivity. Qed.

Lemma nonblocking_issue_log : forall s rid cls n t, Q s -> LI s -> get s rid = None -> uart_present s = true ->
  msg_holder s = None -> (1 <= n)%nat ->
  log (step s (EIssue rid cls false n t)) = OW rid 0 (pack_seq s) :: GMsgAcq rid :: GIssue rid false n :: log s.
Proof.
  intros s rid cls n t R L G U MH WF. pose proof R as [RGs _].
  assert (FR : ~ In rid (ids s)) by (intros X; apply get_ids in X; congruence).
  assert (F5 : lookupt (tbl s) rid = None).
  { destruct (lookupt (tbl s) rid) eqn:E; [|reflexivity]. exfalso. apply FR. apply (rg_tbl _ RGs). congruence. }
  pose proof (rg_mh _ RGs MH) as MQ. pose proof (L U) as TR.
  cbn [step]. rewrite G. unfold issue. rewrite U. cbn [negb].
  set (r0 := {| r_id := rid; r_cls := cls; r_blocking := false; r_nfrags := n; r_timeout := t; r_phase := PQMsg; r_fut := FPending |}).
  set (s1 := emit _ (GIssue rid false n)).
  assert (G1 : get s1 rid = Some r0) by (unfold get, s1; autorewrite with proj; apply find_fresh; [exact FR|reflexivity]).
  unfold settle. destruct (potential s1 [(rid, 0%nat)]) as [|f] eqn:PE; [unfold potential in PE; cbn [map list_sum fold_right weight snd] in PE; lia|].
  cbn [run]. unfold act at 1. rewrite G1. unfold msg_try.
  change (msg_holder s1) with (msg_holder s). change (msg_q s1) with (msg_q s). rewrite MH, MQ. cbn [app].
  set (s2 := emit _ (GMsgAcq rid)).
  assert (G2 : get s2 rid = Some r0) by exact G1.
  assert (MW : may_write s2 rid = true).
  { unfold may_write. rewrite lookup_lookupt. unfold s2, s1. autorewrite with proj. rewrite lookupt_app, F5, Nat.eqb_refl.
    unfold holds_msg. autorewrite with proj. rewrite Nat.eqb_refl. cbn [negb orb andb]. apply Nat.ltb_lt. lia. }
  destruct f as [|f]; cbn [run].
  - reflexivity || (exfalso; unfold potential in PE; cbn [map list_sum fold_right weight snd] in PE; lia).
  - unfold act. rewrite G2, MW. change (uart_present s2) with (uart_present s). change (transport_open s2) with (transport_open s).
    rewrite U, TR. cbn [negb app].
    unfold do_write. change (transport_open s2) with (transport_open s). rewrite TR. rewrite log_set_phase. reflexivity.
Qed.

Theorem nonblocking_request_sends_at_once : forall evs rid cls n t, wf_events evs ->
  get (run_events evs) rid = None -> uart_present (run_events evs) = true -> msg_holder (run_events evs) = None -> (1 <= n)%nat ->
  In (OW rid 0 (pack_seq (run_events evs))) (snd (step_obs (run_events evs) (EIssue rid cls false n t))).
Proof.
  intros evs rid cls n t W G U MH WF. destruct (reachable_J evs W) as (R & L & _). set (s := run_events evs) in *.
  unfold step_obs. cbn [snd]. rewrite (nonblocking_issue_log s rid cls n t R L G U MH WF). cbn [length].
  replace (S (S (S (length (log s)))) - length (log s))%nat with 3%nat by lia. cbn [firstn rev app]. right. right. left. reflexivity.
Qed.
Print Assumptions nonblocking_request_sends_at_once.

(* ====================================================================== *)
(* 4. termination after connection loss *)

Definition dlo (o : option req) : option N := match o with Some a => deadline_of a | None => None end.

Lemma earlier_min : forall acc y,
  (forall dy, deadline_of y = Some dy -> exists de, dlo (earlier acc y) = Some de /\ de <= dy) /\
  (forall da, dlo acc = Some da -> exists de, dlo (earlier acc y) = Some de /\ de <= da).
Proof.
  intros acc y. unfold earlier. destruct (deadline_of y) as [dy|] eqn:Dy.
  - destruct acc as [a|]; cbn [dlo].
    + destruct (deadline_of a) as [da|] eqn:Da.
      * destruct (dy <? da) eqn:C; [apply N.ltb_lt in C|apply N.ltb_ge in C]; cbn [dlo]; split.
        -- intros d E. exists dy. split; [exact Dy|]. injection E as E. lia.
        -- intros d E. exists dy. split; [exact Dy|]. injection E as E. lia.
        -- intros d E. exists da. split; [exact Da|]. injection E as E. lia.
        -- intros d E. exists da. split; [exact Da|]. injection E as E. lia.
      * cbn [dlo]. split; [|intros d E; discriminate E]. intros d E. exists dy. split; [exact Dy|]. injection E as E. lia.
    + split; [|intros d E; discriminate E]. intros d E. exists dy. split; [exact Dy|]. injection E as E. lia.
  - split; [intros d E; discriminate E|]. intros da E. exists da. split; [exact E|lia].
Qed.

Lemma fold_earlier_min : forall l acc r d, fold_left earlier l acc = Some r -> deadline_of r = Some d ->
  (forall x dx, In x l -> deadline_of x = Some dx -> d <= dx) /\ (forall da, dlo acc = Some da -> d <= da).
Proof.
  induction l as [|y l IH]; intros acc r d H D.
  - cbn [fold_left] in H. subst acc. split; [intros x dx []|]. cbn [dlo]. intros da E. rewrite D in E. injection E as E. lia.
  - cbn [fold_left] in H. destruct (IH _ _ _ H D) as [A B]. destruct (earlier_min acc y) as [M1 M2]. split.
    + intros x dx [Hx|Hx] Dx; [|exact (A x dx Hx Dx)]. subst x. destruct (M1 dx Dx) as (de & E1 & E2). specialize (B de E1). lia.
    + intros da Da. destruct (M2 da Da) as (de & E1 & E2). specialize (B de E1). lia.
Qed.
Lemma earliest_min : forall s r d x dx, earliest s = Some r -> deadline_of r = Some d -> In x (reqs s) -> deadline_of x = Some dx -> d <= dx.
Proof. intros s r d x dx E D Ix Dx. rewrite earliest_fold in E. exact (proj1 (fold_earlier_min _ _ _ _ E D) x dx Ix Dx). Qed.

(* where the records of the next state come from *)
Definition newrec (s : state) (rid : nat) (x : req) : Prop :=
  exists r, get s rid = Some r /\
    ((exists o, x = fin r o) \/ x = upd_req r PQMsg (r_fut r) \/
     (uart_present s = true /\ exists k d, x = upd_req r (PAwaitAck k d) (r_fut r)) \/
     (is_ack r = true /\ exists d, x = upd_req r (PAwaitRsp d) (r_fut r))).

Lemma act_prov : forall s rid tag x, In x (reqs (fst (fst (act s rid tag)))) -> In x (reqs s) \/ newrec s rid x.
Proof.
  intros s rid tag x. unfold act. destruct (get s rid) as [r|] eqn:G; [|left; assumption].
  destruct tag as [|[|[|[|t]]]].
  - pose proof (reqs_msg_try s rid) as M. destruct (msg_try s rid) as [s1 got]. cbn [fst] in M.
    assert (G1 : get s1 rid = Some r) by (rewrite (get_reqs _ _ rid M); exact G).
    destruct got; cbn [fst]; intros Ix; [left; rewrite <- M; exact Ix|].
    apply (reqs_set_phase_cases s1 rid r _ x G1) in Ix. destruct Ix as [E|[Ix _]]; [|left; rewrite <- M; exact Ix].
    right. exists r. split; [exact G|]. right. left. exact E.
  - destruct (uart_present s) eqn:U; cbn [negb].
    + destruct (may_write s rid); [|left; assumption].
      assert (X : In x (reqs (do_write s rid)) -> In x (reqs s) \/ newrec s rid x).
      { unfold do_write. destruct (transport_open s); intros Ix.
        - match type of Ix with In _ (reqs (set_phase ?a _ _)) => apply (reqs_set_phase_cases a rid r _ x G) in Ix end.
          destruct Ix as [E|[Ix _]]; [|left; exact Ix]. right. exists r. split; [exact G|]. right. right. left. split; [exact U|eauto].
        - match type of Ix with In _ (reqs (set_phase ?a _ _)) => apply (reqs_set_phase_cases a rid r _ x G) in Ix end.
          destruct Ix as [E|[Ix _]]; [|left; exact Ix]. right. exists r. split; [exact G|]. right. right. left. split; [exact U|eauto]. }
      destruct (transport_open s); cbn [fst]; exact X.
    + cbn [fst]. intros Ix. apply (reqs_finish_cases s rid r _ x G) in Ix. destruct Ix as [E|[Ix _]]; [|left; exact Ix].
      right. exists r. split; [exact G|]. left. eauto.
  - destruct (r_phase r) as [| |k d| |] eqn:P; try (left; assumption). destruct (S k <? r_nfrags r)%nat; [left; assumption|].
    pose proof (reqs_msg_rel s rid) as M. destruct (msg_rel s rid) as [s0 nxt]. cbn [fst] in M.
    assert (G0 : get s0 rid = Some r) by (rewrite (get_reqs _ _ rid M); exact G).
    assert (Ar : is_ack r = true) by (unfold is_ack; rewrite P; reflexivity).
    destruct (r_fut r); cbn [fst]; intros Ix.
    + apply (reqs_set_phase_cases s0 rid r _ x G0) in Ix. destruct Ix as [E|[Ix _]]; [|left; rewrite <- M; exact Ix].
      right. exists r. split; [exact G|]. right. right. right. split; [exact Ar|eauto].
    + apply (reqs_finish_cases s0 rid r _ x G0) in Ix. destruct Ix as [E|[Ix _]]; [|left; rewrite <- M; exact Ix].
      right. exists r. split; [exact G|]. left. eauto.
    + apply (reqs_finish_cases s0 rid r _ x G0) in Ix. destruct Ix as [E|[Ix _]]; [|left; rewrite <- M; exact Ix].
      right. exists r. split; [exact G|]. left. eauto.
  - pose proof (reqs_msg_rel s rid) as M. destruct (msg_rel s rid) as [s0 nxt]. cbn [fst] in *. intros Ix. left. rewrite <- M. exact Ix.
  - pose proof (reqs_blk_rel s rid) as M. destruct (blk_rel s rid) as [s0 nxt]. cbn [fst] in *. intros Ix. left. rewrite <- M. exact Ix.
Qed.

(* with the link absent no request enters an ACK wait; without ACK waits no request enters a response wait *)
Definition noack (s : state) : Prop := forall y, In y (reqs s) -> is_ack y = false.

Lemma act_ack_old : forall s rid tag x, uart_present s = false -> In x (reqs (fst (fst (act s rid tag)))) -> is_ack x = true -> In x (reqs s).
Proof.
  intros s rid tag x U Ix Ax. apply act_prov in Ix. destruct Ix as [Ix|(r & G & [[o E]|[E|[[U' _]|[_ [d E]]]]])]; try exact Ix;
    try (subst x; discriminate Ax). congruence.
Qed.
Lemma act_rsp_old : forall s rid tag x, uart_present s = false -> noack s -> In x (reqs (fst (fst (act s rid tag)))) -> is_rsp x = true -> In x (reqs s).
Proof.
  intros s rid tag x U NA0 Ix Rx. apply act_prov in Ix. destruct Ix as [Ix|(r & G & [[o E]|[E|[[U' _]|[Ar _]]]])]; try exact Ix;
    try (subst x; discriminate Rx); try congruence.
  rewrite (NA0 r (proj1 (get_In _ _ _ G))) in Ar. discriminate Ar.
Qed.

Lemma run_ack_old : forall fuel s w x, uart_present s = false -> In x (reqs (run fuel s w)) -> is_ack x = true -> In x (reqs s).
Proof.
  induction fuel as [|fuel IH]; intros s w x U Ix Ax; [exact Ix|]. cbn [run] in Ix. destruct w as [|[rid tag] rest]; [exact Ix|].
  pose proof (act_ack_old s rid tag x U) as A. pose proof (up_act s rid tag) as U1.
  destruct (act s rid tag) as [[s1 front] back]. cbn [fst] in A, U1. apply A; [|exact Ax]. apply (IH s1 (front ++ rest ++ back) x); [congruence|exact Ix|exact Ax].
Qed.
Lemma run_rsp_old : forall fuel s w x, uart_present s = false -> noack s -> In x (reqs (run fuel s w)) -> is_rsp x = true -> In x (reqs s).
Proof.
  induction fuel as [|fuel IH]; intros s w x U N Ix Rx; [exact Ix|]. cbn [run] in Ix. destruct w as [|[rid tag] rest]; [exact Ix|].
  pose proof (act_rsp_old s rid tag x U N) as A. pose proof (up_act s rid tag) as U1. pose proof (act_ack_old s rid tag) as B.
  destruct (act s rid tag) as [[s1 front] back]. cbn [fst] in A, U1, B. apply A; [|exact Rx]. apply (IH s1 (front ++ rest ++ back) x); [congruence| |exact Ix|exact Rx].
  intros y Iy. destruct (is_ack y) eqn:Ay; [|reflexivity]. rewrite <- (N y (B y U Iy Ay)). symmetry. exact Ay.
Qed.

(* ---- a measure for the timer loop ---- *)
Definition rank (r : req) : nat := match r_phase r with PAwaitAck _ _ => 2 | PAwaitRsp _ => 1 | _ => 0 end.
Definition mu (s : state) : nat := list_sum (map rank (reqs s)).

Lemma sum_put_le : forall l r', (forall x, In x l -> r_id x = r_id r' -> rank r' <= rank x)%nat ->
  (list_sum (map rank (map (fun x => if (r_id x =? r_id r')%nat then r' else x) l)) <= list_sum (map rank l))%nat.
Proof.
  induction l as [|y l IH]; intros r' H; [cbn; lia|]. cbn [map list_sum fold_right].
  specialize (IH r' (fun x Hx => H x (or_intror Hx))). unfold list_sum in IH.
  destruct (r_id y =? r_id r')%nat eqn:E; [apply Nat.eqb_eq in E; specialize (H y (or_introl eq_refl) E)|]; lia.
Qed.
Lemma sum_put_lt : forall l r' y, In y l -> r_id y = r_id r' -> (rank r' < rank y)%nat ->
  (forall x, In x l -> r_id x = r_id r' -> rank r' <= rank x)%nat ->
  (list_sum (map rank (map (fun x => if (r_id x =? r_id r')%nat then r' else x) l)) < list_sum (map rank l))%nat.
Proof.
  induction l as [|z l IH]; intros r' y Iy Ey Ly H; [destruct Iy|]. cbn [map list_sum fold_right].
  pose proof (sum_put_le l r' (fun x Hx => H x (or_intror Hx))) as LE. unfold list_sum in LE.
  destruct Iy as [Iy|Iy].
  - subst z. rewrite Ey, Nat.eqb_refl. lia.
  - specialize (IH r' y Iy Ey Ly (fun x Hx => H x (or_intror Hx))). unfold list_sum in IH.
    destruct (r_id z =? r_id r')%nat eqn:E; [apply Nat.eqb_eq in E; specialize (H z (or_introl eq_refl) E)|]; lia.
Qed.

Lemma mu_reqs : forall s s', reqs s' = reqs s -> mu s' = mu s. Proof. intros s s' E. unfold mu. rewrite E. reflexivity. Qed.
Lemma mu_put_le : forall s rid r r', get s rid = Some r -> NoDup (ids s) -> r_id r' = rid -> (rank r' <= rank r)%nat -> (mu (put s r') <= mu s)%nat.
Proof.
  intros s rid r r' G N E LE. unfold mu, put. cbn [set_reqs reqs]. apply sum_put_le. intros x Ix Ex.
  rewrite (get_unique s rid r x N G Ix) by congruence. exact LE.
Qed.
Lemma mu_put_lt : forall s rid r r', get s rid = Some r -> NoDup (ids s) -> r_id r' = rid -> (rank r' < rank r)%nat -> (mu (put s r') < mu s)%nat.
Proof.
  intros s rid r r' G N E LT. unfold mu, put. cbn [set_reqs reqs]. destruct (get_In _ _ _ G) as [Ir Er].
  apply (sum_put_lt _ r' r Ir); [congruence|exact LT|]. intros x Ix Ex.
  rewrite (get_unique s rid r x N G Ix) by congruence. lia.
Qed.
Lemma mu_finish_le : forall s rid o, NoDup (ids s) -> (mu (finish s rid o) <= mu s)%nat.
Proof.
  intros s rid o N. destruct (get s rid) as [r|] eqn:G; [|unfold finish; rewrite G; lia].
  rewrite (finish_get _ _ _ _ G). change (mu (put s (fin r o)) <= mu s)%nat.
  apply (mu_put_le s rid r); [exact G|exact N|exact (proj2 (get_In _ _ _ G))|]. unfold rank at 1. cbn [fin upd_req r_phase]. lia.
Qed.
Lemma mu_finish_lt : forall s rid r o, get s rid = Some r -> NoDup (ids s) -> (0 < rank r)%nat -> (mu (finish s rid o) < mu s)%nat.
Proof.
  intros s rid r o G N LT. rewrite (finish_get _ _ _ _ G). change (mu (put s (fin r o)) < mu s)%nat.
  apply (mu_put_lt s rid r); [exact G|exact N|exact (proj2 (get_In _ _ _ G))|]. unfold rank at 1. cbn [fin upd_req r_phase]. exact LT.
Qed.
Lemma mu_set_phase_le : forall s rid r p, get s rid = Some r -> NoDup (ids s) -> (rank (upd_req r p (r_fut r)) <= rank r)%nat ->
  (mu (set_phase s rid p) <= mu s)%nat.
Proof.
  intros s rid r p G N LE. rewrite (set_phase_get _ _ _ _ G). apply (mu_put_le s rid r); [exact G|exact N|exact (proj2 (get_In _ _ _ G))|exact LE].
Qed.

Lemma ids_act : forall s rid tag, ids (fst (fst (act s rid tag))) = ids s.
Proof.
  intros s rid tag. unfold act. destruct (get s rid) as [r|]; [|reflexivity]. destruct tag as [|[|[|[|t]]]].
  - pose proof (reqs_msg_try s rid) as M. destruct (msg_try s rid) as [s1 got]. cbn [fst] in M.
    destruct got; cbn [fst]; rewrite ?ids_set_phase; apply ids_reqs; exact M.
  - destruct (negb (uart_present s)); cbn [fst]; [apply ids_finish|]. destruct (may_write s rid); [|reflexivity].
    unfold do_write. destruct (transport_open s); cbn [fst]; rewrite ids_set_phase; reflexivity.
  - destruct (r_phase r); try reflexivity. destruct (S k <? r_nfrags r)%nat; [reflexivity|].
    pose proof (reqs_msg_rel s rid) as M. destruct (msg_rel s rid) as [s0 nxt]. cbn [fst] in M.
    destruct (r_fut r); cbn [fst]; rewrite ?ids_set_phase, ?ids_finish; apply ids_reqs; exact M.
  - pose proof (reqs_msg_rel s rid) as M. destruct (msg_rel s rid) as [s0 nxt]. cbn [fst] in *. apply ids_reqs; exact M.
  - pose proof (reqs_blk_rel s rid) as M. destruct (blk_rel s rid) as [s0 nxt]. cbn [fst] in *. apply ids_reqs; exact M.
Qed.

Lemma mu_act_le : forall s rid tag, uart_present s = false -> NoDup (ids s) -> (mu (fst (fst (act s rid tag))) <= mu s)%nat.
Proof.
  intros s rid tag U N. unfold act. destruct (get s rid) as [r|] eqn:G; [|cbn [fst]; lia]. destruct tag as [|[|[|[|t]]]].
  - pose proof (reqs_msg_try s rid) as M. destruct (msg_try s rid) as [s1 got]. cbn [fst] in M.
    assert (G1 : get s1 rid = Some r) by (rewrite (get_reqs _ _ rid M); exact G).
    assert (N1 : NoDup (ids s1)) by (rewrite (ids_reqs _ _ M); exact N).
    destruct got; cbn [fst]; [rewrite (mu_reqs _ _ M); lia|].
    rewrite <- (mu_reqs _ _ M). apply (mu_set_phase_le s1 rid r); [exact G1|exact N1|]. unfold rank at 1. cbn [upd_req r_phase]. lia.
  - rewrite U. cbn [negb fst]. apply mu_finish_le. exact N.
  - destruct (r_phase r) as [| |k d| |] eqn:P; try (cbn [fst]; lia). destruct (S k <? r_nfrags r)%nat; [cbn [fst]; lia|].
    pose proof (reqs_msg_rel s rid) as M. destruct (msg_rel s rid) as [s0 nxt]. cbn [fst] in M.
    assert (G0 : get s0 rid = Some r) by (rewrite (get_reqs _ _ rid M); exact G).
    assert (N0 : NoDup (ids s0)) by (rewrite (ids_reqs _ _ M); exact N).
    rewrite <- (mu_reqs _ _ M).
    destruct (r_fut r); cbn [fst]; [|apply mu_finish_le; exact N0|apply mu_finish_le; exact N0].
    apply (mu_set_phase_le s0 rid r); [exact G0|exact N0|]. unfold rank. cbn [upd_req r_phase]. rewrite P. lia.
  - pose proof (reqs_msg_rel s rid) as M. destruct (msg_rel s rid) as [s0 nxt]. cbn [fst] in *. rewrite (mu_reqs _ _ M). lia.
  - pose proof (reqs_blk_rel s rid) as M. destruct (blk_rel s rid) as [s0 nxt]. cbn [fst] in *. rewrite (mu_reqs _ _ M). lia.
Qed.

Lemma mu_run_le : forall fuel s w, uart_present s = false -> NoDup (ids s) -> (mu (run fuel s w) <= mu s)%nat.
Proof.
  induction fuel as [|fuel IH]; intros s w U N; [cbn [run]; lia|]. cbn [run]. destruct w as [|[rid tag] rest]; [lia|].
  pose proof (mu_act_le s rid tag U N) as A. pose proof (up_act s rid tag) as U1. pose proof (ids_act s rid tag) as I1.
  destruct (act s rid tag) as [[s1 front] back]. cbn [fst] in A, U1, I1.
  specialize (IH s1 (front ++ rest ++ back)). rewrite U1, I1 in IH. specialize (IH U N). lia.
Qed.

Definition hasack (s : state) : bool := existsb is_ack (reqs s).
Definition Mz (s : state) : nat := (mu s + if hasack s then 1 else 0)%nat.

Lemma hasack_true : forall s, hasack s = true <-> exists x, In x (reqs s) /\ is_ack x = true.
Proof. intros. unfold hasack. apply existsb_exists. Qed.
Lemma hasack_false : forall s, hasack s = false -> noack s.
Proof.
  intros s H y Iy. destruct (is_ack y) eqn:A; [|reflexivity]. assert (hasack s = true) by (apply hasack_true; eauto). congruence.
Qed.

Lemma up_finish : forall s rid o, uart_present (finish s rid o) = uart_present s.
Proof. intros. pose proof (frame_finish s rid o) as F. frame_fields F. exact Fup. Qed.
Lemma up_settle : forall s w, uart_present (settle s w) = uart_present s.
Proof. intros. destruct (rel_settle s w) as (L & _). unfold link_of in L. injection L as L1 _ _ _. exact L1. Qed.

Lemma keeps_timeout : forall T, keeps (fun x => r_timeout x <= T).
Proof. intros T. unfold keeps. repeat split; intros; cbn [fin upd_req r_timeout]; assumption. Qed.

Section LostLoop.
Variables (now0 T target : N).
Hypothesis Htarget : now0 + ack_timeout_ms + T <= target.

Record TI (s : state) : Prop := {
  ti_q : Q s; ti_li : LI s; ti_up : uart_present s = false;
  ti_now0 : now0 <= now s; ti_now : now s <= target;
  ti_to : All (fun x => r_timeout x <= T) s;
  ti_ack : forall x k d, In x (reqs s) -> r_phase x = PAwaitAck k d -> d <= now0 + ack_timeout_ms;
  ti_rsp : forall x d, In x (reqs s) -> r_phase x = PAwaitRsp d -> d <= now0 + ack_timeout_ms + T;
  ti_flag : hasack s = true -> now s <= now0 + ack_timeout_ms
}.

(* response deadlines in a quiescent state, relative to the current time *)
Lemma rsp_bound_now : forall s x d, Q s -> All (fun x => r_timeout x <= T) s -> In x (reqs s) -> r_phase x = PAwaitRsp d -> d <= now s + T.
Proof.
  clear Htarget now0 target.
  intros s x d R A Ix P. pose proof (ok_idle _ _ (proj2 R x Ix)) as [_ O]. rewrite P in O. destruct O as [_ O].
  specialize (A x Ix). cbn beta in A. lia.
Qed.

Lemma lost_loop : forall fuel s, (Mz s < fuel)%nat -> TI s -> forallb is_done (reqs (tick_loop fuel s target)) = true.
Proof.
  induction fuel as [|fuel IH]; intros s MF [R L U N0 NT TO TA TR TF]; [lia|]. cbn [tick_loop].
  destruct (earliest s) as [r|] eqn:E.
  2:{ change (reqs (set_now s target)) with (reqs s). apply all_done_quiescent; [exact R|exact (earliest_None s E)]. }
  pose proof (earliest_In s r E) as Ir. pose proof (earliest_dl s r E) as Dr.
  destruct (deadline_of r) as [d|] eqn:D; [|congruence]. clear Dr.
  pose proof (rg_ids _ (proj1 R)) as ND.
  (* the time of this iteration is within the ACK window as long as an ACK wait exists *)
  assert (FL : hasack s = true -> N.max d (now s) <= now0 + ack_timeout_ms).
  { intros H. pose proof (TF H) as X. apply hasack_true in H. destruct H as (y & Iy & Ay). unfold is_ack in Ay.
    destruct (r_phase y) as [| |ky dy| |] eqn:Py; try discriminate Ay.
    assert (Dy : deadline_of y = Some dy) by (unfold deadline_of; rewrite Py; reflexivity).
    pose proof (earliest_min s r d y dy E D Iy Dy). pose proof (TA y ky dy Iy Py). lia. }
  set (s1 := set_now s (N.max d (now s))).
  assert (R1 : Q s1) by (apply Q_set_now; [lia|exact R]).
  assert (L1 : LI s1) by exact L.
  assert (G1 : get s1 (r_id r) = Some r) by exact (In_get s r ND Ir).
  assert (DT : d <= target).
  { unfold deadline_of in D. destruct (r_phase r) as [| |k0 d0|d0|] eqn:P; try discriminate D; injection D as D; subst d0.
    - pose proof (TA r k0 d Ir P). lia.
    - pose proof (TR r d Ir P). lia. }
  assert (LE : d <=? target = true) by (apply N.leb_le; exact DT). rewrite LE. fold s1.
  assert (NS1 : now s1 = N.max d (now s)) by reflexivity.
  unfold deadline_of in D. destruct (r_phase r) as [| |k d0|d0|] eqn:P; try discriminate D; injection D as D; subst d0.
  - (* the ACK wait expires *)
    assert (HA : hasack s = true) by (apply hasack_true; exists r; split; [exact Ir|unfold is_ack; rewrite P; reflexivity]).
    assert (RI1 : RI s1 [(r_id r, 2%nat)]) by exact (RI_start2 s1 _ r k d R1 G1 P).
    assert (NA1 : NA s1 [(r_id r, 2%nat)]).
    { split; [exact U|]. intros x Ix Ax. left. left. destruct (ack_holder s x R Ix Ax) as (Hx & _).
      assert (Ar : is_ack r = true) by (unfold is_ack; rewrite P; reflexivity).
      destruct (ack_holder s r R Ir Ar) as (Hr & _). f_equal. congruence. }
    pose proof (settle_Q s1 _ L1 RI1) as R3. pose proof (settle_NA s1 _ L1 RI1 NA1) as (U3 & K3).
    set (s3 := settle s1 [(r_id r, 2%nat)]) in *.
    assert (NA3 : noack s3) by (intros y Iy; destruct (is_ack y) eqn:Ay; [destruct (K3 y Iy Ay) as [[]|[]]|reflexivity]).
    assert (H3 : hasack s3 = false).
    { destruct (hasack s3) eqn:H; [|reflexivity]. apply hasack_true in H. destruct H as (y & Iy & Ay). rewrite (NA3 y Iy) in Ay. discriminate Ay. }
    assert (N3 : now s3 = now s1) by apply now_settle.
    assert (TO3 : All (fun x => r_timeout x <= T) s3) by (apply All_settle; [apply keeps_timeout|exact TO]).
    apply IH.
    + unfold Mz in *. rewrite H3, HA in *. pose proof (mu_run_le (S (potential s1 [(r_id r, 2%nat)])) s1 [(r_id r, 2%nat)] U ND) as X.
      fold (settle s1 [(r_id r, 2%nat)]) in X. fold s3 in X. change (mu s1) with (mu s) in X. lia.
    + constructor; try assumption.
      * apply LI_settle. exact L1.
      * rewrite N3, NS1. lia.
      * rewrite N3, NS1. lia.
      * intros x k0 d0 Ix Px. assert (Ax : is_ack x = true) by (unfold is_ack; rewrite Px; reflexivity). rewrite (NA3 x Ix) in Ax. discriminate Ax.
      * intros x d0 Ix Px. pose proof (rsp_bound_now s3 x d0 R3 TO3 Ix Px) as X. rewrite N3, NS1 in X. specialize (FL HA). lia.
      * intros H. congruence.
  - (* a response wait expires *)
    set (s2 := finish s1 (r_id r) OTimeout).
    assert (RI2 : RI s2 [(r_id r, 4%nat)]) by (apply (RI_finish4 s1 _ r); [exact R1|exact G1|exists d; exact P]).
    assert (L2 : LI s2) by (apply LI_finish; exact L1).
    assert (U2 : uart_present s2 = false) by (unfold s2; rewrite up_finish; exact U).
    pose proof (settle_Q s2 _ L2 RI2) as R3.
    set (s3 := settle s2 [(r_id r, 4%nat)]) in *.
    assert (N3 : now s3 = now s1) by (unfold s3; rewrite now_settle; apply now_finish).
    assert (TO3 : All (fun x => r_timeout x <= T) s3) by (apply All_settle; [apply keeps_timeout|]; apply All_finish; [apply keeps_timeout|exact TO]).
    assert (OLD2 : forall x, In x (reqs s2) -> is_done x = false -> In x (reqs s)).
    { intros x Ix Dx. apply (reqs_finish_cases s1 _ r _ x G1) in Ix. destruct Ix as [X|[Ix _]]; [subst x; discriminate Dx|exact Ix]. }
    assert (ACK3 : forall x, In x (reqs s3) -> is_ack x = true -> In x (reqs s)).
    { intros x Ix Ax. apply OLD2; [apply (run_ack_old _ s2 _ x U2 Ix Ax)|]. unfold is_ack in Ax. unfold is_done. destruct (r_phase x); try discriminate Ax; reflexivity. }
    assert (HM : hasack s3 = true -> hasack s = true).
    { intros H. apply hasack_true in H. destruct H as (y & Iy & Ay). apply hasack_true. exists y. split; [exact (ACK3 y Iy Ay)|exact Ay]. }
    apply IH.
    + assert (X1 : (mu s2 < mu s1)%nat) by (apply (mu_finish_lt s1 _ r); [exact G1|exact ND|unfold rank; rewrite P; lia]).
      pose proof (mu_run_le (S (potential s2 [(r_id r, 4%nat)])) s2 [(r_id r, 4%nat)] U2) as X2.
      fold (settle s2 [(r_id r, 4%nat)]) in X2. fold s3 in X2.
      assert (ND2 : NoDup (ids s2)) by (unfold s2; rewrite ids_finish; exact ND). specialize (X2 ND2).
      change (mu s1) with (mu s) in X1. unfold Mz in *. destruct (hasack s3) eqn:H3; [rewrite (HM eq_refl) in MF|destruct (hasack s)]; lia.
    + constructor; try assumption.
      * apply LI_settle. exact L2.
      * unfold s3. rewrite up_settle. exact U2.
      * rewrite N3, NS1. lia.
      * rewrite N3, NS1. lia.
      * intros x k0 d0 Ix Px. apply (TA x k0 d0); [|exact Px]. apply ACK3; [exact Ix|unfold is_ack; rewrite Px; reflexivity].
      * intros x d0 Ix Px. destruct (hasack s) eqn:HA.
        -- pose proof (rsp_bound_now s3 x d0 R3 TO3 Ix Px) as X. rewrite N3, NS1 in X. specialize (FL eq_refl). lia.
        -- apply (TR x d0); [|exact Px]. apply OLD2; [|unfold is_done; rewrite Px; reflexivity].
           apply (run_rsp_old (S (potential s2 [(r_id r, 4%nat)])) s2 [(r_id r, 4%nat)] x U2); [|exact Ix|unfold is_rsp; rewrite Px; reflexivity].
           intros y Iy. destruct (is_ack y) eqn:Ay; [|reflexivity]. pose proof (hasack_false s HA) as NA0.
           rewrite <- (NA0 y); [symmetry; exact Ay|]. apply OLD2; [exact Iy|]. unfold is_ack in Ay. unfold is_done. destruct (r_phase y); try discriminate Ay; reflexivity.
      * intros H. rewrite N3, NS1. apply FL. apply HM. exact H.
Qed.
End LostLoop.

Lemma mu_le : forall s, (mu s <= 2 * length (reqs s))%nat.
Proof.
  intros s. unfold mu. induction (reqs s) as [|y l IH]; [cbn; lia|]. cbn [map list_sum fold_right length]. unfold list_sum in IH.
  assert (rank y <= 2)%nat by (unfold rank; destruct (r_phase y); lia). lia.
Qed.

(* ITEM 4 (C20, second sentence): after the connection is lost every request has ended once the acknowledgement wait
   plus the longest response timeout has passed *)
Theorem lost_terminates : forall evs dt T, wf_events evs ->
  (forall r, In r (reqs (run_events evs)) -> r_timeout r <= T) -> ack_timeout_ms + T <= dt ->
  forallb is_done (reqs (step (step (run_events evs) ELost) (ETick dt))) = true.
Proof.
  intros evs dt T W HT DT. destruct (reachable_J evs W) as (R & L & _). set (s := run_events evs) in *.
  set (s0 := step s ELost).
  assert (E0 : reqs s0 = reqs s) by (unfold s0; cbn [step]; unfold lost; destruct (app_attached s && negb (reset_in_progress s)); reflexivity).
  assert (N0 : now s0 = now s) by (unfold s0; cbn [step]; unfold lost; destruct (app_attached s && negb (reset_in_progress s)); reflexivity).
  assert (R0 : Q s0).
  { unfold s0. cbn [step]. unfold lost. destruct (app_attached s && negb (reset_in_progress s)); apply (RI_fields s); try reflexivity; exact R. }
  assert (L0 : LI s0) by (apply LI_step; exact L).
  assert (U0 : uart_present s0 = false) by apply loss_makes_link_absent.
  assert (TO : All (fun x => r_timeout x <= T) s0) by (intros x Ix; rewrite E0 in Ix; exact (HT x Ix)).
  cbn [step]. fold s0. unfold tick.
  apply (lost_loop (now s0) T (now s0 + dt)); [lia| |].
  - unfold Mz. pose proof (mu_le s0). destruct (hasack s0); lia.
  - constructor; try assumption; try lia.
    + intros x k d Ix Px. assert (Ax : is_ack x = true) by (unfold is_ack; rewrite Px; reflexivity).
      destruct (ack_holder s0 x R0 Ix Ax) as (_ & k' & d' & P' & D'). rewrite Px in P'. injection P' as _ P'. subst d'. exact D'.
    + intros x d Ix Px. pose proof (rsp_bound_now T s0 x d R0 TO Ix Px). lia.
Qed.
Print Assumptions lost_terminates.

Example lost_terminates_nonvacuous :
  map (fun r => (r_id r, r_phase r)) (reqs (step (step (run_events ex_evs) ELost) (ETick 6000))) =
    [(1%nat, PDone OTimeout); (2%nat, PDone ORuntime); (3%nat, PDone ORuntime); (4%nat, PDone ORuntime)].
Proof. vm_compute. reflexivity. Qed.

(* ====================================================================== *)
(* 6. what Q says, spelled out (item 2 of the plan), and the guard of the fragment write *)

(* the guard `may_write` is true whenever the scheduler reaches it: the "stuck" branch of tag 1 is never taken *)
Theorem guard_never_fails : forall s rid rest r, RI s ((rid, 1%nat) :: rest) -> get s rid = Some r -> may_write s rid = true.
Proof.
  intros s rid rest r R G. destruct (get_In _ _ _ G) as [Ir Er].
  destruct (ok_head s rid _ rest r Er (proj2 R r Ir)) as [OKr TR].
  destruct TR as [[TR _]|[TR _]]; [lia|]. rewrite TR in OKr. cbn [sit_of] in OKr.
  apply (may_write_true s rid r Er); [|exact OKr]. destruct OKr as [_ HP]. unfold is_done. destruct (r_phase r); try contradiction; reflexivity.
Qed.
Print Assumptions guard_never_fails.

Theorem Q_spelled_out : forall s, Q s ->
  NoDup (ids s) /\ NoDup (msg_q s) /\ NoDup (block_q s) /\
  (msg_holder s = None -> msg_q s = []) /\ (block_holder s = None -> block_q s = []) /\
  (forall r, In r (reqs s) ->
     (is_done r = false -> lookup s (r_id r) = Some (r_blocking r, r_nfrags r) /\ (1 <= r_nfrags r)%nat) /\
     (r_phase r = PQBlock <-> In (r_id r) (block_q s)) /\
     (r_phase r = PQMsg <-> In (r_id r) (msg_q s)) /\
     ((exists k d, r_phase r = PAwaitAck k d) <-> msg_holder s = Some (r_id r)) /\
     (r_blocking r = true /\ (r_phase r = PQMsg \/ is_ack r = true \/ is_rsp r = true) <-> block_holder s = Some (r_id r)) /\
     (r_phase r = PQBlock -> r_blocking r = true) /\
     (forall k d, r_phase r = PAwaitAck k d -> msg_next s = S k /\ (k < r_nfrags r)%nat /\ d <= now s + ack_timeout_ms) /\
     (forall d, r_phase r = PAwaitRsp d -> d <= now s + r_timeout r)).
Proof.
  intros s [RGs OKs]. destruct RGs as [A1 A2 A3 A4 A5 A6 A7 A8 A9 A10].
  split; [exact A1|]. split; [exact A2|]. split; [exact A3|]. split; [exact A4|]. split; [exact A5|].
  intros r Ir. pose proof (ok_idle _ _ (OKs r Ir)) as [HL HP]. split; [exact HL|].
  rewrite <- !mem_In.
  assert (HM : msg_holder s = Some (r_id r) <-> holds (msg_holder s) (r_id r) = true).
  { split; [intros E; rewrite E, holds_some; apply Nat.eqb_refl|apply holds_true]. }
  assert (HB : block_holder s = Some (r_id r) <-> holds (block_holder s) (r_id r) = true).
  { split; [intros E; rewrite E, holds_some; apply Nat.eqb_refl|apply holds_true]. }
  rewrite HM, HB. unfold is_ack, is_rsp.
  destruct (r_phase r) as [| |k d|d|o]; [destruct HP as [HP BL]| |destruct HP as (HP & M1 & M2 & M3)|destruct HP as [HP M1]|];
    injection HP as H1 H2 H3 H4; rewrite H1, H2, H3, H4.
  all: repeat split; intros;
    repeat match goal with
           | H : _ /\ _ |- _ => destruct H
           | H : _ \/ _ |- _ => destruct H
           | H : exists _, _ |- _ => destruct H
           end; try discriminate; try congruence; try assumption; eauto;
    try (match goal with H : PAwaitAck _ _ = PAwaitAck _ _ |- _ => injection H as ? ?; subst; assumption end);
    try (match goal with H : PAwaitRsp _ = PAwaitRsp _ |- _ => injection H as ?; subst; assumption end);
    try (destruct (r_blocking r); try discriminate; tauto).
Qed.

Theorem reachable_spelled_out : forall evs, wf_events evs ->
  let s := run_events evs in
  (uart_present s = true -> transport_open s = true) /\
  (forall r, In r (reqs s) -> is_rsp r = true -> r_fut r = FPending) /\
  (forall h, msg_holder s = Some h -> exists r, get s h = Some r /\ is_ack r = true) /\
  (forall r1 r2, In r1 (reqs s) -> In r2 (reqs s) -> is_ack r1 = true -> is_ack r2 = true -> r1 = r2).
Proof.
  intros evs W s. destruct (reachable_J evs W) as (R & L & C & _). fold s in R, L, C.
  split; [exact L|]. split; [exact C|]. split.
  - intros h Eh. pose proof (rg_kmh _ (proj1 R) h Eh) as Ih. apply get_ids in Ih. destruct (get s h) as [rh|] eqn:G; [|congruence].
    exists rh. split; [reflexivity|]. destruct (get_In _ _ _ G) as [Irh Erh]. pose proof (ok_idle _ _ (proj2 R rh Irh)) as O.
    rewrite Erh, Eh, holds_some, Nat.eqb_refl in O. destruct (okv_idle_hm _ _ _ _ _ _ _ O) as (k & d & P). unfold is_ack. rewrite P. reflexivity.
  - intros r1 r2 I1 I2 A1 A2. destruct (ack_holder s r1 R I1 A1) as [H1 _]. destruct (ack_holder s r2 R I2 A2) as [H2 _].
    pose proof (rg_ids _ (proj1 R)) as N. apply (get_unique s (r_id r2) r2 r1 N (In_get s r2 N I2) I1). congruence.
Qed.
Print Assumptions reachable_spelled_out.
