(* MODEL of the listener table of zigpy_zboss/api.py (ZBOSS._listeners) and of frame_received's dispatch loop,
   driven by histories of
     register waiter  (wait_for_responses)            register callback (register_indication_listeners)
     cancel waiter    (future.cancel())               receive command   (frame_received, dispatch part)
     settle           (the event loop runs the futures' done-callbacks: remove_listener for every finished waiter)
   Several receive events without a settle in between = several commands received in one event-loop step: a
   resolved or cancelled waiter is then still registered ("Future already has a result set").

   The table is the list of registered listeners in registration order; ZBOSS._listeners[header] is its filter
   by "header in listener.matching_headers()" (each listener is appended once per header of a *set*, and removed
   from all of them).  Futures live outside the table (st_futs), as in the code.  st_regs is a ghost: the
   registration history (never read by the executable steps), used to state the theorems over whole histories. *)
From Coq Require Import NArith List Bool.
From ZB Require Import Api.Match.
Import ListNotations.
Open Scope N_scope.

Inductive fstate := FPending | FDone (c : pat) | FCancelled.
Inductive lkind := KWaiter | KCallback.

Record listener := { l_id : N; l_kind : lkind; l_orig : list pat (* as given *); l_pats : list pat (* matching_commands *) }.

Record state := {
  st_table : list listener;          (* registered listeners, registration order *)
  st_futs : list (N * fstate);       (* the one-shot listeners' futures, by listener id *)
  st_next : N;                       (* next listener id *)
  st_regs : list listener            (* ghost: every listener ever registered, registration order *)
}.

Definition init : state := {| st_table := []; st_futs := []; st_next := 0; st_regs := [] |}.

Definition is_waiter (l : listener) : bool := match l_kind l with KWaiter => true | KCallback => false end.

Fixpoint fut_of (futs : list (N * fstate)) (id : N) : option fstate :=
  match futs with
  | [] => None
  | (k, v) :: rest => if k =? id then Some v else fut_of rest id
  end.

Fixpoint set_fut (futs : list (N * fstate)) (id : N) (v : fstate) : list (N * fstate) :=
  match futs with
  | [] => []
  | (k, x) :: rest => if k =? id then (k, v) :: set_fut rest id v else (k, x) :: set_fut rest id v
  end.

(* not future.done() *)
Definition pending (futs : list (N * fstate)) (id : N) : bool :=
  match fut_of futs id with Some FPending => true | _ => false end.

Definition has_header (h : N) (l : listener) : bool := existsb (N.eqb h) (headers (l_pats l)).

(* self._listeners[header] *)
Definition header_list (h : N) (table : list listener) : list listener := filter (has_header h) table.

Record dres := { d_futs : list (N * fstate); d_resolved : list N; d_called : list N; d_matched : bool }.

(* the for-loop of frame_received over self._listeners[command.header]:
     if one_shot_matched and isinstance(listener, OneShotResponseListener): continue
     if not listener.resolve(command): continue          -- resolve = any pattern matches, then _resolve:
                                                            one-shot: False if future.done() else set_result, True
                                                            callback: invoke, True
     matched = True
     if isinstance(listener, OneShotResponseListener): one_shot_matched = True                                *)
Fixpoint dispatch_loop (c : pat) (ls : list listener) (futs : list (N * fstate)) (one_shot_matched : bool) : dres :=
  match ls with
  | [] => {| d_futs := futs; d_resolved := []; d_called := []; d_matched := false |}
  | l :: rest =>
      match l_kind l with
      | KWaiter =>
          if one_shot_matched then dispatch_loop c rest futs one_shot_matched
          else if any_match (l_pats l) c then
            if pending futs (l_id l) then
              let r := dispatch_loop c rest (set_fut futs (l_id l) (FDone c)) true in
              {| d_futs := d_futs r; d_resolved := l_id l :: d_resolved r; d_called := d_called r; d_matched := true |}
            else dispatch_loop c rest futs one_shot_matched
          else dispatch_loop c rest futs one_shot_matched
      | KCallback =>
          if any_match (l_pats l) c then
            let r := dispatch_loop c rest futs one_shot_matched in
            {| d_futs := d_futs r; d_resolved := d_resolved r; d_called := l_id l :: d_called r; d_matched := true |}
          else dispatch_loop c rest futs one_shot_matched
      end
  end.

Definition dispatch (s : state) (c : pat) : dres :=
  dispatch_loop c (header_list (fst c) (st_table s)) (st_futs s) false.

Inductive event :=
| ERegWaiter (ps : list pat)
| ERegCallback (ps : list pat)
| ECancel (id : N)
| EReceive (c : pat)
| ESettle.

Inductive obs :=
| ORegistered (id : N)
| ORegError                        (* ValueError: no matching commands *)
| OCancelled (changed : bool)
| OReceived (resolved : list N) (called : list N) (matched : bool)
| OSettled.

(* what the done-callbacks leave in the table: callbacks, and one-shot listeners whose future is not done *)
Definition keep (futs : list (N * fstate)) (l : listener) : bool := negb (is_waiter l) || pending futs (l_id l).

Definition register (s : state) (k : lkind) (ps : list pat) : state * obs :=
  match mk_patterns ps with
  | None => ({| st_table := st_table s; st_futs := st_futs s; st_next := st_next s + 1; st_regs := st_regs s |}, ORegError)
  | Some lps =>
      let l := {| l_id := st_next s; l_kind := k; l_orig := ps; l_pats := lps |} in
      ({| st_table := st_table s ++ [l];
          st_futs := match k with KWaiter => st_futs s ++ [(st_next s, FPending)] | KCallback => st_futs s end;
          st_next := st_next s + 1;
          st_regs := st_regs s ++ [l] |}, ORegistered (st_next s))
  end.

Definition step (s : state) (ev : event) : state * obs :=
  match ev with
  | ERegWaiter ps => register s KWaiter ps
  | ERegCallback ps => register s KCallback ps
  | ECancel id =>
      if pending (st_futs s) id
      then ({| st_table := st_table s; st_futs := set_fut (st_futs s) id FCancelled; st_next := st_next s; st_regs := st_regs s |},
            OCancelled true)
      else (s, OCancelled false)
  | EReceive c =>
      let r := dispatch s c in
      ({| st_table := st_table s; st_futs := d_futs r; st_next := st_next s; st_regs := st_regs s |},
       OReceived (d_resolved r) (d_called r) (d_matched r))
  | ESettle =>
      ({| st_table := filter (keep (st_futs s)) (st_table s); st_futs := st_futs s; st_next := st_next s; st_regs := st_regs s |},
       OSettled)
  end.

Fixpoint run (s : state) (evs : list event) : state * list obs :=
  match evs with
  | [] => (s, [])
  | ev :: evs' => let '(s1, o) := step s ev in let '(s2, os) := run s1 evs' in (s2, o :: os)
  end.

(* the state after a history *)
Definition exec (s : state) (evs : list event) : state := fold_left (fun s ev => fst (step s ev)) evs s.
