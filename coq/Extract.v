(* Extraction of the executable model and spec functions for the correspondence check (Tie B).
   ExtrOcamlBasic only: bool, option, unit, list, prod, sumbool map to OCaml's; numbers stay
   Coq's N / positive / nat datatypes.  No Extract Constant, no other Extract Inductive. *)
From Coq Require Import NArith List.
From Coq Require Extraction ExtrOcamlBasic.
From ZB Require Import Base.Bytes Crc.CrcSpec Crc.CrcModel.

Extraction Language OCaml.
Set Extraction KeepSingleton.
Extraction "../ocaml/gen/model.ml"
  crc8_from crc16_from crc8_spec crc16_spec.
