(* Extraction of the executable model and spec functions for the correspondence check (Tie B).
   ExtrOcamlBasic only: bool, option, unit, list, prod, sumbool map to OCaml's; numbers stay
   Coq's N / positive / nat datatypes.  No Extract Constant, no other Extract Inductive. *)
From Coq Require Import NArith List.
From Coq Require Extraction ExtrOcamlBasic.
From ZB Require Import Base.Bytes Crc.CrcSpec Crc.CrcModel Link.LLHeader Link.LinkSpec Link.Frame Link.Frag Link.Resync Link.Rx Link.RxSpec Link.TxSeq Link.Reasm Link.TxSched
  Wire.Wty Cmd.Schema Cmd.Command gen.GenSchemas pinned.PinnedSchemas Api.Api.

Extraction Language OCaml.
Set Extraction KeepSingleton.
Extraction "../ocaml/gen/model.ml"
  crc8_from crc16_from crc8_spec crc16_spec
  ll_get ll_with hl_get hl_with
  serialize to_frame stamp ack_frame tx_fragment count_fragments_n frag_body
  spec_decode spec_encode claims
  extract_frame_x data_received
  spec_parse_pos spec_ack_bytes waits
  trun reasm_run tstep_obs tinit t_seq
  Api.step_obs Api.init Api.reqs Api.pack_seq
  valid enc dec selfdelim nonempty_enc construct_ok enc_params from_body dec_params schema_ok schemas pinned_schemas c_ctl c_id.
