import asyncio, sys, warnings
warnings.simplefilter("ignore")
from unittest.mock import Mock
import zigpy_zboss.commands as c
import zigpy_zboss.config as conf
import zigpy_zboss.types as t
from zigpy_zboss import uart as U
from zigpy_zboss.checksum import CRC8, CRC16
from zigpy_zboss.frames import Frame, LLHeader, HLPacket

def mk():
    api = Mock()
    got = []
    api.frame_received = lambda f: got.append(f)
    cfg = {conf.CONF_DEVICE_PATH: "/dev/x", conf.CONF_DEVICE_BAUDRATE: 115200, conf.CONF_DEVICE_FLOW_CONTROL: None}
    loop = asyncio.new_event_loop(); asyncio.set_event_loop(loop)
    u = U.ZbossNcpProtocol(cfg, api)
    tr = Mock(); wr = []
    tr.write = lambda b: wr.append(bytes(b))
    u.connection_made(tr)
    return u, got, wr

cmd = c.NcpConfig.GetZigbeeRole.Rsp(TSN=10, StatusCat=t.StatusCategory(1), StatusCode=t.StatusCodeGeneric.OK, DeviceRole=t.DeviceRole(1))
fr = cmd.to_frame()
fr.ll_header = fr.ll_header.with_crc8(CRC8(fr.ll_header.serialize()[2:6]).digest())
good = fr.serialize()

# (a) bad-CRC header announcing long body
u, got, wr = mk()
u.data_received(b'\xde\xad\xff\x7f\x06\xc0\x00' + good)
print("a: bad-crc header w/ long length then good frame: delivered", len(got), "buf", len(u._buffer))
# (b) chunk boundary inside start marker after pending noise
u, got, wr = mk()
u.data_received(b'\x01\x02\x03\x04\x05\x06\xde')
u.data_received(good[1:])
print("b: split marker after 6 noise bytes: delivered", len(got), "buf", len(u._buffer))
u, got, wr = mk()
u.data_received(b'\x01\x02\x03\x04\x05\x06' + good)
print("b': same unsplit: delivered", len(got))
# (c) ACK before anything was sent
u, got, wr = mk()
try:
    u.data_received(Frame.ack(0).serialize())
    print("c: ack(0) before send ok")
except Exception as e:
    print("c: RAISE", type(e).__name__, e)
u.data_received(good); print("   then good: delivered", len(got), "buf", len(u._buffer))
# (d) wrong type
u, got, wr = mk()
b = (15).to_bytes(2,'little') + bytes([7, 0xc0]); 
u.data_received(b'\xde\xad' + b + bytes([CRC8(b).digest()]) + good[7:] + good)
print("d: wrong type: delivered", len(got), 'acks', len(wr))
# (e) after close
u, got, wr = mk(); u.close()
try:
    u.data_received(good); print("e: after close ok; delivered", len(got), "writes", len(wr))
except Exception as e: print("e: RAISE", e)
# (f) handler exception
u, got, wr = mk()
cnt=[0]
def boom(f):
    cnt[0]+=1
    if cnt[0]==2: raise RuntimeError("x")
u._api.frame_received = boom
u.data_received(good*3); print("f: handler raise: calls", cnt[0], "acks", len(wr))
# (g) ack content
print("g: ack bytes", wr[0].hex(), Frame.ack(0).serialize().hex())
# (h) huge size w/ valid crc
b = (0xffff).to_bytes(2,'little') + bytes([6, 0xc0]);
u, got, wr = mk()
u.data_received(b'\xde\xad' + b + bytes([CRC8(b).digest()]) + good*5)
print("h: valid header huge size: delivered", len(got), "buf", len(u._buffer))
