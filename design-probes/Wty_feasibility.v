From Coq Require Import NArith ZArith List Bool Lia Arith ZifyBool ZifyNat ZifyN.
Ltac Zify.zify_post_hook ::= Z.div_mod_to_equations.
Import ListNotations.
Open Scope N_scope.
Arguments N.mul : simpl never.
Arguments N.add : simpl never.
Arguments N.pow : simpl never.
Arguments N.div : simpl never.
Arguments N.modulo : simpl never.
Arguments N.ltb : simpl never.
Arguments N.of_nat : simpl never.

(* ---- little-endian fixed width ---- *)
Fixpoint le_enc (w : nat) (n : N) : list N :=
  match w with O => [] | S w => (n mod 256) :: le_enc w (n / 256) end.
Fixpoint le_dec (w : nat) (d : list N) : option (N * list N) :=
  match w with
  | O => Some (0, d)
  | S w => match d with
           | [] => None
           | b :: d' => match le_dec w d' with Some (n, r) => Some (b + 256 * n, r) | None => None end
           end
  end.
Lemma le_enc_length : forall w n, length (le_enc w n) = w.
Proof. induction w; intros; simpl; [reflexivity| rewrite IHw; reflexivity]. Qed.
Lemma le_roundtrip : forall w n r, n < 256 ^ N.of_nat w -> le_dec w (le_enc w n ++ r) = Some (n, r).
Proof.
  induction w as [|w IH]; intros n r Hn.
  - simpl in *. assert (n = 0) by lia. subst. reflexivity.
  - rewrite Nat2N.inj_succ, N.pow_succ_r' in Hn. simpl. rewrite IH by lia.
    replace (n mod 256 + 256 * (n / 256)) with n by lia. reflexivity.
Qed.
Lemma le_dec_short : forall w d, (length d < w)%nat -> le_dec w d = None.
Proof.
  induction w as [|w IH]; intros d H; [lia|]. simpl. destruct d as [|b d']; [reflexivity|].
  simpl in H. rewrite IH by lia. reflexivity.
Qed.

(* ---- universe ---- *)
Inductive wty :=
| TInt (w : nat)
| TFixBytes (n : nat)
| TLVBytes (h : nat)
| TLVList (h : nat) (t : wty)
| TGreedy (t : wty)
| TStruct (ts : list wty).

Inductive value := VInt (n : N) | VBytes (bs : list N) | VList (vs : list value).

Section Ind.
Variable P : wty -> Prop.
Hypothesis HInt : forall w, P (TInt w).
Hypothesis HFix : forall n, P (TFixBytes n).
Hypothesis HLVB : forall h, P (TLVBytes h).
Hypothesis HLVL : forall h t, P t -> P (TLVList h t).
Hypothesis HGre : forall t, P t -> P (TGreedy t).
Hypothesis HStr : forall ts, Forall P ts -> P (TStruct ts).
Fixpoint wty_ind' (t : wty) : P t :=
  match t with
  | TInt w => HInt w | TFixBytes n => HFix n | TLVBytes h => HLVB h
  | TLVList h t => HLVL h t (wty_ind' t)
  | TGreedy t => HGre t (wty_ind' t)
  | TStruct ts => HStr ts ((fix go (l : list wty) : Forall P l :=
        match l with [] => Forall_nil P | x :: l' => Forall_cons x (wty_ind' x) (go l') end) ts)
  end.
End Ind.

Definition byte_ok (b : N) := b <? 256.

(* validity: value has the shape of the type and fits *)
Fixpoint valid (t : wty) (v : value) {struct t} : bool :=
  match t, v with
  | TInt w, VInt n => n <? 256 ^ N.of_nat w
  | TFixBytes k, VBytes bs => (length bs =? k)%nat && forallb byte_ok bs
  | TLVBytes h, VBytes bs => (N.of_nat (length bs) <? 256 ^ N.of_nat h) && forallb byte_ok bs
  | TLVList h t, VList vs => (N.of_nat (length vs) <? 256 ^ N.of_nat h) && forallb (valid t) vs
  | TGreedy t, VList vs => forallb (valid t) vs
  | TStruct ts, VList vs =>
      (fix go (ts : list wty) (vs : list value) : bool :=
         match ts, vs with
         | [], [] => true
         | t :: ts', v :: vs' => valid t v && go ts' vs'
         | _, _ => false
         end) ts vs
  | _, _ => false
  end.

Fixpoint enc (t : wty) (v : value) {struct t} : list N :=
  match t, v with
  | TInt w, VInt n => le_enc w n
  | TFixBytes _, VBytes bs => bs
  | TLVBytes h, VBytes bs => le_enc h (N.of_nat (length bs)) ++ bs
  | TLVList h t, VList vs => le_enc h (N.of_nat (length vs)) ++ concat (map (enc t) vs)
  | TGreedy t, VList vs => concat (map (enc t) vs)
  | TStruct ts, VList vs =>
      (fix go (ts : list wty) (vs : list value) : list N :=
         match ts, vs with
         | t :: ts', v :: vs' => enc t v ++ go ts' vs'
         | _, _ => []
         end) ts vs
  | _, _ => []
  end.

(* decode n items / greedy items with an abstract item decoder *)
Section Loops.
Variable decitem : list N -> option (value * list N).
Fixpoint dec_n (k : nat) (d : list N) : option (list value * list N) :=
  match k with
  | O => Some ([], d)
  | S k => match decitem d with
           | None => None
           | Some (v, d') => match dec_n k d' with Some (vs, r) => Some (v :: vs, r) | None => None end
           end
  end.
Fixpoint dec_greedy (fuel : nat) (d : list N) : option (list value) :=
  match d with
  | [] => Some []
  | _ => match fuel with
         | O => None   (* item consumed nothing: Python would loop forever *)
         | S fuel => match decitem d with
                     | None => None
                     | Some (v, d') => match dec_greedy fuel d' with Some vs => Some (v :: vs) | None => None end
                     end
         end
  end.
End Loops.

Fixpoint dec (t : wty) (d : list N) {struct t} : option (value * list N) :=
  match t with
  | TInt w => match le_dec w d with Some (n, r) => Some (VInt n, r) | None => None end
  | TFixBytes k => if (length d <? k)%nat then None else Some (VBytes (firstn k d), skipn k d)
  | TLVBytes h => match le_dec h d with
                  | Some (n, r) => let k := N.to_nat n in
                                   if (length r <? k)%nat then None else Some (VBytes (firstn k r), skipn k r)
                  | None => None end
  | TLVList h t => match le_dec h d with
                   | Some (n, r) => match dec_n (dec t) (N.to_nat n) r with
                                    | Some (vs, r') => Some (VList vs, r') | None => None end
                   | None => None end
  | TGreedy t => match dec_greedy (dec t) (length d) d with Some vs => Some (VList vs, []) | None => None end
  | TStruct ts =>
      (fix go (ts : list wty) (d : list N) : option (value * list N) :=
         match ts with
         | [] => Some (VList [], d)
         | t :: ts' => match dec t d with
                       | None => None
                       | Some (v, d') => match go ts' d' with
                                         | Some (VList vs, r) => Some (VList (v :: vs), r)
                                         | _ => None end
                       end
         end) ts d
  end.

(* self-delimiting types: no greedy component anywhere *)
Fixpoint selfdelim (t : wty) : bool :=
  match t with
  | TInt _ | TFixBytes _ | TLVBytes _ => true
  | TLVList _ t => selfdelim t
  | TGreedy _ => false
  | TStruct ts => forallb selfdelim ts
  end.

Lemma dec_n_roundtrip : forall t, (forall v r, valid t v = true -> dec t (enc t v ++ r) = Some (v, r)) ->
  forall vs r, forallb (valid t) vs = true -> dec_n (dec t) (length vs) (concat (map (enc t) vs) ++ r) = Some (vs, r).
Proof.
  intros t Ht. induction vs as [|v vs IH]; intros r Hv; [reflexivity|].
  simpl in Hv. apply andb_true_iff in Hv. destruct Hv as [Hv1 Hv2].
  simpl. rewrite <- app_assoc. rewrite Ht by assumption. rewrite IH by assumption. reflexivity.
Qed.

Theorem roundtrip : forall t, selfdelim t = true ->
  forall v r, valid t v = true -> dec t (enc t v ++ r) = Some (v, r).
Proof.
  induction t using wty_ind'; intros Hsd v r Hv.
  - destruct v; try discriminate. simpl in *. apply N.ltb_lt in Hv. rewrite le_roundtrip by assumption. reflexivity.
  - destruct v; try discriminate. simpl in *. apply andb_true_iff in Hv. destruct Hv as [Hl _].
    apply Nat.eqb_eq in Hl. subst n. rewrite app_length.
    destruct (length bs + length r <? length bs)%nat eqn:E; [apply Nat.ltb_lt in E; lia|].
    rewrite firstn_app, Nat.sub_diag, firstn_all. simpl. rewrite app_nil_r.
    rewrite skipn_app, Nat.sub_diag, skipn_all. reflexivity.
  - destruct v; try discriminate. simpl in *. apply andb_true_iff in Hv. destruct Hv as [Hl _].
    apply N.ltb_lt in Hl. rewrite <- app_assoc. rewrite le_roundtrip by assumption. rewrite Nat2N.id.
    rewrite app_length.
    destruct (length bs + length r <? length bs)%nat eqn:E; [apply Nat.ltb_lt in E; lia|].
    rewrite firstn_app, Nat.sub_diag, firstn_all. simpl. rewrite app_nil_r.
    rewrite skipn_app, Nat.sub_diag, skipn_all. reflexivity.
  - destruct v; try discriminate. simpl in Hsd. simpl in Hv. apply andb_true_iff in Hv. destruct Hv as [Hl Hvs].
    apply N.ltb_lt in Hl. simpl. rewrite <- app_assoc. rewrite le_roundtrip by assumption. rewrite Nat2N.id.
    rewrite (dec_n_roundtrip t (IHt Hsd)) by assumption. reflexivity.
  - discriminate.
  - destruct v as [| |vs]; try discriminate. simpl in Hsd.
    revert vs r Hv Hsd. induction H as [|t ts Ht Hts IH]; intros vs r Hv Hsd.
    + destruct vs; [reflexivity | discriminate].
    + destruct vs as [|v vs]; [discriminate|]. simpl in Hv, Hsd.
      apply andb_true_iff in Hv. destruct Hv as [Hv1 Hv2]. apply andb_true_iff in Hsd. destruct Hsd as [Hs1 Hs2].
      change (enc (TStruct (t :: ts)) (VList (v :: vs))) with (enc t v ++ enc (TStruct ts) (VList vs)).
      rewrite <- app_assoc.
      change (dec (TStruct (t :: ts)) ?d) with
        (match dec t d with None => None | Some (v0, d') =>
           match dec (TStruct ts) d' with Some (VList vs0, r0) => Some (VList (v0 :: vs0), r0) | _ => None end end).
      rewrite (Ht Hs1) by assumption. rewrite (IH vs r Hv2 Hs2). reflexivity.
Qed.
Print Assumptions roundtrip.
