import warnings; warnings.simplefilter("ignore")
import random, collections
from gen import gen
import zigpy_zboss.commands as c, zigpy_zboss.types as t
from zigpy_zboss.frames import Frame, HLPacket, LLHeader
rnd = random.Random(2)
res = collections.Counter(); ex = {}
def mkframe(cls, body):
    return Frame(LLHeader(), HLPacket(cls.header, t.Bytes(body)))
for hdr, cls in c.COMMANDS_BY_ID.items():
    if hdr.control_type != t.ControlType.RSP: continue
    for status in (0, 1, 0xa7):
      for it in range(6):
        params = {p.name: gen(p.type, rnd) for p in cls.schema}
        params["StatusCode"] = t.StatusCodeGeneric(status)
        cmd = cls(**params)
        parts = [params[p.name].serialize() for p in cls.schema]
        full = b"".join(parts)
        bounds = [0]
        for p in parts: bounds.append(bounds[-1]+len(p))
        for cut in range(0, len(full)):
            body = full[:cut]
            try:
                got = cls.from_frame(mkframe(cls, body))
                out = 'ret'
            except ValueError as e: out = 'ValueError'
            except Exception as e: out = type(e).__name__
            # classify expectation
            if cut < 3: exp = 'reject'
            elif status != 0:
                exp = 'partial'
            else:
                # status 0 cut short: reject unless the cut is at optional boundary
                k = max(i for i,b in enumerate(bounds) if b <= cut)
                rest_optional = all(p.optional for p in cls.schema[k:]) and bounds[k]==cut
                exp = 'ok-optional' if rest_optional else 'reject'
            key = (exp, out)
            ok = True
            if exp == 'reject' and out == 'ret': ok = False
            if exp == 'partial':
                if out != 'ret': ok = False
                else:
                    # complete fields before cut must be equal; later ones None
                    k = max(i for i,b in enumerate(bounds) if b <= cut)
                    for i,p in enumerate(cls.schema):
                        v = getattr(got, p.name)
                        if i < k and v != params[p.name]: ok = False
                        if i >= k and v is not None and not (i==k and False): 
                            ok = False
            res[(key, ok)] += 1
            if not ok: ex.setdefault((cls.__qualname__, exp, out), (cut, bounds, body.hex(), repr(got) if out=='ret' else None))
        # surplus
        for extra in (b"\x00", b"\xaa\xbb"):
            try:
                got = cls.from_frame(mkframe(cls, full+extra)); out='ret'
            except ValueError: out='ValueError'
            except Exception as e: out=type(e).__name__
            okk = out!='ret'
            res[(('surplus',out),okk)] += 1
            if not okk: ex.setdefault((cls.__qualname__, 'surplus', status, len(extra)), (full.hex(), repr(got)))
for k,v in sorted(res.items(), key=str): print(k, v)
for k,v in ex.items(): print(k, str(v)[:400])
