import warnings; warnings.simplefilter("ignore")
import random, enum
import zigpy.types as zt, zigpy.zdo.types as zdo_t
import zigpy_zboss.commands as c
import zigpy_zboss.types as t
from zigpy_zboss.types.cstruct import CStruct

def gen(ty, rnd, depth=0):
    # returns a python value of type ty
    if ty is t.SimpleDescriptor:
        i = rnd.randrange(0,4); o = rnd.randrange(0,4)
        return t.SimpleDescriptor(endpoint=rnd.randrange(256), profile=rnd.randrange(65536), device_type=rnd.randrange(65536), device_version=rnd.randrange(256),
                                  input_clusters_count=i, output_clusters_count=o,
                                  input_clusters=[rnd.randrange(65536) for _ in range(i)], output_clusters=[rnd.randrange(65536) for _ in range(o)])
    if isinstance(ty, type) and issubclass(ty, zt.Struct):
        # generate via random bytes parse
        for _ in range(50):
            data = bytes(rnd.randrange(256) for _ in range(64))
            if ty is zdo_t.Neighbors:
                n = rnd.randrange(0,3); data = bytes([rnd.randrange(256), rnd.randrange(256), n]) + bytes(rnd.randrange(256) for _ in range(22*n))
            try:
                v, rest = ty.deserialize(data)
                return v
            except Exception:
                continue
        raise RuntimeError("cannot gen "+str(ty))
    if issubclass(ty, (t.LVList,)):
        n = rnd.choice([0,1,2,3])
        return ty([gen(ty._item_type, rnd) for _ in range(n)])
    if issubclass(ty, t.CompleteList):
        n = rnd.choice([0,1,2,3])
        return ty([gen(ty._item_type, rnd) for _ in range(n)])
    if issubclass(ty, zt.EUI64): return ty(bytes(rnd.randrange(256) for _ in range(8)))
    if issubclass(ty, zt.KeyData): return ty(bytes(rnd.randrange(256) for _ in range(16)))
    if issubclass(ty, zt.LVBytes): return ty(bytes(rnd.randrange(256) for _ in range(rnd.choice([0,1,5]))))
    if issubclass(ty, zt.List) or (issubclass(ty, list) and hasattr(ty, '_item_type')):
        n = rnd.choice([0,1,2,5])
        return ty([gen(ty._item_type, rnd) for _ in range(n)])
    if issubclass(ty, int):
        size = ty._size; signed = getattr(ty, '_signed', False)
        bits = size*8
        if signed: lo, hi = -(1<<(bits-1)), (1<<(bits-1))-1
        else: lo, hi = 0, (1<<bits)-1
        v = rnd.choice([lo, hi, rnd.randint(lo,hi), rnd.randint(lo,hi)])
        return ty(v)
    raise RuntimeError("unknown type "+repr(ty))

if __name__ == "__main__":
    rnd = random.Random(1)
    bad = {}
    for hdr, cls in c.COMMANDS_BY_ID.items():
        for it in range(40):
            params = {}
            opt = [p for p in cls.schema if p.optional]
            nopt = rnd.randrange(len(opt)+1)
            for p in cls.schema:
                if p.optional and opt.index(p) >= nopt: continue
                params[p.name] = gen(p.type, rnd)
            try:
                cmd = cls(**params)
                fr = cmd.to_frame()
                expect = cls.header.serialize() + b"".join(v.serialize() for v in params.values())
                body = fr.hl_packet.serialize()[2:]
                if body != expect: bad.setdefault((cls.__qualname__,'bytes'), (params, body.hex(), expect.hex()))
                if hdr.control_type != t.ControlType.REQ:
                    back = cls.from_frame(fr)
                    if back != cmd: bad.setdefault((cls.__qualname__,'rt'), (cmd, back))
            except Exception as e:
                bad.setdefault((cls.__qualname__,'exc'), (params, repr(e)[:200]))
    for k,v in bad.items(): print(k, v)
    print("done", len(bad))
