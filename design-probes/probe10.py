from vloop import *
import zigpy.types as zt
loop = VLoop(); asyncio.set_event_loop(loop)
async def build(): return mk(loop)
def kinds(w):
    out=[]
    for b in w.log:
        f = decode(b); fl = int(f.ll_header.flags)
        out.append(("%02x" % fl, f.ll_header.size))
    return out
def big(tsn): return c.APS.DataReq.Req(TSN=tsn, ParamLength=21, DataLength=300, DstAddr=t.EUI64(bytes(8)), ProfileID=260, ClusterId=6, DstEndpoint=1, SrcEndpoint=1, Radius=0, DstAddrMode=zt.AddrMode(2), TxOptions=c.aps.TransmitOptions(0), UseAlias=0, AliasSrcAddr=0, AliasSeqNbr=0, Payload=t.Payload(bytes(300)))
# 1. FIFO re-acquire: A(2 frags), B, C
api, proto, w = loop.run_until_complete(build())
ta = loop.create_task(api.request(big(1))); tb = loop.create_task(api.request(c.NcpConfig.GetZigbeeRole.Req(TSN=2))); tc = loop.create_task(api.request(c.NcpConfig.GetJoinStatus.Req(TSN=3))); loop.settle()
for n in (0,1,2,3): proto.data_received(Frame.ack(n).serialize()); loop.settle()
print("1 order:", kinds(w))
# 2. response before ACK
api, proto, w = loop.run_until_complete(build())
t1 = loop.create_task(api.request(c.NcpConfig.GetZigbeeRole.Req(TSN=2))); loop.settle()
rsp = c.NcpConfig.GetZigbeeRole.Rsp(TSN=2, StatusCat=t.StatusCategory(0), StatusCode=t.StatusCodeGeneric.OK, DeviceRole=t.DeviceRole(0))
proto.data_received(rsp_bytes(rsp)); loop.settle(); print("2 rsp before ack: done", t1.done(), "listeners", sum(len(v) for v in api._listeners.values()))
proto.data_received(Frame.ack(0).serialize()); loop.settle(); print("2 after ack: done", t1.done(), t1.result() if t1.done() else None)
# 3. ack timeout then response
api, proto, w = loop.run_until_complete(build())
t1 = loop.create_task(api.request(c.NcpConfig.GetZigbeeRole.Req(TSN=2))); loop.settle()
loop.advance(1.0); print("3 after 1.0s: done", t1.done(), "pack_seq", proto._pack_seq, "tx locked", proto._tx_lock.locked())
loop.advance(4.99); print("3 after +4.99: done", t1.done())
loop.advance(0.02); print("3 after +0.02: done", t1.done(), type(t1.exception()).__name__ if t1.done() else None, "listeners", sum(len(v) for v in api._listeners.values()))
# 4. two blocking + cancel queued one
api, proto, w = loop.run_until_complete(build())
b1 = loop.create_task(api.request(c.NcpConfig.GetShortAddr.Req(TSN=1))); b2 = loop.create_task(api.request(c.NcpConfig.GetParentAddr.Req(TSN=2))); b3 = loop.create_task(api.request(c.NcpConfig.GetExtendedPANID.Req(TSN=3))); loop.settle()
print("4 writes", len(w.log), "listeners", sum(len(v) for v in api._listeners.values()))
b2.cancel(); loop.settle(); print("4 after cancel queued b2: listeners", sum(len(v) for v in api._listeners.values()), "b2 cancelled", b2.cancelled())
proto.data_received(Frame.ack(0).serialize()); loop.settle()
r1 = c.NcpConfig.GetShortAddr.Rsp(TSN=1, StatusCat=t.StatusCategory(0), StatusCode=t.StatusCodeGeneric.OK, NWKAddr=0)
proto.data_received(rsp_bytes(r1)); loop.settle(); print("4 b1 done", b1.done(), "writes", len(w.log), [k for k in kinds(w)])
# 5. conn lost during AwaitRsp, app told
api, proto, w = loop.run_until_complete(build())
app = Mock(); api.set_application(app)
t1 = loop.create_task(api.request(c.NcpConfig.GetZigbeeRole.Req(TSN=2))); loop.settle(); proto.data_received(Frame.ack(0).serialize()); loop.settle()
proto.connection_lost(None); loop.settle(); print("5 app told", app.connection_lost.call_count, "t1 done", t1.done())
loop.advance(5.01); print("5 t1 done after timeout", t1.done(), type(t1.exception()).__name__)
# 6. close during QueuedTx / AwaitAck w/ 2-fragment request
api, proto, w = loop.run_until_complete(build())
ta = loop.create_task(api.request(big(1))); tb = loop.create_task(api.request(c.NcpConfig.GetZigbeeRole.Req(TSN=2))); loop.settle()
api.close(); loop.settle(); print("6 after close: ta", ta.done(), "tb", tb.done())
loop.advance(0.99); print("6 +0.99: ta", ta.done(), "tb", tb.done())
loop.advance(0.02); print("6 +1.01: ta", ta.done(), (ta.cancelled() or ta.result()), "tb", tb.done(), (tb.cancelled() or tb.exception() or tb.result()))
