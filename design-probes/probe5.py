import warnings; warnings.simplefilter("ignore")
import zigpy.types as zt
import zigpy_zboss.commands as c, zigpy_zboss.types as t
print(type(zt.Addressing.IEEE), zt.Addressing.IEEE)
try:
    r = c.ZDO.UnbindReq.Req(TSN=1, TargetNwkAddr=0x1234, SrcIEEE=t.EUI64(bytes(range(8))), SrcEndpoint=1, ClusterId=6, DstAddrMode=t.BindAddrMode.IEEE, DstAddr=zt.Addressing.IEEE, DstEndpoint=1)
    print(r)
except Exception as e:
    print("EXC", type(e).__name__, e)
import inspect
print(inspect.signature(zt.ZigbeePacket))
mm = zt.MultiAddress if hasattr(zt,'MultiAddress') else None
print(mm)
