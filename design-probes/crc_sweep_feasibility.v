From Coq Require Import NArith List Bool Lia.
Import ListNotations.
From T Require Import Tables.
Open Scope N_scope.
Definition round (poly s : N) : N := if N.testbit s 0 then N.lxor (N.shiftr s 1) poly else N.shiftr s 1.
Fixpoint iter {A} (n : nat) (f : A -> A) (x : A) := match n with O => x | S n => iter n f (f x) end.
(* all N below 2^k, built by doubling: no unary numbers *)
Fixpoint below (k : nat) : list N := match k with O => [0] | S k => let l := below k in l ++ map (fun x => x + N.shiftl 1 (N.of_nat k)) l end.
Eval vm_compute in (length (below 4), below 3).
Definition nz_ok := forallb (fun x => orb (N.eqb x 0) (negb (N.eqb (iter 8 (round 0x8408) x) 0))) (below 16).
Time Eval vm_compute in nz_ok.
Definition lin16 (d e : N) : N := N.lxor (N.shiftr d 8) (iter 8 (round 0x8408) (N.land (N.lxor d e) 0xFF)).
Definition burst_ok (o : N) := forallb (fun w => orb (N.eqb w 0) (let e := N.shiftl w o in
   let d1 := lin16 0 (N.land e 0xFF) in let d2 := lin16 d1 (N.land (N.shiftr e 8) 0xFF) in
   let d3 := lin16 d2 (N.land (N.shiftr e 16) 0xFF) in negb (N.eqb d3 0))) (below 16).
Time Eval vm_compute in forallb burst_ok (below 3).
Lemma burst_all : forallb burst_ok (below 3) = true. Proof. vm_compute. reflexivity. Qed.
