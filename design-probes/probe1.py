import asyncio, sys
from unittest.mock import Mock
import zigpy_zboss.commands as c
import zigpy_zboss.config as conf
import zigpy_zboss.types as t
from zigpy_zboss import uart as U
from zigpy_zboss.checksum import CRC8, CRC16
from zigpy_zboss.frames import Frame, LLHeader, HLPacket

def mk():
    api = Mock()
    got = []
    api.frame_received = lambda f: got.append(f)
    cfg = {conf.CONF_DEVICE_PATH: "/dev/x", conf.CONF_DEVICE_BAUDRATE: 115200, conf.CONF_DEVICE_FLOW_CONTROL: None}
    loop = asyncio.new_event_loop(); asyncio.set_event_loop(loop)
    u = U.ZbossNcpProtocol(cfg, api)
    tr = Mock(); wr = []
    tr.write = lambda b: wr.append(bytes(b))
    u.connection_made(tr)
    return u, got, wr

def hdr(size, flags, typ=6):
    b = size.to_bytes(2,'little') + bytes([typ, flags])
    return b'\xde\xad' + b + bytes([CRC8(b).digest()])

cmd = c.NcpConfig.GetZigbeeRole.Rsp(TSN=10, StatusCat=t.StatusCategory(1), StatusCode=t.StatusCodeGeneric.OK, DeviceRole=t.DeviceRole(1))
fr = cmd.to_frame()
fr.ll_header = fr.ll_header.with_crc8(CRC8(fr.ll_header.serialize()[2:6]).digest())
good = fr.serialize()
print("good", good.hex(), len(good))

# C02: header valid crc, size small (e.g. 5..12) w/ FirstFrag flag
for size in range(0, 13):
  for flags in (0xC0, 0x40, 0x80, 0x00):
    u, got, wr = mk()
    data = hdr(size, flags) + bytes(max(0,size-5))
    try:
        u.data_received(data + b'\x00'*8)
        r1 = 'ok'
    except Exception as e:
        r1 = 'RAISE ' + type(e).__name__ + ':' + str(e)[:40]
    try:
        u.data_received(good)
        r2 = 'ok'
    except Exception as e:
        r2 = 'RAISE2 ' + type(e).__name__
    print(size, hex(flags), r1, r2, 'delivered', len(got), 'buf', len(u._buffer))
