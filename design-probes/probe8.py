from vloop import *
loop = VLoop(); asyncio.set_event_loop(loop)
async def build(): return mk(loop)
api, proto, w = loop.run_until_complete(build())
def kinds():
    out=[]
    for b in w.log:
        f = decode(b); fl = int(f.ll_header.flags)
        out.append(("ACK" if fl&1 else "DATA", hex(fl), f.ll_header.size))
    return out
# big non-blocking request (APS DataReq with 300-byte payload) + small request
big = c.APS.DataReq.Req(TSN=5, ParamLength=21, DataLength=300, DstAddr=t.EUI64(bytes(8)), ProfileID=260, ClusterId=6, DstEndpoint=1, SrcEndpoint=1, Radius=0, DstAddrMode=__import__("zigpy.types").types.AddrMode(2), TxOptions=c.aps.TransmitOptions(0), UseAlias=0, AliasSrcAddr=0, AliasSeqNbr=0, Payload=t.Payload(bytes(300)))
small = c.NcpConfig.GetZigbeeRole.Req(TSN=9)
print("big frags", [ (hex(int(f.ll_header.flags)), f.ll_header.size) for f in big.to_frame().handle_tx_fragmentation()])
ta = loop.create_task(api.request(big)); tb = loop.create_task(api.request(small)); loop.settle()
print(kinds())
proto.data_received(Frame.ack(0).serialize()); loop.settle(); print(kinds())
proto.data_received(Frame.ack(1).serialize()); loop.settle(); print(kinds())
proto.data_received(Frame.ack(2).serialize()); loop.settle(); print(kinds())
# C20: close with requests in flight
api.close(); loop.settle()
print("after close: ta", ta.done(), "tb", tb.done())
loop.advance(1.01); 
print("after 1.01s: ta", ta.done(), ta.cancelled() or ta.exception() or ta.result(), "tb", tb.done(), tb.cancelled() or tb.exception() or tb.result())
try:
    loop.run_until_complete(api.request(small))
except Exception as e: print("new request after close:", type(e).__name__, e)
api.close(); print("double close ok")
