import warnings; warnings.simplefilter("ignore")
import asyncio
from unittest.mock import Mock
import zigpy_zboss.types as t, zigpy_zboss.config as conf, zigpy_zboss.commands as c
from zigpy_zboss.frames import Frame, HLPacket, LLHeader, ZBNCP_LL_BODY_SIZE_MAX as MAX
from zigpy_zboss.checksum import CRC8, CRC16
from zigpy_zboss import uart as U
from zigpy_zboss.api import ZBOSS

def ref_decode(b):
    assert b[:2] == b'\xde\xad'
    size = int.from_bytes(b[2:4],'little'); assert b[4]==6; flags=b[5]
    assert len(b) == size+2, (len(b), size+2)
    body = b[7:]; crc = int.from_bytes(body[:2],'little'); payload = body[2:]
    assert CRC16(payload).digest() == crc
    return flags, payload
hdr = t.HLCommonHeader(id=0x0301, type=t.ControlType.REQ)
bad=[]
for total in range(4, 4*MAX+10):
    data = bytes((i*7+3) & 0xff for i in range(total-4))
    hp = HLPacket(hdr, t.Bytes(data)); fr = Frame(LLHeader().with_signature(0xADDE).with_size(hp.length+5).with_type(6).with_flags(0xC0), hp)
    whole = hdr.serialize()+data
    try:
        frags = fr.handle_tx_fragmentation()
        parts=[]
        for i,f in enumerate(frags):
            f.ll_header = f.ll_header.with_crc8(CRC8(f.ll_header.serialize()[2:6]).digest())
            fl, p = ref_decode(f.serialize())
            assert 0 < len(p) <= MAX
            parts.append(p)
        assert b"".join(parts) == whole
    except AssertionError as e:
        bad.append(total)
print("C09 failing totals (first 12):", bad[:12], "count", len(bad), "residues", sorted({x % MAX for x in bad}))

# C10 loopback: library tx fragments -> bytes -> uart -> api -> listener
cfg = conf.CONFIG_SCHEMA({conf.CONF_DEVICE: {conf.CONF_DEVICE_PATH: "/dev/null"}})
loop = asyncio.new_event_loop(); asyncio.set_event_loop(loop)
async def go():
    api = ZBOSS(cfg); proto = U.ZbossNcpProtocol(cfg[conf.CONF_DEVICE], api); tr = Mock(); proto.connection_made(tr); api._uart = proto
    got=[]
    api.register_indication_listener(c.APS.DataIndication.Ind(partial=True), got.append)
    ind = c.APS.DataIndication.Ind(ParamLength=21, PayloadLength=300, FrameFC=t.APSFrameFC(1), SrcAddr=1, DstAddr=0, GrpAddr=0, DstEndpoint=1, SrcEndpoint=1, ClusterId=6, ProfileId=260, PacketCounter=1, SrcMACAddr=1, DstMACAddr=0, LQI=200, RSSI=-40, KeySrcAndAttr=t.ApsAttributes(0), Payload=t.Payload(bytes(range(256))+bytes(44)))
    frags = ind.to_frame().handle_tx_fragmentation()
    for f in frags:
        f.ll_header = f.ll_header.with_crc8(CRC8(f.ll_header.serialize()[2:6]).digest())
        proto.data_received(f.serialize())
    print("C10 loopback: delivered", len(got), "equal:", (got[0]==ind) if got else None, "payload len", len(got[0].Payload) if got else None)
    # interrupted sequence then complete message
    got.clear(); api._rx_fragments=[]
    proto.data_received(frags[0].serialize())
    small = c.NcpConfig.DeviceResetIndication.Ind(ResetSrc=t.ResetSource(1)); got2=[]
    api.register_indication_listener(c.NcpConfig.DeviceResetIndication.Ind(partial=True), got2.append)
    f = small.to_frame(); f.ll_header = f.ll_header.with_crc8(CRC8(f.ll_header.serialize()[2:6]).digest())
    proto.data_received(f.serialize())
    print("C10 interrupted-then-complete: reset ind delivered", len(got2), "data ind delivered", len(got))
loop.run_until_complete(go())
