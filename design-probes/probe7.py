from vloop import *
loop = VLoop(); asyncio.set_event_loop(loop)
async def build():
    return mk(loop)
api, proto, w = loop.run_until_complete(build())
# --- C13: cancel while awaiting ACK leaves waiter
req = c.NcpConfig.GetZigbeeRole.Req(TSN=1)
t1 = loop.create_task(api.request(req)); loop.settle()
print("after issue: writes", len(w.log), "listeners", {k: len(v) for k,v in api._listeners.items()})
t1.cancel(); loop.settle()
print("after cancel awaiting ACK: t1", t1.cancelled(), "listeners", sum(len(v) for v in api._listeners.values()))
t2 = loop.create_task(api.request(c.NcpConfig.GetZigbeeRole.Req(TSN=2))); loop.settle()
proto.data_received(Frame.ack(0).serialize()); loop.settle()
rsp = c.NcpConfig.GetZigbeeRole.Rsp(TSN=2, StatusCat=t.StatusCategory(0), StatusCode=t.StatusCodeGeneric.OK, DeviceRole=t.DeviceRole(0))
proto.data_received(rsp_bytes(rsp)); loop.settle()
print("t2 done?", t2.done(), "listeners", sum(len(v) for v in api._listeners.values()))
loop.advance(6)
print("t2 after 6s:", t2.done(), (t2.exception() if t2.done() and not t2.cancelled() else None).__class__.__name__)
