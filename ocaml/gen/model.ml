
type nat =
| O
| S of nat



(** val add : nat -> nat -> nat **)

let rec add n0 m =
  match n0 with
  | O -> m
  | S p -> S (add p m)

type positive =
| XI of positive
| XO of positive
| XH

type n =
| N0
| Npos of positive

module Pos =
 struct
  (** val pred_double : positive -> positive **)

  let rec pred_double = function
  | XI p -> XI (XO p)
  | XO p -> XI (pred_double p)
  | XH -> XH

  (** val pred_N : positive -> n **)

  let pred_N = function
  | XI p -> Npos (XO p)
  | XO p -> Npos (pred_double p)
  | XH -> N0

  (** val iter : ('a1 -> 'a1) -> 'a1 -> positive -> 'a1 **)

  let rec iter f x = function
  | XI n' -> f (iter f (iter f x n') n')
  | XO n' -> iter f (iter f x n') n'
  | XH -> f x

  (** val coq_Nsucc_double : n -> n **)

  let coq_Nsucc_double = function
  | N0 -> Npos XH
  | Npos p -> Npos (XI p)

  (** val coq_Ndouble : n -> n **)

  let coq_Ndouble = function
  | N0 -> N0
  | Npos p -> Npos (XO p)

  (** val coq_land : positive -> positive -> n **)

  let rec coq_land p q =
    match p with
    | XI p0 ->
      (match q with
       | XI q0 -> coq_Nsucc_double (coq_land p0 q0)
       | XO q0 -> coq_Ndouble (coq_land p0 q0)
       | XH -> Npos XH)
    | XO p0 ->
      (match q with
       | XI q0 -> coq_Ndouble (coq_land p0 q0)
       | XO q0 -> coq_Ndouble (coq_land p0 q0)
       | XH -> N0)
    | XH -> (match q with
             | XO _ -> N0
             | _ -> Npos XH)

  (** val coq_lxor : positive -> positive -> n **)

  let rec coq_lxor p q =
    match p with
    | XI p0 ->
      (match q with
       | XI q0 -> coq_Ndouble (coq_lxor p0 q0)
       | XO q0 -> coq_Nsucc_double (coq_lxor p0 q0)
       | XH -> Npos (XO p0))
    | XO p0 ->
      (match q with
       | XI q0 -> coq_Nsucc_double (coq_lxor p0 q0)
       | XO q0 -> coq_Ndouble (coq_lxor p0 q0)
       | XH -> Npos (XI p0))
    | XH ->
      (match q with
       | XI q0 -> Npos (XO q0)
       | XO q0 -> Npos (XI q0)
       | XH -> N0)

  (** val testbit : positive -> n -> bool **)

  let rec testbit p n0 =
    match p with
    | XI p0 -> (match n0 with
                | N0 -> true
                | Npos n1 -> testbit p0 (pred_N n1))
    | XO p0 -> (match n0 with
                | N0 -> false
                | Npos n1 -> testbit p0 (pred_N n1))
    | XH -> (match n0 with
             | N0 -> true
             | Npos _ -> false)

  (** val iter_op : ('a1 -> 'a1 -> 'a1) -> positive -> 'a1 -> 'a1 **)

  let rec iter_op op p a =
    match p with
    | XI p0 -> op a (iter_op op p0 (op a a))
    | XO p0 -> iter_op op p0 (op a a)
    | XH -> a

  (** val to_nat : positive -> nat **)

  let to_nat x =
    iter_op add x (S O)
 end

module N =
 struct
  (** val div2 : n -> n **)

  let div2 = function
  | N0 -> N0
  | Npos p0 -> (match p0 with
                | XI p -> Npos p
                | XO p -> Npos p
                | XH -> N0)

  (** val coq_land : n -> n -> n **)

  let coq_land n0 m =
    match n0 with
    | N0 -> N0
    | Npos p -> (match m with
                 | N0 -> N0
                 | Npos q -> Pos.coq_land p q)

  (** val coq_lxor : n -> n -> n **)

  let coq_lxor n0 m =
    match n0 with
    | N0 -> m
    | Npos p -> (match m with
                 | N0 -> n0
                 | Npos q -> Pos.coq_lxor p q)

  (** val shiftr : n -> n -> n **)

  let shiftr a = function
  | N0 -> a
  | Npos p -> Pos.iter div2 a p

  (** val testbit : n -> n -> bool **)

  let testbit a n0 =
    match a with
    | N0 -> false
    | Npos p -> Pos.testbit p n0

  (** val to_nat : n -> nat **)

  let to_nat = function
  | N0 -> O
  | Npos p -> Pos.to_nat p
 end

(** val nth : nat -> 'a1 list -> 'a1 -> 'a1 **)

let rec nth n0 l default =
  match n0 with
  | O -> (match l with
          | [] -> default
          | x :: _ -> x)
  | S m -> (match l with
            | [] -> default
            | _ :: t -> nth m t default)

(** val fold_left : ('a1 -> 'a2 -> 'a1) -> 'a2 list -> 'a1 -> 'a1 **)

let rec fold_left f l a0 =
  match l with
  | [] -> a0
  | b :: t -> fold_left f t (f a0 b)

(** val iter0 : nat -> ('a1 -> 'a1) -> 'a1 -> 'a1 **)

let rec iter0 n0 f x =
  match n0 with
  | O -> x
  | S n1 -> iter0 n1 f (f x)

(** val round : n -> n -> n **)

let round p s =
  if N.testbit s N0
  then N.coq_lxor (N.shiftr s (Npos XH)) p
  else N.shiftr s (Npos XH)

(** val byte_step : n -> n -> n -> n **)

let byte_step p s b =
  iter0 (S (S (S (S (S (S (S (S O)))))))) (round p) (N.coq_lxor s b)

(** val crc_reg : n -> n list -> n -> n **)

let crc_reg p bytes s =
  fold_left (byte_step p) bytes s

(** val crc_spec : n -> n -> n -> n list -> n **)

let crc_spec p init xorout bytes =
  N.coq_lxor (crc_reg p bytes init) xorout

(** val poly8 : n **)

let poly8 =
  Npos (XO (XI (XO (XO (XI (XI (XO XH)))))))

(** val crc8_spec : n list -> n **)

let crc8_spec bytes =
  crc_spec poly8 (Npos (XI (XI (XI (XI (XI (XI (XI XH)))))))) (Npos (XI (XI
    (XI (XI (XI (XI (XI XH)))))))) bytes

(** val poly16 : n **)

let poly16 =
  Npos (XO (XO (XO (XI (XO (XO (XO (XO (XO (XO (XI (XO (XO (XO (XO
    XH)))))))))))))))

(** val crc16_spec : n list -> n **)

let crc16_spec bytes =
  crc_spec poly16 N0 N0 bytes

(** val crc8_table : n list **)

let crc8_table =
  (Npos (XO (XI (XO (XI (XO (XI (XI XH)))))))) :: ((Npos (XO (XO (XI (XO (XI
    (XO (XI XH)))))))) :: ((Npos (XO (XI (XI (XO (XI (XO (XO
    XH)))))))) :: ((Npos (XO (XO (XO (XI (XO (XI (XO XH)))))))) :: ((Npos (XO
    (XI (XO (XO XH))))) :: ((Npos (XO (XO (XI (XI (XO XH)))))) :: ((Npos (XO
    (XI (XI (XI (XO (XI XH))))))) :: ((Npos (XO (XO (XO (XO (XI (XO
    XH))))))) :: ((Npos (XI (XI (XI (XI (XI (XI XH))))))) :: ((Npos (XI (XO
    (XO (XO (XO (XO XH))))))) :: ((Npos (XI XH)) :: ((Npos (XI (XO (XI (XI
    (XI XH)))))) :: ((Npos (XI (XI (XI (XO (XO (XO (XO XH)))))))) :: ((Npos
    (XI (XO (XO (XI (XI (XI (XO XH)))))))) :: ((Npos (XI (XI (XO (XI (XI (XI
    (XI XH)))))))) :: ((Npos (XI (XO (XI (XO (XO (XO (XI XH)))))))) :: ((Npos
    (XI (XO (XI (XO (XO (XI (XO XH)))))))) :: ((Npos (XI (XI (XO (XI (XI (XO
    (XO XH)))))))) :: ((Npos (XI (XO (XO (XI (XI (XO (XI XH)))))))) :: ((Npos
    (XI (XI (XI (XO (XO (XI (XI XH)))))))) :: ((Npos (XI (XO (XI (XI (XI (XO
    XH))))))) :: ((Npos (XI (XI (XO (XO (XO (XI XH))))))) :: ((Npos (XI (XO
    (XO (XO (XO XH)))))) :: ((Npos (XI (XI (XI (XI XH))))) :: ((Npos (XO (XO
    (XO (XO (XI XH)))))) :: ((Npos (XO (XI (XI XH)))) :: ((Npos (XO (XO (XI
    (XI (XO (XO XH))))))) :: ((Npos (XO (XI (XO (XO (XI (XI
    XH))))))) :: ((Npos (XO (XO (XO (XI (XO (XO (XI XH)))))))) :: ((Npos (XO
    (XI (XI (XO (XI (XI (XI XH)))))))) :: ((Npos (XO (XO (XI (XO (XI (XI (XO
    XH)))))))) :: ((Npos (XO (XI (XO (XI (XO (XO (XO XH)))))))) :: ((Npos (XO
    (XO (XI (XO (XI (XI XH))))))) :: ((Npos (XO (XI (XO (XI (XO (XO
    XH))))))) :: ((Npos (XO (XO (XO XH)))) :: ((Npos (XO (XI (XI (XO (XI
    XH)))))) :: ((Npos (XO (XO (XI (XI (XO (XO (XO XH)))))))) :: ((Npos (XO
    (XI (XO (XO (XI (XI (XO XH)))))))) :: ((Npos (XO (XO (XO (XO (XI (XI (XI
    XH)))))))) :: ((Npos (XO (XI (XI (XI (XO (XO (XI XH)))))))) :: ((Npos (XI
    (XO (XO (XO (XO (XI (XI XH)))))))) :: ((Npos (XI (XI (XI (XI (XI (XO (XI
    XH)))))))) :: ((Npos (XI (XO (XI (XI (XI (XO (XO XH)))))))) :: ((Npos (XI
    (XI (XO (XO (XO (XI (XO XH)))))))) :: ((Npos (XI (XO (XO (XI
    XH))))) :: ((Npos (XI (XI (XI (XO (XO XH)))))) :: ((Npos (XI (XO (XI (XO
    (XO (XI XH))))))) :: ((Npos (XI (XI (XO (XI (XI (XO XH))))))) :: ((Npos
    (XI (XI (XO (XI (XI XH)))))) :: ((Npos (XI (XO XH))) :: ((Npos (XI (XI
    (XI (XO (XO (XO XH))))))) :: ((Npos (XI (XO (XO (XI (XI (XI
    XH))))))) :: ((Npos (XI (XI (XO (XO (XO (XO (XI XH)))))))) :: ((Npos (XI
    (XO (XI (XI (XI (XI (XI XH)))))))) :: ((Npos (XI (XI (XI (XI (XI (XI (XO
    XH)))))))) :: ((Npos (XI (XO (XO (XO (XO (XO (XO XH)))))))) :: ((Npos (XO
    (XI (XI (XI (XO (XI (XO XH)))))))) :: ((Npos (XO (XO (XO (XO (XI (XO (XO
    XH)))))))) :: ((Npos (XO (XI (XO (XO (XI (XO (XI XH)))))))) :: ((Npos (XO
    (XO (XI (XI (XO (XI (XI XH)))))))) :: ((Npos (XO (XI (XI (XO (XI (XO
    XH))))))) :: ((Npos (XO (XO (XO (XI (XO (XI XH))))))) :: ((Npos (XO (XI
    (XO (XI (XO XH)))))) :: ((Npos (XO (XO (XI (XO XH))))) :: ((Npos (XI (XI
    (XO (XO (XI (XI (XO XH)))))))) :: ((Npos (XI (XO (XI (XI (XO (XO (XO
    XH)))))))) :: ((Npos (XI (XI (XI (XI (XO (XO (XI XH)))))))) :: ((Npos (XI
    (XO (XO (XO (XI (XI (XI XH)))))))) :: ((Npos (XI (XI (XO (XI (XO (XO
    XH))))))) :: ((Npos (XI (XO (XI (XO (XI (XI XH))))))) :: ((Npos (XI (XI
    (XI (XO (XI XH)))))) :: ((Npos (XI (XO (XO XH)))) :: ((Npos (XO (XI (XI
    (XO (XO XH)))))) :: ((Npos (XO (XO (XO (XI XH))))) :: ((Npos (XO (XI (XO
    (XI (XI (XO XH))))))) :: ((Npos (XO (XO (XI (XO (XO (XI
    XH))))))) :: ((Npos (XO (XI (XI (XI (XI (XO (XI XH)))))))) :: ((Npos (XO
    (XO (XO (XO (XO (XI (XI XH)))))))) :: ((Npos (XO (XI (XO (XO (XO (XI (XO
    XH)))))))) :: ((Npos (XO (XO (XI (XI (XI (XO (XO XH)))))))) :: ((Npos (XO
    (XO (XI (XI (XI (XI (XI XH)))))))) :: ((Npos (XO (XI (XO (XO (XO (XO (XI
    XH)))))))) :: ((Npos (XO (XO (XO (XO (XO (XO (XO XH)))))))) :: ((Npos (XO
    (XI (XI (XI (XI (XI (XO XH)))))))) :: ((Npos (XO (XO XH))) :: ((Npos (XO
    (XI (XO (XI (XI XH)))))) :: ((Npos (XO (XO (XO (XI (XI (XI
    XH))))))) :: ((Npos (XO (XI (XI (XO (XO (XO XH))))))) :: ((Npos (XI (XO
    (XO (XI (XO (XI XH))))))) :: ((Npos (XI (XI (XI (XO (XI (XO
    XH))))))) :: ((Npos (XI (XO (XI (XO XH))))) :: ((Npos (XI (XI (XO (XI (XO
    XH)))))) :: ((Npos (XI (XO (XO (XO (XI (XO (XO XH)))))))) :: ((Npos (XI
    (XI (XI (XI (XO (XI (XO XH)))))))) :: ((Npos (XI (XO (XI (XI (XO (XI (XI
    XH)))))))) :: ((Npos (XI (XI (XO (XO (XI (XO (XI XH)))))))) :: ((Npos (XI
    (XO (XI (XI (XO XH)))))) :: ((Npos (XI (XI (XO (XO XH))))) :: ((Npos (XI
    (XO (XO (XO (XI (XO XH))))))) :: ((Npos (XI (XI (XI (XI (XO (XI
    XH))))))) :: ((Npos (XI (XO (XI (XO (XI (XO (XI XH)))))))) :: ((Npos (XI
    (XI (XO (XI (XO (XI (XI XH)))))))) :: ((Npos (XI (XO (XO (XI (XO (XI (XO
    XH)))))))) :: ((Npos (XI (XI (XI (XO (XI (XO (XO XH)))))))) :: ((Npos (XO
    (XO (XO (XI (XI (XI (XO XH)))))))) :: ((Npos (XO (XI (XI (XO (XO (XO (XO
    XH)))))))) :: ((Npos (XO (XO (XI (XO (XO (XO (XI XH)))))))) :: ((Npos (XO
    (XI (XO (XI (XI (XI (XI XH)))))))) :: ((Npos (XO (XO (XO (XO (XO (XO
    XH))))))) :: ((Npos (XO (XI (XI (XI (XI (XI XH))))))) :: ((Npos (XO (XO
    (XI (XI (XI XH)))))) :: ((Npos (XO XH)) :: ((Npos (XO (XI (XO (XO (XO (XI
    XH))))))) :: ((Npos (XO (XO (XI (XI (XI (XO XH))))))) :: ((Npos (XO (XI
    (XI (XI XH))))) :: ((Npos (XO (XO (XO (XO (XO XH)))))) :: ((Npos (XO (XI
    (XO (XI (XI (XO (XO XH)))))))) :: ((Npos (XO (XO (XI (XO (XO (XI (XO
    XH)))))))) :: ((Npos (XO (XI (XI (XO (XO (XI (XI XH)))))))) :: ((Npos (XO
    (XO (XO (XI (XI (XO (XI XH)))))))) :: ((Npos (XI (XI (XI (XO (XI (XI (XI
    XH)))))))) :: ((Npos (XI (XO (XO (XI (XO (XO (XI XH)))))))) :: ((Npos (XI
    (XI (XO (XI (XO (XO (XO XH)))))))) :: ((Npos (XI (XO (XI (XO (XI (XI (XO
    XH)))))))) :: ((Npos (XI (XI (XI XH)))) :: ((Npos (XI (XO (XO (XO (XI
    XH)))))) :: ((Npos (XI (XI (XO (XO (XI (XI XH))))))) :: ((Npos (XI (XO
    (XI (XI (XO (XO XH))))))) :: ((Npos (XO (XO (XO (XI (XI (XO
    XH))))))) :: ((Npos (XO (XI (XI (XO (XO (XI XH))))))) :: ((Npos (XO (XO
    (XI (XO (XO XH)))))) :: ((Npos (XO (XI (XO (XI XH))))) :: ((Npos (XO (XO
    (XO (XO (XO (XI (XO XH)))))))) :: ((Npos (XO (XI (XI (XI (XI (XO (XO
    XH)))))))) :: ((Npos (XO (XO (XI (XI (XI (XO (XI XH)))))))) :: ((Npos (XO
    (XI (XO (XO (XO (XI (XI XH)))))))) :: ((Npos (XI (XO (XI (XI (XO (XO (XI
    XH)))))))) :: ((Npos (XI (XI (XO (XO (XI (XI (XI XH)))))))) :: ((Npos (XI
    (XO (XO (XO (XI (XI (XO XH)))))))) :: ((Npos (XI (XI (XI (XI (XO (XO (XO
    XH)))))))) :: ((Npos (XI (XO (XI (XO (XI XH)))))) :: ((Npos (XI (XI (XO
    XH)))) :: ((Npos (XI (XO (XO (XI (XO (XO XH))))))) :: ((Npos (XI (XI (XI
    (XO (XI (XI XH))))))) :: ((Npos (XI (XI (XI (XO XH))))) :: ((Npos (XI (XO
    (XO (XI (XO XH)))))) :: ((Npos (XI (XI (XO (XI (XO (XI
    XH))))))) :: ((Npos (XI (XO (XI (XO (XI (XO XH))))))) :: ((Npos (XI (XI
    (XI (XI (XO (XI (XI XH)))))))) :: ((Npos (XI (XO (XO (XO (XI (XO (XI
    XH)))))))) :: ((Npos (XI (XI (XO (XO (XI (XO (XO XH)))))))) :: ((Npos (XI
    (XO (XI (XI (XO (XI (XO XH)))))))) :: ((Npos (XO (XI (XO (XO (XO (XO (XO
    XH)))))))) :: ((Npos (XO (XO (XI (XI (XI (XI (XO XH)))))))) :: ((Npos (XO
    (XI (XI (XI (XI (XI (XI XH)))))))) :: ((Npos (XO (XO (XO (XO (XO (XO (XI
    XH)))))))) :: ((Npos (XO (XI (XO (XI (XI (XI XH))))))) :: ((Npos (XO (XO
    (XI (XO (XO (XO XH))))))) :: ((Npos (XO (XI XH))) :: ((Npos (XO (XO (XO
    (XI (XI XH)))))) :: ((Npos (XO (XI (XI (XO (XO (XO (XI
    XH)))))))) :: ((Npos (XO (XO (XO (XI (XI (XI (XI XH)))))))) :: ((Npos (XO
    (XI (XO (XI (XI (XI (XO XH)))))))) :: ((Npos (XO (XO (XI (XO (XO (XO (XO
    XH)))))))) :: ((Npos (XO (XI (XI (XI (XI XH)))))) :: (N0 :: ((Npos (XO
    (XI (XO (XO (XO (XO XH))))))) :: ((Npos (XO (XO (XI (XI (XI (XI
    XH))))))) :: ((Npos (XI (XI (XO (XO (XI (XO XH))))))) :: ((Npos (XI (XO
    (XI (XI (XO (XI XH))))))) :: ((Npos (XI (XI (XI (XI (XO
    XH)))))) :: ((Npos (XI (XO (XO (XO XH))))) :: ((Npos (XI (XI (XO (XI (XO
    (XI (XO XH)))))))) :: ((Npos (XI (XO (XI (XO (XI (XO (XO
    XH)))))))) :: ((Npos (XI (XI (XI (XO (XI (XO (XI XH)))))))) :: ((Npos (XI
    (XO (XO (XI (XO (XI (XI XH)))))))) :: ((Npos (XI (XO (XO (XI (XO (XO (XO
    XH)))))))) :: ((Npos (XI (XI (XI (XO (XI (XI (XO XH)))))))) :: ((Npos (XI
    (XO (XI (XO (XI (XI (XI XH)))))))) :: ((Npos (XI (XI (XO (XI (XO (XO (XI
    XH)))))))) :: ((Npos (XI (XO (XO (XO (XI (XI XH))))))) :: ((Npos (XI (XI
    (XI (XI (XO (XO XH))))))) :: ((Npos (XI (XO (XI XH)))) :: ((Npos (XI (XI
    (XO (XO (XI XH)))))) :: ((Npos (XO (XO (XI (XI XH))))) :: ((Npos (XO (XI
    (XO (XO (XO XH)))))) :: ((Npos (XO (XO (XO (XO (XO (XI
    XH))))))) :: ((Npos (XO (XI (XI (XI (XI (XO XH))))))) :: ((Npos (XO (XO
    (XI (XO (XO (XI (XI XH)))))))) :: ((Npos (XO (XI (XO (XI (XI (XO (XI
    XH)))))))) :: ((Npos (XO (XO (XO (XI (XI (XO (XO XH)))))))) :: ((Npos (XO
    (XI (XI (XO (XO (XI (XO XH)))))))) :: ((Npos XH) :: ((Npos (XI (XI (XI
    (XI (XI XH)))))) :: ((Npos (XI (XO (XI (XI (XI (XI XH))))))) :: ((Npos
    (XI (XI (XO (XO (XO (XO XH))))))) :: ((Npos (XI (XO (XO (XI (XI (XI (XI
    XH)))))))) :: ((Npos (XI (XI (XI (XO (XO (XO (XI XH)))))))) :: ((Npos (XI
    (XO (XI (XO (XO (XO (XO XH)))))))) :: ((Npos (XI (XI (XO (XI (XI (XI (XO
    XH)))))))) :: ((Npos (XO (XO (XI (XO (XI (XO (XO XH)))))))) :: ((Npos (XO
    (XI (XO (XI (XO (XI (XO XH)))))))) :: ((Npos (XO (XO (XO (XI (XO (XI (XI
    XH)))))))) :: ((Npos (XO (XI (XI (XO (XI (XO (XI XH)))))))) :: ((Npos (XO
    (XO (XI (XI (XO (XI XH))))))) :: ((Npos (XO (XI (XO (XO (XI (XO
    XH))))))) :: ((Npos (XO (XO (XO (XO XH))))) :: ((Npos (XO (XI (XI (XI (XO
    XH)))))) :: ((Npos (XO (XI (XI (XI (XO (XO XH))))))) :: ((Npos (XO (XO
    (XO (XO (XI (XI XH))))))) :: ((Npos (XO (XI (XO (XO (XI
    XH)))))) :: ((Npos (XO (XO (XI XH)))) :: ((Npos (XO (XI (XI (XO (XI (XI
    (XO XH)))))))) :: ((Npos (XO (XO (XO (XI (XO (XO (XO XH)))))))) :: ((Npos
    (XO (XI (XO (XI (XO (XO (XI XH)))))))) :: ((Npos (XO (XO (XI (XO (XI (XI
    (XI XH)))))))) :: ((Npos (XI (XI (XO (XI (XI (XO (XI XH)))))))) :: ((Npos
    (XI (XO (XI (XO (XO (XI (XI XH)))))))) :: ((Npos (XI (XI (XI (XO (XO (XI
    (XO XH)))))))) :: ((Npos (XI (XO (XO (XI (XI (XO (XO XH)))))))) :: ((Npos
    (XI (XI (XO (XO (XO XH)))))) :: ((Npos (XI (XO (XI (XI XH))))) :: ((Npos
    (XI (XI (XI (XI (XI (XO XH))))))) :: ((Npos (XI (XO (XO (XO (XO (XI
    XH))))))) :: ((Npos (XI (XI (XI (XI (XI (XO (XO XH)))))))) :: ((Npos (XI
    (XO (XO (XO (XO (XI (XO XH)))))))) :: ((Npos (XI (XI (XO (XO (XO (XI (XI
    XH)))))))) :: ((Npos (XI (XO (XI (XI (XI (XO (XI XH)))))))) :: ((Npos (XI
    (XI (XI (XO (XO (XI XH))))))) :: ((Npos (XI (XO (XO (XI (XI (XO
    XH))))))) :: ((Npos (XI (XI (XO (XI XH))))) :: ((Npos (XI (XO (XI (XO (XO
    XH)))))) :: ((Npos (XO (XI (XO XH)))) :: ((Npos (XO (XO (XI (XO (XI
    XH)))))) :: ((Npos (XO (XI (XI (XO (XI (XI XH))))))) :: ((Npos (XO (XO
    (XO (XI (XO (XO XH))))))) :: ((Npos (XO (XI (XO (XO (XI (XI (XI
    XH)))))))) :: ((Npos (XO (XO (XI (XI (XO (XO (XI XH)))))))) :: ((Npos (XO
    (XI (XI (XI (XO (XO (XO XH)))))))) :: ((Npos (XO (XO (XO (XO (XI (XI (XO
    XH)))))))) :: ((Npos (XO (XO (XO (XO (XI (XO (XI XH)))))))) :: ((Npos (XO
    (XI (XI (XI (XO (XI (XI XH)))))))) :: ((Npos (XO (XO (XI (XI (XO (XI (XO
    XH)))))))) :: ((Npos (XO (XI (XO (XO (XI (XO (XO XH)))))))) :: ((Npos (XO
    (XO (XO (XI (XO XH)))))) :: ((Npos (XO (XI (XI (XO XH))))) :: ((Npos (XO
    (XO (XI (XO (XI (XO XH))))))) :: ((Npos (XO (XI (XO (XI (XO (XI
    XH))))))) :: ((Npos (XI (XO (XI (XO (XO (XO XH))))))) :: ((Npos (XI (XI
    (XO (XI (XI (XI XH))))))) :: ((Npos (XI (XO (XO (XI (XI
    XH)))))) :: ((Npos (XI (XI XH))) :: ((Npos (XI (XO (XI (XI (XI (XI (XO
    XH)))))))) :: ((Npos (XI (XI (XO (XO (XO (XO (XO XH)))))))) :: ((Npos (XI
    (XO (XO (XO (XO (XO (XI XH)))))))) :: ((Npos (XI (XI (XI (XI (XI (XI (XI
    XH)))))))) :: [])))))))))))))))))))))))))))))))))))))))))))))))))))))))))))))))))))))))))))))))))))))))))))))))))))))))))))))))))))))))))))))))))))))))))))))))))))))))))))))))))))))))))))))))))))))))))))))))))))))))))))))))))))))))))))))))))))))))))))))))))))))))))))))))

(** val crc16_table : n list **)

let crc16_table =
  N0 :: ((Npos (XI (XO (XO (XI (XO (XO (XO (XI (XI (XO (XO (XO
    XH))))))))))))) :: ((Npos (XO (XI (XO (XO (XI (XO (XO (XO (XI (XI (XO (XO
    (XO XH)))))))))))))) :: ((Npos (XI (XI (XO (XI (XI (XO (XO (XI (XO (XI
    (XO (XO (XI XH)))))))))))))) :: ((Npos (XO (XO (XI (XO (XO (XI (XO (XO
    (XO (XI (XI (XO (XO (XO XH))))))))))))))) :: ((Npos (XI (XO (XI (XI (XO
    (XI (XO (XI (XI (XI (XI (XO (XI (XO XH))))))))))))))) :: ((Npos (XO (XI
    (XI (XO (XI (XI (XO (XO (XI (XO (XI (XO (XO (XI
    XH))))))))))))))) :: ((Npos (XI (XI (XI (XI (XI (XI (XO (XI (XO (XO (XI
    (XO (XI (XI XH))))))))))))))) :: ((Npos (XO (XO (XO (XI (XO (XO (XI (XO
    (XO (XO (XI (XI (XO (XO (XO XH)))))))))))))))) :: ((Npos (XI (XO (XO (XO
    (XO (XO (XI (XI (XI (XO (XI (XI (XI (XO (XO XH)))))))))))))))) :: ((Npos
    (XO (XI (XO (XI (XI (XO (XI (XO (XI (XI (XI (XI (XO (XI (XO
    XH)))))))))))))))) :: ((Npos (XI (XI (XO (XO (XI (XO (XI (XI (XO (XI (XI
    (XI (XI (XI (XO XH)))))))))))))))) :: ((Npos (XO (XO (XI (XI (XO (XI (XI
    (XO (XO (XI (XO (XI (XO (XO (XI XH)))))))))))))))) :: ((Npos (XI (XO (XI
    (XO (XO (XI (XI (XI (XI (XI (XO (XI (XI (XO (XI
    XH)))))))))))))))) :: ((Npos (XO (XI (XI (XI (XI (XI (XI (XO (XI (XO (XO
    (XI (XO (XI (XI XH)))))))))))))))) :: ((Npos (XI (XI (XI (XO (XI (XI (XI
    (XI (XO (XO (XO (XI (XI (XI (XI XH)))))))))))))))) :: ((Npos (XI (XO (XO
    (XO (XO (XO (XO (XI (XO (XO (XO (XO XH))))))))))))) :: ((Npos (XO (XO (XO
    (XI (XO (XO (XO (XO XH))))))))) :: ((Npos (XI (XI (XO (XO (XI (XO (XO (XI
    (XI (XI (XO (XO (XI XH)))))))))))))) :: ((Npos (XO (XI (XO (XI (XI (XO
    (XO (XO (XO (XI (XO (XO (XO XH)))))))))))))) :: ((Npos (XI (XO (XI (XO
    (XO (XI (XO (XI (XO (XI (XI (XO (XI (XO XH))))))))))))))) :: ((Npos (XO
    (XO (XI (XI (XO (XI (XO (XO (XI (XI (XI (XO (XO (XO
    XH))))))))))))))) :: ((Npos (XI (XI (XI (XO (XI (XI (XO (XI (XI (XO (XI
    (XO (XI (XI XH))))))))))))))) :: ((Npos (XO (XI (XI (XI (XI (XI (XO (XO
    (XO (XO (XI (XO (XO (XI XH))))))))))))))) :: ((Npos (XI (XO (XO (XI (XO
    (XO (XI (XI (XO (XO (XI (XI (XI (XO (XO XH)))))))))))))))) :: ((Npos (XO
    (XO (XO (XO (XO (XO (XI (XO (XI (XO (XI (XI (XO (XO (XO
    XH)))))))))))))))) :: ((Npos (XI (XI (XO (XI (XI (XO (XI (XI (XI (XI (XI
    (XI (XI (XI (XO XH)))))))))))))))) :: ((Npos (XO (XI (XO (XO (XI (XO (XI
    (XO (XO (XI (XI (XI (XO (XI (XO XH)))))))))))))))) :: ((Npos (XI (XO (XI
    (XI (XO (XI (XI (XI (XO (XI (XO (XI (XI (XO (XI
    XH)))))))))))))))) :: ((Npos (XO (XO (XI (XO (XO (XI (XI (XO (XI (XI (XO
    (XI (XO (XO (XI XH)))))))))))))))) :: ((Npos (XI (XI (XI (XI (XI (XI (XI
    (XI (XI (XO (XO (XI (XI (XI (XI XH)))))))))))))))) :: ((Npos (XO (XI (XI
    (XO (XI (XI (XI (XO (XO (XO (XO (XI (XO (XI (XI
    XH)))))))))))))))) :: ((Npos (XO (XI (XO (XO (XO (XO (XO (XO (XI (XO (XO
    (XO (XO XH)))))))))))))) :: ((Npos (XI (XI (XO (XI (XO (XO (XO (XI (XO
    (XO (XO (XO (XI XH)))))))))))))) :: ((Npos (XO (XO (XO (XO (XI (XO (XO
    (XO (XO XH)))))))))) :: ((Npos (XI (XO (XO (XI (XI (XO (XO (XI (XI (XI
    (XO (XO XH))))))))))))) :: ((Npos (XO (XI (XI (XO (XO (XI (XO (XO (XI (XI
    (XI (XO (XO (XI XH))))))))))))))) :: ((Npos (XI (XI (XI (XI (XO (XI (XO
    (XI (XO (XI (XI (XO (XI (XI XH))))))))))))))) :: ((Npos (XO (XO (XI (XO
    (XI (XI (XO (XO (XO (XO (XI (XO (XO (XO XH))))))))))))))) :: ((Npos (XI
    (XO (XI (XI (XI (XI (XO (XI (XI (XO (XI (XO (XI (XO
    XH))))))))))))))) :: ((Npos (XO (XI (XO (XI (XO (XO (XI (XO (XI (XO (XI
    (XI (XO (XI (XO XH)))))))))))))))) :: ((Npos (XI (XI (XO (XO (XO (XO (XI
    (XI (XO (XO (XI (XI (XI (XI (XO XH)))))))))))))))) :: ((Npos (XO (XO (XO
    (XI (XI (XO (XI (XO (XO (XI (XI (XI (XO (XO (XO
    XH)))))))))))))))) :: ((Npos (XI (XO (XO (XO (XI (XO (XI (XI (XI (XI (XI
    (XI (XI (XO (XO XH)))))))))))))))) :: ((Npos (XO (XI (XI (XI (XO (XI (XI
    (XO (XI (XI (XO (XI (XO (XI (XI XH)))))))))))))))) :: ((Npos (XI (XI (XI
    (XO (XO (XI (XI (XI (XO (XI (XO (XI (XI (XI (XI
    XH)))))))))))))))) :: ((Npos (XO (XO (XI (XI (XI (XI (XI (XO (XO (XO (XO
    (XI (XO (XO (XI XH)))))))))))))))) :: ((Npos (XI (XO (XI (XO (XI (XI (XI
    (XI (XI (XO (XO (XI (XI (XO (XI XH)))))))))))))))) :: ((Npos (XI (XI (XO
    (XO (XO (XO (XO (XI (XI (XO (XO (XO (XI XH)))))))))))))) :: ((Npos (XO
    (XI (XO (XI (XO (XO (XO (XO (XO (XO (XO (XO (XO
    XH)))))))))))))) :: ((Npos (XI (XO (XO (XO (XI (XO (XO (XI (XO (XI (XO
    (XO XH))))))))))))) :: ((Npos (XO (XO (XO (XI (XI (XO (XO (XO (XI
    XH)))))))))) :: ((Npos (XI (XI (XI (XO (XO (XI (XO (XI (XI (XI (XI (XO
    (XI (XI XH))))))))))))))) :: ((Npos (XO (XI (XI (XI (XO (XI (XO (XO (XO
    (XI (XI (XO (XO (XI XH))))))))))))))) :: ((Npos (XI (XO (XI (XO (XI (XI
    (XO (XI (XO (XO (XI (XO (XI (XO XH))))))))))))))) :: ((Npos (XO (XO (XI
    (XI (XI (XI (XO (XO (XI (XO (XI (XO (XO (XO XH))))))))))))))) :: ((Npos
    (XI (XI (XO (XI (XO (XO (XI (XI (XI (XO (XI (XI (XI (XI (XO
    XH)))))))))))))))) :: ((Npos (XO (XI (XO (XO (XO (XO (XI (XO (XO (XO (XI
    (XI (XO (XI (XO XH)))))))))))))))) :: ((Npos (XI (XO (XO (XI (XI (XO (XI
    (XI (XO (XI (XI (XI (XI (XO (XO XH)))))))))))))))) :: ((Npos (XO (XO (XO
    (XO (XI (XO (XI (XO (XI (XI (XI (XI (XO (XO (XO
    XH)))))))))))))))) :: ((Npos (XI (XI (XI (XI (XO (XI (XI (XI (XI (XI (XO
    (XI (XI (XI (XI XH)))))))))))))))) :: ((Npos (XO (XI (XI (XO (XO (XI (XI
    (XO (XO (XI (XO (XI (XO (XI (XI XH)))))))))))))))) :: ((Npos (XI (XO (XI
    (XI (XI (XI (XI (XI (XO (XO (XO (XI (XI (XO (XI
    XH)))))))))))))))) :: ((Npos (XO (XO (XI (XO (XI (XI (XI (XO (XI (XO (XO
    (XI (XO (XO (XI XH)))))))))))))))) :: ((Npos (XO (XO (XI (XO (XO (XO (XO
    (XO (XO (XI (XO (XO (XO (XO XH))))))))))))))) :: ((Npos (XI (XO (XI (XI
    (XO (XO (XO (XI (XI (XI (XO (XO (XI (XO XH))))))))))))))) :: ((Npos (XO
    (XI (XI (XO (XI (XO (XO (XO (XI (XO (XO (XO (XO (XI
    XH))))))))))))))) :: ((Npos (XI (XI (XI (XI (XI (XO (XO (XI (XO (XO (XO
    (XO (XI (XI XH))))))))))))))) :: ((Npos (XO (XO (XO (XO (XO (XI (XO (XO
    (XO (XO XH))))))))))) :: ((Npos (XI (XO (XO (XI (XO (XI (XO (XI (XI (XO
    (XI (XO XH))))))))))))) :: ((Npos (XO (XI (XO (XO (XI (XI (XO (XO (XI (XI
    (XI (XO (XO XH)))))))))))))) :: ((Npos (XI (XI (XO (XI (XI (XI (XO (XI
    (XO (XI (XI (XO (XI XH)))))))))))))) :: ((Npos (XO (XO (XI (XI (XO (XO
    (XI (XO (XO (XI (XI (XI (XO (XO (XI XH)))))))))))))))) :: ((Npos (XI (XO
    (XI (XO (XO (XO (XI (XI (XI (XI (XI (XI (XI (XO (XI
    XH)))))))))))))))) :: ((Npos (XO (XI (XI (XI (XI (XO (XI (XO (XI (XO (XI
    (XI (XO (XI (XI XH)))))))))))))))) :: ((Npos (XI (XI (XI (XO (XI (XO (XI
    (XI (XO (XO (XI (XI (XI (XI (XI XH)))))))))))))))) :: ((Npos (XO (XO (XO
    (XI (XO (XI (XI (XO (XO (XO (XO (XI (XO (XO (XO
    XH)))))))))))))))) :: ((Npos (XI (XO (XO (XO (XO (XI (XI (XI (XI (XO (XO
    (XI (XI (XO (XO XH)))))))))))))))) :: ((Npos (XO (XI (XO (XI (XI (XI (XI
    (XO (XI (XI (XO (XI (XO (XI (XO XH)))))))))))))))) :: ((Npos (XI (XI (XO
    (XO (XI (XI (XI (XI (XO (XI (XO (XI (XI (XI (XO
    XH)))))))))))))))) :: ((Npos (XI (XO (XI (XO (XO (XO (XO (XI (XO (XI (XO
    (XO (XI (XO XH))))))))))))))) :: ((Npos (XO (XO (XI (XI (XO (XO (XO (XO
    (XI (XI (XO (XO (XO (XO XH))))))))))))))) :: ((Npos (XI (XI (XI (XO (XI
    (XO (XO (XI (XI (XO (XO (XO (XI (XI XH))))))))))))))) :: ((Npos (XO (XI
    (XI (XI (XI (XO (XO (XO (XO (XO (XO (XO (XO (XI
    XH))))))))))))))) :: ((Npos (XI (XO (XO (XO (XO (XI (XO (XI (XO (XO (XI
    (XO XH))))))))))))) :: ((Npos (XO (XO (XO (XI (XO (XI (XO (XO (XI (XO
    XH))))))))))) :: ((Npos (XI (XI (XO (XO (XI (XI (XO (XI (XI (XI (XI (XO
    (XI XH)))))))))))))) :: ((Npos (XO (XI (XO (XI (XI (XI (XO (XO (XO (XI
    (XI (XO (XO XH)))))))))))))) :: ((Npos (XI (XO (XI (XI (XO (XO (XI (XI
    (XO (XI (XI (XI (XI (XO (XI XH)))))))))))))))) :: ((Npos (XO (XO (XI (XO
    (XO (XO (XI (XO (XI (XI (XI (XI (XO (XO (XI XH)))))))))))))))) :: ((Npos
    (XI (XI (XI (XI (XI (XO (XI (XI (XI (XO (XI (XI (XI (XI (XI
    XH)))))))))))))))) :: ((Npos (XO (XI (XI (XO (XI (XO (XI (XO (XO (XO (XI
    (XI (XO (XI (XI XH)))))))))))))))) :: ((Npos (XI (XO (XO (XI (XO (XI (XI
    (XI (XO (XO (XO (XI (XI (XO (XO XH)))))))))))))))) :: ((Npos (XO (XO (XO
    (XO (XO (XI (XI (XO (XI (XO (XO (XI (XO (XO (XO
    XH)))))))))))))))) :: ((Npos (XI (XI (XO (XI (XI (XI (XI (XI (XI (XI (XO
    (XI (XI (XI (XO XH)))))))))))))))) :: ((Npos (XO (XI (XO (XO (XI (XI (XI
    (XO (XO (XI (XO (XI (XO (XI (XO XH)))))))))))))))) :: ((Npos (XO (XI (XI
    (XO (XO (XO (XO (XO (XI (XI (XO (XO (XO (XI XH))))))))))))))) :: ((Npos
    (XI (XI (XI (XI (XO (XO (XO (XI (XO (XI (XO (XO (XI (XI
    XH))))))))))))))) :: ((Npos (XO (XO (XI (XO (XI (XO (XO (XO (XO (XO (XO
    (XO (XO (XO XH))))))))))))))) :: ((Npos (XI (XO (XI (XI (XI (XO (XO (XI
    (XI (XO (XO (XO (XI (XO XH))))))))))))))) :: ((Npos (XO (XI (XO (XO (XO
    (XI (XO (XO (XI (XO (XI (XO (XO XH)))))))))))))) :: ((Npos (XI (XI (XO
    (XI (XO (XI (XO (XI (XO (XO (XI (XO (XI XH)))))))))))))) :: ((Npos (XO
    (XO (XO (XO (XI (XI (XO (XO (XO (XI XH))))))))))) :: ((Npos (XI (XO (XO
    (XI (XI (XI (XO (XI (XI (XI (XI (XO XH))))))))))))) :: ((Npos (XO (XI (XI
    (XI (XO (XO (XI (XO (XI (XI (XI (XI (XO (XI (XI
    XH)))))))))))))))) :: ((Npos (XI (XI (XI (XO (XO (XO (XI (XI (XO (XI (XI
    (XI (XI (XI (XI XH)))))))))))))))) :: ((Npos (XO (XO (XI (XI (XI (XO (XI
    (XO (XO (XO (XI (XI (XO (XO (XI XH)))))))))))))))) :: ((Npos (XI (XO (XI
    (XO (XI (XO (XI (XI (XI (XO (XI (XI (XI (XO (XI
    XH)))))))))))))))) :: ((Npos (XO (XI (XO (XI (XO (XI (XI (XO (XI (XO (XO
    (XI (XO (XI (XO XH)))))))))))))))) :: ((Npos (XI (XI (XO (XO (XO (XI (XI
    (XI (XO (XO (XO (XI (XI (XI (XO XH)))))))))))))))) :: ((Npos (XO (XO (XO
    (XI (XI (XI (XI (XO (XO (XI (XO (XI (XO (XO (XO
    XH)))))))))))))))) :: ((Npos (XI (XO (XO (XO (XI (XI (XI (XI (XI (XI (XO
    (XI (XI (XO (XO XH)))))))))))))))) :: ((Npos (XI (XI (XI (XO (XO (XO (XO
    (XI (XI (XI (XO (XO (XI (XI XH))))))))))))))) :: ((Npos (XO (XI (XI (XI
    (XO (XO (XO (XO (XO (XI (XO (XO (XO (XI XH))))))))))))))) :: ((Npos (XI
    (XO (XI (XO (XI (XO (XO (XI (XO (XO (XO (XO (XI (XO
    XH))))))))))))))) :: ((Npos (XO (XO (XI (XI (XI (XO (XO (XO (XI (XO (XO
    (XO (XO (XO XH))))))))))))))) :: ((Npos (XI (XI (XO (XO (XO (XI (XO (XI
    (XI (XO (XI (XO (XI XH)))))))))))))) :: ((Npos (XO (XI (XO (XI (XO (XI
    (XO (XO (XO (XO (XI (XO (XO XH)))))))))))))) :: ((Npos (XI (XO (XO (XO
    (XI (XI (XO (XI (XO (XI (XI (XO XH))))))))))))) :: ((Npos (XO (XO (XO (XI
    (XI (XI (XO (XO (XI (XI XH))))))))))) :: ((Npos (XI (XI (XI (XI (XO (XO
    (XI (XI (XI (XI (XI (XI (XI (XI (XI XH)))))))))))))))) :: ((Npos (XO (XI
    (XI (XO (XO (XO (XI (XO (XO (XI (XI (XI (XO (XI (XI
    XH)))))))))))))))) :: ((Npos (XI (XO (XI (XI (XI (XO (XI (XI (XO (XO (XI
    (XI (XI (XO (XI XH)))))))))))))))) :: ((Npos (XO (XO (XI (XO (XI (XO (XI
    (XO (XI (XO (XI (XI (XO (XO (XI XH)))))))))))))))) :: ((Npos (XI (XI (XO
    (XI (XO (XI (XI (XI (XI (XO (XO (XI (XI (XI (XO
    XH)))))))))))))))) :: ((Npos (XO (XI (XO (XO (XO (XI (XI (XO (XO (XO (XO
    (XI (XO (XI (XO XH)))))))))))))))) :: ((Npos (XI (XO (XO (XI (XI (XI (XI
    (XI (XO (XI (XO (XI (XI (XO (XO XH)))))))))))))))) :: ((Npos (XO (XO (XO
    (XO (XI (XI (XI (XO (XI (XI (XO (XI (XO (XO (XO
    XH)))))))))))))))) :: ((Npos (XO (XO (XO (XI (XO (XO (XO (XO (XO (XO (XI
    (XO (XO (XO (XO XH)))))))))))))))) :: ((Npos (XI (XO (XO (XO (XO (XO (XO
    (XI (XI (XO (XI (XO (XI (XO (XO XH)))))))))))))))) :: ((Npos (XO (XI (XO
    (XI (XI (XO (XO (XO (XI (XI (XI (XO (XO (XI (XO
    XH)))))))))))))))) :: ((Npos (XI (XI (XO (XO (XI (XO (XO (XI (XO (XI (XI
    (XO (XI (XI (XO XH)))))))))))))))) :: ((Npos (XO (XO (XI (XI (XO (XI (XO
    (XO (XO (XI (XO (XO (XO (XO (XI XH)))))))))))))))) :: ((Npos (XI (XO (XI
    (XO (XO (XI (XO (XI (XI (XI (XO (XO (XI (XO (XI
    XH)))))))))))))))) :: ((Npos (XO (XI (XI (XI (XI (XI (XO (XO (XI (XO (XO
    (XO (XO (XI (XI XH)))))))))))))))) :: ((Npos (XI (XI (XI (XO (XI (XI (XO
    (XI (XO (XO (XO (XO (XI (XI (XI XH)))))))))))))))) :: ((Npos (XO (XO (XO
    (XO (XO (XO (XI (XO (XO (XO (XO XH)))))))))))) :: ((Npos (XI (XO (XO (XI
    (XO (XO (XI (XI (XI (XO (XO (XI XH))))))))))))) :: ((Npos (XO (XI (XO (XO
    (XI (XO (XI (XO (XI (XI (XO (XI (XO XH)))))))))))))) :: ((Npos (XI (XI
    (XO (XI (XI (XO (XI (XI (XO (XI (XO (XI (XI XH)))))))))))))) :: ((Npos
    (XO (XO (XI (XO (XO (XI (XI (XO (XO (XI (XI (XI (XO (XO
    XH))))))))))))))) :: ((Npos (XI (XO (XI (XI (XO (XI (XI (XI (XI (XI (XI
    (XI (XI (XO XH))))))))))))))) :: ((Npos (XO (XI (XI (XO (XI (XI (XI (XO
    (XI (XO (XI (XI (XO (XI XH))))))))))))))) :: ((Npos (XI (XI (XI (XI (XI
    (XI (XI (XI (XO (XO (XI (XI (XI (XI XH))))))))))))))) :: ((Npos (XI (XO
    (XO (XI (XO (XO (XO (XI (XO (XO (XI (XO (XI (XO (XO
    XH)))))))))))))))) :: ((Npos (XO (XO (XO (XO (XO (XO (XO (XO (XI (XO (XI
    (XO (XO (XO (XO XH)))))))))))))))) :: ((Npos (XI (XI (XO (XI (XI (XO (XO
    (XI (XI (XI (XI (XO (XI (XI (XO XH)))))))))))))))) :: ((Npos (XO (XI (XO
    (XO (XI (XO (XO (XO (XO (XI (XI (XO (XO (XI (XO
    XH)))))))))))))))) :: ((Npos (XI (XO (XI (XI (XO (XI (XO (XI (XO (XI (XO
    (XO (XI (XO (XI XH)))))))))))))))) :: ((Npos (XO (XO (XI (XO (XO (XI (XO
    (XO (XI (XI (XO (XO (XO (XO (XI XH)))))))))))))))) :: ((Npos (XI (XI (XI
    (XI (XI (XI (XO (XI (XI (XO (XO (XO (XI (XI (XI
    XH)))))))))))))))) :: ((Npos (XO (XI (XI (XO (XI (XI (XO (XO (XO (XO (XO
    (XO (XO (XI (XI XH)))))))))))))))) :: ((Npos (XI (XO (XO (XO (XO (XO (XI
    (XI (XO (XO (XO (XI XH))))))))))))) :: ((Npos (XO (XO (XO (XI (XO (XO (XI
    (XO (XI (XO (XO XH)))))))))))) :: ((Npos (XI (XI (XO (XO (XI (XO (XI (XI
    (XI (XI (XO (XI (XI XH)))))))))))))) :: ((Npos (XO (XI (XO (XI (XI (XO
    (XI (XO (XO (XI (XO (XI (XO XH)))))))))))))) :: ((Npos (XI (XO (XI (XO
    (XO (XI (XI (XI (XO (XI (XI (XI (XI (XO XH))))))))))))))) :: ((Npos (XO
    (XO (XI (XI (XO (XI (XI (XO (XI (XI (XI (XI (XO (XO
    XH))))))))))))))) :: ((Npos (XI (XI (XI (XO (XI (XI (XI (XI (XI (XO (XI
    (XI (XI (XI XH))))))))))))))) :: ((Npos (XO (XI (XI (XI (XI (XI (XI (XO
    (XO (XO (XI (XI (XO (XI XH))))))))))))))) :: ((Npos (XO (XI (XO (XI (XO
    (XO (XO (XO (XI (XO (XI (XO (XO (XI (XO XH)))))))))))))))) :: ((Npos (XI
    (XI (XO (XO (XO (XO (XO (XI (XO (XO (XI (XO (XI (XI (XO
    XH)))))))))))))))) :: ((Npos (XO (XO (XO (XI (XI (XO (XO (XO (XO (XI (XI
    (XO (XO (XO (XO XH)))))))))))))))) :: ((Npos (XI (XO (XO (XO (XI (XO (XO
    (XI (XI (XI (XI (XO (XI (XO (XO XH)))))))))))))))) :: ((Npos (XO (XI (XI
    (XI (XO (XI (XO (XO (XI (XI (XO (XO (XO (XI (XI
    XH)))))))))))))))) :: ((Npos (XI (XI (XI (XO (XO (XI (XO (XI (XO (XI (XO
    (XO (XI (XI (XI XH)))))))))))))))) :: ((Npos (XO (XO (XI (XI (XI (XI (XO
    (XO (XO (XO (XO (XO (XO (XO (XI XH)))))))))))))))) :: ((Npos (XI (XO (XI
    (XO (XI (XI (XO (XI (XI (XO (XO (XO (XI (XO (XI
    XH)))))))))))))))) :: ((Npos (XO (XI (XO (XO (XO (XO (XI (XO (XI (XO (XO
    (XI (XO XH)))))))))))))) :: ((Npos (XI (XI (XO (XI (XO (XO (XI (XI (XO
    (XO (XO (XI (XI XH)))))))))))))) :: ((Npos (XO (XO (XO (XO (XI (XO (XI
    (XO (XO (XI (XO XH)))))))))))) :: ((Npos (XI (XO (XO (XI (XI (XO (XI (XI
    (XI (XI (XO (XI XH))))))))))))) :: ((Npos (XO (XI (XI (XO (XO (XI (XI (XO
    (XI (XI (XI (XI (XO (XI XH))))))))))))))) :: ((Npos (XI (XI (XI (XI (XO
    (XI (XI (XI (XO (XI (XI (XI (XI (XI XH))))))))))))))) :: ((Npos (XO (XO
    (XI (XO (XI (XI (XI (XO (XO (XO (XI (XI (XO (XO
    XH))))))))))))))) :: ((Npos (XI (XO (XI (XI (XI (XI (XI (XI (XI (XO (XI
    (XI (XI (XO XH))))))))))))))) :: ((Npos (XI (XI (XO (XI (XO (XO (XO (XI
    (XI (XO (XI (XO (XI (XI (XO XH)))))))))))))))) :: ((Npos (XO (XI (XO (XO
    (XO (XO (XO (XO (XO (XO (XI (XO (XO (XI (XO XH)))))))))))))))) :: ((Npos
    (XI (XO (XO (XI (XI (XO (XO (XI (XO (XI (XI (XO (XI (XO (XO
    XH)))))))))))))))) :: ((Npos (XO (XO (XO (XO (XI (XO (XO (XO (XI (XI (XI
    (XO (XO (XO (XO XH)))))))))))))))) :: ((Npos (XI (XI (XI (XI (XO (XI (XO
    (XI (XI (XI (XO (XO (XI (XI (XI XH)))))))))))))))) :: ((Npos (XO (XI (XI
    (XO (XO (XI (XO (XO (XO (XI (XO (XO (XO (XI (XI
    XH)))))))))))))))) :: ((Npos (XI (XO (XI (XI (XI (XI (XO (XI (XO (XO (XO
    (XO (XI (XO (XI XH)))))))))))))))) :: ((Npos (XO (XO (XI (XO (XI (XI (XO
    (XO (XI (XO (XO (XO (XO (XO (XI XH)))))))))))))))) :: ((Npos (XI (XI (XO
    (XO (XO (XO (XI (XI (XI (XO (XO (XI (XI XH)))))))))))))) :: ((Npos (XO
    (XI (XO (XI (XO (XO (XI (XO (XO (XO (XO (XI (XO
    XH)))))))))))))) :: ((Npos (XI (XO (XO (XO (XI (XO (XI (XI (XO (XI (XO
    (XI XH))))))))))))) :: ((Npos (XO (XO (XO (XI (XI (XO (XI (XO (XI (XI (XO
    XH)))))))))))) :: ((Npos (XI (XI (XI (XO (XO (XI (XI (XI (XI (XI (XI (XI
    (XI (XI XH))))))))))))))) :: ((Npos (XO (XI (XI (XI (XO (XI (XI (XO (XO
    (XI (XI (XI (XO (XI XH))))))))))))))) :: ((Npos (XI (XO (XI (XO (XI (XI
    (XI (XI (XO (XO (XI (XI (XI (XO XH))))))))))))))) :: ((Npos (XO (XO (XI
    (XI (XI (XI (XI (XO (XI (XO (XI (XI (XO (XO XH))))))))))))))) :: ((Npos
    (XO (XO (XI (XI (XO (XO (XO (XO (XO (XI (XI (XO (XO (XO (XI
    XH)))))))))))))))) :: ((Npos (XI (XO (XI (XO (XO (XO (XO (XI (XI (XI (XI
    (XO (XI (XO (XI XH)))))))))))))))) :: ((Npos (XO (XI (XI (XI (XI (XO (XO
    (XO (XI (XO (XI (XO (XO (XI (XI XH)))))))))))))))) :: ((Npos (XI (XI (XI
    (XO (XI (XO (XO (XI (XO (XO (XI (XO (XI (XI (XI
    XH)))))))))))))))) :: ((Npos (XO (XO (XO (XI (XO (XI (XO (XO (XO (XO (XO
    (XO (XO (XO (XO XH)))))))))))))))) :: ((Npos (XI (XO (XO (XO (XO (XI (XO
    (XI (XI (XO (XO (XO (XI (XO (XO XH)))))))))))))))) :: ((Npos (XO (XI (XO
    (XI (XI (XI (XO (XO (XI (XI (XO (XO (XO (XI (XO
    XH)))))))))))))))) :: ((Npos (XI (XI (XO (XO (XI (XI (XO (XI (XO (XI (XO
    (XO (XI (XI (XO XH)))))))))))))))) :: ((Npos (XO (XO (XI (XO (XO (XO (XI
    (XO (XO (XI (XO (XI (XO (XO XH))))))))))))))) :: ((Npos (XI (XO (XI (XI
    (XO (XO (XI (XI (XI (XI (XO (XI (XI (XO XH))))))))))))))) :: ((Npos (XO
    (XI (XI (XO (XI (XO (XI (XO (XI (XO (XO (XI (XO (XI
    XH))))))))))))))) :: ((Npos (XI (XI (XI (XI (XI (XO (XI (XI (XO (XO (XO
    (XI (XI (XI XH))))))))))))))) :: ((Npos (XO (XO (XO (XO (XO (XI (XI (XO
    (XO (XO (XI XH)))))))))))) :: ((Npos (XI (XO (XO (XI (XO (XI (XI (XI (XI
    (XO (XI (XI XH))))))))))))) :: ((Npos (XO (XI (XO (XO (XI (XI (XI (XO (XI
    (XI (XI (XI (XO XH)))))))))))))) :: ((Npos (XI (XI (XO (XI (XI (XI (XI
    (XI (XO (XI (XI (XI (XI XH)))))))))))))) :: ((Npos (XI (XO (XI (XI (XO
    (XO (XO (XI (XO (XI (XI (XO (XI (XO (XI XH)))))))))))))))) :: ((Npos (XO
    (XO (XI (XO (XO (XO (XO (XO (XI (XI (XI (XO (XO (XO (XI
    XH)))))))))))))))) :: ((Npos (XI (XI (XI (XI (XI (XO (XO (XI (XI (XO (XI
    (XO (XI (XI (XI XH)))))))))))))))) :: ((Npos (XO (XI (XI (XO (XI (XO (XO
    (XO (XO (XO (XI (XO (XO (XI (XI XH)))))))))))))))) :: ((Npos (XI (XO (XO
    (XI (XO (XI (XO (XI (XO (XO (XO (XO (XI (XO (XO
    XH)))))))))))))))) :: ((Npos (XO (XO (XO (XO (XO (XI (XO (XO (XI (XO (XO
    (XO (XO (XO (XO XH)))))))))))))))) :: ((Npos (XI (XI (XO (XI (XI (XI (XO
    (XI (XI (XI (XO (XO (XI (XI (XO XH)))))))))))))))) :: ((Npos (XO (XI (XO
    (XO (XI (XI (XO (XO (XO (XI (XO (XO (XO (XI (XO
    XH)))))))))))))))) :: ((Npos (XI (XO (XI (XO (XO (XO (XI (XI (XO (XI (XO
    (XI (XI (XO XH))))))))))))))) :: ((Npos (XO (XO (XI (XI (XO (XO (XI (XO
    (XI (XI (XO (XI (XO (XO XH))))))))))))))) :: ((Npos (XI (XI (XI (XO (XI
    (XO (XI (XI (XI (XO (XO (XI (XI (XI XH))))))))))))))) :: ((Npos (XO (XI
    (XI (XI (XI (XO (XI (XO (XO (XO (XO (XI (XO (XI
    XH))))))))))))))) :: ((Npos (XI (XO (XO (XO (XO (XI (XI (XI (XO (XO (XI
    (XI XH))))))))))))) :: ((Npos (XO (XO (XO (XI (XO (XI (XI (XO (XI (XO (XI
    XH)))))))))))) :: ((Npos (XI (XI (XO (XO (XI (XI (XI (XI (XI (XI (XI (XI
    (XI XH)))))))))))))) :: ((Npos (XO (XI (XO (XI (XI (XI (XI (XO (XO (XI
    (XI (XI (XO XH)))))))))))))) :: ((Npos (XO (XI (XI (XI (XO (XO (XO (XO
    (XI (XI (XI (XO (XO (XI (XI XH)))))))))))))))) :: ((Npos (XI (XI (XI (XO
    (XO (XO (XO (XI (XO (XI (XI (XO (XI (XI (XI XH)))))))))))))))) :: ((Npos
    (XO (XO (XI (XI (XI (XO (XO (XO (XO (XO (XI (XO (XO (XO (XI
    XH)))))))))))))))) :: ((Npos (XI (XO (XI (XO (XI (XO (XO (XI (XI (XO (XI
    (XO (XI (XO (XI XH)))))))))))))))) :: ((Npos (XO (XI (XO (XI (XO (XI (XO
    (XO (XI (XO (XO (XO (XO (XI (XO XH)))))))))))))))) :: ((Npos (XI (XI (XO
    (XO (XO (XI (XO (XI (XO (XO (XO (XO (XI (XI (XO
    XH)))))))))))))))) :: ((Npos (XO (XO (XO (XI (XI (XI (XO (XO (XO (XI (XO
    (XO (XO (XO (XO XH)))))))))))))))) :: ((Npos (XI (XO (XO (XO (XI (XI (XO
    (XI (XI (XI (XO (XO (XI (XO (XO XH)))))))))))))))) :: ((Npos (XO (XI (XI
    (XO (XO (XO (XI (XO (XI (XI (XO (XI (XO (XI XH))))))))))))))) :: ((Npos
    (XI (XI (XI (XI (XO (XO (XI (XI (XO (XI (XO (XI (XI (XI
    XH))))))))))))))) :: ((Npos (XO (XO (XI (XO (XI (XO (XI (XO (XO (XO (XO
    (XI (XO (XO XH))))))))))))))) :: ((Npos (XI (XO (XI (XI (XI (XO (XI (XI
    (XI (XO (XO (XI (XI (XO XH))))))))))))))) :: ((Npos (XO (XI (XO (XO (XO
    (XI (XI (XO (XI (XO (XI (XI (XO XH)))))))))))))) :: ((Npos (XI (XI (XO
    (XI (XO (XI (XI (XI (XO (XO (XI (XI (XI XH)))))))))))))) :: ((Npos (XO
    (XO (XO (XO (XI (XI (XI (XO (XO (XI (XI XH)))))))))))) :: ((Npos (XI (XO
    (XO (XI (XI (XI (XI (XI (XI (XI (XI (XI XH))))))))))))) :: ((Npos (XI (XI
    (XI (XI (XO (XO (XO (XI (XI (XI (XI (XO (XI (XI (XI
    XH)))))))))))))))) :: ((Npos (XO (XI (XI (XO (XO (XO (XO (XO (XO (XI (XI
    (XO (XO (XI (XI XH)))))))))))))))) :: ((Npos (XI (XO (XI (XI (XI (XO (XO
    (XI (XO (XO (XI (XO (XI (XO (XI XH)))))))))))))))) :: ((Npos (XO (XO (XI
    (XO (XI (XO (XO (XO (XI (XO (XI (XO (XO (XO (XI
    XH)))))))))))))))) :: ((Npos (XI (XI (XO (XI (XO (XI (XO (XI (XI (XO (XO
    (XO (XI (XI (XO XH)))))))))))))))) :: ((Npos (XO (XI (XO (XO (XO (XI (XO
    (XO (XO (XO (XO (XO (XO (XI (XO XH)))))))))))))))) :: ((Npos (XI (XO (XO
    (XI (XI (XI (XO (XI (XO (XI (XO (XO (XI (XO (XO
    XH)))))))))))))))) :: ((Npos (XO (XO (XO (XO (XI (XI (XO (XO (XI (XI (XO
    (XO (XO (XO (XO XH)))))))))))))))) :: ((Npos (XI (XI (XI (XO (XO (XO (XI
    (XI (XI (XI (XO (XI (XI (XI XH))))))))))))))) :: ((Npos (XI (XI (XI (XI
    (XO (XO (XI (XO (XO (XI (XO (XI (XO (XI XH))))))))))))))) :: ((Npos (XI
    (XO (XI (XO (XI (XO (XI (XI (XO (XO (XO (XI (XI (XO
    XH))))))))))))))) :: ((Npos (XO (XO (XI (XI (XI (XO (XI (XO (XI (XO (XO
    (XI (XO (XO XH))))))))))))))) :: ((Npos (XI (XI (XO (XO (XO (XI (XI (XI
    (XI (XO (XI (XI (XI XH)))))))))))))) :: ((Npos (XO (XI (XO (XI (XO (XI
    (XI (XO (XO (XO (XI (XI (XO XH)))))))))))))) :: ((Npos (XI (XO (XO (XO
    (XI (XI (XI (XI (XO (XI (XI (XI XH))))))))))))) :: ((Npos (XO (XO (XO (XI
    (XI (XI (XI (XO (XI (XI (XI
    XH)))))))))))) :: [])))))))))))))))))))))))))))))))))))))))))))))))))))))))))))))))))))))))))))))))))))))))))))))))))))))))))))))))))))))))))))))))))))))))))))))))))))))))))))))))))))))))))))))))))))))))))))))))))))))))))))))))))))))))))))))))))))))))))))))))))))))))))))))))

(** val crc8_step : n -> n -> n **)

let crc8_step s b =
  nth (N.to_nat (N.coq_lxor s b)) crc8_table N0

(** val crc16_step : n -> n -> n **)

let crc16_step s b =
  N.coq_lxor (N.shiftr s (Npos (XO (XO (XO XH)))))
    (nth
      (N.to_nat
        (N.coq_land (N.coq_lxor s b) (Npos (XI (XI (XI (XI (XI (XI (XI
          XH)))))))))) crc16_table N0)

(** val crc8_from : n -> n list -> n **)

let crc8_from s bytes =
  fold_left crc8_step bytes s

(** val crc16_from : n -> n list -> n **)

let crc16_from s bytes =
  fold_left crc16_step bytes s
