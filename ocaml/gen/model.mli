
type nat =
| O
| S of nat



val add : nat -> nat -> nat

type positive =
| XI of positive
| XO of positive
| XH

type n =
| N0
| Npos of positive

module Pos :
 sig
  val pred_double : positive -> positive

  val pred_N : positive -> n

  val iter : ('a1 -> 'a1) -> 'a1 -> positive -> 'a1

  val coq_Nsucc_double : n -> n

  val coq_Ndouble : n -> n

  val coq_land : positive -> positive -> n

  val coq_lxor : positive -> positive -> n

  val testbit : positive -> n -> bool

  val iter_op : ('a1 -> 'a1 -> 'a1) -> positive -> 'a1 -> 'a1

  val to_nat : positive -> nat
 end

module N :
 sig
  val div2 : n -> n

  val coq_land : n -> n -> n

  val coq_lxor : n -> n -> n

  val shiftr : n -> n -> n

  val testbit : n -> n -> bool

  val to_nat : n -> nat
 end

val nth : nat -> 'a1 list -> 'a1 -> 'a1

val fold_left : ('a1 -> 'a2 -> 'a1) -> 'a2 list -> 'a1 -> 'a1

val iter0 : nat -> ('a1 -> 'a1) -> 'a1 -> 'a1

val round : n -> n -> n

val byte_step : n -> n -> n -> n

val crc_reg : n -> n list -> n -> n

val crc_spec : n -> n -> n -> n list -> n

val poly8 : n

val crc8_spec : n list -> n

val poly16 : n

val crc16_spec : n list -> n

val crc8_table : n list

val crc16_table : n list

val crc8_step : n -> n -> n

val crc16_step : n -> n -> n

val crc8_from : n -> n list -> n

val crc16_from : n -> n list -> n
